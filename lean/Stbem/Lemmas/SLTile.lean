import Stbem.Lemmas.SLPanels
import Stbem.Lemmas.QuadBasic

/-! Tiling, containment, area and alignment of the panel list, by induction on `Tiles`. -/
namespace Stbem.SL
open Stbem.Quad

/-- half-open membership of a point in a panel -/
def Panel.covers (p : Panel) (x y : Rat) : Prop := p.a ≤ x ∧ x < p.b ∧ p.c ≤ y ∧ y < p.d

instance (p : Panel) (x y : Rat) : Decidable (p.covers x y) := by unfold Panel.covers; infer_instance

/-- number of panels of the list that contain the point -/
def coverCount (ps : List Panel) (x y : Rat) : Nat := ps.countP fun p => decide (p.covers x y)

/-- total area of the panels -/
def area (ps : List Panel) : Rat := sumR (ps.map fun p => (p.b - p.a) * (p.d - p.c))

/-- indicator of the half-open rectangle -/
def ind (a b c d x y : Rat) : Nat := if a ≤ x ∧ x < b ∧ c ≤ y ∧ y < d then 1 else 0

theorem coverCount_append (p q : List Panel) (x y : Rat) :
    coverCount (p ++ q) x y = coverCount p x y + coverCount q x y := by
  simp [coverCount, List.countP_append]

theorem coverCount_cons (p : Panel) (q : List Panel) (x y : Rat) :
    coverCount (p :: q) x y = ind p.a p.b p.c p.d x y + coverCount q x y := by
  unfold coverCount ind
  rw [List.countP_cons]
  by_cases h : p.covers x y
  · have h' := h; unfold Panel.covers at h'; simp [h, h', add_comm]
  · have h' := h; unfold Panel.covers at h'; simp [h, h']

theorem coverCount_single (p : Panel) (x y : Rat) :
    coverCount [p] x y = ind p.a p.b p.c p.d x y := by
  rw [coverCount_cons]; simp [coverCount]

theorem ind_splitX {a m b c d x y : Rat} (h1 : a ≤ m) (h2 : m ≤ b) :
    ind a m c d x y + ind m b c d x y = ind a b c d x y := by
  unfold ind
  by_cases hy : c ≤ y ∧ y < d
  · by_cases hm : x < m
    · have h3 : ¬ m ≤ x := not_le.mpr hm
      have h4 : x < b := lt_of_lt_of_le hm h2
      simp [hy, hm, h3, h4]
    · have hm' := not_lt.mp hm
      have h3 : a ≤ x := le_trans h1 hm'
      simp [hy, hm, hm', h3]
  · have h3 : ∀ p q : Prop, ¬ (p ∧ q ∧ c ≤ y ∧ y < d) := fun p q h => hy h.2.2
    simp [h3]

theorem ind_splitY {a b c m d x y : Rat} (h1 : c ≤ m) (h2 : m ≤ d) :
    ind a b c m x y + ind a b m d x y = ind a b c d x y := by
  unfold ind
  by_cases hx : a ≤ x ∧ x < b
  · by_cases hm : y < m
    · have h3 : ¬ m ≤ y := not_le.mpr hm
      have h4 : y < d := lt_of_lt_of_le hm h2
      simp [hx, hm, h3, h4]
    · have hm' := not_lt.mp hm
      have h3 : c ≤ y := le_trans h1 hm'
      simp [hx, hm, hm', h3]
  · have h3 : ∀ p q : Prop, ¬ (a ≤ x ∧ x < b ∧ p ∧ q) := fun p q h => hx ⟨h.1, h.2.1⟩
    simp [h3]

/-- **tiling**: the number of panels containing `(x,y)` is the indicator of `[a,b)×[c,d)` -/
theorem Tiles.count {cfg n a b c d ps} (h : Tiles cfg n a b c d ps) (x y : Rat) :
    coverCount ps x y = ind a b c d x y := by
  induction h with
  | ident _ _ _ => exact coverCount_single _ _ _
  | touchSq _ _ _ _ => exact coverCount_single _ _ _
  | @touchWide n a b c d r hB _ _ _ hw _ ih =>
    rw [coverCount_cons, ih, add_comm]
    exact ind_splitX (by linarith [hB.cd]) (by linarith [hB.cd])
  | @touchTall n a b c d r hB _ _ _ hw _ ih =>
    rw [coverCount_cons, ih]
    exact ind_splitY (by linarith [hB.ab]) (by linarith [hB.ab])
  | seamSq _ _ _ _ => exact coverCount_single _ _ _
  | @seamWide n a b c d r hA _ _ _ hw _ ih =>
    rw [coverCount_cons, ih]
    exact ind_splitX (by linarith [hA.cd]) (by linarith [hA.cd])
  | @seamTall n a b c d r hA _ _ _ hw _ ih =>
    rw [coverCount_append, coverCount_single, ih]
    exact ind_splitY (by linarith [hA.ab]) (by linarith [hA.ab])
  | farX _ _ _ _ => exact coverCount_single _ _ _
  | farY _ _ _ _ => exact coverCount_single _ _ _
  | @over n a b c d r hA _ _ hdb _ ih =>
    rw [coverCount_append, coverCount_single, ih]
    refine ind_splitX ?_ (le_of_lt hdb)
    rcases hA.lex with h | ⟨h, _⟩ <;> linarith [hA.cd]
  | @nest n1 n2 a b c d r1 r2 hA _ hbc _ hac hbd _ _ ih1 ih2 =>
    rw [coverCount_append, ih1, ih2]
    exact ind_splitY (by linarith [hA.ab]) (le_of_lt hbd)
  | @stag n1 n2 a b c d r1 r2 hA _ hbc _ _ _ hac _ _ ih1 ih2 =>
    rw [coverCount_append, ih1, ih2]
    exact ind_splitX (le_of_lt hac) (not_lt.mp hbc)

/-- every panel is a non-degenerate rectangle inside `[a,b]×[c,d]` -/
theorem Tiles.inside {cfg n a b c d ps} (h : Tiles cfg n a b c d ps) :
    ∀ p ∈ ps, a ≤ p.a ∧ p.a < p.b ∧ p.b ≤ b ∧ c ≤ p.c ∧ p.c < p.d ∧ p.d ≤ d := by
  induction h with
  | ident hB _ _ | touchSq hB _ _ _ =>
    intro p hp; rw [List.mem_singleton] at hp; subst hp
    exact ⟨le_refl _, hB.ab, le_refl _, le_refl _, hB.cd, le_refl _⟩
  | seamSq hA _ _ _ | farX hA _ _ _ | farY hA _ _ _ =>
    intro p hp; rw [List.mem_singleton] at hp; subst hp
    exact ⟨le_refl _, hA.ab, le_refl _, le_refl _, hA.cd, le_refl _⟩
  | @touchWide n a b c d r hB _ _ _ hw _ ih =>
    intro p hp
    rcases List.mem_cons.mp hp with hp | hp
    · subst hp; have := hB.cd; have := hB.ab
      refine ⟨?_, ?_, ?_, ?_, ?_, ?_⟩ <;> simp only [] <;> linarith
    · obtain ⟨h1, h2, h3, h4, h5, h6⟩ := ih p hp
      have := hB.cd
      exact ⟨h1, h2, by linarith, h4, h5, h6⟩
  | @touchTall n a b c d r hB _ _ _ hw _ ih =>
    intro p hp
    rcases List.mem_cons.mp hp with hp | hp
    · subst hp; have := hB.cd; have := hB.ab
      refine ⟨?_, ?_, ?_, ?_, ?_, ?_⟩ <;> simp only [] <;> linarith
    · obtain ⟨h1, h2, h3, h4, h5, h6⟩ := ih p hp
      have := hB.ab
      exact ⟨h1, h2, h3, by linarith, h5, h6⟩
  | @seamWide n a b c d r hA _ _ _ hw _ ih =>
    intro p hp
    rcases List.mem_cons.mp hp with hp | hp
    · subst hp; have := hA.cd; have := hA.ab
      refine ⟨?_, ?_, ?_, ?_, ?_, ?_⟩ <;> simp only [] <;> linarith
    · obtain ⟨h1, h2, h3, h4, h5, h6⟩ := ih p hp
      have := hA.cd
      exact ⟨by linarith, h2, h3, h4, h5, h6⟩
  | @seamTall n a b c d r hA _ _ _ hw _ ih =>
    intro p hp
    rcases List.mem_append.mp hp with hp | hp
    · obtain ⟨h1, h2, h3, h4, h5, h6⟩ := ih p hp
      have := hA.ab
      exact ⟨h1, h2, h3, h4, h5, by linarith⟩
    · rw [List.mem_singleton] at hp
      subst hp; have := hA.cd; have := hA.ab
      refine ⟨?_, ?_, ?_, ?_, ?_, ?_⟩ <;> simp only [] <;> linarith
  | @over n a b c d r hA _ _ hdb _ ih =>
    intro p hp
    have hac : a ≤ c := by rcases hA.lex with h | ⟨h, _⟩ <;> linarith
    rcases List.mem_append.mp hp with hp | hp
    · obtain ⟨h1, h2, h3, h4, h5, h6⟩ := ih p hp
      exact ⟨h1, h2, by linarith, h4, h5, h6⟩
    · rw [List.mem_singleton] at hp
      subst hp; have := hA.cd; have := hA.ab
      refine ⟨?_, ?_, ?_, ?_, ?_, ?_⟩ <;> simp only [] <;> linarith
  | @nest n1 n2 a b c d r1 r2 hA _ hbc _ hac hbd _ _ ih1 ih2 =>
    intro p hp
    have := hA.ab
    rcases List.mem_append.mp hp with hp | hp
    · obtain ⟨h1, h2, h3, h4, h5, h6⟩ := ih1 p hp
      exact ⟨h1, h2, h3, h4, h5, by linarith⟩
    · obtain ⟨h1, h2, h3, h4, h5, h6⟩ := ih2 p hp
      exact ⟨h1, h2, h3, by linarith, h5, h6⟩
  | @stag n1 n2 a b c d r1 r2 hA _ hbc _ _ _ hac _ _ ih1 ih2 =>
    intro p hp
    have := not_lt.mp hbc
    rcases List.mem_append.mp hp with hp | hp
    · obtain ⟨h1, h2, h3, h4, h5, h6⟩ := ih1 p hp
      exact ⟨h1, h2, by linarith, h4, h5, h6⟩
    · obtain ⟨h1, h2, h3, h4, h5, h6⟩ := ih2 p hp
      exact ⟨by linarith, h2, h3, h4, h5, h6⟩

theorem area_append (p q : List Panel) : area (p ++ q) = area p + area q := by
  simp [area]

theorem area_cons (p : Panel) (q : List Panel) :
    area (p :: q) = (p.b - p.a) * (p.d - p.c) + area q := by
  simp [area]

theorem area_single (p : Panel) : area [p] = (p.b - p.a) * (p.d - p.c) := by
  simp [area]

/-- the panel areas add up to the area of the rectangle -/
theorem Tiles.area {cfg n a b c d ps} (h : Tiles cfg n a b c d ps) :
    area ps = (b - a) * (d - c) := by
  induction h with
  | ident _ _ _ | touchSq _ _ _ _ | seamSq _ _ _ _ | farX _ _ _ _ | farY _ _ _ _ =>
    exact area_single _
  | touchWide _ _ _ _ _ _ ih | touchTall _ _ _ _ _ _ ih | seamWide _ _ _ _ _ _ ih =>
    rw [area_cons, ih]; ring
  | seamTall _ _ _ _ _ _ ih | over _ _ _ _ _ ih =>
    rw [area_append, area_single, ih]; ring
  | nest _ _ _ _ _ _ _ _ ih1 ih2 | stag _ _ _ _ _ _ _ _ _ ih1 ih2 =>
    rw [area_append, ih1, ih2]; ring

end Stbem.SL

namespace Stbem.SL

/-- a count of one means: exactly one list entry satisfies the predicate -/
theorem countP_one {α} (p : α → Bool) : ∀ (l : List α), l.countP p = 1 →
    ∃ a ∈ l, p a = true ∧ ∀ b ∈ l, p b = true → b = a := by
  intro l
  induction l with
  | nil => intro h; simp at h
  | cons x l ih =>
    intro h
    rw [List.countP_cons] at h
    by_cases hx : p x = true
    · simp only [hx, if_true] at h
      have h0 : l.countP p = 0 := by omega
      rw [List.countP_eq_zero] at h0
      refine ⟨x, by simp, hx, ?_⟩
      intro b hb hpb
      rcases List.mem_cons.mp hb with hb | hb
      · exact hb
      · exact absurd hpb (h0 b hb)
    · simp only [hx, Bool.false_eq_true, if_false, Nat.add_zero] at h
      obtain ⟨a, ha, hpa, hu⟩ := ih h
      refine ⟨a, by simp [ha], hpa, ?_⟩
      intro b hb hpb
      rcases List.mem_cons.mp hb with hb | hb
      · subst hb; exact absurd hpb hx
      · exact hu b hb hpb

end Stbem.SL
