import Stbem.Lemmas.HalfEdgeInv

/-!
# H-layer: specifications of the primitive steps (`Element.__init__`, `Edge.bisect`, `__bisect_edge`, …)
-/
namespace Stbem.HalfEdge
open Stbem.Mesh (Ax Side Cell Mesh)

theorem edge_setEdge_ge (h : HMesh) {i : Nat} (f : HEdge → HEdge) (hi : h.edges.size ≤ i) (j : Nat) :
    (h.setEdge i f).edge j = h.edge j := by
  by_cases hj : j = i
  · subst hj
    rw [edge_ge_size _ (by simpa using hi), edge_ge_size _ hi]
  · exact edge_setEdge_ne h f hj

theorem edge_setEdge' (h : HMesh) {i : Nat} (f : HEdge → HEdge) (hi : i < h.edges.size) (j : Nat) :
    (h.setEdge i f).edge j = if j = i then f (h.edge j) else h.edge j := by
  rw [edge_setEdge h f hi]
  split
  · rename_i e; rw [e]
  · rfl

/-- a field that the update `f` does not touch is unchanged by `setEdge` -/
theorem edge_setEdge_field {β : Type} (g : HEdge → β) (h : HMesh) (i : Nat) (f : HEdge → HEdge)
    (hf : ∀ e, g (f e) = g e) (j : Nat) : g ((h.setEdge i f).edge j) = g (h.edge j) := by
  by_cases hi : i < h.edges.size
  · rw [edge_setEdge h f hi]
    split
    · rename_i e; subst e; exact hf _
    · rfl
  · rw [edge_setEdge_ge h f (by omega)]

def setOB (e : HEdge) : HEdge := { e with onBoundary := true }
def setNbr (x : Nat) (e : HEdge) : HEdge := { e with nbr := some x }

/-- `elem := x` on edge `i` -/
def setOwner (x : Option Nat) (e : HEdge) : HEdge := { e with elem := x }

@[simp] theorem setOwner_v0 (x : Option Nat) (e : HEdge) : (setOwner x e).v0 = e.v0 := rfl
@[simp] theorem setOwner_v1 (x : Option Nat) (e : HEdge) : (setOwner x e).v1 = e.v1 := rfl
@[simp] theorem setOwner_elem (x : Option Nat) (e : HEdge) : (setOwner x e).elem = x := rfl
@[simp] theorem setOwner_nbr (x : Option Nat) (e : HEdge) : (setOwner x e).nbr = e.nbr := rfl
@[simp] theorem setOwner_kids (x : Option Nat) (e : HEdge) : (setOwner x e).kids = e.kids := rfl
@[simp] theorem setOwner_parent (x : Option Nat) (e : HEdge) : (setOwner x e).parent = e.parent := rfl
@[simp] theorem setOwner_glued (x : Option Nat) (e : HEdge) : (setOwner x e).glued = e.glued := rfl
@[simp] theorem setOwner_onBoundary (x : Option Nat) (e : HEdge) : (setOwner x e).onBoundary = e.onBoundary := rfl

theorem setOwner_edge_v0 (h : HMesh) (i : Nat) (x : Option Nat) (j : Nat) :
    ((h.setEdge i (setOwner x)).edge j).v0 = (h.edge j).v0 :=
  edge_setEdge_field (·.v0) h i (setOwner x) (fun _ => rfl) j

theorem setOwner_edge_v1 (h : HMesh) (i : Nat) (x : Option Nat) (j : Nat) :
    ((h.setEdge i (setOwner x)).edge j).v1 = (h.edge j).v1 :=
  edge_setEdge_field (·.v1) h i (setOwner x) (fun _ => rfl) j

/-- the mesh after `Element(edges, levels, parent)` + `glob_idx` assignment -/
def regElem (h : HMesh) (e0 e1 e2 e3 : Nat) (lt lx : Nat) (parent : Option Nat) (id : Nat) : HMesh :=
  let el := h.elems.size
  let h1 := (((h.setEdge e0 (setOwner (some el))).setEdge e1 (setOwner (some el))).setEdge e2
    (setOwner (some el))).setEdge e3 (setOwner (some el))
  let E : HElem := { e0 := e0, e1 := e1, e2 := e2, e3 := e3, lt := lt, lx := lx, parent := parent, id := id,
                     piece := (match parent with | some p => (h.elem p).piece | none => 0) }
  { h1 with elems := h1.elems.push E }

@[simp] theorem ok_bind {ε α β : Type} (a : α) (f : α → Except ε β) : (Except.ok a >>= f) = f a := rfl

@[simp] theorem pure_eq_ok {ε α : Type} (a : α) : (pure a : Except ε α) = Except.ok a := rfl

theorem assert_ok {b : Bool} {tag : String} (hb : b = true) : assert b tag = .ok () := by
  subst hb; rfl

/-- `Element.__init__` succeeds when the four (distinct, unowned) edges run around a proper rectangle -/
theorem newElem_ok (h : HMesh) (e0 e1 e2 e3 lt lx : Nat) (parent : Option Nat) (id : Nat)
    (hr : e0 < h.edges.size ∧ e1 < h.edges.size ∧ e2 < h.edges.size ∧ e3 < h.edges.size)
    (hd : e0 ≠ e1 ∧ e0 ≠ e2 ∧ e0 ≠ e3 ∧ e1 ≠ e2 ∧ e1 ≠ e3 ∧ e2 ≠ e3)
    (hn : (h.edge e0).elem = none ∧ (h.edge e1).elem = none ∧ (h.edge e2).elem = none ∧ (h.edge e3).elem = none)
    (hroot : parent = none → lt = 0 ∧ lx = 0)
    (chain : (h.edge e3).v1 = (h.edge e0).v0 ∧ (h.edge e0).v1 = (h.edge e1).v0 ∧
      (h.edge e1).v1 = (h.edge e2).v0 ∧ (h.edge e2).v1 = (h.edge e3).v0)
    (geom : (h.vert (h.edge e0).v0).t = (h.vert (h.edge e1).v0).t ∧
      (h.vert (h.edge e1).v0).x = (h.vert (h.edge e2).v0).x ∧
      (h.vert (h.edge e2).v0).t = (h.vert (h.edge e3).v0).t ∧
      (h.vert (h.edge e3).v0).x = (h.vert (h.edge e0).v0).x ∧
      (h.vert (h.edge e0).v0).t < (h.vert (h.edge e2).v0).t ∧
      (h.vert (h.edge e0).v0).x < (h.vert (h.edge e1).v0).x) :
    h.newElem e0 e1 e2 e3 lt lx parent id = .ok (regElem h e0 e1 e2 e3 lt lx parent id, h.elems.size) := by
  obtain ⟨r0, r1, r2, r3⟩ := hr
  obtain ⟨d01, d02, d03, d12, d13, d23⟩ := hd
  obtain ⟨n0, n1, n2, n3⟩ := hn
  obtain ⟨c0, c1, c2, c3⟩ := chain
  obtain ⟨g0, g1, g2, g3, g4, g5⟩ := geom
  unfold HMesh.newElem
  have hpiece : assert (parent.isSome || (lt == 0 && lx == 0)) "root-levels" = .ok () := by
    cases parent with
    | some p => rfl
    | none =>
      obtain ⟨rfl, rfl⟩ := hroot rfl
      rfl
  -- the registration loop
  set el := h.elems.size with hel
  set h1 := (((h.setEdge e0 (setOwner (some el))).setEdge e1 (setOwner (some el))).setEdge e2
    (setOwner (some el))).setEdge e3 (setOwner (some el)) with hh1
  have hreg : [e0, e1, e2, e3].foldlM (fun (h : HMesh) ei => do
      assert (h.edge ei).elem.isNone "edge-has-elem"
      pure (h.setEdge ei fun e => { e with elem := some el })) h = .ok h1 := by
    simp only [List.foldlM_cons, List.foldlM_nil]
    rw [assert_ok (by rw [n0]; rfl)]
    simp only [ok_bind, pure_eq_ok]
    rw [assert_ok (by rw [edge_setEdge_ne _ _ (Ne.symm d01), n1]; rfl)]
    simp only [ok_bind]
    rw [assert_ok (by rw [edge_setEdge_ne _ _ (Ne.symm d12), edge_setEdge_ne _ _ (Ne.symm d02), n2]; rfl)]
    simp only [ok_bind]
    rw [assert_ok (by
      rw [edge_setEdge_ne _ _ (Ne.symm d23), edge_setEdge_ne _ _ (Ne.symm d13),
        edge_setEdge_ne _ _ (Ne.symm d03), n3]; rfl)]
    rfl
  have hv0 : ∀ j, (h1.edge j).v0 = (h.edge j).v0 := by
    intro j
    rw [hh1, setOwner_edge_v0, setOwner_edge_v0, setOwner_edge_v0, setOwner_edge_v0]
  have hv1 : ∀ j, (h1.edge j).v1 = (h.edge j).v1 := by
    intro j
    rw [hh1, setOwner_edge_v1, setOwner_edge_v1, setOwner_edge_v1, setOwner_edge_v1]
  have hvert : ∀ j, h1.vert j = h.vert j := fun j => rfl
  have hx : ¬ (h.vert (h.edge e2).v0).x - (h.vert (h.edge e0).v0).x < 0 := by rw [← g1]; linarith
  have ht : ¬ (h.vert (h.edge e2).v0).t - (h.vert (h.edge e0).v0).t < 0 := by linarith
  rw [hpiece]
  simp only [ok_bind]
  rw [hreg]
  simp only [ok_bind, hv0, hv1, hvert]
  rw [assert_ok (by simp [c0]), assert_ok (by simp [c1]), assert_ok (by simp [c2]), assert_ok (by simp [c3]),
    assert_ok (by simp [g0]), assert_ok (by simp [g1]), assert_ok (by simp [g2]), assert_ok (by simp [g3]),
    assert_ok (by simp [g4]), assert_ok (by simp [g5]),
    assert_ok (by simp only [qabs, beq_iff_eq]; rw [if_neg hx]),
    assert_ok (by simp only [qabs, beq_iff_eq]; rw [if_neg ht])]
  rfl

/-! ### effect of `regElem` -/

theorem setOwner_idem (x : Option Nat) (e : HEdge) : setOwner x (setOwner x e) = setOwner x e := rfl

theorem regElem_edge (h : HMesh) (e0 e1 e2 e3 lt lx : Nat) (parent : Option Nat) (id : Nat)
    (hr : e0 < h.edges.size ∧ e1 < h.edges.size ∧ e2 < h.edges.size ∧ e3 < h.edges.size) (j : Nat) :
    (regElem h e0 e1 e2 e3 lt lx parent id).edge j =
      if j = e0 ∨ j = e1 ∨ j = e2 ∨ j = e3 then setOwner (some h.elems.size) (h.edge j) else h.edge j := by
  obtain ⟨r0, r1, r2, r3⟩ := hr
  show ((((h.setEdge e0 (setOwner (some h.elems.size))).setEdge e1 (setOwner (some h.elems.size))).setEdge e2
    (setOwner (some h.elems.size))).setEdge e3 (setOwner (some h.elems.size))).edge j = _
  rw [edge_setEdge' _ _ (by simpa using r3), edge_setEdge' _ _ (by simpa using r2),
    edge_setEdge' _ _ (by simpa using r1), edge_setEdge' _ _ r0]
  split_ifs <;> first | rfl | (exfalso; tauto)

@[simp] theorem regElem_edges_size (h : HMesh) (e0 e1 e2 e3 lt lx : Nat) (parent : Option Nat) (id : Nat) :
    (regElem h e0 e1 e2 e3 lt lx parent id).edges.size = h.edges.size := by
  simp [regElem]

@[simp] theorem regElem_elems_size (h : HMesh) (e0 e1 e2 e3 lt lx : Nat) (parent : Option Nat) (id : Nat) :
    (regElem h e0 e1 e2 e3 lt lx parent id).elems.size = h.elems.size + 1 := by
  simp [regElem]

@[simp] theorem regElem_verts (h : HMesh) (e0 e1 e2 e3 lt lx : Nat) (parent : Option Nat) (id : Nat) :
    (regElem h e0 e1 e2 e3 lt lx parent id).verts = h.verts := rfl
@[simp] theorem regElem_vert (h : HMesh) (e0 e1 e2 e3 lt lx : Nat) (parent : Option Nat) (id : Nat) (j : Nat) :
    (regElem h e0 e1 e2 e3 lt lx parent id).vert j = h.vert j := rfl
@[simp] theorem regElem_leaves (h : HMesh) (e0 e1 e2 e3 lt lx : Nat) (parent : Option Nat) (id : Nat) :
    (regElem h e0 e1 e2 e3 lt lx parent id).leaves = h.leaves := rfl
@[simp] theorem regElem_nElems (h : HMesh) (e0 e1 e2 e3 lt lx : Nat) (parent : Option Nat) (id : Nat) :
    (regElem h e0 e1 e2 e3 lt lx parent id).nElems = h.nElems := rfl

@[simp] theorem regElem_glue (h : HMesh) (e0 e1 e2 e3 lt lx : Nat) (parent : Option Nat) (id : Nat) :
    (regElem h e0 e1 e2 e3 lt lx parent id).glue = h.glue := rfl
@[simp] theorem regElem_xmin (h : HMesh) (e0 e1 e2 e3 lt lx : Nat) (parent : Option Nat) (id : Nat) :
    (regElem h e0 e1 e2 e3 lt lx parent id).xmin = h.xmin := rfl
@[simp] theorem regElem_xmax (h : HMesh) (e0 e1 e2 e3 lt lx : Nat) (parent : Option Nat) (id : Nat) :
    (regElem h e0 e1 e2 e3 lt lx parent id).xmax = h.xmax := rfl
@[simp] theorem regElem_tmin (h : HMesh) (e0 e1 e2 e3 lt lx : Nat) (parent : Option Nat) (id : Nat) :
    (regElem h e0 e1 e2 e3 lt lx parent id).tmin = h.tmin := rfl
@[simp] theorem regElem_tmax (h : HMesh) (e0 e1 e2 e3 lt lx : Nat) (parent : Option Nat) (id : Nat) :
    (regElem h e0 e1 e2 e3 lt lx parent id).tmax = h.tmax := rfl

theorem regElem_elem_lt (h : HMesh) (e0 e1 e2 e3 lt lx : Nat) (parent : Option Nat) (id : Nat) {k : Nat}
    (hk : k < h.elems.size) : (regElem h e0 e1 e2 e3 lt lx parent id).elem k = h.elem k := by
  simp only [elem_def, regElem, setEdge_elems, Array.getElem?_push]
  rw [if_neg (by omega)]

theorem regElem_elem_self (h : HMesh) (e0 e1 e2 e3 lt lx : Nat) (parent : Option Nat) (id : Nat) :
    (regElem h e0 e1 e2 e3 lt lx parent id).elem h.elems.size =
      { e0 := e0, e1 := e1, e2 := e2, e3 := e3, lt := lt, lx := lx, parent := parent, id := id,
        piece := (match parent with | some p => (h.elem p).piece | none => 0) } := by
  simp [elem_def, regElem]

/-! ### describing the edge array by a function -/

def EdgesAre (h : HMesh) (n : Nat) (F : Nat → HEdge) : Prop :=
  h.edges.size = n ∧ ∀ k < n, h.edge k = F k

def upd (F : Nat → HEdge) (i : Nat) (e : HEdge) : Nat → HEdge := fun k => if k = i then e else F k

theorem EdgesAre.newEdge {h : HMesh} {n : Nat} {F : Nat → HEdge} (H : EdgesAre h n F) (v0 v1 : Nat)
    (p : Option Nat) : EdgesAre (h.newEdge v0 v1 p).1 (n + 1) (upd F n (h.mkEdge v0 v1 p)) := by
  obtain ⟨sz, hF⟩ := H
  refine ⟨by simp [sz], ?_⟩
  intro k hk
  unfold upd
  split
  · rename_i e; subst e; rw [← sz, edge_newEdge_self]
  · rw [edge_newEdge_lt _ _ _ _ (by omega), hF k (by omega)]

theorem EdgesAre.setEdge {h : HMesh} {n : Nat} {F : Nat → HEdge} (H : EdgesAre h n F) {i : Nat} (hi : i < n)
    (f : HEdge → HEdge) : EdgesAre (h.setEdge i f) n (upd F i (f (F i))) := by
  obtain ⟨sz, hF⟩ := H
  refine ⟨by simp [sz], ?_⟩
  intro k hk
  unfold upd
  rw [edge_setEdge _ _ (by omega)]
  split
  · rw [hF i hi]
  · exact hF k hk

theorem EdgesAre.congr {h : HMesh} {n : Nat} {F G : Nat → HEdge} (H : EdgesAre h n F)
    (hFG : ∀ k < n, F k = G k) : EdgesAre h n G :=
  ⟨H.1, fun k hk => (H.2 k hk).trans (hFG k hk)⟩

theorem EdgesAre.regElem {h : HMesh} {n : Nat} {F : Nat → HEdge} (H : EdgesAre h n F)
    (e0 e1 e2 e3 lt lx : Nat) (parent : Option Nat) (id : Nat)
    (hr : e0 < n ∧ e1 < n ∧ e2 < n ∧ e3 < n) :
    EdgesAre (regElem h e0 e1 e2 e3 lt lx parent id) n
      (fun j => if j = e0 ∨ j = e1 ∨ j = e2 ∨ j = e3 then setOwner (some h.elems.size) (F j) else F j) := by
  obtain ⟨sz, hF⟩ := H
  refine ⟨by simp [sz], ?_⟩
  intro k hk
  rw [regElem_edge _ _ _ _ _ _ _ _ _ (by rw [sz]; exact hr), hF k hk]

end Stbem.HalfEdge
