import Stbem.Lemmas.MeshOps

/-!
# Grading (`refine_grading`): partial correctness and absence of assertion failures after the repair

* `grading_window'`: whatever `grading` returns has every leaf inside the window
  `h_t/K < h_x^σ < K h_t` (both variants of the space loop);
* `gradeSweep_ok_gen`: with the repaired space loop (`fixed = true`) a sweep never fails on a mesh
  satisfying `Inv`.  The lemma is generic in an additional invariant `J` (used by the termination
  proof in `MeshGradingTerm`).
-/
namespace Stbem.Mesh

/-! ### the window -/

/-- a leaf is in the window iff neither mark applies -/
def InWindow (c : Cell) (p q : Nat) (K : Rat) : Prop :=
  markTime c p q K = false ∧ markSpace c p q K = false

theorem inWindow_iff' (c : Cell) (p q : Nat) (K : Rat) :
    InWindow c p q K ↔ ((c.t1 - c.t0) / K) ^ q < (c.x1 - c.x0) ^ p ∧
      (c.x1 - c.x0) ^ p < (K * (c.t1 - c.t0)) ^ q := by
  simp only [InWindow, markTime, markSpace, decide_eq_false_iff_not, ge_iff_le, not_le]

/-! ### a sweep that reports "nothing marked" is the identity -/

theorem sortBy_nil {α} (lt : α → α → Bool) : sortBy lt ([] : List α) = [] := rfl

theorem refineAll_nil (m : Mesh) (ax : Ax) : refineAll m [] ax = .ok m := rfl

theorem gradeSweep_false {fixed : Bool} {m : Mesh} {p q : Nat} {K : Rat} {m' : Mesh}
    (hr : gradeSweep fixed m p q K = .ok (m', false)) :
    m' = m ∧ ∀ c ∈ m.leaves, InWindow c p q K := by
  unfold gradeSweep at hr
  simp only [bind, Except.bind, pure, Except.pure] at hr
  split at hr
  · cases hr
  · rename_i m1 h1
    split at hr
    · cases hr
    · rename_i m2 h2
      injection hr with hr
      injection hr with e1 e2
      subst e1
      simp only [Bool.or_eq_false_iff, Bool.not_eq_false', List.isEmpty_iff] at e2
      obtain ⟨et, es⟩ := e2
      rw [et] at h1
      rw [es] at h2
      simp only [sortBy_nil, List.map_nil] at h1 h2
      rw [refineAll_nil] at h1
      cases h1
      rw [List.foldlM_nil] at h2
      cases h2
      refine ⟨rfl, ?_⟩
      intro c hc
      have ht : markTime c p q K = false := by
        by_contra hne
        have : c ∈ List.filter (fun c => markTime c p q K) m.leaves :=
          List.mem_filter.mpr ⟨hc, by simpa using hne⟩
        rw [et] at this
        simp at this
      have hs : markSpace c p q K = false := by
        by_contra hne
        have : c ∈ List.filter (fun c => !markTime c p q K && markSpace c p q K) m.leaves :=
          List.mem_filter.mpr ⟨hc, by simp [ht, (by simpa using hne : markSpace c p q K = true)]⟩
        rw [es] at this
        simp at this
      exact ⟨ht, hs⟩

theorem grading_window' (fixed : Bool) (fuel : Nat) : ∀ {m : Mesh}, Inv m → ∀ {p q : Nat} {K : Rat}
    {m' : Mesh}, grading fixed fuel m p q K = .ok m' →
    Inv m' ∧ Refines m m' ∧ ∀ c ∈ m'.leaves, InWindow c p q K := by
  induction fuel with
  | zero => intro m _ p q K m' hr; simp [grading] at hr
  | succ fuel ih =>
    intro m h p q K m' hr
    rw [grading] at hr
    simp only [bind, Except.bind, pure, Except.pure] at hr
    split at hr
    · cases hr
    · rename_i r h1
      obtain ⟨i1, q1⟩ := gradeSweep_inv h h1
      obtain ⟨m1, again⟩ := r
      cases again with
      | true =>
        simp only [if_true] at hr
        obtain ⟨i2, q2, w⟩ := ih i1 hr
        exact ⟨i2, q1.trans q2, w⟩
      | false =>
        simp only [Bool.false_eq_true, if_false] at hr
        cases hr
        obtain ⟨e, w⟩ := gradeSweep_false h1
        subst e
        exact ⟨i1, q1, w⟩

/-! ### `sortBy` with a natural-number key sorts -/

theorem insertBy_sorted {α} (f : α → Nat) (a : α) (l : List α)
    (hl : l.Pairwise (fun x y => f x ≤ f y)) :
    (insertBy (fun x y => decide (f x < f y)) a l).Pairwise (fun x y => f x ≤ f y) := by
  induction l with
  | nil => simp [insertBy]
  | cons b l ih =>
    have hl' := List.pairwise_cons.mp hl
    simp only [insertBy]
    split
    · rename_i hlt
      have hlt' : f b < f a := by simpa using hlt
      rw [List.pairwise_cons]
      refine ⟨?_, ih hl'.2⟩
      intro x hx
      rcases List.mem_cons.mp ((insertBy_perm _ a l).mem_iff.mp hx) with rfl | hx
      · omega
      · exact hl'.1 x hx
    · rename_i hlt
      have hlt' : f a ≤ f b := by simpa using hlt
      rw [List.pairwise_cons]
      refine ⟨?_, hl⟩
      intro x hx
      rcases List.mem_cons.mp hx with rfl | hx
      · exact hlt'
      · exact le_trans hlt' (hl'.1 x hx)

theorem sortBy_sorted {α} (f : α → Nat) (l : List α) :
    (sortBy (fun x y => decide (f x < f y)) l).Pairwise (fun x y => f x ≤ f y) := by
  induction l with
  | nil => simp [sortBy]
  | cons a l ih =>
    have : sortBy (fun x y => decide (f x < f y)) (a :: l) =
        insertBy (fun x y => decide (f x < f y)) a (sortBy (fun x y => decide (f x < f y)) l) := rfl
    rw [this]
    exact insertBy_sorted f a _ ih

/-! ### the two phases of a sweep, generically in an extra invariant

`J` is an invariant of the current mesh, `J'` its "progress has been made" version; one successful
`refineId` on a leaf satisfying `good` turns `J` into `J'`. -/

section generic

variable (J J' : Mesh → Prop) (good : Cell → Prop) (ax : Ax)

/-- refining, in ascending level order, a duplicate-free list of leaves never fails: a call only
removes its own cell among the leaves that are at least as deep (`Res.keep`) -/
theorem refineAll_sorted_ok
    (hJ : ∀ m c m', Inv m → J m → c ∈ m.leaves → good c → refineId m c.id ax = .ok m' → J' m')
    (hJ' : ∀ m, J' m → J m) :
    ∀ (l : List Cell) (m : Mesh), Inv m → J m → (∀ c ∈ l, c ∈ m.leaves ∧ good c) → l.Nodup →
      l.Pairwise (fun a b => a.level ax ≤ b.level ax) →
      ∃ m', refineAll m (l.map (·.id)) ax = .ok m' ∧ Inv m' ∧ Refines m m' ∧
        ((l = [] ∧ m' = m) ∨ (l ≠ [] ∧ J' m')) := by
  intro l
  induction l with
  | nil =>
    intro m h _ _ _ _
    exact ⟨m, rfl, h, Refines.refl m, Or.inl ⟨rfl, rfl⟩⟩
  | cons c l ih =>
    intro m h hj hmem hnd hsorted
    obtain ⟨hcm, hgood⟩ := hmem c (by simp)
    obtain ⟨m1, h1, res⟩ := refineId_res h hcm ax
    have hj1 : J' m1 := hJ m c m1 h hj hcm hgood h1
    have hnd' := List.nodup_cons.mp hnd
    have hs' := List.pairwise_cons.mp hsorted
    obtain ⟨m', h2, i2, r2, hfin⟩ := ih m1 res.inv (hJ' _ hj1)
      (fun d hd => ⟨res.keep d (hmem d (by simp [hd])).1 (by rintro rfl; exact hnd'.1 hd)
        (hs'.1 d hd), (hmem d (by simp [hd])).2⟩) hnd'.2 hs'.2
    refine ⟨m', ?_, i2, res.ref.trans r2, Or.inr ⟨by simp, ?_⟩⟩
    · simp only [refineAll, List.map_cons, List.foldlM_cons, h1, bind, Except.bind]
      exact h2
    · rcases hfin with ⟨_, rfl⟩ | ⟨_, hj2⟩
      · exact hj1
      · exact hj2

/-- the repaired space loop: an element that is still a leaf is refined, the others are skipped -/
def spaceStep (m : Mesh) (c : Cell) : Except String Mesh :=
  match findLeaf m c.id with
  | none => pure m
  | some _ => refineId m c.id .space

theorem spaceStep_ok
    (hJ : ∀ m c m', Inv m → J m → c ∈ m.leaves → good c → refineId m c.id .space = .ok m' → J' m')
    (hJ' : ∀ m, J' m → J m) (l : List Cell)
    (hfind : ∀ m c c', Inv m → J m → c ∈ l → findLeaf m c.id = some c' → good c') :
    ∀ (m : Mesh) (c : Cell), c ∈ l → Inv m → J m →
      ∃ m', spaceStep m c = .ok m' ∧ Inv m' ∧ Refines m m' ∧ (J' m → J' m') ∧
        (c ∈ m.leaves → J' m') ∧ J m' := by
  intro m c hcl h hj
  unfold spaceStep
  cases hf : findLeaf m c.id with
  | none =>
    refine ⟨m, rfl, h, Refines.refl m, id, ?_, hj⟩
    intro hc
    rw [findLeaf_of_mem h.ids hc] at hf
    cases hf
  | some c' =>
    obtain ⟨hc', hid⟩ := findLeaf_some hf
    obtain ⟨m1, h1, res⟩ := refineId_res h hc' .space
    have hj1 : J' m1 := hJ m c' m1 h hj hc' (hfind m c c' h hj hcl hf) h1
    rw [hid] at h1
    exact ⟨m1, h1, res.inv, res.ref, fun _ => hj1, fun _ => hj1, hJ' _ hj1⟩

theorem spaceLoop_ok
    (hJ : ∀ m c m', Inv m → J m → c ∈ m.leaves → good c → refineId m c.id .space = .ok m' → J' m')
    (hJ' : ∀ m, J' m → J m) (l0 : List Cell)
    (hfind : ∀ m c c', Inv m → J m → c ∈ l0 → findLeaf m c.id = some c' → good c') :
    ∀ (l : List Cell) (m : Mesh), (∀ c ∈ l, c ∈ l0) → Inv m → J m →
      ∃ m', l.foldlM spaceStep m = .ok m' ∧ Inv m' ∧ Refines m m' ∧ J m' ∧ (J' m → J' m') ∧
        (∀ c l', l = c :: l' → c ∈ m.leaves → J' m') ∧ (l = [] → m' = m) := by
  intro l
  induction l with
  | nil =>
    intro m _ h hj
    exact ⟨m, rfl, h, Refines.refl m, hj, id, fun _ _ e => (by cases e), fun _ => rfl⟩
  | cons c l ih =>
    intro m hsub h hj
    obtain ⟨m1, h1, i1, r1, p1, f1, j1⟩ :=
      spaceStep_ok J J' good hJ hJ' l0 hfind m c (hsub c (by simp)) h hj
    obtain ⟨m', h2, i2, r2, j2, p2, _, _⟩ := ih m1 (fun d hd => hsub d (by simp [hd])) i1 j1
    refine ⟨m', ?_, i2, r1.trans r2, j2, fun hj' => p2 (p1 hj'), ?_, fun e => (by cases e)⟩
    · rw [List.foldlM_cons, h1]; exact h2
    · intro c' l' e hc'
      injection e with e1 e2
      subst e1
      exact p2 (f1 hc')

end generic

theorem gradeSweep_true_eq (m : Mesh) (p q : Nat) (K : Rat) :
    gradeSweep true m p q K = (do
      let mt := m.leaves.filter fun c => markTime c p q K
      let ms := m.leaves.filter fun c => !markTime c p q K && markSpace c p q K
      let m1 ← refineAll m ((sortBy (fun a b : Cell => decide (a.lt < b.lt)) mt).map (·.id)) .time
      let m2 ← (sortBy (fun a b : Cell => decide (a.lx < b.lx)) ms).foldlM spaceStep m1
      pure (m2, !mt.isEmpty || !ms.isEmpty)) := by
  unfold gradeSweep spaceStep
  rfl

/-- One sweep of the repaired code never fails.  `Jt`/`Js` describe what is known about the
time-marked and the space-marked leaves; `J`, `J'` as above. -/
theorem gradeSweep_ok_gen (J J' : Mesh → Prop) (gt gs : Cell → Prop) (m : Mesh) (p q : Nat) (K : Rat)
    (hJt : ∀ m c m', Inv m → J m → c ∈ m.leaves → gt c → refineId m c.id .time = .ok m' → J' m')
    (hJs : ∀ m c m', Inv m → J m → c ∈ m.leaves → gs c → refineId m c.id .space = .ok m' → J' m')
    (hJ' : ∀ m, J' m → J m)
    (hgt : ∀ c ∈ m.leaves, markTime c p q K = true → gt c)
    (hfind : ∀ M c c', Inv M → J M → c ∈ m.leaves → markSpace c p q K = true →
      findLeaf M c.id = some c' → gs c')
    (h : Inv m) (hj : J m) :
    ∃ r, gradeSweep true m p q K = .ok r ∧ Inv r.1 ∧ Refines m r.1 ∧
      ((r.2 = false ∧ r.1 = m) ∨ (r.2 = true ∧ J' r.1)) := by
  rw [gradeSweep_true_eq]
  set mt := m.leaves.filter fun c => markTime c p q K with hmt
  set ms := m.leaves.filter fun c => !markTime c p q K && markSpace c p q K with hms
  have hndt : (sortBy (fun a b : Cell => decide (a.lt < b.lt)) mt).Nodup :=
    (sortBy_perm _ _).nodup_iff.mpr (h.ids.leaves_nodup.filter _)
  obtain ⟨m1, h1, i1, r1, f1⟩ := refineAll_sorted_ok J J' gt .time hJt hJ'
    (sortBy (fun a b : Cell => decide (a.lt < b.lt)) mt) m h hj
    (fun c hc => by
      have := (mem_sortBy _ _ _).mp hc
      rw [hmt, List.mem_filter] at this
      exact ⟨this.1, hgt c this.1 this.2⟩)
    hndt (sortBy_sorted (fun c : Cell => c.lt) mt)
  have hj1 : J m1 := by
    rcases f1 with ⟨_, rfl⟩ | ⟨_, hj'⟩
    · exact hj
    · exact hJ' _ hj'
  have hfind' : ∀ M c c', Inv M → J M → c ∈ sortBy (fun a b : Cell => decide (a.lx < b.lx)) ms →
      findLeaf M c.id = some c' → gs c' := by
    intro M c c' hM hjM hc hf
    have := (mem_sortBy _ _ _).mp hc
    rw [hms, List.mem_filter] at this
    exact hfind M c c' hM hjM this.1 (by
      have h2 := this.2
      simp only [Bool.and_eq_true] at h2
      exact h2.2) hf
  obtain ⟨m2, h2, i2, r2, j2, p2, first2, nil2⟩ := spaceLoop_ok J J' gs hJs hJ' _ hfind'
    (sortBy (fun a b : Cell => decide (a.lx < b.lx)) ms) m1 (fun _ hc => hc) i1 hj1
  refine ⟨(m2, !mt.isEmpty || !ms.isEmpty), ?_, i2, r1.trans r2, ?_⟩
  · simp only [h1, h2, bind, Except.bind, pure, Except.pure]
  · show ((!mt.isEmpty || !ms.isEmpty) = false ∧ m2 = m) ∨ ((!mt.isEmpty || !ms.isEmpty) = true ∧ J' m2)
    rcases f1 with ⟨e1, rfl⟩ | ⟨ne1, hj'⟩
    · -- no time mark
      have emt : mt = [] := by
        have := (sortBy_perm (fun a b : Cell => decide (a.lt < b.lt)) mt).length_eq
        rw [e1] at this
        exact List.eq_nil_of_length_eq_zero this.symm
      cases hs : sortBy (fun a b : Cell => decide (a.lx < b.lx)) ms with
      | nil =>
        have ems : ms = [] := by
          have := (sortBy_perm (fun a b : Cell => decide (a.lx < b.lx)) ms).length_eq
          rw [hs] at this
          exact List.eq_nil_of_length_eq_zero this.symm
        left
        exact ⟨by simp [emt, ems], nil2 hs⟩
      | cons c l' =>
        have hcs : c ∈ ms := (mem_sortBy _ _ _).mp (by rw [hs]; simp)
        right
        refine ⟨?_, first2 c l' hs ?_⟩
        · cases hms' : ms with
          | nil => rw [hms'] at hcs; simp at hcs
          | cons _ _ => simp
        · rw [hms, List.mem_filter] at hcs
          exact hcs.1
    · right
      refine ⟨?_, p2 hj'⟩
      cases hmt' : mt with
      | nil => rw [hmt'] at ne1; exact absurd rfl ne1
      | cons _ _ => simp

/-- with the repaired space loop one sweep never fails on a mesh satisfying `Inv` -/
theorem gradeSweep_ok' {m : Mesh} (h : Inv m) (p q : Nat) (K : Rat) :
    ∃ r, gradeSweep true m p q K = .ok r ∧ Inv r.1 ∧ Refines m r.1 := by
  obtain ⟨r, h1, h2, h3, _⟩ := gradeSweep_ok_gen (fun _ => True) (fun _ => True) (fun _ => True)
    (fun _ => True) m p q K (fun _ _ _ _ _ _ _ _ => trivial) (fun _ _ _ _ _ _ _ _ => trivial)
    (fun _ _ => trivial) (fun _ _ _ => trivial) (fun _ _ _ _ _ _ _ _ => trivial) h trivial
  exact ⟨r, h1, h2, h3⟩

/-- the repaired `grading` can only fail by running out of fuel -/
theorem grading_fixed_error' (fuel : Nat) : ∀ {m : Mesh}, Inv m → ∀ {p q : Nat} {K : Rat}
    {e : String}, grading true fuel m p q K = .error e → e = "fuel" := by
  induction fuel with
  | zero =>
    intro m _ p q K e hr
    simp only [grading] at hr
    injection hr with hr
    exact hr.symm
  | succ fuel ih =>
    intro m h p q K e hr
    obtain ⟨r, h1, i1, _⟩ := gradeSweep_ok' h p q K
    rw [grading] at hr
    simp only [bind, Except.bind, pure, Except.pure, h1] at hr
    split at hr
    · exact ih i1 hr
    · cases hr

end Stbem.Mesh
