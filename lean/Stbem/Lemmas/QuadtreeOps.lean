import Stbem.Lemmas.QuadtreeBdr

/-!
# Sequences of refinements: `uniform_refine` on a list of coarsest leaves
-/
namespace Stbem.Quadtree

/-- refining, in any order, a duplicate-free list of leaves none of which is deeper than any leaf of the
mesh (e.g. all leaves of a uniform mesh, as `uniform_refine` does) never fails: the balance closure has
nothing to do, so the leaves still waiting in the list stay leaves -/
theorem uniformRefine_coarsest (L : Nat) : ∀ (todo : List Elem) (m : QT), QInv m → todo.Nodup →
    (∀ e ∈ todo, e ∈ m.leaves ∧ e.level = L) → (∀ d ∈ m.leaves, L ≤ d.level) →
    ∃ m', uniformRefine m (todo.map (·.id)) = .ok m' ∧ QInv m' ∧ Ext m m' ∧
      (∀ e ∈ todo, e ∉ m'.leaves) ∧ (∀ d ∈ m'.leaves, L ≤ d.level) := by
  intro todo
  induction todo with
  | nil =>
    intro m h _ _ hmin
    exact ⟨m, rfl, h, Ext.refl m, by simp, hmin⟩
  | cons c todo ih =>
    intro m h hnd hl hmin
    obtain ⟨hc, hcl⟩ := hl c (by simp)
    obtain ⟨hcn, hnd'⟩ := List.nodup_cons.mp hnd
    obtain ⟨m1, h1, res⟩ := refineId_res h hc
    have hmin1 : ∀ d ∈ m1.leaves, L ≤ d.level := by
      intro d hd
      rcases res.new d hd with h0 | ⟨d0, hd0, -, l1, -⟩
      · exact hmin d h0
      · have := hmin d0 hd0; omega
    obtain ⟨m', h2, i2, e2, g2, hmin2⟩ := ih m1 res.inv hnd' (by
      intro e he
      obtain ⟨hel, hll⟩ := hl e (by simp [he])
      exact ⟨res.keep e hel (by rintro rfl; exact hcn he) (by omega), hll⟩) hmin1
    refine ⟨m', ?_, i2, res.ext.trans e2, ?_, hmin2⟩
    · unfold uniformRefine at h2 ⊢
      rw [List.map_cons, List.foldlM_cons, h1]
      exact h2
    · intro e he
      rcases List.mem_cons.mp he with rfl | he'
      · -- `c` is gone and cannot come back: a later leaf inside it would be deeper
        intro hcm'
        obtain ⟨d, hd, hsub, hlev⟩ := e2.sub e hcm'
        have hp := i2.size_pos hcm'
        have c1 : e.Contains e.x0 e.y0 := ⟨le_refl _, by linarith, le_refl _, by linarith⟩
        -- `d` is a leaf of `m1` containing a point of the refined element `e`
        have hem1 : e ∈ m1.elems := res.ext.mem (h.forest.leaves_sub e hc)
        have := res.inv.forest.leaf_level hd hem1 (hsub.contains c1) c1
        have hde : d.level = e.level := by omega
        obtain ⟨x1, x2⟩ := (res.inv.forest.grid d (res.inv.forest.leaves_sub d hd)).same
          (res.inv.forest.grid e hem1) hde (hsub.contains c1) c1
        have : d = e := res.inv.forest.uniq d (res.inv.forest.leaves_sub d hd) e hem1 hde x1 x2
        exact res.gone (this ▸ hd)
      · exact g2 e he'

theorem findElem_some {m : QT} {id : Nat} {e : Elem} (h : findElem m id = some e) : e ∈ m.elems :=
  List.mem_of_find?_eq_some h

/-- the leaves of a mesh reachable from `m0` tile the domain of `m0` -/
theorem ext_tiling {m0 m : QT} (hext : Ext m0 m) (h : QInv m) (x y : Rat) (hd : m0.InDomain x y) :
    ∃ c ∈ m.leaves, c.Contains x y ∧ ∀ d ∈ m.leaves, d.Contains x y → d = c := by
  obtain ⟨c, hc, hcont⟩ := h.tiles.cover x y ((hext.inDomain x y).mpr hd)
  exact ⟨c, hc, hcont, fun d hd hd' => h.tiles.disjoint d hd c hc x y hd' hcont⟩

end Stbem.Quadtree
