import Stbem.Lemmas.MeshLevels
import Stbem.Lemmas.MeshOps

/-!
# `MeshParametrized`: piece assignment, inheritance, the three-elements guard

* `pieceOf_some`, `pieceOf_unique`, `pieceOf_exists` : `pieceOf pw x` is the index `i` with
  `pw[i] ≤ x < pw[i+1]` (unique when `pw` is strictly increasing);
* `OnPiece pw c` : the parameter interval of the cell lies in the range of the piece it carries;
  true for the roots when the initial space grid contains the break points, inherited by children;
* `cross m t` : number of leaves whose time interval contains `t` (elements around the curve at
  time `t`); never decreased by a bisection, increased by a space bisection of a leaf containing `t`;
* `refineAll_leaves_double` : refining all leaves once in space at least doubles `cross`;
* `initParam_*` : the structure of the result of `initParam`.
-/
namespace Stbem.Mesh

/-! ### `pieceOf` -/

theorem pieceOf_go_cons2 (x : Rat) (i : Nat) (a b : Rat) (l : List Rat) :
    pieceOf.go x i (a :: b :: l) = if (a ≤ x && x < b) = true then some i else pieceOf.go x (i + 1) (b :: l) := by
  rw [pieceOf.go]

theorem pieceOf_go_some {x : Rat} : ∀ (pw : List Rat) (i j : Nat), pieceOf.go x i pw = some j →
    ∃ k p, j = i + k ∧ (pairs pw)[k]? = some p ∧ p.1 ≤ x ∧ x < p.2 := by
  intro pw
  induction pw with
  | nil => intro i j h; simp [pieceOf.go] at h
  | cons a l ih =>
    cases l with
    | nil => intro i j h; simp [pieceOf.go] at h
    | cons b l =>
      intro i j h
      rw [pieceOf_go_cons2] at h
      split at h
      · rename_i hc
        simp only [Bool.and_eq_true, decide_eq_true_eq] at hc
        cases h
        exact ⟨0, (a, b), rfl, by simp [pairs], hc.1, hc.2⟩
      · obtain ⟨k, p, h1, h2, h3⟩ := ih (i + 1) j h
        exact ⟨k + 1, p, by omega, by rw [pairs_cons2]; simpa using h2, h3⟩

/-- `pieceOf pw x = some i` : `i` is an index of a piece whose half-open range contains `x` -/
theorem pieceOf_some {pw : List Rat} {x : Rat} {i : Nat} (h : pieceOf pw x = some i) :
    ∃ p, (pairs pw)[i]? = some p ∧ p.1 ≤ x ∧ x < p.2 := by
  obtain ⟨k, p, h1, h2⟩ := pieceOf_go_some pw 0 i h
  rw [Nat.zero_add] at h1
  subst h1
  exact ⟨p, h2⟩

theorem pieceOf_go_unique {x : Rat} : ∀ (pw : List Rat), SInc pw → ∀ (i k : Nat) (p : Rat × Rat),
    (pairs pw)[k]? = some p → p.1 ≤ x → x < p.2 → pieceOf.go x i pw = some (i + k) := by
  intro pw
  induction pw with
  | nil => intro _ i k p h; simp [pairs] at h
  | cons a l ih =>
    cases l with
    | nil => intro _ i k p h; simp [pairs] at h
    | cons b l =>
      intro hs i k p h h1 h2
      rw [pieceOf_go_cons2]
      have hs' := List.pairwise_cons.mp hs
      rw [pairs_cons2] at h
      cases k with
      | zero =>
        simp only [List.getElem?_cons_zero, Option.some.injEq] at h
        subst h
        rw [if_pos (by simp [h1, h2])]; rfl
      | succ k =>
        simp only [List.getElem?_cons_succ] at h
        have hp := pairs_mem hs'.2 p (List.mem_of_getElem? h)
        have hb : b ≤ p.1 := by
          rcases List.mem_cons.mp hp.2.1 with e | e
          · exact le_of_eq e.symm
          · exact le_of_lt ((List.pairwise_cons.mp hs'.2).1 _ e)
        rw [if_neg (by simp only [Bool.and_eq_true, decide_eq_true_eq, not_and, not_lt]; intro _; linarith)]
        rw [ih hs'.2 (i + 1) k p h h1 h2]
        congr 1; omega

/-- for a strictly increasing `pw` the index is unique: every piece whose half-open range contains
`x` is the one `pieceOf` returns -/
theorem pieceOf_unique {pw : List Rat} (hs : SInc pw) {x : Rat} {k : Nat} {p : Rat × Rat}
    (h : (pairs pw)[k]? = some p) (h1 : p.1 ≤ x) (h2 : x < p.2) : pieceOf pw x = some k := by
  have := pieceOf_go_unique pw hs 0 k p h h1 h2
  rwa [Nat.zero_add] at this

theorem pieceOf_go_exists {x : Rat} : ∀ (pw : List Rat) (i : Nat), pw.headD 0 ≤ x → x < pw.getLastD 0 →
    ∃ j, pieceOf.go x i pw = some j := by
  intro pw
  induction pw with
  | nil => intro i h1 h2; simp at h1 h2; linarith
  | cons a l ih =>
    cases l with
    | nil => intro i h1 h2; simp at h1 h2; linarith
    | cons b l =>
      intro i h1 h2
      rw [pieceOf_go_cons2]
      rw [List.headD_cons] at h1
      by_cases hc : x < b
      · exact ⟨i, by rw [if_pos (by simp [h1, hc])]⟩
      · rw [if_neg (by simp [hc])]
        apply ih (i + 1)
        · rw [List.headD_cons]; exact not_lt.mp hc
        · rw [List.getLastD_cons, List.getLastD_cons] at h2
          rwa [List.getLastD_cons]

/-- every parameter in `[pw[0], pw[-1])` gets a piece (the `assert elem.gamma_space` cannot fail) -/
theorem pieceOf_exists {pw : List Rat} {x : Rat} (h1 : pw.headD 0 ≤ x) (h2 : x < pw.getLastD 0) :
    ∃ j, pieceOf pw x = some j := pieceOf_go_exists pw 0 h1 h2

/-! ### cells on pieces -/

/-- the cell carries a piece whose parameter range contains the whole cell -/
def OnPiece (pw : List Rat) (c : Cell) : Prop :=
  c.x0 ≤ c.x1 ∧ ∃ p, (pairs pw)[c.piece]? = some p ∧ p.1 ≤ c.x0 ∧ c.x1 ≤ p.2

def PieceOK (pw : List Rat) (m : Mesh) : Prop := ∀ c ∈ m.leaves, OnPiece pw c

/-- children inherit the piece and stay inside its range (`Element.__init__`:
`self.gamma_space = parent.gamma_space`) -/
theorem children_onPiece (pw : List Rat) (k : Nat) (c : Cell) (ax : Ax) (h : OnPiece pw c) :
    OnPiece pw (children k c ax).1 ∧ OnPiece pw (children k c ax).2 := by
  obtain ⟨h0, p, hp, h1, h2⟩ := h
  cases ax
  · exact ⟨⟨h0, p, hp, h1, h2⟩, ⟨h0, p, hp, h1, h2⟩⟩
  · simp only [children, OnPiece]
    refine ⟨⟨by linarith, p, hp, h1, by linarith⟩, ⟨by linarith, p, hp, by linarith, h2⟩⟩

theorem children_piece (k : Nat) (c : Cell) (ax : Ax) :
    (children k c ax).1.piece = c.piece ∧ (children k c ax).2.piece = c.piece := by
  cases ax <;> simp [children]

theorem pairs_mem' {α} {l : List α} : ∀ p ∈ pairs l, p.1 ∈ l ∧ p.2 ∈ l := by
  induction l with
  | nil => intro p hp; simp [pairs] at hp
  | cons a l ih =>
    cases l with
    | nil => intro p hp; simp [pairs] at hp
    | cons b l =>
      intro p hp
      rw [pairs_cons2] at hp
      rcases List.mem_cons.mp hp with rfl | hp
      · exact ⟨by simp, by simp⟩
      · obtain ⟨h1, h2⟩ := ih p hp
        exact ⟨List.mem_cons_of_mem _ h1, List.mem_cons_of_mem _ h2⟩

/-- in a strictly increasing grid the right end of a grid interval is the successor of its left end -/
theorem pairs_succ {X : List Rat} (hX : SInc X) : ∀ p ∈ pairs X, ∀ y ∈ X, p.1 < y → p.2 ≤ y := by
  induction X with
  | nil => intro p hp; simp [pairs] at hp
  | cons a l ih =>
    cases l with
    | nil => intro p hp; simp [pairs] at hp
    | cons b l =>
      intro p hp y hy hlt
      have hX' := List.pairwise_cons.mp hX
      rw [pairs_cons2] at hp
      rcases List.mem_cons.mp hp with hpe | hp'
      · subst hpe
        rcases List.mem_cons.mp hy with hya | hy'
        · subst hya; exact absurd hlt (lt_irrefl _)
        · rcases List.mem_cons.mp hy' with hyb | hy''
          · subst hyb; exact le_refl _
          · exact le_of_lt ((List.pairwise_cons.mp hX'.2).1 y hy'')
      · rcases List.mem_cons.mp hy with hya | hy'
        · subst hya
          have h1 := (pairs_mem' p hp').1
          have := hX'.1 p.1 h1
          linarith
        · exact ih hX'.2 p hp' y hy' hlt

theorem pairs_length {α} : ∀ (l : List α), (pairs l).length = l.length - 1 := by
  intro l
  induction l with
  | nil => simp [pairs]
  | cons a l ih =>
    cases l with
    | nil => simp [pairs]
    | cons b l => rw [pairs_cons2, List.length_cons, ih]; simp

/-! ### `mapM` in `Except` -/

theorem mapM_except_ok {α β ε : Type} (f : α → Except ε β) :
    ∀ (l : List α) (l' : List β), l.mapM f = .ok l' → List.Forall₂ (fun a b => f a = .ok b) l l' := by
  intro l
  induction l with
  | nil => intro l' h; simp [pure, Except.pure] at h; subst h; exact List.Forall₂.nil
  | cons a l ih =>
    intro l' h
    rw [List.mapM_cons] at h
    simp only [bind, Except.bind, pure, Except.pure] at h
    split at h
    · cases h
    · rename_i b hb
      split at h
      · cases h
      · rename_i bs hbs
        cases h
        exact List.Forall₂.cons hb (ih bs hbs)

/-! ### the structure of `initParam` -/

/-- the piece assignment to one root -/
def assign (pw : List Rat) (c : Cell) : Cell := { c with piece := (pieceOf pw c.x0).getD 0 }

/-- the mesh after the piece assignment, before the guard -/
def baseMesh (closed : Bool) (pw X T : List Rat) : Mesh :=
  { init closed X T with leaves := (init closed X T).leaves.map (assign pw) }

def guardStep (m : Mesh) : Except String Mesh := refineAll m (m.leaves.map (·.id)) .space

theorem forall₂_ok_left {α β ε : Type} {f : α → Except ε β} {l : List α} {l' : List β}
    (h : List.Forall₂ (fun a b => f a = .ok b) l l') : ∀ a ∈ l, ∃ b, f a = .ok b := by
  induction h with
  | nil => intro a ha; simp at ha
  | @cons a b l1 l2 hab _ ih =>
    intro c hc
    rcases List.mem_cons.mp hc with rfl | hc
    · exact ⟨b, hab⟩
    · exact ih c hc

theorem forall₂_assign {pw : List Rat} {L L' : List Cell}
    (hf : List.Forall₂ (fun (c b : Cell) => (match pieceOf pw c.x0 with
      | some i => (Except.ok { c with piece := i } : Except String Cell)
      | none => .error "assert:piece") = .ok b) L L') : L' = L.map (assign pw) := by
  induction hf with
  | nil => rfl
  | @cons a b l1 l2 hab _ ih =>
    rw [List.map_cons, ← ih]
    congr 1
    split at hab
    · rename_i i hi
      cases hab
      simp [assign, hi]
    · cases hab

theorem initParam_cases {perSlab closed : Bool} {pw X T : List Rat} {m : Mesh}
    (h : initParam perSlab closed pw X T = .ok m) :
    X.head? = some 0 ∧ X.getLast? = pw.getLast? ∧
    (∀ c ∈ (init closed X T).leaves, ∃ i, pieceOf pw c.x0 = some i) ∧
    ((¬ (closed = true ∧ (if perSlab then X.length - 1 else (init closed X T).leaves.length) < 3) ∧
        m = baseMesh closed pw X T) ∨
     ((closed = true ∧ (if perSlab then X.length - 1 else (init closed X T).leaves.length) < 3) ∧
        ∃ m1, guardStep (baseMesh closed pw X T) = .ok m1 ∧ guardStep m1 = .ok m)) := by
  unfold initParam at h
  simp only [bind, Except.bind, pure, Except.pure] at h
  split at h
  · cases h
  · rename_i hX0
    split at h
    · cases h
    · rename_i hXl
      split at h
      · cases h
      · rename_i leaves hl
        have hf := mapM_except_ok _ _ _ hl
        have hsome : ∀ c ∈ (init closed X T).leaves, ∃ i, pieceOf pw c.x0 = some i := by
          intro c hc
          obtain ⟨b, hb⟩ := forall₂_ok_left hf c hc
          split at hb
          · rename_i i hi; exact ⟨i, hi⟩
          · cases hb
        have hleaves : leaves = (init closed X T).leaves.map (assign pw) := forall₂_assign hf
        subst hleaves
        refine ⟨not_not.mp hX0, not_not.mp hXl, hsome, ?_⟩
        have hlen : (List.map (assign pw) (init closed X T).leaves).length = (init closed X T).leaves.length :=
          List.length_map _
        by_cases hg : closed = true ∧ (if perSlab then X.length - 1 else (init closed X T).leaves.length) < 3
        · right
          refine ⟨hg, ?_⟩
          rw [if_pos (by rw [hlen]; simp only [Bool.and_eq_true, decide_eq_true_eq]; exact hg)] at h
          split at h
          · cases h
          · rename_i m1 hm1
            exact ⟨m1, hm1, h⟩
        · left
          refine ⟨hg, ?_⟩
          rw [if_neg (by rw [hlen]; simp only [Bool.and_eq_true, decide_eq_true_eq]; exact hg)] at h
          exact (Except.ok.inj h).symm

/-! ### the mesh before the guard -/

theorem init_leaves (glue : Bool) (X T : List Rat) : (init glue X T).leaves =
    init.number 0 ((pairs T).flatMap fun tp => (pairs X).map fun xp => (tp, xp)) := rfl

theorem init_idsOK (glue : Bool) (X T : List Rat) : IdsOK (init glue X T) := by
  constructor
  · rw [init_leaves, number_ids]
    exact List.nodup_range' 1
  · intro c hc
    rw [init_leaves] at hc
    obtain ⟨q, _, j, rfl, h1, h2⟩ := number_mem hc
    show j < ((pairs T).flatMap fun tp => (pairs X).map fun xp => (tp, xp)).length
    omega

theorem assign_id (pw : List Rat) : (fun c : Cell => c.id) ∘ assign pw = fun c => c.id := rfl

theorem baseMesh_idsOK (closed : Bool) (pw X T : List Rat) : IdsOK (baseMesh closed pw X T) := by
  have h := init_idsOK closed X T
  constructor
  · show (((init closed X T).leaves.map (assign pw)).map (·.id)).Nodup
    rw [List.map_map]
    exact h.1
  · intro c hc
    obtain ⟨c0, hc0, rfl⟩ := List.mem_map.mp hc
    exact h.2 c0 hc0

/-- roots: `(x0, x1)` is an interval of the initial space grid -/
theorem init_root_x {glue : Bool} {X T : List Rat} {c : Cell} (hc : c ∈ (init glue X T).leaves) :
    (c.x0, c.x1) ∈ pairs X ∧ (c.t0, c.t1) ∈ pairs T := by
  rw [init_leaves] at hc
  obtain ⟨q, hq, j, rfl, _, _⟩ := number_mem hc
  simp only [List.mem_flatMap, List.mem_map] at hq
  obtain ⟨tp, htp, xp, hxp, rfl⟩ := hq
  exact ⟨hxp, htp⟩

/-- **piece assignment**: when the initial space grid is strictly increasing and contains all break
points, every root lies inside the parameter range of the piece assigned to it -/
theorem baseMesh_pieceOK {closed : Bool} {pw X T : List Rat} (hX : SInc X) (hsub : ∀ p ∈ pw, p ∈ X)
    (hsome : ∀ c ∈ (init closed X T).leaves, ∃ i, pieceOf pw c.x0 = some i) :
    PieceOK pw (baseMesh closed pw X T) := by
  intro c hc
  obtain ⟨c0, hc0, rfl⟩ := List.mem_map.mp hc
  obtain ⟨i, hi⟩ := hsome c0 hc0
  obtain ⟨p, hp, h1, h2⟩ := pieceOf_some hi
  have hx := (init_root_x hc0).1
  have hlt := (pairs_mem hX _ hx).1
  have hp2 : p.2 ∈ X := hsub _ (pairs_mem' p (List.mem_of_getElem? hp)).2
  have := pairs_succ hX _ hx p.2 hp2 h2
  refine ⟨le_of_lt hlt, p, ?_, h1, this⟩
  simp only [assign, hi, Option.getD_some]
  exact hp

/-! ### elements around the curve at a given time -/

/-- the time interval `[t0, t1)` of the cell contains `t` -/
def inT (t : Rat) (c : Cell) : Bool := decide (c.t0 ≤ t) && decide (t < c.t1)

/-- number of leaves around the curve at time `t` -/
def cross (m : Mesh) (t : Rat) : Nat := m.leaves.countP (inT t)

theorem countP_remove {l : List Cell} (hn : (l.map (·.id)).Nodup) {c : Cell} (hc : c ∈ l)
    (p : Cell → Bool) :
    (l.filter (fun d => d.id != c.id)).countP p + (if p c then 1 else 0) = l.countP p := by
  induction l with
  | nil => simp at hc
  | cons d l ih =>
    rw [List.map_cons, List.nodup_cons] at hn
    by_cases hid : d.id = c.id
    · have hcd : c = d := by
        rcases List.mem_cons.mp hc with h | h
        · exact h
        · exfalso; apply hn.1; rw [hid]; exact List.mem_map_of_mem h
      subst hcd
      have hall : l.filter (fun d => d.id != c.id) = l := by
        rw [List.filter_eq_self]
        intro e he
        simp only [bne_iff_ne, ne_eq]
        intro h
        apply hn.1; rw [← h]; exact List.mem_map_of_mem he
      rw [List.filter_cons_of_neg (by simp), hall, List.countP_cons]
    · have hc' : c ∈ l := by
        rcases List.mem_cons.mp hc with h | h
        · exact absurd (congrArg Cell.id h).symm hid
        · exact h
      rw [List.filter_cons_of_pos (by simpa using hid), List.countP_cons, List.countP_cons]
      have := ih hn.2 hc'
      omega

theorem inT_children_time (t : Rat) (k : Nat) (c : Cell) :
    inT t c = true → (inT t (children k c .time).1 = true ∨ inT t (children k c .time).2 = true) := by
  simp only [inT, children, Bool.and_eq_true, decide_eq_true_eq]
  intro h
  rcases lt_or_ge t ((c.t0 + c.t1) / 2) with hh | hh
  · left; exact ⟨decide_eq_true h.1, decide_eq_true hh⟩
  · right; exact ⟨decide_eq_true hh, decide_eq_true h.2⟩

theorem inT_children_space (t : Rat) (k : Nat) (c : Cell) :
    inT t (children k c .space).1 = inT t c ∧ inT t (children k c .space).2 = inT t c := by
  exact ⟨rfl, rfl⟩

theorem bisect_idsOK {m : Mesh} (h : IdsOK m) (c : Cell) (ax : Ax) : IdsOK (bisect m c ax) := by
  have hid := children_id m.nElems c ax
  constructor
  · rw [bisect_leaves, List.map_append, List.nodup_append]
    refine ⟨(h.1.sublist (List.Sublist.map _ List.filter_sublist)), ?_, ?_⟩
    · simp [hid.1, hid.2]
    · intro a ha b hb
      simp only [List.mem_map, List.mem_filter] at ha
      obtain ⟨a', ⟨ha', _⟩, rfl⟩ := ha
      have := h.2 a' ha'
      simp only [List.map_cons, List.map_nil, List.mem_cons, List.not_mem_nil, or_false, hid.1,
        hid.2] at hb
      omega
  · intro l hl
    show l.id < m.nElems + 2
    rw [bisect_leaves] at hl
    simp only [List.mem_append, List.mem_filter, List.mem_cons, List.not_mem_nil, or_false] at hl
    rcases hl with ⟨h1, _⟩ | rfl | rfl
    · have := h.2 l h1; omega
    · rw [hid.1]; omega
    · rw [hid.2]; omega

/-- a bisection never decreases the number of leaves around the curve at time `t` … -/
theorem cross_bisect_ge {m : Mesh} (h : IdsOK m) {c : Cell} (hc : c ∈ m.leaves) (ax : Ax) (t : Rat) :
    cross m t ≤ cross (bisect m c ax) t := by
  unfold cross
  rw [bisect_leaves, List.countP_append]
  have h1 := countP_remove h.1 hc (inT t)
  have h2 : (if inT t c = true then 1 else 0) ≤
      List.countP (inT t) [(children m.nElems c ax).1, (children m.nElems c ax).2] := by
    split
    · rename_i hp
      cases ax
      · rcases inT_children_time t m.nElems c hp with e | e
        · simp [List.countP_cons, e]
        · simp [List.countP_cons, e]
      · simp [(inT_children_space t m.nElems c).1, (inT_children_space t m.nElems c).2, hp]
    · exact Nat.zero_le _
  omega

/-- … and a space bisection of a leaf whose time interval contains `t` increases it by one -/
theorem cross_bisect_space {m : Mesh} (h : IdsOK m) {c : Cell} (hc : c ∈ m.leaves) (t : Rat) :
    cross (bisect m c .space) t = cross m t + (if inT t c = true then 1 else 0) := by
  unfold cross
  rw [bisect_leaves, List.countP_append]
  have h1 := countP_remove h.1 hc (inT t)
  have h2 : List.countP (inT t) [(children m.nElems c .space).1, (children m.nElems c .space).2] =
      2 * (if inT t c = true then 1 else 0) := by
    simp only [List.countP_cons, List.countP_nil, (inT_children_space t m.nElems c).1,
      (inT_children_space t m.nElems c).2]
    split <;> simp
  omega

/-! ### the last step of `refineAxis` is the bisection of the element itself -/

/-- `M` is reached from `m` by bisections of leaves only -/
def ByBisect (m M : Mesh) : Prop :=
  ∀ Q : Mesh → Prop, (∀ (m : Mesh) (c : Cell) (ax : Ax), c ∈ m.leaves → Q m → Q (bisect m c ax)) → Q m → Q M

theorem refineAxis_last (ax : Ax) (fuel : Nat) (m : Mesh) (id : Nat) (m' : Mesh)
    (h : refineAxis fuel m id ax = .ok m') :
    ∃ M c, ByBisect m M ∧ findLeaf M id = some c ∧ m' = bisect M c ax := by
  cases fuel with
  | zero => simp [refineAxis] at h
  | succ fuel =>
    rw [refineAxis_succ] at h
    cases hf : findLeaf m id with
    | none => rw [hf] at h; cases h
    | some c =>
      rw [hf] at h
      simp only [bind, Except.bind] at h
      split at h
      · cases h
      · rename_i M hM
        have hby : ByBisect m M := by
          intro Q hQ hq
          refine foldlM_except_pres (outerStep fuel ax c) Q ?_ Side.all m M hq hM
          intro M1 s M2 hq1 hs
          refine foldlM_except_pres (innerStep fuel ax c) Q ?_ (nbrs M1 c s) M1 M2 hq1 hs
          intro M3 n M4 hq3 hi
          unfold innerStep at hi
          split at hi
          · exact refineAxis_pres Q hQ ax fuel M3 n.id M4 hq3 hi
          · cases hi; exact hq3
        split at h
        · cases h
        · rename_i c' hc'
          cases h
          exact ⟨M, c', hby, hc', rfl⟩

theorem refineId_last {m : Mesh} {id : Nat} {ax : Ax} {m' : Mesh} (h : refineId m id ax = .ok m') :
    ∃ M c, ByBisect m M ∧ findLeaf M id = some c ∧ m' = bisect M c ax := by
  unfold refineId at h
  split at h
  · cases h
  · exact refineAxis_last ax _ m id m' h

/-! ### refining a list of leaves in space -/

/-- bookkeeping while the cells `cs` are refined one after the other: unique ids, at least `N` leaves
around the curve at time `t`, and the cells still to be refined are the only carriers of their ids -/
structure CrossTrack (t : Rat) (N : Nat) (cs : List Cell) (m : Mesh) : Prop where
  ids : IdsOK m
  count : N ≤ cross m t
  own : ∀ c ∈ cs, c.id < m.nElems ∧ ∀ d ∈ m.leaves, d.id = c.id → d = c

theorem CrossTrack.bisect {t : Rat} {N : Nat} {cs : List Cell} {m : Mesh} (h : CrossTrack t N cs m) {e : Cell}
    (he : e ∈ m.leaves) (ax : Ax) : CrossTrack t N cs (bisect m e ax) := by
  refine ⟨bisect_idsOK h.ids e ax, le_trans h.count (cross_bisect_ge h.ids he ax t), ?_⟩
  intro c hc
  obtain ⟨h1, h2⟩ := h.own c hc
  refine ⟨by show c.id < m.nElems + 2; omega, ?_⟩
  intro d hd hid
  rw [bisect_leaves] at hd
  simp only [List.mem_append, List.mem_filter, List.mem_cons, List.not_mem_nil, or_false] at hd
  have hch := children_id m.nElems e ax
  rcases hd with ⟨hd1, _⟩ | rfl | rfl
  · exact h2 d hd1 hid
  · rw [hch.1] at hid; omega
  · rw [hch.2] at hid; omega

theorem CrossTrack.step {t : Rat} {N : Nat} {c : Cell} {cs : List Cell} {m m' : Mesh}
    (h : CrossTrack t N (c :: cs) m) (hr : refineId m c.id .space = .ok m') :
    CrossTrack t (N + (if inT t c = true then 1 else 0)) cs m' := by
  obtain ⟨M, c', hby, hf, rfl⟩ := refineId_last hr
  have hM : CrossTrack t N (c :: cs) M := hby (CrossTrack t N (c :: cs)) (fun m e ax he hq => hq.bisect he ax) h
  obtain ⟨hc', hid⟩ := findLeaf_some hf
  have hcc : c' = c := (hM.own c (by simp)).2 c' hc' hid
  subst hcc
  have hb := hM.bisect hc' .space
  refine ⟨hb.ids, ?_, fun d hd => hb.own d (List.mem_cons_of_mem _ hd)⟩
  rw [cross_bisect_space hM.ids hc' t]
  have := hM.count
  omega

theorem CrossTrack.all {t : Rat} : ∀ (cs : List Cell) (N : Nat) (m m' : Mesh), CrossTrack t N cs m →
    refineAll m (cs.map (·.id)) .space = .ok m' → IdsOK m' ∧ N + cs.countP (inT t) ≤ cross m' t := by
  intro cs
  induction cs with
  | nil =>
    intro N m m' h hr
    unfold Stbem.Mesh.refineAll at hr
    simp only [List.map_nil, List.foldlM_nil, pure, Except.pure] at hr
    cases hr
    exact ⟨h.ids, by simpa using h.count⟩
  | cons c cs ih =>
    intro N m m' h hr
    unfold Stbem.Mesh.refineAll at hr
    simp only [List.map_cons, List.foldlM_cons, bind, Except.bind] at hr
    split at hr
    · cases hr
    · rename_i m1 h1
      obtain ⟨i1, i2⟩ := ih _ m1 m' (h.step h1) hr
      refine ⟨i1, ?_⟩
      rw [List.countP_cons]
      omega

/-- refining every leaf once in space (`for elem in leaves: self.refine_space(elem)`) at least
doubles the number of leaves around the curve at every time -/
theorem guardStep_double {m m' : Mesh} (h : IdsOK m) (hr : guardStep m = .ok m') :
    IdsOK m' ∧ ∀ t, 2 * cross m t ≤ cross m' t := by
  have htr : ∀ t, CrossTrack t (cross m t) m.leaves m := fun t =>
    ⟨h, le_refl _, fun c hc => ⟨h.2 c hc, fun d hd hid => h.id_inj hd hc hid⟩⟩
  refine ⟨((htr 0).all _ _ _ _ hr).1, fun t => ?_⟩
  have := ((htr t).all _ _ _ _ hr).2
  unfold cross at this ⊢
  omega

/-! ### the number of roots around the curve -/

theorem countP_number (p : Cell → Bool) (p' : (Rat × Rat) × (Rat × Rat) → Bool)
    (hp : ∀ q j, p (mkCell q j) = p' q) : ∀ (cells : List ((Rat × Rat) × (Rat × Rat))) (i : Nat),
    (init.number i cells).countP p = cells.countP p' := by
  intro cells
  induction cells with
  | nil => intro i; simp [init.number]
  | cons q l ih =>
    intro i
    rw [number_cons, List.countP_cons, List.countP_cons, ih (i + 1), hp]

theorem countP_flatMap_ge {α β} (p : β → Bool) (f : α → List β) {a : α} : ∀ {l : List α}, a ∈ l →
    (f a).countP p ≤ (l.flatMap f).countP p := by
  intro l
  induction l with
  | nil => intro h; simp at h
  | cons b l ih =>
    intro h
    rw [List.flatMap_cons, List.countP_append]
    rcases List.mem_cons.mp h with rfl | h
    · omega
    · have := ih h; omega

/-- before the guard every time slab has `len(initial_space_mesh) − 1` elements around the curve -/
theorem baseMesh_cross (closed : Bool) (pw X T : List Rat) {t : Rat} (h1 : T.headD 0 ≤ t)
    (h2 : t < T.getLastD 0) : X.length - 1 ≤ cross (baseMesh closed pw X T) t := by
  obtain ⟨tp, htp, ht1, ht2⟩ := pairs_cover t h1 h2
  unfold cross
  show X.length - 1 ≤ List.countP (inT t) ((init closed X T).leaves.map (assign pw))
  rw [List.countP_map, init_leaves,
    countP_number (inT t ∘ assign pw) (fun q => decide (q.1.1 ≤ t) && decide (t < q.1.2)) (fun _ _ => rfl)]
  refine le_trans ?_ (countP_flatMap_ge _ _ htp)
  rw [List.countP_map, ← pairs_length X]
  apply le_of_eq
  symm
  rw [List.countP_eq_length]
  intro xp _
  simp [ht1, ht2]

/-! ### the guard: at least three elements around a closed curve -/

/-- **the repaired guard** (`perSlab = true`): every result of `initParam` on a closed curve has at
least three leaves around the curve at every time -/
theorem initParam_three {pw X T : List Rat} {m : Mesh} (hX2 : 2 ≤ X.length)
    (h : initParam true true pw X T = .ok m) :
    IdsOK m ∧ ∀ t, T.headD 0 ≤ t → t < T.getLastD 0 → 3 ≤ cross m t := by
  obtain ⟨_, _, _, hc⟩ := initParam_cases h
  have hb := baseMesh_idsOK true pw X T
  rcases hc with ⟨hg, rfl⟩ | ⟨hg, m1, h1, h2⟩
  · refine ⟨hb, fun t t1 t2 => ?_⟩
    have := baseMesh_cross true pw X T t1 t2
    simp only [if_true, true_and, not_lt] at hg
    omega
  · obtain ⟨i1, d1⟩ := guardStep_double hb h1
    obtain ⟨i2, d2⟩ := guardStep_double i1 h2
    refine ⟨i2, fun t t1 t2 => ?_⟩
    have := baseMesh_cross true pw X T t1 t2
    have := d1 t
    have := d2 t
    omega

/-- the property `3 ≤ cross` on a time range together with unique ids is kept by every bisection -/
def ThreeAround (a b : Rat) (m : Mesh) : Prop :=
  IdsOK m ∧ ∀ t, a ≤ t → t < b → 3 ≤ cross m t

theorem bisect_threeAround (a b : Rat) (m : Mesh) (c : Cell) (ax : Ax) (hc : c ∈ m.leaves)
    (h : ThreeAround a b m) : ThreeAround a b (bisect m c ax) :=
  ⟨bisect_idsOK h.1 c ax, fun t t1 t2 => le_trans (h.2 t t1 t2) (cross_bisect_ge h.1 hc ax t)⟩

/-! ### the invariant `Inv` of C02 for the result of `initParam` -/

theorem adjacent_assign (pw : List Rat) (m m' : Mesh) (hg : m'.glue = m.glue) (h0 : m'.xmin = m.xmin)
    (h1 : m'.xmax = m.xmax) (c n : Cell) (s : Side) :
    adjacent m' (assign pw c) s (assign pw n) = adjacent m c s n := by
  cases s <;> simp only [adjacent, overlapX, overlapT, assign, hg, h0, h1] <;> rfl

theorem baseMesh_inv {closed : Bool} {pw X T : List Rat} (hX : SInc X) (hT : SInc T)
    (hX2 : 2 ≤ X.length) (hT2 : 2 ≤ T.length) : Inv (baseMesh closed pw X T) := by
  have h := init_inv' closed X T hX hT hX2 hT2
  have hmem : ∀ c ∈ (baseMesh closed pw X T).leaves, ∃ c0 ∈ (init closed X T).leaves, c = assign pw c0 := by
    intro c hc
    obtain ⟨c0, hc0, rfl⟩ := List.mem_map.mp hc
    exact ⟨c0, hc0, rfl⟩
  refine ⟨h.dom, ⟨?_, ?_, ?_, ?_⟩, ?_, baseMesh_idsOK closed pw X T⟩
  · intro c hc
    obtain ⟨c0, hc0, rfl⟩ := hmem c hc
    exact h.tiles.proper c0 hc0
  · intro c hc
    obtain ⟨c0, hc0, rfl⟩ := hmem c hc
    exact h.tiles.inside c0 hc0
  · intro t x hd
    obtain ⟨c0, hc0, hcon⟩ := h.tiles.cover t x hd
    exact ⟨assign pw c0, List.mem_map_of_mem hc0, hcon⟩
  · intro c hc d hd t x h1 h2
    obtain ⟨c0, hc0, rfl⟩ := hmem c hc
    obtain ⟨d0, hd0, rfl⟩ := hmem d hd
    rw [h.tiles.disjoint c0 hc0 d0 hd0 t x h1 h2]
  · intro c hc n hn s ha
    obtain ⟨c0, hc0, rfl⟩ := hmem c hc
    obtain ⟨n0, hn0, rfl⟩ := hmem n hn
    rw [adjacent_assign pw (init closed X T) (baseMesh closed pw X T) rfl rfl rfl] at ha
    exact h.irr c0 hc0 n0 hn0 s ha

theorem initParam_inv {perSlab closed : Bool} {pw X T : List Rat} {m : Mesh} (hX : SInc X) (hT : SInc T)
    (hX2 : 2 ≤ X.length) (hT2 : 2 ≤ T.length) (h : initParam perSlab closed pw X T = .ok m) :
    Inv m ∧ Refines (baseMesh closed pw X T) m := by
  obtain ⟨_, _, _, hc⟩ := initParam_cases h
  have hb := baseMesh_inv (closed := closed) (pw := pw) hX hT hX2 hT2
  rcases hc with ⟨_, rfl⟩ | ⟨_, m1, h1, h2⟩
  · exact ⟨hb, Refines.refl _⟩
  · obtain ⟨i1, r1⟩ := refineAll_inv' hb h1
    obtain ⟨i2, r2⟩ := refineAll_inv' i1 h2
    exact ⟨i2, r1.trans r2⟩

/-- **piece assignment + inheritance through the guard**: every leaf of the result of `initParam`
lies inside the parameter range of the piece it carries -/
theorem initParam_pieceOK {perSlab closed : Bool} {pw X T : List Rat} {m : Mesh} (hX : SInc X)
    (hsub : ∀ p ∈ pw, p ∈ X) (h : initParam perSlab closed pw X T = .ok m) : PieceOK pw m := by
  obtain ⟨_, _, hsome, hc⟩ := initParam_cases h
  have hb := baseMesh_pieceOK (closed := closed) (T := T) hX hsub hsome
  have hQ := fun (m : Mesh) (c : Cell) (ax : Ax) => bisect_forall (OnPiece pw) (children_onPiece pw) m c ax
  rcases hc with ⟨_, rfl⟩ | ⟨_, m1, h1, h2⟩
  · exact hb
  · exact refineAll_pres (PieceOK pw) hQ (refineAll_pres (PieceOK pw) hQ hb h1) h2

/-! ### two distinct elements touch in at most one end point -/

/-- the right end of `c` is the left end of `d` (through the seam when glued) -/
def TouchR (m : Mesh) (c d : Cell) : Prop :=
  d.x0 = c.x1 ∨ (m.glue = true ∧ c.x1 = m.xmax ∧ d.x0 = m.xmin)

theorem countP_le_two {l : List Cell} (hn : l.Nodup) (p : Cell → Bool) (c d : Cell)
    (h : ∀ e ∈ l, p e = true → e = c ∨ e = d) : l.countP p ≤ 2 := by
  rw [List.countP_eq_length_filter]
  have hsub : l.filter p ⊆ [c, d] := by
    intro e he
    obtain ⟨he1, he2⟩ := List.mem_filter.mp he
    rcases h e he1 he2 with rfl | rfl <;> simp
  exact (List.subperm_of_subset (hn.filter p) hsub).length_le

/-- If at every time at least three leaves lie around the curve, two distinct leaves whose time
intervals overlap cannot touch at both ends. -/
theorem touch_one_end {m : Mesh} (h : Inv m)
    (h3 : m.glue = true → ∀ t, m.tmin ≤ t → t < m.tmax → 3 ≤ cross m t)
    {c d : Cell} (hc : c ∈ m.leaves) (hd : d ∈ m.leaves) (hne : c ≠ d) (hov : OvT c d) :
    ¬ (TouchR m c d ∧ TouchR m d c) := by
  rintro ⟨h1, h2⟩
  obtain ⟨pc1, pc2⟩ := h.tiles.proper c hc
  obtain ⟨pd1, pd2⟩ := h.tiles.proper d hd
  obtain ⟨ic1, ic2, ic3, ic4⟩ := h.tiles.inside c hc
  obtain ⟨id1, id2, id3, id4⟩ := h.tiles.inside d hd
  obtain ⟨t, t1, t2, t3, t4⟩ := hov.point
  -- the cross-section at time `t` consists of `c` and `d` only
  have two : ∀ (c d : Cell), c ∈ m.leaves → d ∈ m.leaves → c.t0 ≤ t → t < c.t1 → d.t0 ≤ t → t < d.t1 →
      m.tmin ≤ c.t0 → c.t1 ≤ m.tmax → c.x0 < c.x1 → d.x0 < d.x1 →
      m.glue = true → c.x0 = m.xmin → c.x1 = d.x0 → d.x1 = m.xmax → False := by
    intro c d hc hd t1 t2 t3 t4 ic1 ic2 pc2 pd2 g e1 e2 e3
    have := h3 g t (by linarith) (by linarith)
    have hle : cross m t ≤ 2 := by
      refine countP_le_two h.ids.leaves_nodup (inT t) c d ?_
      intro e he hp
      simp only [inT, Bool.and_eq_true, decide_eq_true_eq] at hp
      obtain ⟨pe1, pe2⟩ := h.tiles.proper e he
      obtain ⟨_, _, ie3, ie4⟩ := h.tiles.inside e he
      rcases lt_or_ge e.x0 c.x1 with hh | hh
      · left
        rcases le_total c.x0 e.x0 with h5 | h5
        · exact h.tiles.disjoint e he c hc t e.x0 ⟨hp.1, hp.2, le_refl _, pe2⟩ ⟨t1, t2, h5, hh⟩
        · exact h.tiles.disjoint e he c hc t c.x0 ⟨hp.1, hp.2, h5, by linarith⟩ ⟨t1, t2, le_refl _, pc2⟩
      · right
        exact h.tiles.disjoint e he d hd t e.x0 ⟨hp.1, hp.2, le_refl _, pe2⟩
          ⟨t3, t4, by linarith, by linarith⟩
    omega
  rcases h1 with e1 | ⟨g, e1, e1'⟩ <;> rcases h2 with e2 | ⟨g', e2, e2'⟩
  · linarith
  · exact two c d hc hd t1 t2 t3 t4 ic1 ic2 pc2 pd2 g' e2' e1.symm e2
  · exact two d c hd hc t3 t4 t1 t2 id1 id2 pd2 pc2 g e1' e2.symm e1
  · apply hne
    exact h.tiles.disjoint c hc d hd t c.x0 ⟨t1, t2, le_refl _, pc2⟩ ⟨t3, t4, by linarith, by linarith⟩

/-! ### all refinement operations of the mesh model -/

theorem refineBoth_inv' {m : Mesh} (h : Inv m) {id : Nat} {r : Mesh × List Nat}
    (hr : refineBoth m id = .ok r) : Inv r.1 ∧ Refines m r.1 := by
  unfold refineBoth at hr
  simp only [bind, Except.bind, pure, Except.pure] at hr
  split at hr
  · cases hr
  · rename_i m1 h1
    split at hr
    · cases hr
    · rename_i m2 h2
      split at hr
      · cases hr
      · rename_i m3 h3
        cases hr
        obtain ⟨i1, r1⟩ := refineId_inv' h h1
        obtain ⟨i2, r2⟩ := refineId_inv' i1 h2
        obtain ⟨i3, r3⟩ := refineId_inv' i2 h3
        exact ⟨i3, (r1.trans r2).trans r3⟩

/-- one operation of `src/mesh.py` (any arguments) that returns -/
inductive Step : Mesh → Mesh → Prop
  | refineId {m m' : Mesh} {id : Nat} {ax : Ax} : refineId m id ax = .ok m' → Step m m'
  | refineBoth {m : Mesh} {id : Nat} {r : Mesh × List Nat} : refineBoth m id = .ok r → Step m r.1
  | uniform {m m' : Mesh} : uniformRefine m = .ok m' → Step m m'
  | uniformSpace {m m' : Mesh} : uniformRefineSpace m = .ok m' → Step m m'
  | dorflerIso {m m' : Mesh} {eta : List Rat} {perm : List Nat} {theta : Rat} :
      dorflerIso m eta perm theta = .ok m' → Step m m'
  | dorflerAniso {m m' : Mesh} {eta : List (Rat × Rat)} {theta : Rat} :
      dorflerAniso m eta theta = .ok m' → Step m m'
  | grading {m m' : Mesh} {fixed : Bool} {fuel p q : Nat} {K : Rat} :
      grading fixed fuel m p q K = .ok m' → Step m m'

/-- every history of operations -/
inductive Reach (m0 : Mesh) : Mesh → Prop
  | base : Reach m0 m0
  | step {m m' : Mesh} : Reach m0 m → Step m m' → Reach m0 m'

theorem Step.pres (Q : Mesh → Prop)
    (hQ : ∀ (m : Mesh) (c : Cell) (ax : Ax), c ∈ m.leaves → Q m → Q (bisect m c ax))
    {m m' : Mesh} (hs : Step m m') (hq : Q m) : Q m' := by
  cases hs with
  | refineId h => exact refineId_pres Q hQ hq h
  | refineBoth h => exact refineBoth_pres Q hQ hq h
  | uniform h => exact uniformRefine_pres Q hQ hq h
  | uniformSpace h => exact uniformRefineSpace_pres Q hQ hq h
  | dorflerIso h => exact dorflerIso_pres Q hQ hq h
  | dorflerAniso h => exact dorflerAniso_pres Q hQ hq h
  | grading h => exact grading_pres Q hQ _ _ hq h

theorem Reach.pres (Q : Mesh → Prop)
    (hQ : ∀ (m : Mesh) (c : Cell) (ax : Ax), c ∈ m.leaves → Q m → Q (bisect m c ax))
    {m0 m : Mesh} (hr : Reach m0 m) (hq : Q m0) : Q m := by
  induction hr with
  | base => exact hq
  | step _ hs ih => exact hs.pres Q hQ ih

theorem Step.inv {m m' : Mesh} (hs : Step m m') (h : Inv m) : Inv m' ∧ Refines m m' := by
  cases hs with
  | refineId hr => exact refineId_inv' h hr
  | refineBoth hr => exact refineBoth_inv' h hr
  | uniform hr => exact uniformRefine_inv' h hr
  | uniformSpace hr => exact uniformRefineSpace_inv' h hr
  | dorflerIso hr => exact dorflerIso_inv' h hr
  | dorflerAniso hr => exact dorflerAniso_inv' h hr
  | grading hr => exact grading_inv' _ _ h hr

theorem Reach.inv {m0 m : Mesh} (hr : Reach m0 m) (h : Inv m0) : Inv m ∧ Refines m0 m := by
  induction hr with
  | base => exact ⟨h, Refines.refl _⟩
  | step _ hs ih =>
    obtain ⟨i, r⟩ := hs.inv ih.1
    exact ⟨i, ih.2.trans r⟩

/-- decidable summary of a mesh: number of leaves and the numbers of leaves around the curve at the
given times -/
def crossAt (r : Except String Mesh) (ts : List Rat) : Option (Nat × List Nat) :=
  match r with
  | .ok m => some (m.leaves.length, ts.map (cross m))
  | .error _ => none

end Stbem.Mesh
