import Stbem.Lemmas.EstimSolve
import Mathlib.LinearAlgebra.Matrix.NonsingularInverse

/-!
# The list matrices of the estimator model as Mathlib matrices: injectivity on vectors ⇔ `det ≠ 0`
-/
namespace Stbem.Estim
open Finset

/-- the `n × n` matrix of a list of rows (missing entries read as `0`) -/
def toMat (n : Nat) (A : List (List Rat)) : Matrix (Fin n) (Fin n) ℚ :=
  Matrix.of fun i j => (A.getD i []).getD j 0

/-- a list as a vector indexed by `Fin n` -/
def toVec (n : Nat) (y : List Rat) : Fin n → ℚ := fun j => y.getD j 0

theorem toVec_ofFn {n : Nat} (v : Fin n → ℚ) : toVec n (List.ofFn v) = v := by
  funext j
  simp [toVec, List.getD_eq_getElem?_getD]

theorem toVec_inj {n : Nat} {l l' : List Rat} (hl : l.length = n) (hl' : l'.length = n)
    (h : toVec n l = toVec n l') : l = l' := by
  apply List.ext_getElem (by rw [hl, hl'])
  intro i h1 h2
  have := congrFun h ⟨i, by omega⟩
  simpa [toVec, List.getD_eq_getElem?_getD, List.getElem?_eq_getElem h1, List.getElem?_eq_getElem h2]
    using this

theorem dot_eq_sum : ∀ (n : Nat) (a b : List Rat), a.length = n → b.length = n →
    dot a b = ∑ j : Fin n, a.getD j 0 * b.getD j 0
  | 0, a, b, ha, _ => by
    have : a = [] := List.length_eq_zero_iff.mp ha
    subst this
    simp
  | n + 1, x :: a, y :: b, ha, hb => by
    have ha' : a.length = n := by simpa using ha
    have hb' : b.length = n := by simpa using hb
    rw [Fin.sum_univ_succ, dot_cons, dot_eq_sum n a b ha' hb']
    simp

theorem toVec_mulVec {n : Nat} {A : List (List Rat)} {y : List Rat} (hA : A.length = n)
    (hrow : ∀ r ∈ A, r.length = n) (hy : y.length = n) :
    toVec n (mulVec A y) = (toMat n A).mulVec (toVec n y) := by
  funext i
  have hi : (i : Nat) < A.length := by rw [hA]; exact i.2
  simp only [toVec, Matrix.mulVec, dotProduct, toMat, Matrix.of_apply, mulVec]
  rw [List.getD_eq_getElem?_getD, List.getElem?_map, List.getElem?_eq_getElem hi]
  simp only [Option.map_some, Option.getD_some]
  rw [dot_eq_sum n _ _ (hrow _ (List.getElem_mem _)) hy]
  simp [List.getD_eq_getElem?_getD, List.getElem?_eq_getElem hi]

/-- injectivity of the list matrix on lists of length `n` is injectivity of the Mathlib matrix -/
theorem injOn_iff_injective {n : Nat} {A : List (List Rat)} (hA : A.length = n)
    (hrow : ∀ r ∈ A, r.length = n) : InjOn A n ↔ Function.Injective (toMat n A).mulVec := by
  constructor
  · intro h v v' hv
    have e := h (List.ofFn v) (List.ofFn v') (by simp) (by simp) (by
      apply toVec_inj (n := n) (by simp [hA]) (by simp [hA])
      rw [toVec_mulVec hA hrow (by simp), toVec_mulVec hA hrow (by simp), toVec_ofFn, toVec_ofFn, hv])
    have := congrArg (toVec n) e
    rwa [toVec_ofFn, toVec_ofFn] at this
  · intro h y y' hy hy' e
    apply toVec_inj hy hy'
    apply h
    rw [← toVec_mulVec hA hrow hy, ← toVec_mulVec hA hrow hy', e]

/-- … and that is `det ≠ 0` -/
theorem injOn_iff_det_ne_zero {n : Nat} {A : List (List Rat)} (hA : A.length = n)
    (hrow : ∀ r ∈ A, r.length = n) : InjOn A n ↔ (toMat n A).det ≠ 0 := by
  rw [injOn_iff_injective hA hrow, Matrix.mulVec_injective_iff_isUnit, Matrix.isUnit_iff_isUnit_det,
    isUnit_iff_ne_zero]

end Stbem.Estim
