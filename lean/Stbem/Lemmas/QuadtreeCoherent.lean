import Stbem.Lemmas.QuadtreeGenLoops
import Stbem.Lemmas.QuadtreeInit

/-!
# `Coherent`: the invariant of the state of the code regenerated from `src/initial_mesh.py`

The three dictionaries keyed by pairs of `Vertex` objects, as the generated code keeps them (lists of insertions, newest
first), described by small, separately usable clauses in terms of the generated state only:

* `nbrs` holds exactly the directed edges of all elements (`nbrs_sound`, `nbrs_complete`),
* `__bisect_edge` those of the refined elements, with the mid-point vertex (`bis_sound`, `bis_complete`),
* `parent_edge` the two halves of those (`par_sound`, `par_complete`),
* vertex indices are positions (`vidx`), the vertices of the elements are vertices of the mesh (`everts`), every element is
  `Shaped`, the leaves are elements, the non-root elements come in groups of four (`quads`: this is what makes the child position
  `pos = (id - #roots) mod 4` of `absElem` right).

Every clause is a bounded statement, so `Coherent g` is decidable; it is evaluated by the kernel on the generated
`UnitSquare()` and `LShape()` (`coherent_unitSquare`, `coherent_lShape`).

The geometric facts that are needed besides (vertices are determined by their coordinates, a directed edge determines the
element on its left, identities are positions) are NOT clauses: they follow from `QInv (absMesh g)` (`vinj_of_inv`,
`elem_inj_of_inv`).  The invariant for which `RefineSim` is to be shown is `CohInv g := Coherent g ∧ QInv (absMesh g)`.
-/
namespace Stbem.QuadtreeTie
open Stbem.Quadtree Stbem.Gen
open QuadtreeGen (dictHas dictGet dictSet Element_edges)

/-! ### dictionaries as lists of insertions -/

theorem dictHas_iff {κ β : Type} [DecidableEq κ] (d : List (κ × β)) (k : κ) :
    dictHas d k = true ↔ ∃ p ∈ d, p.1 = k := by
  simp [dictHas]

theorem dictHas_set {κ β : Type} [DecidableEq κ] (d : List (κ × β)) (k k' : κ) (v : β) :
    dictHas (dictSet d k v) k' = (decide (k = k') || dictHas d k') := by
  simp [dictHas, dictSet]

theorem dictGet_set_eq {κ β : Type} [DecidableEq κ] (d : List (κ × β)) (k : κ) (v : β) :
    dictGet (dictSet d k v) k = .ok v := by
  simp [dictGet, dictSet, pure, Except.pure]

theorem dictGet_set_ne {κ β : Type} [DecidableEq κ] (d : List (κ × β)) (k k' : κ) (v : β) (h : k ≠ k') :
    dictGet (dictSet d k v) k' = dictGet d k' := by
  simp [dictGet, dictSet, h]

/-- `d[k]` returns one of the insertions for `k` -/
theorem dictGet_ok {κ β : Type} [DecidableEq κ] {d : List (κ × β)} {k : κ} {v : β} (h : dictGet d k = .ok v) :
    (k, v) ∈ d := by
  unfold dictGet at h
  cases hf : d.find? (fun p => decide (p.1 = k)) with
  | none => rw [hf] at h; cases h
  | some p =>
    rw [hf] at h
    injection h with h
    have h1 := List.find?_some hf
    have h2 := List.mem_of_find?_eq_some hf
    simp only [decide_eq_true_eq] at h1
    rcases p with ⟨a, b⟩
    simp only at h h1
    subst h h1
    exact h2

/-- `k in d` ⇒ `d[k]` returns -/
theorem dictGet_of_has {κ β : Type} [DecidableEq κ] {d : List (κ × β)} {k : κ} (h : dictHas d k = true) :
    ∃ v, dictGet d k = .ok v ∧ (k, v) ∈ d := by
  obtain ⟨p, hp, hk⟩ := (dictHas_iff d k).mp h
  unfold dictGet
  cases hf : d.find? (fun p => decide (p.1 = k)) with
  | none =>
    have := List.find?_eq_none.mp hf p hp
    simp [hk] at this
  | some q =>
    refine ⟨q.2, rfl, ?_⟩
    have h1 := List.find?_some hf
    have h2 := List.mem_of_find?_eq_some hf
    simp only [decide_eq_true_eq] at h1
    rw [← h1]
    exact h2

theorem dictHas_false_get {κ β : Type} [DecidableEq κ] {d : List (κ × β)} {k : κ} (h : ¬ dictHas d k = true) :
    dictGet d k = .error "KeyError" := by
  unfold dictGet
  cases hf : d.find? (fun p => decide (p.1 = k)) with
  | none => rfl
  | some q =>
    exfalso
    apply h
    have h1 := List.find?_some hf
    have h2 := List.mem_of_find?_eq_some hf
    simp only [decide_eq_true_eq] at h1
    exact (dictHas_iff d k).mpr ⟨q, h2, h1⟩

/-! ### the invariant -/

/-- mid-point vertex of a pair of vertices -/
def IsMid (p : QuadtreeGen.Edge) (v : Vtx) : Prop := v.x = (p.1.x + p.2.x) / 2 ∧ v.y = (p.1.y + p.2.y) / 2

instance (p : QuadtreeGen.Edge) (v : Vtx) : Decidable (IsMid p v) := by unfold IsMid; infer_instance

structure Coherent (g : GMesh) : Prop where
  shaped : ∀ e ∈ g.elements, Shaped e
  vidx : g.vertices.map (·.idx) = List.range g.vertices.length
  everts : ∀ e ∈ g.elements, e.v0 ∈ g.vertices ∧ e.v1 ∈ g.vertices ∧ e.v2 ∈ g.vertices ∧ e.v3 ∈ g.vertices
  leaves_sub : ∀ e ∈ g.leaf_elements, e ∈ g.elements
  quads : (g.elements.length - nRoots g) % 4 = 0
  nbrs_sound : ∀ p ∈ g.nbrs, p.2 ∈ g.elements ∧ p.1 ∈ Element_edges p.2
  nbrs_complete : ∀ e ∈ g.elements, ∀ q ∈ Element_edges e, dictHas g.nbrs q = true
  bis_sound : ∀ p ∈ g.bisect_edge, (∃ e ∈ g.elements, e ∉ g.leaf_elements ∧ p.1 ∈ Element_edges e) ∧
    p.2 ∈ g.vertices ∧ IsMid p.1 p.2
  bis_complete : ∀ e ∈ g.elements, e ∉ g.leaf_elements → ∀ q ∈ Element_edges e, dictHas g.bisect_edge q = true
  par_sound : ∀ p ∈ g.parent_edge, ∃ q ∈ g.bisect_edge, q.1 = p.2 ∧ (p.1 = (q.1.1, q.2) ∨ p.1 = (q.2, q.1.2))
  par_complete : ∀ q ∈ g.bisect_edge, dictHas g.parent_edge (q.1.1, q.2) = true ∧
    dictHas g.parent_edge (q.2, q.1.2) = true

instance (e : GElem) : Decidable (Shaped e) :=
  decidable_of_iff (e.v0.y = e.v1.y ∧ e.v1.x = e.v2.x ∧ e.v2.y = e.v3.y ∧ e.v3.x = e.v0.x ∧
      e.v1.x - e.v0.x = e.v3.y - e.v0.y ∧ e.v0.x < e.v2.x)
    ⟨fun ⟨a, b, c, d, e, f⟩ => ⟨a, b, c, d, e, f⟩, fun ⟨a, b, c, d, e, f⟩ => ⟨a, b, c, d, e, f⟩⟩

/-- the clauses of `Coherent` as one decidable conjunction -/
def CoherentD (g : GMesh) : Prop :=
  (∀ e ∈ g.elements, Shaped e) ∧
  (g.vertices.map (·.idx) = List.range g.vertices.length) ∧
  (∀ e ∈ g.elements, e.v0 ∈ g.vertices ∧ e.v1 ∈ g.vertices ∧ e.v2 ∈ g.vertices ∧ e.v3 ∈ g.vertices) ∧
  (∀ e ∈ g.leaf_elements, e ∈ g.elements) ∧
  ((g.elements.length - nRoots g) % 4 = 0) ∧
  (∀ p ∈ g.nbrs, p.2 ∈ g.elements ∧ p.1 ∈ Element_edges p.2) ∧
  (∀ e ∈ g.elements, ∀ q ∈ Element_edges e, dictHas g.nbrs q = true) ∧
  (∀ p ∈ g.bisect_edge, (∃ e ∈ g.elements, e ∉ g.leaf_elements ∧ p.1 ∈ Element_edges e) ∧
    p.2 ∈ g.vertices ∧ IsMid p.1 p.2) ∧
  (∀ e ∈ g.elements, e ∉ g.leaf_elements → ∀ q ∈ Element_edges e, dictHas g.bisect_edge q = true) ∧
  (∀ p ∈ g.parent_edge, ∃ q ∈ g.bisect_edge, q.1 = p.2 ∧ (p.1 = (q.1.1, q.2) ∨ p.1 = (q.2, q.1.2))) ∧
  (∀ q ∈ g.bisect_edge, dictHas g.parent_edge (q.1.1, q.2) = true ∧ dictHas g.parent_edge (q.2, q.1.2) = true)

instance (g : GMesh) : Decidable (CoherentD g) := by unfold CoherentD; infer_instance

theorem coherent_iff (g : GMesh) : Coherent g ↔ CoherentD g :=
  ⟨fun h => ⟨h.1, h.2, h.3, h.4, h.5, h.6, h.7, h.8, h.9, h.10, h.11⟩,
   fun ⟨a, b, c, d, e, f, g, h, i, j, k⟩ => ⟨a, b, c, d, e, f, g, h, i, j, k⟩⟩

instance (g : GMesh) : Decidable (Coherent g) := decidable_of_iff _ (coherent_iff g).symm

/-- `VIdx` from the list form of the clause -/
theorem Coherent.vIdx {g : GMesh} (h : Coherent g) : VIdx g := by
  intro i v hv
  have : (g.vertices.map (·.idx))[i]? = some v.idx := by rw [List.getElem?_map, hv]; rfl
  rw [h.vidx, List.getElem?_range (List.getElem?_eq_some_iff.mp hv).1] at this
  injection this with this
  exact this.symm

/-- the invariant under which the generated `refine` is to simulate the hand model's -/
def CohInv (g : GMesh) : Prop := Coherent g ∧ QInv (absMesh g)

/-! ### what `QInv` of the abstraction gives for the generated state -/

/-- vertex objects of the mesh are determined by their coordinates -/
theorem vinj_of_inv {g : GMesh} (hq : QInv (absMesh g)) {v w : Vtx} (hv : v ∈ g.vertices) (hw : w ∈ g.vertices)
    (h : v.xy = w.xy) : v = w := by
  have hnd : (g.vertices.map (·.xy)).Nodup := hq.verts.nodup
  exact List.inj_on_of_nodup_map hnd hv hw h

/-- element objects of the mesh are determined by their abstraction -/
theorem elem_inj_of_inv {g : GMesh} (hq : QInv (absMesh g)) {e f : GElem} (he : e ∈ g.elements) (hf : f ∈ g.elements)
    (h : e.id = f.id) : e = f := by
  have hnd : (g.elements.map (·.id)).Nodup := by
    have := hq.ids.ids
    simp only [absMesh, List.map_map, List.length_map] at this
    have h2 : g.elements.map (·.id) = List.range g.elements.length := by
      rw [← this]; apply List.map_congr_left; intro a _; rfl
    rw [h2]; exact List.nodup_range
  exact List.inj_on_of_nodup_map hnd he hf h

/-- identities are positions -/
theorem ids_of_inv {g : GMesh} (hq : QInv (absMesh g)) : g.elements.map (·.id) = List.range g.elements.length := by
  have := hq.ids.ids
  simp only [absMesh, List.map_map, List.length_map] at this
  rw [← this]; apply List.map_congr_left; intro a _; rfl

theorem id_lt_of_inv {g : GMesh} (hq : QInv (absMesh g)) {e : GElem} (he : e ∈ g.elements) :
    e.id < g.elements.length := by
  have h1 : e.id ∈ g.elements.map (·.id) := List.mem_map_of_mem he
  rw [ids_of_inv hq] at h1
  exact List.mem_range.mp h1

/-! ### the generated initial meshes -/

/-- the clauses hold for the result of a constructor call, decided by evaluation -/
def CoherentR (r : Except String GMesh) : Prop :=
  match r with
  | .ok g => Coherent g
  | .error _ => False

instance (r : Except String GMesh) : Decidable (CoherentR r) := by
  unfold CoherentR; split <;> infer_instance

theorem coherentR_ok {r : Except String GMesh} (h : CoherentR r) {g : GMesh} (hg : r = .ok g) : Coherent g := by
  subst hg; exact h

/-- `Coherent` holds for the generated `UnitSquare()` -/
theorem coherent_unitSquare {g : GMesh} (hg : QuadtreeGen.UnitSquare = .ok g) : Coherent g :=
  coherentR_ok (by decide +kernel) hg

/-- `Coherent` holds for the generated `LShape()` -/
theorem coherent_lShape {g : GMesh} (hg : QuadtreeGen.LShape = .ok g) : Coherent g :=
  coherentR_ok (by decide +kernel) hg

end Stbem.QuadtreeTie
