import Stbem.Gen.ProblemsR
import Stbem.Lemmas.ProblemsSmooth

/-!
# The exact solutions of the Smooth problems, built from the GENERATED initial data
-/
namespace Stbem.Problems.R

/-- the exact solution of Smooth/UnitSquare: `e^{−2π²t} · u0(x, y)` with the GENERATED `u0` -/
noncomputable def smoothSquareSol (S : Fns) (t x y : ℝ) : ℝ :=
  Real.exp (-2 * Real.pi ^ 2 * t) * smooth_square_u0 S x y

/-- the exact solution of Smooth/PiSquare: `e^{−2t} · u0(x, y)` with the GENERATED `u0` -/
noncomputable def smoothPiSquareSol (S : Fns) (t x y : ℝ) : ℝ :=
  Real.exp (-2 * t) * smooth_pisquare_u0 S x y

theorem smoothSquareSol_eq (S : Fns) (hsin : S.sin = Real.sin) (hpi : S.pi = Real.pi) (t x y : ℝ) :
    smoothSquareSol S t x y = sinSol Real.pi t x y := by
  simp only [smoothSquareSol, smooth_square_u0, sinSol, hsin, hpi]

theorem smoothPiSquareSol_eq (S : Fns) (hsin : S.sin = Real.sin) (t x y : ℝ) :
    smoothPiSquareSol S t x y = sinSol 1 t x y := by
  simp only [smoothPiSquareSol, smooth_pisquare_u0, sinSol, hsin, one_pow, mul_one, one_mul]

end Stbem.Problems.R
