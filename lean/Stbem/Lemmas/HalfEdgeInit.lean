import Stbem.Lemmas.HalfEdgeCases
import Stbem.Lemmas.MeshInit
import Stbem.Lemmas.HalfEdgeOps

/-!
# H-layer: `Mesh.__init__` — closed form of the arena after the loops, `HInv (init …)` and
`abs (init …) = Stbem.Mesh.init …`
-/
namespace Stbem.HalfEdge
open Stbem.Mesh (Ax Side Cell Mesh Inv)

/-! ### the vertex loops -/

/-- all fields but `verts` agree -/
def SameButVerts (h h' : HMesh) : Prop :=
  h'.glue = h.glue ∧ h'.edges = h.edges ∧ h'.elems = h.elems ∧ h'.leaves = h.leaves ∧ h'.nElems = h.nElems ∧
  h'.xmin = h.xmin ∧ h'.xmax = h.xmax ∧ h'.tmin = h.tmin ∧ h'.tmax = h.tmax

theorem SameButVerts.refl (h : HMesh) : SameButVerts h h := ⟨rfl, rfl, rfl, rfl, rfl, rfl, rfl, rfl, rfl⟩

theorem SameButVerts.trans {a b c : HMesh} (h1 : SameButVerts a b) (h2 : SameButVerts b c) :
    SameButVerts a c := by
  obtain ⟨a1, a2, a3, a4, a5, a6, a7, a8, a9⟩ := h1
  obtain ⟨b1, b2, b3, b4, b5, b6, b7, b8, b9⟩ := h2
  exact ⟨b1.trans a1, b2.trans a2, b3.trans a3, b4.trans a4, b5.trans a5, b6.trans a6, b7.trans a7,
    b8.trans a8, b9.trans a9⟩

theorem vertRow (t : Rat) (X : List Rat) : ∀ (h : HMesh),
    let h' := X.foldl (fun (h : HMesh) x => (h.pushVert t x).1) h
    SameButVerts h h' ∧ h'.verts.size = h.verts.size + X.length ∧
    (∀ k < h.verts.size, h'.vert k = h.vert k) ∧
    (∀ i < X.length, h'.vert (h.verts.size + i) = { t := t, x := X.getD i 0, idx := h.verts.size + i }) := by
  induction X with
  | nil => intro h; exact ⟨SameButVerts.refl h, rfl, fun _ _ => rfl, fun i hi => by simp at hi⟩
  | cons x X ih =>
    intro h
    simp only [List.foldl_cons]
    obtain ⟨s, sz, old, new⟩ := ih (h.pushVert t x).1
    simp only [size_pushVert] at sz old new
    refine ⟨SameButVerts.trans ⟨rfl, rfl, rfl, rfl, rfl, rfl, rfl, rfl, rfl⟩ s, ?_, ?_, ?_⟩
    · rw [sz]; simp; omega
    · intro k hk
      rw [old k (by omega), vert_pushVert_lt h t x hk]
    · intro i hi
      cases i with
      | zero =>
        rw [Nat.add_zero, old _ (by omega), vert_pushVert_self]
        simp
      | succ i =>
        have := new i (by simpa using hi)
        rw [show h.verts.size + (i + 1) = h.verts.size + 1 + i by omega, this]
        simp

theorem vertRows (X : List Rat) (T : List Rat) : ∀ (h : HMesh),
    let h' := T.foldl (fun h t => X.foldl (fun (h : HMesh) x => (h.pushVert t x).1) h) h
    SameButVerts h h' ∧ h'.verts.size = h.verts.size + T.length * X.length ∧
    (∀ k < h.verts.size, h'.vert k = h.vert k) ∧
    (∀ j < T.length, ∀ i < X.length, h'.vert (h.verts.size + j * X.length + i) =
      { t := T.getD j 0, x := X.getD i 0, idx := h.verts.size + j * X.length + i }) := by
  induction T with
  | nil => intro h; exact ⟨SameButVerts.refl h, by simp, fun _ _ => rfl, fun j hj => by simp at hj⟩
  | cons t T ih =>
    intro h
    simp only [List.foldl_cons]
    obtain ⟨s0, sz0, old0, new0⟩ := vertRow t X h
    obtain ⟨s, sz, old, new⟩ := ih (X.foldl (fun (h : HMesh) x => (h.pushVert t x).1) h)
    refine ⟨s0.trans s, ?_, ?_, ?_⟩
    · rw [sz, sz0, List.length_cons, Nat.succ_mul]; omega
    · intro k hk
      rw [old k (by rw [sz0]; omega), old0 k hk]
    · intro j hj i hi
      cases j with
      | zero =>
        simp only [Nat.zero_mul, Nat.add_zero]
        rw [old _ (by rw [sz0]; omega), new0 i hi]
        simp
      | succ j =>
        have := new j (by simpa using hj) i hi
        rw [sz0] at this
        rw [show h.verts.size + (j + 1) * X.length + i = h.verts.size + X.length + j * X.length + i by
          rw [Nat.succ_mul]; omega, this]
        simp

theorem vertRow_coords (t : Rat) (X : List Rat) : ∀ (h : HMesh),
    (X.foldl (fun (h : HMesh) x => (h.pushVert t x).1) h).verts.toList.map (fun v => (v.t, v.x)) =
      h.verts.toList.map (fun v => (v.t, v.x)) ++ X.map fun x => (t, x) := by
  induction X with
  | nil => intro h; simp
  | cons x X ih =>
    intro h
    simp only [List.foldl_cons]
    rw [ih]
    simp [HMesh.pushVert]

theorem vertRows_coords (X T : List Rat) : ∀ (h : HMesh),
    (T.foldl (fun h t => X.foldl (fun (h : HMesh) x => (h.pushVert t x).1) h) h).verts.toList.map
        (fun v => (v.t, v.x)) =
      h.verts.toList.map (fun v => (v.t, v.x)) ++ T.flatMap fun t => X.map fun x => (t, x) := by
  induction T with
  | nil => intro h; simp
  | cons t T ih =>
    intro h
    simp only [List.foldl_cons]
    rw [ih, vertRow_coords]
    simp

/-! ### closed form of the arena during the root loops -/

/-- the edge `s` of root `k` after `n` roots have been created and `g` rows have been glued
(`nX = len(initial_space_mesh)`, `Nt = len(initial_time_mesh) - 1`) -/
def specQ (glue : Bool) (nX Nt : Nat) (n g : Nat) (k s : Nat) : HEdge :=
  let Nx := nX - 1
  let j := k / Nx
  let i := k % Nx
  match s with
  | 0 => { v0 := j * nX + i, v1 := j * nX + i + 1, elem := some k, onBoundary := j == 0,
           nbr := if 0 < j then some (4 * (k - Nx) + 2) else none }
  | 1 => { v0 := j * nX + i + 1, v1 := (j + 1) * nX + i + 1, elem := some k, onBoundary := i + 1 == Nx,
           nbr := if i + 1 < Nx then (if k + 1 < n then some (4 * (k + 1) + 3) else none)
                  else if glue && decide (j < g) then some (4 * (j * Nx) + 3) else none,
           glued := glue && decide (i + 1 = Nx) && decide (j < g) }
  | 2 => { v0 := (j + 1) * nX + i + 1, v1 := (j + 1) * nX + i, elem := some k, onBoundary := j + 1 == Nt,
           nbr := if k + Nx < n then some (4 * (k + Nx)) else none }
  | _ => { v0 := (j + 1) * nX + i, v1 := j * nX + i, elem := some k, onBoundary := i == 0,
           nbr := if 0 < i then some (4 * (k - 1) + 1)
                  else if glue && decide (j < g) then some (4 * (j * Nx + Nx - 1) + 1) else none,
           glued := glue && decide (i = 0) && decide (j < g) }

/-- the edge with index `4k+s` -/
def specEdge (glue : Bool) (nX Nt : Nat) (n g : Nat) (idx : Nat) : HEdge :=
  specQ glue nX Nt n g (idx / 4) (idx % 4)

def specElem (k : Nat) : HElem :=
  { e0 := 4 * k, e1 := 4 * k + 1, e2 := 4 * k + 2, e3 := 4 * k + 3, id := k }

/-- the vertex array of the grid -/
def VertsAre (X T : List Rat) (h : HMesh) : Prop :=
  h.verts.size = T.length * X.length ∧
  ∀ j < T.length, ∀ i < X.length, h.vert (j * X.length + i) =
    { t := T.getD j 0, x := X.getD i 0, idx := j * X.length + i }

structure InitState (glue : Bool) (X T : List Rat) (n g : Nat) (h : HMesh) : Prop where
  verts : VertsAre X T h
  edges : EdgesAre h (4 * n) (specEdge glue X.length (T.length - 1) n g)
  elsize : h.elems.size = n
  elem : ∀ k < n, h.elem k = specElem k
  leaves : h.leaves = []
  nElems : h.nElems = 0
  glue : h.glue = glue
  box : h.xmin = X.headD 0 ∧ h.xmax = X.getLastD 0 ∧ h.tmin = T.headD 0 ∧ h.tmax = T.getLastD 0
  coords : h.verts.toList.map (fun v => (v.t, v.x)) = T.flatMap fun t => X.map fun x => (t, x)

theorem divmod {Nx j i : Nat} (hi : i < Nx) : (j * Nx + i) / Nx = j ∧ (j * Nx + i) % Nx = i := by
  have hpos : 0 < Nx := by omega
  constructor
  · rw [Nat.add_comm, Nat.add_mul_div_right _ _ hpos, Nat.div_eq_of_lt hi, Nat.zero_add]
  · rw [Nat.add_comm, Nat.add_mul_mod_self_right, Nat.mod_eq_of_lt hi]

theorem getD_lt_of_sinc {X : List Rat} (hX : X.Pairwise (· < ·)) {i : Nat} (hi : i + 1 < X.length) :
    X.getD i 0 < X.getD (i + 1) 0 := by
  have h1 : X.getD i 0 = X[i] := by simp [List.getD_eq_getElem?_getD, show i < X.length by omega]
  have h2 : X.getD (i + 1) 0 = X[i + 1] := by simp [List.getD_eq_getElem?_getD, hi]
  rw [h1, h2]
  exact List.pairwise_iff_getElem.mp hX i (i + 1) (by omega) hi (by omega)

theorem lt_row {Nx q j i : Nat} (hi : i < Nx) (hq : q < j * Nx + i) :
    q / Nx < j ∨ (q / Nx = j ∧ q % Nx < i) := by
  have hpos : 0 < Nx := by omega
  have h1 := Nat.div_add_mod q Nx
  have h2 := Nat.mod_lt q hpos
  rcases Nat.lt_trichotomy (q / Nx) j with h | h | h
  · exact Or.inl h
  · right
    refine ⟨h, ?_⟩
    rw [h, Nat.mul_comm] at h1
    omega
  · exfalso
    have : (j + 1) * Nx ≤ (q / Nx) * Nx := Nat.mul_le_mul_right _ h
    rw [Nat.succ_mul, Nat.mul_comm (q / Nx)] at this
    omega

/-- how the closed form changes when root `n = j * Nx + i` is added -/
theorem specQ_step (glue : Bool) (nX Nt g : Nat) {j i : Nat} (hi : i < nX - 1) {q s : Nat}
    (hq : q < j * (nX - 1) + i) (hs : s < 4) :
    specQ glue nX Nt (j * (nX - 1) + i + 1) g q s =
      if 0 < i ∧ q + 1 = j * (nX - 1) + i ∧ s = 1 then
        { specQ glue nX Nt (j * (nX - 1) + i) g q s with nbr := some (4 * (j * (nX - 1) + i) + 3) }
      else if 0 < j ∧ q + (nX - 1) = j * (nX - 1) + i ∧ s = 2 then
        { specQ glue nX Nt (j * (nX - 1) + i) g q s with nbr := some (4 * (j * (nX - 1) + i)) }
      else specQ glue nX Nt (j * (nX - 1) + i) g q s := by
  generalize hNx : nX - 1 = Nx at *
  have hpos : 0 < Nx := by omega
  have h1 := Nat.div_add_mod q Nx
  have h2 := Nat.mod_lt q hpos
  have hrow := lt_row hi hq
  match s, hs with
  | 0, _ => simp [specQ]
  | 3, _ => simp [specQ]
  | 1, _ =>
    simp only [specQ, hNx, and_true]
    by_cases hc : 0 < i ∧ q + 1 = j * Nx + i
    · rw [if_pos hc]
      obtain ⟨hc1, hc2⟩ := hc
      have hqq : q = j * Nx + (i - 1) := by omega
      have hd := divmod (Nx := Nx) (j := j) (i := i - 1) (by omega)
      rw [← hqq] at hd
      have : q % Nx + 1 < Nx := by rw [hd.2]; omega
      simp [this, hc2]
    · rw [if_neg hc]
      simp only [show ¬ (1 = 2) by omega, and_false, if_false]
      by_cases h3 : q % Nx + 1 < Nx
      · have : ¬ q + 1 = j * Nx + i := by
          intro e
          apply hc
          refine ⟨?_, e⟩
          rcases hrow with h | ⟨h, h'⟩
          · by_contra h0
            have hi0 : i = 0 := by omega
            have : (q / Nx + 1) * Nx ≤ j * Nx := Nat.mul_le_mul_right _ h
            rw [Nat.succ_mul, Nat.mul_comm (q / Nx)] at this
            omega
          · omega
        have e1 : (q + 1 < j * Nx + i + 1) = (q + 1 < j * Nx + i) := by
          apply propext; omega
        simp [h3, e1]
      · simp [h3]
  | 2, _ =>
    simp only [specQ, hNx, show ¬ (2 = 1) by omega, and_false, if_false, and_true]
    by_cases hc : 0 < j ∧ q + Nx = j * Nx + i
    · rw [if_pos hc]
      have : q + Nx < j * Nx + i + 1 := by omega
      simp [this, hc.2]
    · rw [if_neg hc]
      have : ¬ q + Nx = j * Nx + i := by
        intro e
        apply hc
        refine ⟨?_, e⟩
        by_contra h0
        have : j = 0 := by omega
        subst this
        omega
      have e1 : (q + Nx < j * Nx + i + 1) = (q + Nx < j * Nx + i) := by
        apply propext; omega
      simp [e1]

/-! ### one pass of the inner loop -/

def HMesh.markBoundary (h : HMesh) (c : Bool) (e : Nat) : HMesh :=
  if c then h.setEdge e fun e => { e with onBoundary := true } else h

def HMesh.link (h : HMesh) (a b : Nat) : HMesh :=
  (h.setEdge a fun e => { e with nbr := some b }).setEdge b fun e => { e with nbr := some a }

def HMesh.linkIf (h : HMesh) (c : Bool) (a b : Nat) : HMesh := if c then h.link a b else h

def cellEdges (nX j i : Nat) (h : HMesh) : HMesh :=
  ((((h.newEdge (j * nX + i) (j * nX + i + 1) none).1.newEdge (j * nX + i + 1) ((j + 1) * nX + i + 1) none).1.newEdge
    ((j + 1) * nX + i + 1) ((j + 1) * nX + i) none).1.newEdge ((j + 1) * nX + i) (j * nX + i) none).1

theorem cellEdges_same (nX j i : Nat) (h : HMesh) :
    (cellEdges nX j i h).verts = h.verts ∧ (cellEdges nX j i h).leaves = h.leaves ∧
    (cellEdges nX j i h).nElems = h.nElems ∧ (cellEdges nX j i h).glue = h.glue ∧
    (cellEdges nX j i h).xmin = h.xmin ∧ (cellEdges nX j i h).xmax = h.xmax ∧
    (cellEdges nX j i h).tmin = h.tmin ∧ (cellEdges nX j i h).tmax = h.tmax ∧
    (cellEdges nX j i h).elems = h.elems :=
  ⟨rfl, rfl, rfl, rfl, rfl, rfl, rfl, rfl, rfl⟩

def cellTail (nX nT' j i e : Nat) (h : HMesh) (r : Nat) : HMesh :=
  let h1 := (((h.markBoundary (j == 0) e).markBoundary (i + 1 == nX - 1) (e + 1)).markBoundary (i == 0) (e + 3)).markBoundary
    (j + 1 == nT') (e + 2)
  let h2 := h1.linkIf (decide (i > 0)) (h1.elem (r - 1)).e1 (h1.elem r).e3
  h2.linkIf (decide (j > 0)) (h2.elem ((j - 1) * (nX - 1) + i)).e2 (h2.elem r).e0

theorem initCell_eq (nX nT' j i : Nat) (h : HMesh) :
    initCell nX nT' j h i =
      ((cellEdges nX j i h).newElem h.edges.size (h.edges.size + 1) (h.edges.size + 2) (h.edges.size + 3) 0 0 none
        h.elems.size >>= fun p => pure (cellTail nX nT' j i h.edges.size p.1 p.2)) := by
  unfold initCell cellTail HMesh.linkIf HMesh.link HMesh.markBoundary cellEdges
  simp only [newEdge_snd, size_newEdge, newEdge_elems]
  congr 1
  funext p
  obtain ⟨h, r⟩ := p
  simp only [gt_iff_lt, decide_eq_true_eq]

@[simp] theorem markBoundary_elem (h : HMesh) (c : Bool) (e k : Nat) : (h.markBoundary c e).elem k = h.elem k := by
  unfold HMesh.markBoundary; split <;> rfl
@[simp] theorem markBoundary_elems (h : HMesh) (c : Bool) (e : Nat) : (h.markBoundary c e).elems = h.elems := by
  unfold HMesh.markBoundary; split <;> rfl
@[simp] theorem markBoundary_verts (h : HMesh) (c : Bool) (e : Nat) : (h.markBoundary c e).verts = h.verts := by
  unfold HMesh.markBoundary; split <;> rfl
@[simp] theorem linkIf_elem (h : HMesh) (c : Bool) (a b k : Nat) : (h.linkIf c a b).elem k = h.elem k := by
  unfold HMesh.linkIf HMesh.link; split <;> rfl
@[simp] theorem linkIf_elems (h : HMesh) (c : Bool) (a b : Nat) : (h.linkIf c a b).elems = h.elems := by
  unfold HMesh.linkIf HMesh.link; split <;> rfl
@[simp] theorem linkIf_verts (h : HMesh) (c : Bool) (a b : Nat) : (h.linkIf c a b).verts = h.verts := by
  unfold HMesh.linkIf HMesh.link; split <;> rfl

/-- all fields but `edges` agree -/
def SameButEdges (h h' : HMesh) : Prop :=
  h'.glue = h.glue ∧ h'.verts = h.verts ∧ h'.elems = h.elems ∧ h'.leaves = h.leaves ∧ h'.nElems = h.nElems ∧
  h'.xmin = h.xmin ∧ h'.xmax = h.xmax ∧ h'.tmin = h.tmin ∧ h'.tmax = h.tmax

theorem SameButEdges.markBoundary (h : HMesh) (c : Bool) (e : Nat) : SameButEdges h (h.markBoundary c e) := by
  unfold HMesh.markBoundary; split <;> exact ⟨rfl, rfl, rfl, rfl, rfl, rfl, rfl, rfl, rfl⟩

theorem SameButEdges.linkIf (h : HMesh) (c : Bool) (a b : Nat) : SameButEdges h (h.linkIf c a b) := by
  unfold HMesh.linkIf HMesh.link; split <;> exact ⟨rfl, rfl, rfl, rfl, rfl, rfl, rfl, rfl, rfl⟩

theorem SameButEdges.trans {a b c : HMesh} (h1 : SameButEdges a b) (h2 : SameButEdges b c) :
    SameButEdges a c := by
  obtain ⟨a1, a2, a3, a4, a5, a6, a7, a8, a9⟩ := h1
  obtain ⟨b1, b2, b3, b4, b5, b6, b7, b8, b9⟩ := h2
  exact ⟨b1.trans a1, b2.trans a2, b3.trans a3, b4.trans a4, b5.trans a5, b6.trans a6, b7.trans a7,
    b8.trans a8, b9.trans a9⟩


theorem EdgesAre.markBoundary {h : HMesh} {n : Nat} {F : Nat → HEdge} (H : EdgesAre h n F) (c : Bool)
    {e : Nat} (he : e < n) : EdgesAre (h.markBoundary c e) n (if c then upd F e (setOB (F e)) else F) := by
  unfold HMesh.markBoundary
  split
  · exact H.setEdge he _
  · exact H

theorem EdgesAre.linkIf {h : HMesh} {n : Nat} {F : Nat → HEdge} (H : EdgesAre h n F) (c : Bool)
    {a b : Nat} (hab : c = true → a < n ∧ b < n) :
    EdgesAre (h.linkIf c a b) n
      (if c then upd (upd F a (setNbr b (F a))) b (setNbr a (upd F a (setNbr b (F a)) b)) else F) := by
  unfold HMesh.linkIf HMesh.link
  split
  · rename_i hc
    exact (H.setEdge (hab hc).1 _).setEdge (hab hc).2 _
  · exact H

macro "upd_simp" : tactic =>
  `(tactic| (simp only [upd]; repeat (first | rw [if_pos (by omega)] | rw [if_neg (by omega)])))

/-- the edge array while root `n` is being wired: the old part and the four edges of the new root -/
structure CS (h : HMesh) (n : Nat) (Old : Nat → HEdge) (e0 e1 e2 e3 : HEdge) : Prop where
  size : h.edges.size = 4 * n + 4
  old : ∀ k < 4 * n, h.edge k = Old k
  n0 : h.edge (4 * n) = e0
  n1 : h.edge (4 * n + 1) = e1
  n2 : h.edge (4 * n + 2) = e2
  n3 : h.edge (4 * n + 3) = e3

variable {h : HMesh} {n : Nat} {Old : Nat → HEdge} {e0 e1 e2 e3 : HEdge}

theorem CS.set0 (H : CS h n Old e0 e1 e2 e3) (f : HEdge → HEdge) :
    CS (h.setEdge (4 * n) f) n Old (f e0) e1 e2 e3 := by
  obtain ⟨sz, old, n0, n1, n2, n3⟩ := H
  refine ⟨by simp [sz], fun k hk => ?_, ?_, ?_, ?_, ?_⟩
  · rw [edge_setEdge_ne _ _ (by omega), old k hk]
  · rw [edge_setEdge_self _ _ (by omega), n0]
  · rw [edge_setEdge_ne _ _ (by omega), n1]
  · rw [edge_setEdge_ne _ _ (by omega), n2]
  · rw [edge_setEdge_ne _ _ (by omega), n3]

theorem CS.set1 (H : CS h n Old e0 e1 e2 e3) (f : HEdge → HEdge) :
    CS (h.setEdge (4 * n + 1) f) n Old e0 (f e1) e2 e3 := by
  obtain ⟨sz, old, n0, n1, n2, n3⟩ := H
  refine ⟨by simp [sz], fun k hk => ?_, ?_, ?_, ?_, ?_⟩
  · rw [edge_setEdge_ne _ _ (by omega), old k hk]
  · rw [edge_setEdge_ne _ _ (by omega), n0]
  · rw [edge_setEdge_self _ _ (by omega), n1]
  · rw [edge_setEdge_ne _ _ (by omega), n2]
  · rw [edge_setEdge_ne _ _ (by omega), n3]

theorem CS.set2 (H : CS h n Old e0 e1 e2 e3) (f : HEdge → HEdge) :
    CS (h.setEdge (4 * n + 2) f) n Old e0 e1 (f e2) e3 := by
  obtain ⟨sz, old, n0, n1, n2, n3⟩ := H
  refine ⟨by simp [sz], fun k hk => ?_, ?_, ?_, ?_, ?_⟩
  · rw [edge_setEdge_ne _ _ (by omega), old k hk]
  · rw [edge_setEdge_ne _ _ (by omega), n0]
  · rw [edge_setEdge_ne _ _ (by omega), n1]
  · rw [edge_setEdge_self _ _ (by omega), n2]
  · rw [edge_setEdge_ne _ _ (by omega), n3]

theorem CS.set3 (H : CS h n Old e0 e1 e2 e3) (f : HEdge → HEdge) :
    CS (h.setEdge (4 * n + 3) f) n Old e0 e1 e2 (f e3) := by
  obtain ⟨sz, old, n0, n1, n2, n3⟩ := H
  refine ⟨by simp [sz], fun k hk => ?_, ?_, ?_, ?_, ?_⟩
  · rw [edge_setEdge_ne _ _ (by omega), old k hk]
  · rw [edge_setEdge_ne _ _ (by omega), n0]
  · rw [edge_setEdge_ne _ _ (by omega), n1]
  · rw [edge_setEdge_ne _ _ (by omega), n2]
  · rw [edge_setEdge_self _ _ (by omega), n3]

theorem CS.setOld (H : CS h n Old e0 e1 e2 e3) {a : Nat} (ha : a < 4 * n) (f : HEdge → HEdge) :
    CS (h.setEdge a f) n (upd Old a (f (Old a))) e0 e1 e2 e3 := by
  obtain ⟨sz, old, n0, n1, n2, n3⟩ := H
  refine ⟨by simp [sz], fun k hk => ?_, ?_, ?_, ?_, ?_⟩
  · unfold upd
    rw [edge_setEdge _ _ (by omega)]
    split
    · rw [old a ha]
    · exact old k hk
  · rw [edge_setEdge_ne _ _ (by omega), n0]
  · rw [edge_setEdge_ne _ _ (by omega), n1]
  · rw [edge_setEdge_ne _ _ (by omega), n2]
  · rw [edge_setEdge_ne _ _ (by omega), n3]

theorem CS.mark0 (H : CS h n Old e0 e1 e2 e3) (c : Bool) :
    CS (h.markBoundary c (4 * n)) n Old (if c then setOB e0 else e0) e1 e2 e3 := by
  unfold HMesh.markBoundary; split
  · exact H.set0 _
  · exact H
theorem CS.mark1 (H : CS h n Old e0 e1 e2 e3) (c : Bool) :
    CS (h.markBoundary c (4 * n + 1)) n Old e0 (if c then setOB e1 else e1) e2 e3 := by
  unfold HMesh.markBoundary; split
  · exact H.set1 _
  · exact H
theorem CS.mark2 (H : CS h n Old e0 e1 e2 e3) (c : Bool) :
    CS (h.markBoundary c (4 * n + 2)) n Old e0 e1 (if c then setOB e2 else e2) e3 := by
  unfold HMesh.markBoundary; split
  · exact H.set2 _
  · exact H
theorem CS.mark3 (H : CS h n Old e0 e1 e2 e3) (c : Bool) :
    CS (h.markBoundary c (4 * n + 3)) n Old e0 e1 e2 (if c then setOB e3 else e3) := by
  unfold HMesh.markBoundary; split
  · exact H.set3 _
  · exact H

/-- `roots[-2].edges[1]` ↔ `roots[-1].edges[3]` -/
theorem CS.link3 (H : CS h n Old e0 e1 e2 e3) (c : Bool) {a : Nat} (ha : c = true → a < 4 * n) :
    CS (h.linkIf c a (4 * n + 3)) n (if c then upd Old a (setNbr (4 * n + 3) (Old a)) else Old) e0 e1 e2
      (if c then setNbr a e3 else e3) := by
  unfold HMesh.linkIf HMesh.link; split
  · rename_i hc
    exact (H.setOld (ha hc) _).set3 _
  · rename_i hc
    exact H

theorem CS.link0 (H : CS h n Old e0 e1 e2 e3) (c : Bool) {a : Nat} (ha : c = true → a < 4 * n) :
    CS (h.linkIf c a (4 * n)) n (if c then upd Old a (setNbr (4 * n) (Old a)) else Old)
      (if c then setNbr a e0 else e0) e1 e2 e3 := by
  unfold HMesh.linkIf HMesh.link; split
  · rename_i hc
    exact (H.setOld (ha hc) _).set0 _
  · rename_i hc
    exact H


theorem ite_upd_apply (c : Bool) (G : Nat → HEdge) (a : Nat) (v : HEdge) (k : Nat) :
    (if c = true then upd G a v else G) k = if c = true ∧ k = a then v else G k := by
  unfold upd
  cases c <;> simp

theorem initCell_spec {glue : Bool} {X T : List Rat} (hX : X.Pairwise (· < ·)) (hT : T.Pairwise (· < ·))
    {j i : Nat} (hi : i < X.length - 1) (hj : j < T.length - 1) {h : HMesh}
    (H : InitState glue X T (j * (X.length - 1) + i) j h) :
    ∃ h', initCell X.length (T.length - 1) j h i = .ok h' ∧
      InitState glue X T (j * (X.length - 1) + i + 1) j h' := by
  obtain ⟨⟨vsz, vat⟩, E0, elsz, elat, hleaves, hnel, hglue, hbox, hcoords⟩ := H
  set n := j * (X.length - 1) + i with hn
  have hsz := E0.1
  -- the four new edges
  have E4 : EdgesAre (cellEdges X.length j i h) (4 * n + 1 + 1 + 1 + 1) _ :=
    (((E0.newEdge _ _ none).newEdge _ _ none).newEdge _ _ none).newEdge _ _ none
  have c4v : ∀ k, (cellEdges X.length j i h).vert k = h.vert k := fun k => rfl
  have c4e : (cellEdges X.length j i h).elems = h.elems := rfl
  have e0 : (cellEdges X.length j i h).edge (4 * n) = { v0 := j * X.length + i, v1 := j * X.length + i + 1 } := by
    rw [E4.2 _ (by omega)]; upd_simp; rfl
  have e1 : (cellEdges X.length j i h).edge (4 * n + 1) =
      { v0 := j * X.length + i + 1, v1 := (j + 1) * X.length + i + 1 } := by
    rw [E4.2 _ (by omega)]; upd_simp; rfl
  have e2 : (cellEdges X.length j i h).edge (4 * n + 2) =
      { v0 := (j + 1) * X.length + i + 1, v1 := (j + 1) * X.length + i } := by
    rw [E4.2 _ (by omega)]; upd_simp; rfl
  have e3 : (cellEdges X.length j i h).edge (4 * n + 3) =
      { v0 := (j + 1) * X.length + i, v1 := j * X.length + i } := by
    rw [E4.2 _ (by omega)]; upd_simp; rfl
  have v00 := vat j (by omega) i (by omega)
  have v01 := vat j (by omega) (i + 1) (by omega)
  have v11 := vat (j + 1) (by omega) (i + 1) (by omega)
  have v10 := vat (j + 1) (by omega) i (by omega)
  have hne := newElem_ok (cellEdges X.length j i h) (4 * n) (4 * n + 1) (4 * n + 2) (4 * n + 3) 0 0 none
    h.elems.size (by rw [E4.1]; omega) (by omega) (by rw [e0, e1, e2, e3]; simp) (fun _ => ⟨rfl, rfl⟩)
    (by rw [e0, e1, e2, e3]; simp)
    (by
      rw [e0, e1, e2, e3]
      simp only [c4v]
      rw [v00, show j * X.length + i + 1 = j * X.length + (i + 1) by omega, v01,
        show (j + 1) * X.length + i + 1 = (j + 1) * X.length + (i + 1) by omega, v11, v10]
      exact ⟨rfl, rfl, rfl, rfl, getD_lt_of_sinc hT (by omega), getD_lt_of_sinc hX (by omega)⟩)
  rw [initCell_eq, hsz, hne]
  refine ⟨_, rfl, ?_⟩
  simp only
  rw [elsz]
  set R := regElem (cellEdges X.length j i h) (4 * n) (4 * n + 1) (4 * n + 2) (4 * n + 3) 0 0 none n with hR
  have Rsz : R.elems.size = n + 1 := by rw [hR, regElem_elems_size, c4e, elsz]
  have Relem : ∀ k < n + 1, R.elem k = specElem k := by
    intro k hk
    by_cases hkn : k = n
    · subst hkn
      have := regElem_elem_self (cellEdges X.length j i h) (4 * n) (4 * n + 1) (4 * n + 2) (4 * n + 3) 0 0 none n
      rw [c4e, elsz] at this
      rw [hR, this]; rfl
    · rw [hR, regElem_elem_lt _ _ _ _ _ _ _ _ _ (by rw [c4e, elsz]; omega), ← elat k (by omega)]; rfl
  have Redge : ∀ k, R.edge k = if k = 4 * n ∨ k = 4 * n + 1 ∨ k = 4 * n + 2 ∨ k = 4 * n + 3 then
      setOwner (some n) ((cellEdges X.length j i h).edge k) else (cellEdges X.length j i h).edge k := by
    intro k
    rw [hR, regElem_edge _ _ _ _ _ _ _ _ _ (by rw [E4.1]; omega), c4e, elsz]
  have CS0 : CS R n (specEdge glue X.length (T.length - 1) n j)
      { v0 := j * X.length + i, v1 := j * X.length + i + 1, elem := some n }
      { v0 := j * X.length + i + 1, v1 := (j + 1) * X.length + i + 1, elem := some n }
      { v0 := (j + 1) * X.length + i + 1, v1 := (j + 1) * X.length + i, elem := some n }
      { v0 := (j + 1) * X.length + i, v1 := j * X.length + i, elem := some n } := by
    refine ⟨by rw [hR, regElem_edges_size, E4.1], fun k hk => ?_, ?_, ?_, ?_, ?_⟩
    · rw [Redge, if_neg (by omega), E4.2 k (by omega)]
      upd_simp
    · rw [Redge, if_pos (by omega), e0]; rfl
    · rw [Redge, if_pos (by omega), e1]; rfl
    · rw [Redge, if_pos (by omega), e2]; rfl
    · rw [Redge, if_pos (by omega), e3]; rfl
  unfold cellTail
  simp only [markBoundary_elem, linkIf_elem, c4e, elsz]
  have hNxn : 0 < j → (j - 1) * (X.length - 1) + i + (X.length - 1) = n := by
    intro hc
    rw [hn, Nat.sub_one_mul]
    have : X.length - 1 ≤ j * (X.length - 1) := Nat.le_mul_of_pos_left _ hc
    omega
  have ea : (R.elem (n - 1)).e1 = 4 * (n - 1) + 1 := by
    rw [Relem _ (by omega)]; rfl
  have eb : (R.elem n).e3 = 4 * n + 3 := by rw [Relem _ (by omega)]; rfl
  have ec : (R.elem ((j - 1) * (X.length - 1) + i)).e2 = 4 * ((j - 1) * (X.length - 1) + i) + 2 := by
    by_cases hc : 0 < j
    · rw [Relem _ (by have := hNxn hc; omega)]; rfl
    · have : j = 0 := by omega
      subst this
      rw [Relem _ (by simp at hn ⊢; omega)]; rfl
  have ed : (R.elem n).e0 = 4 * n := by rw [Relem _ (by omega)]; rfl
  rw [ea, eb, ec, ed]
  set M1 := R.markBoundary (j == 0) (4 * n) with hM1
  set M2 := M1.markBoundary (i + 1 == X.length - 1) (4 * n + 1) with hM2
  set M3 := M2.markBoundary (i == 0) (4 * n + 3) with hM3
  set M4 := M3.markBoundary (j + 1 == T.length - 1) (4 * n + 2) with hM4
  set M5 := M4.linkIf (decide (i > 0)) (4 * (n - 1) + 1) (4 * n + 3) with hM5
  set M6 := M5.linkIf (decide (j > 0)) (4 * ((j - 1) * (X.length - 1) + i) + 2) (4 * n) with hM6
  have C1 := CS0.mark0 (j == 0)
  rw [← hM1] at C1
  have C2 := C1.mark1 (i + 1 == X.length - 1)
  rw [← hM2] at C2
  have C3 := C2.mark3 (i == 0)
  rw [← hM3] at C3
  have C4 := C3.mark2 (j + 1 == T.length - 1)
  rw [← hM4] at C4
  have C10 := C4.link3 (decide (i > 0)) (a := 4 * (n - 1) + 1) (by
    intro hc; have hc : 0 < i := by simpa using hc
    omega)
  rw [← hM5] at C10
  have C11 := C10.link0 (decide (j > 0)) (a := 4 * ((j - 1) * (X.length - 1) + i) + 2) (by
    intro hc; have hc : 0 < j := by simpa using hc
    have := hNxn hc; omega)
  rw [← hM6] at C11
  have SB : SameButEdges R M6 := (((((SameButEdges.markBoundary R (j == 0) (4 * n)).trans
    (SameButEdges.markBoundary M1 (i + 1 == X.length - 1) (4 * n + 1))).trans
    (SameButEdges.markBoundary M2 (i == 0) (4 * n + 3))).trans
    (SameButEdges.markBoundary M3 (j + 1 == T.length - 1) (4 * n + 2))).trans
    (SameButEdges.linkIf M4 (decide (i > 0)) (4 * (n - 1) + 1) (4 * n + 3))).trans
    (SameButEdges.linkIf M5 (decide (j > 0)) (4 * ((j - 1) * (X.length - 1) + i) + 2) (4 * n))
  have Rsame : R.verts = h.verts ∧ R.leaves = h.leaves ∧ R.nElems = h.nElems ∧ R.glue = h.glue ∧
      R.xmin = h.xmin ∧ R.xmax = h.xmax ∧ R.tmin = h.tmin ∧ R.tmax = h.tmax := by
    obtain ⟨z1, z2, z3, z4, z5, z6, z7, z8, -⟩ := cellEdges_same X.length j i h
    rw [hR, regElem_verts, regElem_leaves, regElem_nElems, regElem_glue, regElem_xmin, regElem_xmax,
      regElem_tmin, regElem_tmax]
    exact ⟨z1, z2, z3, z4, z5, z6, z7, z8⟩
  obtain ⟨q1, q2, q3, q4, q5, q6, q7, q8⟩ := Rsame
  clear_value M6 M5 M4 M3 M2 M1 R
  obtain ⟨s1, s2, s3, s4, s5, s6, s7, s8, s9⟩ := SB
  obtain ⟨dm1, dm2⟩ := divmod (Nx := X.length - 1) (j := j) (i := i) hi
  rw [← hn] at dm1 dm2
  have hvert : ∀ k, M6.vert k = h.vert k := fun k => by
    show M6.verts.getD k {} = _
    rw [s2, q1]; rfl
  refine ⟨⟨by rw [s2, q1]; exact vsz, fun j' hj' i' hi' => by rw [hvert]; exact vat j' hj' i' hi'⟩,
    ⟨by rw [C11.size]; ring, ?_⟩, by rw [s3]; exact Rsz, fun k hk => ?_, by rw [s4, q2]; exact hleaves,
    by rw [s5, q3]; exact hnel, by rw [s1, q4]; exact hglue, by rw [s6, s7, s8, s9, q5, q6, q7, q8]; exact hbox,
    by rw [s2, q1]; exact hcoords⟩
  · intro k hk
    have hk4 := Nat.div_add_mod k 4
    have hs4 := Nat.mod_lt k (show 0 < 4 by omega)
    by_cases hq : k / 4 = n
    · have hks : k = 4 * n ∨ k = 4 * n + 1 ∨ k = 4 * n + 2 ∨ k = 4 * n + 3 := by omega
      rcases hks with rfl | rfl | rfl | rfl
      · rw [C11.n0]
        show _ = specQ _ _ _ _ _ _ _
        rw [show 4 * n / 4 = n by omega, show 4 * n % 4 = 0 by omega]
        simp only [specQ, dm1, dm2]
        by_cases hj0 : 0 < j
        · have := hNxn hj0
          have e : 4 * ((j - 1) * (X.length - 1) + i) + 2 = 4 * (n - (X.length - 1)) + 2 := by omega
          simp [hj0, setNbr, show ¬ j = 0 by omega, e]
        · have : j = 0 := by omega
          subst this
          simp [setOB]
      · rw [C11.n1]
        show _ = specQ _ _ _ _ _ _ _
        rw [show (4 * n + 1) / 4 = n by omega, show (4 * n + 1) % 4 = 1 by omega]
        simp only [specQ, dm1, dm2]
        by_cases hc : i + 1 = X.length - 1
        · simp [hc, setOB]
        · simp [hc, show i + 1 < X.length - 1 by omega]
      · rw [C11.n2]
        show _ = specQ _ _ _ _ _ _ _
        rw [show (4 * n + 2) / 4 = n by omega, show (4 * n + 2) % 4 = 2 by omega]
        simp only [specQ, dm1, dm2]
        have : ¬ n + (X.length - 1) < n + 1 := by omega
        by_cases hc : j + 1 = T.length - 1
        · simp [hc, setOB, this]
        · simp [hc, this]
      · rw [C11.n3]
        show _ = specQ _ _ _ _ _ _ _
        rw [show (4 * n + 3) / 4 = n by omega, show (4 * n + 3) % 4 = 3 by omega]
        simp only [specQ, dm1, dm2]
        by_cases hc : 0 < i
        · simp [hc, setNbr, show ¬ i = 0 by omega]
        · have : i = 0 := by omega
          subst this
          simp [setOB]
    · have hq' : k / 4 < n := by omega
      rw [C11.old k (by omega)]
      show _ = specQ _ _ _ _ _ _ _
      rw [hn, specQ_step glue X.length (T.length - 1) j hi (by rw [← hn]; exact hq') hs4, ← hn]
      rw [ite_upd_apply, ite_upd_apply, ite_upd_apply]
      simp only [decide_eq_true_eq, gt_iff_lt]
      by_cases c1 : 0 < i ∧ k / 4 + 1 = n ∧ k % 4 = 1
      · rw [if_pos c1, if_neg (by omega), if_pos ⟨c1.1, by omega⟩]
        rw [show 4 * (n - 1) + 1 = k by omega]
        rfl
      · rw [if_neg c1]
        by_cases c2 : 0 < j ∧ k / 4 + (X.length - 1) = n ∧ k % 4 = 2
        · have := hNxn c2.1
          rw [if_pos c2, if_pos ⟨c2.1, by omega⟩, if_neg (by omega)]
          rw [show 4 * ((j - 1) * (X.length - 1) + i) + 2 = k by omega]
          rfl
        · rw [if_neg c2, if_neg (by
            rintro ⟨hj0, e⟩
            have := hNxn hj0
            exact c2 ⟨hj0, by omega, by omega⟩), if_neg (by
            rintro ⟨hi0, e⟩
            exact c1 ⟨hi0, by omega, by omega⟩)]
          rfl
  · have : M6.elem k = R.elem k := by
      show M6.elems.getD k {} = _
      rw [s3]; rfl
    rw [this, Relem k hk]

/-- the loop over `i` -/
theorem initCells_spec {glue : Bool} {X T : List Rat} (hX : X.Pairwise (· < ·)) (hT : T.Pairwise (· < ·))
    {j : Nat} (hj : j < T.length - 1) (m : Nat) (hm : m ≤ X.length - 1) {h : HMesh}
    (H : InitState glue X T (j * (X.length - 1)) j h) :
    ∃ h', (List.range m).foldlM (initCell X.length (T.length - 1) j) h = .ok h' ∧
      InitState glue X T (j * (X.length - 1) + m) j h' := by
  induction m with
  | zero => exact ⟨h, rfl, H⟩
  | succ m ih =>
    obtain ⟨h1, e1, H1⟩ := ih (by omega)
    obtain ⟨h2, e2, H2⟩ := initCell_spec hX hT (i := m) (by omega) hj H1
    refine ⟨h2, ?_, H2⟩
    rw [List.range_succ, List.foldlM_append, e1]
    simp only [ok_bind, List.foldlM_cons, List.foldlM_nil]
    rw [e2]; rfl


/-- how the closed form changes when row `j` is glued (`n = (j + 1) * Nx` roots) -/
theorem specQ_glue (nX Nt : Nat) {j : Nat} (hNx : 0 < nX - 1) {q s : Nat}
    (hq : q < (j + 1) * (nX - 1)) (hs : s < 4) :
    specQ true nX Nt ((j + 1) * (nX - 1)) (j + 1) q s =
      if q = j * (nX - 1) ∧ s = 3 then
        { specQ true nX Nt ((j + 1) * (nX - 1)) j q s with
          nbr := if 0 < q % (nX - 1) then (specQ true nX Nt ((j + 1) * (nX - 1)) j q s).nbr
                 else some (4 * (j * (nX - 1) + (nX - 1) - 1) + 1), glued := true }
      else if q + 1 = (j + 1) * (nX - 1) ∧ s = 1 then
        { specQ true nX Nt ((j + 1) * (nX - 1)) j q s with
          nbr := if q % (nX - 1) + 1 < nX - 1 then (specQ true nX Nt ((j + 1) * (nX - 1)) j q s).nbr
                 else some (4 * (j * (nX - 1)) + 3), glued := true }
      else specQ true nX Nt ((j + 1) * (nX - 1)) j q s := by
  generalize hN : nX - 1 = Nx at *
  have h1 := Nat.div_add_mod q Nx
  have h2 := Nat.mod_lt q hNx
  have hsm : (j + 1) * Nx = j * Nx + Nx := Nat.succ_mul j Nx
  have hjq : q / Nx ≤ j := by
    by_contra hc
    have : (j + 1) * Nx ≤ (q / Nx) * Nx := Nat.mul_le_mul_right _ (by omega)
    rw [Nat.mul_comm (q / Nx)] at this
    omega
  have hrow : q / Nx = j → q = j * Nx + q % Nx := by
    intro e; rw [e, Nat.mul_comm] at h1; omega
  have hrow' : q / Nx < j → q + Nx < (j + 1) * Nx := by
    intro e
    have : (q / Nx + 1) * Nx ≤ j * Nx := Nat.mul_le_mul_right _ e
    rw [Nat.succ_mul, Nat.mul_comm (q / Nx)] at this
    omega
  match s, hs with
  | 0, _ => simp [specQ]
  | 2, _ => simp [specQ]
  | 1, _ =>
    simp only [specQ, hN, show ¬ (1 = 3) by omega, and_false, if_false, and_true, Bool.true_and]
    by_cases hc : q + 1 = (j + 1) * Nx
    · rw [if_pos hc]
      have hd := divmod (Nx := Nx) (j := j) (i := Nx - 1) (by omega)
      rw [show j * Nx + (Nx - 1) = q by omega] at hd
      simp [hd.1, hd.2, show Nx - 1 + 1 = Nx by omega]
    · rw [if_neg hc]
      rcases Nat.lt_or_eq_of_le hjq with hlt | heq
      · simp [hlt, show q / Nx < j + 1 by omega]
      · have := hrow heq
        have h3 : ¬ q % Nx + 1 = Nx := by omega
        have h4 : q % Nx + 1 < Nx := by omega
        simp [h3, h4]
  | 3, _ =>
    simp only [specQ, hN, and_true, Bool.true_and]
    by_cases hc : q = j * Nx
    · rw [if_pos hc]
      have hd := divmod (Nx := Nx) (j := j) (i := 0) hNx
      rw [Nat.add_zero, ← hc] at hd
      simp [hd.1, hd.2]
    · rw [if_neg hc]
      simp only [show ¬ (3 = 1) by omega, and_false, if_false]
      rcases Nat.lt_or_eq_of_le hjq with hlt | heq
      · simp [hlt, show q / Nx < j + 1 by omega]
      · have := hrow heq
        have h3 : ¬ q % Nx = 0 := by omega
        have h4 : 0 < q % Nx := by omega
        simp [h3, h4]

theorem specQ_noglue (nX Nt n g g' q s : Nat) : specQ false nX Nt n g q s = specQ false nX Nt n g' q s := by
  unfold specQ
  split <;> simp

theorem SameButEdges.setEdge (h : HMesh) (i : Nat) (f : HEdge → HEdge) : SameButEdges h (h.setEdge i f) :=
  ⟨rfl, rfl, rfl, rfl, rfl, rfl, rfl, rfl, rfl⟩

theorem InitState.of_same {glue : Bool} {X T : List Rat} {n g g' : Nat} {h h' : HMesh}
    (H : InitState glue X T n g h) (S : SameButEdges h h')
    (E : EdgesAre h' (4 * n) (specEdge glue X.length (T.length - 1) n g')) : InitState glue X T n g' h' := by
  obtain ⟨⟨a0, a1⟩, a2, a3, a4, a5, a6, a7, a8, a9⟩ := H
  obtain ⟨s1, s2, s3, s4, s5, s6, s7, s8, s9⟩ := S
  have hv : ∀ k, h'.vert k = h.vert k := fun k => by
    show h'.verts.getD k {} = _
    rw [s2]; rfl
  have he : ∀ k, h'.elem k = h.elem k := fun k => by
    show h'.elems.getD k {} = _
    rw [s3]; rfl
  exact ⟨⟨by rw [s2]; exact a0, fun j hj i hi => by rw [hv]; exact a1 j hj i hi⟩, E, by rw [s3]; exact a3,
    fun k hk => by rw [he]; exact a4 k hk, by rw [s4]; exact a5, by rw [s5]; exact a6, by rw [s1]; exact a7,
    by rw [s6, s7, s8, s9]; exact a8, by rw [s2]; exact a9⟩

def setGlued (e : HEdge) : HEdge := { e with glued := true }

theorem initRow_spec {glue : Bool} {X T : List Rat} (hX : X.Pairwise (· < ·)) (hT : T.Pairwise (· < ·))
    (hX2 : 2 ≤ X.length) {j : Nat} (hj : j < T.length - 1) {h : HMesh}
    (H : InitState glue X T (j * (X.length - 1)) j h) :
    ∃ h', initRow glue X.length (T.length - 1) h j = .ok h' ∧
      InitState glue X T ((j + 1) * (X.length - 1)) (j + 1) h' := by
  obtain ⟨h1, e1, H1⟩ := initCells_spec hX hT hj (X.length - 1) (le_refl _) H
  have hsm : (j + 1) * (X.length - 1) = j * (X.length - 1) + (X.length - 1) := Nat.succ_mul _ _
  rw [← hsm] at H1
  unfold initRow
  dsimp only
  rw [e1]
  simp only [ok_bind]
  cases glue with
  | false =>
    refine ⟨h1, rfl, ?_⟩
    obtain ⟨a1, a2, a3, a4, a5, a6, a7, a8, a9⟩ := H1
    refine ⟨a1, a2.congr ?_, a3, a4, a5, a6, a7, a8, a9⟩
    intro k hk
    exact specQ_noglue _ _ _ _ _ _ _
  | true =>
    simp only [if_true]
    have HH := H1
    obtain ⟨a1, a2, a3, a4, a5, a6, a7, a8, a9⟩ := H1
    have hpos : 0 < (j + 1) * (X.length - 1) := by rw [hsm]; omega
    rw [if_neg (by rw [a3]; omega)]
    have ea : (h1.elem (j * (X.length - 1))).e3 = 4 * (j * (X.length - 1)) + 3 := by
      rw [a4 _ (by omega)]; rfl
    have eb : (h1.elem (h1.elems.size - 1)).e1 = 4 * ((j + 1) * (X.length - 1) - 1) + 1 := by
      rw [a3, a4 _ (by omega)]; rfl
    simp only [ea, eb, pure_eq_ok]
    refine ⟨_, rfl, ?_⟩
    have hab : 4 * (j * (X.length - 1)) + 3 < 4 * ((j + 1) * (X.length - 1)) ∧
        4 * ((j + 1) * (X.length - 1) - 1) + 1 < 4 * ((j + 1) * (X.length - 1)) := by omega
    have E1 := a2.setEdge hab.1 (fun e => { e with glued := true })
    have E2 := E1.setEdge hab.2 (fun e => { e with glued := true })
    have E3 := E2.setEdge hab.1 (fun e => { e with nbr := some (4 * ((j + 1) * (X.length - 1) - 1) + 1) })
    have E4 := E3.setEdge hab.2 (fun e => { e with nbr := some (4 * (j * (X.length - 1)) + 3) })
    refine HH.of_same ((((SameButEdges.setEdge _ _ _).trans (SameButEdges.setEdge _ _ _)).trans
      (SameButEdges.setEdge _ _ _)).trans (SameButEdges.setEdge _ _ _)) (E4.congr ?_)
    intro k hk
    have hk4 := Nat.div_add_mod k 4
    have hs4 := Nat.mod_lt k (show 0 < 4 by omega)
    show _ = specQ _ _ _ _ _ _ _
    rw [specQ_glue X.length (T.length - 1) (by omega) (by omega) hs4]
    have hda := divmod (Nx := X.length - 1) (j := j) (i := 0) (by omega)
    have hdb := divmod (Nx := X.length - 1) (j := j) (i := X.length - 1 - 1) (by omega)
    by_cases ca : k / 4 = j * (X.length - 1) ∧ k % 4 = 3
    · have hka : k = 4 * (j * (X.length - 1)) + 3 := by omega
      rw [if_pos ca]
      subst hka
      have ne1 : ¬ (4 * (j * (X.length - 1)) + 3 = 4 * ((j + 1) * (X.length - 1) - 1) + 1) := by omega
      have ne2 : ¬ (4 * ((j + 1) * (X.length - 1) - 1) + 1 = 4 * (j * (X.length - 1)) + 3) := by omega
      simp only [upd, ne1, ne2, if_true, if_false]
      simp only [specEdge, ca.1, ca.2]
      rw [Nat.add_zero] at hda
      simp [specQ, hda.1, hda.2]
      omega
    · rw [if_neg ca]
      by_cases cb : k / 4 + 1 = (j + 1) * (X.length - 1) ∧ k % 4 = 1
      · have hkb : k = 4 * ((j + 1) * (X.length - 1) - 1) + 1 := by omega
        rw [if_pos cb]
        subst hkb
        have ne1 : ¬ (4 * (j * (X.length - 1)) + 3 = 4 * ((j + 1) * (X.length - 1) - 1) + 1) := by omega
        have ne2 : ¬ (4 * ((j + 1) * (X.length - 1) - 1) + 1 = 4 * (j * (X.length - 1)) + 3) := by omega
        simp only [upd, ne1, ne2, if_true, if_false]
        have hq : (4 * ((j + 1) * (X.length - 1) - 1) + 1) / 4 = j * (X.length - 1) + (X.length - 1 - 1) := by omega
        simp only [specEdge, hq, cb.2]
        simp [specQ, hdb.1, hdb.2, show X.length - 1 - 1 + 1 = X.length - 1 by omega]
      · rw [if_neg cb]
        have ne1 : ¬ (k = 4 * (j * (X.length - 1)) + 3) := by omega
        have ne2 : ¬ (k = 4 * ((j + 1) * (X.length - 1) - 1) + 1) := by omega
        simp only [upd, ne1, ne2, if_false]
        rfl

theorem initRows_spec {glue : Bool} {X T : List Rat} (hX : X.Pairwise (· < ·)) (hT : T.Pairwise (· < ·))
    (hX2 : 2 ≤ X.length) (m : Nat) (hm : m ≤ T.length - 1) {h : HMesh}
    (H : InitState glue X T 0 0 h) :
    ∃ h', (List.range m).foldlM (initRow glue X.length (T.length - 1)) h = .ok h' ∧
      InitState glue X T (m * (X.length - 1)) m h' := by
  induction m with
  | zero => exact ⟨h, rfl, by rw [Nat.zero_mul]; exact H⟩
  | succ m ih =>
    obtain ⟨h1, e1, H1⟩ := ih (by omega)
    obtain ⟨h2, e2, H2⟩ := initRow_spec hX hT hX2 (j := m) (by omega) H1
    refine ⟨h2, ?_, H2⟩
    rw [List.range_succ, List.foldlM_append, e1]
    simp only [ok_bind, List.foldlM_cons, List.foldlM_nil]
    rw [e2]; rfl

/-- the arena after `Mesh.__init__` -/
structure InitFinal (glue : Bool) (X T : List Rat) (h : HMesh) : Prop where
  verts : VertsAre X T h
  edges : EdgesAre h (4 * ((T.length - 1) * (X.length - 1)))
    (specEdge glue X.length (T.length - 1) ((T.length - 1) * (X.length - 1)) (T.length - 1))
  elsize : h.elems.size = (T.length - 1) * (X.length - 1)
  elem : ∀ k < (T.length - 1) * (X.length - 1), h.elem k = specElem k
  leaves : h.leaves = List.range ((T.length - 1) * (X.length - 1))
  nElems : h.nElems = (T.length - 1) * (X.length - 1)
  glue : h.glue = glue
  box : h.xmin = X.headD 0 ∧ h.xmax = X.getLastD 0 ∧ h.tmin = T.headD 0 ∧ h.tmax = T.getLastD 0
  coords : h.verts.toList.map (fun v => (v.t, v.x)) = T.flatMap fun t => X.map fun x => (t, x)

theorem init_final (glue : Bool) {X T : List Rat} (hX : X.Pairwise (· < ·)) (hT : T.Pairwise (· < ·))
    (hX2 : 2 ≤ X.length) : ∃ h, init glue X T = .ok h ∧ InitFinal glue X T h := by
  unfold init
  dsimp only
  set h0 : HMesh := { glue := glue, verts := #[], edges := #[], elems := #[], leaves := [], nElems := 0,
                      xmin := X.headD 0, xmax := X.getLastD 0, tmin := T.headD 0, tmax := T.getLastD 0 } with hh0
  obtain ⟨sb, sz, -, new⟩ := vertRows X T h0
  set hv := T.foldl (fun h t => X.foldl (fun (h : HMesh) x => (h.pushVert t x).1) h) h0 with hhv
  obtain ⟨s1, s2, s3, s4, s5, s6, s7, s8, s9⟩ := sb
  have H0 : InitState glue X T 0 0 hv := by
    refine ⟨⟨by rw [sz]; simp [hh0], fun j hj i hi => ?_⟩, ⟨by rw [s2]; rfl, fun k hk => by omega⟩,
      by rw [s3]; rfl, fun k hk => by omega, by rw [s4], by rw [s5], by rw [s1], by rw [s6, s7, s8, s9]; exact ⟨rfl, rfl, rfl, rfl⟩, ?_⟩
    · have := new j hj i hi
      simp only [hh0] at this
      simpa using this
    · have := vertRows_coords X T h0
      rw [← hhv] at this
      rw [this]; simp [hh0]
  obtain ⟨h1, e1, H1⟩ := initRows_spec hX hT hX2 (T.length - 1) (le_refl _) H0
  rw [e1]
  simp only [ok_bind, pure_eq_ok]
  refine ⟨_, rfl, ?_⟩
  obtain ⟨a1, a2, a3, a4, a5, a6, a7, a8, a9⟩ := H1
  exact ⟨a1, a2, a3, a4, by simp [a3], by simp [a3], a7, a8, a9⟩

end Stbem.HalfEdge
