import Stbem.Lemmas.RuleSoundSpec
import Mathlib.Analysis.SpecialFunctions.Log.Deriv
import Mathlib.Analysis.SpecialFunctions.Sqrt
import Mathlib.Tactic.Linarith
import Mathlib.Tactic.Positivity
import Mathlib.Tactic.FieldSimp
import Mathlib.Tactic.Ring
import Mathlib.Tactic.NormNum

/-!
Soundness of the Boolean certificate checks of `Stbem.Model.RuleCheck` with respect to the
real-valued meaning of `Stbem.Lemmas.RuleSoundSpec`.
-/
namespace Stbem.Rules

open Finset

/-! ### basics -/

theorem absQ_eq_abs (x : ℚ) : absQ x = |x| := by
  unfold absQ
  split_ifs with h
  · exact (abs_of_neg h).symm
  · exact (abs_of_nonneg (not_lt.mp h)).symm

theorem absQ_cast (x : ℚ) : ((absQ x : ℚ) : ℝ) = |(x : ℝ)| := by
  rw [absQ_eq_abs, Rat.cast_abs]

theorem sumQ_eq_sum (l : List ℚ) : sumQ l = l.sum := by
  induction l with
  | nil => rfl
  | cons a l ih => simp [sumQ, List.foldr_cons] at ih ⊢; rw [ih]

theorem atanhSum_cast (y : ℚ) (n : ℕ) :
    ((atanhSum y n : ℚ) : ℝ) = ∑ i ∈ range n, (y : ℝ) ^ (2 * i + 1) / (2 * i + 1) := by
  induction n with
  | zero => simp [atanhSum]
  | succ n ih =>
    rw [Finset.sum_range_succ, ← ih]
    simp [atanhSum]

/-! ### radii -/

theorem halfLog_sound (q : ℚ) (hq : 0 < q) (n : ℕ) :
    |(1/2 : ℝ) * Real.log (q : ℝ) - ((halfLogApprox q n : ℚ) : ℝ)| ≤
      ((halfLogErr q n : ℚ) : ℝ) := by
  have hqR : (0 : ℝ) < (q : ℝ) := by exact_mod_cast hq
  have hq1 : (0 : ℝ) < (q : ℝ) + 1 := by linarith
  set x : ℝ := ((q : ℝ) - 1) / ((q : ℝ) + 1) with hx
  have hxlt : |x| < 1 := by
    rw [abs_lt, hx]
    constructor
    · rw [lt_div_iff₀ hq1]; linarith
    · rw [div_lt_iff₀ hq1]; linarith
  have hquot : (1 + x) / (1 - x) = (q : ℝ) := by
    rw [hx]
    field_simp
    ring
  have key := Real.sum_range_sub_log_div_le hxlt n
  rw [hquot] at key
  have hA : ((halfLogApprox q n : ℚ) : ℝ) = ∑ i ∈ range n, x ^ (2 * i + 1) / (2 * i + 1) := by
    unfold halfLogApprox
    rw [atanhSum_cast]
    simp [hx]
  have hE : ((halfLogErr q n : ℚ) : ℝ) = |x| ^ (2 * n + 1) / (1 - x ^ 2) := by
    unfold halfLogErr
    simp only [absQ_eq_abs]
    simp [hx]
  rw [hA, hE]
  exact key

theorem log_sound (q : ℚ) (hq : 0 < q) (n : ℕ) :
    |Real.log (q : ℝ) - ((logApprox q n : ℚ) : ℝ)| ≤ ((logErr q n : ℚ) : ℝ) := by
  have hqR : (0 : ℝ) < (q : ℝ) := by exact_mod_cast hq
  set s := shiftOf q 200 with hs
  have h2s : (0 : ℚ) < q * 2 ^ s := by positivity
  have h1 := halfLog_sound (q * 2 ^ s) h2s n
  have h2 := halfLog_sound 2 (by norm_num) n
  have hlog : Real.log (q : ℝ) =
      Real.log (((q * 2 ^ s : ℚ)) : ℝ) - (s : ℝ) * Real.log ((2 : ℚ) : ℝ) := by
    push_cast
    rw [Real.log_mul hqR.ne' (by positivity), Real.log_pow]
    ring
  have hA : ((logApprox q n : ℚ) : ℝ) =
      2 * ((halfLogApprox (q * 2 ^ s) n : ℚ) : ℝ) - (s : ℝ) * (2 * ((halfLogApprox 2 n : ℚ) : ℝ)) := by
    simp [logApprox, ← hs]
  have hE : ((logErr q n : ℚ) : ℝ) =
      2 * ((halfLogErr (q * 2 ^ s) n : ℚ) : ℝ) + (s : ℝ) * (2 * ((halfLogErr 2 n : ℚ) : ℝ)) := by
    simp [logErr, ← hs]
  rw [hA, hE, hlog]
  set L1 := Real.log (((q * 2 ^ s : ℚ)) : ℝ)
  set L2 := Real.log ((2 : ℚ) : ℝ)
  set A1 := ((halfLogApprox (q * 2 ^ s) n : ℚ) : ℝ)
  set A2 := ((halfLogApprox 2 n : ℚ) : ℝ)
  set E1 := ((halfLogErr (q * 2 ^ s) n : ℚ) : ℝ)
  set E2 := ((halfLogErr 2 n : ℚ) : ℝ)
  have hs0 : (0 : ℝ) ≤ (s : ℝ) := Nat.cast_nonneg s
  have e : L1 - (s : ℝ) * L2 - (2 * A1 - (s : ℝ) * (2 * A2)) =
      2 * (1 / 2 * L1 - A1) - (s : ℝ) * (2 * (1 / 2 * L2 - A2)) := by ring
  rw [e]
  calc |2 * (1 / 2 * L1 - A1) - (s : ℝ) * (2 * (1 / 2 * L2 - A2))|
      ≤ |2 * (1 / 2 * L1 - A1)| + |(s : ℝ) * (2 * (1 / 2 * L2 - A2))| := abs_sub _ _
    _ = 2 * |1 / 2 * L1 - A1| + (s : ℝ) * (2 * |1 / 2 * L2 - A2|) := by
        rw [abs_mul, abs_mul, abs_mul, abs_of_nonneg hs0]; norm_num
    _ ≤ 2 * E1 + (s : ℝ) * (2 * E2) := by
        have := mul_le_mul_of_nonneg_left h2 (by positivity : (0 : ℝ) ≤ (s : ℝ) * 2)
        nlinarith [h1, this]

theorem sqrtApprox_pos (q : ℚ) (hq : 0 < q) (d : ℕ) : 0 < sqrtApprox q d := by
  unfold sqrtApprox
  have hnum : 0 < q.num := Rat.num_pos.mpr hq
  have hN : 0 < q.num.natAbs * 10 ^ (2 * d) * q.den := by
    have h1 : 0 < q.num.natAbs := Int.natAbs_pos.mpr hnum.ne'
    have h2 : 0 < q.den := q.den_pos
    positivity
  have hS : 0 < Nat.sqrt (q.num.natAbs * 10 ^ (2 * d) * q.den) := Nat.sqrt_pos.mpr hN
  have hD : 0 < 10 ^ d * q.den := by
    have h2 : 0 < q.den := q.den_pos
    positivity
  have hS' : (0 : ℚ) < (Nat.sqrt (q.num.natAbs * 10 ^ (2 * d) * q.den) : ℚ) := by exact_mod_cast hS
  have hD' : (0 : ℚ) < ((10 ^ d * q.den : ℕ) : ℚ) := by exact_mod_cast hD
  exact div_pos hS' hD'

theorem sqrt_sound (q : ℚ) (hq : 0 < q) (d : ℕ) :
    |Real.sqrt (q : ℝ) - ((sqrtApprox q d : ℚ) : ℝ)| ≤ ((sqrtErr q d : ℚ) : ℝ) := by
  have hs := sqrtApprox_pos q hq d
  have hE : sqrtErr q d = |q - sqrtApprox q d ^ 2| / sqrtApprox q d := by
    unfold sqrtErr
    simp only [absQ_eq_abs]
    rw [if_neg (not_le.mpr hs)]
  rw [hE]
  push_cast
  set s : ℝ := ((sqrtApprox q d : ℚ) : ℝ) with hsdef
  have hsR : 0 < s := by rw [hsdef]; exact_mod_cast hs
  have hqR : (0 : ℝ) ≤ (q : ℝ) := by exact_mod_cast hq.le
  set r := Real.sqrt (q : ℝ) with hr
  have hr0 : 0 ≤ r := Real.sqrt_nonneg _
  have hrr : (q : ℝ) = r * r := (Real.mul_self_sqrt hqR).symm
  rw [le_div_iff₀ hsR]
  have e : (q : ℝ) - s ^ 2 = (r - s) * (r + s) := by rw [hrr]; ring
  rw [e, abs_mul, abs_of_nonneg (by linarith : 0 ≤ r + s)]
  exact mul_le_mul_of_nonneg_left (by linarith) (abs_nonneg _)

/-! ### the generic core -/

theorem core_pairs (ps : List (ℚ × ℚ)) (k : ℕ) (g : ℝ → ℝ) (A E : ℚ → ℚ)
    (h : ∀ p ∈ ps, 0 ≤ p.1 ∧ |g (p.1 : ℝ) - ((A p.1 : ℚ) : ℝ)| ≤ ((E p.1 : ℚ) : ℝ)) :
    |(ps.map fun p => (p.2 : ℝ) * (p.1 : ℝ) ^ k * g (p.1 : ℝ)).sum -
        (((ps.map fun p => p.2 * p.1 ^ k * A p.1).sum : ℚ) : ℝ)| ≤
      (((ps.map fun p => absQ p.2 * p.1 ^ k * E p.1).sum : ℚ) : ℝ) := by
  induction ps with
  | nil => simp
  | cons p ps ih =>
    have hp := h p (List.mem_cons_self)
    have ih' := ih (fun p' hp' => h p' (List.mem_cons_of_mem _ hp'))
    simp only [List.map_cons, List.sum_cons, Rat.cast_add, Rat.cast_mul, Rat.cast_pow]
    rw [absQ_cast]
    have hx : (0 : ℝ) ≤ (p.1 : ℝ) := by exact_mod_cast hp.1
    have hxk : (0 : ℝ) ≤ (p.1 : ℝ) ^ k := pow_nonneg hx k
    have h1 : |(p.2 : ℝ) * (p.1 : ℝ) ^ k * g (p.1 : ℝ) - (p.2 : ℝ) * (p.1 : ℝ) ^ k * ((A p.1 : ℚ) : ℝ)| ≤
        |(p.2 : ℝ)| * (p.1 : ℝ) ^ k * ((E p.1 : ℚ) : ℝ) := by
      rw [← mul_sub, abs_mul, abs_mul, abs_of_nonneg hxk]
      exact mul_le_mul_of_nonneg_left hp.2 (by positivity)
    refine le_trans ?_ (add_le_add h1 ih')
    refine le_trans (le_of_eq ?_) (abs_add_le _ _)
    congr 1
    ring

theorem wsum_eq (xs ws : List ℚ) (k : ℕ) (A : ℚ → ℚ) :
    wsum xs ws k A = ((xs.zip ws).map fun p => p.2 * p.1 ^ k * A p.1).sum := by
  unfold wsum; rw [sumQ_eq_sum]

theorem wsum_abs_eq (xs ws : List ℚ) (k : ℕ) (E : ℚ → ℚ) :
    wsum xs (ws.map absQ) k E = ((xs.zip ws).map fun p => absQ p.2 * p.1 ^ k * E p.1).sum := by
  rw [wsum_eq, List.zip_map_right, List.map_map]
  rfl

theorem core (xs ws : List ℚ) (k : ℕ) (g : ℝ → ℝ) (A E : ℚ → ℚ)
    (h : ∀ x ∈ xs, 0 ≤ x ∧ |g (x : ℝ) - ((A x : ℚ) : ℝ)| ≤ ((E x : ℚ) : ℝ)) (T : ℝ) :
    |rsum xs ws k g - T| ≤
      |((wsum xs ws k A : ℚ) : ℝ) - T| + ((wsum xs (ws.map absQ) k E : ℚ) : ℝ) := by
  have hc := core_pairs (xs.zip ws) k g A E (fun p hp => h p.1 (List.of_mem_zip hp).1)
  rw [← wsum_eq, ← wsum_abs_eq] at hc
  unfold rsum
  set R := ((xs.zip ws).map fun p => (p.2 : ℝ) * (p.1 : ℝ) ^ k * g (p.1 : ℝ)).sum
  set W := ((wsum xs ws k A : ℚ) : ℝ)
  have e : R - T = (W - T) + (R - W) := by ring
  rw [e]
  exact le_trans (abs_add_le _ _) (by linarith)

theorem approxCheck_sound (xs ws : List ℚ) (k : ℕ) (g : ℝ → ℝ) (A E : ℚ → ℚ) (target tol : ℚ)
    (h : ∀ x ∈ xs, 0 ≤ x ∧ |g (x : ℝ) - ((A x : ℚ) : ℝ)| ≤ ((E x : ℚ) : ℝ))
    (hc : approxCheck xs ws k A E target tol = true) :
    |rsum xs ws k g - ((target : ℚ) : ℝ)| ≤ ((tol : ℚ) : ℝ) := by
  unfold approxCheck at hc
  rw [decide_eq_true_eq, absQ_eq_abs] at hc
  have hc' : (((|wsum xs ws k A - target| + wsum xs (ws.map absQ) k E : ℚ)) : ℝ) ≤ (tol : ℝ) := by
    exact_mod_cast hc
  push_cast at hc'
  exact le_trans (core xs ws k g A E h _) hc'

theorem allUpTo_sound (a : ℤ) (p : ℕ → Bool) (h : allUpTo a p = true) (k : ℕ) (hk : (k : ℤ) ≤ a) :
    p k = true := by
  unfold allUpTo at h
  have hna : ¬ a < 0 := by omega
  rw [if_neg hna, List.all_eq_true] at h
  apply h
  rw [List.mem_range]
  omega

theorem rsum_one (xs ws : List ℚ) (k : ℕ) :
    rsum xs ws k (fun _ => 1) = ((moment xs ws k : ℚ) : ℝ) := by
  unfold moment rsum
  rw [wsum_eq]
  induction xs.zip ws with
  | nil => simp
  | cons p ps ih => simp only [List.map_cons, List.sum_cons, ih]; push_cast; ring

/-! ### checks -/

theorem gaussOK_sound (xs ws : List ℚ) (a : ℤ) (target : ℕ → ℚ) (rel : Bool) (tol : ℚ)
    (h : gaussOK xs ws a target rel tol = true) (k : ℕ) (hk : (k : ℤ) ≤ a) :
    |rsum xs ws k (fun _ => 1) - ((target k : ℚ) : ℝ)| ≤ rtol rel tol (target k) := by
  have hk' := allUpTo_sound a _ h k hk
  rw [decide_eq_true_eq, absQ_eq_abs] at hk'
  rw [rsum_one]
  unfold rtol
  exact_mod_cast hk'

theorem polyOK_sound (xs ws : List ℚ) (a : ℤ) (rel : Bool) (tol : ℚ)
    (h : polyOK xs ws a rel tol = true) (k : ℕ) (hk : (k : ℤ) ≤ a) :
    |rsum xs ws k (fun _ => 1) - 1 / ((k : ℝ) + 1)| ≤ rtol rel tol (1 / ((k : ℚ) + 1)) := by
  have := gaussOK_sound xs ws a (fun k => 1 / ((k : ℚ) + 1)) rel tol h k hk
  push_cast at this
  exact this

theorem logOK_sound (xs ws : List ℚ) (b : ℤ) (rel : Bool) (tol : ℚ) (n : ℕ)
    (hx : ∀ x ∈ xs, 0 < x) (h : logOK xs ws b rel tol n = true) (k : ℕ) (hk : (k : ℤ) ≤ b) :
    |rsum xs ws k Real.log + 1 / ((k : ℝ) + 1) ^ 2| ≤ rtol rel tol (1 / ((k : ℚ) + 1) ^ 2) := by
  have hk' := allUpTo_sound b _ h k hk
  have := approxCheck_sound xs ws k Real.log (logApprox · n) (logErr · n) _ _
    (fun x hxm => ⟨(hx x hxm).le, log_sound x (hx x hxm) n⟩) hk'
  unfold rtol
  push_cast at this ⊢
  rw [neg_div, sub_neg_eq_add] at this
  exact this

theorem log1mOK_sound (xs ws : List ℚ) (b : ℤ) (rel : Bool) (tol : ℚ) (n : ℕ)
    (hx : ∀ x ∈ xs, 0 ≤ x ∧ x < 1)
    (h : log1mOK xs ws b rel tol n = true) (k : ℕ) (hk : (k : ℤ) ≤ b) :
    |rsum xs ws k (fun x => Real.log (1 - x)) + rharm (k + 1) / ((k : ℝ) + 1)| ≤
      rtol rel tol (harmonic (k + 1) / ((k : ℚ) + 1)) := by
  have hk' := allUpTo_sound b _ h k hk
  have := approxCheck_sound xs ws k (fun x => Real.log (1 - x)) (fun x => logApprox (1 - x) n)
    (fun x => logErr (1 - x) n) _ _
    (fun x hxm => ⟨(hx x hxm).1, by
      have := log_sound (1 - x) (by linarith [(hx x hxm).2]) n
      push_cast at this
      exact this⟩) hk'
  unfold rtol rharm
  push_cast at this ⊢
  rw [neg_div, sub_neg_eq_add] at this
  exact this

theorem sqrtOK_sound (xs ws : List ℚ) (b : ℤ) (rel : Bool) (tol : ℚ) (d : ℕ)
    (hx : ∀ x ∈ xs, 0 < x) (h : sqrtOK xs ws b rel tol d = true) (k : ℕ) (hk : (k : ℤ) ≤ b) :
    |rsum xs ws k Real.sqrt - 1 / ((k : ℝ) + 3 / 2)| ≤ rtol rel tol (1 / ((k : ℚ) + 3 / 2)) := by
  have hk' := allUpTo_sound b _ h k hk
  have := approxCheck_sound xs ws k Real.sqrt (sqrtApprox · d) (sqrtErr · d) _ _
    (fun x hxm => ⟨(hx x hxm).le, sqrt_sound x (hx x hxm) d⟩) hk'
  unfold rtol
  push_cast at this ⊢
  exact this

theorem sqrtinvOK_sound (xs ws : List ℚ) (b : ℤ) (rel : Bool) (tol : ℚ) (d : ℕ)
    (hx : ∀ x ∈ xs, 0 < x) (h : sqrtinvOK xs ws b rel tol d = true) (k : ℕ) (hk : (k : ℤ) ≤ b) :
    |rsum xs ws k (fun x => 1 / Real.sqrt x) - 1 / ((k : ℝ) + 1 / 2)| ≤
      rtol rel tol (1 / ((k : ℚ) + 1 / 2)) := by
  have hk' := allUpTo_sound b _ h k hk
  have := approxCheck_sound xs ws k (fun x => 1 / Real.sqrt x) (fun x => sqrtApprox x d / x)
    (fun x => sqrtErr x d / x) _ _
    (fun x hxm => ⟨(hx x hxm).le, by
      have hx0 : (0 : ℝ) < (x : ℝ) := by exact_mod_cast hx x hxm
      have hs := sqrt_sound x (hx x hxm) d
      have e : 1 / Real.sqrt (x : ℝ) = Real.sqrt (x : ℝ) / (x : ℝ) := by
        rw [div_eq_div_iff (Real.sqrt_pos.mpr hx0).ne' hx0.ne', one_mul,
          Real.mul_self_sqrt hx0.le]
      push_cast
      rw [e, ← sub_div, abs_div, abs_of_pos hx0]
      exact div_le_div_of_nonneg_right hs hx0.le⟩) hk'
  unfold rtol
  push_cast at this ⊢
  exact this

/-! ### shape and rounding -/

theorem shapeOK_sound (xs ws : List ℚ) (h : shapeOK xs ws = true) :
    xs.length = ws.length ∧ xs ≠ [] ∧ (∀ x ∈ xs, 0 < x ∧ x < 1) ∧
      ((∀ w ∈ ws, 0 < w) ∨ (∀ w ∈ ws, w < 0)) := by
  unfold shapeOK at h
  simp only [Bool.and_eq_true, Bool.or_eq_true, decide_eq_true_eq, List.all_eq_true,
    Bool.not_eq_true', List.isEmpty_eq_false_iff] at h
  exact ⟨h.1.1.1, h.1.1.2, h.1.2, h.2⟩

theorem one_toRat_pos (e : ℤ) : 0 < (⟨1, e⟩ : Dbl).toRat := by
  unfold Dbl.toRat
  split_ifs <;> positivity

theorem roundsTo_sound (l : Dec) (d : Dbl) (h : roundsTo l d = true) :
    |d.toRat - l.toRat| * 2 ≤ (⟨1, d.exp⟩ : Dbl).toRat ∧
      (d.man = 0 ∨ (2 ^ 52 ≤ d.man.natAbs ∧ d.man.natAbs < 2 ^ 53)) := by
  unfold roundsTo at h
  simp only [Bool.and_eq_true, Bool.or_eq_true, decide_eq_true_eq, beq_iff_eq, absQ_eq_abs] at h
  rcases h with ⟨hm, hl⟩ | ⟨⟨h1, h2⟩, h3⟩
  · refine ⟨?_, Or.inl hm⟩
    have hd : d.toRat = 0 := by
      unfold Dbl.toRat
      split_ifs <;> simp [hm]
    have hl' : l.toRat = 0 := by simp [Dec.toRat, hl]
    rw [hd, hl']
    simpa using (one_toRat_pos d.exp).le
  · exact ⟨h3, Or.inr ⟨h1, h2⟩⟩

/-! ### why `log1mOK_sound` needs `0 ≤ x`

With only `x < 1` a node may be negative; then for odd `k` the term `|w|·xᵏ·E(x)` of the radius sum
in `approxCheck` is negative and *cancels* deviation instead of bounding it.  Concretely
`xs = [-3]`, `ws = [-1]`, `b = 1`, `tol = 23/8` (absolute), `n = 0` passes the check, but for
`k = 1` the real sum is `3·log 4 + 3/4 ≈ 4.9 > 23/8`. -/

theorem log1mOK_counterexample :
    (∀ x ∈ [(-3 : ℚ)], x < 1) ∧ log1mOK [-3] [-1] 1 false (23 / 8) 0 = true ∧ ((1 : ℕ) : ℤ) ≤ 1 ∧
      ¬ |rsum [-3] [-1] 1 (fun x => Real.log (1 - x)) + rharm (1 + 1) / (((1 : ℕ) : ℝ) + 1)| ≤
        rtol false (23 / 8) (harmonic (1 + 1) / (((1 : ℕ) : ℚ) + 1)) := by
  refine ⟨by simp; norm_num, by decide +kernel, le_refl _, ?_⟩
  have h4 : Real.log 4 = 2 * Real.log 2 := by
    rw [show (4 : ℝ) = 2 ^ 2 by norm_num, Real.log_pow]; norm_num
  have h2 : (1 : ℝ) / 2 ≤ Real.log 2 := by
    have := Real.one_sub_inv_le_log_of_pos (by norm_num : (0 : ℝ) < 2)
    norm_num at this ⊢
    linarith
  have hh : rharm (1 + 1) = 3 / 2 := by
    unfold rharm; norm_num [harmonic]
  have hr : rsum [-3] [-1] 1 (fun x => Real.log (1 - x)) = 3 * Real.log 4 := by
    unfold rsum; norm_num
  have ht : rtol false (23 / 8) (harmonic (1 + 1) / (((1 : ℕ) : ℚ) + 1)) = 23 / 8 := by
    unfold rtol tolFor; norm_num
  rw [hh, hr, ht, h4, not_le, abs_of_nonneg (by nlinarith)]
  norm_num
  linarith

end Stbem.Rules
