import Stbem.Lemmas.MeshOpsLoops
import Stbem.Lemmas.MeshInit

/-!
# `MeshParametrized.__init__` regenerated from `src/mesh.py`: lemmas for `Props/MeshOpsTieC18.lean`

* the loop `for i in range(len(pw_start)): if pw_start[i] <= x < pw_start[i + 1]: … break` versus `pieceOf`;
* the loop over the roots that stores the piece in each of them versus the `mapM` of the model;
* the four vertex counts (the model has no counterpart: they hold for strictly increasing grids with `T[0] = 0`);
* the guard.
-/
namespace Stbem.MeshOpsTie
open Stbem.Mesh Stbem.Gen

/-! ### the piece of one root -/

/-- body of the loop over `range(len(pw_start))` for the root `elem` (state: mesh, `elem.gamma_space`) -/
def pieceBody (pw : List Rat) (elem : Cell) (i : Nat) (s : Mesh × Option Nat) :
    Except String (ForInStep (Mesh × Option Nat)) := do
  let t4 ← MeshOps.getIdx pw i
  if t4 ≤ elem.x0 then do
    let t5 ← MeshOps.getIdx pw (i + 1)
    if elem.x0 < t5 then pure (ForInStep.done (MeshOps.setPiece s.1 elem i, some i))
    else pure (ForInStep.yield (s.1, s.2))
  else pure (ForInStep.yield (s.1, s.2))

theorem go_single (x : Rat) (k : Nat) (a : Rat) : pieceOf.go x k [a] = none := by
  rw [pieceOf.go]
  intro a' b l h
  cases h

theorem go_cons2 (x : Rat) (i : Nat) (a b : Rat) (l : List Rat) :
    pieceOf.go x i (a :: b :: l) = if (a ≤ x && x < b) = true then some i else pieceOf.go x (i + 1) (b :: l) := by
  rw [pieceOf.go]

/-- the index loop finds the piece `pieceOf.go` finds; when there is none it ends without a piece or with an
`IndexError` (`pw_start[i + 1]` past the end) -/
theorem inner_loop (pw : List Rat) (e : Cell) (s : Mesh) : ∀ (cnt k : Nat), k + cnt = pw.length →
    match pieceOf.go e.x0 k (pw.drop k) with
    | some i => forIn (List.range' k cnt) (s, (none : Option Nat)) (pieceBody pw e) = .ok (MeshOps.setPiece s e i, some i)
    | none => forIn (List.range' k cnt) (s, (none : Option Nat)) (pieceBody pw e) = .ok (s, none) ∨
        ∃ err, forIn (List.range' k cnt) (s, (none : Option Nat)) (pieceBody pw e) = .error err
  | 0, k, h => by
    have : pw.drop k = [] := List.drop_eq_nil_of_le (by omega)
    rw [this]
    simp only [pieceOf.go]
    exact Or.inl rfl
  | cnt + 1, k, h => by
    have hk : k < pw.length := by omega
    rw [List.drop_eq_getElem_cons hk, List.range'_succ, List.forIn_cons]
    have ih := inner_loop pw e s cnt (k + 1) (by omega)
    unfold pieceBody
    rw [getIdx_of_lt pw k hk, ok_bind]
    by_cases h1 : pw[k] ≤ e.x0
    · rw [if_pos h1]
      by_cases hk1 : k + 1 < pw.length
      · rw [getIdx_of_lt pw (k + 1) hk1, ok_bind, List.drop_eq_getElem_cons hk1, go_cons2]
        by_cases h2 : e.x0 < pw[k + 1]
        · simp only [h1, h2, if_true, decide_true, Bool.and_self]
          rfl
        · simp only [h1, h2, if_false, decide_true, decide_false, Bool.and_false, Bool.false_eq_true]
          rw [List.drop_eq_getElem_cons hk1] at ih
          exact ih
      · have hd : pw.drop (k + 1) = [] := List.drop_eq_nil_of_le (by omega)
        rw [hd, go_single]
        right
        refine ⟨"index", ?_⟩
        simp [MeshOps.getIdx, List.getElem?_eq_none (by omega : pw.length ≤ k + 1)]
        rfl
    · rw [if_neg h1]
      by_cases hk1 : k + 1 < pw.length
      · rw [List.drop_eq_getElem_cons hk1, go_cons2]
        simp only [h1, decide_false, Bool.false_and, Bool.false_eq_true, if_false]
        rw [List.drop_eq_getElem_cons hk1] at ih
        exact ih
      · have hd : pw.drop (k + 1) = [] := List.drop_eq_nil_of_le (by omega)
        have hc : cnt = 0 := by omega
        subst hc
        rw [hd, go_single]
        left
        rfl

/-- the body of the loop over the roots: the piece loop, then `assert elem.gamma_space` -/
theorem root_body (pw : List Rat) (e : Cell) (s : Mesh) :
    (do
      let r ← forIn (List.range pw.length) (s, (none : Option Nat)) (pieceBody pw e)
      MeshOps.assertThat (r.2.isSome = true) "assert:piece"
      pure (ForInStep.yield r.1)).toOption =
    ((pieceOf pw e.x0).map fun i => MeshOps.setPiece s e i).map ForInStep.yield := by
  have h := inner_loop pw e s pw.length 0 (by omega)
  rw [List.drop_zero] at h
  rw [List.range_eq_range']
  show _ = ((pieceOf.go e.x0 0 pw).map _).map _
  cases hg : pieceOf.go e.x0 0 pw with
  | some i =>
    rw [hg] at h
    rw [h, ok_bind, assertThat_true _ (by simp), ok_bind]
    rfl
  | none =>
    rw [hg] at h
    rcases h with h | ⟨err, h⟩
    · rw [h, ok_bind, assertThat_false _ (by simp)]
      rfl
    · rw [h]
      rfl

/-! ### the loop over the roots -/

theorem forIn_toOption_foldlM {α σ ε : Type} {f : α → σ → Except ε (ForInStep σ)} {g : σ → α → Option σ}
    (h : ∀ a s, (f a s).toOption = (g s a).map ForInStep.yield) : ∀ (l : List α) (s : σ),
    (forIn l s f).toOption = l.foldlM g s
  | [], s => rfl
  | a :: l, s => by
    rw [List.forIn_cons, List.foldlM_cons, toOption_bind', h]
    cases g s a with
    | none => rfl
    | some s' => exact forIn_toOption_foldlM h l s'

/-- the piece assignment of the model to one root -/
def handAssign (pw : List Rat) (c : Cell) : Except String Cell :=
  match pieceOf pw c.x0 with
  | some i => pure { c with piece := i }
  | none => .error "assert:piece"

theorem setPiece_mid (m : Mesh) (done rest : List Cell) (c : Cell) (i : Nat)
    (hd : ∀ d ∈ done, d.id ≠ c.id) (hr : ∀ d ∈ rest, d.id ≠ c.id) :
    MeshOps.setPiece { m with leaves := done ++ c :: rest } c i =
      { m with leaves := (done ++ [{ c with piece := i }]) ++ rest } := by
  unfold MeshOps.setPiece
  have h1 : done.map (fun d => if d.id == c.id then { d with piece := i } else d) = done := by
    conv_rhs => rw [← List.map_id done]
    apply List.map_congr_left
    intro d hd'
    simp [hd d hd']
  have h2 : rest.map (fun d => if d.id == c.id then { d with piece := i } else d) = rest := by
    conv_rhs => rw [← List.map_id rest]
    apply List.map_congr_left
    intro d hd'
    simp [hr d hd']
  simp only [List.map_append, List.map_cons, h1, h2, beq_self_eq_true, if_true, List.append_assoc, List.cons_append,
    List.nil_append]

/-- storing the pieces root by root (by element index) is the `mapM` of the model when the indices are distinct -/
theorem roots_fold (pw : List Rat) (m : Mesh) : ∀ (rest done : List Cell),
    ((done ++ rest).map (·.id)).Nodup →
    rest.foldlM (fun (s : Mesh) (e : Cell) => (pieceOf pw e.x0).map fun i => MeshOps.setPiece s e i)
      { m with leaves := done ++ rest } =
    (rest.mapM (handAssign pw)).toOption.map fun ls => { m with leaves := done ++ ls }
  | [], done, _ => by simp [List.mapM_nil]; rfl
  | c :: rest, done, hnd => by
    rw [List.foldlM_cons, List.mapM_cons]
    unfold handAssign
    cases hp : pieceOf pw c.x0 with
    | none => rfl
    | some i =>
      rw [List.map_append, List.map_cons, List.nodup_append] at hnd
      obtain ⟨n1, n2, n3⟩ := hnd
      have hd : ∀ d ∈ done, d.id ≠ c.id := fun d hd' => n3 d.id (List.mem_map.mpr ⟨d, hd', rfl⟩) c.id (by simp)
      have hr : ∀ d ∈ rest, d.id ≠ c.id := by
        intro d hd' e
        have := (List.nodup_cons.mp n2).1
        exact this (List.mem_map.mpr ⟨d, hd', e⟩)
      simp only [Option.map_some, Option.bind_eq_bind, Option.bind_some]
      rw [setPiece_mid m done rest c i hd hr]
      have ih := roots_fold pw m rest (done ++ [{ c with piece := i }]) (by
        have : ((done ++ [{ c with piece := i }]) ++ rest).map (fun d : Cell => d.id) =
            (done ++ c :: rest).map (fun d : Cell => d.id) := by simp
        rw [this, List.map_append, List.map_cons, List.nodup_append]
        exact ⟨n1, n2, n3⟩)
      rw [ih]
      show _ = ((pure { c with piece := i } : Except String Cell) >>= fun b => rest.mapM (handAssign pw) >>= fun bs =>
        pure (b :: bs)).toOption.map _
      rw [pure_bind]
      cases rest.mapM (handAssign pw) with
      | error e => rfl
      | ok ls => simp [Except.toOption, bind, Except.bind, pure, Except.pure]

/-! ### the vertex counts -/

theorem count_x (T X : List Rat) (a : Rat) :
    ((T.flatMap fun t => X.map fun x => (t, x)).filter fun v => decide (v.2 = a)).length =
      T.length * (X.filter fun x => decide (x = a)).length := by
  induction T with
  | nil => simp
  | cons t T ih =>
    rw [List.flatMap_cons, List.filter_append, List.length_append, ih, List.length_cons, Nat.succ_mul,
      List.filter_map, List.length_map, Nat.add_comm]
    rfl

theorem count_t (T X : List Rat) (a : Rat) :
    ((T.flatMap fun t => X.map fun x => (t, x)).filter fun v => decide (v.1 = a)).length =
      (T.filter fun t => decide (t = a)).length * X.length := by
  induction T with
  | nil => simp
  | cons t T ih =>
    rw [List.flatMap_cons, List.filter_append, List.length_append, ih, List.filter_map, List.length_map,
      List.filter_cons]
    by_cases h : t = a
    · have : (List.filter ((fun v : Rat × Rat => decide (v.1 = a)) ∘ fun x => (t, x)) X) = X := by
        rw [List.filter_eq_self]
        intro x _
        simp [h]
      rw [this, if_pos (by simp [h]), List.length_cons, Nat.succ_mul, Nat.add_comm]
    · have : (List.filter ((fun v : Rat × Rat => decide (v.1 = a)) ∘ fun x => (t, x)) X) = [] := by
        rw [List.filter_eq_nil_iff]
        intro x _
        simp [h]
      rw [this, if_neg (by simp [h])]
      simp

/-- in a strictly increasing list every member occurs once -/
theorem count_mem_sinc : ∀ (l : List Rat), l.Pairwise (· < ·) → ∀ a ∈ l,
    (l.filter fun x => decide (x = a)).length = 1
  | [], _, a, ha => by simp at ha
  | b :: l, hp, a, ha => by
    obtain ⟨h1, h2⟩ := List.pairwise_cons.mp hp
    rw [List.filter_cons]
    by_cases hb : b = a
    · subst hb
      have : l.filter (fun x => decide (x = b)) = [] := by
        rw [List.filter_eq_nil_iff]
        intro x hx
        have := h1 x hx
        simp
        exact ne_of_gt this
      rw [if_pos (by simp), this]
      rfl
    · rw [if_neg (by simp [hb])]
      rcases List.mem_cons.mp ha with rfl | ha'
      · exact absurd rfl hb
      · exact count_mem_sinc l h2 a ha'

theorem foldl_filter_append (p : Rat × Rat → Prop) [DecidablePred p] : ∀ (l acc : List (Rat × Rat)),
    l.foldl (fun s v => if p v then s ++ [v] else s) acc = acc ++ l.filter fun v => decide (p v)
  | [], acc => by simp
  | v :: l, acc => by
    rw [List.foldl_cons, foldl_filter_append p l, List.filter_cons]
    by_cases h : p v
    · simp [h]
    · simp [h]

/-- the loop the last vertex count abbreviates (`initial_time_mesh[-1]` is read once per vertex) -/
theorem forIn_count_last (T : List Rat) (hT : T ≠ []) (l acc : List (Rat × Rat)) :
    forIn l acc (fun (vtx : Rat × Rat) (s : List (Rat × Rat)) => do
      let t ← MeshOps.getLast T
      (if vtx.1 = t then pure (ForInStep.yield (s ++ [vtx])) else pure (ForInStep.yield s) : Except String _)) =
    .ok (acc ++ l.filter fun v => decide (v.1 = T.getLast hT)) := by
  have hg : MeshOps.getLast T = .ok (T.getLast hT) := by
    unfold MeshOps.getLast
    rw [List.getLast?_eq_some_getLast hT]
    rfl
  rw [forIn_yield_foldl _ (fun s v => if v.1 = T.getLast hT then s ++ [v] else s), foldl_filter_append]
  · rfl
  · intro v s
    rw [hg, ok_bind]
    by_cases h : v.1 = T.getLast hT
    · rw [if_pos h, if_pos h]
    · rw [if_neg h, if_neg h]

end Stbem.MeshOpsTie
