import Stbem.Lemmas.HalfEdgeInit
import Stbem.Lemmas.HalfEdgeVerts

/-!
# H-layer: the arena after `Mesh.__init__` satisfies `HInv` and abstracts to the A-layer `init`
-/
namespace Stbem.HalfEdge
open Stbem.Mesh (Ax Side Cell Mesh Inv pairs)

theorem headD_eq_getD (X : List Rat) : X.headD 0 = X.getD 0 0 := by
  cases X <;> rfl

theorem getLastD_eq_getD (X : List Rat) : X.getLastD 0 = X.getD (X.length - 1) 0 := by
  cases X with
  | nil => rfl
  | cons a l =>
    rw [List.getLastD_cons, List.getLastD_eq_getLast?]
    simp [List.getLast?_eq_getElem?, List.getD_eq_getElem?_getD]
    cases l with
    | nil => simp
    | cons b l => simp

theorem getD_strict {X : List Rat} (hX : X.Pairwise (· < ·)) {a b : Nat} (hb : b < X.length) (hab : a < b) :
    X.getD a 0 < X.getD b 0 := by
  have h1 : X.getD a 0 = X[a] := by simp [List.getD_eq_getElem?_getD, show a < X.length by omega]
  have h2 : X.getD b 0 = X[b] := by simp [List.getD_eq_getElem?_getD, hb]
  rw [h1, h2]
  exact List.pairwise_iff_getElem.mp hX a b (by omega) hb hab

theorem getD_inj {X : List Rat} (hX : X.Pairwise (· < ·)) {a b : Nat} (ha : a < X.length) (hb : b < X.length) :
    X.getD a 0 = X.getD b 0 ↔ a = b := by
  constructor
  · intro e
    rcases Nat.lt_trichotomy a b with h | h | h
    · have := getD_strict hX hb h; linarith
    · exact h
    · have := getD_strict hX ha h; linarith
  · rintro rfl; rfl

/-- index of a side in `Element.edges` -/
def sideIdx : Side → Nat
  | .bottom => 0
  | .right => 1
  | .top => 2
  | .left => 3

theorem sideIdx_lt (s : Side) : sideIdx s < 4 := by cases s <;> simp [sideIdx]

section
variable {glue : Bool} {X T : List Rat} {h : HMesh}

theorem row_facts {Nx Nt k : Nat} (hk : k < Nt * Nx) :
    k / Nx < Nt ∧ k % Nx < Nx ∧ k = (k / Nx) * Nx + k % Nx := by
  have hpos : 0 < Nx := by
    rcases Nat.eq_zero_or_pos Nx with h | h
    · subst h; simp at hk
    · exact h
  refine ⟨Nat.div_lt_of_lt_mul (by rw [Nat.mul_comm]; exact hk), Nat.mod_lt _ hpos, ?_⟩
  have := Nat.div_add_mod k Nx
  rw [Nat.mul_comm] at this
  omega

theorem InitFinal.edge_at (F : InitFinal glue X T h) {k s : Nat} (hk : k < (T.length - 1) * (X.length - 1))
    (hs : s < 4) : h.edge (4 * k + s) =
      specQ glue X.length (T.length - 1) ((T.length - 1) * (X.length - 1)) (T.length - 1) k s := by
  rw [F.edges.2 _ (by omega)]
  show specQ _ _ _ _ _ _ _ = _
  rw [show (4 * k + s) / 4 = k by omega, show (4 * k + s) % 4 = s by omega]

theorem InitFinal.side (F : InitFinal glue X T h) {k : Nat} (hk : k < (T.length - 1) * (X.length - 1))
    (s : Side) : (h.elem k).side s = 4 * k + sideIdx s := by
  rw [F.elem k hk]
  cases s <;> rfl

theorem InitFinal.vert_at (F : InitFinal glue X T h) {j i : Nat} (hj : j < T.length) (hi : i < X.length) :
    h.vert (j * X.length + i) = { t := T.getD j 0, x := X.getD i 0, idx := j * X.length + i } :=
  F.verts.2 j hj i hi

theorem InitFinal.pt_at (F : InitFinal glue X T h) {j i : Nat} (hj : j < T.length) (hi : i < X.length) :
    h.pt (j * X.length + i) = (T.getD j 0, X.getD i 0) := by
  unfold HMesh.pt
  rw [F.vert_at hj hi]

/-- the cell of root `k` -/
def rootCell (X T : List Rat) (k : Nat) : Cell :=
  { t0 := T.getD (k / (X.length - 1)) 0, t1 := T.getD (k / (X.length - 1) + 1) 0,
    x0 := X.getD (k % (X.length - 1)) 0, x1 := X.getD (k % (X.length - 1) + 1) 0,
    lt := 0, lx := 0, id := k, par := none, piece := 0 }

theorem InitFinal.v0_at (F : InitFinal glue X T h) {k : Nat} (hk : k < (T.length - 1) * (X.length - 1))
    (s : Side) : (h.edge (4 * k + sideIdx s)).v0 =
      (k / (X.length - 1) + (match s with | .bottom | .right => 0 | _ => 1)) * X.length +
        (k % (X.length - 1) + (match s with | .bottom | .left => 0 | _ => 1)) := by
  rw [F.edge_at hk (sideIdx_lt s)]
  cases s <;> simp [sideIdx, specQ] <;> omega

theorem InitFinal.v1_at (F : InitFinal glue X T h) {k : Nat} (hk : k < (T.length - 1) * (X.length - 1))
    (s : Side) : (h.edge (4 * k + sideIdx s)).v1 = (h.edge (4 * k + sideIdx (sideNext s))).v0 := by
  rw [F.edge_at hk (sideIdx_lt s), F.edge_at hk (sideIdx_lt _)]
  cases s <;> simp [sideIdx, sideNext, specQ]

theorem InitFinal.cellOf (F : InitFinal glue X T h) {k : Nat} (hk : k < (T.length - 1) * (X.length - 1)) :
    h.cellOf k = rootCell X T k := by
  obtain ⟨r1, r2, r3⟩ := row_facts hk
  unfold HMesh.cellOf rootCell
  have e0 := F.v0_at hk .bottom
  have e2 := F.v0_at hk .top
  simp only [sideIdx, Nat.add_zero] at e0 e2
  rw [F.elem k hk]
  simp only [specElem]
  rw [e0, e2]
  generalize k / (X.length - 1) = j at *
  generalize k % (X.length - 1) = i at *
  rw [F.vert_at (by omega) (by omega), F.vert_at (by omega) (by omega)]
  rfl

theorem InitFinal.geom (F : InitFinal glue X T h) (hX : X.Pairwise (· < ·)) (hT : T.Pairwise (· < ·))
    {k : Nat} (hk : k < (T.length - 1) * (X.length - 1)) : ElemGeom h k := by
  obtain ⟨r1, r2, r3⟩ := row_facts hk
  refine ⟨fun s => ?_, fun s => ?_, ?_⟩
  · rw [F.side hk, F.v0_at hk, F.cellOf hk]
    unfold rootCell
    generalize k / (X.length - 1) = j at *
    generalize k % (X.length - 1) = i at *
    rw [F.pt_at (by cases s <;> simp <;> omega) (by cases s <;> simp <;> omega)]
    cases s <;> simp [corner]
  · rw [F.side hk, F.side hk, F.v1_at hk]
  · rw [F.cellOf hk]
    unfold rootCell
    generalize k / (X.length - 1) = j at *
    generalize k % (X.length - 1) = i at *
    exact ⟨getD_strict hT (by omega) (by omega), getD_strict hX (by omega) (by omega)⟩

theorem beq_decide_of_iff {a b : Nat} {p : Prop} [Decidable p] (hp : p ↔ a = b) : (a == b) = decide p := by
  by_cases h : a = b
  · subst h; simp [hp]
  · have : ¬ p := fun q => h (hp.mp q)
    simp [h, this]

theorem InitFinal.flags (F : InitFinal glue X T h) (hX : X.Pairwise (· < ·)) (hT : T.Pairwise (· < ·))
    {k : Nat} (hk : k < (T.length - 1) * (X.length - 1)) : FlagsOK h k := by
  obtain ⟨r1, r2, r3⟩ := row_facts hk
  have hbox := F.box
  have hob : ∀ s, (h.edge ((h.elem k).side s)).onBoundary = Stbem.Mesh.onBoundary h.abs (h.cellOf k) s := by
    intro s
    rw [F.side hk, F.edge_at hk (sideIdx_lt s), F.cellOf hk]
    unfold rootCell
    cases s <;> simp only [sideIdx, specQ, Stbem.Mesh.onBoundary, HMesh.abs, hbox.1, hbox.2.1, hbox.2.2.1,
      hbox.2.2.2, headD_eq_getD, getLastD_eq_getD] <;>
      generalize k / (X.length - 1) = j at * <;> generalize k % (X.length - 1) = i at *
    · exact beq_decide_of_iff (getD_inj hT (a := j) (b := 0) (by omega) (by omega))
    · exact beq_decide_of_iff (getD_inj hX (a := i + 1) (b := X.length - 1) (by omega) (by omega))
    · exact beq_decide_of_iff (getD_inj hT (a := j + 1) (b := T.length - 1) (by omega) (by omega))
    · exact beq_decide_of_iff (getD_inj hX (a := i) (b := 0) (by omega) (by omega))
  intro s
  refine ⟨hob s, ?_⟩
  unfold isSeam
  rw [← hob s, F.side hk, F.edge_at hk (sideIdx_lt s), F.glue]
  cases s <;> simp only [sideIdx, specQ] <;>
    generalize k / (X.length - 1) = j at * <;> generalize k % (X.length - 1) = i at * <;>
    cases glue <;> simp [r1] <;> (symm; exact beq_decide_of_iff Iff.rfl)

/-- the final edge `s` of root `(j, i)` -/
def specJI (glue : Bool) (nX Nt j i : Nat) : Nat → HEdge
  | 0 => { v0 := j * nX + i, v1 := j * nX + i + 1, elem := some (j * (nX - 1) + i), onBoundary := j == 0,
           nbr := if 0 < j then some (4 * (j * (nX - 1) + i - (nX - 1)) + 2) else none }
  | 1 => { v0 := j * nX + i + 1, v1 := (j + 1) * nX + i + 1, elem := some (j * (nX - 1) + i),
           onBoundary := i + 1 == nX - 1,
           nbr := if i + 1 < nX - 1 then some (4 * (j * (nX - 1) + i + 1) + 3)
                  else if glue then some (4 * (j * (nX - 1)) + 3) else none,
           glued := glue && decide (i + 1 = nX - 1) }
  | 2 => { v0 := (j + 1) * nX + i + 1, v1 := (j + 1) * nX + i, elem := some (j * (nX - 1) + i),
           onBoundary := j + 1 == Nt,
           nbr := if j + 1 < Nt then some (4 * (j * (nX - 1) + i + (nX - 1))) else none }
  | _ => { v0 := (j + 1) * nX + i, v1 := j * nX + i, elem := some (j * (nX - 1) + i), onBoundary := i == 0,
           nbr := if 0 < i then some (4 * (j * (nX - 1) + i - 1) + 1)
                  else if glue then some (4 * (j * (nX - 1) + (nX - 1) - 1) + 1) else none,
           glued := glue && decide (i = 0) }

theorem root_lt {Nx Nt j i : Nat} (hj : j < Nt) (hi : i < Nx) : j * Nx + i < Nt * Nx := by
  have : (j + 1) * Nx ≤ Nt * Nx := Nat.mul_le_mul_right _ hj
  rw [Nat.succ_mul] at this
  omega

theorem InitFinal.edge_ji (F : InitFinal glue X T h) {j i s : Nat} (hj : j < T.length - 1)
    (hi : i < X.length - 1) (hs : s < 4) :
    h.edge (4 * (j * (X.length - 1) + i) + s) = specJI glue X.length (T.length - 1) j i s := by
  have hk := root_lt hj hi
  rw [F.edge_at hk hs]
  obtain ⟨d1, d2⟩ := divmod (Nx := X.length - 1) (j := j) (i := i) hi
  have hm1 : (j + 1) * (X.length - 1) = j * (X.length - 1) + (X.length - 1) := Nat.succ_mul _ _
  have hm2 : (j + 1) * (X.length - 1) ≤ (T.length - 1) * (X.length - 1) := Nat.mul_le_mul_right _ hj
  match s, hs with
  | 0, _ => simp only [specQ, specJI, d1, d2]
  | 1, _ =>
    simp only [specQ, specJI, d1, d2]
    have : (i + 1 < X.length - 1) → j * (X.length - 1) + i + 1 < (T.length - 1) * (X.length - 1) := by
      intro; omega
    by_cases hc : i + 1 < X.length - 1
    · simp [hc, this hc, hj]
    · simp [hc, hj]
  | 2, _ =>
    simp only [specQ, specJI, d1, d2]
    have : (j * (X.length - 1) + i + (X.length - 1) < (T.length - 1) * (X.length - 1)) ↔ j + 1 < T.length - 1 := by
      constructor
      · intro hlt
        by_contra hc
        have : j + 1 = T.length - 1 := by omega
        rw [← this] at hlt
        omega
      · intro hlt
        have : (j + 1 + 1) * (X.length - 1) ≤ (T.length - 1) * (X.length - 1) := Nat.mul_le_mul_right _ hlt
        rw [Nat.succ_mul (j + 1)] at this
        omega
    simp [this]
  | 3, _ =>
    simp only [specQ, specJI, d1, d2]
    simp [hj]

theorem root_split {Nx Nt k : Nat} (hk : k < Nt * Nx) : ∃ j i, j < Nt ∧ i < Nx ∧ k = j * Nx + i := by
  obtain ⟨r1, r2, r3⟩ := row_facts hk
  exact ⟨_, _, r1, r2, r3⟩

theorem InitFinal.own (F : InitFinal glue X T h) : Own h := by
  refine ⟨by rw [F.leaves]; exact List.nodup_range, fun el hel s => ?_, fun el hel s => ?_, fun el hel => ?_⟩
  · rw [F.leaves, List.mem_range] at hel
    rw [F.side hel, F.edge_at hel (sideIdx_lt s)]
    cases s <;> rfl
  · rw [F.leaves, List.mem_range] at hel
    rw [F.side hel, F.edge_at hel (sideIdx_lt s)]
    cases s <;> rfl
  · rw [F.leaves, List.mem_range] at hel
    rw [F.elem el hel]; rfl

/-- every index below `4n` is `4 (j Nx + i) + s` -/
theorem idx_split {Nx Nt idx : Nat} (hi : idx < 4 * (Nt * Nx)) :
    ∃ j i s, j < Nt ∧ i < Nx ∧ s < 4 ∧ idx = 4 * (j * Nx + i) + s := by
  obtain ⟨j, i, hj, hi', hk⟩ := root_split (Nx := Nx) (Nt := Nt) (k := idx / 4) (by omega)
  exact ⟨j, i, idx % 4, hj, hi', by omega, by omega⟩

theorem InitFinal.wf (F : InitFinal glue X T h) (hX2 : 2 ≤ X.length) : WF h := by
  have hsz := F.edges.1
  have hvs := F.verts.1
  have hrow : ∀ j, j < T.length - 1 → (j + 1) * (X.length - 1) ≤ (T.length - 1) * (X.length - 1) :=
    fun j hj => Nat.mul_le_mul_right _ hj
  have hsm : ∀ j, (j + 1) * (X.length - 1) = j * (X.length - 1) + (X.length - 1) := fun j => Nat.succ_mul _ _
  refine ⟨?_, ?_, ?_, ?_, ?_, ?_, ?_, ?_, ?_, ?_, ?_, ?_⟩
  · intro idx hi
    rw [hsz] at hi
    obtain ⟨j, i, s, hj, hi', hs, rfl⟩ := idx_split hi
    rw [F.edge_ji hj hi' hs, hvs]
    have hmul : (j + 1 + 1) * X.length ≤ T.length * X.length := Nat.mul_le_mul_right _ (by omega)
    rw [Nat.succ_mul (j + 1)] at hmul
    have hm2 : (j + 1) * X.length = j * X.length + X.length := Nat.succ_mul _ _
    match s, hs with
    | 0, _ => simp only [specJI]; omega
    | 1, _ => simp only [specJI]; omega
    | 2, _ => simp only [specJI]; omega
    | 3, _ => simp only [specJI]; omega
  · intro idx hi p hp
    rw [hsz] at hi
    obtain ⟨j, i, s, hj, hi', hs, rfl⟩ := idx_split hi
    rw [F.edge_ji hj hi' hs] at hp
    match s, hs with
    | 0, _ => simp [specJI] at hp
    | 1, _ => simp [specJI] at hp
    | 2, _ => simp [specJI] at hp
    | 3, _ => simp [specJI] at hp
  · intro idx hi f hf
    rw [hsz] at hi ⊢
    obtain ⟨j, i, s, hj, hi', hs, rfl⟩ := idx_split hi
    rw [F.edge_ji hj hi' hs] at hf
    have h1 := hrow j hj
    have h2 := hsm j
    match s, hs with
    | 0, _ =>
      simp only [specJI] at hf
      split at hf
      · cases hf; omega
      · cases hf
    | 1, _ =>
      simp only [specJI] at hf
      split at hf
      · cases hf; omega
      · split at hf
        · cases hf; omega
        · cases hf
    | 2, _ =>
      simp only [specJI] at hf
      split at hf
      · rename_i hlt
        have h3 := hrow (j + 1) hlt
        have h4 := hsm (j + 1)
        cases hf; omega
      · cases hf
    | 3, _ =>
      simp only [specJI] at hf
      split at hf
      · cases hf; omega
      · split at hf
        · cases hf; omega
        · cases hf
  · intro idx hi k' hk'
    rw [hsz] at hi
    obtain ⟨j, i, s, hj, hi', hs, rfl⟩ := idx_split hi
    rw [F.edge_ji hj hi' hs] at hk'
    match s, hs with
    | 0, _ => simp [specJI] at hk'
    | 1, _ => simp [specJI] at hk'
    | 2, _ => simp [specJI] at hk'
    | 3, _ => simp [specJI] at hk'
  · intro idx hi el hel
    rw [hsz] at hi
    obtain ⟨j, i, s, hj, hi', hs, rfl⟩ := idx_split hi
    rw [F.edge_ji hj hi' hs] at hel
    rw [F.elsize]
    have := root_lt hj hi'
    match s, hs with
    | 0, _ => simp only [specJI] at hel; cases hel; exact this
    | 1, _ => simp only [specJI] at hel; cases hel; exact this
    | 2, _ => simp only [specJI] at hel; cases hel; exact this
    | 3, _ => simp only [specJI] at hel; cases hel; exact this
  · intro el hel s
    rw [F.elsize] at hel
    rw [F.side hel, hsz]
    have := sideIdx_lt s
    omega
  · intro el hel p hp
    rw [F.elsize] at hel
    rw [F.elem el hel] at hp
    cases hp
  · intro el hel k hk
    rw [F.elsize] at hel
    rw [F.elem el hel] at hk
    cases hk
  · intro el hel
    rw [F.elsize] at hel
    rw [F.elem el hel]; rfl
  · intro el hel
    rw [F.leaves, List.mem_range] at hel
    rw [F.elsize]; exact hel
  · rw [F.nElems, F.elsize]
  · intro v hv
    rw [hvs] at hv
    have hpos : 0 < X.length := by omega
    have h1 : v / X.length < T.length := Nat.div_lt_of_lt_mul (by rw [Nat.mul_comm]; exact hv)
    have h2 := Nat.mod_lt v hpos
    have h3 := Nat.div_add_mod v X.length
    have := F.vert_at h1 h2
    rw [show v / X.length * X.length + v % X.length = v by rw [Nat.mul_comm]; exact h3] at this
    rw [this]

theorem InitFinal.level0 (F : InitFinal glue X T h) {k : Nat} (hk : k < (T.length - 1) * (X.length - 1))
    (ax : Ax) : (h.elem k).level ax = 0 := by
  rw [F.elem k hk]; cases ax <;> rfl

theorem InitFinal.mem_leaves (F : InitFinal glue X T h) {k : Nat} :
    k ∈ h.leaves ↔ k < (T.length - 1) * (X.length - 1) := by
  rw [F.leaves, List.mem_range]

/-- non-glued `Opp` from the vertex handles -/
theorem opp_of_handles {h : HMesh} {e f : Nat} (hge : (h.edge e).glued = false) (hgf : (h.edge f).glued = false)
    (h0 : (h.edge f).v0 = (h.edge e).v1) (h1 : (h.edge f).v1 = (h.edge e).v0) : Opp h e f := by
  refine ⟨by rw [hge, hgf], ?_⟩
  rw [hge]
  exact ⟨h0, h1⟩

theorem InitFinal.case_bottom (F : InitFinal glue X T h) {j i : Nat} (hj : j < T.length - 1)
    (hi : i < X.length - 1) :
    CaseA h (4 * (j * (X.length - 1) + i) + 0) .bottom ∨ CaseD h (4 * (j * (X.length - 1) + i) + 0) := by
  have he := F.edge_ji hj hi (show 0 < 4 by omega)
  rcases Nat.eq_zero_or_pos j with hj0 | hj0
  · right
    subst hj0
    rw [CaseD, he]
    simp [specJI]
  · left
    obtain ⟨j', rfl⟩ : ∃ j', j = j' + 1 := ⟨j - 1, by omega⟩
    have hsm : (j' + 1) * (X.length - 1) = j' * (X.length - 1) + (X.length - 1) := Nat.succ_mul _ _
    have hk' := root_lt (show j' < T.length - 1 by omega) hi
    have hf := F.edge_ji (show j' < T.length - 1 by omega) hi (show 2 < 4 by omega)
    have hidx : 4 * ((j' + 1) * (X.length - 1) + i - (X.length - 1)) + 2 = 4 * (j' * (X.length - 1) + i) + 2 := by
      omega
    refine ⟨4 * (j' * (X.length - 1) + i) + 2, j' * (X.length - 1) + i, ?_, ?_, ?_, F.mem_leaves.mpr hk', ?_, ?_, ?_⟩
    · rw [he]; simp [specJI, hidx]
    · rw [hf]; rfl
    · rw [hf]; simp only [specJI]
      rw [if_pos (by omega)]
      congr 1; omega
    · rw [F.side hk']; rfl
    · apply opp_of_handles
      · rw [he]; rfl
      · rw [hf]; rfl
      · rw [he, hf]; rfl
      · rw [he, hf]; rfl
    · intro el _
      rw [F.level0 hk']
      rw [he] at *
      rename_i hel
      simp only [specJI] at hel
      cases hel
      rw [F.level0 (root_lt hj hi)]

theorem InitFinal.case_top (F : InitFinal glue X T h) {j i : Nat} (hj : j < T.length - 1)
    (hi : i < X.length - 1) :
    CaseA h (4 * (j * (X.length - 1) + i) + 2) .top ∨ CaseD h (4 * (j * (X.length - 1) + i) + 2) := by
  have he := F.edge_ji hj hi (show 2 < 4 by omega)
  by_cases hj1 : j + 1 < T.length - 1
  · left
    have hsm : (j + 1) * (X.length - 1) = j * (X.length - 1) + (X.length - 1) := Nat.succ_mul _ _
    have hk' := root_lt hj1 hi
    have hf := F.edge_ji hj1 hi (show 0 < 4 by omega)
    have hidx : 4 * (j * (X.length - 1) + i + (X.length - 1)) = 4 * ((j + 1) * (X.length - 1) + i) + 0 := by
      omega
    refine ⟨4 * ((j + 1) * (X.length - 1) + i) + 0, (j + 1) * (X.length - 1) + i, ?_, ?_, ?_,
      F.mem_leaves.mpr hk', ?_, ?_, ?_⟩
    · rw [he]; simp [specJI, hj1, hidx]
    · rw [hf]; rfl
    · rw [hf]; simp only [specJI]
      rw [if_pos (by omega)]
      congr 1; omega
    · rw [F.side hk']; rfl
    · apply opp_of_handles
      · rw [he]; rfl
      · rw [hf]; rfl
      · rw [he, hf]; rfl
      · rw [he, hf]; rfl
    · intro el hel
      rw [F.level0 hk']
      rw [he] at hel
      simp only [specJI] at hel
      cases hel
      rw [F.level0 (root_lt hj hi)]
  · right
    rw [CaseD, he]
    simp [specJI, hj1]
    omega

theorem InitFinal.case_right (F : InitFinal glue X T h) {j i : Nat} (hj : j < T.length - 1)
    (hi : i < X.length - 1) :
    CaseA h (4 * (j * (X.length - 1) + i) + 1) .right ∨ CaseD h (4 * (j * (X.length - 1) + i) + 1) := by
  have he := F.edge_ji hj hi (show 1 < 4 by omega)
  have hbox := F.box
  by_cases hi1 : i + 1 < X.length - 1
  · left
    have hk' := root_lt hj hi1
    have hf := F.edge_ji hj hi1 (show 3 < 4 by omega)
    have hidx : 4 * (j * (X.length - 1) + i + 1) + 3 = 4 * (j * (X.length - 1) + (i + 1)) + 3 := by omega
    refine ⟨4 * (j * (X.length - 1) + (i + 1)) + 3, j * (X.length - 1) + (i + 1), ?_, ?_, ?_,
      F.mem_leaves.mpr hk', ?_, ?_, ?_⟩
    · rw [he]; simp [specJI, hi1, hidx]
    · rw [hf]; rfl
    · rw [hf]; simp only [specJI]
      rw [if_pos (by omega)]
      congr 1
    · rw [F.side hk']; rfl
    · apply opp_of_handles
      · rw [he]; simp [specJI]; intro; omega
      · rw [hf]; simp [specJI]
      · rw [he, hf]; simp only [specJI]; omega
      · rw [he, hf]; simp only [specJI]; omega
    · intro el hel
      rw [F.level0 hk']
      rw [he] at hel
      simp only [specJI] at hel
      cases hel
      rw [F.level0 (root_lt hj hi)]
  · have hiN : i + 1 = X.length - 1 := by omega
    cases hg : glue with
    | false =>
      right
      rw [CaseD, he]
      simp [specJI, hg, hiN]
    | true =>
      left
      have h0 : 0 < X.length - 1 := by omega
      have hk' := root_lt hj h0
      have hf := F.edge_ji hj h0 (show 3 < 4 by omega)
      refine ⟨4 * (j * (X.length - 1) + 0) + 3, j * (X.length - 1) + 0, ?_, ?_, ?_,
        F.mem_leaves.mpr hk', ?_, ?_, ?_⟩
      · rw [he]; simp [specJI, hi1, hg]
      · rw [hf]; rfl
      · rw [hf]; simp only [specJI, hg]
        simp
        omega
      · rw [F.side hk']; rfl
      · have ge : (h.edge (4 * (j * (X.length - 1) + i) + 1)).glued = true := by
          rw [he]; simp [specJI, hg, hiN]
        have gf : (h.edge (4 * (j * (X.length - 1) + 0) + 3)).glued = true := by
          rw [hf]; simp [specJI, hg]
        refine ⟨by rw [ge, gf], ?_⟩
        rw [ge, if_pos rfl, he, hf]
        simp only [specJI]
        rw [show (j + 1) * X.length + 0 = (j + 1) * X.length + 0 from rfl,
          F.pt_at (j := j + 1) (i := 0) (by omega) (by omega),
          show (j + 1) * X.length + i + 1 = (j + 1) * X.length + (i + 1) by omega,
          F.pt_at (j := j + 1) (i := i + 1) (by omega) (by omega),
          F.pt_at (j := j) (i := 0) (by omega) (by omega),
          show j * X.length + i + 1 = j * X.length + (i + 1) by omega,
          F.pt_at (j := j) (i := i + 1) (by omega) (by omega)]
        have hxmin : h.xmin = X.getD 0 0 := by rw [hbox.1, headD_eq_getD]
        have hxmax : h.xmax = X.getD (X.length - 1) 0 := by rw [hbox.2.1, getLastD_eq_getD]
        unfold SeamEq
        rw [hxmin, hxmax, hiN]
        exact ⟨⟨rfl, Or.inl ⟨rfl, rfl⟩⟩, ⟨rfl, Or.inl ⟨rfl, rfl⟩⟩⟩
      · intro el hel
        rw [F.level0 hk']
        rw [he] at hel
        simp only [specJI] at hel
        cases hel
        rw [F.level0 (root_lt hj hi)]

theorem InitFinal.case_left (F : InitFinal glue X T h) {j i : Nat} (hj : j < T.length - 1)
    (hi : i < X.length - 1) :
    CaseA h (4 * (j * (X.length - 1) + i) + 3) .left ∨ CaseD h (4 * (j * (X.length - 1) + i) + 3) := by
  have he := F.edge_ji hj hi (show 3 < 4 by omega)
  have hbox := F.box
  rcases Nat.eq_zero_or_pos i with hi0 | hi0
  · subst hi0
    cases hg : glue with
    | false =>
      right
      rw [CaseD, he]
      simp [specJI, hg]
    | true =>
      left
      have h0 : X.length - 1 - 1 < X.length - 1 := by omega
      have hk' := root_lt hj h0
      have hf := F.edge_ji hj h0 (show 1 < 4 by omega)
      have hidx : 4 * (j * (X.length - 1) + (X.length - 1) - 1) + 1 =
          4 * (j * (X.length - 1) + (X.length - 1 - 1)) + 1 := by omega
      refine ⟨4 * (j * (X.length - 1) + (X.length - 1 - 1)) + 1, j * (X.length - 1) + (X.length - 1 - 1), ?_, ?_, ?_,
        F.mem_leaves.mpr hk', ?_, ?_, ?_⟩
      · rw [he]; simp [specJI, hg, hidx]
      · rw [hf]; rfl
      · rw [hf]; simp only [specJI, hg]
        rw [if_neg (by omega)]
        simp
      · rw [F.side hk']; rfl
      · have ge : (h.edge (4 * (j * (X.length - 1) + 0) + 3)).glued = true := by
          rw [he]; simp [specJI, hg]
        have gf : (h.edge (4 * (j * (X.length - 1) + (X.length - 1 - 1)) + 1)).glued = true := by
          rw [hf]; simp [specJI, hg]; omega
        refine ⟨by rw [ge, gf], ?_⟩
        rw [ge, if_pos rfl, he, hf]
        simp only [specJI]
        rw [show j * X.length + (X.length - 1 - 1) + 1 = j * X.length + (X.length - 1) by omega,
          F.pt_at (j := j) (i := X.length - 1) (by omega) (by omega),
          F.pt_at (j := j) (i := 0) (by omega) (by omega),
          show (j + 1) * X.length + (X.length - 1 - 1) + 1 = (j + 1) * X.length + (X.length - 1) by omega,
          F.pt_at (j := j + 1) (i := X.length - 1) (by omega) (by omega),
          F.pt_at (j := j + 1) (i := 0) (by omega) (by omega)]
        have hxmin : h.xmin = X.getD 0 0 := by rw [hbox.1, headD_eq_getD]
        have hxmax : h.xmax = X.getD (X.length - 1) 0 := by rw [hbox.2.1, getLastD_eq_getD]
        unfold SeamEq
        rw [hxmin, hxmax]
        exact ⟨⟨rfl, Or.inr ⟨rfl, rfl⟩⟩, ⟨rfl, Or.inr ⟨rfl, rfl⟩⟩⟩
      · intro el hel
        rw [F.level0 hk']
        rw [he] at hel
        simp only [specJI] at hel
        cases hel
        rw [F.level0 (root_lt hj hi)]
  · left
    obtain ⟨i', rfl⟩ : ∃ i', i = i' + 1 := ⟨i - 1, by omega⟩
    have hi' : i' < X.length - 1 := by omega
    have hk' := root_lt hj hi'
    have hf := F.edge_ji hj hi' (show 1 < 4 by omega)
    have hidx : 4 * (j * (X.length - 1) + (i' + 1) - 1) + 1 = 4 * (j * (X.length - 1) + i') + 1 := by omega
    refine ⟨4 * (j * (X.length - 1) + i') + 1, j * (X.length - 1) + i', ?_, ?_, ?_,
      F.mem_leaves.mpr hk', ?_, ?_, ?_⟩
    · rw [he]; simp [specJI, hidx]
    · rw [hf]; rfl
    · rw [hf]; simp only [specJI]
      rw [if_pos (by omega)]
      congr 1
    · rw [F.side hk']; rfl
    · apply opp_of_handles
      · rw [he]; simp [specJI]
      · rw [hf]; simp [specJI]; intro; omega
      · rw [he, hf]; simp only [specJI]; omega
      · rw [he, hf]; simp only [specJI]; omega
    · intro el hel
      rw [F.level0 hk']
      rw [he] at hel
      simp only [specJI] at hel
      cases hel
      rw [F.level0 (root_lt hj hi)]

/-- the mesh after `Mesh.__init__` satisfies the pointer invariant -/
theorem InitFinal.hinv (F : InitFinal glue X T h) (hX : X.Pairwise (· < ·)) (hT : T.Pairwise (· < ·))
    (hX2 : 2 ≤ X.length) : HInv h := by
  refine ⟨F.wf hX2, F.own, fun el hel => F.geom hX hT (F.mem_leaves.mp hel),
    fun el hel => F.flags hX hT (F.mem_leaves.mp hel), fun el hel s => ?_⟩
  have hk := F.mem_leaves.mp hel
  obtain ⟨j, i, hj, hi, rfl⟩ := root_split hk
  rw [F.side hk]
  cases s
  · rcases F.case_bottom hj hi with c | c
    · exact Or.inl c
    · exact Or.inr (Or.inr (Or.inr c))
  · rcases F.case_right hj hi with c | c
    · exact Or.inl c
    · exact Or.inr (Or.inr (Or.inr c))
  · rcases F.case_top hj hi with c | c
    · exact Or.inl c
    · exact Or.inr (Or.inr (Or.inr c))
  · rcases F.case_left hj hi with c | c
    · exact Or.inl c
    · exact Or.inr (Or.inr (Or.inr c))

theorem pairs_eq_range (X : List Rat) :
    pairs X = (List.range (X.length - 1)).map fun i => (X.getD i 0, X.getD (i + 1) 0) := by
  induction X with
  | nil => rfl
  | cons a l ih =>
    cases l with
    | nil => rfl
    | cons b l =>
      rw [Stbem.Mesh.pairs_cons2, ih]
      simp only [List.length_cons, Nat.add_sub_cancel]
      rw [List.range_succ_eq_map, List.map_cons, List.map_map]
      congr 1

theorem flatMap_range_prod {α : Type} (f : Nat → Nat → α) (A B : Nat) :
    (List.range A).flatMap (fun j => (List.range B).map (f j)) =
      (List.range (A * B)).map fun k => f (k / B) (k % B) := by
  induction A with
  | zero => simp
  | succ A ih =>
    rw [List.range_succ, List.flatMap_append, ih, Nat.succ_mul, List.range_add, List.map_append]
    congr 1
    simp only [List.flatMap_cons, List.flatMap_nil, List.append_nil, List.map_map]
    apply List.map_congr_left
    intro i hi
    rw [List.mem_range] at hi
    obtain ⟨d1, d2⟩ := divmod (Nx := B) (j := A) (i := i) hi
    simp only [Function.comp]
    rw [Nat.mul_comm A B] at *
    rw [Nat.mul_comm B A] at *
    rw [d1, d2]

theorem number_range' (g : Nat → (Rat × Rat) × (Rat × Rat)) : ∀ (n i a : Nat),
    Stbem.Mesh.init.number i ((List.range' a n).map g) =
      (List.range' a n).map fun k => Stbem.Mesh.mkCell (g k) (i + k - a) := by
  intro n
  induction n with
  | zero => intro i a; rfl
  | succ n ih =>
    intro i a
    rw [List.range'_succ, List.map_cons, Stbem.Mesh.number_cons, ih (i + 1) (a + 1), List.map_cons]
    congr 1
    · congr 1; omega
    · apply List.map_congr_left
      intro k hk
      congr 1
      have := (List.mem_range'_1.mp hk).1
      omega


theorem InitFinal.cells_eq (X T : List Rat) :
    ((pairs T).flatMap fun tp => (pairs X).map fun xp => (tp, xp)) =
      (List.range ((T.length - 1) * (X.length - 1))).map fun k =>
        ((T.getD (k / (X.length - 1)) 0, T.getD (k / (X.length - 1) + 1) 0),
         (X.getD (k % (X.length - 1)) 0, X.getD (k % (X.length - 1) + 1) 0)) := by
  rw [pairs_eq_range X, pairs_eq_range T, List.flatMap_map]
  simp only [List.map_map]
  exact flatMap_range_prod (fun j i => ((T.getD j 0, T.getD (j + 1) 0), (X.getD i 0, X.getD (i + 1) 0))) _ _

theorem InitFinal.abs_eq (F : InitFinal glue X T h) : h.abs = Stbem.Mesh.init glue X T := by
  have hl : h.leaves.map h.cellOf = (Stbem.Mesh.init glue X T).leaves := by
    show _ = Stbem.Mesh.init.number 0 _
    rw [InitFinal.cells_eq X T, List.range_eq_range', number_range', F.leaves, List.range_eq_range']
    apply List.map_congr_left
    intro k hk
    have hk' : k < (T.length - 1) * (X.length - 1) := by simpa using (List.mem_range'_1.mp hk).2
    rw [F.cellOf hk']
    simp [rootCell, Stbem.Mesh.mkCell]
  have hn : h.nElems = (Stbem.Mesh.init glue X T).nElems := by
    show _ = List.length _
    rw [InitFinal.cells_eq X T, F.nElems]
    simp
  have hk : h.kidsTable = [] := by
    unfold HMesh.kidsTable
    rw [List.filterMap_eq_nil_iff]
    intro E hE
    obtain ⟨k, hk, rfl⟩ := List.getElem_of_mem hE
    have hk' : k < h.elems.size := by simpa using hk
    have : h.elems.toList[k] = h.elem k := by
      simp [elem_def, Array.getElem?_eq_getElem hk']
    rw [this, F.elem k (by rw [← F.elsize]; exact hk')]
    rfl
  unfold HMesh.abs
  rw [hl, hn, hk, F.coords, F.glue, F.box.1, F.box.2.1, F.box.2.2.1, F.box.2.2.2]
  rfl

end

theorem InitFinal.hverts {glue : Bool} {X T : List Rat} {h : HMesh} (F : InitFinal glue X T h) (hX2 : 2 ≤ X.length) (hT2 : 2 ≤ T.length) : HVerts h := by
  intro v hv
  rw [F.verts.1] at hv
  have hpos : 0 < X.length := by omega
  have hj : v / X.length < T.length := Nat.div_lt_of_lt_mul (by rw [Nat.mul_comm]; exact hv)
  have hi := Nat.mod_lt v hpos
  have hdm := Nat.div_add_mod v X.length
  have hvv : v = v / X.length * X.length + v % X.length := by rw [Nat.mul_comm]; omega
  generalize v / X.length = j at *
  generalize v % X.length = i at *
  subst hvv
  rw [F.pt_at hj hi]
  -- the root whose corner it is
  have key : ∀ j' i', j' < T.length - 1 → i' < X.length - 1 →
      (j = j' ∨ j = j' + 1) → (i = i' ∨ i = i' + 1) →
      ∃ l ∈ h.leaves, ∃ s, (T.getD j 0, X.getD i 0) = corner (h.cellOf l) s := by
    intro j' i' hj' hi' ej ei
    have hk := root_lt hj' hi'
    obtain ⟨d1, d2⟩ := divmod (Nx := X.length - 1) (j := j') (i := i') hi'
    refine ⟨j' * (X.length - 1) + i', F.mem_leaves.mpr hk, ?_⟩
    rw [F.cellOf hk]
    unfold rootCell
    rw [d1, d2]
    rcases ej with rfl | rfl <;> rcases ei with rfl | rfl
    · exact ⟨.bottom, rfl⟩
    · exact ⟨.right, rfl⟩
    · exact ⟨.left, rfl⟩
    · exact ⟨.top, rfl⟩
  by_cases h1 : j < T.length - 1 <;> by_cases h2 : i < X.length - 1
  · exact key j i h1 h2 (Or.inl rfl) (Or.inl rfl)
  · exact key j (i - 1) h1 (by omega) (Or.inl rfl) (Or.inr (by omega))
  · exact key (j - 1) i (by omega) h2 (Or.inr (by omega)) (Or.inl rfl)
  · exact key (j - 1) (i - 1) (by omega) (by omega) (Or.inr (by omega)) (Or.inr (by omega))

/-- vertices of the initial mesh are corners of roots -/
theorem init_hverts (glue : Bool) {X T : List Rat} (hX : X.Pairwise (· < ·)) (hT : T.Pairwise (· < ·))
    (hX2 : 2 ≤ X.length) (hT2 : 2 ≤ T.length) {h : HMesh} (e : init glue X T = .ok h) : HVerts h := by
  obtain ⟨h', e', F⟩ := init_final glue hX hT hX2
  rw [e] at e'; cases e'
  exact F.hverts hX2 hT2

/-- `Mesh.__init__` succeeds on strictly increasing grids, its result satisfies the pointer invariant and
abstracts to the initial mesh of the A-layer -/
theorem init_spec (glue : Bool) {X T : List Rat} (hX : X.Pairwise (· < ·)) (hT : T.Pairwise (· < ·))
    (hX2 : 2 ≤ X.length) :
    ∃ h, init glue X T = .ok h ∧ HInv h ∧ h.abs = Stbem.Mesh.init glue X T := by
  obtain ⟨h, e, F⟩ := init_final glue hX hT hX2
  exact ⟨h, e, F.hinv hX hT hX2, F.abs_eq⟩

end Stbem.HalfEdge
