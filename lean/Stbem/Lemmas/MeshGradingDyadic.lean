import Stbem.Lemmas.MeshGradingTerm

/-!
# Termination of the repaired grading loop when the root cells differ in size by powers of two

`DyadicRootsTX Ht Hx Bt Bx m`: every leaf has the size `Ht·2^i / 2^lt × Hx·2^j / 2^lx` with root offsets
`i ≤ Bt`, `j ≤ Bx` (inherited from its root cell).

The closure of `refineAxis` works on *levels*, the marks on *sizes*.  The invariant that survives both:
fix base levels `(Lt0, Lx0)`; every leaf `c` has, for the size of its root, a target
`(Lt, Lx) ∈ {Lt0, Lt0+1} × {Lx0, Lx0+1}` (cell size of the target in the window) with `c.lt ≤ Lt`,
`c.lx ≤ Lx` (`Good`).

* a marked leaf is strictly below its own target in the marked axis (`Target.time/space`), hence
  at level `≤ Lt0` (resp. `≤ Lx0`); bisecting it keeps it below its target;
* the closure of a marked leaf `c` bisects leaves of level `< c.level ≤ Lt0`: their children have level
  `≤ Lt0`, which is below every admissible target.  This is where the slack of one level per axis
  between the targets of different roots is used (it is exactly the slack that 1-irregularity leaves);
* the potential `pot (Lt0+1) (Lx0+1)` of `MeshGradingTerm` drops by one with every bisection.

Targets for all root sizes exist (`exists_good`) when `2^(q·Bt + p·Bx) < K^(2q)·2^p` (and `2 < K²`,
`2^p < K^(2q)`), for `K = 4`: `q·Bt + p·Bx < 4q + p`, `p < 4q`.  `Props/C19Dyadic` shows that the
bound cannot be dropped: for `σ = 2`, `Bt = 0`, `Bx = 3` the loop diverges.
-/
namespace Stbem.Mesh

/-! ### predicates preserved by bisection are preserved by `refineId`, by a sweep, by the loop -/

def BisectStable (P : Mesh → Prop) : Prop :=
  ∀ (M : Mesh) (c : Cell) (ax : Ax), P M → c ∈ M.leaves → P (bisect M c ax)

theorem refineId_stable {P : Mesh → Prop} (hP : BisectStable P) {m : Mesh} (h : Inv m) (hm : P m)
    {id : Nat} {ax : Ax} {m' : Mesh} (hr : refineId m id ax = .ok m') : P m' := by
  obtain ⟨c, hc, rfl, _⟩ := refineId_res_of_ok h hr
  obtain ⟨M1, pre, h1⟩ := refineId_trace h hc ax
  rw [hr] at h1
  injection h1 with h1
  subst h1
  exact hP _ _ _ (pre.bis.pres P (fun X d hX hd _ => hP X d ax hX hd) hm) pre.mem

theorem gradeSweep_stable {P : Mesh → Prop} (hP : BisectStable P) {m : Mesh} (h : Inv m) (hm : P m)
    {p q : Nat} {K : Rat} {r : Mesh × Bool} (hr : gradeSweep true m p q K = .ok r) : P r.1 := by
  obtain ⟨r', h1, _, _, fin⟩ := gradeSweep_ok_gen P P (fun _ => True) (fun _ => True) m p q K
    (fun M c M' hM hj _ _ hr => refineId_stable hP hM hj hr)
    (fun M c M' hM hj _ _ hr => refineId_stable hP hM hj hr)
    (fun _ hj => hj) (fun _ _ _ => trivial) (fun _ _ _ _ _ _ _ _ => trivial) h hm
  rw [hr] at h1
  injection h1 with h1
  subst h1
  rcases fin with ⟨_, e⟩ | ⟨_, hj⟩
  · rw [e]; exact hm
  · exact hj

theorem grading_stable {P : Mesh → Prop} (hP : BisectStable P) (fuel : Nat) :
    ∀ {m : Mesh}, Inv m → P m → ∀ {p q : Nat} {K : Rat} {m' : Mesh},
      grading true fuel m p q K = .ok m' → P m' := by
  induction fuel with
  | zero => intro m _ _ p q K m' hr; simp [grading] at hr
  | succ fuel ih =>
    intro m h hm p q K m' hr
    rw [grading] at hr
    simp only [bind, Except.bind, pure, Except.pure] at hr
    split at hr
    · cases hr
    · rename_i r h1
      have i1 := (gradeSweep_inv h h1).1
      have p1 := gradeSweep_stable hP h hm h1
      split at hr
      · exact ih i1 p1 hr
      · cases hr
        exact p1

/-- a property of cells that children inherit -/
def ChildStable (G : Cell → Prop) : Prop :=
  ∀ (M : Mesh) (c : Cell) (ax : Ax) (ch : Cell), G c → IsChild M c ax ch → G ch

theorem leafwise_stable {G : Cell → Prop} (hG : ChildStable G) :
    BisectStable (fun M => ∀ c ∈ M.leaves, G c) := by
  intro M c ax hM hc l hl
  rcases mem_bisect_imp hl with h1 | hch
  · exact hM l h1
  · exact hG M c ax l (hM c hc) hch

/-! ### dyadically related root sizes -/

/-- the size of `c` is `Ht·2^i / 2^lt × Hx·2^j / 2^lx` for root offsets `i ≤ Bt`, `j ≤ Bx` -/
def CellDy (Ht Hx : Rat) (Bt Bx : Nat) (c : Cell) : Prop :=
  ∃ i j : Nat, i ≤ Bt ∧ j ≤ Bx ∧
    c.t1 - c.t0 = Ht * 2 ^ i / 2 ^ c.lt ∧ c.x1 - c.x0 = Hx * 2 ^ j / 2 ^ c.lx

def DyadicRootsTX (Ht Hx : Rat) (Bt Bx : Nat) (m : Mesh) : Prop :=
  ∀ c ∈ m.leaves, CellDy Ht Hx Bt Bx c

theorem cellDy_childStable (Ht Hx : Rat) (Bt Bx : Nat) : ChildStable (CellDy Ht Hx Bt Bx) := by
  rintro M c ax ch ⟨i, j, hi, hj, hs⟩ hch
  exact ⟨i, j, hi, hj, hch.size hs⟩

theorem dyadicRootsTX_stable (Ht Hx : Rat) (Bt Bx : Nat) :
    BisectStable (DyadicRootsTX Ht Hx Bt Bx) :=
  leafwise_stable (cellDy_childStable Ht Hx Bt Bx)

theorem DyadicRootsTX.mono {Ht Hx : Rat} {Bt Bx Bt' Bx' : Nat} {m : Mesh}
    (h : DyadicRootsTX Ht Hx Bt Bx m) (ht : Bt ≤ Bt') (hx : Bx ≤ Bx') :
    DyadicRootsTX Ht Hx Bt' Bx' m := by
  intro c hc
  obtain ⟨i, j, hi, hj, hs⟩ := h c hc
  exact ⟨i, j, le_trans hi ht, le_trans hj hx, hs⟩

/-! ### the cell invariant -/

/-- `c` lies below a target for the size of its own root; the targets of all cells lie in
`{Lt0, Lt0+1} × {Lx0, Lx0+1}` -/
def Good (p q : Nat) (K : Rat) (Lt0 Lx0 : Nat) (c : Cell) : Prop :=
  ∃ (Ht Hx : Rat) (Lt Lx : Nat),
    (c.t1 - c.t0 = Ht / 2 ^ c.lt ∧ c.x1 - c.x0 = Hx / 2 ^ c.lx) ∧
    (Lt0 ≤ Lt ∧ Lt ≤ Lt0 + 1) ∧ (Lx0 ≤ Lx ∧ Lx ≤ Lx0 + 1) ∧ (c.lt ≤ Lt ∧ c.lx ≤ Lx) ∧
    Target Ht Hx p q K Lt Lx

/-- the mark that triggers a refinement in `ax` -/
def Marked (p q : Nat) (K : Rat) (c : Cell) : Ax → Prop
  | .time => markTime c p q K = true
  | .space => markSpace c p q K = true

theorem Good.under {p q : Nat} {K : Rat} {Lt0 Lx0 : Nat} {c : Cell} (h : Good p q K Lt0 Lx0 c) :
    c.lt ≤ Lt0 + 1 ∧ c.lx ≤ Lx0 + 1 := by
  obtain ⟨Ht, Hx, Lt, Lx, _, h1, h2, h3, _⟩ := h
  omega

/-- a marked cell is at most at the base level in the marked axis -/
theorem Good.level_le {p q : Nat} {K : Rat} {Lt0 Lx0 : Nat} {c : Cell} (h : Good p q K Lt0 Lx0 c)
    {ax : Ax} (hm : Marked p q K c ax) : c.level ax ≤ tgt Lt0 Lx0 ax := by
  obtain ⟨Ht, Hx, Lt, Lx, hs, h1, h2, h3, T⟩ := h
  cases ax
  · have := T.time hs h3 hm
    simp only [Cell.level, tgt]
    omega
  · have := T.space hs h3 hm
    simp only [Cell.level, tgt]
    omega

/-- children of a cell strictly below the base level, and children of a marked cell, are good -/
theorem Good.child {p q : Nat} {K : Rat} {Lt0 Lx0 : Nat} {c : Cell} (h : Good p q K Lt0 Lx0 c)
    {M : Mesh} {ax : Ax} {ch : Cell} (hch : IsChild M c ax ch)
    (hl : c.level ax < tgt Lt0 Lx0 ax ∨ Marked p q K c ax) : Good p q K Lt0 Lx0 ch := by
  obtain ⟨Ht, Hx, Lt, Lx, hs, h1, h2, h3, T⟩ := h
  refine ⟨Ht, Hx, Lt, Lx, hch.size hs, h1, h2, ?_, T⟩
  obtain ⟨ht, hx, _⟩ := hch.levels
  cases ax
  · obtain ⟨e1, e2⟩ := ht rfl
    rcases hl with hl | hm
    · simp only [Cell.level, tgt] at hl
      omega
    · have := T.time hs h3 hm
      omega
  · obtain ⟨e1, e2⟩ := hx rfl
    rcases hl with hl | hm
    · simp only [Cell.level, tgt] at hl
      omega
    · have := T.space hs h3 hm
      omega

/-! ### the state of a sweep and one bisection -/

structure StG (G : Cell → Prop) (Lt Lx : Nat) (m0 : Mesh) (N : Nat) (M : Mesh) : Prop where
  ids : IdsOK M
  good : ∀ c ∈ M.leaves, G c
  fresh : Fresh m0 M
  cnt : m0.nElems ≤ M.nElems
  pot : 2 * pot Lt Lx M + M.nElems = N

theorem bisect_StG {G : Cell → Prop} {Lt Lx : Nat} (hG : ∀ c, G c → c.lt ≤ Lt ∧ c.lx ≤ Lx)
    {m0 : Mesh} {N : Nat} {M : Mesh} (h : StG G Lt Lx m0 N M) {c : Cell} (hc : c ∈ M.leaves) {ax : Ax}
    (hch : ∀ ch, IsChild M c ax ch → G ch) (hl : c.level ax < tgt Lt Lx ax) :
    StG G Lt Lx m0 N (bisect M c ax) := by
  refine ⟨bisect_idsOK h.ids ax, ?_, ?_, ?_, ?_⟩
  · intro l hl'
    rcases mem_bisect_imp hl' with h1 | h1
    · exact h.good l h1
    · exact hch l h1
  · intro l hl'
    rcases mem_bisect_imp hl' with h1 | h1
    · exact h.fresh l h1
    · have := h1.levels.2.2
      have := h.cnt
      right; omega
  · show m0.nElems ≤ M.nElems + 2
    have := h.cnt; omega
  · have := pot_bisect h.ids hc (hG c (h.good c hc)) hl
    have := h.pot
    show 2 * Stbem.Mesh.pot Lt Lx (bisect M c ax) + (M.nElems + 2) = N
    omega

theorem tgt_lt_succ (Lt Lx : Nat) (ax : Ax) : tgt Lt Lx ax < tgt (Lt + 1) (Lx + 1) ax := by
  cases ax <;> simp [tgt]

/-- `refineId` on a marked leaf keeps the state and creates elements -/
theorem refineId_StG {p q : Nat} {K : Rat} {Lt0 Lx0 : Nat} {m0 : Mesh} {N : Nat} {M : Mesh}
    (hinv : Inv M) (h : StG (Good p q K Lt0 Lx0) (Lt0 + 1) (Lx0 + 1) m0 N M) {c : Cell}
    (hc : c ∈ M.leaves) {ax : Ax} (hm : Marked p q K c ax) {M' : Mesh}
    (hr : refineId M c.id ax = .ok M') :
    StG (Good p q K Lt0 Lx0) (Lt0 + 1) (Lx0 + 1) m0 N M' ∧ M.nElems < M'.nElems := by
  obtain ⟨M1, pre, h1⟩ := refineId_trace hinv hc ax
  rw [hr] at h1
  injection h1 with h1
  subst h1
  have hcl : c.level ax ≤ tgt Lt0 Lx0 ax := (h.good c hc).level_le hm
  have hlt := tgt_lt_succ Lt0 Lx0 ax
  have hG : ∀ c, Good p q K Lt0 Lx0 c → c.lt ≤ Lt0 + 1 ∧ c.lx ≤ Lx0 + 1 := fun _ h => h.under
  have h2 : StG (Good p q K Lt0 Lx0) (Lt0 + 1) (Lx0 + 1) m0 N M1 ∧ M.nElems ≤ M1.nElems :=
    pre.bis.pres (fun X => StG (Good p q K Lt0 Lx0) (Lt0 + 1) (Lx0 + 1) m0 N X ∧ M.nElems ≤ X.nElems)
      (fun X d hX hd hdl => ⟨bisect_StG hG hX.1 hd
        (fun ch hch => (hX.1.good d hd).child hch (Or.inl (by omega))) (by omega), by
        have := hX.2
        show M.nElems ≤ X.nElems + 2
        omega⟩) ⟨h, le_refl _⟩
  refine ⟨bisect_StG hG h2.1 pre.mem
    (fun ch hch => (h2.1.good c pre.mem).child hch (Or.inr hm)) (by omega), ?_⟩
  have := h2.2
  show M.nElems < M1.nElems + 2
  omega

/-! ### one sweep, the loop -/

def AllGood (p q : Nat) (K : Rat) (Lt0 Lx0 : Nat) (m : Mesh) : Prop :=
  ∀ c ∈ m.leaves, Good p q K Lt0 Lx0 c

theorem gradeSweep_good {p q : Nat} {K : Rat} {Lt0 Lx0 : Nat} {m : Mesh} (h : Inv m)
    (hg : AllGood p q K Lt0 Lx0 m) :
    ∃ r, gradeSweep true m p q K = .ok r ∧ Inv r.1 ∧
      ((r.2 = false) ∨ (r.2 = true ∧ AllGood p q K Lt0 Lx0 r.1 ∧
        pot (Lt0 + 1) (Lx0 + 1) r.1 < pot (Lt0 + 1) (Lx0 + 1) m)) := by
  set N := 2 * pot (Lt0 + 1) (Lx0 + 1) m + m.nElems with hN
  have hst : StG (Good p q K Lt0 Lx0) (Lt0 + 1) (Lx0 + 1) m N m :=
    ⟨h.ids, hg, fun d hd => Or.inl hd, le_refl _, rfl⟩
  obtain ⟨r, h1, i1, _, fin⟩ := gradeSweep_ok_gen
    (fun M => StG (Good p q K Lt0 Lx0) (Lt0 + 1) (Lx0 + 1) m N M)
    (fun M => StG (Good p q K Lt0 Lx0) (Lt0 + 1) (Lx0 + 1) m N M ∧ m.nElems < M.nElems)
    (fun c => Marked p q K c .time) (fun c => Marked p q K c .space) m p q K
    (fun M c M' hM hj hc hgd hr => by
      obtain ⟨s, lt⟩ := refineId_StG hM hj hc (ax := .time) hgd hr
      exact ⟨s, lt_of_le_of_lt hj.cnt lt⟩)
    (fun M c M' hM hj hc hgd hr => by
      obtain ⟨s, lt⟩ := refineId_StG hM hj hc (ax := .space) hgd hr
      exact ⟨s, lt_of_le_of_lt hj.cnt lt⟩)
    (fun _ hj => hj.1)
    (fun c _ hm => hm)
    (fun M c c' hM hj hc hm hf => by
      obtain ⟨hc', hid⟩ := findLeaf_some hf
      have hlt : c'.id < m.nElems := hid ▸ h.ids.2 c hc
      rcases hj.fresh c' hc' with hold | hnew
      · have : c' = c := h.ids.id_inj hold hc hid
        subst this
        exact hm
      · omega)
    h hst
  refine ⟨r, h1, i1, ?_⟩
  rcases fin with ⟨e, _⟩ | ⟨e, hj, hlt⟩
  · exact Or.inl e
  · refine Or.inr ⟨e, hj.good, ?_⟩
    have := hj.pot
    omega

/-- the repaired grading loop terminates once the fuel exceeds the potential -/
theorem grading_terminates_of_good {p q : Nat} {K : Rat} {Lt0 Lx0 : Nat} (fuel : Nat) :
    ∀ {m : Mesh}, Inv m → AllGood p q K Lt0 Lx0 m → pot (Lt0 + 1) (Lx0 + 1) m < fuel →
      ∃ m', grading true fuel m p q K = .ok m' := by
  induction fuel with
  | zero => intro m _ _ h; omega
  | succ fuel ih =>
    intro m h hg hp
    obtain ⟨r, h1, i1, fin⟩ := gradeSweep_good h hg
    rw [grading]
    simp only [bind, Except.bind, pure, Except.pure, h1]
    rcases fin with e | ⟨e, g1, p1⟩
    · rw [e]
      exact ⟨r.1, by simp⟩
    · rw [e]
      simp only [if_true]
      exact ih i1 g1 (by omega)

/-! ### existence of the targets -/

/-- two-sided version of the level search in `exists_target` -/
theorem exists_levels {a b c d : Rat} (_ha : 0 < a) (hb : 0 < b) (hc : 0 < c) (hd : 0 < d) {p q : Nat}
    (hp : 1 ≤ p) (hq : 1 ≤ q) (h : a * c * 2 ^ q < b * d) (A B : Nat) :
    ∃ Lt Lx, A ≤ Lt ∧ B ≤ Lx ∧ a * 2 ^ (Lx * p) < b * 2 ^ (Lt * q) ∧
      c * 2 ^ (Lt * q) < d * 2 ^ (Lx * p) := by
  obtain ⟨Lx, hLx, hX⟩ := exists_two_pow_gt (c * 2 ^ (A * q) / d) B hp
  rw [div_lt_iff₀ hd] at hX
  have hex : ∃ j, a * 2 ^ (Lx * p) < b * 2 ^ ((A + j) * q) := by
    obtain ⟨j, _, hj⟩ := exists_two_pow_gt (a * 2 ^ (Lx * p) / b) 0 hq
    rw [div_lt_iff₀ hb] at hj
    refine ⟨j, ?_⟩
    have h3 : (2 : Rat) ^ (j * q) ≤ (2 : Rat) ^ ((A + j) * q) :=
      pow_le_pow_right₀ (by norm_num) (Nat.mul_le_mul_right _ (Nat.le_add_left _ _))
    have h4 : 2 ^ (j * q) * b ≤ 2 ^ ((A + j) * q) * b := mul_le_mul_of_nonneg_right h3 hb.le
    linarith
  classical
  have hfind := Nat.find_spec hex
  have hmin := fun j => Nat.find_min hex (m := j)
  generalize Nat.find hex = j at hfind hmin
  refine ⟨A + j, Lx, Nat.le_add_right _ _, hLx, hfind, ?_⟩
  cases j with
  | zero => simpa [mul_comm] using hX
  | succ j =>
    have hprev := hmin j (Nat.lt_succ_self _)
    rw [not_lt] at hprev
    have e : (2 : Rat) ^ ((A + (j + 1)) * q) = 2 ^ ((A + j) * q) * 2 ^ q := by
      rw [← pow_add]; congr 1; ring
    rw [e]
    have hpos : (0 : Rat) < 2 ^ (Lx * p) := by positivity
    have s1 : b * 2 ^ ((A + j) * q) * (c * 2 ^ q) ≤ a * 2 ^ (Lx * p) * (c * 2 ^ q) :=
      mul_le_mul_of_nonneg_right hprev (by positivity)
    have s2 : a * c * 2 ^ q * 2 ^ (Lx * p) < b * d * 2 ^ (Lx * p) :=
      mul_lt_mul_of_pos_right h hpos
    have s3 : b * (c * (2 ^ ((A + j) * q) * 2 ^ q)) < b * (d * 2 ^ (Lx * p)) := by linarith
    exact lt_of_mul_lt_mul_left s3 hb.le

/-- from base levels that fit the extreme root sizes with one level of slack, a target for every
admissible root size next to the base levels -/
theorem class_target {Ht Hx K : Rat} (hHt : 0 < Ht) (hHx : 0 < Hx) (hK : 0 < K) {p q : Nat}
    (hKq : (2 : Rat) ^ q < K ^ q * K ^ q) (hKp : (2 : Rat) ^ p < K ^ q * K ^ q)
    {Bt Bx Lt0 Lx0 : Nat}
    (B1 : Ht ^ q * 2 ^ (q * Bt) * 2 ^ (Lx0 * p) < Hx ^ p * K ^ q * 2 ^ q * 2 ^ (Lt0 * q))
    (B2 : Hx ^ p * 2 ^ (p * Bx) * 2 ^ (Lt0 * q) < K ^ q * Ht ^ q * 2 ^ p * 2 ^ (Lx0 * p))
    {i j : Nat} (hi : i ≤ Bt) (hj : j ≤ Bx) :
    ∃ Lt Lx, (Lt0 ≤ Lt ∧ Lt ≤ Lt0 + 1) ∧ (Lx0 ≤ Lx ∧ Lx ≤ Lx0 + 1) ∧
      Target (Ht * 2 ^ i) (Hx * 2 ^ j) p q K Lt Lx := by
  have hHt' : 0 < Ht * 2 ^ i := by positivity
  have hHx' : 0 < Hx * 2 ^ j := by positivity
  have hkq : 0 < K ^ q := by positivity
  set P := (Ht * 2 ^ i) ^ q * 2 ^ (Lx0 * p) with hP
  set Q := (Hx * 2 ^ j) ^ p * 2 ^ (Lt0 * q) with hQ
  have hPpos : 0 < P := by positivity
  have hQpos : 0 < Q := by positivity
  -- the two extreme estimates
  have e1 : (Ht * 2 ^ i) ^ q ≤ Ht ^ q * 2 ^ (q * Bt) := by
    rw [mul_pow, ← pow_mul]
    exact mul_le_mul_of_nonneg_left
      (pow_le_pow_right₀ (by norm_num) (by rw [Nat.mul_comm]; exact Nat.mul_le_mul_left _ hi))
      (by positivity)
  have e2 : Hx ^ p ≤ (Hx * 2 ^ j) ^ p :=
    pow_le_pow_left₀ hHx.le (le_mul_of_one_le_right hHx.le (one_le_pow₀ (by norm_num))) p
  have e3 : (Hx * 2 ^ j) ^ p ≤ Hx ^ p * 2 ^ (p * Bx) := by
    rw [mul_pow, ← pow_mul]
    exact mul_le_mul_of_nonneg_left
      (pow_le_pow_right₀ (by norm_num) (by rw [Nat.mul_comm]; exact Nat.mul_le_mul_left _ hj))
      (by positivity)
  have e4 : Ht ^ q ≤ (Ht * 2 ^ i) ^ q :=
    pow_le_pow_left₀ hHt.le (le_mul_of_one_le_right hHt.le (one_le_pow₀ (by norm_num))) q
  have f1 : P < Q * K ^ q * 2 ^ q := by
    have a1 : P ≤ Ht ^ q * 2 ^ (q * Bt) * 2 ^ (Lx0 * p) :=
      mul_le_mul_of_nonneg_right e1 (by positivity)
    have a2 : Hx ^ p * K ^ q * 2 ^ q * 2 ^ (Lt0 * q) ≤ (Hx * 2 ^ j) ^ p * K ^ q * 2 ^ q * 2 ^ (Lt0 * q) := by
      have : Hx ^ p * (K ^ q * 2 ^ q * 2 ^ (Lt0 * q)) ≤ (Hx * 2 ^ j) ^ p * (K ^ q * 2 ^ q * 2 ^ (Lt0 * q)) :=
        mul_le_mul_of_nonneg_right e2 (by positivity)
      linarith
    have a3 : (Hx * 2 ^ j) ^ p * K ^ q * 2 ^ q * 2 ^ (Lt0 * q) = Q * K ^ q * 2 ^ q := by
      rw [hQ]; ring
    linarith
  have f2 : Q < K ^ q * 2 ^ p * P := by
    have a1 : Q ≤ Hx ^ p * 2 ^ (p * Bx) * 2 ^ (Lt0 * q) :=
      mul_le_mul_of_nonneg_right e3 (by positivity)
    have a2 : K ^ q * Ht ^ q * 2 ^ p * 2 ^ (Lx0 * p) ≤ K ^ q * (Ht * 2 ^ i) ^ q * 2 ^ p * 2 ^ (Lx0 * p) := by
      have : Ht ^ q * (K ^ q * 2 ^ p * 2 ^ (Lx0 * p)) ≤ (Ht * 2 ^ i) ^ q * (K ^ q * 2 ^ p * 2 ^ (Lx0 * p)) :=
        mul_le_mul_of_nonneg_right e4 (by positivity)
      linarith
    have a3 : K ^ q * (Ht * 2 ^ i) ^ q * 2 ^ p * 2 ^ (Lx0 * p) = K ^ q * 2 ^ p * P := by
      rw [hP]; ring
    linarith
  have s1 : (2 : Rat) ^ ((Lt0 + 1) * q) = 2 ^ (Lt0 * q) * 2 ^ q := by
    rw [← pow_add]; congr 1; ring
  have s2 : (2 : Rat) ^ ((Lx0 + 1) * p) = 2 ^ (Lx0 * p) * 2 ^ p := by
    rw [← pow_add]; congr 1; ring
  rcases lt_or_ge P (Q * K ^ q) with c1 | c1
  · rcases lt_or_ge Q (K ^ q * P) with c2 | c2
    · -- the base levels themselves
      refine ⟨Lt0, Lx0, ⟨le_refl _, Nat.le_succ _⟩, ⟨le_refl _, Nat.le_succ _⟩,
        target_of_cross hHt' hHx' hK ?_ ?_⟩
      · exact c1
      · rw [hP] at c2; linarith
    · -- one more level in space
      refine ⟨Lt0, Lx0 + 1, ⟨le_refl _, Nat.le_succ _⟩, ⟨Nat.le_succ _, le_refl _⟩,
        target_of_cross hHt' hHx' hK ?_ ?_⟩
      · rw [s2]
        have t1 : K ^ q * P * 2 ^ p ≤ Q * 2 ^ p := mul_le_mul_of_nonneg_right c2 (by positivity)
        have t2 : Q * 2 ^ p < Q * (K ^ q * K ^ q) := mul_lt_mul_of_pos_left hKp hQpos
        have t3 : K ^ q * (P * 2 ^ p) < K ^ q * (Q * K ^ q) := by linarith
        have := lt_of_mul_lt_mul_left t3 hkq.le
        rw [hP] at this
        linarith
      · rw [s2]
        rw [hP] at f2
        linarith
  · -- one more level in time
    refine ⟨Lt0 + 1, Lx0, ⟨Nat.le_succ _, le_refl _⟩, ⟨le_refl _, Nat.le_succ _⟩,
      target_of_cross hHt' hHx' hK ?_ ?_⟩
    · rw [s1]
      rw [hQ] at f1
      linarith
    · rw [s1]
      have t1 : Q * K ^ q * 2 ^ q ≤ P * 2 ^ q := mul_le_mul_of_nonneg_right c1 (by positivity)
      have t2 : P * 2 ^ q < P * (K ^ q * K ^ q) := mul_lt_mul_of_pos_left hKq hPpos
      have t3 : K ^ q * (Q * 2 ^ q) < K ^ q * (K ^ q * P) := by linarith
      have := lt_of_mul_lt_mul_left t3 hkq.le
      rw [hQ, hP] at this
      linarith

/-- base levels above given bounds such that every leaf with admissible root offsets is `Good` -/
theorem exists_good {Ht Hx K : Rat} (hHt : 0 < Ht) (hHx : 0 < Hx) (hK : 0 < K) {p q : Nat}
    (hp : 1 ≤ p) (hq : 1 ≤ q) (hK2 : 2 < K * K) (hKp : (2 : Rat) ^ p < K ^ q * K ^ q)
    {Bt Bx : Nat} (hKB : (2 : Rat) ^ (q * Bt + p * Bx) < K ^ q * K ^ q * 2 ^ p) (A B : Nat) :
    ∃ Lt0 Lx0, A ≤ Lt0 ∧ B ≤ Lx0 ∧ ∀ c : Cell, c.lt ≤ A → c.lx ≤ B → CellDy Ht Hx Bt Bx c →
      Good p q K Lt0 Lx0 c := by
  have hKq : (2 : Rat) ^ q < K ^ q * K ^ q := by
    rw [← mul_pow]
    exact pow_lt_pow_left₀ hK2 (by norm_num) (by omega)
  obtain ⟨Lt0, Lx0, hA, hB, B1, B2⟩ := exists_levels (a := Ht ^ q * 2 ^ (q * Bt))
    (b := Hx ^ p * K ^ q * 2 ^ q) (c := Hx ^ p * 2 ^ (p * Bx)) (d := K ^ q * Ht ^ q * 2 ^ p)
    (by positivity) (by positivity) (by positivity) (by positivity) hp hq (by
      have hX : 0 < Ht ^ q * Hx ^ p * 2 ^ q := by positivity
      have := mul_lt_mul_of_pos_left hKB hX
      rw [pow_add] at this
      linarith) A B
  refine ⟨Lt0, Lx0, hA, hB, ?_⟩
  rintro c hcA hcB ⟨i, j, hi, hj, hs⟩
  obtain ⟨Lt, Lx, h1, h2, T⟩ := class_target hHt hHx hK hKq hKp B1 B2 hi hj
  exact ⟨Ht * 2 ^ i, Hx * 2 ^ j, Lt, Lx, hs, h1, h2, ⟨by omega, by omega⟩, T⟩

/-- **Termination** for dyadically related root sizes, general `K` -/
theorem grading_terminates_dyadic' {m : Mesh} (h : Inv m) {Ht Hx : Rat} (hHt : 0 < Ht) (hHx : 0 < Hx)
    {Bt Bx : Nat} (hd : DyadicRootsTX Ht Hx Bt Bx m) {p q : Nat} (hp : 1 ≤ p) (hq : 1 ≤ q) {K : Rat}
    (hK : 0 < K) (hK2 : 2 < K * K) (hKp : (2 : Rat) ^ p < K ^ q * K ^ q)
    (hKB : (2 : Rat) ^ (q * Bt + p * Bx) < K ^ q * K ^ q * 2 ^ p) :
    ∃ fuel m', grading true fuel m p q K = .ok m' := by
  obtain ⟨A, hA⟩ := exists_bound (fun c => c.lt) m.leaves
  obtain ⟨B, hB⟩ := exists_bound (fun c => c.lx) m.leaves
  obtain ⟨Lt0, Lx0, _, _, hg⟩ := exists_good hHt hHx hK hp hq hK2 hKp hKB A B
  have hgood : AllGood p q K Lt0 Lx0 m := fun c hc => hg c (hA c hc) (hB c hc) (hd c hc)
  exact ⟨pot (Lt0 + 1) (Lx0 + 1) m + 1, grading_terminates_of_good _ h hgood (Nat.lt_succ_self _)⟩

/-! ### the initial mesh over dyadically related grids -/

/-- all consecutive differences are `H·2^i`, `i ≤ B` -/
def DyadicGrid (H : Rat) (B : Nat) (X : List Rat) : Prop :=
  ∀ p ∈ pairs X, ∃ i : Nat, i ≤ B ∧ p.2 - p.1 = H * 2 ^ i

theorem init_dyadic (glue : Bool) {X T : List Rat} {Ht Hx : Rat} {Bt Bx : Nat}
    (hX : DyadicGrid Hx Bx X) (hT : DyadicGrid Ht Bt T) :
    DyadicRootsTX Ht Hx Bt Bx (init glue X T) := by
  intro c hc
  have hleaves : (init glue X T).leaves =
      init.number 0 ((pairs T).flatMap fun tp => (pairs X).map fun xp => (tp, xp)) := rfl
  rw [hleaves] at hc
  obtain ⟨q, hq, j, rfl, _, _⟩ := number_mem hc
  simp only [List.mem_flatMap, List.mem_map] at hq
  obtain ⟨tp, htp, xp, hxp, rfl⟩ := hq
  obtain ⟨i, hi, ei⟩ := hT tp htp
  obtain ⟨k, hk, ek⟩ := hX xp hxp
  refine ⟨i, k, hi, hk, ?_, ?_⟩
  · simp only [mkCell, pow_zero, div_one]; exact ei
  · simp only [mkCell, pow_zero, div_one]; exact ek

end Stbem.Mesh
