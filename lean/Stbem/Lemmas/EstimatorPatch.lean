import Stbem.Model.Estimator
import Stbem.Lemmas.MeshGeom
import Mathlib.Order.Monotone.Basic
import Mathlib.Data.List.Count

/-!
# The patches of `sobolev_space` / `sobolev_time` on a mesh with the invariant `Inv`
-/
namespace Stbem.Estimator
open Stbem.Mesh

/-! ### time overlap -/

theorem ovT_lt {c n : Cell} (h : OvT c n) : max n.t0 c.t0 < min n.t1 c.t1 := by
  obtain ⟨h1, h2, h3, h4⟩ := h
  rw [max_lt_iff, lt_min_iff, lt_min_iff]
  exact ⟨⟨h4, h3⟩, ⟨h2, h1⟩⟩

theorem ovX_lt {c n : Cell} (h : OvX c n) : max n.x0 c.x0 < min n.x1 c.x1 := by
  obtain ⟨h1, h2, h3, h4⟩ := h
  rw [max_lt_iff, lt_min_iff, lt_min_iff]
  exact ⟨⟨h4, h3⟩, ⟨h2, h1⟩⟩

/-! ### `spacePatch` with the first assertion discharged -/

theorem spacePatch_of_lt (L : Rat) (e n : Cell) (hlt : max n.t0 e.t0 < min n.t1 e.t1) :
    spacePatch L e n =
      if n.x1 = L ∧ e.x0 = 0 then .ok ⟨max n.t0 e.t0, min n.t1 e.t1, n, some e⟩
      else if e.x1 = L ∧ n.x0 = 0 then .ok ⟨max n.t0 e.t0, min n.t1 e.t1, e, some n⟩
      else if e.x0 < n.x0 then .ok ⟨max n.t0 e.t0, min n.t1 e.t1, e, some n⟩
      else if n.x0 < e.x0 then .ok ⟨max n.t0 e.t0, min n.t1 e.t1, n, some e⟩
      else if n.id = e.id then .ok ⟨max n.t0 e.t0, min n.t1 e.t1, e, none⟩
      else .error "assert:time_nbr-is-elem" := by
  unfold spacePatch
  dsimp only
  rw [if_neg (not_not_intro hlt)]

/-- the own term of an element that is not the whole curve -/
theorem spacePatch_self (L : Rat) (c : Cell) (hp : c.t0 < c.t1) (hw : ¬ (c.x1 = L ∧ c.x0 = 0)) :
    spacePatch L c c = .ok ⟨c.t0, c.t1, c, none⟩ := by
  rw [spacePatch_of_lt L c c (by simpa using hp), if_neg hw, if_neg hw, if_neg (lt_irrefl _),
    if_neg (lt_irrefl _), if_pos rfl]
  simp

/-- the own term of an element that is the whole curve (one-element-wide glued mesh) -/
theorem spacePatch_self_full (L : Rat) (c : Cell) (hp : c.t0 < c.t1) (hw : c.x1 = L ∧ c.x0 = 0) :
    spacePatch L c c = .ok ⟨c.t0, c.t1, c, some c⟩ := by
  rw [spacePatch_of_lt L c c (by simpa using hp), if_pos hw]
  simp

/-! ### left / right assignment for a pair of distinct neighbouring leaves -/

/-- two distinct leaves that overlap in time cannot both span the whole curve -/
theorem not_both_full {m : Mesh} (h : Inv m) {c n : Cell} (hc : c ∈ m.leaves) (hn : n ∈ m.leaves)
    (hne : n ≠ c) (hov : OvT c n) {L : Rat} (hL : 0 < L) :
    ¬ ((n.x1 = L ∧ c.x0 = 0) ∧ (c.x1 = L ∧ n.x0 = 0)) := by
  rintro ⟨⟨h1, h2⟩, ⟨h3, h4⟩⟩
  obtain ⟨t, t1, t2, t3, t4⟩ := hov.point
  exact hne (h.tiles.disjoint c hc n hn t 0 ⟨t1, t2, by linarith, by linarith⟩
    ⟨t3, t4, by linarith, by linarith⟩).symm

/-- `sobolev_space` on a pair of neighbouring leaves `c` (the element) and `n ≠ c` (its neighbour across
the side `x = x1` or `x = x0`, possibly through the seam): no assertion fires, the common time interval
is handed over, and `right` is the neighbour of `left` across the side `x = left.x1` -/
theorem spacePatch_nbr {m : Mesh} (h : Inv m) (hg : m.glue = true) {L : Rat} (h0 : m.xmin = 0) (hL : m.xmax = L)
    {c n : Cell} (hc : c ∈ m.leaves) (hn : n ∈ m.leaves) (hne : n ≠ c)
    (hadj : Adj m c .right n ∨ Adj m c .left n) :
    ∃ l r, spacePatch L c n = .ok ⟨max n.t0 c.t0, min n.t1 c.t1, l, some r⟩ ∧
      ((l = c ∧ r = n) ∨ (l = n ∧ r = c)) ∧ Adj m l .right r := by
  have hLpos : 0 < L := by rw [← hL, ← h0]; exact h.dom.2
  obtain ⟨pc1, pc2⟩ := h.tiles.proper c hc
  obtain ⟨pn1, pn2⟩ := h.tiles.proper n hn
  have hov : OvT c n := by
    rcases hadj with a | a <;> exact a.2
  have hnb := not_both_full h hc hn hne hov hLpos
  rw [spacePatch_of_lt L c n (ovT_lt hov)]
  rcases hadj with ⟨hx, _⟩ | ⟨hx, _⟩
  · -- `n` across `x = c.x1`
    rcases hx with hx | ⟨_, hx1, hx2⟩
    · by_cases hA : n.x1 = L ∧ c.x0 = 0
      · refine ⟨n, c, by rw [if_pos hA], Or.inr ⟨rfl, rfl⟩, ?_⟩
        exact ⟨Or.inr ⟨hg, by rw [hL]; exact hA.1, by rw [h0]; exact hA.2⟩, hov.symm⟩
      · have hB : ¬ (c.x1 = L ∧ n.x0 = 0) := by
          rintro ⟨b1, b2⟩; rw [hx, b1] at b2; linarith
        refine ⟨c, n, by rw [if_neg hA, if_neg hB, if_pos (by rw [hx]; exact pc2)], Or.inl ⟨rfl, rfl⟩, ?_⟩
        exact ⟨Or.inl hx, hov⟩
    · have hB : c.x1 = L ∧ n.x0 = 0 := ⟨by rw [hx1, hL], by rw [hx2, h0]⟩
      have hA : ¬ (n.x1 = L ∧ c.x0 = 0) := fun hA => hnb ⟨hA, hB⟩
      refine ⟨c, n, by rw [if_neg hA, if_pos hB], Or.inl ⟨rfl, rfl⟩, ?_⟩
      exact ⟨Or.inr ⟨hg, hx1, hx2⟩, hov⟩
  · -- `n` across `x = c.x0`
    rcases hx with hx | ⟨_, hx1, hx2⟩
    · have hA : ¬ (n.x1 = L ∧ c.x0 = 0) := by
        rintro ⟨a1, a2⟩; rw [hx, a2] at a1; linarith
      by_cases hB : c.x1 = L ∧ n.x0 = 0
      · refine ⟨c, n, by rw [if_neg hA, if_pos hB], Or.inl ⟨rfl, rfl⟩, ?_⟩
        exact ⟨Or.inr ⟨hg, by rw [hL]; exact hB.1, by rw [h0]; exact hB.2⟩, hov⟩
      · have h3 : ¬ c.x0 < n.x0 := by rw [← hx]; exact not_lt.mpr (le_of_lt pn2)
        have h4 : n.x0 < c.x0 := by rw [← hx]; exact pn2
        refine ⟨n, c, by rw [if_neg hA, if_neg hB, if_neg h3, if_pos h4], Or.inr ⟨rfl, rfl⟩, ?_⟩
        exact ⟨Or.inl hx.symm, hov.symm⟩
    · have hA : n.x1 = L ∧ c.x0 = 0 := ⟨by rw [hx2, hL], by rw [hx1, h0]⟩
      refine ⟨n, c, by rw [if_pos hA], Or.inr ⟨rfl, rfl⟩, ?_⟩
      exact ⟨Or.inr ⟨hg, hx2, hx1⟩, hov.symm⟩

/-! ### symmetry of the patch in its two elements -/

theorem spacePatch_symm (L : Rat) (a b : Cell) (hid : a.id = b.id → a = b)
    (hfull : ¬ ((b.x1 = L ∧ a.x0 = 0) ∧ (a.x1 = L ∧ b.x0 = 0)) ∨ a = b) :
    spacePatch L a b = spacePatch L b a := by
  by_cases hab : a = b
  · rw [hab]
  have hfull : ¬ ((b.x1 = L ∧ a.x0 = 0) ∧ (a.x1 = L ∧ b.x0 = 0)) := by
    rcases hfull with h | h
    · exact h
    · exact absurd h hab
  unfold spacePatch
  dsimp only
  rw [max_comm a.t0 b.t0, min_comm a.t1 b.t1]
  by_cases hlt : max b.t0 a.t0 < min b.t1 a.t1
  · rw [if_neg (not_not_intro hlt), if_neg (not_not_intro hlt)]
    by_cases hA : b.x1 = L ∧ a.x0 = 0
    · have hB : ¬ (a.x1 = L ∧ b.x0 = 0) := fun hB => hfull ⟨hA, hB⟩
      rw [if_pos hA, if_neg hB, if_pos hA]
    · rw [if_neg hA]
      by_cases hB : a.x1 = L ∧ b.x0 = 0
      · rw [if_pos hB, if_pos hB]
      · rw [if_neg hB, if_neg hB, if_neg hA]
        by_cases h3 : a.x0 < b.x0
        · rw [if_pos h3, if_neg (not_lt.mpr (le_of_lt h3)), if_pos h3]
        · rw [if_neg h3]
          by_cases h4 : b.x0 < a.x0
          · rw [if_pos h4, if_pos h4]
          · have hne : ¬ b.id = a.id := fun e => hab (hid e.symm)
            have hne' : ¬ a.id = b.id := fun e => hab (hid e)
            rw [if_neg h4, if_neg h4, if_neg h3, if_neg hne, if_neg hne']
  · rw [if_pos hlt, if_pos hlt]

theorem timePatch_symm (a b : Cell) : timePatch a b = timePatch b a := by
  unfold timePatch
  dsimp only
  by_cases hp : a.piece = b.piece
  · rw [if_neg (not_not_intro hp), if_neg (not_not_intro hp.symm), max_comm b.x0 a.x0, min_comm b.x1 a.x1,
      min_comm b.t0 a.t0, max_comm b.t1 a.t1, hp]
  · rw [if_pos hp, if_pos (fun e => hp e.symm)]

/-! ### the pieces of the parametrisation -/

/-- every leaf lies inside the parameter interval `[brk i, brk (i + 1)]` of its piece `i` -/
def PiecesOK (brk : Nat → Rat) (m : Mesh) : Prop :=
  (∀ i, brk i < brk (i + 1)) ∧ ∀ c ∈ m.leaves, brk c.piece ≤ c.x0 ∧ c.x1 ≤ brk (c.piece + 1)

theorem PiecesOK.same {brk : Nat → Rat} {m : Mesh} (hb : PiecesOK brk m) {c n : Cell} (hc : c ∈ m.leaves)
    (hn : n ∈ m.leaves) (hov : OvX c n) : c.piece = n.piece := by
  have hmono : StrictMono brk := strictMono_nat_of_lt_succ hb.1
  obtain ⟨c1, c2⟩ := hb.2 c hc
  obtain ⟨n1, n2⟩ := hb.2 n hn
  obtain ⟨o1, o2, o3, o4⟩ := hov
  have h1 : brk c.piece < brk (n.piece + 1) := by linarith
  have h2 : brk n.piece < brk (c.piece + 1) := by linarith
  have := hmono.lt_iff_lt.mp h1
  have := hmono.lt_iff_lt.mp h2
  omega

/-- `sobolev_time` on a pair of leaves that overlap in space and lie on the same piece -/
theorem timePatch_of {c n : Cell} (hov : OvX c n) (hp : c.piece = n.piece) :
    timePatch c n = .ok ⟨min n.t0 c.t0, max n.t1 c.t1, max n.x0 c.x0, min n.x1 c.x1, c.piece⟩ := by
  unfold timePatch
  dsimp only
  rw [if_neg (not_not_intro hp), if_neg (not_not_intro (ovX_lt hov))]

/-! ### the neighbour lists are count-symmetric -/

theorem count_nbrs {m : Mesh} (hi : IdsOK m) (a b : Cell) (s : Side) :
    (nbrs m a s).count b = if b ∈ nbrs m a s then 1 else 0 := by
  by_cases h : b ∈ nbrs m a s
  · rw [if_pos h, List.count_eq_one_of_mem (nbrs_nodup hi a s) h]
  · rw [if_neg h, List.count_eq_zero_of_not_mem h]

theorem mem_nbrs_opp {m : Mesh} {a b : Cell} {s : Side} (ha : a ∈ m.leaves) (hb : b ∈ m.leaves) :
    b ∈ nbrs m a s ↔ a ∈ nbrs m b s.opp := by
  rw [mem_nbrs, mem_nbrs]
  constructor
  · rintro ⟨_, h⟩; exact ⟨ha, h.symm⟩
  · rintro ⟨_, h⟩
    have := h.symm
    have e : s.opp.opp = s := by cases s <;> rfl
    rw [e] at this
    exact ⟨hb, this⟩

theorem count_nbrs_symm {m : Mesh} (hi : IdsOK m) {a b : Cell} (ha : a ∈ m.leaves) (hb : b ∈ m.leaves)
    (s : Side) : (nbrs m a s).count b = (nbrs m b s.opp).count a := by
  rw [count_nbrs hi, count_nbrs hi]
  by_cases h : b ∈ nbrs m a s
  · rw [if_pos h, if_pos ((mem_nbrs_opp ha hb).mp h)]
  · rw [if_neg h, if_neg (fun h' => h ((mem_nbrs_opp ha hb).mpr h'))]

theorem count_cons_self_symm (a b : Cell) : ([a].count b) = ([b].count a) := by
  by_cases h : a = b
  · rw [h]
  · have h1 : (a == b) = false := by simpa using h
    have h2 : (b == a) = false := by simpa using fun e : b = a => h e.symm
    simp [List.count_cons, h1, h2]

theorem count_spaceNbrs_symm {m : Mesh} (hi : IdsOK m) {a b : Cell} (ha : a ∈ m.leaves) (hb : b ∈ m.leaves) :
    (spaceNbrs m a).count b = (spaceNbrs m b).count a := by
  have e : ∀ c : Cell, spaceNbrs m c = [c] ++ (nbrs m c .right ++ nbrs m c .left) := fun _ => rfl
  rw [e a, e b, List.count_append, List.count_append, List.count_append, List.count_append,
    count_nbrs_symm hi ha hb .right, count_nbrs_symm hi ha hb .left, count_cons_self_symm a b]
  simp only [Side.opp]
  omega

theorem count_timeNbrs_symm {m : Mesh} (hi : IdsOK m) {a b : Cell} (ha : a ∈ m.leaves) (hb : b ∈ m.leaves) :
    (timeNbrs m a).count b = (timeNbrs m b).count a := by
  have e : ∀ c : Cell, timeNbrs m c = [c] ++ (nbrs m c .bottom ++ nbrs m c .top) := fun _ => rfl
  rw [e a, e b, List.count_append, List.count_append, List.count_append, List.count_append,
    count_nbrs_symm hi ha hb .bottom, count_nbrs_symm hi ha hb .top, count_cons_self_symm a b]
  simp only [Side.opp]
  omega

end Stbem.Estimator
