import Stbem.Lemmas.EstimBasic

/-!
# The virtual quartering, the sign patterns and the hierarchical indicators
-/
namespace Stbem.Estim
open Stbem.Gen.Consts

/-- half-open membership in a rectangle -/
def Rect.Contains (r : Rect) (t x : Rat) : Prop := r.t0 ≤ t ∧ t < r.t1 ∧ r.x0 ≤ x ∧ x < r.x1

def Rect.Proper (r : Rect) : Prop := r.t0 < r.t1 ∧ r.x0 < r.x1

def Rect.Sub (q r : Rect) : Prop := r.t0 ≤ q.t0 ∧ q.t1 ≤ r.t1 ∧ r.x0 ≤ q.x0 ∧ q.x1 ≤ r.x1

def Rect.tm (r : Rect) : Rat := (r.t0 + r.t1) / 2
def Rect.xm (r : Rect) : Rat := (r.x0 + r.x1) / 2

/-- the four quadrants: lower/upper half in time × left/right half in space -/
def Rect.LL (r : Rect) : Rect := ⟨r.t0, r.tm, r.x0, r.xm⟩
def Rect.LR (r : Rect) : Rect := ⟨r.t0, r.tm, r.xm, r.x1⟩
def Rect.UL (r : Rect) : Rect := ⟨r.tm, r.t1, r.x0, r.xm⟩
def Rect.UR (r : Rect) : Rect := ⟨r.tm, r.t1, r.xm, r.x1⟩

theorem quarters_eq (r : Rect) : quarters r = [r.LL, r.LR, r.UL, r.UR] := by
  simp only [quarters, childBoxes, List.map_cons, List.map_nil, childOf, lerp, Rect.LL, Rect.LR, Rect.UL,
    Rect.UR, Rect.tm, Rect.xm]
  refine congrArg₂ _ ?_ (congrArg₂ _ ?_ (congrArg₂ _ ?_ (congrArg₂ _ ?_ rfl))) <;>
    (congr 1 <;> ring)

theorem quarters_length (r : Rect) : (quarters r).length = 4 := by rw [quarters_eq]; rfl

theorem nKids_eq : nKids = 4 := rfl

theorem quarters_length' (r : Rect) : (quarters r).length = nKids := quarters_length r

/-- the four children are non-degenerate sub-rectangles -/
theorem quarters_sub (r : Rect) (hp : r.Proper) : ∀ q ∈ quarters r, q.Proper ∧ q.Sub r := by
  obtain ⟨h1, h2⟩ := hp
  intro q hq
  rw [quarters_eq] at hq
  simp only [List.mem_cons, List.not_mem_nil, or_false] at hq
  rcases hq with rfl | rfl | rfl | rfl <;>
    simp only [Rect.Proper, Rect.Sub, Rect.LL, Rect.LR, Rect.UL, Rect.UR, Rect.tm, Rect.xm] <;>
    refine ⟨⟨?_, ?_⟩, ?_, ?_, ?_, ?_⟩ <;> linarith

/-- every point of the parent lies in a child, and only points of the parent do -/
theorem quarters_cover (r : Rect) (t x : Rat) :
    r.Contains t x ↔ ∃ q ∈ quarters r, q.Contains t x := by
  rw [quarters_eq]
  simp only [List.mem_cons, List.not_mem_nil, or_false, exists_eq_or_imp, exists_eq_left, Rect.Contains,
    Rect.LL, Rect.LR, Rect.UL, Rect.UR, Rect.tm, Rect.xm]
  constructor
  · rintro ⟨a, b, c, d⟩
    by_cases ht : t < (r.t0 + r.t1) / 2 <;> by_cases hx : x < (r.x0 + r.x1) / 2
    · exact Or.inl ⟨a, ht, c, hx⟩
    · exact Or.inr (Or.inl ⟨a, ht, not_lt.mp hx, d⟩)
    · exact Or.inr (Or.inr (Or.inl ⟨not_lt.mp ht, b, c, hx⟩))
    · exact Or.inr (Or.inr (Or.inr ⟨not_lt.mp ht, b, not_lt.mp hx, d⟩))
  · rintro (⟨a, b, c, d⟩ | ⟨a, b, c, d⟩ | ⟨a, b, c, d⟩ | ⟨a, b, c, d⟩) <;>
      refine ⟨?_, ?_, ?_, ?_⟩ <;> linarith

/-- no point lies in two different children -/
theorem quarters_disjoint (r : Rect) (t x : Rat) :
    (quarters r).Pairwise fun a b => ¬(a.Contains t x ∧ b.Contains t x) := by
  rw [quarters_eq]
  simp only [List.pairwise_cons, List.mem_cons, List.not_mem_nil, or_false, forall_eq_or_imp, forall_eq,
    Rect.Contains, Rect.LL, Rect.LR, Rect.UL, Rect.UR, Rect.tm, Rect.xm, List.Pairwise.nil, and_true,
    IsEmpty.forall_iff, implies_true]
  refine ⟨⟨?_, ?_, ?_⟩, ⟨?_, ?_⟩, ?_⟩ <;> rintro ⟨⟨_, _, _, _⟩, _, _, _, _⟩ <;> linarith

/-! ### sign patterns -/

/-- the two-level function that is `+1` on the lower half in time and `-1` on the upper half -/
def psiT (r : Rect) (t : Rat) : Int := if t < r.tm then 1 else -1
/-- `+1` on the left half in space, `-1` on the right half -/
def psiX (r : Rect) (x : Rat) : Int := if x < r.xm then 1 else -1

/-- entry `k` of pattern `j` -/
def patAt (j k : Nat) : Option Int := (hierPatterns[j]?).bind (·[k]?)

theorem patterns_pointwise (r : Rect) (k : Nat) (q : Rect) (hq : (quarters r)[k]? = some q) (t x : Rat)
    (h : q.Contains t x) :
    patAt 0 k = some (psiT r t) ∧ patAt 1 k = some (psiX r x) ∧ patAt 2 k = some (psiT r t * psiX r x) := by
  rw [quarters_eq] at hq
  match k, hq with
  | 0, hq =>
    cases hq
    have a : t < r.tm := h.2.1
    have b : x < r.xm := h.2.2.2
    simp [patAt, hierPatterns, psiT, psiX, a, b]
  | 1, hq =>
    cases hq
    have a : t < r.tm := h.2.1
    have b : ¬ x < r.xm := not_lt.mpr h.2.2.1
    simp [patAt, hierPatterns, psiT, psiX, a, b]
  | 2, hq =>
    cases hq
    have a : ¬ t < r.tm := not_lt.mpr h.1
    have b : x < r.xm := h.2.2.2
    simp [patAt, hierPatterns, psiT, psiX, a, b]
  | 3, hq =>
    cases hq
    have a : ¬ t < r.tm := not_lt.mpr h.1
    have b : ¬ x < r.xm := not_lt.mpr h.2.2.1
    simp [patAt, hierPatterns, psiT, psiX, a, b]
  | k + 4, hq => simp at hq

/-! ### prolongation by repetition -/

theorem prolong4_length (phi : List Rat) : (prolong4 phi).length = 4 * phi.length :=
  flatMap_length_const _ 4 phi (fun _ _ => by simp [repeatFactor])

theorem prolong4_get (phi : List Rat) (i k : Nat) (hk : k < 4) : (prolong4 phi)[4 * i + k]? = phi[i]? := by
  unfold prolong4 repeatEach
  rw [flatMap_block _ 4 phi (fun _ _ => by simp [repeatFactor]) i k hk]
  cases phi[i]? with
  | none => rfl
  | some v =>
    simp only [Option.bind_some, repeatFactor]
    rw [List.getElem?_replicate]
    simp [hk]

theorem fineRects_length (coarse : List Rect) : (fineRects coarse).length = 4 * coarse.length :=
  flatMap_length_const _ 4 coarse (fun r _ => quarters_length r)

theorem fineRects_get (coarse : List Rect) (i k : Nat) (hk : k < 4) :
    (fineRects coarse)[4 * i + k]? = (coarse[i]?).bind fun r => (quarters r)[k]? :=
  flatMap_block _ 4 coarse (fun r _ => quarters_length r) i k hk

theorem slice_length_eq {l : List Rat} {i : Nat} {l' : List Rat} (h : l.length = l'.length) :
    (slice l i).length = (slice l' i).length := by
  simp [slice, h]

theorem slice_get (l : List Rat) (i k : Nat) (hk : k < 4) : (slice l i)[k]? = l[4 * i + k]? := by
  unfold slice
  rw [nKids_eq, List.getElem?_take, if_pos hk, List.getElem?_drop]

/-! ### the local estimators -/

theorem absR_sq (q : Rat) : absR q ^ 2 = q ^ 2 := by
  unfold absR; split <;> ring

theorem hierOne_ok {rhs4 v4 : List Rat} {S : List (List Rat)} {c : List Int} {e : Rat}
    (h : hierOne rhs4 v4 S c = .ok e) :
    0 < dot (patRat c) (mulVec S (patRat c)) ∧
      e = (dot (patRat c) rhs4 - dot (patRat c) v4) ^ 2 / dot (patRat c) (mulVec S (patRat c)) := by
  unfold hierOne at h
  simp only at h
  split at h
  · rename_i hs
    cases h
    exact ⟨hs, by rw [absR_sq]⟩
  · cases h

theorem hierOne_of_pos {rhs4 v4 : List Rat} {S : List (List Rat)} {c : List Int}
    (hs : 0 < dot (patRat c) (mulVec S (patRat c))) :
    hierOne rhs4 v4 S c =
      .ok ((dot (patRat c) rhs4 - dot (patRat c) v4) ^ 2 / dot (patRat c) (mulVec S (patRat c))) := by
  unfold hierOne
  simp only [gt_iff_lt, hs, if_true, absR_sq]

theorem hierOne_err {rhs4 v4 : List Rat} {S : List (List Rat)} {c : List Int} {msg : String}
    (h : hierOne rhs4 v4 S c = .error msg) : ¬ 0 < dot (patRat c) (mulVec S (patRat c)) := by
  intro hs
  rw [hierOne_of_pos hs] at h
  cases h

theorem hierOne_nonneg {rhs4 v4 : List Rat} {S : List (List Rat)} {c : List Int} {e : Rat}
    (h : hierOne rhs4 v4 S c = .ok e) : 0 ≤ e := by
  obtain ⟨hs, rfl⟩ := hierOne_ok h
  exact div_nonneg (sq_nonneg _) hs.le

theorem hierLocal_ok {rhs4 v4 : List Rat} {S : List (List Rat)} {es : List Rat}
    (h : hierLocal rhs4 v4 S = .ok es) :
    ∃ e0 e1 e2, es = [e0, e1, e2] ∧ hierOne rhs4 v4 S [1, 1, -1, -1] = .ok e0 ∧
      hierOne rhs4 v4 S [1, -1, 1, -1] = .ok e1 ∧ hierOne rhs4 v4 S [1, -1, -1, 1] = .ok e2 := by
  obtain ⟨hl, hg⟩ := mapM_except_ok _ _ _ h
  obtain ⟨e0, h0, g0⟩ := hg 0 [1, 1, -1, -1] rfl
  obtain ⟨e1, h1, g1⟩ := hg 1 [1, -1, 1, -1] rfl
  obtain ⟨e2, h2, g2⟩ := hg 2 [1, -1, -1, 1] rfl
  refine ⟨e0, e1, e2, ?_, g0, g1, g2⟩
  have hl' : es.length = 3 := hl
  match es, hl' with
  | [a, b, c], _ =>
    simp only [List.getElem?_cons_zero, List.getElem?_cons_succ, Option.some.injEq] at h0 h1 h2
    subst h0 h1 h2
    rfl

theorem hierCombineLoc_eq (e0 e1 e2 : Rat) :
    hierCombineLoc [e0, e1, e2] = [e0 + 1 / 2 * e2, e1 + 1 / 2 * e2] := by
  simp only [hierCombineLoc, hierCombine, List.map_cons, List.map_nil, dot_cons, dot_nil_left]
  refine congrArg₂ _ ?_ (congrArg₂ _ ?_ rfl) <;> ring

end Stbem.Estim
