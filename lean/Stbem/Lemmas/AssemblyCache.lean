import Stbem.Lemmas.AssemblyPaths
import Std.Data.String.ToNat
/-! Helper lemmas for C17: the cache state machine (invariant, transparency of a history) and the
injectivity of the hashed text of `Stbem.Model.Assembly`. -/
namespace Stbem.Assembly

/-! ## cache -/
section cache
variable {K I H O : Type} [DecidableEq K]

/-- every complete file was written by a cached call with inputs of that name and holds their pure value -/
def Inv (S : Spec K I H O) (pure : I → O) (d : Dir K O) : Prop :=
  ∀ k o, d k = .valid o → ∃ i, S.cached i = true ∧ S.key i = k ∧ o = pure i

/-- inputs that share a file name have the same pure value -/
def KeyDiscipline (S : Spec K I H O) (pure : I → O) : Prop :=
  ∀ i i', S.cached i = true → S.cached i' = true → S.key i = S.key i' → pure i = pure i'

/-- what the `call`s of a history have to return -/
def expected (pure : I → O) : List (Event K I H) → List (Except String O)
  | [] => []
  | .call inp _ _ :: es => .ok (pure inp) :: expected pure es
  | .crash _ _ _ :: es => expected pure es
  | .truncate _ :: es => expected pure es
  | .remove _ :: es => expected pure es
  | .garble _ :: es => expected pure es

/-- the computation of this event (if it reaches it) yields the pure value -/
def ComputesOk (S : Spec K I H O) (pure : I → O) : Event K I H → Prop
  | .call inp how _ => S.compute inp how = .ok (pure inp)
  | .crash inp how _ => S.compute inp how = .ok (pure inp)
  | _ => True

omit [DecidableEq K] in
theorem inv_empty (S : Spec K I H O) (pure : I → O) : Inv S pure Dir.empty := by
  intro k o h; simp [Dir.empty] at h

theorem inv_set_invalid (S : Spec K I H O) (pure : I → O) (d : Dir K O) (h : Inv S pure d) (k : K)
    (s : FileState O) (hs : ∀ o, s ≠ .valid o) : Inv S pure (d.set k s) := by
  intro k' o hk
  unfold Dir.set at hk
  split at hk
  · exact absurd hk (hs o)
  · exact h k' o hk

theorem inv_set_valid (S : Spec K I H O) (pure : I → O) (d : Dir K O) (h : Inv S pure d) (i : I)
    (hc : S.cached i = true) : Inv S pure (d.set (S.key i) (.valid (pure i))) := by
  intro k' o hk
  unfold Dir.set at hk
  split at hk
  · rename_i he
    refine ⟨i, hc, he.symm, ?_⟩
    cases hk; rfl
  · exact h k' o hk

theorem callStep_spec (S : Spec K I H O) (pure : I → O) (hk : KeyDiscipline S pure) (d : Dir K O)
    (h : Inv S pure d) (inp : I) (how : H) (sv : SaveOutcome)
    (hc : S.compute inp how = .ok (pure inp)) :
    (callStep S d inp how sv).2 = .ok (pure inp) ∧ Inv S pure (callStep S d inp how sv).1 := by
  unfold callStep
  by_cases hcache : S.cached inp = true
  · simp only [hcache, if_true]
    cases hd : d (S.key inp) with
    | valid o =>
      obtain ⟨i, hi, hki, rfl⟩ := h _ _ hd
      simp only [load]
      exact ⟨by rw [hk i inp hi hcache hki], h⟩
    | absent =>
      simp only [load, hc]
      refine ⟨trivial, ?_⟩
      cases sv
      · exact inv_set_valid S pure d h inp hcache
      · exact h
      · exact inv_set_invalid S pure d h _ _ (by intro o; simp)
    | corrupt =>
      simp only [load, hc]
      refine ⟨trivial, ?_⟩
      cases sv
      · exact inv_set_valid S pure d h inp hcache
      · exact h
      · exact inv_set_invalid S pure d h _ _ (by intro o; simp)
  · simp only [hcache]
    exact ⟨hc, h⟩

theorem step_inv (S : Spec K I H O) (pure : I → O) (hk : KeyDiscipline S pure) (d : Dir K O)
    (h : Inv S pure d) (e : Event K I H) (hc : ComputesOk S pure e) : Inv S pure (step S d e).1 := by
  cases e with
  | call inp how sv => exact (callStep_spec S pure hk d h inp how sv hc).2
  | crash inp how sv => exact (callStep_spec S pure hk d h inp how sv hc).2
  | truncate k =>
    simp only [step]
    split
    · exact h
    · exact inv_set_invalid S pure d h _ _ (by intro o; simp)
  | remove k => exact inv_set_invalid S pure d h _ _ (by intro o; simp)
  | garble k => exact inv_set_invalid S pure d h _ _ (by intro o; simp)

theorem run_transparent (S : Spec K I H O) (pure : I → O) (hk : KeyDiscipline S pure) :
    ∀ (evs : List (Event K I H)) (d : Dir K O), Inv S pure d → (∀ e ∈ evs, ComputesOk S pure e) →
      (run S d evs).2 = expected pure evs ∧ Inv S pure (run S d evs).1 := by
  intro evs
  induction evs with
  | nil => intro d h _; exact ⟨rfl, h⟩
  | cons e es ih =>
    intro d h hc
    have he := hc e (by simp)
    have hinv := step_inv S pure hk d h e he
    obtain ⟨h1, h2⟩ := ih (step S d e).1 hinv (fun e' he' => hc e' (by simp [he']))
    refine ⟨?_, h2⟩
    simp only [run]
    cases e with
    | call inp how sv =>
      simp only [step, expected]
      rw [(callStep_spec S pure hk d h inp how sv he).1]
      simp only [step] at h1
      rw [h1]
    | crash inp how sv => simpa only [step, expected] using h1
    | truncate k => simpa only [step, expected] using h1
    | remove k => simpa only [step, expected] using h1
    | garble k => simpa only [step, expected] using h1

/-- a damaged or missing file is replaced by a complete one when the next call's save succeeds -/
theorem callStep_repairs (S : Spec K I H O) (d : Dir K O) (inp : I) (how : H) (o : O)
    (hcache : S.cached inp = true) (hd : ∀ o', d (S.key inp) ≠ .valid o')
    (hc : S.compute inp how = .ok o) :
    (callStep S d inp how .written).2 = .ok o ∧
      (callStep S d inp how .written).1 (S.key inp) = .valid o := by
  unfold callStep
  simp only [hcache, if_true]
  cases hd' : d (S.key inp) with
  | valid o' => exact absurd hd' (hd o')
  | absent => simp [load, hc, save, Dir.set]
  | corrupt => simp [load, hc, save, Dir.set]

/-- a complete file under the name is returned as it is, whoever wrote it -/
theorem callStep_hit (S : Spec K I H O) (d : Dir K O) (inp : I) (how : H) (sv : SaveOutcome) (o : O)
    (hcache : S.cached inp = true) (hd : d (S.key inp) = .valid o) :
    callStep S d inp how sv = (d, .ok o) := by
  unfold callStep
  simp [hcache, hd, load]

end cache

/-! ## keys -/
section keys
variable {E : Type}

/-- what the proof needs of the element `repr`: no rendering is a prefix of another one (this implies
injectivity), and a rendering starts with a character other than `]` -/
structure GoodRepr (repr : E → List Char) : Prop where
  prefixFree : ∀ a b, repr a <+: repr b → a = b
  start : ∀ a, ∃ c s, repr a = c :: s ∧ c ≠ ']'

theorem GoodRepr.injective {repr : E → List Char} (h : GoodRepr repr) : ∀ a b, repr a = repr b → a = b :=
  fun a b hab => h.prefixFree a b (hab ▸ List.prefix_refl _)

theorem repr_append_inj {repr : E → List Char} (h : GoodRepr repr) (a b : E) (x y : List Char)
    (he : repr a ++ x = repr b ++ y) : a = b ∧ x = y := by
  have hab : a = b := by
    rcases List.append_eq_append_iff.mp he with ⟨as, h1, _⟩ | ⟨bs, h1, _⟩
    · exact h.prefixFree a b ⟨as, h1.symm⟩
    · exact (h.prefixFree b a ⟨bs, h1.symm⟩).symm
  subst hab
  exact ⟨rfl, List.append_cancel_left he⟩

theorem listTail_inj {repr : E → List Char} (h : GoodRepr repr) : ∀ (t t' : List E) (r r' : List Char),
    listTail repr t ++ r = listTail repr t' ++ r' → t = t' ∧ r = r' := by
  intro t
  induction t with
  | nil =>
    intro t' r r' he
    cases t' with
    | nil => simpa [listTail] using he
    | cons a t' => simp [listTail] at he
  | cons a t ih =>
    intro t' r r' he
    cases t' with
    | nil => simp [listTail] at he
    | cons a' t' =>
      simp only [listTail, List.cons_append, List.cons.injEq, true_and, List.append_assoc] at he
      obtain ⟨rfl, h2⟩ := repr_append_inj h a a' _ _ he
      obtain ⟨rfl, h3⟩ := ih t' r r' h2
      exact ⟨rfl, h3⟩

theorem listStr_inj {repr : E → List Char} (h : GoodRepr repr) (t t' : List E) (r r' : List Char)
    (he : listStr repr t ++ r = listStr repr t' ++ r') : t = t' ∧ r = r' := by
  cases t with
  | nil =>
    cases t' with
    | nil => simpa [listStr] using he
    | cons a' t' =>
      obtain ⟨c, s, hs, hc⟩ := h.start a'
      simp [listStr, hs] at he
      exact absurd he.1.symm hc
  | cons a t =>
    cases t' with
    | nil =>
      obtain ⟨c, s, hs, hc⟩ := h.start a
      simp [listStr, hs] at he
      exact absurd he.1 hc
    | cons a' t' =>
      simp only [listStr, List.cons_append, List.cons.injEq, true_and, List.append_assoc] at he
      obtain ⟨rfl, h2⟩ := repr_append_inj h a a' _ _ he
      obtain ⟨rfl, h3⟩ := listTail_inj h t t' r r' h2
      exact ⟨rfl, h3⟩

theorem listStr_cons (repr : E → List Char) (t : List E) : ∃ x, listStr repr t = '[' :: x := by
  cases t <;> simp [listStr]

/-- two texts that agree and whose heads do not contain `ch` agree up to the first `ch` and after it -/
theorem split_at_char (ch : Char) : ∀ (a a' x x' : List Char), ch ∉ a → ch ∉ a' →
    a ++ ch :: x = a' ++ ch :: x' → a = a' ∧ x = x' := by
  intro a
  induction a with
  | nil =>
    intro a' x x' _ h' he
    cases a' with
    | nil => simpa using he
    | cons c a' =>
      simp at he
      exact absurd (by simp [← he.1]) h'
  | cons c a ih =>
    intro a' x x' h h' he
    cases a' with
    | nil =>
      simp at he
      exact absurd (by simp [he.1]) h
    | cons c' a' =>
      simp at he
      obtain ⟨rfl, h2⟩ := he
      obtain ⟨rfl, h3⟩ := ih a' x x' (by intro hm; exact h (by simp [hm]))
        (by intro hm; exact h' (by simp [hm])) h2
      exact ⟨rfl, h3⟩

theorem split_at_bracket : ∀ (a a' x x' : List Char), '[' ∉ a → '[' ∉ a' →
    a ++ '[' :: x = a' ++ '[' :: x' → a = a' ∧ x = x' := split_at_char '['

/-- the repaired key text is injective in all four components; nothing is needed of the configuration
text: the two list renderings are self-delimiting, what follows them is the configuration text -/
theorem keyText_inj {repr : E → List Char} (h : GoodRepr repr) (c c' : List Char) (hc : '[' ∉ c)
    (hc' : '[' ∉ c') (ts ts' tr tr' : List E) (g g' : List Char)
    (he : keyText repr c ts tr g = keyText repr c' ts' tr' g') :
    c = c' ∧ ts = ts' ∧ tr = tr' ∧ g = g' := by
  unfold keyText at he
  obtain ⟨x, hx⟩ := listStr_cons repr ts
  obtain ⟨x', hx'⟩ := listStr_cons repr ts'
  have he' := he
  rw [hx, hx'] at he'
  simp only [List.cons_append] at he'
  obtain ⟨rfl, _⟩ := split_at_bracket c c' _ _ hc hc' he'
  have h2 := List.append_cancel_left he
  obtain ⟨rfl, h3⟩ := listStr_inj h ts ts' _ _ h2
  obtain ⟨rfl, h4⟩ := listStr_inj h tr tr' _ _ h3
  exact ⟨rfl, rfl, rfl, h4⟩

/-- Python's `str((quad_order, pw_exact))` determines `quad_order` and `pw_exact` -/
theorem cfgText_inj (q q' : Nat) (p p' : Bool) (he : cfgText q p = cfgText q' p') : q = q' ∧ p = p' := by
  have hd : ∀ n : Nat, ',' ∉ Nat.toDigits 10 n := by
    intro n hm
    have := Nat.isDigit_of_mem_toDigits (by decide) (by decide) hm
    exact absurd this (by decide)
  unfold cfgText at he
  simp only [List.cons.injEq, true_and] at he
  obtain ⟨hq, hp⟩ := split_at_char ',' _ _ _ _ (hd q) (hd q') he
  refine ⟨Nat.repr_injective (String.toList_inj.mp (by simpa using hq)), ?_⟩
  revert hp
  cases p <;> cases p' <;> simp

/-- the key text before the repair of finding F7 is injective on (curve, tests, trials) -/
theorem keyTextUnfixed_inj {repr : E → List Char} (h : GoodRepr repr) (c c' : List Char) (hc : '[' ∉ c)
    (hc' : '[' ∉ c') (ts ts' tr tr' : List E)
    (he : keyTextUnfixed repr c ts tr = keyTextUnfixed repr c' ts' tr') : c = c' ∧ ts = ts' ∧ tr = tr' := by
  unfold keyTextUnfixed at he
  obtain ⟨x, hx⟩ := listStr_cons repr ts
  obtain ⟨x', hx'⟩ := listStr_cons repr ts'
  have he' := he
  rw [hx, hx'] at he'
  simp only [List.cons_append] at he'
  obtain ⟨rfl, _⟩ := split_at_bracket c c' _ _ hc hc' he'
  have h2 := List.append_cancel_left he
  obtain ⟨rfl, h3⟩ := listStr_inj h ts ts' _ _ h2
  have h4 : listStr repr tr ++ [] = listStr repr tr' ++ [] := by simpa using h3
  obtain ⟨rfl, _⟩ := listStr_inj h tr tr' _ _ h4
  exact ⟨rfl, rfl, rfl⟩

theorem vecKeyText_inj {repr : E → List Char} (h : GoodRepr repr) (c c' : List Char) (hc : '[' ∉ c)
    (hc' : '[' ∉ c') (es es' : List E)
    (he : vecKeyText repr c es = vecKeyText repr c' es') : c = c' ∧ es = es' := by
  unfold vecKeyText at he
  obtain ⟨x, hx⟩ := listStr_cons repr es
  obtain ⟨x', hx'⟩ := listStr_cons repr es'
  have he' := he
  rw [hx, hx'] at he'
  obtain ⟨rfl, _⟩ := split_at_bracket c c' _ _ hc hc' he'
  have h2 := List.append_cancel_left he
  have h4 : listStr repr es ++ [] = listStr repr es' ++ [] := by simpa using h2
  obtain ⟨rfl, _⟩ := listStr_inj h es es' _ _ h4
  exact ⟨rfl, rfl⟩

/-- `listStr` is Python's rendering: brackets around the `", "`-joined element renderings -/
theorem listStr_eq_intercalate (repr : E → List Char) (l : List E) :
    listStr repr l = '[' :: ([',', ' '].intercalate (l.map repr) ++ [']']) := by
  cases l with
  | nil => simp [listStr, List.intercalate]
  | cons a t =>
    simp only [listStr, List.map_cons, List.cons.injEq, true_and]
    induction t generalizing a with
    | nil => simp [listTail, List.intercalate]
    | cons b t ih =>
      have := ih b
      simp only [List.intercalate, List.map_cons, List.intersperse, List.flatten_cons,
        List.append_assoc] at this ⊢
      rw [listTail, this]
      simp

end keys
end Stbem.Assembly
