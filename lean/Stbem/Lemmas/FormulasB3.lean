import Stbem.Lemmas.FormulasB
import Mathlib.Tactic.LinearCombination

/-!
# `fint_3` as a second difference of `Psi` (part B, continued)

Needs: `exp` multiplicative and nowhere zero, `erfc = 1 - erf`, `erf` odd, `hpiInv = 1/(192 π)`.
-/
namespace Stbem.Formulas.R

/-- the laws of `exp` used for `fint_3` -/
structure ExpLaw (S : Fns) : Prop where
  mul : ∀ x y, S.exp (x + y) = S.exp x * S.exp y
  ne : ∀ x, S.exp x ≠ 0

theorem ExpLaw.zero {S : Fns} (E : ExpLaw S) : S.exp 0 = 1 := by
  have h := E.mul 0 0
  rw [add_zero] at h
  have h0 := E.ne 0
  have : S.exp 0 * (S.exp 0 - 1) = 0 := by linear_combination -h
  rcases mul_eq_zero.mp this with h1 | h1
  · exact absurd h1 h0
  · linarith

theorem ExpLaw.neg {S : Fns} (E : ExpLaw S) (x : ℝ) : S.exp (-x) = (S.exp x)⁻¹ := by
  have h := E.mul x (-x)
  rw [add_neg_cancel, E.zero] at h
  exact eq_inv_of_mul_eq_one_right h.symm

theorem absK_eq_abs (x : ℝ) : absK x = |x| := by
  unfold absK
  split_ifs with h
  · rw [abs_of_neg h]
  · rw [abs_of_nonneg (not_lt.mp h)]

/-- the `erfc`/`sign` term of `fint_3` -/
theorem erfc_sign_term (S : Fns) (herfc : ∀ x, S.erfc x = 1 - S.erf x)
    (hodd : ∀ x, S.erf (-x) = -S.erf x) (d s : ℝ) :
    (-1 + S.erfc (absK d / s)) * signK d = - S.erf (d / s) := by
  rw [herfc]
  unfold absK signK
  rcases lt_trichotomy d 0 with hd | hd | hd
  · rw [if_pos hd, if_pos hd, neg_div, hodd]; ring
  · subst hd
    rw [if_neg (lt_irrefl _), if_neg (lt_irrefl _), if_pos rfl, zero_div, erf_zero_of_odd S hodd]
    ring
  · rw [if_neg (not_lt.mpr hd.le), if_neg (not_lt.mpr hd.le), if_neg hd.ne']; ring


theorem fint3_eq' (S : Fns) (E : ExpLaw S) (herfc : ∀ x, S.erfc x = 1 - S.erf x)
    (hodd : ∀ x, S.erf (-x) = -S.erf x) (hhpi : S.hpiInv = 1 / (192 * S.pi)) (a b h k : ℝ) :
    fint_3 S a b h k = (fint_1 S a b h + fint_1 S a b k - fint_1 S a b |h-k|) / 2 := by
  by_cases hab : a ≤ b
  · rw [fint_3_zero' S a b h k hab, fint_1_zero' S a b _ hab, fint_1_zero' S a b _ hab,
      fint_1_zero' S a b _ hab]; ring
  · have hz : a - b ≠ 0 := fun h0 => hab (by linarith)
    rw [fint_1_pos S a b _ hab, fint_1_pos S a b _ hab, fint_1_pos S a b _ hab, Psi_abs S hodd]
    unfold fint_3 Psi
    rw [if_neg hab]
    dsimp only
    rw [mul_assoc _ _ (signK (h - k)), erfc_sign_term S herfc hodd]
    -- the exponentials
    have eD : S.exp ((h^2 + k^2) / (4 * (a-b)))
        = S.exp (h^2 / (4 * (a-b))) * S.exp (k^2 / (4 * (a-b))) := by
      rw [add_div, E.mul]
    have eA : S.exp (h * k / (2 * (a-b)))
        = S.exp (h^2 / (4 * (a-b))) * S.exp (k^2 / (4 * (a-b)))
          * S.exp (-((h-k)^2 / (4 * (a-b)))) := by
      rw [← E.mul, ← E.mul]
      congr 1
      field_simp
      ring
    rw [eD, eA, E.neg (h^2 / (4 * (a-b))), E.neg (k^2 / (4 * (a-b))), hhpi]
    have hB := E.ne (h^2 / (4 * (a-b)))
    have hC := E.ne (k^2 / (4 * (a-b)))
    generalize S.exp (h^2 / (4 * (a-b))) = B at hB ⊢
    generalize S.exp (k^2 / (4 * (a-b))) = C at hC ⊢
    field_simp
    ring


/-! ### consistency of the case distinction of `spacetime_integrated_kernel` -/

theorem fint_1_at_zero (S : Fns) (hexp0 : S.exp 0 = 1) (a b : ℝ) : fint_1 S a b 0 = 0 := by
  rw [fint_1_eq]
  split_ifs
  · rfl
  · unfold Psi
    have e : -((0:ℝ)^2 / (4 * (a-b))) = 0 := by simp
    rw [e, hexp0]
    ring

/-- "disjoint" degenerates to "touch": `[0,h] × [h,l]` is `[-h,0] × [0,l-h]` shifted -/
theorem fint4_touch' (S : Fns) (hexp0 : S.exp 0 = 1) (hodd : ∀ x, S.erf (-x) = -S.erf x)
    (hhpi : S.hpiInv = 1 / (192 * S.pi)) (a b h l : ℝ) :
    fint_4 S a b h h l = fint_2 S a b h (l - h) := by
  rw [fint4_eq' S hodd hhpi, fint2_eq' S hhpi, sub_self, fint_1_at_zero S hexp0,
    add_sub_cancel]
  ring

/-- `[0,h] × [0,h]`: `fint_3` agrees with `fint_1` -/
theorem fint3_same' (S : Fns) (E : ExpLaw S) (herfc : ∀ x, S.erfc x = 1 - S.erf x)
    (hodd : ∀ x, S.erf (-x) = -S.erf x) (hhpi : S.hpiInv = 1 / (192 * S.pi)) (a b h : ℝ) :
    fint_3 S a b h h = fint_1 S a b h := by
  rw [fint3_eq' S E herfc hodd hhpi, sub_self, abs_zero, fint_1_at_zero S E.zero]
  ring

end Stbem.Formulas.R
