import Stbem.Lemmas.SLKernels
import Stbem.Lemmas.SLTotal
import Stbem.Lemmas.QuadBasic

/-! `bilform`, `bilformMatrix`: causality, structure of the matrix, exchange of the space data,
time shift, consistency of the variable swap. -/
namespace Stbem.SL
open Stbem.Quad Stbem.Formulas.Q

variable (cfg : Cfg) (S : Fns) (log : Rule1) (gs : List Piece)

/-! ### the two paths of `bilform` -/

/-- the integrand of the quadrature path: first argument on the test element -/
def kern (trial test : Elem) (u v : Rat) : Rat :=
  sl_dtk S test.t0 test.t1 trial.t0 trial.t1
    (distSq ((pieceOf gs test.piece).at u) ((pieceOf gs trial.piece).at v))

/-- the quadrature path of `bilform` -/
def quadPath (trial test : Elem) : Except String Rat :=
  if lexLe test.x0 test.x1 trial.x0 trial.x1 then do
    let ps ← panels cfg 12 test.x0 test.x1 trial.x0 trial.x1
    pure (integratePanels log (fun x y => kern S gs trial test x y) ps)
  else do
    let ps ← panels cfg 12 trial.x0 trial.x1 test.x0 test.x1
    pure (integratePanels log (fun x y => kern S gs trial test y x) ps)

theorem bilform_eq (pw : Bool) (trial test : Elem) :
    bilform cfg S log gs pw trial test =
      if test.t1 ≤ trial.t0 then pure 0
      else if pw && test.piece == trial.piece then
        stik S 12 test.t0 test.t1 trial.t0 trial.t1 test.x0 test.x1 trial.x0 trial.x1
      else quadPath cfg S log gs trial test := rfl

theorem bilform_false (trial test : Elem) :
    bilform cfg S log gs false trial test =
      if test.t1 ≤ trial.t0 then pure 0 else quadPath cfg S log gs trial test := by
  rw [bilform_eq]; simp only [Bool.false_and, Bool.false_eq_true, if_false]

/-! ### causality -/

theorem bilform_acausal_zero (pw : Bool) (trial test : Elem) (h : test.t1 ≤ trial.t0) :
    bilform cfg S log gs pw trial test = .ok 0 := by
  rw [bilform_eq, if_pos h]; rfl

/-! ### `mapM` in `Except` -/

theorem mapM_ok_iff {α β ε} (f : α → Except ε β) : ∀ (l : List α) (r : List β),
    l.mapM f = .ok r ↔ List.Forall₂ (fun a b => f a = .ok b) l r := by
  intro l
  induction l with
  | nil =>
    intro r
    rw [List.mapM_nil, pure_ok]
    constructor
    · rintro rfl; exact .nil
    · intro h; cases h; rfl
  | cons a l ih =>
    intro r
    rw [List.mapM_cons, bind_ok]
    constructor
    · rintro ⟨b, hb, h⟩
      rw [bind_ok] at h
      obtain ⟨bs, hbs, h⟩ := h
      rw [pure_ok] at h; subst h
      exact .cons hb ((ih bs).mp hbs)
    · intro h
      cases h with
      | cons hb hbs =>
        rename_i b bs
        refine ⟨b, hb, ?_⟩
        rw [bind_ok]
        exact ⟨bs, (ih bs).mpr hbs, rfl⟩

theorem forall₂_get {α β} {R : α → β → Prop} : ∀ {l : List α} {r : List β}, List.Forall₂ R l r →
    r.length = l.length ∧ ∀ i (h1 : i < l.length) (h2 : i < r.length), R l[i] r[i] := by
  intro l r h
  induction h with
  | nil => exact ⟨rfl, fun i h1 => absurd h1 (Nat.not_lt_zero _)⟩
  | cons hab _ ih =>
    refine ⟨by simp [ih.1], ?_⟩
    intro i h1 h2
    cases i with
    | zero => exact hab
    | succ i => exact ih.2 i (by simpa using h1) (by simpa using h2)

theorem forall₂_of_get {α β} {R : α → β → Prop} : ∀ {l : List α} {r : List β},
    r.length = l.length → (∀ i (h1 : i < l.length) (h2 : i < r.length), R l[i] r[i]) →
    List.Forall₂ R l r := by
  intro l
  induction l with
  | nil => intro r h _; cases r with
    | nil => exact .nil
    | cons _ _ => simp at h
  | cons a l ih =>
    intro r h hi
    cases r with
    | nil => simp at h
    | cons b r =>
      refine .cons (hi 0 (by simp) (by simp)) (ih (by simpa using h) ?_)
      intro i h1 h2
      exact hi (i + 1) (by simpa using h1) (by simpa using h2)

/-! ### the matrix -/

/-- `bilformMatrix` succeeds with `M` iff `M` is the table of the single `bilform` calls:
rows = test elements, columns = trial elements -/
theorem bilformMatrix_ok_iff (pw : Bool) (tests trials : List Elem) (M : List (List Rat)) :
    bilformMatrix cfg S log gs pw tests trials = .ok M ↔
      M.length = tests.length ∧
      ∀ i (hi : i < tests.length) (hi' : i < M.length),
        M[i].length = trials.length ∧
        ∀ j (hj : j < trials.length) (hj' : j < M[i].length),
          bilform cfg S log gs pw trials[j] tests[i] = .ok M[i][j] := by
  unfold bilformMatrix
  rw [mapM_ok_iff]
  constructor
  · intro h
    obtain ⟨h1, h2⟩ := forall₂_get h
    refine ⟨h1, fun i hi hi' => ?_⟩
    have := h2 i hi hi'
    rw [mapM_ok_iff] at this
    exact forall₂_get this
  · rintro ⟨h1, h2⟩
    refine forall₂_of_get h1 (fun i hi hi' => ?_)
    rw [mapM_ok_iff]
    exact forall₂_of_get (h2 i hi hi').1 (h2 i hi hi').2

/-- the matrix is block lower triangular in time: the entry of a test element that ends before
the trial element starts is `0` -/
theorem bilformMatrix_block_lower (pw : Bool) (tests trials : List Elem) (M : List (List Rat))
    (h : bilformMatrix cfg S log gs pw tests trials = .ok M)
    (i j : Nat) (hi : i < tests.length) (hj : j < trials.length) (hi' : i < M.length)
    (hj' : j < M[i].length) (hc : tests[i].t1 ≤ trials[j].t0) : M[i][j] = 0 := by
  have h1 := ((bilformMatrix_ok_iff cfg S log gs pw tests trials M).mp h).2 i hi hi'
  have h2 := h1.2 j hj hj'
  rw [bilform_acausal_zero cfg S log gs pw _ _ hc] at h2
  exact (Except.ok.inj h2).symm

/-! ### exchange of the space data -/

theorem distSq_comm (p q : Rat × Rat) : distSq p q = distSq q p := by
  unfold distSq; ring

/-- the non-symmetric Duffy rule is invariant under `x ↔ y` -/
theorem apply2_duffy2_swap (r : Rule2) (f : Rat → Rat → Rat) :
    apply2 (duffy2 r false) (fun x y => f y x) = apply2 (duffy2 r false) f := by
  simp only [duffy2, Bool.false_eq_true, if_false, apply2_append]
  rw [add_comm]
  congr 1 <;> simp [apply2, duffyHalfA, duffyHalfB, List.map_map, Function.comp_def]

theorem integrate2_apply2 (r : Rule2) (f : Rat → Rat → Rat) (a b c d : Rat) :
    integrate2 r f a b c d =
      ((b - a) * (d - c)) * apply2 r (fun x y => f (a + (b - a) * x) (c + (d - c) * y)) := by
  unfold integrate2 apply2; ring

/-- on a square panel on the diagonal the `duffyId` rule is invariant under `x ↔ y` -/
theorem integrate2_duffyId_swap (f : Rat → Rat → Rat) (a b : Rat) :
    integrate2 (ruleOf log .duffyId) (fun x y => f y x) a b a b =
      integrate2 (ruleOf log .duffyId) f a b a b := by
  rw [integrate2_apply2, integrate2_apply2]
  simp only [ruleOf]
  rw [← apply2_duffy2_swap _ (fun x y => f (a + (b - a) * x) (a + (b - a) * y))]

theorem panels_same {fuel : Nat} {a b : Rat} {ps : List Panel}
    (h : panels cfg fuel a b a b = .ok ps) : ps = [⟨.duffyId, a, b, a, b⟩] := by
  cases fuel with
  | zero => rw [panels] at h; cases h
  | succ fuel =>
    rw [panels] at h
    by_cases h1 : (!(decide (b - a > cfg.minSize) && decide (b - a > cfg.minSize))) = true
    · rw [if_pos h1] at h; cases h
    rw [if_neg h1] at h
    by_cases h2 : (!(decide (a < b) && decide (a < b))) = true
    · rw [if_pos h2] at h; cases h
    rw [if_neg h2] at h
    by_cases h3 : (!lexLe a b a b) = true
    · rw [if_pos h3] at h; cases h
    rw [if_neg h3, if_pos ⟨rfl, rfl⟩, pure_ok] at h
    exact h.symm

theorem integratePanels_same_swap (f : Rat → Rat → Rat) (a b : Rat) :
    integratePanels log (fun x y => f y x) [⟨.duffyId, a, b, a, b⟩] =
      integratePanels log f [⟨.duffyId, a, b, a, b⟩] := by
  simp only [integratePanels, List.map_cons, List.map_nil]
  rw [integrate2_duffyId_swap]

/-- exchange of the space data (interval and piece) of the two elements, times kept -/
def exchTrial (trial test : Elem) : Elem := { trial with x0 := test.x0, x1 := test.x1, piece := test.piece }
def exchTest (trial test : Elem) : Elem := { test with x0 := trial.x0, x1 := trial.x1, piece := trial.piece }

theorem kern_exch (trial test : Elem) (u v : Rat) :
    kern S gs (exchTrial trial test) (exchTest trial test) u v = kern S gs trial test v u := by
  simp only [kern, exchTrial, exchTest]
  rw [distSq_comm]

theorem quad_swap_aux (k : Rat → Rat → Rat) (t0 t1 r0 r1 : Rat) :
    (if lexLe r0 r1 t0 t1 = true then
        (panels cfg 12 r0 r1 t0 t1 >>= fun ps => pure (integratePanels log (fun x y => k y x) ps))
      else
        (panels cfg 12 t0 t1 r0 r1 >>= fun ps => pure (integratePanels log (fun x y => k x y) ps)) :
        Except String Rat) =
    (if lexLe t0 t1 r0 r1 = true then
        (panels cfg 12 t0 t1 r0 r1 >>= fun ps => pure (integratePanels log (fun x y => k x y) ps))
      else
        (panels cfg 12 r0 r1 t0 t1 >>= fun ps => pure (integratePanels log (fun x y => k y x) ps))) := by
  by_cases h1 : lexLe t0 t1 r0 r1 = true <;> by_cases h2 : lexLe r0 r1 t0 t1 = true
  · obtain ⟨e0, e1⟩ := lexLe_antisymm h1 h2
    subst e0 e1
    simp only [if_pos h1]
    cases hp : panels cfg 12 t0 t1 t0 t1 with
    | error e => rfl
    | ok ps =>
      have := panels_same cfg hp
      subst this
      simp only [ok_bind]
      rw [integratePanels_same_swap]
  · rw [if_pos h1, if_neg h2]
  · rw [if_neg h1, if_pos h2]
  · rcases lexLe_total t0 t1 r0 r1 with h | h
    · exact absurd h h1
    · exact absurd h h2

theorem quadPath_exchange (trial test : Elem) :
    quadPath cfg S log gs (exchTrial trial test) (exchTest trial test) =
      quadPath cfg S log gs trial test := by
  have hk : (fun x y => kern S gs (exchTrial trial test) (exchTest trial test) x y) =
      fun x y => kern S gs trial test y x := by
    funext x y; exact kern_exch S gs trial test x y
  have hk' : (fun x y => kern S gs (exchTrial trial test) (exchTest trial test) y x) =
      fun x y => kern S gs trial test x y := by
    funext x y; exact kern_exch S gs trial test y x
  unfold quadPath
  rw [hk, hk']
  exact quad_swap_aux cfg log (fun x y => kern S gs trial test x y) test.x0 test.x1 trial.x0 trial.x1

/-- **exchange**: swapping the space data of trial and test element does not change `bilform`
(quadrature path) -/
theorem bilform_exchange (trial test : Elem) :
    bilform cfg S log gs false (exchTrial trial test) (exchTest trial test) =
      bilform cfg S log gs false trial test := by
  rw [bilform_false, bilform_false, quadPath_exchange]
  rfl

/-! ### which variable runs over which element -/

/-- test interval lexicographically first: `x` runs over the test element -/
theorem bilform_swap_consistent_fst (trial test : Elem) (hc : ¬ test.t1 ≤ trial.t0)
    (hl : lexLe test.x0 test.x1 trial.x0 trial.x1 = true) {ps : List Panel}
    (hp : panels cfg 12 test.x0 test.x1 trial.x0 trial.x1 = .ok ps) :
    bilform cfg S log gs false trial test =
      .ok (integratePanels log (fun x y => sl_dtk S test.t0 test.t1 trial.t0 trial.t1
        (distSq ((pieceOf gs test.piece).at x) ((pieceOf gs trial.piece).at y))) ps) := by
  rw [bilform_false, if_neg hc]
  unfold quadPath
  rw [if_pos hl, hp]; rfl

/-- trial interval lexicographically first: `x` runs over the trial element, and the point of the
test element is still the first argument of the distance -/
theorem bilform_swap_consistent_snd (trial test : Elem) (hc : ¬ test.t1 ≤ trial.t0)
    (hl : lexLe test.x0 test.x1 trial.x0 trial.x1 = false) {ps : List Panel}
    (hp : panels cfg 12 trial.x0 trial.x1 test.x0 test.x1 = .ok ps) :
    bilform cfg S log gs false trial test =
      .ok (integratePanels log (fun x y => sl_dtk S test.t0 test.t1 trial.t0 trial.t1
        (distSq ((pieceOf gs test.piece).at y) ((pieceOf gs trial.piece).at x))) ps) := by
  rw [bilform_false, if_neg hc]
  unfold quadPath
  rw [if_neg (by simp [hl]), hp]; rfl

end Stbem.SL
