import Stbem.Lemmas.SLTotal

/-!
Totality of `panels` for interval end points on a lattice `δℤ` whose mesh width exceeds every
threshold of the code: a derivation of depth `≤ 5` exists, hence no assertion fires and fuel `12`
is enough.
-/
namespace Stbem.SL

/-- `x` is an integer multiple of `δ` -/
def OnLat (δ x : Rat) : Prop := ∃ n : Int, x = n * δ

theorem OnLat.add {δ u v : Rat} (hu : OnLat δ u) (hv : OnLat δ v) : OnLat δ (u + v) := by
  obtain ⟨n, rfl⟩ := hu; obtain ⟨m, rfl⟩ := hv
  exact ⟨n + m, by push_cast; ring⟩

theorem OnLat.sub {δ u v : Rat} (hu : OnLat δ u) (hv : OnLat δ v) : OnLat δ (u - v) := by
  obtain ⟨n, rfl⟩ := hu; obtain ⟨m, rfl⟩ := hv
  exact ⟨n - m, by push_cast; ring⟩

theorem OnLat.zero (δ : Rat) : OnLat δ 0 := ⟨0, by simp⟩

theorem OnLat.gap {δ u v : Rat} (hδ : 0 < δ) (hu : OnLat δ u) (hv : OnLat δ v) (h : u < v) :
    δ ≤ v - u := by
  obtain ⟨n, rfl⟩ := hu; obtain ⟨m, rfl⟩ := hv
  have h1 : (n : Rat) < m := lt_of_mul_lt_mul_right h (le_of_lt hδ)
  have h2 : n + 1 ≤ m := by exact_mod_cast h1
  have h3 : (n : Rat) + 1 ≤ m := by exact_mod_cast h2
  nlinarith

theorem OnLat.abs_gap {δ h : Rat} (hδ : 0 < δ) (hh : OnLat δ h) (h0 : h ≠ 0) : δ ≤ absR h := by
  rw [absR_eq_abs]
  rcases lt_or_gt_of_ne h0 with h1 | h1
  · have := OnLat.gap hδ hh (OnLat.zero δ) h1
    rw [abs_of_neg h1]; linarith
  · have := OnLat.gap hδ (OnLat.zero δ) hh h1
    rw [abs_of_pos h1]; linarith

/-- the lattice width dominates every threshold of the code -/
structure Grid (cfg : Cfg) (δ : Rat) : Prop where
  pos : 0 < δ
  size : cfg.minSize < δ
  epsPos : 0 < cfg.eps10
  eps : cfg.eps10 ≤ δ
  tol0 : 0 ≤ cfg.relTol
  tol : cfg.relTol * cfg.len < δ

/-- precondition of `__integrate`: ordered, lattice-aligned intervals inside `[0, len]`; on a closed
curve two intervals that meet at the seam (`a = 0`, `d = len`) do not overlap -/
structure WellPosed (cfg : Cfg) (δ a b c d : Rat) : Prop where
  la : OnLat δ a
  lb : OnLat δ b
  lc : OnLat δ c
  ld : OnLat δ d
  ab : a < b
  cd : c < d
  lex : a < c ∨ (a = c ∧ b ≤ d)
  a0 : 0 ≤ a
  bL : b ≤ cfg.len
  dL : d ≤ cfg.len
  seam : cfg.glue = true → a = 0 → d = cfg.len → b ≤ c

variable {cfg : Cfg} {δ a b c d : Rat}

theorem WellPosed.ac (h : WellPosed cfg δ a b c d) : a ≤ c := by
  rcases h.lex with h1 | ⟨h1, _⟩ <;> linarith

theorem WellPosed.base (hG : Grid cfg δ) (h : WellPosed cfg δ a b c d) : Base cfg a b c d :=
  ⟨by have := OnLat.gap hG.pos h.la h.lb h.ab; linarith [hG.size],
   by have := OnLat.gap hG.pos h.lc h.ld h.cd; linarith [hG.size], h.ab, h.cd, h.lex⟩

theorem not_isclose (hG : Grid cfg δ) {u v : Rat} (hu : OnLat δ u) (hv : OnLat δ v) (hne : u ≠ v)
    (hu0 : 0 ≤ u) (hu1 : u ≤ cfg.len) (hv0 : 0 ≤ v) (hv1 : v ≤ cfg.len) : isclose cfg u v = false := by
  unfold isclose
  rw [decide_eq_false_iff_not, not_le]
  have h1 : δ ≤ absR (u - v) := OnLat.abs_gap hG.pos (hu.sub hv) (sub_ne_zero.mpr hne)
  have h2 : maxR (absR u) (absR v) ≤ cfg.len := by
    rw [maxR_eq_max, absR_eq_abs, absR_eq_abs, abs_of_nonneg hu0, abs_of_nonneg hv0]
    exact max_le hu1 hv1
  have h3 : cfg.relTol * maxR (absR u) (absR v) ≤ cfg.relTol * cfg.len :=
    mul_le_mul_of_nonneg_left h2 hG.tol0
  linarith [hG.tol]

theorem sq_iff (hG : Grid cfg δ) {h : Rat} (hh : OnLat δ h) : absR h < cfg.eps10 ↔ h = 0 := by
  constructor
  · intro h1
    by_contra h0
    have := OnLat.abs_gap hG.pos hh h0
    linarith [hG.eps]
  · rintro rfl
    rw [absR_eq_abs, abs_zero]; exact hG.epsPos

theorem WellPosed.lat_diff (h : WellPosed cfg δ a b c d) : OnLat δ ((b - a) - (d - c)) :=
  (h.lb.sub h.la).sub (h.ld.sub h.lc)

/-- guards passed when the intervals neither coincide nor touch -/
theorem WellPosed.apart (hG : Grid cfg δ) (h : WellPosed cfg δ a b c d) (h1 : ¬(a = c ∧ b = d))
    (h2 : b ≠ c) : Apart cfg a b c d := by
  refine ⟨h.base hG, h1, h2, ?_⟩
  have := h.ab; have := h.cd; have := h.ac
  exact not_isclose hG h.lb h.lc h2 (by linarith [h.a0]) h.bL (by linarith [h.a0]) (by linarith [h.dL])

/-- disjoint, not at the seam: one logarithmic panel -/
theorem total_far (hG : Grid cfg δ) (h : WellPosed cfg δ a b c d) (hbc : b < c)
    (hs : ¬ Seam cfg a d) : ∃ ps, Tiles cfg 1 a b c d ps := by
  have hA : Apart cfg a b c d :=
    h.apart hG (by rintro ⟨h1, _⟩; linarith [h.ab]) (ne_of_lt hbc)
  by_cases hn : c - b < cfg.len - d + a ∨ cfg.glue = false
  · exact ⟨_, .farX hA hs hbc hn⟩
  · exact ⟨_, .farY hA hs hbc hn⟩

/-- disjoint: depth `≤ 2` -/
theorem total_disjoint (hG : Grid cfg δ) (h : WellPosed cfg δ a b c d) (hbc : b < c) :
    ∃ n ps, Tiles cfg n a b c d ps ∧ n ≤ 2 := by
  by_cases hs : Seam cfg a d
  · have hA : Apart cfg a b c d :=
      h.apart hG (by rintro ⟨h1, _⟩; linarith [h.ab]) (ne_of_lt hbc)
    have hab := h.ab; have hcd := h.cd; have ha0 := h.a0; have hdL := h.dL
    by_cases hsq : absR ((b - a) - (d - c)) < cfg.eps10
    · exact ⟨1, _, .seamSq hA hs hbc hsq, by omega⟩
    · have hne : (b - a) - (d - c) ≠ 0 := fun h0 => hsq ((sq_iff hG h.lat_diff).mpr h0)
      by_cases hw : d - c < b - a
      · have hW : WellPosed cfg δ (a + (d - c)) b c d :=
          ⟨h.la.add (h.ld.sub h.lc), h.lb, h.lc, h.ld, by linarith, hcd, Or.inl (by linarith),
            by linarith, h.bL, h.dL, fun _ h0 _ => by linarith⟩
        obtain ⟨ps, hps⟩ := total_far hG hW hbc (by rintro ⟨h0, _⟩; linarith)
        exact ⟨2, _, .seamWide hA hs hbc hsq hw hps, by omega⟩
      · have hlt : b - a < d - c := lt_of_le_of_ne (not_lt.mp hw) (fun h0 => hne (by linarith))
        have hW : WellPosed cfg δ a b c (d - (b - a)) :=
          ⟨h.la, h.lb, h.lc, h.ld.sub (h.lb.sub h.la), hab, by linarith, Or.inl (by linarith),
            ha0, h.bL, by linarith, fun _ _ h0 => by linarith⟩
        obtain ⟨ps, hps⟩ := total_far hG hW hbc (by rintro ⟨_, h0, _⟩; linarith)
        exact ⟨2, _, .seamTall hA hs hbc hsq hw hps, by omega⟩
  · obtain ⟨ps, hps⟩ := total_far hG h hbc hs
    exact ⟨1, ps, hps, by omega⟩

/-- touching (`b = c`): depth `≤ 3` -/
theorem total_touch (hG : Grid cfg δ) (h : WellPosed cfg δ a b c d) (hbc : b = c) :
    ∃ n ps, Tiles cfg n a b c d ps ∧ n ≤ 3 := by
  have hB := h.base hG
  have hab := h.ab; have hcd := h.cd; have ha0 := h.a0; have hdL := h.dL
  have hnid : ¬(a = c ∧ b = d) := by rintro ⟨h1, _⟩; linarith
  by_cases hsq : absR ((b - a) - (d - c)) < cfg.eps10
  · exact ⟨1, _, .touchSq hB hnid hbc hsq, by omega⟩
  · have hne : (b - a) - (d - c) ≠ 0 := fun h0 => hsq ((sq_iff hG h.lat_diff).mpr h0)
    by_cases hw : d - c < b - a
    · have hW : WellPosed cfg δ a (b - (d - c)) c d :=
        ⟨h.la, h.lb.sub (h.ld.sub h.lc), h.lc, h.ld, by linarith, hcd, Or.inl (by linarith),
          ha0, by linarith [h.bL], h.dL, fun _ _ _ => by linarith⟩
      obtain ⟨n, ps, hps, hn⟩ := total_disjoint hG hW (by linarith)
      exact ⟨n + 1, _, .touchWide hB hnid hbc hsq hw hps, by omega⟩
    · have hlt : b - a < d - c := lt_of_le_of_ne (not_lt.mp hw) (fun h0 => hne (by linarith))
      have hW : WellPosed cfg δ a b (c + (b - a)) d :=
        ⟨h.la, h.lb, h.lc.add (h.lb.sub h.la), h.ld, hab, by linarith, Or.inl (by linarith),
          ha0, h.bL, h.dL, fun _ _ _ => by linarith⟩
      obtain ⟨n, ps, hps, hn⟩ := total_disjoint hG hW (by linarith)
      exact ⟨n + 1, _, .touchTall hB hnid hbc hsq hw hps, by omega⟩

/-- common start, the first interval shorter: depth `≤ 4` -/
theorem total_nest (hG : Grid cfg δ) (h : WellPosed cfg δ a b c d) (hac : a = c) (hbd : b < d) :
    ∃ n ps, Tiles cfg n a b c d ps ∧ n ≤ 4 := by
  have hab := h.ab; have hcd := h.cd; have ha0 := h.a0; have hdL := h.dL
  have hA : Apart cfg a b c d :=
    h.apart hG (by rintro ⟨_, h1⟩; linarith) (by intro h1; linarith)
  have hs : ¬ Seam cfg a d := by
    rintro ⟨h1, h2, h3⟩; have := h.seam h3 h1 h2; linarith
  have hW1 : WellPosed cfg δ a b c b :=
    ⟨h.la, h.lb, h.lc, h.lb, hab, by linarith, Or.inr ⟨hac, le_refl _⟩, ha0, h.bL, h.bL,
      fun _ _ h0 => by linarith⟩
  have hW2 : WellPosed cfg δ a b b d :=
    ⟨h.la, h.lb, h.lb, h.ld, hab, hbd, Or.inl hab, ha0, h.bL, h.dL, fun _ _ _ => le_refl _⟩
  have ht1 : Tiles cfg 1 a b c b _ := .ident (hW1.base hG) hac rfl
  obtain ⟨n, ps, hps, hn⟩ := total_touch hG hW2 rfl
  exact ⟨max 1 n + 1, _, .nest hA hs (by intro h1; linarith) (by intro h1; linarith) hac hbd ht1 hps,
    by omega⟩

/-- staggered overlap `a < c < b ≤ d`: depth `≤ 5`, and `≤ 4` if `b = d` -/
theorem total_stag (hG : Grid cfg δ) (h : WellPosed cfg δ a b c d) (hac : a < c) (hcb : c < b)
    (hbd : b ≤ d) : ∃ n ps, Tiles cfg n a b c d ps ∧ n ≤ 5 ∧ (b = d → n ≤ 4) := by
  have hab := h.ab; have hcd := h.cd; have ha0 := h.a0; have hdL := h.dL
  have hA : Apart cfg a b c d :=
    h.apart hG (by rintro ⟨h1, _⟩; linarith) (by intro h1; linarith)
  have hs : ¬ Seam cfg a d := by
    rintro ⟨h1, h2, h3⟩; have := h.seam h3 h1 h2; linarith
  have hcl : isclose cfg a c = false :=
    not_isclose hG h.la h.lc (ne_of_lt hac) ha0 (by linarith [h.bL]) (by linarith) (by linarith)
  have hW1 : WellPosed cfg δ a c c d :=
    ⟨h.la, h.lc, h.lc, h.ld, hac, hcd, Or.inl hac, ha0, by linarith, h.dL, fun _ _ _ => le_refl _⟩
  have hW2 : WellPosed cfg δ c b c d :=
    ⟨h.lc, h.lb, h.lc, h.ld, hcb, hcd, Or.inr ⟨rfl, hbd⟩, by linarith, h.bL, h.dL,
      fun _ h0 _ => by linarith⟩
  obtain ⟨n1, ps1, hps1, hn1⟩ := total_touch hG hW1 rfl
  rcases eq_or_lt_of_le hbd with hbd' | hbd'
  · have ht2 : Tiles cfg 1 c b c d _ := .ident (hW2.base hG) rfl hbd'
    exact ⟨max n1 1 + 1, _,
      .stag hA hs (by intro h1; linarith) (by intro h1; linarith) (ne_of_lt hac) hcl hac hps1 ht2,
      by omega, fun _ => by omega⟩
  · obtain ⟨n2, ps2, hps2, hn2⟩ := total_nest hG hW2 rfl hbd'
    exact ⟨max n1 n2 + 1, _,
      .stag hA hs (by intro h1; linarith) (by intro h1; linarith) (ne_of_lt hac) hcl hac hps1 hps2,
      by omega, fun h0 => by linarith⟩

/-- the first interval reaches beyond the second (`d < b`): depth `≤ 5` -/
theorem total_over (hG : Grid cfg δ) (h : WellPosed cfg δ a b c d) (hdb : d < b) :
    ∃ n ps, Tiles cfg n a b c d ps ∧ n ≤ 5 := by
  have hab := h.ab; have hcd := h.cd; have ha0 := h.a0; have hdL := h.dL
  have hac : a < c := by rcases h.lex with h1 | ⟨_, h1⟩ <;> [exact h1; linarith]
  have hA : Apart cfg a b c d :=
    h.apart hG (by rintro ⟨h1, _⟩; linarith) (by intro h1; linarith)
  have hs : ¬ Seam cfg a d := by
    rintro ⟨h1, h2, h3⟩; have := h.seam h3 h1 h2; linarith
  have hW : WellPosed cfg δ a d c d :=
    ⟨h.la, h.ld, h.lc, h.ld, by linarith, hcd, Or.inl hac, ha0, h.dL, h.dL,
      fun _ _ h0 => by linarith [h.bL]⟩
  obtain ⟨n, ps, hps, _, hn⟩ := total_stag hG hW hac hcd (le_refl _)
  have := hn rfl
  exact ⟨n + 1, _, .over hA hs (by intro h1; linarith) hdb hps, by omega⟩

/-- **totality**: on a well-posed lattice input there is a derivation of depth `≤ 5` -/
theorem total_tiles (hG : Grid cfg δ) (h : WellPosed cfg δ a b c d) :
    ∃ n ps, Tiles cfg n a b c d ps ∧ n ≤ 5 := by
  have hab := h.ab; have hcd := h.cd
  by_cases hid : a = c ∧ b = d
  · exact ⟨1, _, .ident (h.base hG) hid.1 hid.2, by omega⟩
  rcases lt_trichotomy b c with hbc | hbc | hbc
  · obtain ⟨n, ps, hps, hn⟩ := total_disjoint hG h hbc
    exact ⟨n, ps, hps, by omega⟩
  · obtain ⟨n, ps, hps, hn⟩ := total_touch hG h hbc
    exact ⟨n, ps, hps, by omega⟩
  · by_cases hdb : d < b
    · exact total_over hG h hdb
    · have hbd := not_lt.mp hdb
      rcases h.lex with hac | ⟨hac, _⟩
      · obtain ⟨n, ps, hps, hn, _⟩ := total_stag hG h hac hbc hbd
        exact ⟨n, ps, hps, hn⟩
      · have : b < d := lt_of_le_of_ne hbd (fun h0 => hid ⟨hac, h0⟩)
        obtain ⟨n, ps, hps, hn⟩ := total_nest hG h hac this
        exact ⟨n, ps, hps, by omega⟩

/-- `panels` with fuel `≥ 5` succeeds on a well-posed lattice input -/
theorem panels_total_of_le (hG : Grid cfg δ) (h : WellPosed cfg δ a b c d) (fuel : Nat)
    (hf : 5 ≤ fuel) : ∃ ps, panels cfg fuel a b c d = .ok ps := by
  obtain ⟨n, ps, hps, hn⟩ := total_tiles hG h
  exact ⟨ps, hps.panels fuel (by omega)⟩

end Stbem.SL
