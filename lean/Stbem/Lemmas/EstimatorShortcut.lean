import Stbem.Lemmas.EstimatorAccum

/-!
# `estimate_sobolev` (neighbour-symmetry shortcut + accumulation) = direct definition

Generic in the neighbour lists `NN` and in the pair functional `F`.
-/
namespace Stbem.Estimator
open Stbem.Mesh

/-! ### `mapM` in `Except` -/

theorem mapM_ok {α β} (f : α → Except String β) (g : α → β) :
    ∀ l : List α, (∀ a ∈ l, f a = .ok (g a)) → l.mapM f = .ok (l.map g) := by
  intro l
  induction l with
  | nil => intro _; rfl
  | cons x l ih =>
    intro h
    rw [List.mapM_cons, h x (by simp), ih (fun a ha => h a (List.mem_cons_of_mem _ ha))]
    rfl

theorem mapM_id_ok {β} (g : Nat → β) (l : List Nat) :
    (l.map fun i => (Except.ok (g i) : Except String β)).mapM id = .ok (l.map g) := by
  induction l with
  | nil => rfl
  | cons x l ih =>
    rw [List.map_cons, List.mapM_cons, ih]
    rfl

/-! ### the value of one `sobolev_space` / `sobolev_time` call -/

/-- the neighbours that are evaluated -/
def kept (sym : Bool) (e : Cell) (ns : List Cell) : List Cell :=
  ns.filter fun n => !(sym && decide (e.id > n.id))

/-- `(fsum, ips)` for a total pair functional -/
def loopVal (F : Cell → Cell → Rat) (sym : Bool) (e : Cell) (ns : List Cell) : Rat × List (Nat × Rat) :=
  (lsum ((kept sym e ns).map (F e)), (kept sym e ns).map fun n => (n.id, F e n))

theorem sobolevLoop_ok (ev : Cell → Cell → Except String Rat) (F : Cell → Cell → Rat) (sym : Bool)
    (e : Cell) (ns : List Cell) (hev : ∀ n ∈ ns, ev e n = .ok (F e n)) (he : e ∈ ns) :
    sobolevLoop ev sym e ns = .ok (loopVal F sym e ns) := by
  unfold sobolevLoop
  have hk : e ∈ kept sym e ns := by
    unfold kept
    rw [List.mem_filter]
    refine ⟨he, ?_⟩
    simp
  have h1 : (kept sym e ns).mapM (fun n => do let v ← ev e n; pure (n.id, v)) =
      .ok ((kept sym e ns).map fun n => (n.id, F e n)) := by
    apply mapM_ok
    intro n hn
    have : n ∈ ns := (List.mem_filter.mp hn).1
    rw [hev n this]
    rfl
  unfold kept at h1 hk
  rw [h1]
  have hlen : ¬ ((List.filter (fun n => !(sym && decide (e.id > n.id))) ns).map fun n => (n.id, F e n)).length < 1 := by
    rw [List.length_map]
    have := List.length_pos_of_mem hk
    omega
  simp only [bind, Except.bind, hlen, if_false]
  simp only [pure, Except.pure, loopVal, kept, List.map_map]
  rfl

/-! ### `glob_2_loc` -/

theorem glob2loc_go_notin (id : Nat) :
    ∀ (l : List Cell) (i : Nat) (found : Option Nat), (∀ x ∈ l, x.id ≠ id) → glob2loc.go id i found l = found := by
  intro l
  induction l with
  | nil => intro i found _; rfl
  | cons a l ih =>
    intro i found h
    unfold glob2loc.go
    rw [if_neg (h a (by simp)), ih _ _ (fun x hx => h x (List.mem_cons_of_mem _ hx))]

theorem glob2loc_go_some (e : Cell) :
    ∀ (l : List Cell) (i j : Nat) (found : Option Nat), (l.map (·.id)).Nodup → l[j]? = some e →
      glob2loc.go e.id i found l = some (i + j) := by
  intro l
  induction l with
  | nil => intro i j found _ h; simp at h
  | cons a l ih =>
    intro i j found hnd h
    rw [List.map_cons, List.nodup_cons] at hnd
    unfold glob2loc.go
    cases j with
    | zero =>
      simp only [List.getElem?_cons_zero, Option.some.injEq] at h
      subst h
      rw [if_pos rfl, glob2loc_go_notin]
      · rfl
      · intro x hx hid
        exact hnd.1 (by rw [← hid]; exact List.mem_map_of_mem hx)
    | succ j =>
      simp only [List.getElem?_cons_succ] at h
      rw [ih (i + 1) j _ hnd.2 h]
      congr 1; omega

theorem glob2loc_some (elems : List Cell) (hid : (elems.map (·.id)).Nodup) (k : Nat) (c : Cell)
    (hk : elems[k]? = some c) : glob2loc elems c.id = some k := by
  unfold glob2loc
  rw [glob2loc_go_some c elems 0 k none hid hk]
  simp

/-! ### enumeration -/

theorem enumFrom'_map_snd {α β} (φ : α → β) : ∀ (l : List α) (i : Nat),
    (enumFrom' i l).map (fun p => φ p.2) = l.map φ := by
  intro l
  induction l with
  | nil => intro i; rfl
  | cons a l ih => intro i; simp only [enumFrom', List.map_cons, ih]

theorem enumFrom'_map {α β γ} (h : α → β) (G : Nat → β → γ) : ∀ (l : List α) (i : Nat),
    (enumFrom' i (l.map h)).map (fun p => G p.1 p.2) = (enumFrom' i l).map (fun p => G p.1 (h p.2)) := by
  intro l
  induction l with
  | nil => intro i; rfl
  | cons a l ih => intro i; simp only [List.map_cons, enumFrom', ih]

theorem mem_enumFrom' {α} : ∀ (l : List α) (i : Nat) (p : Nat × α), p ∈ enumFrom' i l →
    i ≤ p.1 ∧ l[p.1 - i]? = some p.2 := by
  intro l
  induction l with
  | nil => intro i p h; simp [enumFrom'] at h
  | cons a l ih =>
    intro i p h
    simp only [enumFrom', List.mem_cons] at h
    rcases h with rfl | h
    · simp
    · obtain ⟨h1, h2⟩ := ih (i + 1) p h
      refine ⟨by omega, ?_⟩
      have : p.1 - i = (p.1 - (i + 1)) + 1 := by omega
      rw [this, List.getElem?_cons_succ]
      exact h2

theorem zip_map_self {α β} (R : α → β) : ∀ l : List α, l.zip (l.map R) = l.map fun e => (e, R e) := by
  intro l
  induction l with
  | nil => rfl
  | cons a l ih => simp only [List.map_cons, List.zip_cons_cons, ih]

theorem zip_map_map {α β γ} (A : α → β) (B : α → γ) : ∀ l : List α,
    (l.map A).zip (l.map B) = l.map fun e => (A e, B e) := by
  intro l
  induction l with
  | nil => rfl
  | cons a l ih => simp only [List.map_cons, List.zip_cons_cons, ih]

theorem gather_flatten (ls : List (List (Nat × Rat))) (k : Nat) :
    gather ls.flatten k = lsum (ls.map fun l => gather l k) := by
  induction ls with
  | nil => rfl
  | cons l ls ih => rw [List.flatten_cons, gather_append, ih, List.map_cons, lsum_cons]

theorem gather_map {α} (l : List α) (ix : α → Nat) (v : α → Rat) (k : Nat) :
    gather (l.map fun a => (ix a, v a)) k = lsum (l.map fun a => if ix a = k then v a else 0) := by
  unfold gather
  rw [List.map_map]
  rfl

/-! ### the main identity -/

/-- position of an index in the element list -/
def loc (elems : List Cell) (id : Nat) : Nat := (glob2loc elems id).getD 0

/-- what element number `i` contributes -/
def contribVal (elems : List Cell) (NN : Cell → List Cell) (F : Cell → Cell → Rat) (i : Nat) (e : Cell) :
    List (Nat × Rat) :=
  (i, lsum ((kept true e (NN e)).map (F e))) ::
    ((NN e).filter fun n => decide (e.id < n.id)).map fun n => (loc elems n.id, F e n)

theorem filter_kept_lt (e : Cell) (ns : List Cell) :
    (kept true e ns).filter (fun n => decide (e.id < n.id)) = ns.filter fun n => decide (e.id < n.id) := by
  unfold kept
  rw [List.filter_filter]
  apply List.filter_congr
  intro n _
  by_cases h : e.id < n.id
  · have : ¬ e.id > n.id := by omega
    simp [h, this]
  · simp [h]

theorem contribs_ok (elems : List Cell) (NN : Cell → List Cell) (F : Cell → Cell → Rat)
    (hid : (elems.map (·.id)).Nodup) (hclosed : ∀ c ∈ elems, ∀ n ∈ NN c, n ∈ elems)
    (i : Nat) (e : Cell) (he : e ∈ elems) :
    contribs elems i e (loopVal F true e (NN e)) = .ok (contribVal elems NN F i e) := by
  unfold contribs loopVal
  simp only
  have h1 : (List.filter (fun p : Nat × Rat => decide (e.id < p.1))
        ((kept true e (NN e)).map fun n => (n.id, F e n))) =
      ((NN e).filter fun n => decide (e.id < n.id)).map fun n => (n.id, F e n) := by
    rw [List.filter_map]
    have : ((fun p : Nat × Rat => decide (e.id < p.1)) ∘ fun n : Cell => (n.id, F e n)) =
        fun n : Cell => decide (e.id < n.id) := rfl
    rw [this, filter_kept_lt]
  rw [h1]
  have h2 : (((NN e).filter fun n => decide (e.id < n.id)).map fun n => (n.id, F e n)).mapM (lookup elems) =
      .ok ((((NN e).filter fun n => decide (e.id < n.id)).map fun n => (n.id, F e n)).map
        fun p => (loc elems p.1, p.2)) := by
    apply mapM_ok
    intro p hp
    obtain ⟨n, hn, rfl⟩ := List.mem_map.mp hp
    have hn' : n ∈ elems := hclosed e he n (List.mem_filter.mp hn).1
    obtain ⟨k, hk⟩ := List.getElem?_of_mem hn'
    have := glob2loc_some elems hid k n hk
    simp only [lookup, this, loc, Option.getD_some]
  rw [h2]
  simp only [bind, Except.bind, pure, Except.pure, contribVal, List.map_map]
  rfl

theorem accumulate_ok (elems : List Cell) (NN : Cell → List Cell) (F : Cell → Cell → Rat)
    (hid : (elems.map (·.id)).Nodup) (hclosed : ∀ c ∈ elems, ∀ n ∈ NN c, n ∈ elems) :
    accumulate elems (elems.map fun e => loopVal F true e (NN e)) =
      .ok ((List.range elems.length).map
        (gather ((enumFrom' 0 elems).map fun p => contribVal elems NN F p.1 p.2).flatten)) := by
  unfold accumulate
  rw [zip_map_self]
  have h : (enumFrom' 0 (elems.map fun e => (e, loopVal F true e (NN e)))).mapM
        (fun p => contribs elems p.1 p.2.1 p.2.2) =
      .ok ((enumFrom' 0 (elems.map fun e => (e, loopVal F true e (NN e)))).map
        fun p => contribVal elems NN F p.1 p.2.1) := by
    apply mapM_ok
    intro p hp
    obtain ⟨_, h2⟩ := mem_enumFrom' _ _ _ hp
    have hm := List.mem_of_getElem? h2
    obtain ⟨e, he, hpe⟩ := List.mem_map.mp hm
    rw [← hpe]
    exact contribs_ok elems NN F hid hclosed p.1 e he
  rw [h]
  simp only [bind, Except.bind, pure, Except.pure]
  rw [foldl_addAt_eq]
  rw [enumFrom'_map (fun e => (e, loopVal F true e (NN e))) (fun i q => contribVal elems NN F i q.1)]

/-! ### double counting -/

theorem lsum_indicator_filter {α} [DecidableEq α] (p : α → Bool) (c : α) (g : α → Rat) (l : List α) :
    lsum ((l.filter p).map fun n => if n = c then g n else 0) =
      if p c = true then (l.count c : Rat) * g c else 0 := by
  induction l with
  | nil => simp [lsum_nil]
  | cons x l ih =>
    by_cases hx : x = c
    · subst hx
      by_cases hp : p x = true
      · rw [List.filter_cons, if_pos hp, List.map_cons, lsum_cons, ih, if_pos hp, if_pos hp, if_pos rfl]
        simp; ring
      · rw [List.filter_cons, if_neg hp, ih]
        simp [hp]
    · by_cases hp : p x = true
      · rw [List.filter_cons, if_pos hp, List.map_cons, lsum_cons, ih, if_neg hx]
        have : (x == c) = false := by simpa using hx
        simp [List.count_cons, this]
      · rw [List.filter_cons, if_neg hp, ih]
        have : (x == c) = false := by simpa using hx
        simp [List.count_cons, this]

theorem count_filter_ite {α} [DecidableEq α] (p : α → Bool) (a : α) (l : List α) :
    (l.filter p).count a = if p a = true then l.count a else 0 := by
  by_cases h : p a = true
  · rw [if_pos h, List.count_filter h]
  · rw [if_neg h]
    apply List.count_eq_zero_of_not_mem
    intro hm
    exact h (List.mem_filter.mp hm).2

theorem getElem?_inj_of_nodup {α} {l : List α} (hnd : l.Nodup) {i j : Nat} {a : α}
    (hi : l[i]? = some a) (hj : l[j]? = some a) : i = j := by
  obtain ⟨h1, e1⟩ := List.getElem?_eq_some_iff.mp hi
  obtain ⟨h2, e2⟩ := List.getElem?_eq_some_iff.mp hj
  exact (List.Nodup.getElem_inj_iff hnd).mp (e1.trans e2.symm)

/-- the entry of the assembled array for the element `c = elems[k]` is the direct sum over `NN c` -/
theorem gather_contribs (elems : List Cell) (NN : Cell → List Cell) (F : Cell → Cell → Rat)
    (hid : (elems.map (·.id)).Nodup) (hclosed : ∀ c ∈ elems, ∀ n ∈ NN c, n ∈ elems)
    (hcount : ∀ a ∈ elems, ∀ b ∈ elems, (NN a).count b = (NN b).count a)
    (hF : ∀ a ∈ elems, ∀ b ∈ NN a, F a b = F b a)
    (k : Nat) (c : Cell) (hk : elems[k]? = some c) :
    gather ((enumFrom' 0 elems).map fun p => contribVal elems NN F p.1 p.2).flatten k =
      lsum ((NN c).map (F c)) := by
  have hnd : elems.Nodup := List.Nodup.of_map _ hid
  have hc : c ∈ elems := List.mem_of_getElem? hk
  rw [gather_flatten, List.map_map]
  -- every summand as a function of the element only
  have h1 : ∀ p ∈ enumFrom' 0 elems,
      ((fun l => gather l k) ∘ fun p : Nat × Cell => contribVal elems NN F p.1 p.2) p =
      (fun e => (if e = c then lsum ((kept true e (NN e)).map (F e)) else 0) +
        (if decide (e.id < c.id) = true then ((NN e).count c : Rat) * F e c else 0)) p.2 := by
    intro p hp
    obtain ⟨_, hp2⟩ := mem_enumFrom' _ _ _ hp
    simp only [Nat.sub_zero] at hp2
    have hpe : p.2 ∈ elems := List.mem_of_getElem? hp2
    simp only [Function.comp, contribVal, gather_cons, gather_map]
    congr 1
    · by_cases h : p.1 = k
      · have : p.2 = c := by rw [h, hk] at hp2; exact (Option.some.inj hp2).symm
        rw [if_pos h, if_pos this]
      · have : p.2 ≠ c := by
          intro e; rw [e] at hp2; exact h (getElem?_inj_of_nodup hnd hp2 hk)
        rw [if_neg h, if_neg this]
    · rw [← lsum_indicator_filter (fun n => decide (p.2.id < n.id)) c (F p.2) (NN p.2)]
      apply lsum_map_congr
      intro n hn
      have hn' : n ∈ elems := hclosed p.2 hpe n (List.mem_filter.mp hn).1
      obtain ⟨j, hj⟩ := List.getElem?_of_mem hn'
      have hl : loc elems n.id = j := by
        unfold loc; rw [glob2loc_some elems hid j n hj]; rfl
      by_cases h : n = c
      · subst h
        rw [if_pos rfl, if_pos]
        rw [hl]; exact getElem?_inj_of_nodup hnd hj hk
      · rw [if_neg h, if_neg]
        rw [hl]; intro e; subst e
        rw [hk] at hj; exact h (Option.some.inj hj).symm
  rw [lsum_map_congr _ _ _ h1,
    enumFrom'_map_snd (fun e => (if e = c then lsum ((kept true e (NN e)).map (F e)) else 0) +
        (if decide (e.id < c.id) = true then ((NN e).count c : Rat) * F e c else 0)) elems 0,
    lsum_map_add, lsum_single elems hnd c hc]
  -- the contributions of the neighbours with smaller index
  have h2 : lsum (elems.map fun e => if decide (e.id < c.id) = true then ((NN e).count c : Rat) * F e c else 0) =
      lsum (((NN c).filter fun n => decide (n.id < c.id)).map (F c)) := by
    rw [lsum_by_count elems hnd (F c) _ (fun a ha => hclosed c hc a (List.mem_filter.mp ha).1)]
    apply lsum_map_congr
    intro e he
    rw [count_filter_ite]
    by_cases h : decide (e.id < c.id) = true
    · rw [if_pos h, if_pos h, hcount e he c hc]
      by_cases hz : (NN c).count e = 0
      · rw [hz]; simp
      · have hm : e ∈ NN c := List.count_pos_iff.mp (Nat.pos_of_ne_zero hz)
        rw [hF c hc e hm]
    · rw [if_neg h, if_neg h]; simp
  rw [h2, lsum_filter_split (fun n => decide (n.id < c.id)) (F c) (NN c)]
  have h3 : kept true c (NN c) = (NN c).filter fun a => !decide (a.id < c.id) := by
    unfold kept
    apply List.filter_congr
    intro n _
    simp
  rw [h3]; ring

/-- **shortcut = direct sum** (one column of the array) -/
theorem accumulate_eq (elems : List Cell) (NN : Cell → List Cell) (F : Cell → Cell → Rat)
    (hid : (elems.map (·.id)).Nodup) (hclosed : ∀ c ∈ elems, ∀ n ∈ NN c, n ∈ elems)
    (hcount : ∀ a ∈ elems, ∀ b ∈ elems, (NN a).count b = (NN b).count a)
    (hF : ∀ a ∈ elems, ∀ b ∈ NN a, F a b = F b a) :
    accumulate elems (elems.map fun e => loopVal F true e (NN e)) =
      .ok (elems.map fun c => lsum ((NN c).map (F c))) := by
  rw [accumulate_ok elems NN F hid hclosed]
  congr 1
  apply List.ext_getElem
  · simp
  · intro k h1 h2
    have hk : k < elems.length := by simpa using h1
    rw [List.getElem_map, List.getElem_map, List.getElem_range]
    exact gather_contribs elems NN F hid hclosed hcount hF k elems[k] (List.getElem?_eq_getElem hk)

end Stbem.Estimator
