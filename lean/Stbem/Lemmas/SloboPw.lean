import Stbem.Lemmas.SloboSpan

/-! The two-piece rule `semi12pw`: pull-back form, moment form, exactness on the unit square;
sign / constants / scaling of the complete two-piece routine. -/
namespace Stbem.Quad

/-- pull-back form of the two-piece rule: both triangles of the unit square (split along the
diagonal through the singular corner `(1, 0)`) are images of the square under
`(x, y) ↦ (1 - x, x y)` and `(x, y) ↦ (1 - x y, x)`; the Jacobian `x` is carried by the weight of `gx` -/
theorem apply2_semi12pw (gx gl : Rule1) (F : Rat → Rat → Rat) :
    apply2 (semi12pw gx gl) F =
      apply2 (product2 gx gl) (fun x y => F (1 - x) (x * y) + F (1 - x * y) x) := by
  unfold semi12pw
  rw [apply2_append]
  unfold apply2
  simp only [List.map_map, Function.comp_def]
  rw [← sumR_map_add]
  apply sumR_map_congr
  intro n _
  ring

theorem apply2_sum_range (r : Rule2) (F : Nat → Rat → Rat → Rat) (k : Nat) :
    apply2 r (fun x y => (Finset.range k).sum fun m => F m x y) =
      (Finset.range k).sum fun m => apply2 r (F m) := by
  induction k with
  | zero => simp [apply2_zero]
  | succ k ih =>
    simp only [Finset.sum_range_succ]
    rw [apply2_add r (fun x y => (Finset.range k).sum fun m => F m x y) (F k), ih]

theorem one_sub_pow (z : Rat) (k : Nat) :
    (1 - z) ^ k = (Finset.range (k + 1)).sum (fun m => ((k.choose m : Rat) * (-1) ^ m) * z ^ m) := by
  have h := add_pow (-z) 1 k
  have e : (1 - z) = -z + 1 := by ring
  rw [e, h]
  apply Finset.sum_congr rfl
  intro m _
  rw [neg_pow]; ring

/-- moment form of the two-piece rule on a monomial (no hypothesis on the rules) -/
theorem semi12pw_monomial (gx gl : Rule1) (i j : Nat) :
    apply2 (semi12pw gx gl) (fun s t => s ^ i * t ^ j) =
      (Finset.range (i + 1)).sum fun m => ((i.choose m : Rat) * (-1) ^ m) *
        (mom gx (j + m) * mom gl j + mom gx (j + m) * mom gl m) := by
  rw [apply2_semi12pw]
  have e : (fun x y : Rat => (1 - x) ^ i * (x * y) ^ j + (1 - x * y) ^ i * x ^ j) =
      fun x y => (Finset.range (i + 1)).sum fun m => ((i.choose m : Rat) * (-1) ^ m) *
        (x ^ (j + m) * y ^ j + x ^ (j + m) * y ^ m) := by
    funext x y
    rw [one_sub_pow x i, one_sub_pow (x * y) i, Finset.sum_mul, Finset.sum_mul, ← Finset.sum_add_distrib]
    apply Finset.sum_congr rfl
    intro m _
    rw [mul_pow, mul_pow, pow_add]
    ring
  rw [e, apply2_sum_range]
  apply Finset.sum_congr rfl
  intro m _
  rw [apply2_smul, apply2_add, product2_monomial, product2_monomial]

/-- **the two-piece cross rule is exact for polynomial integrands on the unit square**: if the
`x`-weighted rule has the moments `1/(k+2)` and the Legendre rule the moments `1/(k+1)` up to order
`n`, every monomial `sⁱ tʲ` of total degree `≤ n` is integrated exactly -/
theorem semi12pw_exact {gx gl : Rule1} {n : Nat} (hx : ∀ k, k ≤ n → mom gx k = 1 / ((k : Rat) + 2))
    (hl : Exact1 gl n) (i j : Nat) (hij : i + j ≤ n) :
    apply2 (semi12pw gx gl) (fun s t => s ^ i * t ^ j) = 1 / (((i : Rat) + 1) * ((j : Rat) + 1)) := by
  rw [semi12pw_monomial]
  have hj1 : ((j : Rat) + 1) ≠ 0 := by positivity
  have hi1 : ((i : Rat) + 1) ≠ 0 := by positivity
  have key : ∀ m ∈ Finset.range (i + 1), ((i.choose m : Rat) * (-1) ^ m) *
      (mom gx (j + m) * mom gl j + mom gx (j + m) * mom gl m) =
        (1 / ((j : Rat) + 1)) * (((i.choose m : Rat) * (-1) ^ m) / ((m : Rat) + 1)) := by
    intro m hm
    have hm' : m ≤ i := by have := Finset.mem_range.mp hm; omega
    rw [hx (j + m) (by omega), hl j (by omega), hl m (by omega)]
    have h1 : ((j : Rat) + (m : Rat) + 2) ≠ 0 := by positivity
    have h2 : ((m : Rat) + 1) ≠ 0 := by positivity
    push_cast
    field_simp
    ring
  rw [Finset.sum_congr rfl key, ← Finset.mul_sum, alt_choose_sum]
  field_simp

/-- the weights of the two-piece rule mapped to a rectangle sum to its area -/
theorem semi12pw_measure {gx gl : Rule1} (hx : mom gx 0 = 1 / 2) (hl : mom gl 0 = 1) (a1 b1 a2 b2 : Rat) :
    integrate2 (semi12pw gx gl) (fun _ _ => 1) a1 b1 a2 b2 = (b1 - a1) * (b2 - a2) := by
  rw [integrate2_eq]
  have h := semi12pw_exact (gx := gx) (gl := gl) (n := 0)
    (by intro k hk; have : k = 0 := by omega
        subst this; rw [hx]; norm_num)
    (by intro k hk; have : k = 0 := by omega
        subst this; rw [hl]; norm_num) 0 0 (le_refl _)
  simp only [pow_zero, mul_one, Nat.cast_zero, zero_add, div_one] at h
  rw [h]; ring

/-! ## the complete two-piece routine -/

theorem semi12pwVal_eq (gx gl : Rule1) (γ1 γ2 : Rat → Rat × Rat) (f : Rat → Rat × Rat → Rat)
    (a1 b1 a2 b2 : Rat) (hc : γ1 b1 = γ2 a2) (h1 : tol7 < b1 - a1) (h2 : tol7 < b2 - a2) :
    semi12pwVal gx gl false γ1 γ2 f a1 b1 a2 b2 =
      .ok (semi12g gx gl γ1 f a1 (b1 - a1) + semi12g gx gl γ2 f a2 (b2 - a2) +
        2 * integrate2 (semi12pw gx gl) (sloCross γ1 γ2 f) a1 b1 a2 b2) := by
  unfold semi12pwVal
  simp [hc, h1, h2]

theorem tol7_pos : 0 < tol7 := by unfold tol7; norm_num

theorem integrate2_smul (r : Rule2) (c : Rat) (F : Rat → Rat → Rat) (a b c' d : Rat) :
    integrate2 r (fun x y => c * F x y) a b c' d = c * integrate2 r F a b c' d := by
  rw [integrate2_eq, integrate2_eq, apply2_smul]; ring

theorem integrate2_zero (r : Rule2) (a b c d : Rat) : integrate2 r (fun _ _ => 0) a b c d = 0 := by
  rw [integrate2_eq, apply2_zero]; ring

/-- whenever the two-piece routine returns, its value is non-negative (non-negative weights) -/
theorem semi12pwVal_nonneg {gx gl : Rule1} {same : Bool} {γ1 γ2 : Rat → Rat × Rat}
    {f : Rat → Rat × Rat → Rat} {a1 b1 a2 b2 v : Rat}
    (hx : ∀ n ∈ gx, 0 ≤ n.w) (hl : ∀ n ∈ gl, 0 ≤ n.w)
    (h : semi12pwVal gx gl same γ1 γ2 f a1 b1 a2 b2 = .ok v) : 0 ≤ v := by
  obtain ⟨_, _, h1, h2, rfl⟩ := semi12pwVal_ok h
  have t := tol7_pos
  have c := semi12pw_nonneg gx gl γ1 γ2 f a1 b1 a2 b2 (by linarith) (by linarith) hx hl
  have p1 := semi12g_nonneg gx gl γ1 f a1 (b1 - a1) hx hl
  have p2 := semi12g_nonneg gx gl γ2 f a2 (b2 - a2) hx hl
  linarith

/-- the two-piece routine vanishes on constants -/
theorem semi12pwVal_const {gx gl : Rule1} {same : Bool} {γ1 γ2 : Rat → Rat × Rat} {c a1 b1 a2 b2 v : Rat}
    (h : semi12pwVal gx gl same γ1 γ2 (fun _ _ => c) a1 b1 a2 b2 = .ok v) : v = 0 := by
  obtain ⟨_, _, _, _, rfl⟩ := semi12pwVal_ok h
  rw [semi12g_const, semi12g_const]
  have : sloCross γ1 γ2 (fun _ _ => c) = fun _ _ => 0 := by
    funext x y; unfold sloCross; simp
  rw [this, integrate2_zero]; ring

/-- the two-piece routine scales quadratically (the assertions do not look at `f`) -/
theorem semi12pwVal_scale {gx gl : Rule1} {same : Bool} {γ1 γ2 : Rat → Rat × Rat}
    {f : Rat → Rat × Rat → Rat} {a1 b1 a2 b2 v : Rat} (c : Rat)
    (h : semi12pwVal gx gl same γ1 γ2 f a1 b1 a2 b2 = .ok v) :
    semi12pwVal gx gl same γ1 γ2 (fun x p => c * f x p) a1 b1 a2 b2 = .ok (c ^ 2 * v) := by
  obtain ⟨hs, hc, h1, h2, rfl⟩ := semi12pwVal_ok h
  subst hs
  rw [semi12pwVal_eq gx gl γ1 γ2 _ a1 b1 a2 b2 hc h1 h2, semi12g_scale, semi12g_scale]
  have : sloCross γ1 γ2 (fun x p => c * f x p) = fun x y => c ^ 2 * sloCross γ1 γ2 f x y := by
    funext x y; unfold sloCross; ring
  rw [this, integrate2_smul]
  congr 1; ring

end Stbem.Quad
