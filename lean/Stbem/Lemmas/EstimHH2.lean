import Stbem.Lemmas.EstimHier

/-!
# The h-h/2 estimator: checked solve, energy product, vanishing
-/
namespace Stbem.Estim
open Stbem.Gen.Consts

/-- whatever `solve` returns solves the system (the result is checked before it is returned) -/
theorem solve_sound {A : List (List Rat)} {b y : List Rat} (h : solve A b = some y) :
    mulVec A y = b ∧ y.length = b.length ∧ A.length = b.length := by
  unfold solve at h
  split at h
  · cases h
  · split at h
    · rename_i hc
      cases h
      exact ⟨hc.2.2, hc.1, hc.2.1⟩
    · cases h

/-- `A` is injective on vectors of length `n` -/
def InjOn (A : List (List Rat)) (n : Nat) : Prop :=
  ∀ y y' : List Rat, y.length = n → y'.length = n → mulVec A y = mulVec A y' → y = y'

theorem solve_unique {A : List (List Rat)} {b y p : List Rat} (hinj : InjOn A b.length)
    (h : solve A b = some y) (hp : mulVec A p = b) (hpl : p.length = b.length) : y = p := by
  obtain ⟨h1, h2, -⟩ := solve_sound h
  exact hinj y p h2 hpl (by rw [h1, hp])

theorem mkRhs_length (n : Nat) (g m0 : Option (List Rat)) (hg : ∀ v, g = some v → v.length = n)
    (hm : ∀ v, m0 = some v → v.length = n) : (mkRhs n g m0).length = n := by
  unfold mkRhs
  cases g with
  | none => cases m0 with
    | none => simp
    | some mv => simp [vsub, hm mv rfl]
  | some gv => cases m0 with
    | none => simp [vadd, hg gv rfl]
    | some mv => simp [vsub, vadd, hg gv rfl, hm mv rfl]

/-- the first two entries of the prolongation are equal: the assertion of the code cannot fail -/
theorem prolong4_first_two (phi : List Rat) : (prolong4 phi)[0]? = (prolong4 phi)[1]? := by
  have a := prolong4_get phi 0 0 (by omega)
  have b := prolong4_get phi 0 1 (by omega)
  simp only [Nat.mul_zero, Nat.zero_add] at a b
  rw [a, b]

/-- what a successful run returns -/
theorem hh2Sq_ok {A : List (List Rat)} {phi : List Rat} {g m0 : Option (List Rat)} {v : Rat}
    (h : hh2Sq A phi g m0 = .ok v) :
    ∃ y, solve A (mkRhs A.length g m0) = some y ∧ mulVec A y = mkRhs A.length g m0 ∧
      (prolong4 phi).length = y.length ∧
      mulVec A (vsub y (prolong4 phi)) = vsub (mkRhs A.length g m0) (mulVec A (prolong4 phi)) ∧
      v = dot (vsub y (prolong4 phi)) (mulVec A (vsub y (prolong4 phi))) := by
  unfold hh2Sq at h
  simp only at h
  split at h
  · cases h
  · rename_i y hy
    split at h
    · rename_i a b ha hb
      split at h
      · cases h
      · split at h
        · cases h
        · rename_i hne hlen
          cases h
          have hl : (prolong4 phi).length = y.length := by simpa using hlen
          obtain ⟨hs, -, -⟩ := solve_sound hy
          refine ⟨y, hy, hs, hl, ?_, rfl⟩
          rw [mulVec_vsub A hl.symm, hs]
    · cases h

/-- a run succeeds as soon as the fine solve does and the shapes fit -/
theorem hh2Sq_of_solve {A : List (List Rat)} {phi : List Rat} {g m0 : Option (List Rat)} {y : List Rat}
    (hy : solve A (mkRhs A.length g m0) = some y) (hne : phi ≠ []) (hl : (prolong4 phi).length = y.length) :
    hh2Sq A phi g m0 = .ok (dot (vsub y (prolong4 phi)) (mulVec A (vsub y (prolong4 phi)))) := by
  have hlen : 4 ≤ (prolong4 phi).length := by
    rw [prolong4_length]
    cases phi with
    | nil => exact absurd rfl hne
    | cons a l => simp
  have h01 := prolong4_first_two phi
  have h0 : (prolong4 phi)[0]? = some ((prolong4 phi)[0]'(by omega)) := List.getElem?_eq_getElem _
  have h1 : (prolong4 phi)[1]? = some ((prolong4 phi)[1]'(by omega)) := List.getElem?_eq_getElem _
  have heq : (prolong4 phi)[0]'(by omega) = (prolong4 phi)[1]'(by omega) := by
    rw [h0, h1] at h01
    exact Option.some.inj h01
  unfold hh2Sq
  simp only [hy, h0, h1, heq, ne_eq, not_true_eq_false, if_false, hl]

/-- if the piecewise-constant extension already solves the fine problem (and the fine matrix is injective),
the estimator vanishes -/
theorem hh2Sq_zero {A : List (List Rat)} {phi : List Rat} {g m0 : Option (List Rat)} {v : Rat}
    (hinj : InjOn A (mkRhs A.length g m0).length)
    (hsolves : mulVec A (prolong4 phi) = mkRhs A.length g m0)
    (h : hh2Sq A phi g m0 = .ok v) : v = 0 := by
  obtain ⟨y, hy, hs, hl, -, rfl⟩ := hh2Sq_ok h
  obtain ⟨-, hyl, -⟩ := solve_sound hy
  have : y = prolong4 phi := solve_unique hinj hy hsolves (by rw [hl, hyl])
  rw [this, vsub_self, dot_replicate_zero_left]

/-- variant without an injectivity hypothesis: the fine solve returned the extension itself -/
theorem hh2Sq_zero' {A : List (List Rat)} {phi : List Rat} {g m0 : Option (List Rat)} {v : Rat}
    (hy : solve A (mkRhs A.length g m0) = some (prolong4 phi))
    (h : hh2Sq A phi g m0 = .ok v) : v = 0 := by
  obtain ⟨y, hy', -, -, -, rfl⟩ := hh2Sq_ok h
  rw [hy] at hy'
  cases hy'
  rw [vsub_self, dot_replicate_zero_left]

end Stbem.Estim
