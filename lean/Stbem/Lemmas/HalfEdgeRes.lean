import Stbem.Lemmas.HalfEdgeRun

/-!
# H-layer: the mesh `bisectRes` after one bisection, field by field
-/
namespace Stbem.HalfEdge
open Stbem.Mesh (Ax Side Cell Mesh)

/-- the side of the edge between the two children in `child1` -/
def midSide (ax : Ax) : Side := sideNext (bisSide ax)

theorem side_cases (ax : Ax) (s : Side) :
    s = bisSide ax ∨ s = (bisSide ax).opp ∨ s = midSide ax ∨ s = (midSide ax).opp := by
  cases ax <;> cases s <;> simp [bisSide, midSide, sideNext, Side.opp]

theorem side_distinct (ax : Ax) :
    bisSide ax ≠ (bisSide ax).opp ∧ bisSide ax ≠ midSide ax ∧ bisSide ax ≠ (midSide ax).opp ∧
    (bisSide ax).opp ≠ midSide ax ∧ (bisSide ax).opp ≠ (midSide ax).opp ∧ midSide ax ≠ (midSide ax).opp := by
  cases ax <;> simp [bisSide, midSide, sideNext, Side.opp]

/-- edge of side `s` of `child1` -/
def c1Side (E : HElem) (N : Nat) (ax : Ax) (s : Side) : Nat :=
  if s = bisSide ax then N else if s = (bisSide ax).opp then N + 3 else if s = midSide ax then N + 4 else E.side s

/-- edge of side `s` of `child2` -/
def c2Side (E : HElem) (N : Nat) (ax : Ax) (s : Side) : Nat :=
  if s = bisSide ax then N + 1 else if s = (bisSide ax).opp then N + 2 else if s = midSide ax then E.side s else N + 5

def mesh5 (h : HMesh) (el : Nat) (ax : Ax) (La Lb : Option (Nat × Nat)) : HMesh :=
  regElem (mesh4 h el ax La Lb) (childEdges (h.elem el) h.edges.size ax).1.1
    (childEdges (h.elem el) h.edges.size ax).1.2.1 (childEdges (h.elem el) h.edges.size ax).1.2.2.1
    (childEdges (h.elem el) h.edges.size ax).1.2.2.2 (childLevels (h.elem el) ax).1 (childLevels (h.elem el) ax).2
    (some el) h.nElems

def mesh6 (h : HMesh) (el : Nat) (ax : Ax) (La Lb : Option (Nat × Nat)) : HMesh :=
  regElem (mesh5 h el ax La Lb) (childEdges (h.elem el) h.edges.size ax).2.1
    (childEdges (h.elem el) h.edges.size ax).2.2.1 (childEdges (h.elem el) h.edges.size ax).2.2.2.1
    (childEdges (h.elem el) h.edges.size ax).2.2.2.2 (childLevels (h.elem el) ax).1 (childLevels (h.elem el) ax).2
    (some el) (h.nElems + 1)

/-- the last statements of `refine_axis`: counters, leaf dictionary, `elem.children` -/
def finalize (h6 : HMesh) (el M nE : Nat) (leaves : List Nat) : HMesh :=
  ({ h6 with nElems := nE + 2, leaves := leaves.filter (fun l => l != el) ++ [M, M + 1] }).setElem el
    fun E => { E with kids := some (M, M + 1) }

theorem bisectRes_eq (h : HMesh) (el : Nat) (ax : Ax) (La Lb : Option (Nat × Nat)) :
    bisectRes h el ax La Lb = finalize (mesh6 h el ax La Lb) el h.elems.size h.nElems h.leaves := by
  unfold bisectRes mesh6 mesh5 finalize
  simp only [mesh4_eq]

theorem finalize_edge (h6 : HMesh) (el M nE : Nat) (leaves : List Nat) (j : Nat) :
    (finalize h6 el M nE leaves).edge j = h6.edge j := rfl
theorem finalize_edges (h6 : HMesh) (el M nE : Nat) (leaves : List Nat) :
    (finalize h6 el M nE leaves).edges = h6.edges := rfl
theorem finalize_verts (h6 : HMesh) (el M nE : Nat) (leaves : List Nat) :
    (finalize h6 el M nE leaves).verts = h6.verts := rfl
theorem finalize_vert (h6 : HMesh) (el M nE : Nat) (leaves : List Nat) (v : Nat) :
    (finalize h6 el M nE leaves).vert v = h6.vert v := rfl
theorem finalize_leaves (h6 : HMesh) (el M nE : Nat) (leaves : List Nat) :
    (finalize h6 el M nE leaves).leaves = leaves.filter (fun l => l != el) ++ [M, M + 1] := rfl
theorem finalize_nElems (h6 : HMesh) (el M nE : Nat) (leaves : List Nat) :
    (finalize h6 el M nE leaves).nElems = nE + 2 := rfl
theorem finalize_box (h6 : HMesh) (el M nE : Nat) (leaves : List Nat) :
    (finalize h6 el M nE leaves).glue = h6.glue ∧ (finalize h6 el M nE leaves).xmin = h6.xmin ∧
    (finalize h6 el M nE leaves).xmax = h6.xmax ∧ (finalize h6 el M nE leaves).tmin = h6.tmin ∧
    (finalize h6 el M nE leaves).tmax = h6.tmax := ⟨rfl, rfl, rfl, rfl, rfl⟩
theorem finalize_elems_size (h6 : HMesh) (el M nE : Nat) (leaves : List Nat) :
    (finalize h6 el M nE leaves).elems.size = h6.elems.size := by
  unfold finalize; rw [size_setElem]
theorem finalize_elem_ne (h6 : HMesh) (el M nE : Nat) (leaves : List Nat) {k : Nat} (hk : k ≠ el) :
    (finalize h6 el M nE leaves).elem k = h6.elem k := by
  unfold finalize; rw [elem_setElem_ne _ _ hk]; rfl
theorem finalize_elem_self (h6 : HMesh) (el M nE : Nat) (leaves : List Nat) (hel : el < h6.elems.size) :
    (finalize h6 el M nE leaves).elem el = { h6.elem el with kids := some (M, M + 1) } := by
  unfold finalize
  exact elem_setElem_self ({ h6 with nElems := nE + 2, leaves := leaves.filter (fun l => l != el) ++ [M, M + 1] }) _ hel


section
variable {h : HMesh} {el : Nat} {ax : Ax} {La Lb : Option (Nat × Nat)}

/-- the ownership stage: edges of `child2` then of `child1` get their owner -/
def ownerUpd (E : HElem) (N M : Nat) (ax : Ax) (j : Nat) (e : HEdge) : HEdge :=
  if j = (childEdges E N ax).2.1 ∨ j = (childEdges E N ax).2.2.1 ∨ j = (childEdges E N ax).2.2.2.1 ∨
      j = (childEdges E N ax).2.2.2.2 then setOwner (some (M + 1))
    (if j = (childEdges E N ax).1.1 ∨ j = (childEdges E N ax).1.2.1 ∨ j = (childEdges E N ax).1.2.2.1 ∨
      j = (childEdges E N ax).1.2.2.2 then setOwner (some M) e else e)
  else if j = (childEdges E N ax).1.1 ∨ j = (childEdges E N ax).1.2.1 ∨ j = (childEdges E N ax).1.2.2.1 ∨
      j = (childEdges E N ax).1.2.2.2 then setOwner (some M) e else e

theorem childEdges_lt (P : BisectPre h el ax La Lb) :
    (childEdges (h.elem el) h.edges.size ax).1.1 < h.edges.size + 6 ∧
    (childEdges (h.elem el) h.edges.size ax).1.2.1 < h.edges.size + 6 ∧
    (childEdges (h.elem el) h.edges.size ax).1.2.2.1 < h.edges.size + 6 ∧
    (childEdges (h.elem el) h.edges.size ax).1.2.2.2 < h.edges.size + 6 ∧
    (childEdges (h.elem el) h.edges.size ax).2.1 < h.edges.size + 6 ∧
    (childEdges (h.elem el) h.edges.size ax).2.2.1 < h.edges.size + 6 ∧
    (childEdges (h.elem el) h.edges.size ax).2.2.2.1 < h.edges.size + 6 ∧
    (childEdges (h.elem el) h.edges.size ax).2.2.2.2 < h.edges.size + 6 := by
  have r0 := P.er .bottom; have r1 := P.er .right; have r2 := P.er .top; have r3 := P.er .left
  simp only [HElem.side] at r0 r1 r2 r3
  cases ax <;> simp only [childEdges] <;> omega

theorem mesh4_elems (h : HMesh) (el : Nat) (ax : Ax) (La Lb : Option (Nat × Nat)) :
    (mesh4 h el ax La Lb).elems = h.elems := (mesh4_same h el ax La Lb).2.1

theorem BisectPre.h6_edge (P : BisectPre h el ax La Lb) (j : Nat) :
    (bisectRes h el ax La Lb).edge j =
      ownerUpd (h.elem el) h.edges.size h.elems.size ax j ((mesh4 h el ax La Lb).edge j) := by
  obtain ⟨a0, a1, a2, a3, b0, b1, b2, b3⟩ := childEdges_lt P
  rw [bisectRes_eq, finalize_edge]
  unfold mesh6
  rw [regElem_edge _ _ _ _ _ _ _ _ _ (by
    unfold mesh5; rw [regElem_edges_size, mesh4_size]; exact ⟨b0, b1, b2, b3⟩)]
  unfold mesh5
  rw [regElem_edge _ _ _ _ _ _ _ _ _ (by rw [mesh4_size]; exact ⟨a0, a1, a2, a3⟩), regElem_elems_size,
    mesh4_elems]
  rfl

/-- is the second bisected edge the neighbour of the first (single glued column) -/
def selfNbr (h : HMesh) (el : Nat) (ax : Ax) : Prop :=
  (h.edge ((h.elem el).side (bisSide ax).opp)).nbr = some ((h.elem el).side (bisSide ax))

instance (h : HMesh) (el : Nat) (ax : Ax) : Decidable (selfNbr h el ax) := by unfold selfNbr; infer_instance

def c1mem (E : HElem) (N : Nat) (ax : Ax) (j : Nat) : Prop :=
  j = (childEdges E N ax).1.1 ∨ j = (childEdges E N ax).1.2.1 ∨ j = (childEdges E N ax).1.2.2.1 ∨
    j = (childEdges E N ax).1.2.2.2
def c2mem (E : HElem) (N : Nat) (ax : Ax) (j : Nat) : Prop :=
  j = (childEdges E N ax).2.1 ∨ j = (childEdges E N ax).2.2.1 ∨ j = (childEdges E N ax).2.2.2.1 ∨
    j = (childEdges E N ax).2.2.2.2

instance (E : HElem) (N : Nat) (ax : Ax) (j : Nat) : Decidable (c1mem E N ax j) := by unfold c1mem; infer_instance
instance (E : HElem) (N : Nat) (ax : Ax) (j : Nat) : Decidable (c2mem E N ax j) := by unfold c2mem; infer_instance

theorem ownerUpd_eq (E : HElem) (N M : Nat) (ax : Ax) (j : Nat) (e : HEdge) :
    ownerUpd E N M ax j e =
      if c2mem E N ax j then setOwner (some (M + 1)) (if c1mem E N ax j then setOwner (some M) e else e)
      else if c1mem E N ax j then setOwner (some M) e else e := rfl

theorem BisectPre.mem_other (P : BisectPre h el ax La Lb) {j : Nat} (hj : j < h.edges.size)
    (hne : ∀ s, j ≠ (h.elem el).side s) :
    ¬ c1mem (h.elem el) h.edges.size ax j ∧ ¬ c2mem (h.elem el) h.edges.size ax j := by
  have r0 := hne .bottom; have r1 := hne .right; have r2 := hne .top; have r3 := hne .left
  simp only [HElem.side] at r0 r1 r2 r3
  unfold c1mem c2mem
  cases ax <;> simp only [childEdges] <;> omega

theorem BisectPre.mem_side (P : BisectPre h el ax La Lb) (s : Side) :
    (c1mem (h.elem el) h.edges.size ax ((h.elem el).side s) ↔ s = (midSide ax).opp) ∧
    (c2mem (h.elem el) h.edges.size ax ((h.elem el).side s) ↔ s = midSide ax) := by
  have r0 := P.er .bottom; have r1 := P.er .right; have r2 := P.er .top; have r3 := P.er .left
  have d01 := P.side_ne (s := .bottom) (s' := .right) (by simp)
  have d02 := P.side_ne (s := .bottom) (s' := .top) (by simp)
  have d03 := P.side_ne (s := .bottom) (s' := .left) (by simp)
  have d12 := P.side_ne (s := .right) (s' := .top) (by simp)
  have d13 := P.side_ne (s := .right) (s' := .left) (by simp)
  have d23 := P.side_ne (s := .top) (s' := .left) (by simp)
  simp only [HElem.side] at r0 r1 r2 r3 d01 d02 d03 d12 d13 d23
  unfold c1mem c2mem
  cases ax <;> cases s <;>
    simp only [childEdges, HElem.side, midSide, bisSide, sideNext, Side.opp, reduceCtorEq, iff_false, iff_true]
  all_goals (constructor <;> first | omega | simp)

theorem mem_new (E : HElem) (N : Nat) (ax : Ax) (hE : E.e0 < N ∧ E.e1 < N ∧ E.e2 < N ∧ E.e3 < N) :
    (c1mem E N ax N ∧ ¬ c2mem E N ax N) ∧ (¬ c1mem E N ax (N + 1) ∧ c2mem E N ax (N + 1)) ∧
    (¬ c1mem E N ax (N + 2) ∧ c2mem E N ax (N + 2)) ∧ (c1mem E N ax (N + 3) ∧ ¬ c2mem E N ax (N + 3)) ∧
    (c1mem E N ax (N + 4) ∧ ¬ c2mem E N ax (N + 4)) ∧ (¬ c1mem E N ax (N + 5) ∧ c2mem E N ax (N + 5)) := by
  unfold c1mem c2mem
  obtain ⟨a, b, c, d⟩ := hE
  cases ax <;> simp only [childEdges] <;>
    refine ⟨⟨?_, ?_⟩, ⟨?_, ?_⟩, ⟨?_, ?_⟩, ⟨?_, ?_⟩, ⟨?_, ?_⟩, ⟨?_, ?_⟩⟩ <;> first | omega | simp

/-- old edges that do not belong to `el`: only the `nbr_edge` of the children of refined neighbour edges change -/
theorem BisectPre.res_edge_other (P : BisectPre h el ax La Lb) {j : Nat} (hj : j < h.edges.size)
    (hne : ∀ s, j ≠ (h.elem el).side s) :
    (bisectRes h el ax La Lb).edge j =
      linkUpd (lbEff h el ax Lb) (h.edges.size + 2) j (linkUpd La h.edges.size j (h.edge j)) := by
  obtain ⟨m1, m2⟩ := P.mem_other hj hne
  rw [P.h6_edge, ownerUpd_eq, if_neg m2, if_neg m1, P.h4_edge, if_neg (by omega), if_neg (by omega), P.h3_edge,
    if_neg (by omega), if_neg (by omega), if_neg (hne _), P.h2_edge_old hj (hne _), P.h1_edge_other hne]

theorem ownerUpd_side (P : BisectPre h el ax La Lb) (s : Side) (e : HEdge) :
    ownerUpd (h.elem el) h.edges.size h.elems.size ax ((h.elem el).side s) e =
      if s = midSide ax then setOwner (some (h.elems.size + 1)) e
      else if s = (midSide ax).opp then setOwner (some h.elems.size) e else e := by
  obtain ⟨m1, m2⟩ := P.mem_side s
  obtain ⟨-, -, -, -, -, d6⟩ := side_distinct ax
  rw [ownerUpd_eq]
  by_cases h2 : s = midSide ax
  · rw [if_pos (m2.mpr h2), if_pos h2, if_neg (by rw [m1, h2]; exact d6)]
  · rw [if_neg (by rw [m2]; exact h2), if_neg h2]
    by_cases h1 : s = (midSide ax).opp
    · rw [if_pos (m1.mpr h1), if_pos h1]
    · rw [if_neg (by rw [m1]; exact h1), if_neg h1]

/-- the four edges of `el` after the bisection -/
theorem BisectPre.res_edge_side (P : BisectPre h el ax La Lb) (s : Side) :
    (bisectRes h el ax La Lb).edge ((h.elem el).side s) =
      if s = (bisSide ax).opp then
        setKids (h.edges.size + 2, h.edges.size + 2 + 1) (setOwner none (h.edge ((h.elem el).side s)))
      else if s = bisSide ax then
        setKids (h.edges.size, h.edges.size + 1) (setOwner none (h.edge ((h.elem el).side s)))
      else if s = midSide ax then setOwner (some (h.elems.size + 1)) (h.edge ((h.elem el).side s))
      else setOwner (some h.elems.size) (h.edge ((h.elem el).side s)) := by
  obtain ⟨d1, d2, d3, d4, d5, d6⟩ := side_distinct ax
  rw [P.h6_edge, ownerUpd_side P, P.h4_side]
  rcases side_cases ax s with rfl | rfl | rfl | rfl
  · rw [if_neg d2, if_neg d3, if_neg d1, if_pos rfl, if_neg d1, if_pos rfl]
  · rw [if_neg d4, if_neg d5, if_pos rfl, if_pos rfl]
  · rw [if_pos rfl, if_neg d4.symm, if_neg d2.symm, if_neg d4.symm, if_neg d2.symm, if_pos rfl]; rfl
  · rw [if_neg d6.symm, if_pos rfl, if_neg d5.symm, if_neg d3.symm, if_neg d5.symm, if_neg d3.symm,
      if_neg d6.symm]; rfl

theorem lbEff_lt (P : BisectPre h el ax La Lb) (hs : ¬ selfNbr h el ax) :
    ∀ b0 b1, lbEff h el ax Lb = some (b0, b1) → b0 < h.edges.size ∧ b1 < h.edges.size := by
  intro b0 b1 e
  rw [lbEff_other Lb hs] at e
  have := P.lb
  rw [e] at this
  obtain ⟨f, -, -, -, -, r0, r1, -⟩ := this
  exact ⟨r0, r1⟩

/-- the six new edges in the final mesh -/
theorem BisectPre.res_new (P : BisectPre h el ax La Lb) :
    (bisectRes h el ax La Lb).edge h.edges.size =
      { v0 := (h.edge ((h.elem el).side (bisSide ax))).v0, v1 := vtxA h el ax La,
        parent := some ((h.elem el).side (bisSide ax)), elem := some h.elems.size,
        nbr := if selfNbr h el ax then some (h.edges.size + 3) else La.map (·.2),
        onBoundary := (h.edge ((h.elem el).side (bisSide ax))).onBoundary,
        glued := (h.edge ((h.elem el).side (bisSide ax))).glued } ∧
    (bisectRes h el ax La Lb).edge (h.edges.size + 1) =
      { v0 := vtxA h el ax La, v1 := (h.edge ((h.elem el).side (bisSide ax))).v1,
        parent := some ((h.elem el).side (bisSide ax)), elem := some (h.elems.size + 1),
        nbr := if selfNbr h el ax then some (h.edges.size + 2) else La.map (·.1),
        onBoundary := (h.edge ((h.elem el).side (bisSide ax))).onBoundary,
        glued := (h.edge ((h.elem el).side (bisSide ax))).glued } ∧
    (bisectRes h el ax La Lb).edge (h.edges.size + 2) =
      { v0 := (h.edge ((h.elem el).side (bisSide ax).opp)).v0, v1 := vtxB h el ax La Lb,
        parent := some ((h.elem el).side (bisSide ax).opp), elem := some (h.elems.size + 1),
        nbr := (lbEff h el ax Lb).map (·.2),
        onBoundary := (h.edge ((h.elem el).side (bisSide ax).opp)).onBoundary,
        glued := (h.edge ((h.elem el).side (bisSide ax).opp)).glued } ∧
    (bisectRes h el ax La Lb).edge (h.edges.size + 3) =
      { v0 := vtxB h el ax La Lb, v1 := (h.edge ((h.elem el).side (bisSide ax).opp)).v1,
        parent := some ((h.elem el).side (bisSide ax).opp), elem := some h.elems.size,
        nbr := (lbEff h el ax Lb).map (·.1),
        onBoundary := (h.edge ((h.elem el).side (bisSide ax).opp)).onBoundary,
        glued := (h.edge ((h.elem el).side (bisSide ax).opp)).glued } ∧
    (bisectRes h el ax La Lb).edge (h.edges.size + 4) =
      { v0 := vtxA h el ax La, v1 := vtxB h el ax La Lb, elem := some h.elems.size,
        nbr := some (h.edges.size + 5) } ∧
    (bisectRes h el ax La Lb).edge (h.edges.size + 5) =
      { v0 := vtxB h el ax La Lb, v1 := vtxA h el ax La, elem := some (h.elems.size + 1),
        nbr := some (h.edges.size + 4) } := by
  have ra := P.er (bisSide ax)
  have rb := P.er (bisSide ax).opp
  obtain ⟨f0, f1, f2, f3, -⟩ := P.h2_fields_side (bisSide ax).opp
  obtain ⟨g1, g2, g3, g4, g5, g6, g7⟩ := P.h1_fields ((h.elem el).side (bisSide ax))
  obtain ⟨⟨a0, b0⟩, ⟨a1, b1⟩, ⟨a2, b2⟩, ⟨a3, b3⟩, ⟨a4, b4⟩, ⟨a5, b5⟩⟩ :=
    mem_new (h.elem el) h.edges.size ax ⟨P.er .bottom, P.er .right, P.er .top, P.er .left⟩
  have e0 : (mesh4 h el ax La Lb).edge h.edges.size = linkUpd (lbEff h el ax Lb) (h.edges.size + 2) h.edges.size
      { kidEdge (mesh1 h el) ((h.elem el).side (bisSide ax)) ((mesh1 h el).edge ((h.elem el).side (bisSide ax))).v0
          (vtxA h el ax La) with nbr := La.map (·.2) } := by
    rw [P.h4_edge, if_neg (by omega), if_neg (by omega), P.h3_edge, if_neg (by omega), if_neg (by omega),
      if_neg (by omega), P.h2_edge, if_pos rfl]
    rfl
  have e1 : (mesh4 h el ax La Lb).edge (h.edges.size + 1) =
      linkUpd (lbEff h el ax Lb) (h.edges.size + 2) (h.edges.size + 1)
      { kidEdge (mesh1 h el) ((h.elem el).side (bisSide ax)) (vtxA h el ax La)
          ((mesh1 h el).edge ((h.elem el).side (bisSide ax))).v1 with nbr := La.map (·.1) } := by
    rw [P.h4_edge, if_neg (by omega), if_neg (by omega), P.h3_edge, if_neg (by omega), if_neg (by omega),
      if_neg (by omega), P.h2_edge, if_neg (by omega), if_pos rfl]
    rfl
  have e2 : (mesh4 h el ax La Lb).edge (h.edges.size + 2) =
      { kidEdge (mesh2 h el ax La) ((h.elem el).side (bisSide ax).opp)
          ((mesh2 h el ax La).edge ((h.elem el).side (bisSide ax).opp)).v0 (vtxB h el ax La Lb) with
        nbr := (lbEff h el ax Lb).map (·.2) } := by
    rw [P.h4_edge, if_neg (by omega), if_neg (by omega), P.h3_edge, if_pos rfl]
  have e3 : (mesh4 h el ax La Lb).edge (h.edges.size + 3) =
      { kidEdge (mesh2 h el ax La) ((h.elem el).side (bisSide ax).opp) (vtxB h el ax La Lb)
          ((mesh2 h el ax La).edge ((h.elem el).side (bisSide ax).opp)).v1 with
        nbr := (lbEff h el ax Lb).map (·.1) } := by
    rw [P.h4_edge, if_neg (by omega), if_neg (by omega), P.h3_edge, if_neg (by omega), if_pos rfl]
  have e4 : (mesh4 h el ax La Lb).edge (h.edges.size + 4) =
      { v0 := vtxA h el ax La, v1 := vtxB h el ax La Lb, nbr := some (h.edges.size + 4 + 1) } := by
    rw [P.h4_edge, if_pos rfl]
  have e5 : (mesh4 h el ax La Lb).edge (h.edges.size + 5) =
      { v0 := vtxB h el ax La Lb, v1 := vtxA h el ax La, nbr := some (h.edges.size + 4) } := by
    rw [P.h4_edge, if_neg (by omega), if_pos rfl]
  refine ⟨?_, ?_, ?_, ?_, ?_, ?_⟩
  · rw [P.h6_edge, ownerUpd_eq, if_neg b0, if_pos a0, e0]
    by_cases hs : selfNbr h el ax
    · rw [if_pos hs, lbEff_self Lb hs, (P.selfOK hs).1]
      simp [linkUpd, setNbr, setOwner, kidEdge, g3, g5, g7]
    · rw [if_neg hs, linkUpd_not_mem]
      · simp [setOwner, kidEdge, g3, g5, g7]
      · intro b0 b1 e
        have := lbEff_lt P hs b0 b1 e
        constructor <;> omega
  · rw [P.h6_edge, ownerUpd_eq, if_pos b1, if_neg a1, e1]
    by_cases hs : selfNbr h el ax
    · rw [if_pos hs, lbEff_self Lb hs, (P.selfOK hs).1]
      simp [linkUpd, setNbr, setOwner, kidEdge, g4, g5, g7]
    · rw [if_neg hs, linkUpd_not_mem]
      · simp [setOwner, kidEdge, g4, g5, g7]
      · intro b0 b1 e
        have := lbEff_lt P hs b0 b1 e
        constructor <;> omega
  · rw [P.h6_edge, ownerUpd_eq, if_pos b2, if_neg a2, e2]
    simp [setOwner, kidEdge, f0, f2, f3]
  · rw [P.h6_edge, ownerUpd_eq, if_neg b3, if_pos a3, e3]
    simp [setOwner, kidEdge, f1, f2, f3]
  · rw [P.h6_edge, ownerUpd_eq, if_neg b4, if_pos a4, e4]
    rfl
  · rw [P.h6_edge, ownerUpd_eq, if_pos b5, if_neg a5, e5]
    rfl

theorem mesh5_elems_size (h : HMesh) (el : Nat) (ax : Ax) (La Lb : Option (Nat × Nat)) :
    (mesh5 h el ax La Lb).elems.size = h.elems.size + 1 := by
  unfold mesh5; rw [regElem_elems_size, mesh4_elems]

theorem mesh6_elems_size (h : HMesh) (el : Nat) (ax : Ax) (La Lb : Option (Nat × Nat)) :
    (mesh6 h el ax La Lb).elems.size = h.elems.size + 2 := by
  unfold mesh6; rw [regElem_elems_size, mesh5_elems_size]

theorem res_elems_size (h : HMesh) (el : Nat) (ax : Ax) (La Lb : Option (Nat × Nat)) :
    (bisectRes h el ax La Lb).elems.size = h.elems.size + 2 := by
  rw [bisectRes_eq, finalize_elems_size, mesh6_elems_size]

theorem res_edges_size (h : HMesh) (el : Nat) (ax : Ax) (La Lb : Option (Nat × Nat)) :
    (bisectRes h el ax La Lb).edges.size = h.edges.size + 6 := by
  rw [bisectRes_eq, finalize_edges]
  unfold mesh6 mesh5
  rw [regElem_edges_size, regElem_edges_size, mesh4_size]

theorem res_leaves (h : HMesh) (el : Nat) (ax : Ax) (La Lb : Option (Nat × Nat)) :
    (bisectRes h el ax La Lb).leaves = h.leaves.filter (fun l => l != el) ++ [h.elems.size, h.elems.size + 1] := by
  rw [bisectRes_eq, finalize_leaves]

theorem res_nElems (h : HMesh) (el : Nat) (ax : Ax) (La Lb : Option (Nat × Nat)) :
    (bisectRes h el ax La Lb).nElems = h.nElems + 2 := by
  rw [bisectRes_eq, finalize_nElems]

theorem mesh6_elem_lt (h : HMesh) (el : Nat) (ax : Ax) (La Lb : Option (Nat × Nat)) {k : Nat}
    (hk : k < h.elems.size) : (mesh6 h el ax La Lb).elem k = h.elem k := by
  unfold mesh6
  rw [regElem_elem_lt _ _ _ _ _ _ _ _ _ (by rw [mesh5_elems_size]; omega)]
  unfold mesh5
  rw [regElem_elem_lt _ _ _ _ _ _ _ _ _ (by rw [mesh4_elems]; exact hk)]
  exact (mesh4_same h el ax La Lb).elem k

theorem res_elem_old (h : HMesh) (el : Nat) (ax : Ax) (La Lb : Option (Nat × Nat)) {k : Nat}
    (hk : k < h.elems.size) (hne : k ≠ el) : (bisectRes h el ax La Lb).elem k = h.elem k := by
  rw [bisectRes_eq, finalize_elem_ne _ _ _ _ _ hne, mesh6_elem_lt _ _ _ _ _ hk]

theorem BisectPre.res_elem_el (P : BisectPre h el ax La Lb) :
    (bisectRes h el ax La Lb).elem el = { h.elem el with kids := some (h.elems.size, h.elems.size + 1) } := by
  rw [bisectRes_eq, finalize_elem_self _ _ _ _ _ (by rw [mesh6_elems_size]; have := P.elr; omega),
    mesh6_elem_lt _ _ _ _ _ P.elr]

theorem BisectPre.res_elem_c1 (P : BisectPre h el ax La Lb) :
    (bisectRes h el ax La Lb).elem h.elems.size =
      { e0 := (childEdges (h.elem el) h.edges.size ax).1.1, e1 := (childEdges (h.elem el) h.edges.size ax).1.2.1,
        e2 := (childEdges (h.elem el) h.edges.size ax).1.2.2.1, e3 := (childEdges (h.elem el) h.edges.size ax).1.2.2.2,
        lt := (childLevels (h.elem el) ax).1, lx := (childLevels (h.elem el) ax).2, parent := some el,
        id := h.nElems, piece := (h.elem el).piece } := by
  have hne : h.elems.size ≠ el := by have := P.elr; omega
  rw [bisectRes_eq, finalize_elem_ne _ _ _ _ _ hne]
  unfold mesh6
  rw [regElem_elem_lt _ _ _ _ _ _ _ _ _ (by rw [mesh5_elems_size]; omega)]
  unfold mesh5
  have := regElem_elem_self (mesh4 h el ax La Lb) (childEdges (h.elem el) h.edges.size ax).1.1
    (childEdges (h.elem el) h.edges.size ax).1.2.1 (childEdges (h.elem el) h.edges.size ax).1.2.2.1
    (childEdges (h.elem el) h.edges.size ax).1.2.2.2 (childLevels (h.elem el) ax).1 (childLevels (h.elem el) ax).2
    (some el) h.nElems
  rw [mesh4_elems] at this
  rw [this]
  simp only [(mesh4_same h el ax La Lb).elem el]

theorem BisectPre.res_elem_c2 (P : BisectPre h el ax La Lb) :
    (bisectRes h el ax La Lb).elem (h.elems.size + 1) =
      { e0 := (childEdges (h.elem el) h.edges.size ax).2.1, e1 := (childEdges (h.elem el) h.edges.size ax).2.2.1,
        e2 := (childEdges (h.elem el) h.edges.size ax).2.2.2.1, e3 := (childEdges (h.elem el) h.edges.size ax).2.2.2.2,
        lt := (childLevels (h.elem el) ax).1, lx := (childLevels (h.elem el) ax).2, parent := some el,
        id := h.nElems + 1, piece := (h.elem el).piece } := by
  have hne : h.elems.size + 1 ≠ el := by have := P.elr; omega
  rw [bisectRes_eq, finalize_elem_ne _ _ _ _ _ hne]
  unfold mesh6
  have := regElem_elem_self (mesh5 h el ax La Lb) (childEdges (h.elem el) h.edges.size ax).2.1
    (childEdges (h.elem el) h.edges.size ax).2.2.1 (childEdges (h.elem el) h.edges.size ax).2.2.2.1
    (childEdges (h.elem el) h.edges.size ax).2.2.2.2 (childLevels (h.elem el) ax).1 (childLevels (h.elem el) ax).2
    (some el) (h.nElems + 1)
  rw [mesh5_elems_size] at this
  rw [this]
  have e5 : (mesh5 h el ax La Lb).elem el = h.elem el := by
    unfold mesh5
    rw [regElem_elem_lt _ _ _ _ _ _ _ _ _ (by rw [mesh4_elems]; exact P.elr)]
    exact (mesh4_same h el ax La Lb).elem el
  simp only [e5]

theorem BisectPre.res_c1_side (P : BisectPre h el ax La Lb) (s : Side) :
    ((bisectRes h el ax La Lb).elem h.elems.size).side s = c1Side (h.elem el) h.edges.size ax s := by
  rw [P.res_elem_c1]
  cases ax <;> cases s <;> simp [HElem.side, childEdges, c1Side, bisSide, midSide, sideNext, Side.opp]

theorem BisectPre.res_c2_side (P : BisectPre h el ax La Lb) (s : Side) :
    ((bisectRes h el ax La Lb).elem (h.elems.size + 1)).side s = c2Side (h.elem el) h.edges.size ax s := by
  rw [P.res_elem_c2]
  cases ax <;> cases s <;> simp [HElem.side, childEdges, c2Side, bisSide, midSide, sideNext, Side.opp]

theorem res_vert (h : HMesh) (el : Nat) (ax : Ax) (La Lb : Option (Nat × Nat)) (v : Nat) :
    (bisectRes h el ax La Lb).vert v = (mesh3 h el ax La Lb).vert v := by
  rw [bisectRes_eq, finalize_vert]
  unfold mesh6 mesh5
  rw [regElem_vert, regElem_vert, mesh4_vert]

theorem res_verts (h : HMesh) (el : Nat) (ax : Ax) (La Lb : Option (Nat × Nat)) :
    (bisectRes h el ax La Lb).verts = (mesh3 h el ax La Lb).verts := by
  rw [bisectRes_eq, finalize_verts]
  unfold mesh6 mesh5
  rw [regElem_verts, regElem_verts]
  rfl

theorem res_vert_old (h : HMesh) (el : Nat) (ax : Ax) (La Lb : Option (Nat × Nat)) {v : Nat}
    (hv : v < h.verts.size) : (bisectRes h el ax La Lb).vert v = h.vert v := by
  rw [res_vert, mesh3_vert_lt _ _ _ _ _ hv]

theorem res_verts_le (h : HMesh) (el : Nat) (ax : Ax) (La Lb : Option (Nat × Nat)) :
    h.verts.size ≤ (bisectRes h el ax La Lb).verts.size := by
  rw [res_verts]
  exact le_trans (mesh2_verts_le h el ax La) (mesh3_verts_le h el ax La Lb)

theorem BisectPre.res_ptA (P : BisectPre h el ax La Lb) :
    vtxA h el ax La < (bisectRes h el ax La Lb).verts.size ∧
    (bisectRes h el ax La Lb).pt (vtxA h el ax La) =
      mid (corner (h.cellOf el) (bisSide ax)) (corner (h.cellOf el) (sideNext (bisSide ax))) := by
  refine ⟨by rw [res_verts]; exact lt_of_lt_of_le P.ptA.1 (mesh3_verts_le h el ax La Lb), ?_⟩
  rw [pt_of_vert (res_vert h el ax La Lb _), P.ptA.2, (P.seg _).1, (P.seg _).2]

theorem BisectPre.res_ptB (P : BisectPre h el ax La Lb) :
    vtxB h el ax La Lb < (bisectRes h el ax La Lb).verts.size ∧
    (bisectRes h el ax La Lb).pt (vtxB h el ax La Lb) =
      mid (corner (h.cellOf el) (bisSide ax).opp) (corner (h.cellOf el) (sideNext (bisSide ax).opp)) := by
  refine ⟨by rw [res_verts]; exact P.ptB.1, ?_⟩
  rw [pt_of_vert (res_vert h el ax La Lb _), P.ptB.2, (P.seg _).1, (P.seg _).2]

theorem res_box (h : HMesh) (el : Nat) (ax : Ax) (La Lb : Option (Nat × Nat)) :
    (bisectRes h el ax La Lb).glue = h.glue ∧ (bisectRes h el ax La Lb).xmin = h.xmin ∧
    (bisectRes h el ax La Lb).xmax = h.xmax ∧ (bisectRes h el ax La Lb).tmin = h.tmin ∧
    (bisectRes h el ax La Lb).tmax = h.tmax := by
  rw [bisectRes_eq]
  obtain ⟨a, b, c, d, e⟩ := finalize_box (mesh6 h el ax La Lb) el h.elems.size h.nElems h.leaves
  obtain ⟨m1, -, -, -, m5, m6, m7, m8⟩ := mesh4_same h el ax La Lb
  unfold mesh6 mesh5 at a b c d e
  rw [regElem_glue, regElem_glue] at a
  rw [regElem_xmin, regElem_xmin] at b
  rw [regElem_xmax, regElem_xmax] at c
  rw [regElem_tmin, regElem_tmin] at d
  rw [regElem_tmax, regElem_tmax] at e
  exact ⟨a.trans m1, b.trans m5, c.trans m6, d.trans m7, e.trans m8⟩

end

end Stbem.HalfEdge
