import Stbem.Model.InitialPotential
import Stbem.Lemmas.InitPotSum
import Stbem.Lemmas.InitPotPoly

/-!
# Structure of the model `linform`: geometry first, numbers second

`linform` = (domain mesh, vertex look-ups, per-leaf geometry `cellGeom` with all assertions) followed by a part
that cannot fail except for the final `assert id_bdr == 1` (`assemble`).  The geometric part does not read
`u0`, the rule, the kernel or the time interval.
-/
namespace Stbem.InitPot
open Stbem.Quadtree Stbem.Quad

/-- the same context with another initial datum -/
def withU0 (C : Ctx) (u : Rat → Rat → Rat) : Ctx := { C with u0 := u }

/-! ## geometry first -/

/-- the geometric part of the loop -/
def geoms (s : Seg) (leaves : List Elem) : Except String (List (Elem × Geom)) :=
  leaves.mapM fun e => (cellGeom s e).map fun g => (e, g)

def Geom.isIdent : Geom → Bool
  | .ident _ => true
  | .touch _ _ => false

theorem Geom.val_fst (C : Ctx) (s : Seg) (e : Elem) (g : Geom) : (g.val C s e).1 = g.isIdent := by
  cases g <;> rfl

/-- everything after the geometry: the count of identical cells, the sum, the list -/
def assemble (C : Ctx) (s : Seg) (l : List (Elem × Geom)) : Except String (Rat × List (Nat × Rat)) :=
  if (l.filter fun eg => eg.2.isIdent).length ≠ 1 then .error "assert:id_bdr"
  else pure (sumR (l.map fun eg => (eg.2.val C s eg.1).2), l.map fun eg => (eg.1.id, (eg.2.val C s eg.1).2))

theorem cells_eq (C : Ctx) (s : Seg) (leaves : List Elem) :
    cells C s leaves = (geoms s leaves).map fun l => l.map fun eg => (eg.1.id, eg.2.val C s eg.1) := by
  unfold cells geoms
  induction leaves with
  | nil => rfl
  | cons e leaves ih =>
    rw [List.mapM_cons, List.mapM_cons, ih]
    unfold cellVal
    cases cellGeom s e with
    | error err => rfl
    | ok g =>
      cases List.mapM (fun e => Except.map (fun g => (e, g)) (cellGeom s e)) leaves with
      | error err => rfl
      | ok l => rfl

theorem linformOn_eq (C : Ctx) (m : QT) (s : Seg) :
    linformOn C m s =
      (vertexFromCoords m s.p0.1 s.p0.2).bind fun i0 =>
        (vertexFromCoords m s.p1.1 s.p1.2).bind fun i1 =>
          if i0.isNone || i1.isNone then .error "assert:vertex-none"
          else (geoms s m.leaves).bind (assemble C s) := by
  unfold linformOn
  cases vertexFromCoords m s.p0.1 s.p0.2 with
  | error err => rfl
  | ok i0 =>
    cases vertexFromCoords m s.p1.1 s.p1.2 with
    | error err => rfl
    | ok i1 =>
      simp only [bind, Except.bind]
      split
      · rfl
      · rw [cells_eq]
        cases geoms s m.leaves with
        | error err => rfl
        | ok l =>
          simp only [Except.map, assemble, List.filter_map, List.length_map, List.map_map, Function.comp_def,
            Geom.val_fst, pure, Except.pure]

theorem linform_eq (C : Ctx) (dom : QT) (fuel : Nat) (s : Seg) :
    linform C dom fuel s = (refineMshBdr fuel dom s.p0 s.p1).bind fun me => linformOn C me.1 s := by
  unfold linform
  cases refineMshBdr fuel dom s.p0 s.p1 with
  | error err => rfl
  | ok me => rfl

/-! ## linearity in `u0` -/

/-- how two results are combined -/
def comb (α β : Rat) (ru rv : Rat × List (Nat × Rat)) : Rat × List (Nat × Rat) :=
  (α * ru.1 + β * rv.1, List.zipWith (fun a b => (a.1, α * a.2 + β * b.2)) ru.2 rv.2)

theorem apply3_lin (R : Rule3) (f g K : Rat → Rat → Rat → Rat) (α β : Rat) :
    apply3 R (fun x y z => (α * f x y z + β * g x y z) * K x y z) =
      α * apply3 R (fun x y z => f x y z * K x y z) + β * apply3 R (fun x y z => g x y z * K x y z) := by
  rw [← apply3_smul, ← apply3_smul, ← apply3_add]
  apply apply3_congr
  intro x y z; ring

theorem identicalVal_linear (C : Ctx) (u v : Rat → Rat → Rat) (α β : Rat) (s : Seg) (n2 : Pt) :
    identicalVal (withU0 C fun x y => α * u x y + β * v x y) s n2 =
      α * identicalVal (withU0 C u) s n2 + β * identicalVal (withU0 C v) s n2 := by
  unfold identicalVal withU0
  dsimp only
  rw [apply3_lin]
  ring

theorem touchVal_linear (C : Ctx) (u v : Rat → Rat → Rat) (α β : Rat) (s : Seg) (e : Elem)
    (gQ : Rat → Rat → Pt) (gK : Rat → Pt) :
    touchVal (withU0 C fun x y => α * u x y + β * v x y) s e gQ gK =
      α * touchVal (withU0 C u) s e gQ gK + β * touchVal (withU0 C v) s e gQ gK := by
  unfold touchVal withU0
  dsimp only
  rw [apply3_lin]
  ring

theorem Geom.val_linear (C : Ctx) (u v : Rat → Rat → Rat) (α β : Rat) (s : Seg) (e : Elem) (g : Geom) :
    (g.val (withU0 C fun x y => α * u x y + β * v x y) s e).2 =
      α * (g.val (withU0 C u) s e).2 + β * (g.val (withU0 C v) s e).2 := by
  cases g with
  | ident n2 => exact identicalVal_linear C u v α β s n2
  | touch gQ gK => exact touchVal_linear C u v α β s e gQ gK

theorem zipWith_map_same {τ : Type} (l : List τ) (a b : τ → Nat × Rat) (f : Nat × Rat → Nat × Rat → Nat × Rat) :
    List.zipWith f (l.map a) (l.map b) = l.map fun x => f (a x) (b x) := by
  induction l with
  | nil => rfl
  | cons x l ih => simp [ih]

theorem assemble_linear (C : Ctx) (u v : Rat → Rat → Rat) (α β : Rat) (s : Seg) (l : List (Elem × Geom)) :
    assemble (withU0 C fun x y => α * u x y + β * v x y) s l =
      (assemble (withU0 C u) s l).bind fun ru => (assemble (withU0 C v) s l).map (comb α β ru) := by
  unfold assemble
  split
  · rfl
  · simp only [pure, Except.pure, Except.bind, Except.map, comb]
    congr 1
    rw [zipWith_map_same]
    refine Prod.ext ?_ ?_
    · simp only [Geom.val_linear]
      rw [sumR_map_add, sumR_map_mul_left, sumR_map_mul_left]
    · simp only [Geom.val_linear]

theorem bind_lin {σ τ : Type} (X : Except String σ) (fw fu fv : σ → Except String τ) (c : τ → τ → τ)
    (h : ∀ x, fw x = (fu x).bind fun ru => (fv x).map (c ru)) :
    X.bind fw = (X.bind fu).bind fun ru => (X.bind fv).map (c ru) := by
  cases X with
  | error err => rfl
  | ok x => exact h x

/-- **linearity of the load in `u0`**, for all inputs, error cases included: the run with `α u + β v` fails exactly
when the runs with `u` and with `v` fail (with the same assertion), and otherwise returns the combined load and
the combined per-cell contributions -/
theorem linform_linear' (C : Ctx) (u v : Rat → Rat → Rat) (α β : Rat) (dom : QT) (fuel : Nat) (s : Seg) :
    linform (withU0 C fun x y => α * u x y + β * v x y) dom fuel s =
      (linform (withU0 C u) dom fuel s).bind fun ru =>
        (linform (withU0 C v) dom fuel s).map (comb α β ru) := by
  rw [linform_eq, linform_eq, linform_eq]
  apply bind_lin
  intro me
  rw [linformOn_eq, linformOn_eq, linformOn_eq]
  apply bind_lin
  intro i0
  apply bind_lin
  intro i1
  split
  · rfl
  · apply bind_lin
    intro l
    exact assemble_linear C u v α β s l

/-! ## additivity in time: an identity of the model for every stand-in `e1` -/

theorem inlineKernel_add (e1 : Rat → Rat) (a m b r : Rat) (hm : m ≠ 0) :
    inlineKernel e1 a b r = inlineKernel e1 a m r + inlineKernel e1 m b r := by
  unfold inlineKernel
  rw [if_neg hm]
  split <;> ring

theorem ip_tik_add (S : Stbem.Formulas.Q.Fns) (a m b r : Rat) (hm : m ≠ 0) :
    Stbem.Formulas.Q.ip_tik S a b r = Stbem.Formulas.Q.ip_tik S a m r + Stbem.Formulas.Q.ip_tik S m b r := by
  unfold Stbem.Formulas.Q.ip_tik
  rw [if_neg hm]
  split <;> ring

theorem apply3_add_kernel (R : Rule3) (f K1 K2 : Rat → Rat → Rat → Rat) :
    apply3 R (fun x y z => f x y z * (K1 x y z + K2 x y z)) =
      apply3 R (fun x y z => f x y z * K1 x y z) + apply3 R (fun x y z => f x y z * K2 x y z) := by
  rw [← apply3_add]
  apply apply3_congr
  intro x y z; ring

theorem Geom.val_time (C : Ctx) (s : Seg) (m : Rat) (hm : m ≠ 0) (e : Elem) (g : Geom) :
    (g.val C s e).2 = 1 * (g.val C { s with b := m } e).2 + 1 * (g.val C { s with a := m } e).2 := by
  cases g with
  | ident n2 =>
    simp only [Geom.val, identicalVal, one_mul]
    rw [← mul_add, ← apply3_add_kernel]
    congr 1
    apply apply3_congr
    intro x y z
    rw [ip_tik_add C.fns s.a m s.b _ hm]
  | touch gQ gK =>
    simp only [Geom.val, touchVal, one_mul]
    rw [← mul_add, ← apply3_add_kernel]
    congr 1
    apply apply3_congr
    intro x y z
    rw [inlineKernel_add C.fns.e1 s.a m s.b _ hm]

theorem assemble_time (C : Ctx) (s : Seg) (m : Rat) (hm : m ≠ 0) (l : List (Elem × Geom)) :
    assemble C s l =
      (assemble C { s with b := m } l).bind fun r1 => (assemble C { s with a := m } l).map (comb 1 1 r1) := by
  unfold assemble
  split
  · rfl
  · simp only [pure, Except.pure, Except.bind, Except.map, comb]
    congr 1
    rw [zipWith_map_same]
    refine Prod.ext ?_ ?_
    · simp only []
      rw [← sumR_map_mul_left, ← sumR_map_mul_left, ← sumR_map_add]
      apply sumR_map_congr
      intro eg _
      exact Geom.val_time C s m hm eg.1 eg.2
    · simp only []
      apply List.map_congr_left
      intro eg _
      rw [Geom.val_time C s m hm eg.1 eg.2]

/-- **additivity in time** is an identity of the MODEL, for every kernel stand-in `e1`, every rule, every `u0` and
every segment (error cases included): splitting `[a, b]` at `m ≠ 0` splits the load and every per-cell
contribution (the time-integrated kernels telescope: `E(r/4b) − E(r/4a) = (E(r/4m) − E(r/4a)) + (E(r/4b) − E(r/4m))`,
and for `a = 0` the term `E(r/4a)` is absent on both sides) -/
theorem linform_additive_time' (C : Ctx) (dom : QT) (fuel : Nat) (s : Seg) (m : Rat) (hm : m ≠ 0) :
    linform C dom fuel s =
      (linform C dom fuel { s with b := m }).bind fun r1 =>
        (linform C dom fuel { s with a := m }).map (comb 1 1 r1) := by
  rw [linform_eq, linform_eq, linform_eq]
  apply bind_lin (c := comb 1 1)
  intro me
  rw [linformOn_eq, linformOn_eq, linformOn_eq]
  apply bind_lin (c := comb 1 1)
  intro i0
  apply bind_lin (c := comb 1 1)
  intro i1
  split
  · rfl
  · apply bind_lin (c := comb 1 1)
    intro l
    exact assemble_time C s m hm l

end Stbem.InitPot
