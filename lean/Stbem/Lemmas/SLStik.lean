import Stbem.Lemmas.SLKernels

/-! The closed-form path `stik`: fuel monotonicity, time shift, symmetry in the two space intervals,
totality for non-degenerate intervals (recursion depth `≤ 5`; its two assertions are unreachable). -/
namespace Stbem.SL
open Stbem.Formulas.Q

variable (S : Fns)

/-- time shift: `stik` depends on the four time values only through the shift-invariant kernels -/
theorem stik_shift (δ : Rat) : ∀ (fuel : Nat) (ta tb sa sb xa xb ya yb : Rat),
    stik S fuel (ta + δ) (tb + δ) (sa + δ) (sb + δ) xa xb ya yb = stik S fuel ta tb sa sb xa xb ya yb := by
  intro fuel
  induction fuel with
  | zero => intros; rw [stik, stik]
  | succ f ih =>
    intros
    rw [stik, stik]
    simp only [ih, stik_1_shift, stik_2_shift, stik_4_shift]

/-- one more unit of fuel does not change a successful result -/
theorem stik_fuel_succ : ∀ (fuel : Nat) (ta tb sa sb xa xb ya yb v : Rat),
    stik S fuel ta tb sa sb xa xb ya yb = .ok v → stik S (fuel + 1) ta tb sa sb xa xb ya yb = .ok v := by
  intro fuel
  induction fuel with
  | zero => intro ta tb sa sb xa xb ya yb v h; rw [stik] at h; cases h
  | succ f ih =>
    intro ta tb sa sb xa xb ya yb v h
    rw [stik] at h ⊢
    by_cases h1 : lexLt ya yb xa xb = true
    · rw [if_pos h1] at h ⊢; exact ih _ _ _ _ _ _ _ _ _ h
    rw [if_neg h1] at h ⊢
    by_cases h2 : (!lexLe xa xb ya yb) = true
    · rw [if_pos h2] at h; cases h
    rw [if_neg h2] at h ⊢
    by_cases h3 : xb < ya
    · rw [if_pos h3] at h ⊢; exact h
    rw [if_neg h3] at h ⊢
    by_cases h4 : xa = ya ∧ xb = yb
    · rw [if_pos h4] at h ⊢; exact h
    rw [if_neg h4] at h ⊢
    by_cases h5 : xb = ya
    · rw [if_pos h5] at h ⊢; exact h
    rw [if_neg h5] at h ⊢
    by_cases h6 : xa < ya
    · rw [if_pos h6] at h ⊢
      rw [bind_ok] at h
      obtain ⟨r1, hr1, h⟩ := h
      rw [bind_ok] at h
      obtain ⟨r2, hr2, h⟩ := h
      rw [ih _ _ _ _ _ _ _ _ _ hr1, ih _ _ _ _ _ _ _ _ _ hr2]
      exact h
    rw [if_neg h6] at h ⊢
    by_cases h7 : (!(decide (xa = ya) && decide (xb < yb))) = true
    · rw [if_pos h7] at h; cases h
    rw [if_neg h7] at h ⊢
    rw [bind_ok] at h
    obtain ⟨r1, hr1, h⟩ := h
    rw [bind_ok] at h
    obtain ⟨r2, hr2, h⟩ := h
    rw [ih _ _ _ _ _ _ _ _ _ hr1, ih _ _ _ _ _ _ _ _ _ hr2]
    exact h

theorem stik_fuel_mono {fuel fuel' : Nat} {ta tb sa sb xa xb ya yb v : Rat}
    (h : stik S fuel ta tb sa sb xa xb ya yb = .ok v) (hf : fuel ≤ fuel') :
    stik S fuel' ta tb sa sb xa xb ya yb = .ok v := by
  induction hf with
  | refl => exact h
  | step _ ih => exact stik_fuel_succ S _ _ _ _ _ _ _ _ _ _ ih

/-- the result does not depend on the fuel -/
theorem stik_det {fuel fuel' : Nat} {ta tb sa sb xa xb ya yb v w : Rat}
    (h : stik S fuel ta tb sa sb xa xb ya yb = .ok v)
    (h' : stik S fuel' ta tb sa sb xa xb ya yb = .ok w) : v = w := by
  have h1 := stik_fuel_mono S h (Nat.le_max_left fuel fuel')
  have h2 := stik_fuel_mono S h' (Nat.le_max_right fuel fuel')
  rw [h1] at h2
  exact Except.ok.inj h2

/-- **symmetry**: exchanging the two space intervals does not change the value -/
theorem stik_swap {fuel fuel' : Nat} {ta tb sa sb xa xb ya yb v w : Rat}
    (h : stik S fuel ta tb sa sb xa xb ya yb = .ok v)
    (h' : stik S fuel' ta tb sa sb ya yb xa xb = .ok w) : v = w := by
  by_cases h1 : lexLt ya yb xa xb = true
  · cases fuel with
    | zero => rw [stik] at h; cases h
    | succ f =>
      rw [stik, if_pos h1] at h
      exact stik_det S h h'
  by_cases h2 : lexLt xa xb ya yb = true
  · cases fuel' with
    | zero => rw [stik] at h'; cases h'
    | succ f =>
      rw [stik, if_pos h2] at h'
      exact stik_det S h h'
  have e1 : lexLe xa xb ya yb = true := by
    by_contra hc
    rw [Bool.not_eq_true, lexLe_false_iff] at hc
    exact h1 hc
  have e2 : lexLe ya yb xa xb = true := by
    by_contra hc
    rw [Bool.not_eq_true, lexLe_false_iff] at hc
    exact h2 hc
  obtain ⟨e3, e4⟩ := lexLe_antisymm e1 e2
  subst e3 e4
  exact stik_det S h h'

/-! ### totality for non-degenerate intervals -/

theorem lexLe_of_not_lexLt {a b c d : Rat} (h : ¬ lexLt c d a b = true) : lexLe a b c d = true := by
  by_contra hc
  rw [Bool.not_eq_true, lexLe_false_iff] at hc
  exact h hc

/-- the body of `stik` for lexicographically ordered intervals (the `assert:lex` is unreachable) -/
theorem stik_norm {fuel : Nat} {ta tb sa sb xa xb ya yb : Rat} (h : ¬ lexLt ya yb xa xb = true) :
    stik S (fuel + 1) ta tb sa sb xa xb ya yb =
      (if xb < ya then pure (stik_4 S ta tb sa sb (xb - xa) (ya - xa) (yb - xa))
      else if xa = ya ∧ xb = yb then pure (stik_1 S ta tb sa sb (xb - xa))
      else if xb = ya then pure (stik_2 S ta tb sa sb (xb - xa) (yb - ya))
      else if xa < ya then do
        let r1 ← stik S fuel ta tb sa sb xa ya ya yb
        let r2 ← stik S fuel ta tb sa sb ya xb ya yb
        pure (r1 + r2)
      else if !(decide (xa = ya) && decide (xb < yb)) then .error "assert:contained"
      else do
        let r1 ← stik S fuel ta tb sa sb xa xb ya xb
        let r2 ← stik S fuel ta tb sa sb xa xb xb yb
        pure (r1 + r2)) := by
  rw [stik, if_neg h, if_neg (by simp [lexLe_of_not_lexLt h])]

theorem not_lexLt_of {a b c d : Rat} (h : a < c ∨ (a = c ∧ b ≤ d)) : ¬ lexLt c d a b = true := by
  rw [lexLt_iff]
  rintro (h1 | ⟨h1, h2⟩) <;> rcases h with h | ⟨h3, h4⟩ <;> linarith

/-- leaf cases: disjoint, identical, touching -/
theorem stik_leaf {ta tb sa sb xa xb ya yb : Rat} (hl : xa < ya ∨ (xa = ya ∧ xb ≤ yb))
    (h : xb < ya ∨ (xa = ya ∧ xb = yb) ∨ xb = ya) :
    ∃ v, stik S 1 ta tb sa sb xa xb ya yb = .ok v := by
  rw [stik_norm S (not_lexLt_of hl)]
  by_cases h1 : xb < ya
  · rw [if_pos h1]; exact ⟨_, rfl⟩
  rw [if_neg h1]
  by_cases h2 : xa = ya ∧ xb = yb
  · rw [if_pos h2]; exact ⟨_, rfl⟩
  rw [if_neg h2]
  rcases h with h | h | h
  · exact absurd h h1
  · exact absurd h h2
  · rw [if_pos h]; exact ⟨_, rfl⟩

/-- common start, first interval shorter: depth 2 -/
theorem stik_nest {ta tb sa sb xa xb ya yb : Rat} (hx : xa < xb) (h1 : xa = ya) (h2 : xb < yb) :
    ∃ v, stik S 2 ta tb sa sb xa xb ya yb = .ok v := by
  rw [stik_norm S (not_lexLt_of (Or.inr ⟨h1, le_of_lt h2⟩)),
    if_neg (by intro h; linarith), if_neg (by rintro ⟨_, h⟩; linarith),
    if_neg (by intro h; linarith), if_neg (by intro h; linarith),
    if_neg (by simp [h1, h2])]
  obtain ⟨v1, e1⟩ := stik_leaf S (ta := ta) (tb := tb) (sa := sa) (sb := sb)
    (xa := xa) (xb := xb) (ya := ya) (yb := xb) (Or.inr ⟨h1, le_refl _⟩) (Or.inr (Or.inl ⟨h1, rfl⟩))
  obtain ⟨v2, e2⟩ := stik_leaf S (ta := ta) (tb := tb) (sa := sa) (sb := sb)
    (xa := xa) (xb := xb) (ya := xb) (yb := yb) (Or.inl hx) (Or.inr (Or.inr rfl))
  rw [e1, e2]; exact ⟨_, rfl⟩

/-- staggered overlap `xa < ya < xb`: depth 4 -/
theorem stik_stag {ta tb sa sb xa xb ya yb : Rat} (hy : ya < yb) (h1 : xa < ya) (h2 : ya < xb) :
    ∃ v, stik S 4 ta tb sa sb xa xb ya yb = .ok v := by
  rw [stik_norm S (not_lexLt_of (Or.inl h1)),
    if_neg (by intro h; linarith), if_neg (by rintro ⟨h, _⟩; linarith),
    if_neg (by intro h; linarith), if_pos h1]
  obtain ⟨v1, e1⟩ := stik_leaf S (ta := ta) (tb := tb) (sa := sa) (sb := sb)
    (xa := xa) (xb := ya) (ya := ya) (yb := yb) (Or.inl h1) (Or.inr (Or.inr rfl))
  rw [stik_fuel_mono S e1 (by omega : 1 ≤ 3)]
  have : ∃ v2, stik S 3 ta tb sa sb ya xb ya yb = .ok v2 := by
    rcases lt_trichotomy xb yb with h | h | h
    · obtain ⟨v, e⟩ := stik_nest S (ta := ta) (tb := tb) (sa := sa) (sb := sb) h2 rfl h
      exact ⟨v, stik_fuel_mono S e (by omega)⟩
    · obtain ⟨v, e⟩ := stik_leaf S (ta := ta) (tb := tb) (sa := sa) (sb := sb)
        (xa := ya) (xb := xb) (ya := ya) (yb := yb) (Or.inr ⟨rfl, le_of_eq h⟩) (Or.inr (Or.inl ⟨rfl, h⟩))
      exact ⟨v, stik_fuel_mono S e (by omega)⟩
    · obtain ⟨v, e⟩ := stik_nest S (ta := ta) (tb := tb) (sa := sa) (sb := sb) hy rfl h
      refine ⟨v, ?_⟩
      rw [stik, if_pos (by rw [lexLt_iff]; exact Or.inr ⟨rfl, h⟩)]
      exact e
  obtain ⟨v2, e2⟩ := this
  rw [e2]; exact ⟨_, rfl⟩

/-- lexicographically ordered, non-degenerate intervals: depth `≤ 4` -/
theorem stik_total_norm {ta tb sa sb xa xb ya yb : Rat} (hx : xa < xb) (hy : ya < yb)
    (hl : xa < ya ∨ (xa = ya ∧ xb ≤ yb)) : ∃ v, stik S 4 ta tb sa sb xa xb ya yb = .ok v := by
  rcases hl with h1 | ⟨h1, h2⟩
  · rcases lt_trichotomy xb ya with h | h | h
    · obtain ⟨v, e⟩ := stik_leaf S (ta := ta) (tb := tb) (sa := sa) (sb := sb)
        (xa := xa) (xb := xb) (ya := ya) (yb := yb) (Or.inl h1) (Or.inl h)
      exact ⟨v, stik_fuel_mono S e (by omega)⟩
    · obtain ⟨v, e⟩ := stik_leaf S (ta := ta) (tb := tb) (sa := sa) (sb := sb)
        (xa := xa) (xb := xb) (ya := ya) (yb := yb) (Or.inl h1) (Or.inr (Or.inr h))
      exact ⟨v, stik_fuel_mono S e (by omega)⟩
    · exact stik_stag S hy h1 h
  · rcases eq_or_lt_of_le h2 with h | h
    · obtain ⟨v, e⟩ := stik_leaf S (ta := ta) (tb := tb) (sa := sa) (sb := sb)
        (xa := xa) (xb := xb) (ya := ya) (yb := yb) (Or.inr ⟨h1, h2⟩) (Or.inr (Or.inl ⟨h1, h⟩))
      exact ⟨v, stik_fuel_mono S e (by omega)⟩
    · obtain ⟨v, e⟩ := stik_nest S (ta := ta) (tb := tb) (sa := sa) (sb := sb) hx h1 h
      exact ⟨v, stik_fuel_mono S e (by omega)⟩

/-- **totality**: for non-degenerate intervals `stik` succeeds with any fuel `≥ 5`; in particular
its assertions `assert:lex`, `assert:contained` never fire -/
theorem stik_total {ta tb sa sb xa xb ya yb : Rat} (hx : xa < xb) (hy : ya < yb) (fuel : Nat)
    (hf : 5 ≤ fuel) : ∃ v, stik S fuel ta tb sa sb xa xb ya yb = .ok v := by
  by_cases h : lexLt ya yb xa xb = true
  · obtain ⟨v, e⟩ := stik_total_norm S (ta := ta) (tb := tb) (sa := sa) (sb := sb) hy hx
      (by rw [lexLt_iff] at h; rcases h with h | ⟨h, h'⟩
          · exact Or.inl h
          · exact Or.inr ⟨h, le_of_lt h'⟩)
    refine ⟨v, stik_fuel_mono S (fuel := 5) ?_ hf⟩
    rw [stik, if_pos h]; exact e
  · have := (lexLe_iff _ _ _ _).mp (lexLe_of_not_lexLt h)
    obtain ⟨v, e⟩ := stik_total_norm S (ta := ta) (tb := tb) (sa := sa) (sb := sb) hx hy this
    exact ⟨v, stik_fuel_mono S e (by omega)⟩

/-- for non-degenerate intervals `stik` with fuel `≥ 5` is symmetric in the space intervals, as an
equation between results -/
theorem stik_swap_eq {ta tb sa sb xa xb ya yb : Rat} (hx : xa < xb) (hy : ya < yb)
    (fuel fuel' : Nat) (hf : 5 ≤ fuel) (hf' : 5 ≤ fuel') :
    stik S fuel ta tb sa sb xa xb ya yb = stik S fuel' ta tb sa sb ya yb xa xb := by
  obtain ⟨v, e⟩ := stik_total S (ta := ta) (tb := tb) (sa := sa) (sb := sb) hx hy fuel hf
  obtain ⟨w, e'⟩ := stik_total S (ta := ta) (tb := tb) (sa := sa) (sb := sb) hy hx fuel' hf'
  rw [e, e', stik_swap S e e']

end Stbem.SL
