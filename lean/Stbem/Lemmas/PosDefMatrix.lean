import Stbem.Lemmas.PosDefCast
import Mathlib.Data.Matrix.Mul
import Mathlib.Data.List.OfFn
import Mathlib.Algebra.BigOperators.Fin

/-!
# Bridge between the list matrices of the checker and Mathlib's `Matrix (Fin n) (Fin n) K`
-/
namespace Stbem.PosDef
set_option linter.unusedSectionVars false
open Matrix

variable {K : Type} [Field K] [LinearOrder K] [IsStrictOrderedRing K]

/-- rows of a Mathlib matrix as lists: the wire format of the driver command `pd check` -/
def toLists {m n : Nat} (A : Matrix (Fin m) (Fin n) K) : List (List K) :=
  List.ofFn fun i => List.ofFn fun j => A i j

/-- the `n × n` Mathlib matrix of a list of rows (entries outside the lists are 0) -/
def ofLists (n : Nat) (M : List (List K)) : Matrix (Fin n) (Fin n) K :=
  Matrix.of fun i j => (M.getD i []).getD j 0

theorem dot_ofFn : ∀ {n : Nat} (f g : Fin n → K), dot (List.ofFn f) (List.ofFn g) = ∑ i, f i * g i := by
  intro n
  induction n with
  | zero => intro f g; simp
  | succ n ih =>
    intro f g
    rw [List.ofFn_succ, List.ofFn_succ, dot_cons_cons, ih, Fin.sum_univ_succ]

theorem sqsum_ofFn : ∀ {n : Nat} (d x : Fin n → K),
    sqsum (List.ofFn d) (List.ofFn x) = ∑ i, d i * x i * x i := by
  intro n
  induction n with
  | zero => intro d x; simp [sqsum_nil_left]
  | succ n ih =>
    intro d x
    rw [List.ofFn_succ, List.ofFn_succ, sqsum_cons_cons, ih, Fin.sum_univ_succ]

theorem mulVec_toLists {m n : Nat} (A : Matrix (Fin m) (Fin n) K) (x : Fin n → K) :
    mulVec (toLists A) (List.ofFn x) = List.ofFn (A *ᵥ x) := by
  unfold mulVec toLists
  rw [List.map_ofFn]
  congr 1
  funext i
  simp only [Function.comp_def, dot_ofFn]
  rfl

theorem quad_toLists {n : Nat} (A : Matrix (Fin n) (Fin n) K) (x : Fin n → K) :
    quad (toLists A) (List.ofFn x) = x ⬝ᵥ A *ᵥ x := by
  unfold quad
  rw [mulVec_toLists, dot_ofFn]
  rfl

theorem shape_toLists {m n : Nat} (A : Matrix (Fin m) (Fin n) K) : Shape m n (toLists A) := by
  refine ⟨by simp [toLists], ?_⟩
  intro r hr
  simp only [toLists, List.mem_ofFn] at hr
  obtain ⟨i, rfl⟩ := hr
  simp

theorem nonZero_ofFn {n : Nat} (x : Fin n → K) : NonZero (List.ofFn x) ↔ x ≠ 0 := by
  unfold NonZero
  constructor
  · rintro ⟨v, hv, hne⟩ hx
    obtain ⟨i, rfl⟩ := List.mem_ofFn.mp hv
    exact hne (by rw [hx]; rfl)
  · intro hx
    obtain ⟨i, hi⟩ := Function.ne_iff.mp hx
    exact ⟨x i, List.mem_ofFn.mpr ⟨i, rfl⟩, hi⟩

theorem tails_toLists_succ {m n : Nat} (A : Matrix (Fin m) (Fin (n + 1)) K) :
    tails (toLists A) = toLists (Matrix.of fun i j => A i j.succ) := by
  unfold tails toLists
  rw [List.map_ofFn]
  congr 1
  funext i
  simp [List.ofFn_succ]

theorem diagN_toLists : ∀ {n : Nat} (A : Matrix (Fin n) (Fin n) K),
    diagN n (toLists A) = List.ofFn fun i => A i i := by
  intro n
  induction n with
  | zero => intro A; simp [diagN]
  | succ n ih =>
    intro A
    have h : toLists A = (A 0 0 :: List.ofFn fun j : Fin n => A 0 j.succ) ::
        toLists (Matrix.of fun (i : Fin n) (j : Fin (n + 1)) => A i.succ j) := by
      unfold toLists
      rw [List.ofFn_succ]
      congr 1
      rw [List.ofFn_succ]
    rw [h]
    simp only [diagN]
    rw [tails_toLists_succ, ih, List.ofFn_succ (f := fun i => A i i)]
    rfl

theorem castL_ofFn {n : Nat} (f : Fin n → ℚ) : (castL (List.ofFn f) : List K) = List.ofFn fun j => (f j : K) := by
  unfold castL
  rw [List.map_ofFn]
  rfl

theorem castM_toLists {m n : Nat} (A : Matrix (Fin m) (Fin n) ℚ) :
    (castM (toLists A) : List (List K)) = toLists (A.map fun q => (q : K)) := by
  unfold castM toLists
  rw [List.map_ofFn]
  congr 1
  funext i
  exact castL_ofFn _

/-- every list of the right length is `List.ofFn` of its entries -/
theorem exists_ofFn {n : Nat} (x : List K) (hx : x.length = n) : ∃ f : Fin n → K, x = List.ofFn f := by
  subst hx
  exact ⟨fun i => x[i], (List.ofFn_getElem).symm⟩

/-- a well-shaped list of rows is `toLists` of its Mathlib matrix -/
theorem toLists_ofLists {n : Nat} (M : List (List K)) (hM : Shape n n M) : toLists (ofLists n M) = M := by
  obtain ⟨hl, hr⟩ := hM
  apply List.ext_getElem
  · simp [toLists, hl]
  · intro i h1 h2
    have hrow : (M[i]).length = n := hr _ (List.getElem_mem h2)
    apply List.ext_getElem
    · simp [toLists, hrow]
    · intro j h3 h4
      simp [toLists, ofLists, List.getD_eq_getElem?_getD, h2, h4]

end Stbem.PosDef
