import Stbem.Lemmas.HalfEdgePres2
import Stbem.Lemmas.HalfEdgeVerts

/-!
# H-layer: one legal bisection commutes with the abstraction function
-/
namespace Stbem.HalfEdge
open Stbem.Mesh (Ax Side Cell Mesh Inv Adj nbrs children tlo thi descSide addVert newVerts bisect)

theorem tau_lt_of_mid (c : Cell) (s : Side) (hp : c.t0 < c.t1 ∧ c.x0 < c.x1) :
    tlo c s < tau s (mid (corner c s) (corner c (sideNext s))) ∧
    tau s (mid (corner c s) (corner c (sideNext s))) < thi c s := by
  obtain ⟨p1, p2⟩ := hp
  cases s <;> simp only [tau, mid, corner, sideNext, tlo, thi] <;> constructor <;> linarith

theorem nu_of_mid (c : Cell) (s : Side) :
    nu s (mid (corner c s) (corner c (sideNext s))) = nu s (corner c s) := by
  cases s <;> simp only [nu, mid, corner, sideNext] <;> ring

theorem abs_leaves_def (h : HMesh) : h.abs.leaves = h.leaves.map h.cellOf := rfl
theorem abs_nElems_def (h : HMesh) : h.abs.nElems = h.nElems := rfl
theorem abs_kids_def (h : HMesh) : h.abs.kids = h.kidsTable := rfl
theorem abs_def (h : HMesh) :
    h.abs = { glue := h.glue, xmin := h.xmin, xmax := h.xmax, tmin := h.tmin, tmax := h.tmax,
              leaves := h.abs.leaves, nElems := h.nElems, verts := h.abs.verts, kids := h.kidsTable } := rfl

/-- every corner of a cell is a corner of one of its two children -/
theorem corner_child (n : Nat) (c : Cell) (ax : Ax) (s : Side) :
    (∃ s', corner c s = corner (children n c ax).1 s') ∨ (∃ s', corner c s = corner (children n c ax).2 s') := by
  cases ax <;> cases s
  · exact Or.inl ⟨.bottom, rfl⟩
  · exact Or.inl ⟨.right, rfl⟩
  · exact Or.inr ⟨.top, rfl⟩
  · exact Or.inr ⟨.left, rfl⟩
  · exact Or.inl ⟨.bottom, rfl⟩
  · exact Or.inr ⟨.right, rfl⟩
  · exact Or.inr ⟨.top, rfl⟩
  · exact Or.inl ⟨.left, rfl⟩

/-- the two mid points are corners of the first child -/
theorem mid_corner_child (n : Nat) (c : Cell) (ax : Ax) :
    (∃ s', mid (corner c (bisSide ax)) (corner c (sideNext (bisSide ax))) = corner (children n c ax).1 s') ∧
    (∃ s', mid (corner c (bisSide ax).opp) (corner c (sideNext (bisSide ax).opp)) = corner (children n c ax).1 s') := by
  cases ax
  · refine ⟨⟨.top, ?_⟩, ⟨.left, ?_⟩⟩ <;>
      simp only [mid, corner, bisSide, sideNext, Side.opp, children, Prod.mk.injEq] <;> constructor <;>
      first | exact trivial | rfl | ring
  · refine ⟨⟨.right, ?_⟩, ⟨.top, ?_⟩⟩ <;>
      simp only [mid, corner, bisSide, sideNext, Side.opp, children, Prod.mk.injEq] <;> constructor <;>
      first | exact trivial | rfl | ring

/-- one entry of the table of bisections -/
def kidEntry (h : HMesh) (E : HElem) : Option (Nat × Nat × Nat) :=
  match E.parent with
  | none => none
  | some p => match (h.elem p).kids with
    | none => none
    | some (c1, c2) => if (h.elem c1).id == E.id then some ((h.elem p).id, (h.elem c1).id, (h.elem c2).id) else none

theorem kidsTable_eq (h : HMesh) : h.kidsTable = h.elems.toList.filterMap (kidEntry h) := rfl

theorem elems_toList (h : HMesh) : h.elems.toList = (List.range h.elems.size).map h.elem := by
  apply List.ext_getElem
  · simp
  · intro i h1 h2
    have hi : i < h.elems.size := by simpa using h1
    simp [elem_def, Array.getElem?_eq_getElem hi]

theorem kidsTable_range (h : HMesh) :
    h.kidsTable = (List.range h.elems.size).filterMap fun k => kidEntry h (h.elem k) := by
  rw [kidsTable_eq, elems_toList, List.filterMap_map]
  rfl

/-- coordinates of the vertices, the `verts` field of the abstraction -/
def vc (h : HMesh) : List (Rat × Rat) := h.verts.toList.map fun v => (v.t, v.x)

theorem abs_verts (h : HMesh) : h.abs.verts = vc h := rfl

theorem mem_vc (h : HMesh) (P : Rat × Rat) : P ∈ vc h ↔ ∃ v < h.verts.size, h.pt v = P := by
  unfold vc
  rw [List.mem_map]
  constructor
  · rintro ⟨a, ha, rfl⟩
    obtain ⟨k, hk, rfl⟩ := List.getElem_of_mem ha
    have hk' : k < h.verts.size := by simpa using hk
    refine ⟨k, hk', ?_⟩
    unfold HMesh.pt
    rw [vert_def, Array.getElem?_eq_getElem hk']
    simp
  · rintro ⟨v, hv, rfl⟩
    refine ⟨h.vert v, ?_, rfl⟩
    rw [vert_def, Array.getElem?_eq_getElem hv]
    simp

theorem vc_pushMid (h : HMesh) (ei : Nat) :
    vc (pushMid h ei) = vc h ++ [mid (h.pt (h.edge ei).v0) (h.pt (h.edge ei).v1)] := by
  unfold vc pushMid HMesh.pushVert
  simp [mid, HMesh.pt]

theorem vc_bisectEdgeRes (h : HMesh) (ei : Nat) (L : Option (Nat × Nat)) :
    vc (bisectEdgeRes h ei L) =
      if newVertex h ei L then vc h ++ [mid (h.pt (h.edge ei).v0) (h.pt (h.edge ei).v1)] else vc h := by
  unfold vc
  rw [bisectEdgeRes_verts]
  split
  · exact vc_pushMid h ei
  · rfl

theorem addVert_of_mem {vs : List (Rat × Rat)} {v : Rat × Rat} (hm : v ∈ vs) : addVert vs v = vs := by
  unfold addVert; simp [hm]

theorem addVert_of_not_mem {vs : List (Rat × Rat)} {v : Rat × Rat} (hm : v ∉ vs) : addVert vs v = vs ++ [v] := by
  unfold addVert; simp [hm]

theorem newVerts_eq (c : Cell) (ax : Ax) :
    newVerts c ax = (mid (corner c (bisSide ax)) (corner c (sideNext (bisSide ax))),
      mid (corner c (bisSide ax).opp) (corner c (sideNext (bisSide ax).opp))) := by
  cases ax <;> simp only [newVerts, mid, corner, bisSide, sideNext, Side.opp, Prod.mk.injEq] <;>
    refine ⟨⟨?_, ?_⟩, ⟨?_, ?_⟩⟩ <;> first | exact trivial | ring

theorem mid_ne_mid (c : Cell) (ax : Ax) (hp : c.t0 < c.t1 ∧ c.x0 < c.x1) :
    mid (corner c (bisSide ax).opp) (corner c (sideNext (bisSide ax).opp)) ≠
      mid (corner c (bisSide ax)) (corner c (sideNext (bisSide ax))) := by
  obtain ⟨p1, p2⟩ := hp
  cases ax <;> simp only [mid, corner, bisSide, sideNext, Side.opp, ne_eq, Prod.mk.injEq, not_and] <;>
    intro _ <;> intro e <;> linarith

section
variable {h : HMesh} {el : Nat} {ax : Ax} (C : Ctx h el ax)
include C

/-- when `__bisect_edge` creates a new vertex for a bisected side, no vertex with these coordinates exists -/
theorem Ctx.mid_fresh (hv : HVerts h) {s : Side} (hs : sideAx s = ax)
    (hnew : (linkOf h ((h.elem el).side s)).isNone = true ∨ (h.edge ((h.elem el).side s)).glued = true) :
    ∀ v < h.verts.size, h.pt v ≠ mid (corner (h.cellOf el) s) (corner (h.cellOf el) (sideNext s)) := by
  intro v hlt e
  obtain ⟨l, hl, s', hc⟩ := hv v hlt
  have g := C.hi.geom el C.hel
  refine no_corner_at_mid C.ha (mem_abs_leaves C.hel) (mem_abs_leaves hl) s s' (nu_of_mid _ s)
    (tau_lt_of_mid _ s g.proper) ?_ (by rw [← hc, e])
  by_cases hg : (h.edge ((h.elem el).side s)).glued = true
  · right
    have := (C.hi.flags el C.hel).seamSide s hg
    exact this.2.2
  · have hL : (linkOf h ((h.elem el).side s)).isNone = true := by
      rcases hnew with a | a
      · exact a
      · exact absurd a hg
    left
    rcases C.hi.cases el C.hel s with hA | hB | hC | hD
    · obtain ⟨f, n, h1, h2, h3, hn, hf, ho, -⟩ := hA
      exact caseA_span C.hi C.ha C.hel hn hf ho
    · obtain ⟨f, f0, f1, n0, n1, h1, h2, h3, hk, -⟩ := hB
      unfold linkOf at hL
      rw [h1] at hL
      change ((h.edge f).kids).isNone = true at hL
      rw [hk.kids] at hL
      cases hL
    · exact absurd hC (C.hi.no_caseC C.ha C.hel C.hl hs)
    · obtain ⟨h1, h2, h3, h4⟩ := hD
      intro n hn hadj
      have hmem : n ∈ nbrs h.abs (h.cellOf el) s := Stbem.Mesh.mem_nbrs.mpr ⟨hn, hadj⟩
      rw [caseD_nbrs C.hi C.ha C.hel h3 h4] at hmem
      cases hmem

/-- the vertex list of the abstraction after the bisection is `addVert (addVert verts v1) v2` of the A-layer -/
theorem Ctx.abs_verts (hv : HVerts h) :
    (res h el ax).abs.verts =
      addVert (addVert h.abs.verts (newVerts (h.cellOf el) ax).1) (newVerts (h.cellOf el) ax).2 := by
  have P := C.pre
  have g := C.hi.geom el C.hel
  obtain ⟨sa1, sa2⟩ := sideAx_bis ax
  rw [Stbem.HalfEdge.abs_verts, Stbem.HalfEdge.abs_verts, newVerts_eq]
  simp only
  set mA := mid (corner (h.cellOf el) (bisSide ax)) (corner (h.cellOf el) (sideNext (bisSide ax))) with hmA
  set mB := mid (corner (h.cellOf el) (bisSide ax).opp) (corner (h.cellOf el) (sideNext (bisSide ax).opp)) with hmB
  -- the list after the first `__bisect_edge`
  have v2 : vc (mesh2 h el ax (LA h el ax)) = addVert (vc h) mA := by
    unfold mesh2
    rw [vc_bisectEdgeRes, (P.h1_fields _).2.2.1, (P.h1_fields _).2.2.2.1]
    have hpt : ∀ w, (mesh1 h el).pt w = h.pt w := fun w => rfl
    rw [hpt, hpt, (P.seg _).1, (P.seg _).2, ← hmA]
    have hvc : vc (mesh1 h el) = vc h := rfl
    rw [hvc]
    cases hn : newVertex (mesh1 h el) ((h.elem el).side (bisSide ax)) (LA h el ax)
    · -- reuse
      simp only [Bool.false_eq_true, if_false]
      unfold newVertex at hn
      rw [(P.h1_fields _).2.2.2.2.1, Bool.or_eq_false_iff] at hn
      cases hL : LA h el ax with
      | none => rw [hL] at hn; simp at hn
      | some p =>
        obtain ⟨a0, a1⟩ := p
        obtain ⟨r, hp⟩ := C.hi.link_mid C.hel hL hn.2
        rw [(P.seg _).1, (P.seg _).2, ← hmA] at hp
        rw [addVert_of_mem ((mem_vc h mA).mpr ⟨_, r, hp⟩)]
    · simp only [if_true]
      unfold newVertex at hn
      rw [(P.h1_fields _).2.2.2.2.1, Bool.or_eq_true] at hn
      rw [addVert_of_not_mem]
      rw [mem_vc]
      rintro ⟨w, hw, e⟩
      exact C.mid_fresh hv sa1 hn w hw e
  -- the list after the second
  have v3 : vc (mesh3 h el ax (LA h el ax) (LB h el ax)) = addVert (vc (mesh2 h el ax (LA h el ax))) mB := by
    unfold mesh3
    obtain ⟨f0, f1, f2, -⟩ := P.h2_fields_side (bisSide ax).opp
    rw [vc_bisectEdgeRes, f0, f1]
    have hpt0 := pt_of_vert (mesh2_vert_lt h el ax (LA h el ax) (P.vr (bisSide ax).opp))
    have hpt1 := pt_of_vert (mesh2_vert_lt h el ax (LA h el ax) (P.v1r (bisSide ax).opp))
    rw [hpt0, hpt1, (P.seg _).1, (P.seg _).2, ← hmB]
    cases hn : newVertex (mesh2 h el ax (LA h el ax)) ((h.elem el).side (bisSide ax).opp)
        (lbEff h el ax (LB h el ax))
    · -- reuse: not the single glued column
      simp only [Bool.false_eq_true, if_false]
      unfold newVertex at hn
      rw [f2, Bool.or_eq_false_iff] at hn
      have hns : ¬ selfNbr h el ax := by
        intro hs
        rw [(P.selfOK hs).2] at hn
        exact absurd hn.2 (by simp)
      rw [lbEff_other _ hns] at hn
      cases hL : LB h el ax with
      | none => rw [hL] at hn; simp at hn
      | some p =>
        obtain ⟨b0, b1⟩ := p
        obtain ⟨r, hp⟩ := C.hi.link_mid C.hel hL hn.2
        rw [(P.seg _).1, (P.seg _).2, ← hmB] at hp
        rw [addVert_of_mem]
        rw [v2]
        have : mB ∈ vc h := (mem_vc h mB).mpr ⟨_, r, hp⟩
        unfold addVert
        split
        · exact this
        · exact List.mem_append_left _ this
    · simp only [if_true]
      unfold newVertex at hn
      rw [f2, Bool.or_eq_true] at hn
      have hn' : (linkOf h ((h.elem el).side (bisSide ax).opp)).isNone = true ∨
          (h.edge ((h.elem el).side (bisSide ax).opp)).glued = true := by
        rcases hn with a | a
        · by_cases hs : selfNbr h el ax
          · exact Or.inr (P.selfOK hs).2
          · rw [lbEff_other _ hs] at a; exact Or.inl a
        · exact Or.inr a
      rw [addVert_of_not_mem]
      rw [v2]
      intro hm
      have hnotin : mB ∉ vc h := by
        rw [mem_vc]
        rintro ⟨w, hw, e⟩
        exact C.mid_fresh hv sa2 hn' w hw e
      unfold addVert at hm
      split at hm
      · exact hnotin hm
      · rcases List.mem_append.mp hm with a | a
        · exact hnotin a
        · simp only [List.mem_cons, List.not_mem_nil, or_false] at a
          exact mid_ne_mid _ ax g.proper a
  have : vc (res h el ax) = vc (mesh3 h el ax (LA h el ax) (LB h el ax)) := by
    unfold vc; rw [res_verts]
  rw [this, v3, v2]

theorem Ctx.abs_kids :
    (res h el ax).kidsTable = h.kidsTable ++ [((h.elem el).id, h.nElems, h.nElems + 1)] := by
  have P := C.pre
  have hw := C.hi.wf
  have hels := res_elems_size h el ax (LA h el ax) (LB h el ax)
  have hel := C.elr
  have hc1 := P.res_elem_c1
  have hc2 := P.res_elem_c2
  have hce := P.res_elem_el
  rw [kidsTable_range, kidsTable_range, hels, show h.elems.size + 2 = h.elems.size + 1 + 1 from rfl,
    List.range_succ, List.range_succ, List.append_assoc, List.filterMap_append]
  congr 1
  · -- old entries
    apply List.filterMap_congr
    intro k hk
    rw [List.mem_range] at hk
    obtain ⟨fid, -, -, -, fpar, -⟩ := C.elem_fields hk
    unfold kidEntry
    rw [fpar, fid]
    cases hp : (h.elem k).parent with
    | none => rfl
    | some p =>
      have hpr := hw.elemP k hk p hp
      simp only
      by_cases hpe : p = el
      · subst hpe
        rw [hce, C.hi.own.leafKids p C.hel]
        simp only
        rw [hc1]
        have : ¬ (h.nElems == (h.elem k).id) = true := by
          rw [hw.elemId k hk, hw.count]; simp; omega
        simp [this]
      · rw [C.elem_old hpr hpe]
        cases hk' : (h.elem p).kids with
        | none => rfl
        | some kk =>
          obtain ⟨c1, c2⟩ := kk
          obtain ⟨r1, r2⟩ := hw.elemK p hpr _ hk'
          simp only
          rw [(C.elem_fields r1).1, (C.elem_fields r2).1]
  · -- the two new elements
    simp only [List.cons_append, List.nil_append, List.filterMap_cons, List.filterMap_nil]
    have e1 : kidEntry (res h el ax) ((res h el ax).elem h.elems.size) =
        some ((h.elem el).id, h.nElems, h.nElems + 1) := by
      unfold kidEntry
      simp [hc1, hc2, hce]
    have e2 : kidEntry (res h el ax) ((res h el ax).elem (h.elems.size + 1)) = none := by
      unfold kidEntry
      simp [hc1, hc2, hce]
    rw [e1, e2]

theorem Ctx.abs_leaves :
    (res h el ax).abs.leaves =
      h.abs.leaves.filter (fun l => l.id != (h.cellOf el).id) ++
        [(children h.abs.nElems (h.cellOf el) ax).1, (children h.abs.nElems (h.cellOf el) ax).2] := by
  rw [abs_leaves_def (res h el ax)]
  rw [abs_leaves_def h, abs_nElems_def h]
  rw [res_leaves h el ax (LA h el ax) (LB h el ax)]
  rw [List.map_append, List.map_cons, List.map_cons, List.map_nil]
  rw [C.cellOf_c1, C.cellOf_c2]
  rw [List.filter_map]
  have hmap : (h.leaves.filter fun l => l != el).map (res h el ax).cellOf =
      (h.leaves.filter fun l => l != el).map h.cellOf := by
    apply List.map_congr_left
    intro l hl
    obtain ⟨h1, h2⟩ := List.mem_filter.mp hl
    exact C.cellOf_old h1 (by simpa using h2)
  have hfil : h.leaves.filter ((fun l : Cell => l.id != (h.cellOf el).id) ∘ h.cellOf) =
      h.leaves.filter fun l => l != el := by
    apply List.filter_congr
    intro l hl
    simp only [Function.comp, cellOf_id, C.hi.wf.elemId l (C.leaf_lt hl), C.hi.wf.elemId el C.elr]
  rw [hmap, hfil]

/-- THE SINGLE STEP OF THE REFINEMENT THEOREM: one legal bisection commutes with the abstraction function -/
theorem Ctx.abs_res (hv : HVerts h) :
    (res h el ax).abs = bisect h.abs (h.cellOf el) ax := by
  have e1 := C.abs_leaves
  have e2 := C.abs_verts hv
  have e3 := C.abs_kids
  obtain ⟨b1, b2, b3, b4, b5⟩ := res_box h el ax (LA h el ax) (LB h el ax)
  have e4 := res_nElems h el ax (LA h el ax) (LB h el ax)
  rw [abs_def (res h el ax), e1, e2, e3, e4, b1, b2, b3, b4, b5]
  unfold bisect
  rw [abs_nElems_def, abs_kids_def, cellOf_id]
  rfl

/-- a vertex of the result is an old vertex or one of the two mid vertices -/
theorem Ctx.vertex_cases {v : Nat} (hv : v < (res h el ax).verts.size) :
    v < h.verts.size ∨ v = vtxA h el ax (LA h el ax) ∨ v = vtxB h el ax (LA h el ax) (LB h el ax) := by
  rw [res_verts] at hv
  by_cases h1 : v < h.verts.size
  · exact Or.inl h1
  · right
    have sz2 : (mesh2 h el ax (LA h el ax)).verts.size =
        if newVertex (mesh1 h el) ((h.elem el).side (bisSide ax)) (LA h el ax) then h.verts.size + 1
        else h.verts.size := by
      unfold mesh2
      rw [bisectEdgeRes_verts]
      split
      · rw [pushMid_size, mesh1_verts]
      · rw [mesh1_verts]
    have sz3 : (mesh3 h el ax (LA h el ax) (LB h el ax)).verts.size =
        if newVertex (mesh2 h el ax (LA h el ax)) ((h.elem el).side (bisSide ax).opp) (lbEff h el ax (LB h el ax))
        then (mesh2 h el ax (LA h el ax)).verts.size + 1 else (mesh2 h el ax (LA h el ax)).verts.size := by
      unfold mesh3
      rw [bisectEdgeRes_verts]
      split
      · rw [pushMid_size]
      · rfl
    have vA : newVertex (mesh1 h el) ((h.elem el).side (bisSide ax)) (LA h el ax) = true →
        vtxA h el ax (LA h el ax) = h.verts.size := by
      intro hn; unfold vtxA midVertex; rw [if_pos hn, mesh1_verts]
    have vB : newVertex (mesh2 h el ax (LA h el ax)) ((h.elem el).side (bisSide ax).opp)
        (lbEff h el ax (LB h el ax)) = true →
        vtxB h el ax (LA h el ax) (LB h el ax) = (mesh2 h el ax (LA h el ax)).verts.size := by
      intro hn; unfold vtxB midVertex; rw [if_pos hn]
    rw [sz3] at hv
    cases hA : newVertex (mesh1 h el) ((h.elem el).side (bisSide ax)) (LA h el ax) <;>
      cases hB : newVertex (mesh2 h el ax (LA h el ax)) ((h.elem el).side (bisSide ax).opp)
        (lbEff h el ax (LB h el ax)) <;>
      rw [hA] at sz2 <;> rw [hB] at hv <;> simp only [Bool.false_eq_true, if_false, if_true] at sz2 hv
    · omega
    · right; rw [vB hB]; omega
    · left; rw [vA hA]; omega
    · have a := vA hA; have b := vB hB
      omega

theorem Ctx.hverts_res (hv : HVerts h) : HVerts (res h el ax) := by
  have P := C.pre
  intro v hlt
  rcases C.vertex_cases hlt with h1 | rfl | rfl
  · obtain ⟨l, hl, s, hc⟩ := hv v h1
    by_cases hle : l = el
    · subst hle
      rcases corner_child h.nElems (h.cellOf l) ax s with ⟨s', e⟩ | ⟨s', e⟩
      · exact ⟨h.elems.size, C.mem_c1, s', by rw [C.pt_old h1, hc, C.cellOf_c1, e]⟩
      · exact ⟨h.elems.size + 1, C.mem_c2, s', by rw [C.pt_old h1, hc, C.cellOf_c2, e]⟩
    · exact ⟨l, C.mem_old hl hle, s, by rw [C.pt_old h1, hc, C.cellOf_old hl hle]⟩
  · obtain ⟨⟨s', e⟩, -⟩ := mid_corner_child h.nElems (h.cellOf el) ax
    exact ⟨h.elems.size, C.mem_c1, s', by rw [P.res_ptA.2, C.cellOf_c1, e]⟩
  · obtain ⟨-, ⟨s', e⟩⟩ := mid_corner_child h.nElems (h.cellOf el) ax
    exact ⟨h.elems.size, C.mem_c1, s', by rw [P.res_ptB.2, C.cellOf_c1, e]⟩

end

end Stbem.HalfEdge
