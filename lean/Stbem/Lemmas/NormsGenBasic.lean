import Stbem.Model.NormsConv
import Stbem.Lemmas.QuadGenBasic

/-! Helper lemmas for `Props/NormsTie.lean`: the object model / NumPy prelude of `Stbem.Gen.NormsGen` on arrays of the
form `r.map g`, and `np.repeat` of a per-node array against the node order of `product2`. -/
namespace Stbem.NormsConv
open Stbem.Quad Stbem.QuadConv
open Stbem.Gen Stbem.Gen.QuadGen Stbem.Gen.NormsGen

section
variable {α : Type} (l : List α) (g h g' h' : α → Rat)

@[simp] theorem npGamma_map (γ : Gamma) :
    npGamma γ (l.map g) = [l.map fun a => (γ.eval (g a)).1, l.map fun a => (γ.eval (g a)).2] := by
  simp [npGamma, List.map_map, Function.comp_def]

@[simp] theorem npMapG_map (f : Rat → Rat × Rat → Rat) (γ : Gamma) :
    npMapG f γ (l.map g) = l.map fun a => f (g a) (γ.eval (g a)) := by
  simp [npMapG, List.map_map, Function.comp_def]

@[simp] theorem npMM_map2 (op : Rat → Rat → Rat) :
    npMM op [l.map g, l.map h] [l.map g', l.map h'] = [l.map fun a => op (g a) (g' a), l.map fun a => op (h a) (h' a)] := by
  simp [npMM]

@[simp] theorem npPowM_map2 (k : Nat) :
    npPowM [l.map g, l.map h] k = [l.map fun a => g a ^ k, l.map fun a => h a ^ k] := by
  simp [npPowM, List.map_map, Function.comp_def]

@[simp] theorem npSumAxis0_map2 : npSumAxis0 [l.map g, l.map h] = l.map fun a => g a + h a := by
  simp [npSumAxis0]
end

@[simp] theorem npRepeatAxis1_two (a b : List Rat) (k : Nat) : npRepeatAxis1 [a, b] k = [npRepeat a k, npRepeat b k] := rfl

/-- `np.repeat(c(x), len(y))` for the points `x` of `rx` has the node order of `ProductScheme2D(rx, ry)` -/
theorem npRepeat_product2 (rx ry : Rule1) (c : Rat → Rat) :
    npRepeat (rx.map fun n => c n.x) ry.length = (product2 rx ry).map fun n => c n.x := by
  simp [npRepeat, product2, List.map_flatMap, List.flatMap_map, List.map_map, Function.comp_def, List.map_const']

/-- the one-column evaluation of an entry-wise expression -/
@[simp] theorem npAt0_singleton (u : Rat) : npAt0 [u] = u := rfl

/-- the integrand that `seminorm_h_1_2_pw` hands to `QuadScheme2D.integrate` (its local function `slo` on a one-column
array) is the hand model's `sloCross` -/
theorem slo_point (f : Rat → Rat × Rat → Rat) (γ1 γ2 : Gamma) (u v : Rat) :
    npAt0 (QuadGen.npAA (· / ·)
      (QuadGen.npPow (QuadGen.npAA (· - ·) (npMapG f γ1 (QuadGen.npRow (npCol u v) 0))
        (npMapG f γ2 (QuadGen.npRow (npCol u v) 1))) 2)
      (npSumAxis0 (npPowM (npMM (· - ·) (npGamma γ1 (QuadGen.npRow (npCol u v) 0))
        (npGamma γ2 (QuadGen.npRow (npCol u v) 1))) 2))) = sloCross γ1.eval γ2.eval f u v := by
  simp [npCol, npGamma, npMapG, npMM, npPowM, npSumAxis0, QuadGen.npAA, QuadGen.npPow, npAt0, sloCross, dist2]

end Stbem.NormsConv
