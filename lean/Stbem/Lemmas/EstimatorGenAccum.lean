import Stbem.Lemmas.EstimatorGenLoops

/-!
# The accumulation loop of `estimate_sobolev` (generated) against `Stbem.Estimator.accumulate` (hand model)

The generated loop walks over `zip(range(N), elems)`, reads `sobolev_time[i]`, `sobolev_space[i]`, and updates the `(N, 2)`
array in place, column 0 and column 1 interleaved, with `IndexError` / `KeyError` checks.  The hand model treats the two
columns one after the other through lists of contributions.  Both agree: the only exception that can occur is the `KeyError`
of `glob_2_loc[elem_nbr]`, and updates of different columns commute.
-/
namespace Stbem.EstimatorTie
open Stbem.Mesh Stbem.Estimator Stbem.EstimatorConv
open Stbem.Gen Stbem.Gen.EstimatorGen
set_option linter.unusedSimpArgs false

abbrev Res := Rat × List (Nat × Rat)
abbrev Arr2 := List (Rat × Rat)

/-- the dictionary `{elem.glob_idx: i for i, elem in enumerate(elems)}` as the generated code builds it -/
def globDict (elems : List Cell) : List (Nat × Nat) := dictOf ((enumerate elems).map fun z => (z.2.id, z.1))

/-! ### `glob_2_loc[k]` -/

theorem dict_fold_eq_go (id : Nat) : ∀ (l : List Cell) (i : Nat) (acc : Option Nat),
    ((enumerateFrom i l).map fun z => (z.2.id, z.1)).foldl (fun acc x => if x.1 == id then some x.2 else acc) acc =
      glob2loc.go id i acc l
  | [], _, _ => rfl
  | e :: l, i, acc => by
    simp only [enumerateFrom, List.map_cons, List.foldl_cons, glob2loc.go]
    rw [dict_fold_eq_go id l (i + 1)]
    congr 1
    by_cases h : e.id = id <;> simp [h]

theorem go_bound (id : Nat) : ∀ (l : List Cell) (i : Nat) (acc : Option Nat) (j : Nat),
    glob2loc.go id i acc l = some j → acc = some j ∨ j < i + l.length
  | [], _, _, _, h => Or.inl h
  | e :: l, i, acc, j, h => by
    rw [glob2loc.go] at h
    rcases go_bound id l (i + 1) _ j h with h1 | h1
    · by_cases he : e.id = id
      · rw [if_pos he] at h1
        right; cases h1; simp
      · rw [if_neg he] at h1
        exact Or.inl h1
    · right; simp only [List.length_cons]; omega

theorem glob2loc_lt {elems : List Cell} {id j : Nat} (h : glob2loc elems id = some j) : j < elems.length := by
  rcases go_bound id elems 0 none j h with h1 | h1
  · cases h1
  · simpa using h1

/-- `glob_2_loc[k]` of the generated code is the hand model's `glob2loc` (`KeyError` for a missing key) -/
theorem dictGet_globDict (elems : List Cell) (id : Nat) :
    dictGet (globDict elems) id = match glob2loc elems id with
      | some j => .ok j
      | none => .error "KeyError" := by
  unfold dictGet globDict dictOf enumerate glob2loc
  rw [dict_fold_eq_go]
  cases glob2loc.go id 0 none elems <;> rfl

/-! ### one column: the own value, then the neighbour values -/

/-- the in-place update `a[j, k] += v` as a total function -/
def upd (k : Nat) (a : Arr2) (j : Nat) (v : Rat) : Arr2 :=
  match k with
  | 0 => a.modify j fun q => (q.1 + v, q.2)
  | _ => a.modify j fun q => (q.1, q.2 + v)

/-- all updates of a list of contributions `(position, value)` to column `k` -/
def app (k : Nat) (a : Arr2) (c : List (Nat × Rat)) : Arr2 := c.foldl (fun acc p => upd k acc p.1 p.2) a

theorem upd_length (k : Nat) (a : Arr2) (j : Nat) (v : Rat) : (upd k a j v).length = a.length := by
  unfold upd; split <;> simp

theorem app_length (k : Nat) : ∀ (c : List (Nat × Rat)) (a : Arr2), (app k a c).length = a.length
  | [], _ => rfl
  | p :: c, a => by rw [app, List.foldl_cons, ← app, app_length k c, upd_length]

theorem addAt2_ok {k : Nat} (hk : k ≤ 1) (a : Arr2) (j : Nat) (v : Rat) (h : j < a.length) :
    addAt2 a j k v = .ok (upd k a j v) := by
  unfold addAt2 upd
  rw [if_pos h]
  match k, hk with
  | 0, _ => rfl
  | 1, _ => rfl

theorem lookup_eq (elems : List Cell) (p : Nat × Rat) :
    lookup elems p = (dictGet (globDict elems) p.1 >>= fun j => pure (j, p.2)) := by
  rw [dictGet_globDict]; unfold lookup
  cases glob2loc elems p.1 <;> rfl

/-- the loop over the `(neighbour index, value)` pairs of one element -/
theorem nbr_loop {k : Nat} (hk : k ≤ 1) (elems : List Cell) (eid : Nat) : ∀ (ips : List (Nat × Rat)) (a : Arr2),
    a.length = elems.length →
    ips.foldlM (fun a p => if eid < p.1 then (dictGet (globDict elems) p.1 >>= fun j => addAt2 a j k p.2) else pure a) a =
      ((ips.filter fun p => decide (eid < p.1)).mapM (lookup elems) >>= fun extra => pure (app k a extra))
  | [], a, _ => rfl
  | p :: ips, a, ha => by
    rw [List.foldlM_cons, List.filter_cons]
    by_cases hp : eid < p.1
    · simp only [hp, if_true, decide_true, List.mapM_cons]
      cases hg : glob2loc elems p.1 with
      | none =>
        have hd : dictGet (globDict elems) p.1 = .error "KeyError" := by rw [dictGet_globDict, hg]
        rw [lookup_eq, hd]; rfl
      | some j =>
        have hd : dictGet (globDict elems) p.1 = .ok j := by rw [dictGet_globDict, hg]
        have hj : j < a.length := ha ▸ glob2loc_lt hg
        rw [lookup_eq, hd]
        simp only [ok_bind, pure_bind, bind_assoc, addAt2_ok hk a j p.2 hj]
        rw [nbr_loop hk elems eid ips (upd k a j p.2) (by rw [upd_length, ha])]
        congr 1
    · simp only [hp, if_false, decide_false, Bool.false_eq_true, pure_bind]
      exact nbr_loop hk elems eid ips a ha

/-- one column of the loop body, as the generated code performs it -/
def colGen (elems : List Cell) (k : Nat) (res : List Res) (i : Nat) (e : Cell) (a : Arr2) : Except String Arr2 := do
  let t ← getIdx res i
  let a ← addAt2 a i k t.1
  let t' ← getIdx res i
  t'.2.foldlM (fun a p => if e.id < p.1 then (dictGet (globDict elems) p.1 >>= fun j => addAt2 a j k p.2) else pure a) a

/-- the part of the loop body of `estimate_sobolev` for one column: `a[i, k] += res[i][0]`, then the neighbour loop — the
updates of the hand model's `contribs` -/
theorem col_step {k : Nat} (hk : k ≤ 1) (elems : List Cell) (res : List Res) (i : Nat) (e : Cell) (r : Res) (a : Arr2)
    (hr : res[i]? = some r) (hi : i < elems.length) (ha : a.length = elems.length) :
    colGen elems k res i e a = (contribs elems i e r >>= fun c => pure (app k a c)) := by
  unfold colGen
  have hget : getIdx res i = .ok r := by unfold getIdx; rw [hr]; rfl
  simp only [hget, ok_bind, addAt2_ok hk a i r.1 (ha ▸ hi)]
  rw [nbr_loop hk elems e.id r.2 _ (by rw [upd_length, ha])]
  unfold contribs
  simp only [bind_assoc, pure_bind]
  rfl

/-! ### exceptions: only `KeyError` -/

/-- the computation raises at most the exception `e` -/
def OnlyErr {α : Type} (e : String) (x : Except String α) : Prop := x = .error e ∨ ∃ v, x = .ok v

theorem OnlyErr.bind {α β : Type} {e : String} {x : Except String α} {f : α → Except String β} (hx : OnlyErr e x)
    (hf : ∀ a, OnlyErr e (f a)) : OnlyErr e (x >>= f) := by
  rcases hx with rfl | ⟨v, rfl⟩
  · exact Or.inl rfl
  · exact hf v

theorem OnlyErr.pure {α : Type} (e : String) (a : α) : OnlyErr e (Pure.pure a : Except String α) := Or.inr ⟨a, rfl⟩

theorem OnlyErr.mapM {α β : Type} {e : String} {f : α → Except String β} (hf : ∀ a, OnlyErr e (f a)) :
    ∀ l : List α, OnlyErr e (l.mapM f)
  | [] => Or.inr ⟨[], rfl⟩
  | a :: l => by
    rw [List.mapM_cons]
    exact (hf a).bind fun b => (OnlyErr.mapM hf l).bind fun bs => OnlyErr.pure e _

/-- two computations that can only raise the same exception may be run in either order -/
theorem bind_comm_onlyErr {α β γ : Type} {e : String} {x : Except String α} {y : Except String β} (hx : OnlyErr e x)
    (hy : OnlyErr e y) (k : α → β → Except String γ) :
    (x >>= fun a => y >>= fun b => k a b) = (y >>= fun b => x >>= fun a => k a b) := by
  rcases hx with rfl | ⟨v, rfl⟩ <;> rcases hy with rfl | ⟨w, rfl⟩ <;> rfl

theorem lookup_onlyErr (elems : List Cell) (p : Nat × Rat) : OnlyErr "KeyError" (lookup elems p) := by
  unfold lookup
  cases glob2loc elems p.1 with
  | none => exact Or.inl rfl
  | some j => exact Or.inr ⟨_, rfl⟩

theorem contribs_onlyErr (elems : List Cell) (i : Nat) (e : Cell) (r : Res) : OnlyErr "KeyError" (contribs elems i e r) := by
  unfold contribs
  exact (OnlyErr.mapM (lookup_onlyErr elems) _).bind fun _ => OnlyErr.pure _ _

/-! ### updates of the two columns commute -/

theorem modify_comm {α : Type} (f g : α → α) (h : ∀ x, f (g x) = g (f x)) :
    ∀ (l : List α) (i j : Nat), (l.modify i f).modify j g = (l.modify j g).modify i f
  | [], _, _ => by simp
  | a :: l, 0, 0 => by simp [h]
  | a :: l, 0, j + 1 => by simp
  | a :: l, i + 1, 0 => by simp
  | a :: l, i + 1, j + 1 => by simp [modify_comm f g h l i j]

theorem upd_comm (a : Arr2) (i j : Nat) (v w : Rat) : upd 1 (upd 0 a i v) j w = upd 0 (upd 1 a j w) i v := by
  show (a.modify i fun q => (q.1 + v, q.2)).modify j (fun q => (q.1, q.2 + w)) =
    (a.modify j fun q => (q.1, q.2 + w)).modify i (fun q => (q.1 + v, q.2))
  exact modify_comm (fun q : Rat × Rat => (q.1 + v, q.2)) (fun q => (q.1, q.2 + w)) (fun _ => rfl) a i j

theorem app_cons (k : Nat) (a : Arr2) (p : Nat × Rat) (c : List (Nat × Rat)) :
    app k a (p :: c) = app k (upd k a p.1 p.2) c := rfl

theorem app_append (k : Nat) (a : Arr2) (c c' : List (Nat × Rat)) : app k a (c ++ c') = app k (app k a c) c' := by
  unfold app; rw [List.foldl_append]

theorem app0_upd1 : ∀ (c : List (Nat × Rat)) (a : Arr2) (j : Nat) (w : Rat),
    app 0 (upd 1 a j w) c = upd 1 (app 0 a c) j w
  | [], _, _, _ => rfl
  | p :: c, a, j, w => by
    rw [app_cons, ← upd_comm, app0_upd1 c, ← app_cons]

theorem app_comm : ∀ (c1 : List (Nat × Rat)) (a : Arr2) (c0 : List (Nat × Rat)),
    app 0 (app 1 a c1) c0 = app 1 (app 0 a c0) c1
  | [], _, _ => rfl
  | p :: c1, a, c0 => by
    rw [app_cons, app_comm c1, app0_upd1, ← app_cons]

/-! ### the interleaved loop equals the two columns one after the other -/

abbrev Quad := Nat × Cell × Res × Res

theorem accum_main (elems : List Cell) : ∀ (Q : List Quad) (a : Arr2),
    Q.foldlM (fun a q => do
        let c0 ← contribs elems q.1 q.2.1 q.2.2.1
        let c1 ← contribs elems q.1 q.2.1 q.2.2.2
        pure (app 1 (app 0 a c0) c1)) a =
    (do
      let cs0 ← Q.mapM fun q => contribs elems q.1 q.2.1 q.2.2.1
      let cs1 ← Q.mapM fun q => contribs elems q.1 q.2.1 q.2.2.2
      pure (app 1 (app 0 a cs0.flatten) cs1.flatten))
  | [], a => rfl
  | q :: Q, a => by
    rw [List.foldlM_cons, List.mapM_cons, List.mapM_cons]
    simp only [bind_assoc, pure_bind]
    congr 1; funext c0
    rw [bind_comm_onlyErr (OnlyErr.mapM (fun q => contribs_onlyErr elems q.1 q.2.1 q.2.2.1) Q)
      (contribs_onlyErr elems q.1 q.2.1 q.2.2.2)]
    congr 1; funext c1
    rw [accum_main elems Q]
    congr 1; funext cs0
    congr 1; funext cs1
    simp only [List.flatten_cons, app_append, app_comm]

/-! ### generic loop lemmas -/

theorem forIn_yield_foldlM {α σ : Type} (f : α → σ → Except String (ForInStep σ)) (g : σ → α → Except String σ)
    (h : ∀ a s, f a s = (g s a >>= fun s' => pure (ForInStep.yield s'))) : ∀ (l : List α) (s : σ), forIn l s f = l.foldlM g s
  | [], s => rfl
  | a :: l, s => by
    rw [List.forIn_cons, List.foldlM_cons, h]
    cases g s a with
    | error e => rfl
    | ok s' => exact forIn_yield_foldlM f g h l s'

theorem forIn_foldlM_inv {α σ : Type} (Inv : σ → Prop) (f : α → σ → Except String (ForInStep σ)) (g : σ → α → Except String σ) :
    ∀ (l : List α), (∀ a ∈ l, ∀ s, Inv s → f a s = (g s a >>= fun s' => pure (ForInStep.yield s'))) →
      (∀ a ∈ l, ∀ s s', Inv s → g s a = .ok s' → Inv s') → ∀ s, Inv s → forIn l s f = l.foldlM g s
  | [], _, _, s, _ => rfl
  | a :: l, h, hinv, s, hs => by
    rw [List.forIn_cons, List.foldlM_cons, h a (by simp) s hs]
    cases hg : g s a with
    | error e => rfl
    | ok s' =>
      exact forIn_foldlM_inv Inv f g l (fun b hb => h b (by simp [hb])) (fun b hb => hinv b (by simp [hb])) s'
        (hinv a (by simp) s s' hs hg)

theorem forIn_map' {α β σ : Type} (g : α → β) (f : β → σ → Except String (ForInStep σ)) :
    ∀ (l : List α) (s : σ), forIn (l.map g) s f = forIn l s fun a y => f (g a) y
  | [], _ => rfl
  | a :: l, s => by
    rw [List.map_cons, List.forIn_cons, List.forIn_cons]
    congr 1; funext r
    cases r with
    | done b => rfl
    | yield b => exact forIn_map' g f l b

/-! ### the element list zipped with the two result lists -/

/-- `(position, element, sobolev_time[position], sobolev_space[position])` from position `k` on -/
def quads : Nat → List Cell → List Res → List Res → List Quad
  | k, e :: es, a :: as, b :: bs => (k, e, a, b) :: quads (k + 1) es as bs
  | _, _, _, _ => []

theorem quads_zip_range : ∀ (k : Nat) (es : List Cell) (as bs : List Res), as.length = es.length → bs.length = es.length →
    (quads k es as bs).map (fun q => (q.1, q.2.1)) = (List.range' k es.length).zip es
  | _, [], _, _, _, _ => by simp [quads]
  | k, e :: es, [], _, h, _ => by simp at h
  | k, e :: es, _ :: _, [], _, h => by simp at h
  | k, e :: es, a :: as, b :: bs, ha, hb => by
    simp only [quads, List.map_cons, List.length_cons, List.range'_succ, List.zip_cons_cons]
    rw [quads_zip_range (k + 1) es as bs (by simpa using ha) (by simpa using hb)]

theorem quads_enum_fst : ∀ (k : Nat) (es : List Cell) (as bs : List Res), as.length = es.length → bs.length = es.length →
    (quads k es as bs).map (fun q => (q.1, (q.2.1, q.2.2.1))) = enumFrom' k (es.zip as)
  | _, [], _, _, _, _ => by simp [quads, enumFrom']
  | k, e :: es, [], _, h, _ => by simp at h
  | k, e :: es, _ :: _, [], _, h => by simp at h
  | k, e :: es, a :: as, b :: bs, ha, hb => by
    simp only [quads, List.map_cons, List.zip_cons_cons, enumFrom']
    rw [quads_enum_fst (k + 1) es as bs (by simpa using ha) (by simpa using hb)]

theorem quads_enum_snd : ∀ (k : Nat) (es : List Cell) (as bs : List Res), as.length = es.length → bs.length = es.length →
    (quads k es as bs).map (fun q => (q.1, (q.2.1, q.2.2.2))) = enumFrom' k (es.zip bs)
  | _, [], _, _, _, _ => by simp [quads, enumFrom']
  | k, e :: es, [], _, h, _ => by simp at h
  | k, e :: es, _ :: _, [], _, h => by simp at h
  | k, e :: es, a :: as, b :: bs, ha, hb => by
    simp only [quads, List.map_cons, List.zip_cons_cons, enumFrom']
    rw [quads_enum_snd (k + 1) es as bs (by simpa using ha) (by simpa using hb)]

/-- every quadruple sits at its position in the three lists -/
theorem quads_spec : ∀ (k : Nat) (es : List Cell) (as bs : List Res) (q : Quad), q ∈ quads k es as bs →
    ∃ j, q.1 = k + j ∧ j < es.length ∧ as[j]? = some q.2.2.1 ∧ bs[j]? = some q.2.2.2
  | _, [], _, _, _, h => by simp [quads] at h
  | _, _ :: _, [], _, _, h => by simp [quads] at h
  | _, _ :: _, _ :: _, [], _, h => by simp [quads] at h
  | k, e :: es, a :: as, b :: bs, q, h => by
    simp only [quads, List.mem_cons] at h
    rcases h with rfl | h
    · exact ⟨0, rfl, by simp, rfl, rfl⟩
    · obtain ⟨j, h1, h2, h3, h4⟩ := quads_spec (k + 1) es as bs q h
      exact ⟨j + 1, by omega, by simpa using h2, by simpa using h3, by simpa using h4⟩

/-! ### the `(N, 2)` array as two columns -/

theorem modify_zip_fst (v : Rat) : ∀ (x y : List Rat) (j : Nat),
    (List.zip x y).modify j (fun q => (q.1 + v, q.2)) = List.zip (x.modify j (· + v)) y
  | [], _, _ => by simp
  | _ :: _, [], _ => by simp
  | a :: x, b :: y, 0 => by simp
  | a :: x, b :: y, j + 1 => by simp [modify_zip_fst v x y j]

theorem modify_zip_snd (v : Rat) : ∀ (x y : List Rat) (j : Nat),
    (List.zip x y).modify j (fun q => (q.1, q.2 + v)) = List.zip x (y.modify j (· + v))
  | [], _, _ => by simp
  | _ :: _, [], _ => by simp
  | a :: x, b :: y, 0 => by simp
  | a :: x, b :: y, j + 1 => by simp [modify_zip_snd v x y j]

theorem app0_zip : ∀ (c : List (Nat × Rat)) (x y : List Rat),
    app 0 (List.zip x y) c = List.zip (c.foldl (fun acc p => addAt acc p.1 p.2) x) y
  | [], _, _ => rfl
  | p :: c, x, y => by
    rw [app_cons, List.foldl_cons]
    show app 0 ((List.zip x y).modify p.1 fun q => (q.1 + p.2, q.2)) c = _
    rw [modify_zip_fst, app0_zip c]
    rfl

theorem app1_zip : ∀ (c : List (Nat × Rat)) (x y : List Rat),
    app 1 (List.zip x y) c = List.zip x (c.foldl (fun acc p => addAt acc p.1 p.2) y)
  | [], _, _ => rfl
  | p :: c, x, y => by
    rw [app_cons, List.foldl_cons]
    show app 1 ((List.zip x y).modify p.1 fun q => (q.1, q.2 + p.2)) c = _
    rw [modify_zip_snd, app1_zip c]
    rfl

theorem zeros2_eq : ∀ N : Nat, zeros2 N = List.zip (List.replicate N (0 : Rat)) (List.replicate N (0 : Rat))
  | 0 => rfl
  | N + 1 => by
    show List.replicate (N + 1) ((0 : Rat), (0 : Rat)) = _
    rw [List.replicate_succ, List.replicate_succ, List.zip_cons_cons]
    congr 1
    exact zeros2_eq N

theorem mapM_map' {α β γ : Type} (g : α → β) (f : β → Except String γ) : ∀ l : List α, (l.map g).mapM f = l.mapM fun a => f (g a)
  | [] => rfl
  | a :: l => by rw [List.map_cons, List.mapM_cons, List.mapM_cons, mapM_map' g f l]

/-- the hand model's `accumulate` in terms of the quadruples -/
theorem accumulate_fst (elems : List Cell) (st ss : List Res) (h1 : st.length = elems.length) (h2 : ss.length = elems.length) :
    accumulate elems st = (do
      let cs ← (quads 0 elems st ss).mapM fun q => contribs elems q.1 q.2.1 q.2.2.1
      pure (cs.flatten.foldl (fun acc p => addAt acc p.1 p.2) (List.replicate elems.length 0))) := by
  unfold accumulate
  rw [← quads_enum_fst 0 elems st ss h1 h2, mapM_map']

theorem accumulate_snd (elems : List Cell) (st ss : List Res) (h1 : st.length = elems.length) (h2 : ss.length = elems.length) :
    accumulate elems ss = (do
      let cs ← (quads 0 elems st ss).mapM fun q => contribs elems q.1 q.2.1 q.2.2.2
      pure (cs.flatten.foldl (fun acc p => addAt acc p.1 p.2) (List.replicate elems.length 0))) := by
  unfold accumulate
  rw [← quads_enum_snd 0 elems st ss h1 h2, mapM_map']

/-! ### the accumulation loop of the generated `estimate_sobolev` -/

/-- the inner loop body: `if elem.glob_idx < elem_nbr: sobolev[glob_2_loc[elem_nbr], k] += val_nbr` -/
def innerBody (elems : List Cell) (k : Nat) (e : Cell) (p : Nat × Rat) (a : Arr2) : Except String (ForInStep Arr2) :=
  if e.id < p.1 then do
    let j ← dictGet (globDict elems) p.1
    let a' ← addAt2 a j k p.2
    pure (ForInStep.yield a')
  else pure (ForInStep.yield a)

/-- the outer loop body of the generated code (own value and neighbour loop for column 0, then for column 1) -/
def outerBody (elems : List Cell) (st ss : List Res) (x : Nat × Cell) (a : Arr2) : Except String (ForInStep Arr2) := do
  let t8 ← getIdx st x.1
  let a1 ← addAt2 a x.1 0 t8.1
  let t9 ← getIdx st x.1
  let a2 ← forIn t9.2 a1 (innerBody elems 0 x.2)
  let t11 ← getIdx ss x.1
  let a3 ← addAt2 a2 x.1 1 t11.1
  let t12 ← getIdx ss x.1
  let a4 ← forIn t12.2 a3 (innerBody elems 1 x.2)
  pure (ForInStep.yield a4)

theorem inner_foldlM (elems : List Cell) (k : Nat) (e : Cell) (ips : List (Nat × Rat)) (a : Arr2) :
    forIn ips a (innerBody elems k e) =
      ips.foldlM (fun a p => if e.id < p.1 then (dictGet (globDict elems) p.1 >>= fun j => addAt2 a j k p.2) else pure a) a := by
  apply forIn_yield_foldlM
  intro p s
  unfold innerBody
  by_cases h : e.id < p.1
  · simp only [h, if_true, bind_assoc]
  · simp only [h, if_false, pure_bind]

/-- **the accumulation loop** of the generated `estimate_sobolev` (for a loop body `f` that is pointwise `outerBody`) returns
what the hand model's `accumulate` returns for the two columns — errors (`KeyError`) included -/
theorem accum_loop_eq (elems : List Cell) (st ss : List Res) (h1 : st.length = elems.length) (h2 : ss.length = elems.length)
    (f : Nat × Cell → Arr2 → Except String (ForInStep Arr2)) (hf : ∀ x a, f x a = outerBody elems st ss x a) :
    forIn ((List.range elems.length).zip elems) (zeros2 elems.length) f =
      (do
        let c0 ← accumulate elems st
        let c1 ← accumulate elems ss
        pure (c0.zip c1)) := by
  have hq := quads_zip_range 0 elems st ss h1 h2
  rw [← List.range_eq_range'] at hq
  rw [← hq, forIn_map']
  rw [forIn_foldlM_inv (fun a : Arr2 => a.length = elems.length) _
    (fun a q => do
      let c0 ← contribs elems q.1 q.2.1 q.2.2.1
      let c1 ← contribs elems q.1 q.2.1 q.2.2.2
      pure (app 1 (app 0 a c0) c1)) (quads 0 elems st ss) ?_ ?_ _ (by simp [zeros2])]
  · rw [accum_main, accumulate_fst elems st ss h1 h2, accumulate_snd elems st ss h1 h2]
    simp only [bind_assoc, pure_bind]
    congr 1; funext cs0
    congr 1; funext cs1
    rw [zeros2_eq, app0_zip, app1_zip]
  · intro q hq a ha
    obtain ⟨j, hj1, hj2, hj3, hj4⟩ := quads_spec 0 elems st ss q hq
    have hj : q.1 = j := by omega
    rw [hf, outerBody]
    simp only [inner_foldlM]
    have hc0 := col_step (k := 0) (by omega) elems st q.1 q.2.1 q.2.2.1 a (hj ▸ hj3) (hj ▸ hj2) ha
    have hc1 := fun (a2 : Arr2) (ha2 : a2.length = elems.length) =>
      col_step (k := 1) (by omega) elems ss q.1 q.2.1 q.2.2.2 a2 (hj ▸ hj4) (hj ▸ hj2) ha2
    calc _ = (colGen elems 0 st q.1 q.2.1 a >>= fun a2 => colGen elems 1 ss q.1 q.2.1 a2 >>= fun a4 =>
          pure (ForInStep.yield a4)) := by simp only [colGen, bind_assoc]
      _ = _ := by
        rw [hc0]
        simp only [bind_assoc, pure_bind]
        congr 1; funext c0
        rw [hc1 (app 0 a c0) (by rw [app_length, ha])]
        simp only [bind_assoc, pure_bind]
  · intro q _ a a' ha hg
    cases h0 : contribs elems q.1 q.2.1 q.2.2.1 with
    | error e => rw [h0] at hg; cases hg
    | ok c0 =>
      cases h1' : contribs elems q.1 q.2.1 q.2.2.2 with
      | error e => rw [h0, h1'] at hg; cases hg
      | ok c1 =>
        rw [h0, h1'] at hg
        cases hg
        simp only [app_length, ha]

end Stbem.EstimatorTie
