import Stbem.Lemmas.PosDefScaled
import Mathlib.Data.Rat.Cast.Order
import Mathlib.Tactic.NormNum
import Mathlib.Tactic.Push

/-!
# The run over `ℚ` commutes with the cast into any ordered field

The driver runs `scaledShift`, `ldlAux`, `certPD` over `Rat`.  Here: running them on the cast matrix over an ordered field
`K` (e.g. `ℝ`) gives the cast results; in particular the certificate found over `ℚ` is a certificate over `K`.
-/
namespace Stbem.PosDef
set_option linter.unusedSectionVars false

variable {K : Type} [Field K] [LinearOrder K] [IsStrictOrderedRing K]

/-- entrywise cast of a rational vector -/
def castL (l : List ℚ) : List K := List.map (fun q : ℚ => (q : K)) l
/-- entrywise cast of a rational matrix -/
def castM (M : List (List ℚ)) : List (List K) := M.map castL

@[simp] theorem castL_nil : (castL [] : List K) = [] := rfl
@[simp] theorem castL_cons (a : ℚ) (l : List ℚ) : (castL (a :: l) : List K) = (a : K) :: castL l := rfl
@[simp] theorem castM_nil : (castM [] : List (List K)) = [] := rfl
@[simp] theorem castM_cons (r : List ℚ) (M : List (List ℚ)) : (castM (r :: M) : List (List K)) = castL r :: castM M := rfl
@[simp] theorem castL_length (l : List ℚ) : (castL l : List K).length = l.length := by simp [castL]
@[simp] theorem castM_length (M : List (List ℚ)) : (castM M : List (List K)).length = M.length := by simp [castM]

theorem castL_headD (r : List ℚ) : (castL r : List K).headD 0 = ((r.headD 0 : ℚ) : K) := by
  cases r <;> simp

theorem castL_tail (r : List ℚ) : (castL r : List K).tail = castL r.tail := by
  cases r <;> simp

theorem heads_castM (M : List (List ℚ)) : heads (castM M : List (List K)) = castL (heads M) := by
  induction M with
  | nil => rfl
  | cons r M ih =>
    simp only [heads, castM_cons, List.map_cons, castL_cons] at ih ⊢
    rw [ih, castL_headD]

theorem tails_castM (M : List (List ℚ)) : tails (castM M : List (List K)) = castM (tails M) := by
  induction M with
  | nil => rfl
  | cons r M ih =>
    simp only [tails, castM_cons, List.map_cons] at ih ⊢
    rw [ih, castL_tail]

theorem zipWith_castL (f : ℚ → ℚ → ℚ) (g : K → K → K) (hfg : ∀ a b, ((f a b : ℚ) : K) = g a b) (l1 l2 : List ℚ) :
    List.zipWith g (castL l1) (castL l2) = castL (List.zipWith f l1 l2) := by
  induction l1 generalizing l2 with
  | nil => simp
  | cons a l1 ih => cases l2 with
    | nil => simp
    | cons b l2 => simp [ih l2, hfg]

theorem rowcol_cast (r : List ℚ) (rest : List (List ℚ)) :
    rowcol (castL r : List K) (castM rest) = castL (rowcol r rest) := by
  unfold rowcol
  rw [heads_castM]
  exact zipWith_castL _ _ (by intro a b; push_cast; rfl) _ _

theorem zipWith_castLM (f : ℚ → List ℚ → List ℚ) (g : K → List K → List K)
    (hfg : ∀ (a : ℚ) (row : List ℚ), g (a : K) (castL row) = castL (f a row)) (s : List ℚ) (B : List (List ℚ)) :
    List.zipWith g (castL s) (castM B) = castM (List.zipWith f s B) := by
  induction s generalizing B with
  | nil => simp
  | cons a s ih => cases B with
    | nil => simp
    | cons row B => simp [ih B, hfg]

theorem zipWith_castMM (f : List ℚ → List ℚ → List ℚ) (g : List K → List K → List K)
    (hfg : ∀ r1 r2, g (castL r1) (castL r2) = castL (f r1 r2)) (A B : List (List ℚ)) :
    List.zipWith g (castM A) (castM B) = castM (List.zipWith f A B) := by
  induction A generalizing B with
  | nil => simp
  | cons a A ih => cases B with
    | nil => simp
    | cons row B => simp [ih B, hfg]

theorem schur_cast (a : ℚ) (s : List ℚ) (B : List (List ℚ)) :
    schur (a : K) (castL s) (castM B) = castM (schur a s B) := by
  unfold schur
  apply zipWith_castLM
  intro si row
  exact zipWith_castL _ _ (by intro b sj; push_cast; rfl) _ _

/-- the elimination over `K` on the cast matrix is the cast of the elimination over `ℚ` -/
theorem ldlAux_cast : ∀ (k : Nat) (M : List (List ℚ)),
    ldlAux k (castM M : List (List K)) = (ldlAux k M).map castL := by
  intro k
  induction k with
  | zero => intro M; simp [ldlAux, Except.map]
  | succ k ih =>
    intro M
    cases M with
    | nil => simp [ldlAux, Except.map]
    | cons row rest => cases row with
      | nil => simp [ldlAux, Except.map]
      | cons a r =>
        rw [castM_cons, castL_cons, ldlAux_succ_cons, ldlAux_succ_cons, rowcol_cast, tails_castM, schur_cast, ih]
        by_cases ha : 0 < a
        · have ha' : (0 : K) < (a : K) := by exact_mod_cast ha
          rw [if_pos ha, if_pos ha']
          cases ldlAux k (schur a (rowcol r rest) (tails rest)) <;> simp [Except.map]
        · have ha' : ¬ (0 : K) < (a : K) := by
            intro h; exact ha (by exact_mod_cast h)
          rw [if_neg ha, if_neg ha']
          simp [Except.map]

theorem certPD_cast (M : List (List ℚ)) : certPD (castM M : List (List K)) = certPD M := by
  unfold certPD ldlPivots
  rw [castM_length, ldlAux_cast]
  cases ldlAux M.length M <;> simp [Except.map]

/-! ### `scaledShift` commutes with the cast -/

theorem transposeN_cast : ∀ (n : Nat) (M : List (List ℚ)),
    transposeN n (castM M : List (List K)) = castM (transposeN n M) := by
  intro n
  induction n with
  | zero => intro M; simp [transposeN]
  | succ n ih => intro M; simp only [transposeN, heads_castM, tails_castM, ih, castM_cons]

theorem symPart_cast (A : List (List ℚ)) : symPart (castM A : List (List K)) = castM (symPart A) := by
  unfold symPart
  rw [castM_length, transposeN_cast]
  apply zipWith_castMM
  intro r1 r2
  exact zipWith_castL _ _ (by intro a b; push_cast; rfl) _ _

theorem diagN_cast : ∀ (n : Nat) (M : List (List ℚ)), diagN n (castM M : List (List K)) = castL (diagN n M) := by
  intro n
  induction n with
  | zero => intro M; cases M with
    | nil => simp [diagN]
    | cons row rest => cases row <;> simp [diagN]
  | succ n ih =>
    intro M
    cases M with
    | nil => simp [diagN]
    | cons row rest => cases row with
      | nil => simp [diagN]
      | cons a r => simp only [castM_cons, castL_cons, diagN, tails_castM, ih]

theorem zipWith_cons_cast (h : List ℚ) (T : List (List ℚ)) :
    List.zipWith (fun c row => c :: row) (castL h : List K) (castM T) =
      castM (List.zipWith (fun c row => c :: row) h T) :=
  zipWith_castLM _ _ (by intro a row; rfl) h T

theorem shiftDiag_cast : ∀ (ds : List ℚ) (M : List (List ℚ)),
    shiftDiag (castM M : List (List K)) (castL ds) = castM (shiftDiag M ds) := by
  intro ds
  induction ds with
  | nil => intro M; cases M with
    | nil => simp [shiftDiag]
    | cons row rest => cases row <;> simp [shiftDiag]
  | cons d ds ih =>
    intro M
    cases M with
    | nil => simp [shiftDiag]
    | cons row rest => cases row with
      | nil => simp [shiftDiag]
      | cons a r =>
        simp only [castM_cons, castL_cons, shiftDiag, heads_castM, tails_castM, ih, zipWith_cons_cast]
        push_cast
        rfl

theorem castL_map_mul (μ : ℚ) (d : List ℚ) :
    (castL d : List K).map ((μ : K) * ·) = castL (d.map (μ * ·)) := by
  induction d with
  | nil => rfl
  | cons a d ih => simp only [castL_cons, List.map_cons, ih]; push_cast; rfl

theorem scaledShift_cast (A : List (List ℚ)) (μ : ℚ) :
    scaledShift (castM A : List (List K)) (μ : K) = castM (scaledShift A μ) := by
  unfold scaledShift
  simp only
  rw [symPart_cast, castM_length, diagN_cast, castL_map_mul, shiftDiag_cast]

/-- **transfer**: the certificate computed over `ℚ` is the certificate over `K` of the cast matrix -/
theorem certScaled_cast (A : List (List ℚ)) (μ : ℚ) :
    certPD (scaledShift (castM A : List (List K)) (μ : K)) = certPD (scaledShift A μ) := by
  rw [scaledShift_cast, certPD_cast]

theorem shape_castM {m n : Nat} {M : List (List ℚ)} (h : Shape m n M) : Shape m n (castM M : List (List K)) := by
  obtain ⟨hl, hr⟩ := h
  refine ⟨by simp [hl], ?_⟩
  intro r hr'
  simp only [castM, List.mem_map] at hr'
  obtain ⟨r0, hr0, rfl⟩ := hr'
  simp [hr r0 hr0]

end Stbem.PosDef
