import Stbem.Gen.ProblemsR
import Mathlib.Analysis.SpecialFunctions.Gaussian.GaussianIntegral
import Mathlib.MeasureTheory.Integral.IntervalIntegral.FundThmCalculus
import Mathlib.Analysis.Complex.HasPrimitives
import Mathlib.Analysis.Calculus.MeanValue

/-!
# A concrete `Fns` satisfying every law used as a hypothesis in `Props/C03Problems.lean` (non-vacuity)

Mathlib has no error function; `erfModel x = 2/√π ∫₀ˣ e^{−s²} ds` is built from the interval integral:
derivative by the fundamental theorem of calculus, oddness by the substitution `s ↦ −s`, the limit `1` at `+∞` from
the Gaussian integral `∫₀^∞ e^{−s²} = √π/2`.
-/
namespace Stbem.Problems.R
open MeasureTheory Filter Topology

noncomputable def erfModel (x : ℝ) : ℝ := 2 / Real.sqrt Real.pi * ∫ s in (0 : ℝ)..x, Real.exp (-s ^ 2)

theorem continuous_gauss : Continuous fun s : ℝ => Real.exp (-s ^ 2) := by fun_prop

theorem erfModel_deriv (x : ℝ) : HasDerivAt erfModel (2 / Real.sqrt Real.pi * Real.exp (-x ^ 2)) x := by
  have h := (continuous_gauss.integral_hasStrictDerivAt 0 x).hasDerivAt
  exact h.const_mul _

theorem erfModel_odd (x : ℝ) : erfModel (-x) = - erfModel x := by
  unfold erfModel
  have h := intervalIntegral.integral_comp_neg (a := 0) (b := x) (fun s : ℝ => Real.exp (-s ^ 2))
  simp only [neg_sq, neg_zero] at h
  rw [intervalIntegral.integral_symm (-x) 0, ← h]
  ring

theorem erfModel_tendsto : Tendsto erfModel atTop (𝓝 1) := by
  have hint : IntegrableOn (fun s : ℝ => Real.exp (-(1 : ℝ) * s ^ 2)) (Set.Ioi 0) :=
    (integrable_exp_neg_mul_sq one_pos).integrableOn
  have h := intervalIntegral_tendsto_integral_Ioi (0 : ℝ) hint tendsto_id
  rw [integral_gaussian_Ioi 1] at h
  have h2 := h.const_mul (2 / Real.sqrt Real.pi)
  have hsp : 0 < Real.sqrt Real.pi := Real.sqrt_pos.mpr Real.pi_pos
  have e : 2 / Real.sqrt Real.pi * (Real.sqrt (Real.pi / 1) / 2) = 1 := by
    rw [div_one]; field_simp
  rw [e] at h2
  refine h2.congr fun x => ?_
  unfold erfModel
  simp only [id, neg_mul, one_mul]

/-! ### an entire error function: a primitive of the entire function `2/√π · e^{−z²}` vanishing at `0` (Morera) -/

theorem exists_cerf : ∃ g : ℂ → ℂ, g 0 = 0 ∧
    ∀ z, HasDerivAt g (2 / ((Real.sqrt Real.pi : ℝ) : ℂ) * Complex.exp (-z ^ 2)) z := by
  have hd : Differentiable ℂ (fun z : ℂ => 2 / ((Real.sqrt Real.pi : ℝ) : ℂ) * Complex.exp (-z ^ 2)) := by fun_prop
  obtain ⟨g, h0, hg⟩ := (hd.isExactOn_univ).with_val_at 0 0
  exact ⟨g, h0, fun z => hg z (Set.mem_univ z)⟩

noncomputable def cerfModel : ℂ → ℂ := Classical.choose exists_cerf

theorem cerfModel_zero : cerfModel 0 = 0 := (Classical.choose_spec exists_cerf).1

theorem cerfModel_deriv (z : ℂ) :
    HasDerivAt cerfModel (2 / ((Real.sqrt Real.pi : ℝ) : ℂ) * Complex.exp (-z ^ 2)) z :=
  (Classical.choose_spec exists_cerf).2 z

theorem cerfModel_odd (z : ℂ) : cerfModel (-z) = - cerfModel z := by
  have hneg : ∀ w : ℂ, HasDerivAt (fun w : ℂ => cerfModel (-w))
      (-(2 / ((Real.sqrt Real.pi : ℝ) : ℂ) * Complex.exp (-w ^ 2))) w := by
    intro w
    have h1 : HasDerivAt (fun w : ℂ => -w) (-1) w := (hasDerivAt_id w).neg
    have h2 := (cerfModel_deriv (-w)).comp w h1
    refine h2.congr_deriv ?_
    rw [neg_sq]; ring
  have hsum : ∀ w : ℂ, HasDerivAt (fun w : ℂ => cerfModel w + cerfModel (-w)) 0 w := by
    intro w
    have := (cerfModel_deriv w).add (hneg w)
    refine this.congr_deriv ?_
    ring
  have hconst := is_const_of_deriv_eq_zero (f := fun w : ℂ => cerfModel w + cerfModel (-w))
    (fun w => (hsum w).differentiableAt) (fun w => (hsum w).deriv) z 0
  simp only [neg_zero, cerfModel_zero, add_zero] at hconst
  exact eq_neg_of_add_eq_zero_right hconst

/-- the model: real special functions from Mathlib, `erf` as above, `cexp = Complex.exp`, `cerf` the entire error function
above, `erfc = 1 − erf` -/
noncomputable def model : Fns where
  exp := Real.exp
  sqrt := Real.sqrt
  sin := Real.sin
  erf := erfModel
  erfc := fun x => 1 - erfModel x
  pi := Real.pi
  cexp := Complex.exp
  cerf := cerfModel
  cerfc := fun z => 1 - cerfModel z

end Stbem.Problems.R
