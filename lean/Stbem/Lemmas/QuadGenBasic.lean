import Stbem.Model.QuadConv
import Stbem.Lemmas.QuadBasic

/-! Helper lemmas for `Props/QuadTie.lean`: the NumPy prelude of `Stbem.Gen.QuadGen` on arrays of the form
`r.map g` (the arrays of a scheme laid out by `ofRule*`), and the round trip `ofRule* ∘ toRule*`. -/
namespace Stbem.QuadConv
open Stbem.Quad Stbem.Gen.QuadGen

theorem npSum_eq_sumR (l : List Rat) : npSum l = sumR l := rfl

theorem zipWith_map_map {α β γ δ} (f : β → γ → δ) (g : α → β) (h : α → γ) (l : List α) :
    List.zipWith f (l.map g) (l.map h) = l.map fun a => f (g a) (h a) := by
  induction l with
  | nil => rfl
  | cons a l ih => simp [ih]

/-! ### element-wise operations on mapped arrays -/
section
variable {α : Type} (l : List α) (g h : α → Rat)

@[simp] theorem npArray_eq (a : List Rat) : npArray a = a := rfl
@[simp] theorem npArrayM_eq (m : List (List Rat)) : npArrayM m = m := rfl
@[simp] theorem npRow_zero (a : List Rat) (m : List (List Rat)) : npRow (a :: m) 0 = a := rfl
@[simp] theorem npRow_one (a b : List Rat) (m : List (List Rat)) : npRow (a :: b :: m) 1 = b := rfl
@[simp] theorem npRow_two (a b c : List Rat) (m : List (List Rat)) : npRow (a :: b :: c :: m) 2 = c := rfl
@[simp] theorem npLen_map : npLen (l.map g) = l.length := by simp [npLen]
@[simp] theorem npSA_map (op : Rat → Rat → Rat) (c : Rat) : npSA op c (l.map g) = l.map fun a => op c (g a) := by
  simp [npSA, List.map_map, Function.comp_def]
@[simp] theorem npAS_map (op : Rat → Rat → Rat) (c : Rat) : npAS op (l.map g) c = l.map fun a => op (g a) c := by
  simp [npAS, List.map_map, Function.comp_def]
@[simp] theorem npAA_map (op : Rat → Rat → Rat) : npAA op (l.map g) (l.map h) = l.map fun a => op (g a) (h a) := by
  simp [npAA]
@[simp] theorem npPow_map (k : Nat) : npPow (l.map g) k = l.map fun a => g a ^ k := by
  simp [npPow, List.map_map, Function.comp_def]
@[simp] theorem npNeg_map : npNeg (l.map g) = l.map fun a => -g a := by
  simp [npNeg, List.map_map, Function.comp_def]
@[simp] theorem npMap1_map (f : Rat → Rat) : npMap1 f (l.map g) = l.map fun a => f (g a) := by
  simp [npMap1, List.map_map, Function.comp_def]
@[simp] theorem npMap2_map (f : Rat → Rat → Rat) (m : List (List Rat)) :
    npMap2 f (l.map g :: l.map h :: m) = l.map fun a => f (g a) (h a) := by
  simp [npMap2]
@[simp] theorem npMap3_map (f : Rat → Rat → Rat → Rat) (k : α → Rat) (m : List (List Rat)) :
    npMap3 f (l.map g :: l.map h :: l.map k :: m) = l.map fun a => f (g a) (h a) (k a) := by
  simp only [npMap3, npRow_zero, npRow_one, npRow_two]
  induction l with
  | nil => rfl
  | cons a l ih => simp [ih]
@[simp] theorem npDot_map : npDot (l.map g) (l.map h) = sumR (l.map fun a => g a * h a) := by
  simp [npDot, npSum_eq_sumR]
end

/-! ### `np.repeat`, `np.tile`, `np.kron`, `np.hstack` -/

theorem npRepeat_map {α} (l : List α) (g : α → Rat) (k : Nat) :
    npRepeat (l.map g) k = l.flatMap fun a => List.replicate k (g a) := by
  simp [npRepeat, List.flatMap_map]

theorem npRepeat_flatMap {α} (l : List α) (g : α → List Rat) (k : Nat) :
    npRepeat (l.flatMap g) k = l.flatMap fun a => npRepeat (g a) k := by
  simp [npRepeat, List.flatMap_assoc]

theorem flatMap_const_eq_tile {α} (l : List α) (a : List Rat) :
    (l.flatMap fun _ => a) = npTile a l.length := by
  induction l with
  | nil => rfl
  | cons b l ih => simp [npTile, List.replicate_succ] at ih ⊢; rw [ih]

theorem replicate_length_flatMap {α β} (l : List α) (b : β) (f : β → List Rat) :
    (List.replicate l.length b).flatMap f = l.flatMap fun _ => f b := by
  induction l with
  | nil => rfl
  | cons a l ih => simp [List.replicate_succ, ih]

theorem npTile_mul (a : List Rat) (m n : Nat) : npTile a (m * n) = npTile (npTile a n) m := by
  induction m with
  | zero => simp [npTile]
  | succ m ih =>
    simp only [npTile] at ih ⊢
    rw [Nat.succ_mul, List.replicate_add, List.flatten_append, ih, List.replicate_succ', List.flatten_append]
    simp

theorem npRepeat_length (a : List Rat) (k : Nat) : (npRepeat a k).length = a.length * k := by
  induction a with
  | nil => simp [npRepeat]
  | cons u a ih =>
    simp only [npRepeat, List.flatMap_cons, List.length_append, List.length_replicate, List.length_cons] at ih ⊢
    rw [ih]; ring

theorem npTile3 (a : List Rat) : npTile a 3 = a ++ a ++ a := by simp [npTile, List.replicate]
theorem npTile6 (a : List Rat) : npTile a 6 = a ++ a ++ a ++ a ++ a ++ a := by simp [npTile, List.replicate]

/-! ### round trip: a well-formed scheme object is the array layout of its node list -/

theorem map_fst_zipWith {α β γ} (f : α → β → γ) (p : γ → α) (hp : ∀ a b, p (f a b) = a) :
    ∀ (x : List α) (y : List β), x.length ≤ y.length → (List.zipWith f x y).map p = x
  | [], _, _ => rfl
  | _ :: _, [], h => by simp at h
  | a :: x, b :: y, h => by
    simp only [List.zipWith_cons_cons, List.map_cons, hp]
    rw [map_fst_zipWith f p hp x y (by simpa using h)]

theorem map_snd_zipWith {α β γ} (f : α → β → γ) (p : γ → β) (hp : ∀ a b, p (f a b) = b) :
    ∀ (x : List α) (y : List β), y.length ≤ x.length → (List.zipWith f x y).map p = y
  | _, [], _ => by simp
  | [], _ :: _, h => by simp at h
  | a :: x, b :: y, h => by
    simp only [List.zipWith_cons_cons, List.map_cons, hp]
    rw [map_snd_zipWith f p hp x y (by simpa using h)]

theorem toRule1_ofRule1 (r : Rule1) : toRule1 (ofRule1 r) = r := by
  simp [toRule1, ofRule1]

theorem toRule2_ofRule2 (r : Rule2) : toRule2 (ofRule2 r) = r := by
  unfold toRule2 ofRule2
  simp only [npRow_zero, npRow_one]
  induction r with
  | nil => rfl
  | cons n r ih => simp [ih]

theorem toRule3_ofRule3 (r : Rule3) : toRule3 (ofRule3 r) = r := by
  unfold toRule3 ofRule3
  simp only [npRow_zero, npRow_one, npRow_two]
  induction r with
  | nil => rfl
  | cons n r ih => simp [ih]

theorem ofRule1_toRule1 {s : QuadScheme1D} (h : WF1 s) : ofRule1 (toRule1 s) = s := by
  cases s with
  | mk p w =>
    simp only [WF1] at h
    simp only [ofRule1, toRule1]
    rw [map_fst_zipWith _ _ (fun _ _ => rfl) p w (by omega), map_snd_zipWith _ _ (fun _ _ => rfl) p w (by omega)]

theorem zip3_maps : ∀ (w x y : List Rat), x.length = w.length → y.length = w.length →
    (List.zipWith (fun x yw => (⟨x, yw.1, yw.2⟩ : N2)) x (List.zip y w)).map (·.x) = x ∧
    (List.zipWith (fun x yw => (⟨x, yw.1, yw.2⟩ : N2)) x (List.zip y w)).map (·.y) = y ∧
    (List.zipWith (fun x yw => (⟨x, yw.1, yw.2⟩ : N2)) x (List.zip y w)).map (·.w) = w
  | [], [], [], _, _ => ⟨rfl, rfl, rfl⟩
  | [], _ :: _, _, h, _ => by simp at h
  | [], [], _ :: _, _, h => by simp at h
  | _ :: _, [], _, h, _ => by simp at h
  | _ :: _, _ :: _, [], _, h => by simp at h
  | c :: w, a :: x, b :: y, hx, hy => by
    obtain ⟨h1, h2, h3⟩ := zip3_maps w x y (by simpa using hx) (by simpa using hy)
    simp only [List.zip_cons_cons, List.zipWith_cons_cons, List.map_cons, h1, h2, h3, and_self]

theorem zip4_maps : ∀ (w x y z : List Rat), x.length = w.length → y.length = w.length → z.length = w.length →
    (List.zipWith (fun x yzw => (⟨x, yzw.1, yzw.2.1, yzw.2.2⟩ : N3)) x (List.zip y (List.zip z w))).map (·.x) = x ∧
    (List.zipWith (fun x yzw => (⟨x, yzw.1, yzw.2.1, yzw.2.2⟩ : N3)) x (List.zip y (List.zip z w))).map (·.y) = y ∧
    (List.zipWith (fun x yzw => (⟨x, yzw.1, yzw.2.1, yzw.2.2⟩ : N3)) x (List.zip y (List.zip z w))).map (·.z) = z ∧
    (List.zipWith (fun x yzw => (⟨x, yzw.1, yzw.2.1, yzw.2.2⟩ : N3)) x (List.zip y (List.zip z w))).map (·.w) = w
  | [], [], [], [], _, _, _ => ⟨rfl, rfl, rfl, rfl⟩
  | [], _ :: _, _, _, h, _, _ => by simp at h
  | [], [], _ :: _, _, _, h, _ => by simp at h
  | [], [], [], _ :: _, _, _, h => by simp at h
  | _ :: _, [], _, _, h, _, _ => by simp at h
  | _ :: _, _ :: _, [], _, _, h, _ => by simp at h
  | _ :: _, _ :: _, _ :: _, [], _, _, h => by simp at h
  | d :: w, a :: x, b :: y, c :: z, hx, hy, hz => by
    obtain ⟨h1, h2, h3, h4⟩ := zip4_maps w x y z (by simpa using hx) (by simpa using hy) (by simpa using hz)
    simp only [List.zip_cons_cons, List.zipWith_cons_cons, List.map_cons, h1, h2, h3, h4, and_self]

theorem ofRule2_toRule2 {s : QuadScheme2D} (h : WF2 s) : ofRule2 (toRule2 s) = s := by
  cases s with
  | mk p w =>
    obtain ⟨x, y, hp, hx, hy⟩ := h
    simp only at hp hx hy
    subst hp
    obtain ⟨h1, h2, h3⟩ := zip3_maps w x y hx hy
    simp only [ofRule2, toRule2, npRow_zero, npRow_one, h1, h2, h3]

theorem ofRule3_toRule3 {s : QuadScheme3D} (h : WF3 s) : ofRule3 (toRule3 s) = s := by
  cases s with
  | mk p w =>
    obtain ⟨x, y, z, hp, hx, hy, hz⟩ := h
    simp only at hp hx hy hz
    subst hp
    obtain ⟨h1, h2, h3, h4⟩ := zip4_maps w x y z hx hy hz
    simp only [ofRule3, toRule3, npRow_zero, npRow_one, npRow_two, h1, h2, h3, h4]

theorem wf_ofRule1 (r : Rule1) : WF1 (ofRule1 r) := by simp [WF1, ofRule1]
theorem wf_ofRule2 (r : Rule2) : WF2 (ofRule2 r) := ⟨_, _, rfl, by simp [ofRule2], by simp [ofRule2]⟩
theorem wf_ofRule3 (r : Rule3) : WF3 (ofRule3 r) :=
  ⟨_, _, _, rfl, by simp [ofRule3], by simp [ofRule3], by simp [ofRule3]⟩

end Stbem.QuadConv
