import Stbem.Lemmas.MeshForced

/-!
# Minimality of the 1-irregular closure computed by `refineAxis`

Competitors: meshes `m''` obtained from `m` by bisections in the requested axis `ax` only
(`RefinesAx`), that tile, are 1-irregular in `ax` (`IrrAx`) and in which the requested cell has been
bisected (`Bisected`).  Every forced cell (`Forced`) is bisected in every competitor
(`Forced.bisected`); since `refineId` bisects exactly the forced cells, once each (`refineId_st`),
every competitor refines the result of `refineId`.
-/
namespace Stbem.Mesh

/-- `m''` is obtained from `m` by bisections in `ax` only -/
def RefinesAx (ax : Ax) (m m'' : Mesh) : Prop :=
  m''.glue = m.glue ∧ m''.xmin = m.xmin ∧ m''.xmax = m.xmax ∧ m''.tmin = m.tmin ∧
  m''.tmax = m.tmax ∧ ∀ d'' ∈ m''.leaves, ∃ d ∈ m.leaves, AxDesc ax d'' d

/-- 1-irregular in axis `ax` -/
def IrrAx (ax : Ax) (m : Mesh) : Prop :=
  ∀ c ∈ m.leaves, ∀ n ∈ m.leaves, ∀ s, adjacent m c s n = true → c.level ax ≤ n.level ax + 1

/-- the requested bisection has happened: no leaf of `m''` inside `c` is as shallow as `c` -/
def Bisected (ax : Ax) (c : Cell) (m'' : Mesh) : Prop :=
  ∀ d'' ∈ m''.leaves, AxDesc ax d'' c → c.level ax + 1 ≤ d''.level ax

/-! ### auxiliary: maximum over a list, adjacency depends on the extents only -/

theorem exists_max_of_list (f : Cell → Rat) (P : Cell → Prop) :
    ∀ l : List Cell, (∃ g ∈ l, P g) → ∃ g ∈ l, P g ∧ ∀ g' ∈ l, P g' → f g' ≤ f g := by
  intro l
  induction l with
  | nil => rintro ⟨g, hg, _⟩; simp at hg
  | cons a l ih =>
    rintro ⟨g0, hg0, hP0⟩
    by_cases hex : ∃ g ∈ l, P g
    · obtain ⟨g, hg, hPg, hmax⟩ := ih hex
      by_cases hPa : P a ∧ f g < f a
      · refine ⟨a, by simp, hPa.1, ?_⟩
        intro g' hg' hP'
        rcases List.mem_cons.mp hg' with rfl | h
        · exact le_refl _
        · exact le_trans (hmax g' h hP') (le_of_lt hPa.2)
      · refine ⟨g, by simp [hg], hPg, ?_⟩
        intro g' hg' hP'
        rcases List.mem_cons.mp hg' with rfl | h
        · by_contra hh; exact hPa ⟨hP', lt_of_not_ge hh⟩
        · exact hmax g' h hP'
    · have hga : g0 = a := by
        rcases List.mem_cons.mp hg0 with h | h
        · exact h
        · exact absurd ⟨g0, h, hP0⟩ hex
      subst hga
      refine ⟨g0, by simp, hP0, ?_⟩
      intro g' hg' hP'
      rcases List.mem_cons.mp hg' with rfl | h
      · exact le_refl _
      · exact absurd ⟨g', h, hP'⟩ hex

theorem Adj.congr_right {m : Mesh} {c : Cell} {s : Side} {n n' : Cell}
    (h : n'.t0 = n.t0 ∧ n'.t1 = n.t1 ∧ n'.x0 = n.x0 ∧ n'.x1 = n.x1) :
    Adj m c s n' ↔ Adj m c s n := by
  obtain ⟨h1, h2, h3, h4⟩ := h
  cases s <;> simp only [Adj, OvT, OvX, h1, h2, h3, h4]

/-! ### descendants of a leaf in a competitor -/

section competitor

variable {ax : Ax} {m m'' : Mesh}

/-- the leaf of `m''` at a point of the leaf `e` of `m` is a descendant of `e` -/
theorem RefinesAx.desc_at (ht : Tiles m) (ht'' : Tiles m'') (h1 : RefinesAx ax m m'') {e : Cell}
    (he : e ∈ m.leaves) {t x : Rat} (hc : e.Contains t x) :
    ∃ g ∈ m''.leaves, AxDesc ax g e ∧ g.Contains t x := by
  obtain ⟨-, hx0, hx1, ht0, ht1, hl⟩ := h1
  obtain ⟨i1, i2, i3, i4⟩ := ht.inside e he
  have hdom : m''.InDomain t x := by
    obtain ⟨c1, c2, c3, c4⟩ := hc
    unfold Mesh.InDomain
    rw [hx0, hx1, ht0, ht1]
    exact ⟨by linarith, by linarith, by linarith, by linarith⟩
  obtain ⟨g, hgm, hgc⟩ := ht''.cover t x hdom
  obtain ⟨d, hd, hdesc⟩ := hl g hgm
  have hsub := (hdesc.sub (ht.proper d hd)).1
  have hde : d = e := ht.disjoint d hd e he t x (hsub.contains hgc) hc
  subst hde
  exact ⟨g, hgm, hdesc, hgc⟩

/-- the last descendant: some descendant of `e` reaches the upper end of `e` in the axis -/
theorem RefinesAx.desc_last (ht : Tiles m) (ht'' : Tiles m'') (h1 : RefinesAx ax m m'') {e : Cell}
    (he : e ∈ m.leaves) :
    ∃ g ∈ m''.leaves, AxDesc ax g e ∧
      (match ax with | .time => g.t1 = e.t1 | .space => g.x1 = e.x1) := by
  have hp := ht.proper e he
  obtain ⟨g0, hg0, hd0, -⟩ := h1.desc_at ht ht'' he (t := e.t0) (x := e.x0)
    ⟨le_refl _, hp.1, le_refl _, hp.2⟩
  cases ax
  · obtain ⟨g, hg, hdg, hmax⟩ := exists_max_of_list (fun g => g.t1) (fun g => AxDesc .time g e)
      m''.leaves ⟨g0, hg0, hd0⟩
    refine ⟨g, hg, hdg, ?_⟩
    obtain ⟨⟨s1, s2, s3, s4⟩, p1, p2⟩ := hdg.sub hp
    by_contra hne
    have hlt : g.t1 < e.t1 := lt_of_le_of_ne s2 hne
    obtain ⟨g2, hg2, hd2, c1, c2, c3, c4⟩ := h1.desc_at ht ht'' he (t := g.t1) (x := e.x0)
      ⟨by linarith, hlt, le_refl _, hp.2⟩
    have := hmax g2 hg2 hd2
    linarith
  · obtain ⟨g, hg, hdg, hmax⟩ := exists_max_of_list (fun g => g.x1) (fun g => AxDesc .space g e)
      m''.leaves ⟨g0, hg0, hd0⟩
    refine ⟨g, hg, hdg, ?_⟩
    obtain ⟨⟨s1, s2, s3, s4⟩, p1, p2⟩ := hdg.sub hp
    by_contra hne
    have hlt : g.x1 < e.x1 := lt_of_le_of_ne s4 hne
    obtain ⟨g2, hg2, hd2, c1, c2, c3, c4⟩ := h1.desc_at ht ht'' he (t := e.t0) (x := g.x1)
      ⟨le_refl _, hp.1, by linarith, hlt⟩
    have := hmax g2 hg2 hd2
    linarith

/-- **geometric core**: if `n` lies across side `s` of the leaf `e` of `m`, then in every
`ax`-refinement `m''` that tiles, some descendant of `e` still has `n` across its side `s` -/
theorem RefinesAx.desc_adj (ht : Tiles m) (ht'' : Tiles m'') (h1 : RefinesAx ax m m'') {e : Cell}
    (he : e ∈ m.leaves) {s : Side} {n : Cell} (ha : Adj m e s n) :
    ∃ g ∈ m''.leaves, AxDesc ax g e ∧ Adj m g s n := by
  have hp := ht.proper e he
  have h00 : e.Contains e.t0 e.x0 := ⟨le_refl _, hp.1, le_refl _, hp.2⟩
  cases ax
  · -- time: descendants keep the extent in `x`
    cases s
    · -- bottom: the first descendant
      obtain ⟨g, hg, hd, c1, c2, c3, c4⟩ := h1.desc_at ht ht'' he h00
      obtain ⟨⟨s1, s2, s3, s4⟩, p1, p2⟩ := hd.sub hp
      refine ⟨g, hg, hd, ?_⟩
      obtain ⟨e1, e2, -⟩ := hd
      simp only [Adj, OvX] at ha ⊢
      obtain ⟨a1, ov⟩ := ha
      refine ⟨by linarith, ?_⟩
      rw [e1, e2]; exact ov
    · -- right: the descendant at a common time
      obtain ⟨a1, ov⟩ := ha
      obtain ⟨t, t1, t2, t3, t4⟩ := ov.point
      obtain ⟨g, hg, hd, c1, c2, c3, c4⟩ := h1.desc_at ht ht'' he (t := t) (x := e.x0)
        ⟨t1, t2, le_refl _, hp.2⟩
      obtain ⟨-, p1, p2⟩ := hd.sub hp
      refine ⟨g, hg, hd, ?_⟩
      obtain ⟨e1, e2, -⟩ := hd
      simp only [Adj, OvT]
      rw [e2]
      exact ⟨a1, p1, by linarith, by linarith, ov.2.2.2⟩
    · -- top: the last descendant
      obtain ⟨g, hg, hd, hlast⟩ := h1.desc_last ht ht'' he
      simp only at hlast
      refine ⟨g, hg, hd, ?_⟩
      obtain ⟨e1, e2, -⟩ := hd
      simp only [Adj, OvX] at ha ⊢
      rw [e1, e2, hlast]; exact ha
    · -- left
      obtain ⟨a1, ov⟩ := ha
      obtain ⟨t, t1, t2, t3, t4⟩ := ov.point
      obtain ⟨g, hg, hd, c1, c2, c3, c4⟩ := h1.desc_at ht ht'' he (t := t) (x := e.x0)
        ⟨t1, t2, le_refl _, hp.2⟩
      obtain ⟨-, p1, p2⟩ := hd.sub hp
      refine ⟨g, hg, hd, ?_⟩
      obtain ⟨e1, e2, -⟩ := hd
      simp only [Adj, OvT]
      rw [e1]
      exact ⟨a1, p1, by linarith, by linarith, ov.2.2.2⟩
  · -- space: descendants keep the extent in `t`
    cases s
    · -- bottom: the descendant at a common abscissa
      obtain ⟨a1, ov⟩ := ha
      obtain ⟨x, x1, x2, x3, x4⟩ := ov.point
      obtain ⟨g, hg, hd, c1, c2, c3, c4⟩ := h1.desc_at ht ht'' he (t := e.t0) (x := x)
        ⟨le_refl _, hp.1, x1, x2⟩
      obtain ⟨-, p1, p2⟩ := hd.sub hp
      refine ⟨g, hg, hd, ?_⟩
      obtain ⟨e1, e2, -⟩ := hd
      simp only [Adj, OvX]
      rw [e1]
      exact ⟨a1, p2, by linarith, by linarith, ov.2.2.2⟩
    · -- right: the last descendant
      obtain ⟨g, hg, hd, hlast⟩ := h1.desc_last ht ht'' he
      simp only at hlast
      refine ⟨g, hg, hd, ?_⟩
      obtain ⟨e1, e2, -⟩ := hd
      simp only [Adj, OvT] at ha ⊢
      rw [e1, e2, hlast]; exact ha
    · -- top
      obtain ⟨a1, ov⟩ := ha
      obtain ⟨x, x1, x2, x3, x4⟩ := ov.point
      obtain ⟨g, hg, hd, c1, c2, c3, c4⟩ := h1.desc_at ht ht'' he (t := e.t0) (x := x)
        ⟨le_refl _, hp.1, x1, x2⟩
      obtain ⟨-, p1, p2⟩ := hd.sub hp
      refine ⟨g, hg, hd, ?_⟩
      obtain ⟨e1, e2, -⟩ := hd
      simp only [Adj, OvX]
      rw [e2]
      exact ⟨a1, p2, by linarith, by linarith, ov.2.2.2⟩
    · -- left: the first descendant
      obtain ⟨g, hg, hd, c1, c2, c3, c4⟩ := h1.desc_at ht ht'' he h00
      obtain ⟨⟨s1, s2, s3, s4⟩, p1, p2⟩ := hd.sub hp
      refine ⟨g, hg, hd, ?_⟩
      obtain ⟨e1, e2, -⟩ := hd
      have hx : g.x0 = e.x0 := by linarith
      simp only [Adj, OvT] at ha ⊢
      rw [e1, e2, hx]; exact ha

/-- **necessity, one step**: a leaf `n` of `m` across an edge of a leaf `e` that is bisected in the
competitor `m''`, with `n` strictly shallower than `e`, is bisected in `m''` as well -/
theorem Bisected.step (ht : Tiles m) (ht'' : Tiles m'') (h1 : RefinesAx ax m m'')
    (h2 : IrrAx ax m'') {e n : Cell} {s : Side} (he : e ∈ m.leaves) (ha : Adj m e s n)
    (hlt : n.level ax < e.level ax) (hb : Bisected ax e m'') : Bisected ax n m'' := by
  intro d hd hdesc
  by_contra hcon
  have hle : d.level ax ≤ n.level ax := by omega
  have hcoord := hdesc.eq_of_level_le hle
  obtain ⟨g, hg, hdg, hadj⟩ := h1.desc_adj ht ht'' he ha
  have hadj' : Adj m'' g s d :=
    (Adj.congr h1.1 h1.2.1 h1.2.2.1).mpr ((Adj.congr_right hcoord).mpr hadj)
  have l1 := hb g hg hdg
  have l2 := h2 g hg d hd s (adjacent_iff.mpr hadj')
  omega

/-- **necessity**: every forced cell is bisected in every competitor -/
theorem Forced.bisected (ht : Tiles m) (ht'' : Tiles m'') (h1 : RefinesAx ax m m'')
    (h2 : IrrAx ax m'') {c : Cell} (h3 : Bisected ax c m'') {e : Cell} (hf : Forced m c ax e) :
    Bisected ax e m'' := by
  induction hf with
  | base => exact h3
  | step _ he _ ha hlt ih => exact Bisected.step ht ht'' h1 h2 he (adjacent_iff.mp ha) hlt ih

theorem Bisected.not_mem {c : Cell} (hb : Bisected ax c m'') : c ∉ m''.leaves := by
  intro hc
  have := hb c hc (AxDesc.refl ax c)
  omega

end competitor

/-! ### the result of `refineId` is a competitor -/

theorem Irr.irrAx {m : Mesh} (h : Irr m) (ax : Ax) : IrrAx ax m := by
  intro a ha b hb s hadj
  exact (h.level ha hb (adjacent_iff.mp hadj) ax).1

theorem St.refinesAx {ax : Ax} {m : Mesh} {c : Cell} {m' : Mesh} (h : Inv m)
    (res : Res ax m c m') (st : St ax m c m') : RefinesAx ax m m' := by
  refine ⟨res.ref.glue, res.ref.box.1, res.ref.box.2.1, res.ref.box.2.2.1, res.ref.box.2.2.2, ?_⟩
  intro l hl
  rcases st.old l hl with h' | ⟨e, he, -, -, hch⟩
  · exact ⟨l, h', AxDesc.refl ax l⟩
  · exact ⟨e, he, (hch.props (h.tiles.proper e he)).2.2.2⟩

theorem St.bisected {ax : Ax} {m : Mesh} {c : Cell} {m' : Mesh} (h : Inv m) (hc : c ∈ m.leaves)
    (res : Res ax m c m') (st : St ax m c m') : Bisected ax c m' := by
  intro d hd hdesc
  by_contra hcon
  have hle : d.level ax ≤ c.level ax := by omega
  obtain ⟨q1, q2, q3, q4⟩ := hdesc.eq_of_level_le hle
  have hdc : d.Sub c := ⟨by rw [q1], by rw [q2], by rw [q3], by rw [q4]⟩
  have hcd : c.Sub d := ⟨by rw [q1], by rw [q2], by rw [q3], by rw [q4]⟩
  rcases st.old d hd with h' | ⟨e, he, -, -, hch⟩
  · have := h.tiles.eq_of_sub h' hc hdc
    subst this
    exact res.gone hd
  · obtain ⟨hs, -, hlev, -⟩ := hch.props (h.tiles.proper e he)
    have := h.tiles.eq_of_sub hc he (hcd.trans hs)
    subst this
    omega

/-- (i) the result of `refineId` is a competitor -/
theorem refineId_admissible' {m : Mesh} (h : Inv m) {c : Cell} (hc : c ∈ m.leaves) (ax : Ax) :
    ∃ m', refineId m c.id ax = .ok m' ∧ Inv m' ∧ RefinesAx ax m m' ∧ IrrAx ax m' ∧
      Bisected ax c m' := by
  obtain ⟨m', hr, res, st⟩ := refineId_st h hc ax
  exact ⟨m', hr, res.inv, st.refinesAx h res, res.inv.irr.irrAx ax, st.bisected h hc res⟩

/-- (ii) minimality: every competitor refines the result of `refineId` -/
theorem refineId_least' {m : Mesh} (h : Inv m) {c : Cell} (hc : c ∈ m.leaves) {ax : Ax} {m' : Mesh}
    (hr : refineId m c.id ax = .ok m') {m'' : Mesh} (ht : Tiles m'') (h1 : RefinesAx ax m m'')
    (h2 : IrrAx ax m'') (h3 : Bisected ax c m'') : RefinesAx ax m' m'' := by
  obtain ⟨m1, hr1, res, st⟩ := refineId_st h hc ax
  rw [hr] at hr1
  cases hr1
  refine ⟨h1.1.trans res.ref.glue.symm, h1.2.1.trans res.ref.box.1.symm,
    h1.2.2.1.trans res.ref.box.2.1.symm, h1.2.2.2.1.trans res.ref.box.2.2.1.symm,
    h1.2.2.2.2.1.trans res.ref.box.2.2.2.symm, ?_⟩
  intro d'' hd''
  obtain ⟨d, hd, hdesc⟩ := h1.2.2.2.2.2 d'' hd''
  by_cases hdm : d ∈ m'.leaves
  · exact ⟨d, hdm, hdesc⟩
  · obtain ⟨hf, k, k1, k2⟩ := st.gone d hd hdm
    have hb := hf.bisected h.tiles ht h1 h2 h3
    rcases hdesc.child (hb d'' hd'' hdesc) k with h' | h'
    · exact ⟨_, k1, h'⟩
    · exact ⟨_, k2, h'⟩

/-- declarative description of the result: exactly the forced leaves are bisected, once each -/
theorem refineId_spec' {m : Mesh} (h : Inv m) {c : Cell} (hc : c ∈ m.leaves) {ax : Ax} {m' : Mesh}
    (hr : refineId m c.id ax = .ok m') :
    (∀ l' ∈ m'.leaves, (l' ∈ m.leaves ∧ ¬ Forced m c ax l') ∨
      ∃ e ∈ m.leaves, Forced m c ax e ∧ ChildOf ax l' e) ∧
    (∀ l ∈ m.leaves, ¬ Forced m c ax l → l ∈ m'.leaves) ∧
    (∀ e, Forced m c ax e → e ∈ m.leaves ∧ e ∉ m'.leaves ∧
      ∃ k, (children k e ax).1 ∈ m'.leaves ∧ (children k e ax).2 ∈ m'.leaves) := by
  obtain ⟨m1, hr1, res, st⟩ := refineId_st h hc ax
  rw [hr] at hr1
  cases hr1
  have hgone : ∀ e, Forced m c ax e → e ∉ m'.leaves := fun e hf =>
    (hf.bisected h.tiles res.inv.tiles (st.refinesAx h res) (res.inv.irr.irrAx ax)
      (st.bisected h hc res)).not_mem
  refine ⟨?_, ?_, ?_⟩
  · intro l' hl'
    rcases st.old l' hl' with h' | ⟨e, he, hf, -, hch⟩
    · exact Or.inl ⟨h', fun hf => hgone l' hf hl'⟩
    · exact Or.inr ⟨e, he, hf, hch⟩
  · intro l hl hnf
    by_contra hl'
    exact hnf (st.gone l hl hl').1
  · intro e hf
    exact ⟨hf.mem hc, hgone e hf, (st.gone e (hf.mem hc) (hgone e hf)).2⟩

end Stbem.Mesh
