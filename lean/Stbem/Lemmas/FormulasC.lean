import Stbem.Lemmas.FormulasA
import Mathlib.Analysis.SpecialFunctions.ExpDeriv
import Mathlib.Analysis.Calculus.Deriv.Inv

/-!
# Closed-form kernels: the four-term formula is an exact double primitive (part C)

With `S.exp = Real.exp` and the law `Ei' x = e^x / x` for `x < 0`:
`d/dz [z e^{-ρ/z} + (ρ+z) Ei(-ρ/z)] = Ei(-ρ/z)` and `d/dz Ei(-ρ/z) = - e^{-ρ/z} / z` (`z, ρ > 0`).
Hence `z ↦ sl_f S z 0 r` has derivative `sl_g S z 0 r`, and `z ↦ sl_g S z 0 r` has derivative
`-G(z, x)`, `G(z,x) = fpiInv · e^{-r/(4z)} / z`, `r = |x|²`: `F'' = -G`, which is exactly what makes
`F(b-d) - F(b-c) + F(a-c) - F(a-d)` the integral of `G(t-s,x)` over `[a,b] × [c,d]`.
-/
namespace Stbem.Formulas.R

/-- the differential law of the exponential integral on the negative axis -/
def EiLaw (S : Fns) : Prop := ∀ x < 0, HasDerivAt S.ei (Real.exp x / x) x

theorem inner_deriv (ρ z : ℝ) (hz : z ≠ 0) : HasDerivAt (fun z : ℝ => -ρ / z) (ρ / z^2) z := by
  have h := (hasDerivAt_inv hz).const_mul (-ρ)
  refine (h.congr_deriv ?_).congr_of_eventuallyEq (Filter.Eventually.of_forall fun y => ?_)
  · field_simp
  · simp only [div_eq_mul_inv]

theorem exp_inner_deriv (ρ z : ℝ) (hz : z ≠ 0) :
    HasDerivAt (fun z : ℝ => Real.exp (-ρ / z)) (Real.exp (-ρ / z) * (ρ / z^2)) z :=
  (inner_deriv ρ z hz).exp

/-- `d/dz Ei(-ρ/z) = - e^{-ρ/z} / z` -/
theorem ei_inner_deriv (S : Fns) (hei : EiLaw S) (ρ z : ℝ) (hρ : 0 < ρ) (hz : 0 < z) :
    HasDerivAt (fun z : ℝ => S.ei (-ρ / z)) (-(Real.exp (-ρ / z) / z)) z := by
  have hneg : -ρ / z < 0 := div_neg_of_neg_of_pos (neg_lt_zero.mpr hρ) hz
  have h := (hei (-ρ / z) hneg).comp z (inner_deriv ρ z hz.ne')
  refine h.congr_deriv ?_
  field_simp

/-- `d/dz [ z e^{-ρ/z} + (ρ+z) Ei(-ρ/z) ] = Ei(-ρ/z)` for `z > 0`, `ρ > 0` -/
theorem Fp_deriv' (S : Fns) (hexp : S.exp = Real.exp) (hei : EiLaw S) (ρ z : ℝ) (hρ : 0 < ρ)
    (hz : 0 < z) :
    HasDerivAt (fun z => z * S.exp (-ρ/z) + (ρ+z) * S.ei (-ρ/z)) (S.ei (-ρ/z)) z := by
  rw [hexp]
  have h1 := (hasDerivAt_id' z).mul (exp_inner_deriv ρ z hz.ne')
  have h2 := ((hasDerivAt_id' z).const_add ρ).mul (ei_inner_deriv S hei ρ z hρ hz)
  refine (h1.add h2).congr_deriv ?_
  field_simp
  ring


/-- the heat kernel `G(z,x) = fpiInv · e^{-r/(4z)} / z` as a function of `r = |x|²`
(`kernel` of `src/single_layer.py` for `z > 0`) -/
noncomputable def Gk (S : Fns) (z r : ℝ) : ℝ := S.fpiInv * (Real.exp (-r / (4 * z)) / z)

theorem g_eq_of_pos (S : Fns) (r y : ℝ) (hy : 0 < y) :
    sl_g S y 0 r = S.fpiInv * S.ei (-(r/4) / y) := by
  rw [g_pos S y 0 r hy, sub_zero]
  congr 2
  field_simp

theorem f_eq_of_pos (S : Fns) (r y : ℝ) (hy : 0 < y) : sl_f S y 0 r = Fp S y r := by
  rw [f_eq_Fg, sub_zero, Fg, if_pos hy]

/-- `∂_z g_z = -G(z, ·)` : `g_z(x) = fpiInv · Ei(-|x|²/(4z))` is minus the time primitive of `G` -/
theorem g_deriv' (S : Fns) (hei : EiLaw S) (r z : ℝ) (hr : 0 < r) (hz : 0 < z) :
    HasDerivAt (fun z => sl_g S z 0 r) (-(Gk S z r)) z := by
  have h := (ei_inner_deriv S hei (r/4) z (by linarith) hz).const_mul S.fpiInv
  have hev : (fun z => sl_g S z 0 r) =ᶠ[nhds z] fun y => S.fpiInv * S.ei (-(r/4) / y) :=
    (lt_mem_nhds hz).mono fun y hy => g_eq_of_pos S r y hy
  refine (h.congr_deriv ?_).congr_of_eventuallyEq hev
  unfold Gk
  have e : -(r/4) / z = -r / (4 * z) := by field_simp
  rw [e]
  ring

/-- `∂_z f_z = g_z` : `f_z` is the time primitive of `g_z`, hence `∂_z² f_z = -G(z, ·)` -/
theorem f_deriv' (S : Fns) (hexp : S.exp = Real.exp) (hei : EiLaw S) (r z : ℝ) (hr : 0 < r)
    (hz : 0 < z) : HasDerivAt (fun z => sl_f S z 0 r) (sl_g S z 0 r) z := by
  have h := (Fp_deriv' S hexp hei (r/4) z (by linarith) hz).const_mul S.fpiInv
  have hev : (fun z => sl_f S z 0 r) =ᶠ[nhds z]
      fun y => S.fpiInv * (y * S.exp (-(r/4) / y) + (r/4 + y) * S.ei (-(r/4) / y)) :=
    (lt_mem_nhds hz).mono fun y hy => by
      show sl_f S y 0 r = _
      rw [f_eq_of_pos S r y hy, Fp]
  rw [g_eq_of_pos S r z hz]
  exact h.congr_of_eventuallyEq hev

end Stbem.Formulas.R
