import Stbem.Lemmas.SLKernels
import Stbem.Lemmas.QuadBasic

/-! Pointwise evaluation: `evalPlan`, `evaluate`, `evaluateExact`, `potential`. -/
namespace Stbem.SL
open Stbem.Quad Stbem.Formulas.Q

variable (cfg : Cfg) (onePlus oneMinus : Rat) (S : Fns) (log : Rule1) (gs : List Piece)

/-- (seam-aware) parameter distance of `xhat` to the left end of the element -/
def distA (e : Elem) (xhat : Rat) : Rat :=
  if cfg.glue then minR (absR (xhat - e.x0)) (absR (cfg.len - xhat + e.x0)) else absR (xhat - e.x0)

/-- (seam-aware) parameter distance of `xhat` to the right end of the element -/
def distB (e : Elem) (xhat : Rat) : Rat :=
  if cfg.glue then minR (absR (xhat - e.x1)) (absR (cfg.len - e.x1 + xhat)) else absR (xhat - e.x1)

theorem distA_nonneg (e : Elem) (x : Rat) : 0 ≤ distA cfg e x := by
  unfold distA
  split
  · rw [minR_eq_min]; exact le_min (absR_nonneg _) (absR_nonneg _)
  · exact absR_nonneg _

theorem distB_nonneg (e : Elem) (x : Rat) : 0 ≤ distB cfg e x := by
  unfold distB
  split
  · rw [minR_eq_min]; exact le_min (absR_nonneg _) (absR_nonneg _)
  · exact absR_nonneg _

/-- the three-way decision of `evaluate` in closed form -/
theorem evalPlan_eq (e : Elem) (t xhat : Rat) :
    evalPlan cfg onePlus oneMinus e t xhat =
      if t ≤ e.t0 then .zero
      else if e.x0 * onePlus ≤ xhat ∧ xhat ≤ e.x1 * oneMinus then .inElem
      else .outside (!decide (distA cfg e xhat ≤ distB cfg e xhat)) := rfl

theorem evalPlan_zero_iff (e : Elem) (t xhat : Rat) :
    evalPlan cfg onePlus oneMinus e t xhat = .zero ↔ t ≤ e.t0 := by
  rw [evalPlan_eq]
  by_cases h : t ≤ e.t0
  · simp [h]
  · rw [if_neg h]
    by_cases h2 : e.x0 * onePlus ≤ xhat ∧ xhat ≤ e.x1 * oneMinus
    · rw [if_pos h2]; simp [h]
    · rw [if_neg h2]; simp [h]

theorem evalPlan_inElem_iff (e : Elem) (t xhat : Rat) :
    evalPlan cfg onePlus oneMinus e t xhat = .inElem ↔
      ¬ t ≤ e.t0 ∧ e.x0 * onePlus ≤ xhat ∧ xhat ≤ e.x1 * oneMinus := by
  rw [evalPlan_eq]
  by_cases h : t ≤ e.t0
  · simp [h]
  · rw [if_neg h]
    by_cases h2 : e.x0 * onePlus ≤ xhat ∧ xhat ≤ e.x1 * oneMinus
    · rw [if_pos h2]; simp [h, h2]
    · rw [if_neg h2]
      constructor
      · intro h3; cases h3
      · rintro ⟨_, h3⟩; exact absurd h3 h2

theorem evalPlan_outside_iff (e : Elem) (t xhat : Rat) (m : Bool) :
    evalPlan cfg onePlus oneMinus e t xhat = .outside m ↔
      ¬ t ≤ e.t0 ∧ ¬(e.x0 * onePlus ≤ xhat ∧ xhat ≤ e.x1 * oneMinus) ∧
      (m = false ↔ distA cfg e xhat ≤ distB cfg e xhat) := by
  rw [evalPlan_eq]
  by_cases h : t ≤ e.t0
  · simp [h]
  · rw [if_neg h]
    by_cases h2 : e.x0 * onePlus ≤ xhat ∧ xhat ≤ e.x1 * oneMinus
    · rw [if_pos h2]; simp [h2]
    · rw [if_neg h2]
      simp only [EvalPlan.outside.injEq, h, h2, not_false_eq_true, true_and]
      by_cases h3 : distA cfg e xhat ≤ distB cfg e xhat
      · cases m <;> simp [h3]
      · cases m <;> simp [h3]

/-- the unmirrored point set (graded towards `e.x0`) is used exactly when `xhat` is not farther
from `e.x0` than from `e.x1` -/
theorem evalPlan_outside_graded (e : Elem) (t xhat : Rat) (m : Bool)
    (h : evalPlan cfg onePlus oneMinus e t xhat = .outside m) :
    m = false ↔ distA cfg e xhat ≤ distB cfg e xhat :=
  ((evalPlan_outside_iff cfg onePlus oneMinus e t xhat m).mp h).2.2

/-- evaluation at the left end point of the element: unmirrored rule -/
theorem evalPlan_at_x0 (e : Elem) (t : Rat) (ht : ¬ t ≤ e.t0) (h0 : 0 < e.x0) (h1 : 1 < onePlus) :
    evalPlan cfg onePlus oneMinus e t e.x0 = .outside false := by
  rw [evalPlan_outside_iff]
  refine ⟨ht, ?_, ?_⟩
  · rintro ⟨h2, _⟩; nlinarith
  · simp only [true_iff]
    have hA : distA cfg e e.x0 = 0 := by
      unfold distA
      split
      · rw [minR_eq_min, sub_self, absR_eq_abs, abs_zero]
        exact min_eq_left (absR_nonneg _)
      · rw [sub_self, absR_eq_abs, abs_zero]
    rw [hA]; exact distB_nonneg cfg e e.x0

/-- evaluation at the right end point of the element: mirrored rule (unless the element is
degenerate or is the whole closed curve) -/
theorem evalPlan_at_x1 (e : Elem) (t : Rat) (ht : ¬ t ≤ e.t0) (h0 : 0 < e.x1) (h1 : oneMinus < 1)
    (hne : e.x0 ≠ e.x1) (hw : cfg.glue = true → cfg.len ≠ e.x1 - e.x0) :
    evalPlan cfg onePlus oneMinus e t e.x1 = .outside true := by
  rw [evalPlan_outside_iff]
  refine ⟨ht, ?_, ?_⟩
  · rintro ⟨_, h2⟩; nlinarith
  · have hB : distB cfg e e.x1 = 0 := by
      unfold distB
      split
      · rw [minR_eq_min, sub_self, absR_eq_abs, abs_zero]
        exact min_eq_left (absR_nonneg _)
      · rw [sub_self, absR_eq_abs, abs_zero]
    have hA : 0 < distA cfg e e.x1 := by
      unfold distA
      have p1 : 0 < absR (e.x1 - e.x0) := by
        rw [absR_eq_abs]; exact abs_pos.mpr (sub_ne_zero.mpr (Ne.symm hne))
      split
      · next hg =>
        rw [minR_eq_min]
        refine lt_min p1 ?_
        rw [absR_eq_abs]
        apply abs_pos.mpr
        intro h3
        exact hw hg (by linarith)
      · exact p1
    rw [hB]
    constructor
    · intro h; cases h
    · intro h; linarith

/-! ### `evaluate` -/

theorem evaluate_zero (e : Elem) (t xhat : Rat) (x : Rat × Rat) (h : t ≤ e.t0) :
    evaluate cfg onePlus oneMinus S log gs e t xhat x = 0 := by
  have := (evalPlan_zero_iff cfg onePlus oneMinus e t xhat).mpr h
  simp only [evaluate, this]

/-- inside the element the interval is split at `xhat`; the left part uses the mirrored rule
(nodes cluster at its right end `xhat`), the right part the rule itself (nodes cluster at its left
end `xhat`) -/
theorem evaluate_inElem (e : Elem) (t xhat : Rat) (x : Rat × Rat)
    (h : evalPlan cfg onePlus oneMinus e t xhat = .inElem) :
    evaluate cfg onePlus oneMinus S log gs e t xhat x =
      integrate1 (mirror1 log)
        (fun y => evalKernel S t e.t0 e.t1 (distSq x ((pieceOf gs e.piece).at y))) e.x0 xhat +
      integrate1 log
        (fun y => evalKernel S t e.t0 e.t1 (distSq x ((pieceOf gs e.piece).at y))) xhat e.x1 := by
  simp only [evaluate, h]

theorem zip_map_self {α β} (g : α → β) (l : List α) : (l.map g).zip l = l.map fun n => (g n, n) := by
  induction l with
  | nil => rfl
  | cons a l ih => simp [ih]

theorem zip_self {α} (l : List α) : l.zip l = l.map fun n => (n, n) := by
  induction l with
  | nil => rfl
  | cons a l ih => simp [ih]

theorem outside_sum_eq (k : Rat → Rat) (a b : Rat) (m : Bool) :
    (b - a) * sumR (((if m then mirror1 log else log).zip log).map fun p => p.2.w * k (a + (b - a) * p.1.x)) =
      integrate1 (if m then mirror1 log else log) k a b := by
  unfold integrate1
  by_cases hab : a = b
  · rw [if_pos hab, hab, sub_self, zero_mul]
  rw [if_neg hab, ← sumR_map_mul_left]
  cases m
  · simp only [Bool.false_eq_true, if_false, zip_self, List.map_map, Function.comp_def]
    congr 1; apply List.map_congr_left; intro n _; ring
  · simp only [if_true, mirror1, zip_map_self, List.map_map, Function.comp_def]
    congr 1; apply List.map_congr_left; intro n _; ring

/-- outside the element `evaluate` is the (possibly mirrored) log rule on the whole element -/
theorem evaluate_outside (e : Elem) (t xhat : Rat) (x : Rat × Rat) (m : Bool)
    (h : evalPlan cfg onePlus oneMinus e t xhat = .outside m) :
    evaluate cfg onePlus oneMinus S log gs e t xhat x =
      integrate1 (if m then mirror1 log else log)
        (fun y => evalKernel S t e.t0 e.t1 (distSq x ((pieceOf gs e.piece).at y))) e.x0 e.x1 := by
  simp only [evaluate, h]
  exact outside_sum_eq log (fun y => evalKernel S t e.t0 e.t1 (distSq x ((pieceOf gs e.piece).at y)))
    e.x0 e.x1 m

/-- the inline kernel of `evaluate` is the time-integrated kernel `g(t,b) − g(t,a)` -/
theorem evalKernel_eq_tik (t ta tb r : Rat) (h : ta < t) :
    evalKernel S t ta tb r = sl_tik S t ta tb r := by
  have h1 : ¬ t ≤ ta := not_le.mpr h
  unfold evalKernel
  by_cases h2 : t ≤ tb
  · simp only [sl_tik, sl_g, if_pos h2, if_neg h1]; ring
  · simp only [sl_tik, sl_g, if_neg h2, if_neg h1]; ring

theorem potential_zero (gauss : Rule1) (e : Elem) (t : Rat) (x : Rat × Rat) (h : t ≤ e.t0) :
    potential S gauss gs e t x = 0 := by
  unfold potential; rw [if_pos h]

/-- `evaluate` outside the element with the unmirrored log rule is `potential` with that rule -/
theorem evaluate_outside_eq_potential (e : Elem) (t xhat : Rat) (x : Rat × Rat)
    (h : evalPlan cfg onePlus oneMinus e t xhat = .outside false) :
    evaluate cfg onePlus oneMinus S log gs e t xhat x = potential S log gs e t x := by
  have ht := ((evalPlan_outside_iff cfg onePlus oneMinus e t xhat false).mp h).1
  rw [evaluate_outside cfg onePlus oneMinus S log gs e t xhat x false h]
  unfold potential
  rw [if_neg ht]
  simp only [Bool.false_eq_true, if_false]
  congr 1
  funext y
  exact evalKernel_eq_tik S t e.t0 e.t1 _ (not_le.mp ht)

/-! ### `evaluateExact` -/

theorem evaluateExact_zero (e : Elem) (t x : Rat) (h : t ≤ e.t0) : evaluateExact S e t x = some 0 := by
  unfold evaluateExact; rw [if_pos h]

theorem evaluateExact_inside (e : Elem) (t x : Rat) (ht : ¬ t ≤ e.t0) (h0 : e.x0 < x) (h1 : x < e.x1) :
    evaluateExact S e t x =
      some (steval_1 S t e.t0 e.t1 (x - e.x0) + steval_1 S t e.t0 e.t1 (e.x1 - x)) := by
  unfold evaluateExact
  rw [if_neg ht, if_neg (by rintro (h | h) <;> linarith), if_pos ⟨h0, h1⟩]

theorem evaluateExact_endpoint (e : Elem) (t x : Rat) (ht : ¬ t ≤ e.t0) (hx : e.x0 ≤ e.x1)
    (h : x = e.x0 ∨ x = e.x1) :
    evaluateExact S e t x = some (steval_1 S t e.t0 e.t1 (e.x1 - e.x0)) := by
  unfold evaluateExact
  rw [if_neg ht, if_neg (by rintro (h' | h') <;> rcases h with h | h <;> linarith),
    if_neg (by rintro ⟨h1, h2⟩; rcases h with h | h <;> linarith), if_pos h]

theorem neg_div_flip (u a t : Rat) : u / (4 * (a - t)) = -(u / (4 * (t - a))) := by
  rw [← neg_sub t a, mul_neg, div_neg]

/-- outside the element the inline closed form of `evaluate_exact` is `spacetime_evaluated_2`
(`−gint_2(t−a) [+ gint_2(t−b)]`) with `h`, `k` the smaller and the larger distance to the end points -/
theorem evaluateExact_outside (e : Elem) (t x : Rat) (ht : ¬ t ≤ e.t0) (h : x < e.x0 ∨ x > e.x1) :
    evaluateExact S e t x =
      some (steval_2 S t e.t0 e.t1 (minR (absR (e.x0 - x)) (absR (e.x1 - x)))
        (maxR (absR (e.x0 - x)) (absR (e.x1 - x)))) := by
  have ht' : t > e.t0 := not_le.mp ht
  unfold evaluateExact
  rw [if_neg ht, if_pos h]
  by_cases hb : t ≤ e.t1
  · have hb' : ¬ t > e.t1 := not_lt.mpr hb
    simp only [if_pos hb, steval_2, gint_2, if_pos ht', if_neg hb']
    congr 1; ring
  · have hb' : t > e.t1 := not_le.mp hb
    simp only [if_neg hb, steval_2, gint_2, if_pos ht', if_pos hb',
      neg_div_flip _ e.t0 t, neg_div_flip _ e.t1 t]
    congr 1; ring

/-- the two distances of the outside branch: `h` is the distance to the nearer end point, `k` to the
farther one, and `h < k` (the asserted precondition of `gint_2`) for a non-degenerate element -/
theorem evaluateExact_outside_hk (e : Elem) (x : Rat) (hx : e.x0 < e.x1) :
    (x < e.x0 → minR (absR (e.x0 - x)) (absR (e.x1 - x)) = e.x0 - x ∧
      maxR (absR (e.x0 - x)) (absR (e.x1 - x)) = e.x1 - x) ∧
    (x > e.x1 → minR (absR (e.x0 - x)) (absR (e.x1 - x)) = x - e.x1 ∧
      maxR (absR (e.x0 - x)) (absR (e.x1 - x)) = x - e.x0) ∧
    ((x < e.x0 ∨ x > e.x1) →
      0 < minR (absR (e.x0 - x)) (absR (e.x1 - x)) ∧
      minR (absR (e.x0 - x)) (absR (e.x1 - x)) < maxR (absR (e.x0 - x)) (absR (e.x1 - x))) := by
  have c1 : x < e.x0 → minR (absR (e.x0 - x)) (absR (e.x1 - x)) = e.x0 - x ∧
      maxR (absR (e.x0 - x)) (absR (e.x1 - x)) = e.x1 - x := by
    intro h
    rw [minR_eq_min, maxR_eq_max, absR_eq_abs, absR_eq_abs, abs_of_pos (by linarith),
      abs_of_pos (by linarith)]
    exact ⟨min_eq_left (by linarith), max_eq_right (by linarith)⟩
  have c2 : x > e.x1 → minR (absR (e.x0 - x)) (absR (e.x1 - x)) = x - e.x1 ∧
      maxR (absR (e.x0 - x)) (absR (e.x1 - x)) = x - e.x0 := by
    intro h
    rw [minR_eq_min, maxR_eq_max, absR_eq_abs, absR_eq_abs, abs_of_neg (by linarith),
      abs_of_neg (by linarith)]
    exact ⟨by rw [min_eq_right (by linarith)]; ring, by rw [max_eq_left (by linarith)]; ring⟩
  refine ⟨c1, c2, ?_⟩
  rintro (h | h)
  · rw [(c1 h).1, (c1 h).2]; constructor <;> linarith
  · rw [(c2 h).1, (c2 h).2]; constructor <;> linarith

/-- the implicit `None` of `evaluate_exact` is unreachable -/
theorem evaluateExact_isSome (e : Elem) (t x : Rat) : (evaluateExact S e t x).isSome = true := by
  by_cases ht : t ≤ e.t0
  · rw [evaluateExact_zero S e t x ht]; rfl
  by_cases h : x < e.x0 ∨ x > e.x1
  · rw [evaluateExact_outside S e t x ht h]; rfl
  rw [not_or, not_lt, not_lt] at h
  by_cases h2 : e.x0 < x ∧ x < e.x1
  · rw [evaluateExact_inside S e t x ht h2.1 h2.2]; rfl
  · have : x = e.x0 ∨ x = e.x1 := by
      by_contra h3
      rw [not_or] at h3
      exact h2 ⟨lt_of_le_of_ne h.1 (Ne.symm h3.1), lt_of_le_of_ne h.2 h3.2⟩
    rw [evaluateExact_endpoint S e t x ht (le_trans h.1 h.2) this]; rfl

end Stbem.SL
