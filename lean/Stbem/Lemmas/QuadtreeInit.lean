import Stbem.Lemmas.QuadtreeRefine

/-!
# The initial meshes `UnitSquare()` / `PiSquare()` (in units of π) and `LShape()` satisfy the invariant
-/
namespace Stbem.Quadtree

theorem mkRoot_onGrid (id : Nat) (i j : Int) : OnGrid (mkRoot id i j 1) := by
  refine ⟨by simp [mkRoot], i, j, by simp [mkRoot], by simp [mkRoot]⟩

/-- a mesh consisting of unit roots at integer positions, all of them leaves -/
theorem roots_inv (m : QT) (hl : m.leaves = m.elems)
    (hroot : ∀ e ∈ m.elems, ∃ (id : Nat) (i j : Int), e = mkRoot id i j 1)
    (hdis : ∀ c ∈ m.elems, ∀ d ∈ m.elems, c.x0 = d.x0 → c.y0 = d.y0 → c = d)
    (hverts : VertsOK m) (hids : IdsOK m) : QInv m := by
  have lev : ∀ e ∈ m.elems, e.level = 0 := by
    intro e he; obtain ⟨id, i, j, rfl⟩ := hroot e he; rfl
  have grid : ∀ e ∈ m.elems, OnGrid e := by
    intro e he; obtain ⟨id, i, j, rfl⟩ := hroot e he; exact mkRoot_onGrid id i j
  refine ⟨⟨grid, ?_, ?_, ?_, ?_, ?_⟩, ⟨?_, ?_, ?_⟩, ?_, hverts, hids⟩
  · intro f hf g hg _ hx hy; exact hdis f hf g hg hx hy
  · intro c hc; rw [hl] at hc; exact hc
  · intro f hf _; exact lev f hf
  · intro f hf h4
    obtain ⟨id, i, j, rfl⟩ := hroot f hf
    simp [mkRoot] at h4
  · intro p hp hnl; rw [hl] at hnl; exact absurd hp hnl
  · rintro x y ⟨r, hr, -, hc⟩; exact ⟨r, by rw [hl]; exact hr, hc⟩
  · intro c hc x y hcont; rw [hl] at hc; exact ⟨c, hc, lev c hc, hcont⟩
  · intro c hc d hd x y h1 h2
    rw [hl] at hc hd
    obtain ⟨e1, e2⟩ := (grid c hc).same (grid d hd) (by rw [lev c hc, lev d hd]) h1 h2
    exact hdis c hc d hd e1 e2
  · intro c hc n hn s _
    rw [hl] at hc hn
    rw [lev c hc, lev n hn]; omega

theorem unitSquare_inv' : QInv unitSquare := by
  apply roots_inv
  · rfl
  · intro e he
    simp only [unitSquare, List.mem_cons, List.not_mem_nil, or_false] at he
    exact ⟨0, 0, 0, by rw [he]; simp⟩
  · intro c hc d hd _ _
    simp only [unitSquare, List.mem_cons, List.not_mem_nil, or_false] at hc hd
    rw [hc, hd]
  · refine ⟨by decide, ?_, ?_⟩
    · intro v hv
      refine ⟨mkRoot 0 0 0 1, by simp [unitSquare], ?_⟩
      simp only [unitSquare, List.mem_cons, List.not_mem_nil, or_false] at hv
      rcases hv with rfl | rfl | rfl | rfl <;> simp [Corner, mkRoot]
    · intro f hf v hv
      simp only [unitSquare, List.mem_cons, List.not_mem_nil, or_false] at hf
      subst hf
      have : v = (v.1, v.2) := rfl
      obtain ⟨h1, h2⟩ := hv
      simp only [mkRoot] at h1 h2
      rcases h1 with h1 | h1 <;> rcases h2 with h2 | h2 <;> rw [this, h1, h2] <;>
        simp [unitSquare]
  · exact ⟨by simp [unitSquare, mkRoot], by simp [unitSquare]⟩

theorem lShape_inv' : QInv lShape := by
  apply roots_inv
  · rfl
  · intro e he
    simp only [lShape, List.mem_cons, List.not_mem_nil, or_false] at he
    rcases he with rfl | rfl | rfl
    · exact ⟨0, 0, -1, by simp⟩
    · exact ⟨1, 0, 0, by simp⟩
    · exact ⟨2, -1, 0, by simp⟩
  · intro c hc d hd hx hy
    simp only [lShape, List.mem_cons, List.not_mem_nil, or_false] at hc hd
    rcases hc with rfl | rfl | rfl <;> rcases hd with rfl | rfl | rfl <;>
      first | rfl | (exfalso; simp only [mkRoot] at hx hy; linarith)
  · refine ⟨by decide, ?_, ?_⟩
    · intro v hv
      simp only [lShape, List.mem_cons, List.not_mem_nil, or_false] at hv
      rcases hv with rfl | rfl | rfl | rfl | rfl | rfl | rfl | rfl
      · exact ⟨mkRoot 1 0 0 1, by simp [lShape], by simp [Corner, mkRoot]⟩
      · exact ⟨mkRoot 0 0 (-1) 1, by simp [lShape], by simp [Corner, mkRoot]⟩
      · exact ⟨mkRoot 0 0 (-1) 1, by simp [lShape], by simp [Corner, mkRoot]⟩
      · exact ⟨mkRoot 1 0 0 1, by simp [lShape], by simp [Corner, mkRoot]⟩
      · exact ⟨mkRoot 1 0 0 1, by simp [lShape], by simp [Corner, mkRoot]⟩
      · exact ⟨mkRoot 1 0 0 1, by simp [lShape], by simp [Corner, mkRoot]⟩
      · exact ⟨mkRoot 2 (-1) 0 1, by simp [lShape], by simp [Corner, mkRoot]⟩
      · exact ⟨mkRoot 2 (-1) 0 1, by simp [lShape], by simp [Corner, mkRoot]⟩
    · intro f hf v hv
      simp only [lShape, List.mem_cons, List.not_mem_nil, or_false] at hf
      have : v = (v.1, v.2) := rfl
      obtain ⟨h1, h2⟩ := hv
      rcases hf with rfl | rfl | rfl <;> simp only [mkRoot] at h1 h2 <;>
        rcases h1 with h1 | h1 <;> rcases h2 with h2 | h2 <;> rw [this, h1, h2] <;>
        norm_num [lShape]
  · exact ⟨by simp [lShape, mkRoot, List.range_succ], by simp [lShape, mkRoot]⟩

end Stbem.Quadtree
