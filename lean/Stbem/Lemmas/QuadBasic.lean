import Stbem.Model.Quad
import Mathlib.Tactic.Ring
import Mathlib.Tactic.FieldSimp
import Mathlib.Tactic.Linarith
import Mathlib.Algebra.Order.Field.Rat

/-! Helper lemmas on `sumR` and the `apply` functionals. -/
namespace Stbem.Quad

@[simp] theorem sumR_nil : sumR [] = 0 := rfl
@[simp] theorem sumR_cons (a : Rat) (l : List Rat) : sumR (a :: l) = a + sumR l := rfl

@[simp] theorem sumR_append (l₁ l₂ : List Rat) : sumR (l₁ ++ l₂) = sumR l₁ + sumR l₂ := by
  induction l₁ with
  | nil => simp
  | cons a l ih => simp [ih, add_assoc]

theorem sumR_map_mul_left {α} (c : Rat) (f : α → Rat) (l : List α) :
    sumR (l.map fun a => c * f a) = c * sumR (l.map f) := by
  induction l with
  | nil => simp
  | cons a l ih => simp [ih, mul_add]

theorem sumR_map_mul_right {α} (c : Rat) (f : α → Rat) (l : List α) :
    sumR (l.map fun a => f a * c) = sumR (l.map f) * c := by
  induction l with
  | nil => simp
  | cons a l ih => simp [ih, add_mul]

theorem sumR_map_add {α} (f g : α → Rat) (l : List α) :
    sumR (l.map fun a => f a + g a) = sumR (l.map f) + sumR (l.map g) := by
  induction l with
  | nil => simp
  | cons a l ih => simp [ih]; ring

theorem sumR_map_congr {α} (f g : α → Rat) (l : List α) (h : ∀ a ∈ l, f a = g a) :
    sumR (l.map f) = sumR (l.map g) := by
  induction l with
  | nil => simp
  | cons a l ih =>
    simp only [List.map_cons, sumR_cons]
    rw [h a (by simp), ih (fun b hb => h b (by simp [hb]))]

theorem sumR_flatMap {α β} (l : List α) (g : α → List β) (f : β → Rat) :
    sumR ((l.flatMap g).map f) = sumR (l.map fun a => sumR ((g a).map f)) := by
  induction l with
  | nil => simp
  | cons a l ih => simp [List.flatMap_cons, ih]

theorem sumR_nonneg (l : List Rat) (h : ∀ a ∈ l, 0 ≤ a) : 0 ≤ sumR l := by
  induction l with
  | nil => simp
  | cons a l ih =>
    simp only [sumR_cons]
    have := h a (by simp)
    have := ih (fun b hb => h b (by simp [hb]))
    linarith

theorem apply1_add (r : Rule1) (f g : Rat → Rat) :
    apply1 r (fun x => f x + g x) = apply1 r f + apply1 r g := by
  unfold apply1
  rw [← sumR_map_add]
  congr 1; apply List.map_congr_left; intro n _; ring

theorem apply1_smul (r : Rule1) (c : Rat) (f : Rat → Rat) :
    apply1 r (fun x => c * f x) = c * apply1 r f := by
  unfold apply1
  rw [← sumR_map_mul_left]
  congr 1; apply List.map_congr_left; intro n _; ring

theorem apply2_add (r : Rule2) (f g : Rat → Rat → Rat) :
    apply2 r (fun x y => f x y + g x y) = apply2 r f + apply2 r g := by
  unfold apply2
  rw [← sumR_map_add]
  congr 1; apply List.map_congr_left; intro n _; ring

theorem apply2_smul (r : Rule2) (c : Rat) (f : Rat → Rat → Rat) :
    apply2 r (fun x y => c * f x y) = c * apply2 r f := by
  unfold apply2
  rw [← sumR_map_mul_left]
  congr 1; apply List.map_congr_left; intro n _; ring

theorem apply2_append (r s : Rule2) (f : Rat → Rat → Rat) :
    apply2 (r ++ s) f = apply2 r f + apply2 s f := by
  simp [apply2]

theorem apply3_append (r s : Rule3) (f : Rat → Rat → Rat → Rat) :
    apply3 (r ++ s) f = apply3 r f + apply3 s f := by
  simp [apply3]

end Stbem.Quad
