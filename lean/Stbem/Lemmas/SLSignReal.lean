import Stbem.Lemmas.SLSign
import Stbem.Lemmas.KernelIntegral
import Mathlib.Algebra.Order.BigOperators.Group.List
import Mathlib.Data.Rat.Cast.Order

/-!
# The quadrature sums of the model with the *real* time kernels

The model `Stbem.Model.SingleLayer` computes over `ℚ` with a record of rational stand-in special
functions.  The true special functions are not rational-valued, so the statement "the number the
quadrature path produces in exact arithmetic with the true `exp`, `Ei` is `≥ 0`, and `> 0` for a
causal pair" needs the same finite sums with real summands:

* `integrate1R`, `integrate2R`, `integratePanelsR` : the sums of `integrate1`, `integrate2`,
  `integratePanels` for an integrand `ℚ → (ℚ →) ℝ` — same nodes, same weights, same order;
  `integratePanelsR_cast`, `integrate1R_cast`: for a rational-valued integrand they are the casts of
  the model's values (so they *are* the model's sums);
* `bilformQuadR`, `evaluateR`, `potentialR` : the quadrature path of `bilform`, `evaluate`,
  `potential` with the same decisions (`panels`, `lexLe`, `evalPlan` of the model, over `ℚ`) and the
  generated real kernels `R.sl_dtk`, `R.sl_tik` of `Gen/FormulasR.lean` at the rational nodes.

With the laws `exp = Real.exp`, `EiLaw`, `EiLim`, `fpiInv > 0` (`Lemmas/KernelSign.lean`) these values
are `≥ 0` for rules with weights `≥ 0`, and `> 0` for causal pairs and non-empty rules with weights
`> 0`.
-/
namespace Stbem.Quad

/-- positive weights, nodes in the open unit interval -/
def SPosRule1 (r : Rule1) : Prop := ∀ n ∈ r, 0 < n.w ∧ 0 < n.x ∧ n.x < 1
def SPosRule2 (r : Rule2) : Prop := ∀ n ∈ r, 0 < n.w ∧ 0 < n.x ∧ n.x < 1 ∧ 0 < n.y ∧ n.y < 1

theorem SPosRule1.pos {r : Rule1} (h : SPosRule1 r) : PosRule1 r :=
  fun n hn => ⟨(h n hn).1.le, (h n hn).2⟩
theorem SPosRule2.pos {r : Rule2} (h : SPosRule2 r) : PosRule2 r :=
  fun n hn => ⟨(h n hn).1.le, (h n hn).2⟩

theorem SPosRule1.mirror {r : Rule1} (h : SPosRule1 r) : SPosRule1 (mirror1 r) := by
  intro n hn
  simp only [mirror1, List.mem_map] at hn
  obtain ⟨m, hm, rfl⟩ := hn
  obtain ⟨h1, h2, h3⟩ := h m hm
  refine ⟨h1, ?_, ?_⟩ <;> dsimp only <;> linarith

theorem SPosRule2.mirrorX {r : Rule2} (h : SPosRule2 r) : SPosRule2 (mirrorX2 r) := by
  intro n hn
  simp only [mirrorX2, List.mem_map] at hn
  obtain ⟨m, hm, rfl⟩ := hn
  obtain ⟨h1, h2, h3, h4, h5⟩ := h m hm
  refine ⟨h1, ?_, ?_, h4, h5⟩ <;> dsimp only <;> linarith

theorem SPosRule2.mirrorY {r : Rule2} (h : SPosRule2 r) : SPosRule2 (mirrorY2 r) := by
  intro n hn
  simp only [mirrorY2, List.mem_map] at hn
  obtain ⟨m, hm, rfl⟩ := hn
  obtain ⟨h1, h2, h3, h4, h5⟩ := h m hm
  refine ⟨h1, h2, h3, ?_, ?_⟩ <;> dsimp only <;> linarith

theorem SPosRule1.product {rx ry : Rule1} (hx : SPosRule1 rx) (hy : SPosRule1 ry) :
    SPosRule2 (product2 rx ry) := by
  intro n hn
  simp only [product2, List.mem_flatMap, List.mem_map] at hn
  obtain ⟨nx, hnx, ny, hny, rfl⟩ := hn
  obtain ⟨a1, a2, a3⟩ := hx nx hnx
  obtain ⟨b1, b2, b3⟩ := hy ny hny
  exact ⟨mul_pos a1 b1, a2, a3, b2, b3⟩

theorem SPosRule2.duffy {r : Rule2} (h : SPosRule2 r) : SPosRule2 (duffy2 r false) := by
  intro n hn
  simp only [duffy2, Bool.false_eq_true, if_false, List.mem_append, duffyHalfA, duffyHalfB,
    List.mem_map] at hn
  rcases hn with ⟨m, hm, rfl⟩ | ⟨m, hm, rfl⟩
  · obtain ⟨h1, h2, h3, h4, h5⟩ := h m hm
    obtain ⟨d1, d2, _⟩ := duffy_node h2 h3 h4 h5
    exact ⟨mul_pos h1 h2, h2, h3, d1, d2⟩
  · obtain ⟨h1, h2, h3, h4, h5⟩ := h m hm
    obtain ⟨d1, d2, _⟩ := duffy_node h2 h3 h4 h5
    exact ⟨mul_pos h1 h2, d1, d2, h2, h3⟩

theorem product2_ne_nil {rx ry : Rule1} (hx : rx ≠ []) (hy : ry ≠ []) : product2 rx ry ≠ [] := by
  cases rx with
  | nil => exact absurd rfl hx
  | cons a rx =>
    cases ry with
    | nil => exact absurd rfl hy
    | cons b ry => simp [product2]

theorem duffy2_ne_nil {r : Rule2} (h : r ≠ []) : duffy2 r false ≠ [] := by
  cases r with
  | nil => exact absurd rfl h
  | cons a r => simp [duffy2, duffyHalfA]

/-! ### real-valued sums -/

theorem sumR_cast (l : List Rat) : ((sumR l : Rat) : ℝ) = (l.map fun (q : Rat) => (q : ℝ)).sum := by
  induction l with
  | nil => simp [sumR]
  | cons a l ih => rw [sumR_cons, List.map_cons, List.sum_cons, Rat.cast_add, ih]

/-- `integrate1` with a real-valued integrand -/
noncomputable def integrate1R (r : Rule1) (f : Rat → ℝ) (a b : Rat) : ℝ :=
  if a = b then 0 else (r.map fun n => (((b - a : Rat) : ℝ) * f (a + (b - a) * n.x)) * (n.w : ℝ)).sum

/-- `integrate2` with a real-valued integrand -/
noncomputable def integrate2R (r : Rule2) (f : Rat → Rat → ℝ) (a b c d : Rat) : ℝ :=
  ((d - c : Rat) : ℝ) * ((b - a : Rat) : ℝ) *
    (r.map fun n => f (a + (b - a) * n.x) (c + (d - c) * n.y) * (n.w : ℝ)).sum

theorem integrate1R_cast (r : Rule1) (g : Rat → Rat) (a b : Rat) :
    integrate1R r (fun u => (g u : ℝ)) a b = ((integrate1 r g a b : Rat) : ℝ) := by
  unfold integrate1R integrate1
  by_cases h : a = b
  · simp [h]
  · rw [if_neg h, if_neg h, sumR_cast, List.map_map]
    congr 1
    apply List.map_congr_left
    intro n _
    simp only [Function.comp_apply, Rat.cast_mul]

theorem integrate2R_cast (r : Rule2) (g : Rat → Rat → Rat) (a b c d : Rat) :
    integrate2R r (fun u v => (g u v : ℝ)) a b c d = ((integrate2 r g a b c d : Rat) : ℝ) := by
  unfold integrate2R integrate2
  rw [Rat.cast_mul, Rat.cast_mul, sumR_cast, List.map_map]
  congr 2
  apply List.map_congr_left
  intro n _
  simp only [Function.comp_apply, Rat.cast_mul]

theorem integrate1R_nonneg (r : Rule1) (f : Rat → ℝ) {a b : Rat} (hab : a ≤ b)
    (hw : ∀ n ∈ r, 0 ≤ n.w) (hf : a < b → ∀ n ∈ r, 0 ≤ f (a + (b - a) * n.x)) :
    0 ≤ integrate1R r f a b := by
  unfold integrate1R
  by_cases h : a = b
  · rw [if_pos h]
  · rw [if_neg h]
    have hlt : a < b := lt_of_le_of_ne hab h
    have hba : (0 : ℝ) ≤ ((b - a : Rat) : ℝ) := Rat.cast_nonneg.mpr (by linarith)
    refine List.sum_nonneg ?_
    intro v hv
    rw [List.mem_map] at hv
    obtain ⟨n, hn, rfl⟩ := hv
    exact mul_nonneg (mul_nonneg hba (hf hlt n hn)) (Rat.cast_nonneg.mpr (hw n hn))

theorem integrate1R_pos (r : Rule1) (f : Rat → ℝ) {a b : Rat} (hab : a < b) (hr : r ≠ [])
    (hw : ∀ n ∈ r, 0 < n.w) (hf : ∀ n ∈ r, 0 < f (a + (b - a) * n.x)) :
    0 < integrate1R r f a b := by
  unfold integrate1R
  rw [if_neg (ne_of_lt hab)]
  have hba : (0 : ℝ) < ((b - a : Rat) : ℝ) := Rat.cast_pos.mpr (by linarith)
  refine List.sum_pos _ ?_ (by simpa using hr)
  intro v hv
  rw [List.mem_map] at hv
  obtain ⟨n, hn, rfl⟩ := hv
  exact mul_pos (mul_pos hba (hf n hn)) (Rat.cast_pos.mpr (hw n hn))

theorem integrate2R_nonneg (r : Rule2) (f : Rat → Rat → ℝ) {a b c d : Rat} (hab : a ≤ b) (hcd : c ≤ d)
    (hw : ∀ n ∈ r, 0 ≤ n.w) (hf : ∀ n ∈ r, 0 ≤ f (a + (b - a) * n.x) (c + (d - c) * n.y)) :
    0 ≤ integrate2R r f a b c d := by
  unfold integrate2R
  have h1 : (0 : ℝ) ≤ ((b - a : Rat) : ℝ) := Rat.cast_nonneg.mpr (by linarith)
  have h2 : (0 : ℝ) ≤ ((d - c : Rat) : ℝ) := Rat.cast_nonneg.mpr (by linarith)
  refine mul_nonneg (mul_nonneg h2 h1) (List.sum_nonneg ?_)
  intro v hv
  rw [List.mem_map] at hv
  obtain ⟨n, hn, rfl⟩ := hv
  exact mul_nonneg (hf n hn) (Rat.cast_nonneg.mpr (hw n hn))

theorem integrate2R_pos (r : Rule2) (f : Rat → Rat → ℝ) {a b c d : Rat} (hab : a < b) (hcd : c < d)
    (hr : r ≠ []) (hw : ∀ n ∈ r, 0 < n.w)
    (hf : ∀ n ∈ r, 0 < f (a + (b - a) * n.x) (c + (d - c) * n.y)) :
    0 < integrate2R r f a b c d := by
  unfold integrate2R
  have h1 : (0 : ℝ) < ((b - a : Rat) : ℝ) := Rat.cast_pos.mpr (by linarith)
  have h2 : (0 : ℝ) < ((d - c : Rat) : ℝ) := Rat.cast_pos.mpr (by linarith)
  refine mul_pos (mul_pos h2 h1) (List.sum_pos _ ?_ (by simpa using hr))
  intro v hv
  rw [List.mem_map] at hv
  obtain ⟨n, hn, rfl⟩ := hv
  exact mul_pos (hf n hn) (Rat.cast_pos.mpr (hw n hn))

end Stbem.Quad

namespace Stbem.SL
open Stbem.Quad

theorem ruleOf_spos {log : Rule1} (h : SPosRule1 log) (k : PKind) : SPosRule2 (ruleOf log k) := by
  have hp := h.product h
  cases k
  · exact hp.duffy
  · exact hp.duffy.mirrorX
  · exact hp.duffy.mirrorY
  · exact hp.mirrorX
  · exact hp.mirrorY

theorem ruleOf_ne_nil {log : Rule1} (h : log ≠ []) (k : PKind) : ruleOf log k ≠ [] := by
  have hp := product2_ne_nil h h
  have hd := duffy2_ne_nil hp
  cases k <;> simp only [ruleOf, mirrorX2, mirrorY2, ne_eq, List.map_eq_nil_iff] <;> assumption

/-- `integratePanels` with a real-valued integrand -/
noncomputable def integratePanelsR (log : Rule1) (f : Rat → Rat → ℝ) (ps : List Panel) : ℝ :=
  (ps.map fun p => integrate2R (ruleOf log p.kind) f p.a p.b p.c p.d).sum

theorem integratePanelsR_cast (log : Rule1) (g : Rat → Rat → Rat) (ps : List Panel) :
    integratePanelsR log (fun u v => (g u v : ℝ)) ps = ((integratePanels log g ps : Rat) : ℝ) := by
  unfold integratePanelsR integratePanels
  rw [sumR_cast, List.map_map]
  congr 1
  apply List.map_congr_left
  intro p _
  exact integrate2R_cast _ g p.a p.b p.c p.d

theorem integratePanelsR_nonneg_of_open {cfg : Cfg} {fuel : Nat} {a b c d : Rat} {ps : List Panel}
    (h : panels cfg fuel a b c d = .ok ps) {log : Rule1} (hlog : PosRule1 log) (f : Rat → Rat → ℝ)
    (hf : ∀ u v, a < u → u < b → c < v → v < d → u ≠ v → 0 ≤ f u v) :
    0 ≤ integratePanelsR log f ps := by
  obtain ⟨m, _, ht⟩ := panels_tiles cfg fuel a b c d ps h
  unfold integratePanelsR
  refine List.sum_nonneg ?_
  intro v hv
  rw [List.mem_map] at hv
  obtain ⟨p, hp, rfl⟩ := hv
  obtain ⟨_, i2, _, _, i5, _⟩ := ht.inside p hp
  refine integrate2R_nonneg _ f i2.le i5.le (fun n hn => (ruleOf_pos hlog p.kind n hn).1) ?_
  intro n hn
  obtain ⟨h1, h2, h3, h4, h5⟩ := panel_node_open_offdiag h hlog hp hn
  exact hf _ _ h1 h2 h3 h4 h5

theorem panels_ne_nil {cfg : Cfg} {fuel : Nat} {a b c d : Rat} {ps : List Panel}
    (h : panels cfg fuel a b c d = .ok ps) : ps ≠ [] := by
  obtain ⟨m, _, ht⟩ := panels_tiles cfg fuel a b c d ps h
  intro he
  have hA := ht.area
  have hB := ht.base
  rw [he] at hA
  have : (0 : Rat) < (b - a) * (d - c) := mul_pos (by linarith [hB.ab]) (by linarith [hB.cd])
  simp [area] at hA
  rcases hA with hA | hA
  · linarith [hB.ab]
  · linarith [hB.cd]

theorem integratePanelsR_pos_of_open {cfg : Cfg} {fuel : Nat} {a b c d : Rat} {ps : List Panel}
    (h : panels cfg fuel a b c d = .ok ps) {log : Rule1} (hlog : SPosRule1 log) (hne : log ≠ [])
    (f : Rat → Rat → ℝ) (hf : ∀ u v, a < u → u < b → c < v → v < d → u ≠ v → 0 < f u v) :
    0 < integratePanelsR log f ps := by
  obtain ⟨m, _, ht⟩ := panels_tiles cfg fuel a b c d ps h
  unfold integratePanelsR
  refine List.sum_pos _ ?_ (by simpa using panels_ne_nil h)
  intro v hv
  rw [List.mem_map] at hv
  obtain ⟨p, hp, rfl⟩ := hv
  obtain ⟨_, i2, _, _, i5, _⟩ := ht.inside p hp
  refine integrate2R_pos _ f i2 i5 (ruleOf_ne_nil hne p.kind)
    (fun n hn => (ruleOf_spos hlog p.kind n hn).1) ?_
  intro n hn
  obtain ⟨h1, h2, h3, h4, h5⟩ := panel_node_open_offdiag h hlog.pos hp hn
  exact hf _ _ h1 h2 h3 h4 h5

/-! ### `bilform` (quadrature path), `evaluate`, `potential` with the real kernels -/

section
variable (cfg : Cfg) (SR : Stbem.Formulas.R.Fns) (log : Rule1) (gs : List Piece)

/-- the integrand of the quadrature path with the real kernel at rational arguments -/
noncomputable def kernR (trial test : Elem) (u v : Rat) : ℝ :=
  Stbem.Formulas.R.sl_dtk SR test.t0 test.t1 trial.t0 trial.t1
    ((distSq ((pieceOf gs test.piece).at u) ((pieceOf gs trial.piece).at v) : Rat) : ℝ)

/-- `bilform` with `pw_exact = False` and the real kernel: same guard, same `lexLe` decision, same
`panels` call, same variable swap as `Stbem.SL.bilform` / `quadPath` -/
noncomputable def bilformQuadR (trial test : Elem) : Except String ℝ :=
  if test.t1 ≤ trial.t0 then pure 0
  else if lexLe test.x0 test.x1 trial.x0 trial.x1 then do
    let ps ← panels cfg 12 test.x0 test.x1 trial.x0 trial.x1
    pure (integratePanelsR log (fun x y => kernR SR gs trial test x y) ps)
  else do
    let ps ← panels cfg 12 trial.x0 trial.x1 test.x0 test.x1
    pure (integratePanelsR log (fun x y => kernR SR gs trial test y x) ps)

/-- `bilformQuadR` succeeds exactly when the model's `bilform` does (same assertions) -/
theorem bilformQuadR_ok_iff (S : Stbem.Formulas.Q.Fns) (trial test : Elem) :
    (∃ v, bilformQuadR cfg SR log gs trial test = .ok v) ↔
      ∃ w, bilform cfg S log gs false trial test = .ok w := by
  rw [bilform_false]
  unfold bilformQuadR quadPath
  by_cases hc : test.t1 ≤ trial.t0
  · simp only [if_pos hc]
    exact ⟨fun _ => ⟨0, rfl⟩, fun _ => ⟨0, rfl⟩⟩
  · simp only [if_neg hc]
    by_cases hl : lexLe test.x0 test.x1 trial.x0 trial.x1 = true
    · simp only [if_pos hl]
      cases panels cfg 12 test.x0 test.x1 trial.x0 trial.x1 with
      | error e => exact ⟨fun ⟨_, h⟩ => (by cases h), fun ⟨_, h⟩ => (by cases h)⟩
      | ok ps => exact ⟨fun _ => ⟨_, rfl⟩, fun _ => ⟨_, rfl⟩⟩
    · simp only [if_neg hl]
      cases panels cfg 12 trial.x0 trial.x1 test.x0 test.x1 with
      | error e => exact ⟨fun ⟨_, h⟩ => (by cases h), fun ⟨_, h⟩ => (by cases h)⟩
      | ok ps => exact ⟨fun _ => ⟨_, rfl⟩, fun _ => ⟨_, rfl⟩⟩

/-- the inline time-integrated kernel of `evaluate` (`evalKernel` of the model) over `ℝ` -/
noncomputable def evalKernelR (t ta tb r : ℝ) : ℝ :=
  if t ≤ tb then -SR.fpiInv * SR.ei (-r / (4 * (t - ta)))
  else SR.fpiInv * (SR.ei (-r / (4 * (t - tb))) - SR.ei (-r / (4 * (t - ta))))

/-- `evaluate` with the real kernel: same plan (`evalPlan` of the model), same rules and intervals;
the outside branch in the form `integrate1 (mirrored?) log` which `evaluate_outside` proves equal to
the literal `(x_b - x_a)·Σ wᵢ k(yᵢ)` of the model -/
noncomputable def evaluateR (onePlus oneMinus : Rat) (e : Elem) (t xhat : Rat) (x : Rat × Rat) : ℝ :=
  match evalPlan cfg onePlus oneMinus e t xhat with
  | .zero => 0
  | .inElem =>
    integrate1R (mirror1 log) (fun y => evalKernelR SR t e.t0 e.t1
      ((distSq x ((pieceOf gs e.piece).at y) : Rat) : ℝ)) e.x0 xhat +
    integrate1R log (fun y => evalKernelR SR t e.t0 e.t1
      ((distSq x ((pieceOf gs e.piece).at y) : Rat) : ℝ)) xhat e.x1
  | .outside m =>
    integrate1R (if m then mirror1 log else log) (fun y => evalKernelR SR t e.t0 e.t1
      ((distSq x ((pieceOf gs e.piece).at y) : Rat) : ℝ)) e.x0 e.x1

/-- `potential` with the real kernel `R.sl_tik` -/
noncomputable def potentialR (gauss : Rule1) (e : Elem) (t : Rat) (x : Rat × Rat) : ℝ :=
  if t ≤ e.t0 then 0
  else integrate1R gauss (fun y => Stbem.Formulas.R.sl_tik SR t e.t0 e.t1
    ((distSq x ((pieceOf gs e.piece).at y) : Rat) : ℝ)) e.x0 e.x1

variable (hexp : SR.exp = Real.exp) (hei : Stbem.Formulas.R.EiLaw SR)
  (hlim : Stbem.Formulas.R.EiLim SR) (hfpi : 0 < SR.fpiInv)
include hexp hei hlim hfpi

theorem bilformQuadR_nonneg (trial test : Elem) (v : ℝ) (hlog : PosRule1 log)
    (ht : test.t0 < test.t1) (hs : trial.t0 < trial.t1)
    (hsep : ∀ u w, test.x0 < u → u < test.x1 → trial.x0 < w → w < trial.x1 → u ≠ w →
      0 < distSq ((pieceOf gs test.piece).at u) ((pieceOf gs trial.piece).at w))
    (h : bilformQuadR cfg SR log gs trial test = .ok v) : 0 ≤ v := by
  have hK : ∀ r : Rat, 0 < r →
      0 ≤ Stbem.Formulas.R.sl_dtk SR test.t0 test.t1 trial.t0 trial.t1 (r : ℝ) := fun r hr =>
    Stbem.Formulas.R.dtk_nonneg' SR hexp hei hlim hfpi (Rat.cast_lt.mpr ht).le (Rat.cast_lt.mpr hs)
      (Rat.cast_pos.mpr hr)
  unfold bilformQuadR at h
  by_cases hc : test.t1 ≤ trial.t0
  · rw [if_pos hc, pure_ok] at h
    exact h ▸ le_rfl
  rw [if_neg hc] at h
  by_cases hl : lexLe test.x0 test.x1 trial.x0 trial.x1 = true
  · rw [if_pos hl, bind_ok] at h
    obtain ⟨ps, hps, h⟩ := h
    rw [pure_ok] at h
    rw [← h]
    exact integratePanelsR_nonneg_of_open hps hlog _
      (fun u w h1 h2 h3 h4 h5 => hK _ (hsep u w h1 h2 h3 h4 h5))
  · rw [if_neg hl, bind_ok] at h
    obtain ⟨ps, hps, h⟩ := h
    rw [pure_ok] at h
    rw [← h]
    exact integratePanelsR_nonneg_of_open hps hlog _
      (fun u w h1 h2 h3 h4 h5 => hK _ (hsep w u h3 h4 h1 h2 (Ne.symm h5)))

theorem bilformQuadR_pos (trial test : Elem) (v : ℝ) (hlog : SPosRule1 log) (hne : log ≠ [])
    (ht : test.t0 < test.t1) (hs : trial.t0 < trial.t1) (hc : trial.t0 < test.t1)
    (hsep : ∀ u w, test.x0 < u → u < test.x1 → trial.x0 < w → w < trial.x1 → u ≠ w →
      0 < distSq ((pieceOf gs test.piece).at u) ((pieceOf gs trial.piece).at w))
    (h : bilformQuadR cfg SR log gs trial test = .ok v) : 0 < v := by
  have hK : ∀ r : Rat, 0 < r →
      0 < Stbem.Formulas.R.sl_dtk SR test.t0 test.t1 trial.t0 trial.t1 (r : ℝ) := fun r hr =>
    Stbem.Formulas.R.dtk_pos' SR hexp hei hlim hfpi (Rat.cast_lt.mpr ht) (Rat.cast_lt.mpr hs)
      (Rat.cast_pos.mpr hr) (Rat.cast_lt.mpr hc)
  unfold bilformQuadR at h
  rw [if_neg (not_le.mpr hc)] at h
  by_cases hl : lexLe test.x0 test.x1 trial.x0 trial.x1 = true
  · rw [if_pos hl, bind_ok] at h
    obtain ⟨ps, hps, h⟩ := h
    rw [pure_ok] at h
    rw [← h]
    exact integratePanelsR_pos_of_open hps hlog hne _
      (fun u w h1 h2 h3 h4 h5 => hK _ (hsep u w h1 h2 h3 h4 h5))
  · rw [if_neg hl, bind_ok] at h
    obtain ⟨ps, hps, h⟩ := h
    rw [pure_ok] at h
    rw [← h]
    exact integratePanelsR_pos_of_open hps hlog hne _
      (fun u w h1 h2 h3 h4 h5 => hK _ (hsep w u h3 h4 h1 h2 (Ne.symm h5)))

omit hexp hei hlim hfpi in
theorem evalKernelR_eq_tik (t ta tb r : ℝ) (h : ta < t) :
    evalKernelR SR t ta tb r = Stbem.Formulas.R.sl_tik SR t ta tb r := by
  have h1 : ¬ t ≤ ta := not_le.mpr h
  unfold evalKernelR
  by_cases h2 : t ≤ tb
  · simp only [Stbem.Formulas.R.sl_tik, Stbem.Formulas.R.sl_g, if_pos h2, if_neg h1]; ring
  · simp only [Stbem.Formulas.R.sl_tik, Stbem.Formulas.R.sl_g, if_neg h2, if_neg h1]; ring

omit hexp in
theorem potentialR_nonneg (gauss : Rule1) (e : Elem) (t : Rat) (x : Rat × Rat) (hg : PosRule1 gauss)
    (hx : e.x0 ≤ e.x1) (hte : e.t0 < e.t1)
    (hsep : ∀ y, e.x0 < y → y < e.x1 → 0 < distSq x ((pieceOf gs e.piece).at y)) :
    0 ≤ potentialR SR gs gauss e t x := by
  unfold potentialR
  by_cases ht : t ≤ e.t0
  · rw [if_pos ht]
  · rw [if_neg ht]
    refine integrate1R_nonneg _ _ hx (fun n hn => (hg n hn).1) (fun _ n hn => ?_)
    obtain ⟨_, n1, n2⟩ := hg n hn
    exact Stbem.Formulas.R.tik_nonneg' SR hei hlim hfpi (Rat.cast_lt.mpr hte)
      (Rat.cast_pos.mpr (hsep _ (by nlinarith) (by nlinarith)))

omit hexp in
theorem potentialR_pos (gauss : Rule1) (e : Elem) (t : Rat) (x : Rat × Rat) (hg : SPosRule1 gauss)
    (hne : gauss ≠ []) (hx : e.x0 < e.x1) (hte : e.t0 < e.t1) (ht : e.t0 < t)
    (hsep : ∀ y, e.x0 < y → y < e.x1 → 0 < distSq x ((pieceOf gs e.piece).at y)) :
    0 < potentialR SR gs gauss e t x := by
  unfold potentialR
  rw [if_neg (not_le.mpr ht)]
  refine integrate1R_pos _ _ hx hne (fun n hn => (hg n hn).1) (fun n hn => ?_)
  obtain ⟨_, n1, n2⟩ := hg n hn
  exact Stbem.Formulas.R.tik_pos' SR hei hlim hfpi (Rat.cast_lt.mpr hte)
    (Rat.cast_pos.mpr (hsep _ (by nlinarith) (by nlinarith))) (Rat.cast_lt.mpr ht)

omit hexp in
theorem evaluateR_nonneg (onePlus oneMinus : Rat) (e : Elem) (t xhat : Rat) (x : Rat × Rat)
    (hlog : PosRule1 log) (hx0 : 0 ≤ e.x0) (hx : e.x0 ≤ e.x1) (h1 : 1 ≤ onePlus) (h2 : oneMinus ≤ 1)
    (hte : e.t0 < e.t1)
    (hsep : ∀ y, e.x0 < y → y < e.x1 → y ≠ xhat → 0 < distSq x ((pieceOf gs e.piece).at y))
    (hstrip : e.x0 < xhat → xhat < e.x1 → e.x0 * onePlus ≤ xhat ∧ xhat ≤ e.x1 * oneMinus) :
    0 ≤ evaluateR cfg SR log gs onePlus oneMinus e t xhat x := by
  have hK : ∀ r : Rat, e.t0 < t → 0 < r → 0 ≤ evalKernelR SR t e.t0 e.t1 (r : ℝ) := by
    intro r ht hr
    rw [evalKernelR_eq_tik SR _ _ _ _ (Rat.cast_lt.mpr ht)]
    exact Stbem.Formulas.R.tik_nonneg' SR hei hlim hfpi (Rat.cast_lt.mpr hte) (Rat.cast_pos.mpr hr)
  unfold evaluateR
  cases hplan : evalPlan cfg onePlus oneMinus e t xhat with
  | zero => exact le_rfl
  | inElem =>
    obtain ⟨ht, ha, hb⟩ := (evalPlan_inElem_iff cfg onePlus oneMinus e t xhat).mp hplan
    have ht' : e.t0 < t := not_le.mp ht
    have hx1 : 0 ≤ e.x1 := le_trans hx0 hx
    have ha' : e.x0 ≤ xhat := by nlinarith
    have hb' : xhat ≤ e.x1 := by nlinarith
    refine add_nonneg ?_ ?_
    · refine integrate1R_nonneg _ _ ha' (fun n hn => (hlog.mirror n hn).1) (fun hlt n hn => ?_)
      obtain ⟨_, n1, n2⟩ := hlog.mirror n hn
      exact hK _ ht' (hsep _ (by nlinarith) (by nlinarith) (by intro h; nlinarith))
    · refine integrate1R_nonneg _ _ hb' (fun n hn => (hlog n hn).1) (fun hlt n hn => ?_)
      obtain ⟨_, n1, n2⟩ := hlog n hn
      exact hK _ ht' (hsep _ (by nlinarith) (by nlinarith) (by intro h; nlinarith))
  | outside m =>
    obtain ⟨ht, hnot, _⟩ := (evalPlan_outside_iff cfg onePlus oneMinus e t xhat m).mp hplan
    have ht' : e.t0 < t := not_le.mp ht
    have hout : xhat ≤ e.x0 ∨ e.x1 ≤ xhat := by
      by_contra hcon
      obtain ⟨c1, c2⟩ := not_or.mp hcon
      exact hnot (hstrip (not_le.mp c1) (not_le.mp c2))
    have hr : PosRule1 (if m then mirror1 log else log) := by
      cases m
      · exact hlog
      · exact hlog.mirror
    refine integrate1R_nonneg _ _ hx (fun n hn => (hr n hn).1) (fun hlt n hn => ?_)
    obtain ⟨_, n1, n2⟩ := hr n hn
    have y1 : e.x0 < e.x0 + (e.x1 - e.x0) * n.x := by nlinarith
    have y2 : e.x0 + (e.x1 - e.x0) * n.x < e.x1 := by nlinarith
    refine hK _ ht' (hsep _ y1 y2 ?_)
    rcases hout with ho | ho
    · exact ne_of_gt (lt_of_le_of_lt ho y1)
    · exact ne_of_lt (lt_of_lt_of_le y2 ho)

omit hexp in
theorem evaluateR_pos (onePlus oneMinus : Rat) (e : Elem) (t xhat : Rat) (x : Rat × Rat)
    (hlog : SPosRule1 log) (hne : log ≠ []) (hx0 : 0 ≤ e.x0) (hx : e.x0 < e.x1) (h1 : 1 ≤ onePlus)
    (h2 : oneMinus ≤ 1) (hte : e.t0 < e.t1) (ht' : e.t0 < t)
    (hsep : ∀ y, e.x0 < y → y < e.x1 → y ≠ xhat → 0 < distSq x ((pieceOf gs e.piece).at y))
    (hstrip : e.x0 < xhat → xhat < e.x1 → e.x0 * onePlus ≤ xhat ∧ xhat ≤ e.x1 * oneMinus) :
    0 < evaluateR cfg SR log gs onePlus oneMinus e t xhat x := by
  have hK : ∀ r : Rat, 0 < r → 0 < evalKernelR SR t e.t0 e.t1 (r : ℝ) := by
    intro r hr
    rw [evalKernelR_eq_tik SR _ _ _ _ (Rat.cast_lt.mpr ht')]
    exact Stbem.Formulas.R.tik_pos' SR hei hlim hfpi (Rat.cast_lt.mpr hte) (Rat.cast_pos.mpr hr)
      (Rat.cast_lt.mpr ht')
  have hmne : mirror1 log ≠ [] := by simpa [mirror1] using hne
  unfold evaluateR
  cases hplan : evalPlan cfg onePlus oneMinus e t xhat with
  | zero => exact absurd ((evalPlan_zero_iff cfg onePlus oneMinus e t xhat).mp hplan) (not_le.mpr ht')
  | inElem =>
    obtain ⟨_, ha, hb⟩ := (evalPlan_inElem_iff cfg onePlus oneMinus e t xhat).mp hplan
    have hx1 : 0 ≤ e.x1 := le_trans hx0 hx.le
    have ha' : e.x0 ≤ xhat := by nlinarith
    have hb' : xhat ≤ e.x1 := by nlinarith
    have hL : 0 ≤ integrate1R (mirror1 log) (fun y => evalKernelR SR t e.t0 e.t1
        ((distSq x ((pieceOf gs e.piece).at y) : Rat) : ℝ)) e.x0 xhat := by
      refine integrate1R_nonneg _ _ ha' (fun n hn => (hlog.mirror n hn).1.le) (fun hlt n hn => ?_)
      obtain ⟨_, n1, n2⟩ := hlog.mirror n hn
      exact (hK _ (hsep _ (by nlinarith) (by nlinarith) (by intro h; nlinarith))).le
    have hR : 0 ≤ integrate1R log (fun y => evalKernelR SR t e.t0 e.t1
        ((distSq x ((pieceOf gs e.piece).at y) : Rat) : ℝ)) xhat e.x1 := by
      refine integrate1R_nonneg _ _ hb' (fun n hn => (hlog n hn).1.le) (fun hlt n hn => ?_)
      obtain ⟨_, n1, n2⟩ := hlog n hn
      exact (hK _ (hsep _ (by nlinarith) (by nlinarith) (by intro h; nlinarith))).le
    rcases lt_or_ge e.x0 xhat with hlt | hge
    · have : 0 < integrate1R (mirror1 log) (fun y => evalKernelR SR t e.t0 e.t1
          ((distSq x ((pieceOf gs e.piece).at y) : Rat) : ℝ)) e.x0 xhat := by
        refine integrate1R_pos _ _ hlt hmne (fun n hn => (hlog.mirror n hn).1) (fun n hn => ?_)
        obtain ⟨_, n1, n2⟩ := hlog.mirror n hn
        exact hK _ (hsep _ (by nlinarith) (by nlinarith) (by intro h; nlinarith))
      exact add_pos_of_pos_of_nonneg this hR
    · have hlt : xhat < e.x1 := by linarith
      have : 0 < integrate1R log (fun y => evalKernelR SR t e.t0 e.t1
          ((distSq x ((pieceOf gs e.piece).at y) : Rat) : ℝ)) xhat e.x1 := by
        refine integrate1R_pos _ _ hlt hne (fun n hn => (hlog n hn).1) (fun n hn => ?_)
        obtain ⟨_, n1, n2⟩ := hlog n hn
        exact hK _ (hsep _ (by nlinarith) (by nlinarith) (by intro h; nlinarith))
      exact add_pos_of_nonneg_of_pos hL this
  | outside m =>
    obtain ⟨_, hnot, _⟩ := (evalPlan_outside_iff cfg onePlus oneMinus e t xhat m).mp hplan
    have hout : xhat ≤ e.x0 ∨ e.x1 ≤ xhat := by
      by_contra hcon
      obtain ⟨c1, c2⟩ := not_or.mp hcon
      exact hnot (hstrip (not_le.mp c1) (not_le.mp c2))
    have hr : SPosRule1 (if m then mirror1 log else log) := by
      cases m
      · exact hlog
      · exact hlog.mirror
    have hrne : (if m then mirror1 log else log) ≠ [] := by
      cases m
      · exact hne
      · exact hmne
    refine integrate1R_pos _ _ hx hrne (fun n hn => (hr n hn).1) (fun n hn => ?_)
    obtain ⟨_, n1, n2⟩ := hr n hn
    have y1 : e.x0 < e.x0 + (e.x1 - e.x0) * n.x := by nlinarith
    have y2 : e.x0 + (e.x1 - e.x0) * n.x < e.x1 := by nlinarith
    refine hK _ (hsep _ y1 y2 ?_)
    rcases hout with ho | ho
    · exact ne_of_gt (lt_of_le_of_lt ho y1)
    · exact ne_of_lt (lt_of_lt_of_le y2 ho)

end

end Stbem.SL
