import Stbem.Lemmas.SLPanels

/-!
Converse of the inversion lemma (`Tiles n … ps → panels fuel … = .ok ps` for every `fuel ≥ n`), and
totality of `panels` on a lattice: a derivation of depth `≤ 5` exists.
-/
namespace Stbem.SL

theorem Base.g1 {cfg a b c d} (h : Base cfg a b c d) :
    ¬ (!(decide (b - a > cfg.minSize) && decide (d - c > cfg.minSize))) = true := by
  simp [h.sx, h.sy]

theorem Base.g2 {cfg a b c d} (h : Base cfg a b c d) :
    ¬ (!(decide (a < b) && decide (c < d))) = true := by
  simp [h.ab, h.cd]

theorem Base.g3 {cfg a b c d} (h : Base cfg a b c d) : ¬ (!lexLe a b c d) = true := by
  have := (lexLe_iff a b c d).mpr h.lex
  simp [this]

theorem Apart.g6 {cfg a b c d} (h : Apart cfg a b c d) : ¬ isclose cfg b c = true := by
  simp [h.ncl]

theorem panels_base {cfg fuel a b c d} (hB : Base cfg a b c d) :
    panels cfg (fuel + 1) a b c d =
      (if a = c ∧ b = d then pure [⟨.duffyId, a, b, c, d⟩]
      else if b = c then
        if absR ((b - a) - (d - c)) < cfg.eps10 then pure [⟨.duffyMx, a, b, c, d⟩]
        else if (b - a) > (d - c) then do
          let r ← panels cfg fuel a (b - (d - c)) c d
          pure (⟨.duffyMx, b - (d - c), b, c, d⟩ :: r)
        else do
          let r ← panels cfg fuel a b (c + (b - a)) d
          pure (⟨.duffyMx, a, b, c, c + (b - a)⟩ :: r)
      else if isclose cfg b c then .error "assert:isclose"
      else if a = 0 ∧ d = cfg.len ∧ cfg.glue = true then
        if !decide (b < c) then .error "assert:seam"
        else if absR ((b - a) - (d - c)) < cfg.eps10 then pure [⟨.duffyMy, a, b, c, d⟩]
        else if (b - a) > (d - c) then do
          let r ← panels cfg fuel (a + (d - c)) b c d
          pure (⟨.duffyMy, a, a + (d - c), c, d⟩ :: r)
        else do
          let r ← panels cfg fuel a b c (d - (b - a))
          pure (r ++ [⟨.duffyMy, a, b, d - (b - a), d⟩])
      else if b < c then
        if c - b < cfg.len - d + a ∨ cfg.glue = false then pure [⟨.logMx, a, b, c, d⟩]
        else pure [⟨.logMy, a, b, c, d⟩]
      else if d < b then do
        let r ← panels cfg fuel a d c d
        pure (r ++ [⟨.duffyMy, d, b, c, d⟩])
      else if a = c then
        if !decide (b < d) then .error "assert:contained"
        else do
          let r1 ← panels cfg fuel a b c b
          let r2 ← panels cfg fuel a b b d
          pure (r1 ++ r2)
      else if isclose cfg a c then .error "assert:isclose"
      else if !decide (a < c) then .error "assert:overlap"
      else do
        let r1 ← panels cfg fuel a c c d
        let r2 ← panels cfg fuel c b c d
        pure (r1 ++ r2)) := by
  rw [panels, if_neg hB.g1, if_neg hB.g2, if_neg hB.g3]

/-- the part of `panels` after the `isclose(b, c)` assertion -/
theorem panels_apart {cfg fuel a b c d} (hA : Apart cfg a b c d) :
    panels cfg (fuel + 1) a b c d =
      (if a = 0 ∧ d = cfg.len ∧ cfg.glue = true then
        if !decide (b < c) then .error "assert:seam"
        else if absR ((b - a) - (d - c)) < cfg.eps10 then pure [⟨.duffyMy, a, b, c, d⟩]
        else if (b - a) > (d - c) then do
          let r ← panels cfg fuel (a + (d - c)) b c d
          pure (⟨.duffyMy, a, a + (d - c), c, d⟩ :: r)
        else do
          let r ← panels cfg fuel a b c (d - (b - a))
          pure (r ++ [⟨.duffyMy, a, b, d - (b - a), d⟩])
      else if b < c then
        if c - b < cfg.len - d + a ∨ cfg.glue = false then pure [⟨.logMx, a, b, c, d⟩]
        else pure [⟨.logMy, a, b, c, d⟩]
      else if d < b then do
        let r ← panels cfg fuel a d c d
        pure (r ++ [⟨.duffyMy, d, b, c, d⟩])
      else if a = c then
        if !decide (b < d) then .error "assert:contained"
        else do
          let r1 ← panels cfg fuel a b c b
          let r2 ← panels cfg fuel a b b d
          pure (r1 ++ r2)
      else if isclose cfg a c then .error "assert:isclose"
      else if !decide (a < c) then .error "assert:overlap"
      else do
        let r1 ← panels cfg fuel a c c d
        let r2 ← panels cfg fuel c b c d
        pure (r1 ++ r2)) := by
  rw [panels_base hA.toBase, if_neg hA.nid, if_neg hA.nbc, if_neg hA.g6]

theorem not_bnot_decide {p : Prop} [Decidable p] (h : p) : ¬ (!decide p) = true := by simp [h]

/-- a derivation of depth `n` is reproduced by `panels` with any fuel `≥ n` -/
theorem Tiles.panels {cfg n a b c d ps} (h : Tiles cfg n a b c d ps) :
    ∀ fuel, n ≤ fuel → panels cfg fuel a b c d = .ok ps := by
  induction h with
  | ident hB h1 h2 =>
    intro fuel hf; obtain ⟨f, rfl⟩ : ∃ f, fuel = f + 1 := ⟨fuel - 1, by omega⟩
    rw [panels_base hB, if_pos ⟨h1, h2⟩]; rfl
  | touchSq hB h1 h2 h3 =>
    intro fuel hf; obtain ⟨f, rfl⟩ : ∃ f, fuel = f + 1 := ⟨fuel - 1, by omega⟩
    rw [panels_base hB, if_neg h1, if_pos h2, if_pos h3]; rfl
  | touchWide hB h1 h2 h3 h4 _ ih =>
    intro fuel hf; obtain ⟨f, rfl⟩ : ∃ f, fuel = f + 1 := ⟨fuel - 1, by omega⟩
    rw [panels_base hB, if_neg h1, if_pos h2, if_neg h3, if_pos h4, ih f (by omega)]; rfl
  | touchTall hB h1 h2 h3 h4 _ ih =>
    intro fuel hf; obtain ⟨f, rfl⟩ : ∃ f, fuel = f + 1 := ⟨fuel - 1, by omega⟩
    rw [panels_base hB, if_neg h1, if_pos h2, if_neg h3, if_neg h4, ih f (by omega)]; rfl
  | seamSq hA hs h1 h2 =>
    intro fuel hf; obtain ⟨f, rfl⟩ : ∃ f, fuel = f + 1 := ⟨fuel - 1, by omega⟩
    rw [panels_apart hA, if_pos hs, if_neg (not_bnot_decide h1), if_pos h2]; rfl
  | seamWide hA hs h1 h2 h3 _ ih =>
    intro fuel hf; obtain ⟨f, rfl⟩ : ∃ f, fuel = f + 1 := ⟨fuel - 1, by omega⟩
    rw [panels_apart hA, if_pos hs, if_neg (not_bnot_decide h1), if_neg h2, if_pos h3,
      ih f (by omega)]; rfl
  | seamTall hA hs h1 h2 h3 _ ih =>
    intro fuel hf; obtain ⟨f, rfl⟩ : ∃ f, fuel = f + 1 := ⟨fuel - 1, by omega⟩
    rw [panels_apart hA, if_pos hs, if_neg (not_bnot_decide h1), if_neg h2, if_neg h3,
      ih f (by omega)]; rfl
  | farX hA hs h1 h2 =>
    intro fuel hf; obtain ⟨f, rfl⟩ : ∃ f, fuel = f + 1 := ⟨fuel - 1, by omega⟩
    rw [panels_apart hA, if_neg hs, if_pos h1, if_pos h2]; rfl
  | farY hA hs h1 h2 =>
    intro fuel hf; obtain ⟨f, rfl⟩ : ∃ f, fuel = f + 1 := ⟨fuel - 1, by omega⟩
    rw [panels_apart hA, if_neg hs, if_pos h1, if_neg h2]; rfl
  | over hA hs h1 h2 _ ih =>
    intro fuel hf; obtain ⟨f, rfl⟩ : ∃ f, fuel = f + 1 := ⟨fuel - 1, by omega⟩
    rw [panels_apart hA, if_neg hs, if_neg h1, if_pos h2, ih f (by omega)]; rfl
  | nest hA hs h1 h2 h3 h4 _ _ ih1 ih2 =>
    intro fuel hf; obtain ⟨f, rfl⟩ : ∃ f, fuel = f + 1 := ⟨fuel - 1, by omega⟩
    rw [panels_apart hA, if_neg hs, if_neg h1, if_neg h2, if_pos h3, if_neg (not_bnot_decide h4),
      ih1 f (by omega), ih2 f (by omega)]; rfl
  | stag hA hs h1 h2 h3 h4 h5 _ _ ih1 ih2 =>
    intro fuel hf; obtain ⟨f, rfl⟩ : ∃ f, fuel = f + 1 := ⟨fuel - 1, by omega⟩
    rw [panels_apart hA, if_neg hs, if_neg h1, if_neg h2, if_neg h3,
      if_neg (by simp [h4] : ¬ isclose cfg _ _ = true), if_neg (not_bnot_decide h5),
      ih1 f (by omega), ih2 f (by omega)]; rfl

/-- `panels` succeeds with `ps` iff there is a derivation of depth at most the fuel -/
theorem panels_ok_iff (cfg : Cfg) (fuel : Nat) (a b c d : Rat) (ps : List Panel) :
    panels cfg fuel a b c d = .ok ps ↔ ∃ n, n ≤ fuel ∧ Tiles cfg n a b c d ps :=
  ⟨panels_tiles cfg fuel a b c d ps, fun ⟨_, hn, h⟩ => h.panels fuel hn⟩

/-- more fuel does not change a successful result -/
theorem panels_fuel_mono {cfg : Cfg} {fuel fuel' : Nat} {a b c d : Rat} {ps : List Panel}
    (h : panels cfg fuel a b c d = .ok ps) (hf : fuel ≤ fuel') : panels cfg fuel' a b c d = .ok ps := by
  obtain ⟨n, hn, ht⟩ := panels_tiles cfg fuel a b c d ps h
  exact ht.panels fuel' (le_trans hn hf)

end Stbem.SL
