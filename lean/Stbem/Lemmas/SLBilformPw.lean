import Stbem.Lemmas.SLBilform
import Stbem.Lemmas.SLStik

/-! `bilform`: invariance under a common time shift (both paths) and exchange of the space data on
the closed-form path. -/
namespace Stbem.SL
open Stbem.Quad Stbem.Formulas.Q

variable (cfg : Cfg) (S : Fns) (log : Rule1) (gs : List Piece)

/-- the element moved by `δ` in time -/
def shiftT (δ : Rat) (e : Elem) : Elem := { e with t0 := e.t0 + δ, t1 := e.t1 + δ }

theorem kern_shift (δ : Rat) (trial test : Elem) :
    (fun u v => kern S gs (shiftT δ trial) (shiftT δ test) u v) = fun u v => kern S gs trial test u v := by
  funext u v
  simp only [kern, shiftT, sl_dtk_shift]

theorem quadPath_shift (δ : Rat) (trial test : Elem) :
    quadPath cfg S log gs (shiftT δ trial) (shiftT δ test) = quadPath cfg S log gs trial test := by
  have h1 := kern_shift S gs δ trial test
  have h2 : (fun x y => kern S gs (shiftT δ trial) (shiftT δ test) y x) =
      fun x y => kern S gs trial test y x := by
    funext x y; exact congrFun (congrFun h1 y) x
  unfold quadPath
  rw [h1, h2]
  rfl

/-- **time shift**: moving both elements by the same `δ` in time does not change `bilform` -/
theorem bilform_time_shift (pw : Bool) (δ : Rat) (trial test : Elem) :
    bilform cfg S log gs pw (shiftT δ trial) (shiftT δ test) = bilform cfg S log gs pw trial test := by
  rw [bilform_eq, bilform_eq, quadPath_shift]
  by_cases h : test.t1 ≤ trial.t0
  · have h' : (shiftT δ test).t1 ≤ (shiftT δ trial).t0 := by simp only [shiftT]; linarith
    rw [if_pos h, if_pos h']
  · have h' : ¬ (shiftT δ test).t1 ≤ (shiftT δ trial).t0 := by simp only [shiftT]; intro h0; apply h; linarith
    rw [if_neg h, if_neg h']
    have e : stik S 12 (shiftT δ test).t0 (shiftT δ test).t1 (shiftT δ trial).t0 (shiftT δ trial).t1
        (shiftT δ test).x0 (shiftT δ test).x1 (shiftT δ trial).x0 (shiftT δ trial).x1 =
        stik S 12 test.t0 test.t1 trial.t0 trial.t1 test.x0 test.x1 trial.x0 trial.x1 :=
      stik_shift S δ 12 test.t0 test.t1 trial.t0 trial.t1 test.x0 test.x1 trial.x0 trial.x1
    rw [e]
    rfl

/-- **exchange on the closed-form path**: for non-degenerate space intervals, swapping the space
data of trial and test element does not change `bilform` with `pw_exact = True` -/
theorem bilform_exchange_pw (trial test : Elem) (hx : test.x0 < test.x1) (hy : trial.x0 < trial.x1) :
    bilform cfg S log gs true (exchTrial trial test) (exchTest trial test) =
      bilform cfg S log gs true trial test := by
  rw [bilform_eq, bilform_eq, quadPath_exchange]
  by_cases hp : test.piece = trial.piece
  · have e1 : (true && (exchTest trial test).piece == (exchTrial trial test).piece) = true := by
      simp [exchTest, exchTrial, hp]
    have e2 : (true && test.piece == trial.piece) = true := by simp [hp]
    rw [if_pos e1, if_pos e2]
    have e : stik S 12 (exchTest trial test).t0 (exchTest trial test).t1 (exchTrial trial test).t0
        (exchTrial trial test).t1 (exchTest trial test).x0 (exchTest trial test).x1
        (exchTrial trial test).x0 (exchTrial trial test).x1 =
        stik S 12 test.t0 test.t1 trial.t0 trial.t1 test.x0 test.x1 trial.x0 trial.x1 :=
      stik_swap_eq S hy hx 12 12 (by omega) (by omega)
    rw [e]
    rfl
  · have e1 : ¬ (true && (exchTest trial test).piece == (exchTrial trial test).piece) = true := by
      simp [exchTest, exchTrial]; exact fun h => hp h.symm
    have e2 : ¬ (true && test.piece == trial.piece) = true := by simp [hp]
    rw [if_neg e1, if_neg e2]
    rfl

/-- on the closed-form path the value is `0`‑consistent with causality even without the guard:
the leaf kernels vanish for a test interval before the trial interval (see `stik_k_acausal`) -/
theorem stik_acausal : ∀ (fuel : Nat) (ta tb sa sb xa xb ya yb v : Rat), ta < tb → sa < sb → tb ≤ sa →
    stik S fuel ta tb sa sb xa xb ya yb = .ok v → v = 0 := by
  intro fuel
  induction fuel with
  | zero => intro ta tb sa sb xa xb ya yb v _ _ _ h; rw [stik] at h; cases h
  | succ f ih =>
    intro ta tb sa sb xa xb ya yb v h1 h2 h3 h
    rw [stik] at h
    by_cases c1 : lexLt ya yb xa xb = true
    · rw [if_pos c1] at h; exact ih _ _ _ _ _ _ _ _ _ h1 h2 h3 h
    rw [if_neg c1] at h
    by_cases c2 : (!lexLe xa xb ya yb) = true
    · rw [if_pos c2] at h; cases h
    rw [if_neg c2] at h
    by_cases c3 : xb < ya
    · rw [if_pos c3, pure_ok, stik_4_acausal S _ _ _ h1 h2 h3] at h; exact h.symm
    rw [if_neg c3] at h
    by_cases c4 : xa = ya ∧ xb = yb
    · rw [if_pos c4, pure_ok, stik_1_acausal S _ h1 h2 h3] at h; exact h.symm
    rw [if_neg c4] at h
    by_cases c5 : xb = ya
    · rw [if_pos c5, pure_ok, stik_2_acausal S _ _ h1 h2 h3] at h; exact h.symm
    rw [if_neg c5] at h
    by_cases c6 : xa < ya
    · rw [if_pos c6, bind_ok] at h
      obtain ⟨r1, hr1, h⟩ := h
      rw [bind_ok] at h
      obtain ⟨r2, hr2, h⟩ := h
      rw [pure_ok] at h
      rw [← h, ih _ _ _ _ _ _ _ _ _ h1 h2 h3 hr1, ih _ _ _ _ _ _ _ _ _ h1 h2 h3 hr2]; norm_num
    rw [if_neg c6] at h
    by_cases c7 : (!(decide (xa = ya) && decide (xb < yb))) = true
    · rw [if_pos c7] at h; cases h
    rw [if_neg c7, bind_ok] at h
    obtain ⟨r1, hr1, h⟩ := h
    rw [bind_ok] at h
    obtain ⟨r2, hr2, h⟩ := h
    rw [pure_ok] at h
    rw [← h, ih _ _ _ _ _ _ _ _ _ h1 h2 h3 hr1, ih _ _ _ _ _ _ _ _ _ h1 h2 h3 hr2]; norm_num

end Stbem.SL
