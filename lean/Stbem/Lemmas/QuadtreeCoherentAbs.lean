import Stbem.Lemmas.QuadtreeCoherentParent

/-!
# The state that the generated `refine` leaves stands for `bisect` of the hand model

`tail_abs`: `absMesh (tailState g e) = bisect (absMesh g) (absElem (nRoots g) e)` for a leaf `e` of a coherent state.
-/
namespace Stbem.QuadtreeTie
open Stbem.Quadtree Stbem.Gen
open QuadtreeGen (dictHas dictGet dictSet Element_edges)

theorem Coherent.bisOK {g : GMesh} (hc : Coherent g) : BisOK g := fun p hp => (hc.bis_sound p hp).2

theorem nRoots_le (g : GMesh) : nRoots g ≤ g.elements.length := List.length_filter_le _ _

theorem tail_nRoots (g : GMesh) (e : GElem) : nRoots (tailState g e) = nRoots g := by
  simp [nRoots, tailState, tailKids, List.filter_append]

/-- the children as squares -/
theorem tail_kids_abs {g : GMesh} (hc : Coherent g) {e : GElem} (he : e ∈ g.elements) :
    (tailKids g e).map (absElem (nRoots g)) = children g.elements.length (absElem (nRoots g) e) := by
  have hs := hc.shaped e he
  obtain ⟨⟨a1, a2⟩, ⟨b1, b2⟩, ⟨c1, c2⟩, ⟨d1, d2⟩⟩ := tail_mids hc.bisOK e
  simp only at a1 a2 b1 b2 c1 c2 d1 d2
  have h1 := hs.y01; have h2 := hs.x12; have h3 := hs.y23; have h4 := hs.x30; have h5 := hs.sq
  have hq := hc.quads
  have hle := nRoots_le g
  have p0 : (g.elements.length + 0 - nRoots g) % 4 = 0 := by omega
  have p1 : (g.elements.length + 1 - nRoots g) % 4 = 1 := by omega
  have p2 : (g.elements.length + 2 - nRoots g) % 4 = 2 := by omega
  have p3 : (g.elements.length + 3 - nRoots g) % 4 = 3 := by omega
  simp only [tailKids, children, List.map_cons, List.map_nil, absElem, Option.isNone_some, Bool.false_eq_true,
    if_false, p1, p2, p3, List.cons.injEq, Elem.mk.injEq, and_true, true_and, Nat.add_zero, tvi, a1, a2, b1,
    d1, d2]
  repeat' apply And.intro
  all_goals linarith

theorem lookupRev_isSome (g : GMesh) (a b : Vtx) : (lookupRev g a b).isSome = dictHas g.bisect_edge (b, a) := by
  cases h : lookupRev g a b with
  | none =>
    have := lookupRev_none h
    simp only [Bool.not_eq_true] at this
    rw [this]; rfl
  | some v => rw [(lookupRev_some h).1]; rfl

theorem stepB_snd_none {g : GMesh} {a b : Vtx} (h : lookupRev g a b = none) : (stepB g a b).2 = midVtx g a b := by
  unfold stepB; rw [h]

/-- the vertex list after the four `bisect_edge` calls -/
theorem tailB_vertices {g : GMesh} {e : GElem} (hs : Shaped e) :
    (tailB g e).vertices = g.vertices ++
      (if dictHas g.bisect_edge (e.v1, e.v0) then [] else [tv01 g e]) ++
      (if dictHas g.bisect_edge (e.v2, e.v1) then [] else [tv12 g e]) ++
      (if dictHas g.bisect_edge (e.v3, e.v2) then [] else [tv23 g e]) ++
      (if dictHas g.bisect_edge (e.v0, e.v3) then [] else [tv30 g e]) := by
  obtain ⟨n01, n12, n23, n30, n02, n13⟩ := hs.ne
  have l1 : lookupRev (stepB g e.v0 e.v1).1 e.v1 e.v2 = lookupRev g e.v1 e.v2 :=
    lookupRev_stepB _ _ _ _ _ (by simp [n02])
  have l2 : lookupRev (stepB (stepB g e.v0 e.v1).1 e.v1 e.v2).1 e.v2 e.v3 = lookupRev g e.v2 e.v3 := by
    rw [lookupRev_stepB _ _ _ _ _ (by simp [n13]), lookupRev_stepB _ _ _ _ _ (by simp [n30.symm])]
  have l3 : lookupRev (stepB (stepB (stepB g e.v0 e.v1).1 e.v1 e.v2).1 e.v2 e.v3).1 e.v3 e.v0 = lookupRev g e.v3 e.v0 := by
    rw [lookupRev_stepB _ _ _ _ _ (by simp [n02.symm]), lookupRev_stepB _ _ _ _ _ (by simp [n01.symm]),
      lookupRev_stepB _ _ _ _ _ (by simp [n13])]
  have m0 : (if (lookupRev g e.v0 e.v1).isSome then [] else [midVtx g e.v0 e.v1]) =
      (if dictHas g.bisect_edge (e.v1, e.v0) then [] else [tv01 g e]) := by
    rw [lookupRev_isSome]
    split
    · rfl
    · rename_i h
      have : lookupRev g e.v0 e.v1 = none := by
        cases hh : lookupRev g e.v0 e.v1 with
        | none => rfl
        | some v => exact absurd (lookupRev_some hh).1 h
      rw [tv01, stepB_snd_none this]
  have m1 : (if (lookupRev g e.v1 e.v2).isSome then [] else [midVtx (stepB g e.v0 e.v1).1 e.v1 e.v2]) =
      (if dictHas g.bisect_edge (e.v2, e.v1) then [] else [tv12 g e]) := by
    rw [lookupRev_isSome]
    split
    · rfl
    · rename_i h
      have : lookupRev g e.v1 e.v2 = none := by
        cases hh : lookupRev g e.v1 e.v2 with
        | none => rfl
        | some v => exact absurd (lookupRev_some hh).1 h
      rw [tv12, stepB_snd_none (l1.trans this)]
  have m2 : (if (lookupRev g e.v2 e.v3).isSome then []
        else [midVtx (stepB (stepB g e.v0 e.v1).1 e.v1 e.v2).1 e.v2 e.v3]) =
      (if dictHas g.bisect_edge (e.v3, e.v2) then [] else [tv23 g e]) := by
    rw [lookupRev_isSome]
    split
    · rfl
    · rename_i h
      have : lookupRev g e.v2 e.v3 = none := by
        cases hh : lookupRev g e.v2 e.v3 with
        | none => rfl
        | some v => exact absurd (lookupRev_some hh).1 h
      rw [tv23, stepB_snd_none (l2.trans this)]
  have m3 : (if (lookupRev g e.v3 e.v0).isSome then []
        else [midVtx (stepB (stepB (stepB g e.v0 e.v1).1 e.v1 e.v2).1 e.v2 e.v3).1 e.v3 e.v0]) =
      (if dictHas g.bisect_edge (e.v0, e.v3) then [] else [tv30 g e]) := by
    rw [lookupRev_isSome]
    split
    · rfl
    · rename_i h
      have : lookupRev g e.v3 e.v0 = none := by
        cases hh : lookupRev g e.v3 e.v0 with
        | none => rfl
        | some v => exact absurd (lookupRev_some hh).1 h
      rw [tv30, stepB_snd_none (l3.trans this)]
  unfold tailB
  rw [stepB_vertices, stepB_vertices, stepB_vertices, stepB_vertices, l1, l2, l3, m0, m1, m2, m3]

theorem filter_four {α β : Type} (p : α → Bool) (f : α → β) (a b c d : α) :
    ([a, b, c, d].filter p).map f =
      (if p a then [f a] else []) ++ (if p b then [f b] else []) ++ (if p c then [f c] else []) ++
        (if p d then [f d] else []) := by
  cases ha : p a <;> cases hb : p b <;> cases hc : p c <;> cases hd : p d <;> simp [ha, hb, hc, hd]

/-- the state that the generated `refine` leaves stands for `bisect` of the hand model -/
theorem tail_abs {g : GMesh} (hc : Coherent g) (hq : QInv (absMesh g)) {e : GElem} (hl : e ∈ g.leaf_elements) :
    absMesh (tailState g e) = bisect (absMesh g) (absElem (nRoots g) e) := by
  have he := hc.leaves_sub e hl
  have hs := hc.shaped e he
  have hk := tail_kids_abs hc he
  have hlen : (absMesh g).elems.length = g.elements.length := by simp [absMesh]
  unfold absMesh bisect
  rw [tail_nRoots]
  simp only [QT.mk.injEq]
  refine ⟨?_, ?_, ?_⟩
  · simp only [tailState, List.map_append, hk, List.length_map]
  · simp only [tailState, List.map_append, hk, List.length_map, List.filter_map]
    congr 2
    apply List.filter_congr
    intro l hlm
    simp only [Function.comp, ne_eq, decide_not, Bool.not_eq_eq_eq_not, Bool.not_not, decide_eq_decide]
    constructor
    · intro h; rw [h]
    · intro h
      exact elem_inj_of_inv hq (hc.leaves_sub l hlm) he (by simpa [absElem] using congrArg Elem.id h)
  · obtain ⟨⟨a1, a2⟩, ⟨b1, b2⟩, ⟨c1, c2⟩, ⟨d1, d2⟩⟩ := tail_mids hc.bisOK e
    simp only at a1 a2 b1 b2 c1 c2 d1 d2
    have h1 := hs.y01; have h2 := hs.x12; have h3 := hs.y23; have h4 := hs.x30; have h5 := hs.sq
    have r0 := bis_rev hc hq he .bottom
    have r1 := bis_rev hc hq he .right
    have r2 := bis_rev hc hq he .top
    have r3 := bis_rev hc hq he .left
    simp only [edgeOf] at r0 r1 r2 r3
    have hm : ∀ (g' : QT), g' = absMesh g → ((Side.all.filter fun s => !bisected g' (absElem (nRoots g) e) s).map
        (mid (absElem (nRoots g) e))) =
        ((if dictHas g.bisect_edge (e.v1, e.v0) then [] else [tv01 g e]) ++
        (if dictHas g.bisect_edge (e.v2, e.v1) then [] else [tv12 g e]) ++
        (if dictHas g.bisect_edge (e.v3, e.v2) then [] else [tv23 g e]) ++
        (if dictHas g.bisect_edge (e.v0, e.v3) then [] else [tv30 g e])).map (·.xy) := by
      intro g' hg'
      subst hg'
      have x0 : (tv01 g e).xy = mid (absElem (nRoots g) e) .bottom := by
        simp only [QuadtreeGen.Vtx.xy, mid, absElem, a1, a2, Prod.mk.injEq]; constructor <;> linarith
      have x1 : (tv12 g e).xy = mid (absElem (nRoots g) e) .right := by
        simp only [QuadtreeGen.Vtx.xy, mid, absElem, b1, b2, Prod.mk.injEq]; constructor <;> linarith
      have x2 : (tv23 g e).xy = mid (absElem (nRoots g) e) .top := by
        simp only [QuadtreeGen.Vtx.xy, mid, absElem, c1, c2, Prod.mk.injEq]; constructor <;> linarith
      have x3 : (tv30 g e).xy = mid (absElem (nRoots g) e) .left := by
        simp only [QuadtreeGen.Vtx.xy, mid, absElem, d1, d2, Prod.mk.injEq]; constructor <;> linarith
      rw [Side.all, filter_four, ← r0, ← r1, ← r2, ← r3, ← x0, ← x1, ← x2, ← x3]
      cases dictHas g.bisect_edge (e.v1, e.v0) <;> cases dictHas g.bisect_edge (e.v2, e.v1) <;>
        cases dictHas g.bisect_edge (e.v3, e.v2) <;> cases dictHas g.bisect_edge (e.v0, e.v3) <;> simp
    have hm' := hm _ rfl
    simp only [absMesh] at hm'
    rw [hm']
    simp only [tailState, tailB_vertices hs, List.map_append, List.map_cons, List.map_nil, List.append_assoc,
      List.append_cancel_left_eq]
    simp only [tvi, QuadtreeGen.Vtx.xy, absElem, List.cons.injEq, Prod.mk.injEq, and_true]
    constructor <;> linarith

end Stbem.QuadtreeTie
