import Stbem.Gen.FormulasR
import Mathlib.Tactic.Ring
import Mathlib.Tactic.FieldSimp
import Mathlib.Tactic.Linarith
import Mathlib.Tactic.SplitIfs

/-!
# Closed-form kernels: structure, causality, additivity, shift (part A)

All statements hold for every `S : Fns` (no law on the special functions is used).
The proofs only unfold the generated definitions, eliminate the `let`s by `dsimp only`, split the
guards and close by `ring` / `linarith`; they do not depend on names of `let`-bound variables.
-/
namespace Stbem.Formulas.R

/-- the building block of the four-term formula -/
noncomputable def Fp (S : Fns) (z r : ℝ) : ℝ :=
  S.fpiInv * (z * S.exp (-(r/4) / z) + (r/4 + z) * S.ei (-(r/4) / z))

/-- `Fp` with the causality guard: `0` for `z ≤ 0` -/
noncomputable def Fg (S : Fns) (z r : ℝ) : ℝ := if z > 0 then Fp S z r else 0

/-! ### `sl_dtk` -/

theorem dtk_structure' (S : Fns) (a b c d r : ℝ) : sl_dtk S a b c d r =
    (if b > d then Fp S (b-d) r else 0) - (if b > c then Fp S (b-c) r else 0)
      + (if a > c then Fp S (a-c) r else 0) - (if a > d then Fp S (a-d) r else 0) := by
  unfold sl_dtk Fp
  dsimp only
  split_ifs <;> ring

theorem dtk_eq_Fg (S : Fns) (a b c d r : ℝ) : sl_dtk S a b c d r =
    Fg S (b-d) r - Fg S (b-c) r + Fg S (a-c) r - Fg S (a-d) r := by
  rw [dtk_structure']
  simp only [Fg, gt_iff_lt, sub_pos]

/-- additivity in the test interval; no ordering hypothesis is needed -/
theorem dtk_add_test (S : Fns) (a m b c d r : ℝ) :
    sl_dtk S a b c d r = sl_dtk S a m c d r + sl_dtk S m b c d r := by
  simp only [dtk_eq_Fg]; ring

/-- additivity in the trial interval; no ordering hypothesis is needed -/
theorem dtk_add_trial (S : Fns) (a b c m d r : ℝ) :
    sl_dtk S a b c d r = sl_dtk S a b c m r + sl_dtk S a b m d r := by
  simp only [dtk_eq_Fg]; ring

theorem dtk_shift' (S : Fns) (a b c d r δ : ℝ) :
    sl_dtk S (a+δ) (b+δ) (c+δ) (d+δ) r = sl_dtk S a b c d r := by
  simp only [dtk_eq_Fg, add_sub_add_right_eq_sub]

theorem dtk_acausal_zero' (S : Fns) (a b c d r : ℝ) (hab : a < b) (hcd : c < d) (h : b ≤ c) :
    sl_dtk S a b c d r = 0 := by
  rw [dtk_structure']
  rw [if_neg (by linarith), if_neg (by linarith), if_neg (by linarith), if_neg (by linarith)]
  ring

/-- degenerate intervals give `0` -/
theorem dtk_self_test (S : Fns) (a c d r : ℝ) : sl_dtk S a a c d r = 0 := by
  simp only [dtk_eq_Fg]; ring

theorem dtk_self_trial (S : Fns) (a b c r : ℝ) : sl_dtk S a b c c r = 0 := by
  simp only [dtk_eq_Fg]; ring

/-- swapping the end points of the test interval flips the sign -/
theorem dtk_swap_test (S : Fns) (a b c d r : ℝ) : sl_dtk S b a c d r = - sl_dtk S a b c d r := by
  simp only [dtk_eq_Fg]; ring

/-! ### `sl_g`, `sl_f`, `sl_tik` -/

theorem g_zero' (S : Fns) (a b r : ℝ) (h : a ≤ b) : sl_g S a b r = 0 := by
  unfold sl_g; rw [if_pos h]

theorem g_pos (S : Fns) (a b r : ℝ) (h : b < a) :
    sl_g S a b r = S.fpiInv * S.ei (-r / (4 * (a - b))) := by
  unfold sl_g; rw [if_neg (not_le.mpr h)]

theorem g_shift (S : Fns) (a b r δ : ℝ) : sl_g S (a+δ) (b+δ) r = sl_g S a b r := by
  unfold sl_g
  simp only [add_sub_add_right_eq_sub, add_le_add_iff_right]

theorem f_zero' (S : Fns) (a b r : ℝ) (h : a ≤ b) : sl_f S a b r = 0 := by
  unfold sl_f; rw [if_pos h]

/-- `sl_f` is the guarded building block `Fp` of the four-term formula -/
theorem f_eq_Fg (S : Fns) (a b r : ℝ) : sl_f S a b r = Fg S (a-b) r := by
  unfold sl_f Fg Fp
  dsimp only
  by_cases h : a ≤ b
  · rw [if_pos h, if_neg (by simpa using h)]
  · have hz : a - b ≠ 0 := by
      intro h0; exact h (by linarith)
    rw [if_neg h, if_pos (by simpa using h)]
    have e : r / (4 * (a - b)) = r / 4 / (a - b) := by rw [div_div]
    rw [e, neg_div]
    have e2 : (a - b) * (1 + r / 4 / (a - b)) = r / 4 + (a - b) := by
      field_simp
      ring
    rw [e2]

/-- the four-term formula in terms of `sl_f` -/
theorem dtk_eq_f (S : Fns) (a b c d r : ℝ) :
    sl_dtk S a b c d r = sl_f S b d r - sl_f S b c r + sl_f S a c r - sl_f S a d r := by
  simp only [dtk_eq_Fg, f_eq_Fg]

theorem f_shift (S : Fns) (a b r δ : ℝ) : sl_f S (a+δ) (b+δ) r = sl_f S a b r := by
  simp only [f_eq_Fg, add_sub_add_right_eq_sub]

theorem tik_eq' (S : Fns) (t a b r : ℝ) : sl_tik S t a b r = sl_g S t b r - sl_g S t a r := by
  unfold sl_tik; rfl

theorem tik_zero' (S : Fns) (t a b r : ℝ) (hab : a < b) (h : t ≤ a) : sl_tik S t a b r = 0 := by
  rw [tik_eq', g_zero' S t b r (by linarith), g_zero' S t a r h]; ring

theorem tik_add (S : Fns) (t a m b r : ℝ) :
    sl_tik S t a b r = sl_tik S t a m r + sl_tik S t m b r := by
  simp only [tik_eq']; ring

theorem tik_shift (S : Fns) (t a b r δ : ℝ) :
    sl_tik S (t+δ) (a+δ) (b+δ) r = sl_tik S t a b r := by
  simp only [tik_eq', g_shift]

/-! ### `fint_k`: zero for `a ≤ b`, dependence on `a - b` only -/

theorem fint_1_zero' (S : Fns) (a b h : ℝ) (hab : a ≤ b) : fint_1 S a b h = 0 := by
  unfold fint_1; rw [if_pos hab]
theorem fint_2_zero' (S : Fns) (a b h k : ℝ) (hab : a ≤ b) : fint_2 S a b h k = 0 := by
  unfold fint_2; rw [if_pos hab]
theorem fint_3_zero' (S : Fns) (a b h k : ℝ) (hab : a ≤ b) : fint_3 S a b h k = 0 := by
  unfold fint_3; rw [if_pos hab]
theorem fint_4_zero' (S : Fns) (a b h k l : ℝ) (hab : a ≤ b) : fint_4 S a b h k l = 0 := by
  unfold fint_4; rw [if_pos hab]

theorem fint_1_diff (S : Fns) (a b h : ℝ) : fint_1 S a b h = fint_1 S (a-b) 0 h := by
  unfold fint_1; simp only [sub_zero, sub_nonpos]
theorem fint_2_diff (S : Fns) (a b h k : ℝ) : fint_2 S a b h k = fint_2 S (a-b) 0 h k := by
  unfold fint_2; simp only [sub_zero, sub_nonpos]
theorem fint_3_diff (S : Fns) (a b h k : ℝ) : fint_3 S a b h k = fint_3 S (a-b) 0 h k := by
  unfold fint_3; simp only [sub_zero, sub_nonpos]
theorem fint_4_diff (S : Fns) (a b h k l : ℝ) : fint_4 S a b h k l = fint_4 S (a-b) 0 h k l := by
  unfold fint_4; simp only [sub_zero, sub_nonpos]

theorem fint_1_shift' (S : Fns) (a b a' b' h : ℝ) (e : a - b = a' - b') :
    fint_1 S a b h = fint_1 S a' b' h := by
  rw [fint_1_diff S a b, fint_1_diff S a' b', e]
theorem fint_2_shift' (S : Fns) (a b a' b' h k : ℝ) (e : a - b = a' - b') :
    fint_2 S a b h k = fint_2 S a' b' h k := by
  rw [fint_2_diff S a b, fint_2_diff S a' b', e]
theorem fint_3_shift' (S : Fns) (a b a' b' h k : ℝ) (e : a - b = a' - b') :
    fint_3 S a b h k = fint_3 S a' b' h k := by
  rw [fint_3_diff S a b, fint_3_diff S a' b', e]
theorem fint_4_shift' (S : Fns) (a b a' b' h k l : ℝ) (e : a - b = a' - b') :
    fint_4 S a b h k l = fint_4 S a' b' h k l := by
  rw [fint_4_diff S a b, fint_4_diff S a' b', e]

/-! ### `stik_k` -/

theorem stik_1_structure' (S : Fns) (a b c d h : ℝ) : stik_1 S a b c d h =
    fint_1 S b d h - fint_1 S b c h + fint_1 S a c h - fint_1 S a d h := by
  unfold stik_1; rfl
theorem stik_2_structure' (S : Fns) (a b c d h k : ℝ) : stik_2 S a b c d h k =
    fint_2 S b d h k - fint_2 S b c h k + fint_2 S a c h k - fint_2 S a d h k := by
  unfold stik_2; rfl
theorem stik_3_structure' (S : Fns) (a b c d h k : ℝ) : stik_3 S a b c d h k =
    fint_3 S b d h k - fint_3 S b c h k + fint_3 S a c h k - fint_3 S a d h k := by
  unfold stik_3; rfl
theorem stik_4_structure' (S : Fns) (a b c d h k l : ℝ) : stik_4 S a b c d h k l =
    fint_4 S b d h k l - fint_4 S b c h k l + fint_4 S a c h k l - fint_4 S a d h k l := by
  unfold stik_4; rfl

theorem stik_1_acausal' (S : Fns) (a b c d h : ℝ) (hab : a < b) (hcd : c < d) (hbc : b ≤ c) :
    stik_1 S a b c d h = 0 := by
  rw [stik_1_structure', fint_1_zero' S b d h (by linarith), fint_1_zero' S b c h hbc,
    fint_1_zero' S a c h (by linarith), fint_1_zero' S a d h (by linarith)]; ring
theorem stik_2_acausal' (S : Fns) (a b c d h k : ℝ) (hab : a < b) (hcd : c < d) (hbc : b ≤ c) :
    stik_2 S a b c d h k = 0 := by
  rw [stik_2_structure', fint_2_zero' S b d h k (by linarith), fint_2_zero' S b c h k hbc,
    fint_2_zero' S a c h k (by linarith), fint_2_zero' S a d h k (by linarith)]; ring
theorem stik_3_acausal' (S : Fns) (a b c d h k : ℝ) (hab : a < b) (hcd : c < d) (hbc : b ≤ c) :
    stik_3 S a b c d h k = 0 := by
  rw [stik_3_structure', fint_3_zero' S b d h k (by linarith), fint_3_zero' S b c h k hbc,
    fint_3_zero' S a c h k (by linarith), fint_3_zero' S a d h k (by linarith)]; ring
theorem stik_4_acausal' (S : Fns) (a b c d h k l : ℝ) (hab : a < b) (hcd : c < d) (hbc : b ≤ c) :
    stik_4 S a b c d h k l = 0 := by
  rw [stik_4_structure', fint_4_zero' S b d h k l (by linarith), fint_4_zero' S b c h k l hbc,
    fint_4_zero' S a c h k l (by linarith), fint_4_zero' S a d h k l (by linarith)]; ring

/-- additivity in the test interval; no ordering hypothesis is needed -/
theorem stik_1_add_test (S : Fns) (a m b c d h : ℝ) :
    stik_1 S a b c d h = stik_1 S a m c d h + stik_1 S m b c d h := by
  simp only [stik_1_structure']; ring
theorem stik_2_add_test (S : Fns) (a m b c d h k : ℝ) :
    stik_2 S a b c d h k = stik_2 S a m c d h k + stik_2 S m b c d h k := by
  simp only [stik_2_structure']; ring
theorem stik_3_add_test (S : Fns) (a m b c d h k : ℝ) :
    stik_3 S a b c d h k = stik_3 S a m c d h k + stik_3 S m b c d h k := by
  simp only [stik_3_structure']; ring
theorem stik_4_add_test (S : Fns) (a m b c d h k l : ℝ) :
    stik_4 S a b c d h k l = stik_4 S a m c d h k l + stik_4 S m b c d h k l := by
  simp only [stik_4_structure']; ring

theorem stik_1_add_trial (S : Fns) (a b c m d h : ℝ) :
    stik_1 S a b c d h = stik_1 S a b c m h + stik_1 S a b m d h := by
  simp only [stik_1_structure']; ring
theorem stik_2_add_trial (S : Fns) (a b c m d h k : ℝ) :
    stik_2 S a b c d h k = stik_2 S a b c m h k + stik_2 S a b m d h k := by
  simp only [stik_2_structure']; ring
theorem stik_3_add_trial (S : Fns) (a b c m d h k : ℝ) :
    stik_3 S a b c d h k = stik_3 S a b c m h k + stik_3 S a b m d h k := by
  simp only [stik_3_structure']; ring
theorem stik_4_add_trial (S : Fns) (a b c m d h k l : ℝ) :
    stik_4 S a b c d h k l = stik_4 S a b c m h k l + stik_4 S a b m d h k l := by
  simp only [stik_4_structure']; ring

theorem stik_1_shift' (S : Fns) (a b c d h δ : ℝ) :
    stik_1 S (a+δ) (b+δ) (c+δ) (d+δ) h = stik_1 S a b c d h := by
  simp only [stik_1_structure']
  rw [fint_1_shift' S (b+δ) (d+δ) b d h (by ring), fint_1_shift' S (b+δ) (c+δ) b c h (by ring),
    fint_1_shift' S (a+δ) (c+δ) a c h (by ring), fint_1_shift' S (a+δ) (d+δ) a d h (by ring)]
theorem stik_2_shift' (S : Fns) (a b c d h k δ : ℝ) :
    stik_2 S (a+δ) (b+δ) (c+δ) (d+δ) h k = stik_2 S a b c d h k := by
  simp only [stik_2_structure']
  rw [fint_2_shift' S (b+δ) (d+δ) b d h k (by ring), fint_2_shift' S (b+δ) (c+δ) b c h k (by ring),
    fint_2_shift' S (a+δ) (c+δ) a c h k (by ring), fint_2_shift' S (a+δ) (d+δ) a d h k (by ring)]
theorem stik_3_shift' (S : Fns) (a b c d h k δ : ℝ) :
    stik_3 S (a+δ) (b+δ) (c+δ) (d+δ) h k = stik_3 S a b c d h k := by
  simp only [stik_3_structure']
  rw [fint_3_shift' S (b+δ) (d+δ) b d h k (by ring), fint_3_shift' S (b+δ) (c+δ) b c h k (by ring),
    fint_3_shift' S (a+δ) (c+δ) a c h k (by ring), fint_3_shift' S (a+δ) (d+δ) a d h k (by ring)]
theorem stik_4_shift' (S : Fns) (a b c d h k l δ : ℝ) :
    stik_4 S (a+δ) (b+δ) (c+δ) (d+δ) h k l = stik_4 S a b c d h k l := by
  simp only [stik_4_structure']
  rw [fint_4_shift' S (b+δ) (d+δ) b d h k l (by ring),
    fint_4_shift' S (b+δ) (c+δ) b c h k l (by ring),
    fint_4_shift' S (a+δ) (c+δ) a c h k l (by ring),
    fint_4_shift' S (a+δ) (d+δ) a d h k l (by ring)]

/-! ### `steval_k`, `ip_tik` -/

theorem steval_1_zero' (S : Fns) (t a b h : ℝ) (hta : t ≤ a) : steval_1 S t a b h = 0 := by
  unfold steval_1; rw [if_pos hta]

theorem steval_2_structure (S : Fns) (t a b h k : ℝ) : steval_2 S t a b h k =
    (if t > a then - gint_2 S (t-a) h k else 0) + (if t > b then gint_2 S (t-b) h k else 0) := by
  unfold steval_2
  dsimp only
  split_ifs <;> ring

theorem steval_2_zero' (S : Fns) (t a b h k : ℝ) (hab : a < b) (hta : t ≤ a) :
    steval_2 S t a b h k = 0 := by
  rw [steval_2_structure, if_neg (by linarith), if_neg (by linarith)]; ring

theorem steval_1_structure (S : Fns) (t a b h : ℝ) : steval_1 S t a b h =
    (if t ≤ a then 0 else - gint_1 S (t-a) h + (if t > b then gint_1 S (t-b) h else 0)) := by
  unfold steval_1 gint_1
  dsimp only
  split_ifs <;> ring

theorem ip_tik_zero' (S : Fns) (b xy : ℝ) :
    ip_tik S 0 b xy = 1/(4*S.pi) * S.e1 (xy/(4*b)) := by
  unfold ip_tik; rw [if_pos rfl]

theorem ip_tik_ne' (S : Fns) (a b xy : ℝ) (ha : a ≠ 0) :
    ip_tik S a b xy = 1/(4*S.pi) * (S.e1 (xy/(4*b)) - S.e1 (xy/(4*a))) := by
  unfold ip_tik; rw [if_neg ha]

end Stbem.Formulas.R
