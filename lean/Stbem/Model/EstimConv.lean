import Stbem.Model.Estim
import Stbem.Gen.EstimGen
/-
Bridge between the hand-written estimator model (`Stbem.Model.Estim`: rectangles, matrices the leaves returned) and the
definitions regenerated from the sources (`Stbem.Gen.EstimGen`: element records with vertices, leaves as functions of the
element lists).  Used by the driver (`Driver/EstimGenCmd.lean`) and by `Props/EstimTie.lean`.  No Mathlib import.
-/
namespace Stbem.EstimConv
open Stbem.Estim Stbem.Gen.EstimGen

/-- the corners of a rectangle in the order of `Element.__init__` of src/mesh.py: `(t0,x0), (t0,x1), (t1,x1), (t1,x0)` -/
def cornersOf (r : Rect) : List (Rat × Rat) := [(r.t0, r.x0), (r.t0, r.x1), (r.t1, r.x1), (r.t1, r.x0)]

/-- an element handed in by the caller: vertices by the convention of `Element.__init__`, vertex indices `idx` -/
def elemOf {Γ : Type} (oid : Nat) (γ : Γ) (idx : Int) (r : Rect) : DummyElement Γ :=
  { oid := oid, vertices := (cornersOf r).map fun p => ⟨p.1, p.2, idx⟩, gamma_space := γ,
    time_interval := (r.t0, r.t1), space_interval := (r.x0, r.x1),
    h_t := pyFloat (pyAbs (r.t1 - r.t0)), h_x := pyFloat (pyAbs (r.x1 - r.x0)) }

/-- the rectangle `time_interval × space_interval` of an element -/
def rectOf {Γ : Type} (e : DummyElement Γ) : Rect :=
  ⟨e.time_interval.1, e.time_interval.2, e.space_interval.1, e.space_interval.2⟩

/-- the coordinates of the vertices of an element -/
def coordsOf {Γ : Type} (e : DummyElement Γ) : List (Rat × Rat) := e.vertices.map fun v => (v.t, v.x)

/-- the elements for a list of rectangles, identities `base, base + 1, …` -/
def elemsOf {Γ : Type} (base : Nat) (γ : Γ) (rs : List Rect) : List (DummyElement Γ) :=
  (enumerate rs).map fun x => elemOf (base + x.1) γ 0 x.2

/-- `np.linalg.solve` = the self-checking exact solver of the hand model, `np.sqrt` = `sq` -/
def npExt {ρ : Type} (sq : Rat → ρ) : NumPyExt ρ :=
  { linalg_solve := fun A b => match solve A b with
      | some y => .ok y
      | none => .error "singular"
    sqrt := sq }

/-- rows of an `(n, 2)` array as the hand model returns them -/
def rowsToLists (l : List (List Rat)) : List (List Rat) := l

end Stbem.EstimConv
