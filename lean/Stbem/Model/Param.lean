/-
Model of the polygonal curves of `src/parametrization.py` over exact rationals
(`line`, `PiecewisePolygon.__init__`, `PiecewiseParametrization.__init__/eval`).

Scope: AXIS-PARALLEL polygons (every side horizontal or vertical), because only there the side
length `np.linalg.norm(b - a)` is rational (`|Δx|` resp. `|Δy|`); all shipped polygons (unit square,
π-square up to the factor π, L-shape, unit interval) are of this kind.  A side that is not
axis-parallel is reported as `.error "not-axis-parallel"` (outside the model, not an assertion).

* `line a b xs`     — `line(a, b, x_start)`: the piece `x ↦ (x − xs)·(b − a)/‖b − a‖ + a` and `‖b − a‖`;
* `polygon vs closed` — `PiecewisePolygon.__init__` followed by the parent constructor: the closing
  test `vertices[0] == vertices[-1]`, the bit-exact end-point tests of every piece, `pw_start`,
  `gamma_length > 0`, the closing test `eval(0) ≈ eval(L)`.
  In ℚ the end-point tests can only fail for a side of length 0 (NumPy: `0/0 = nan`, which fails the
  test as well); for axis-parallel sides with a unit direction they are always true
  (`Stbem.Param.polygon_accepts`).  In binary64 they are true whenever the coordinates and the running
  arc length are small integers (the correspondence run uses such polygons); the constructor's
  additional finite-difference sampling of `‖γ'‖ = 1` (50 points, `np.allclose`) is NOT modelled: it is
  implied by `unit_speed` except when a sample point falls within `1e-5` of a corner.
* `evalCurve c x`   — `PiecewiseParametrization.eval`: range assertion, the single-piece shortcut,
  otherwise `np.select`: the FIRST piece `i` with `pw[i] ≤ x ≤ pw[i+1]` (at a break point the piece
  that ends there), `0` if none matches.

No Mathlib import: linked into the driver executable.
-/
import Stbem.Model.Mesh
import Stbem.Model.SingleLayer

namespace Stbem.Param
open Stbem.SL (Piece absR)
open Stbem.Mesh (pairs)

abbrev Pt := Rat × Rat

/-- `np.linalg.norm(b - a)` for an axis-parallel segment -/
def axisNorm (a b : Pt) : Option Rat :=
  if a.2 = b.2 then some (absR (b.1 - a.1))
  else if a.1 = b.1 then some (absR (b.2 - a.2))
  else none

/-- the piece built by `line(a, b, x_start = xs)` when `‖b − a‖ = n` -/
def mkPiece (a b : Pt) (n xs : Rat) : Piece := ⟨xs, a.1, a.2, (b.1 - a.1) / n, (b.2 - a.2) / n⟩

/-- `line(a, b, x_start)`: `(fun, norm)` -/
def line (a b : Pt) (xs : Rat) : Option (Piece × Rat) :=
  (axisNorm a b).map fun n => (mkPiece a b n xs, n)

/-- the loop of `PiecewisePolygon.__init__` started at arc length `s`: the pieces and the break
points after `s` -/
def polyGo : Rat → List Pt → Except String (List Piece × List Rat)
  | s, a :: b :: l =>
    match axisNorm a b with
    | none => .error "not-axis-parallel"
    | some n =>
      -- a side of length 0 gives `direct = 0/0 = nan`, which fails the first end-point test
      if n = 0 then .error "assert:endpoint"
      else
        let g := mkPiece a b n s
        if g.at s ≠ a then .error "assert:endpoint"
        else if g.at (s + n) ≠ b then .error "assert:endpoint"
        else match polyGo (s + n) (b :: l) with
          | .error e => .error e
          | .ok (gs, pw) => .ok (g :: gs, (s + n) :: pw)
  | _, _ => .ok ([], [])

structure Curve where
  /-- `pw_start` -/
  pw : List Rat
  /-- `pw_gamma` -/
  pieces : List Piece
  closed : Bool
deriving Repr

/-- `gamma_length = pw_start[-1]` -/
def Curve.length (c : Curve) : Rat := c.pw.getLastD 0

/-- `np.select(condlist, choices)`: the first piece whose closed parameter range contains `x` -/
def select : List Rat → List Piece → Rat → Option Pt
  | lo :: hi :: pw, g :: gs, x => if lo ≤ x ∧ x ≤ hi then some (g.at x) else select (hi :: pw) gs x
  | _, _, _ => none

/-- `PiecewiseParametrization.eval` at a single parameter -/
def evalCurve (c : Curve) (x : Rat) : Except String Pt :=
  if !(decide (0 ≤ x) && decide (x ≤ c.length)) then .error "assert:range"
  else match c.pieces with
    | [g] => .ok (g.at x)
    | gs => .ok ((select c.pw gs x).getD (0, 0))

/-- evaluation of piece `i` alone (`pw_gamma[i](x)`, what a mesh element carries as `gamma_space`) -/
def evalPiece (c : Curve) (i : Nat) (x : Rat) : Option Pt := (c.pieces[i]?).map (·.at x)

/-- `PiecewiseParametrization.__init__` (without the finite-difference sampling, see above) -/
def checkCurve (c : Curve) : Except String Curve :=
  if c.pw.head? ≠ some 0 ∨ ¬ (0 < c.length) then .error "assert:length"
  else if c.closed then
    match evalCurve c 0, evalCurve c c.length with
    | .ok p, .ok q => if p = q then .ok c else .error "assert:closed"
    | _, _ => .error "assert:range"
  else .ok c

/-- `PiecewisePolygon(vertices, closed)` -/
def polygon (vs : List Pt) (closed : Bool) : Except String Curve :=
  if closed && decide (vs.head? ≠ vs.getLast?) then .error "assert:closed-vertices"
  else match polyGo 0 vs with
    | .error e => .error e
    | .ok (gs, pw) => checkCurve ⟨0 :: pw, gs, closed⟩

/-! ### the shipped polygons (`PiSquare` is `UnitSquare` scaled by π; `Circle` is not polygonal) -/

def unitSquare : Except String Curve := polygon [(0, 0), (1, 0), (1, 1), (0, 1), (0, 0)] true
def lShape : Except String Curve :=
  polygon [(0, 0), (0, -1), (1, -1), (1, 1), (-1, 1), (-1, 0), (0, 0)] true
def unitInterval : Except String Curve := polygon [(0, 0), (1, 0)] false

end Stbem.Param
