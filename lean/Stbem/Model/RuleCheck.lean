/-
Computable certificates for the tabulated quadrature rules (`src/quadrature_rules.py`).

Numbers are exact rationals.  Irrational quantities (`log x`, `log (1-x)`, `√x`, `1/√x`) enter as a
rational approximation together with a rational error radius; `Stbem.Lemmas.RuleSound` proves the
radii correct over `ℝ`.  A check is a `Bool` that the kernel evaluates (`decide +kernel`).

No Mathlib import.
-/
namespace Stbem.Rules

def absQ (x : Rat) : Rat := if x < 0 then -x else x

/-- decimal literal `num · 10^(-exp)` exactly as written in the source -/
structure Dec where
  num : Int
  exp : Nat
deriving Repr, DecidableEq

def Dec.toRat (d : Dec) : Rat := (d.num : Rat) / ((10 ^ d.exp : Nat) : Rat)

/-- binary64 value `man · 2^(-exp)` (exp may be negative: `man · 2^|exp|`) -/
structure Dbl where
  man : Int
  exp : Int
deriving Repr, DecidableEq

def Dbl.toRat (d : Dbl) : Rat :=
  if d.exp ≥ 0 then (d.man : Rat) / ((2 ^ d.exp.toNat : Nat) : Rat) else (d.man : Rat) * ((2 ^ (-d.exp).toNat : Nat) : Rat)

/-- `d` is a binary64 number with a 53-bit significand that lies within half a unit in the last
place of the decimal literal `l` (so it is a correctly rounded value of the literal) -/
def roundsTo (l : Dec) (d : Dbl) : Bool :=
  let m := d.man.natAbs
  (d.man == 0 && l.num == 0) ||
  (decide (2 ^ 52 ≤ m) && decide (m < 2 ^ 53) &&
    decide (absQ (d.toRat - l.toRat) * 2 ≤ (⟨1, d.exp⟩ : Dbl).toRat))

def sumQ (l : List Rat) : Rat := l.foldr (· + ·) 0

/-- `Σ wᵢ xᵢᵏ g(xᵢ)` -/
def wsum (xs ws : List Rat) (k : Nat) (g : Rat → Rat) : Rat :=
  sumQ ((xs.zip ws).map fun p => p.2 * p.1 ^ k * g p.1)

def moment (xs ws : List Rat) (k : Nat) : Rat := wsum xs ws k fun _ => 1

/-! ### rational approximations with error radii -/

/-- `Σ_{i<n} y^(2i+1)/(2i+1)` -/
def atanhSum (y : Rat) : Nat → Rat
  | 0 => 0
  | n + 1 => atanhSum y n + y ^ (2 * n + 1) / (2 * n + 1)

/-- `½ log q ≈ atanhSum ((q-1)/(q+1)) n`, radius `|y|^(2n+1)/(1-y²)` -/
def halfLogApprox (q : Rat) (n : Nat) : Rat := atanhSum ((q - 1) / (q + 1)) n
def halfLogErr (q : Rat) (n : Nat) : Rat :=
  let y := (q - 1) / (q + 1)
  absQ y ^ (2 * n + 1) / (1 - y ^ 2)

/-- number of doublings that bring `q ∈ (0,1]` into `[2/3, 4/3)` (fuel-bounded) -/
def shiftOf (q : Rat) : Nat → Nat
  | 0 => 0
  | f + 1 => if 3 * q ≥ 2 then 0 else 1 + shiftOf (2 * q) f

/-- `log q ≈ 2·halfLog(q·2^s) − s·2·halfLog 2` with `s = shiftOf q` -/
def logApprox (q : Rat) (n : Nat) : Rat :=
  let s := shiftOf q 200
  2 * halfLogApprox (q * 2 ^ s) n - s * (2 * halfLogApprox 2 n)
def logErr (q : Rat) (n : Nat) : Rat :=
  let s := shiftOf q 200
  2 * halfLogErr (q * 2 ^ s) n + s * (2 * halfLogErr 2 n)

/-- `√q ≈ sqrtApprox q d` (integer square root of the numerator scaled by `10^(2d)`),
radius `|q − s²| / s` -/
def sqrtApprox (q : Rat) (d : Nat) : Rat :=
  (Nat.sqrt (q.num.natAbs * 10 ^ (2 * d) * q.den) : Rat) / ((10 ^ d * q.den : Nat) : Rat)
def sqrtErr (q : Rat) (d : Nat) : Rat :=
  let s := sqrtApprox q d
  if s ≤ 0 then 1 else absQ (q - s ^ 2) / s

/-! ### checks -/

/-- `|Σ wᵢ xᵢᵏ g(xᵢ) − target| ≤ tol`, with `g` given by approximation `A` and radius `E` -/
def approxCheck (xs ws : List Rat) (k : Nat) (A E : Rat → Rat) (target tol : Rat) : Bool :=
  decide (absQ (wsum xs ws k A - target) + wsum xs (ws.map absQ) k E ≤ tol)

def allUpTo (n : Int) (p : Nat → Bool) : Bool :=
  if n < 0 then true else (List.range (n.toNat + 1)).all p

def harmonic : Nat → Rat
  | 0 => 0
  | n + 1 => harmonic n + 1 / (n + 1)

/-- structural facts: same length, non-empty, nodes strictly inside (0,1), weights of one sign -/
def shapeOK (xs ws : List Rat) : Bool :=
  decide (xs.length = ws.length) && !xs.isEmpty && xs.all (fun x => decide (0 < x) && decide (x < 1)) &&
    (ws.all (fun w => decide (0 < w)) || ws.all (fun w => decide (w < 0)))

/-- relative tolerance: `tol·max(1,|target|)` is not needed, all targets have modulus ≤ 1; the
check uses `tol · |target|` when `rel` is set (double precision claim) and `tol` otherwise -/
def tolFor (rel : Bool) (tol target : Rat) : Rat := if rel then tol * absQ target else tol

/-- polynomial moments `Σ w xᵏ = 1/(k+1)`, `k ≤ a` -/
def polyOK (xs ws : List Rat) (a : Int) (rel : Bool) (tol : Rat) : Bool :=
  allUpTo a fun k => decide (absQ (moment xs ws k - 1 / (k + 1)) ≤ tolFor rel tol (1 / (k + 1)))

/-- `Σ w xᵏ log x = −1/(k+1)²`, `k ≤ b` -/
def logOK (xs ws : List Rat) (b : Int) (rel : Bool) (tol : Rat) (n : Nat) : Bool :=
  allUpTo b fun k => approxCheck xs ws k (logApprox · n) (logErr · n) (-1 / (k + 1) ^ 2)
    (tolFor rel tol (1 / (k + 1) ^ 2))

/-- `Σ w xᵏ log(1−x) = −H_{k+1}/(k+1)`, `k ≤ b` -/
def log1mOK (xs ws : List Rat) (b : Int) (rel : Bool) (tol : Rat) (n : Nat) : Bool :=
  allUpTo b fun k => approxCheck xs ws k (fun x => logApprox (1 - x) n) (fun x => logErr (1 - x) n)
    (-harmonic (k + 1) / (k + 1)) (tolFor rel tol (harmonic (k + 1) / (k + 1)))

/-- `Σ w xᵏ √x = 1/(k+3/2)`, `k ≤ b` -/
def sqrtOK (xs ws : List Rat) (b : Int) (rel : Bool) (tol : Rat) (d : Nat) : Bool :=
  allUpTo b fun k => approxCheck xs ws k (sqrtApprox · d) (sqrtErr · d) (1 / (k + 3 / 2))
    (tolFor rel tol (1 / (k + 3 / 2)))

/-- `Σ w xᵏ /√x = 1/(k+1/2)`, `k ≤ b`; `1/√x = √x / x` -/
def sqrtinvOK (xs ws : List Rat) (b : Int) (rel : Bool) (tol : Rat) (d : Nat) : Bool :=
  allUpTo b fun k => approxCheck xs ws k (fun x => sqrtApprox x d / x) (fun x => sqrtErr x d / x)
    (1 / (k + 1 / 2)) (tolFor rel tol (1 / (k + 1 / 2)))

/-- weighted Gauss families: `Σ w xᵏ = target k`, `k ≤ a` -/
def gaussOK (xs ws : List Rat) (a : Int) (target : Nat → Rat) (rel : Bool) (tol : Rat) : Bool :=
  allUpTo a fun k => decide (absQ (moment xs ws k - target k) ≤ tolFor rel tol (target k))


/-! ### table entries and per-family certificates -/

/-- one branch of an `if/elif` chain of `src/quadrature_rules.py` -/
structure Entry where
  k1 : Int
  k2 : Int
  /-- the branch ends in `return` -/
  returns : Bool
  nodes : List Dec
  weights : List Dec
  nodesD : List Dbl
  weightsD : List Dbl

def Entry.xs (e : Entry) : List Rat := e.nodes.map Dec.toRat
def Entry.ws (e : Entry) : List Rat := e.weights.map Dec.toRat
def Entry.xsD (e : Entry) : List Rat := e.nodesD.map Dbl.toRat
def Entry.wsD (e : Entry) : List Rat := e.weightsD.map Dbl.toRat

inductive Family | log | loglog | sqrt | sqrtinv | gaussSqrtinv | gaussX | gaussLog
deriving DecidableEq, Repr

/-- number of atanh terms / decimal digits of the square root used by the certificates -/
def logTerms : Nat := 40
def sqrtDigits : Nat := 40

/-- degree of exactness of an `n`-point Gauss rule -/
def gaussDeg (xs : List Rat) : Int := 2 * (xs.length : Int) - 1

/-- the advertised class of a family, checked on nodes `xs` and weights `ws` -/
def classOK (f : Family) (k1 k2 : Int) (xs ws : List Rat) (rel : Bool) (tol : Rat) : Bool :=
  shapeOK xs ws &&
  match f with
  | .log => polyOK xs ws k1 rel tol && logOK xs ws k2 rel tol logTerms
  | .loglog => polyOK xs ws k1 rel tol && logOK xs ws k2 rel tol logTerms && log1mOK xs ws k2 rel tol logTerms
  | .sqrt => polyOK xs ws k1 rel tol && sqrtOK xs ws k2 rel tol sqrtDigits
  | .sqrtinv => polyOK xs ws k1 rel tol && sqrtinvOK xs ws k2 rel tol sqrtDigits
  | .gaussSqrtinv => gaussOK xs ws (gaussDeg xs) (fun k => 2 / (2 * k + 1)) rel tol
  | .gaussX => gaussOK xs ws (gaussDeg xs) (fun k => 1 / (k + 2)) rel tol
  | .gaussLog => gaussOK xs ws (gaussDeg xs) (fun k => -1 / (k + 1) ^ 2) rel tol

/-- the key of a Gauss family entry promises at least the degree its scheme constructor relies on
(`N = (N_poly+1)//2`): `2N-1` for the `1/√x` and `x` weights, `2N` for the `-log x` weight -/
def keyOK (f : Family) (k1 : Int) (xs : List Rat) : Bool :=
  match f with
  | .gaussSqrtinv | .gaussX => decide (2 * k1 - 1 ≤ gaussDeg xs)
  | .gaussLog => decide (2 * k1 ≤ gaussDeg xs)
  | _ => true

/-- tolerance claimed for the literals as written: `1e-30` relative to the exact value, except for the
two low-precision tables `gauss_log_quadrature_rule(15)` and `(31)` (31 and 41 digits), which reach only
`1e-18` (recorded as a known finding of property C05) -/
def litTol (f : Family) (k1 : Int) : Rat :=
  if f = .gaussLog ∧ (k1 = 15 ∨ k1 = 31) then 1 / 10 ^ 18 else 1 / 10 ^ 30

def dblTol : Rat := 1 / 10 ^ 13

/-- certificate for the literals as written in the source -/
def litOK (f : Family) (e : Entry) : Bool :=
  keyOK f e.k1 e.xs && classOK f e.k1 e.k2 e.xs e.ws true (litTol f e.k1)

def allRound : List Dec → List Dbl → Bool
  | [], [] => true
  | l :: ls, d :: ds => roundsTo l d && allRound ls ds
  | _, _ => false

/-- certificate for the binary64 values: each is a correct rounding of its literal, and the rounded
rule has relative moment defects of at most `1e-13` -/
def dblOK (f : Family) (e : Entry) : Bool :=
  allRound e.nodes e.nodesD && allRound e.weights e.weightsD &&
    classOK f e.k1 e.k2 e.xsD e.wsD true dblTol

end Stbem.Rules
