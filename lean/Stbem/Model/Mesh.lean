/-
A-layer model of `src/mesh.py`: the space-time boundary mesh as an ordered list of leaf cells with
exact rational coordinates, refinement levels, element index and parent index.

* leaves are kept in the order of `Mesh.leaf_elements` (an `OrderedDict`: refined element popped,
  the two children appended);
* neighbours across a side are *defined geometrically* (positive-length overlap, seam identified
  when glued) and returned in the order in which `Edge.neighbour_elements()` reports them;
* `refineAxis` follows `Mesh.refine_axis` step by step: for each of the four edges the neighbour
  list is taken once, every listed neighbour of lower level in the axis is refined recursively
  (a neighbour that has meanwhile been refined trips `assert not elem.children`), then the element
  is bisected;
* vertices are identified with their coordinates: a new vertex is appended unless one with the
  same coordinates exists (this is the observable content of the vertex reuse in
  `Mesh.__bisect_edge`; the identification is checked by the correspondence run).

No Mathlib import: linked into the driver executable.
-/

namespace Stbem.Mesh

/-- refinement axis: `time` = 0, `space` = 1 as in the Python code -/
inductive Ax | time | space
deriving DecidableEq, Repr

/-- sides of an element in the order of `Element.edges`:
`bottom` (t = t0), `right` (x = x1), `top` (t = t1), `left` (x = x0) -/
inductive Side | bottom | right | top | left
deriving DecidableEq, Repr

def Side.all : List Side := [.bottom, .right, .top, .left]

structure Cell where
  t0 : Rat
  t1 : Rat
  x0 : Rat
  x1 : Rat
  lt : Nat
  lx : Nat
  id : Nat
  par : Option Nat
  /-- index of the parametrisation piece (`MeshParametrized`), inherited by children -/
  piece : Nat
deriving DecidableEq, Repr

def Cell.level (c : Cell) : Ax → Nat
  | .time => c.lt
  | .space => c.lx

structure Mesh where
  glue : Bool
  xmin : Rat
  xmax : Rat
  tmin : Rat
  tmax : Rat
  leaves : List Cell
  nElems : Nat
  verts : List (Rat × Rat)
  /-- `(parent, child1, child2)` for every bisection so far, in creation order -/
  kids : List (Nat × Nat × Nat)
deriving Repr

/-! ### geometry -/

def overlapT (c n : Cell) : Bool := decide (max c.t0 n.t0 < min c.t1 n.t1)
def overlapX (c n : Cell) : Bool := decide (max c.x0 n.x0 < min c.x1 n.x1)

/-- `n` lies across side `s` of `c` and shares a piece of positive length of it -/
def adjacent (m : Mesh) (c : Cell) (s : Side) (n : Cell) : Bool :=
  match s with
  | .bottom => decide (n.t1 = c.t0) && overlapX c n
  | .top => decide (n.t0 = c.t1) && overlapX c n
  | .right => (decide (n.x0 = c.x1) || (m.glue && decide (c.x1 = m.xmax) && decide (n.x0 = m.xmin))) && overlapT c n
  | .left => (decide (n.x1 = c.x0) || (m.glue && decide (c.x0 = m.xmin) && decide (n.x1 = m.xmax))) && overlapT c n

/-- insertion of `a` in front of a list sorted by `lt`: `a` passes only elements strictly smaller than
itself, so that `sortBy` is stable (equal keys keep their order) -/
def insertBy {α} (lt : α → α → Bool) (a : α) : List α → List α
  | [] => [a]
  | b :: l => if lt b a then b :: insertBy lt a l else a :: b :: l

/-- stable insertion sort -/
def sortBy {α} (lt : α → α → Bool) (l : List α) : List α := l.foldr (insertBy lt) []

/-- the neighbours across side `s` in the order of `Edge.neighbour_elements()`:
opposite to the orientation of the own edge -/
def nbrs (m : Mesh) (c : Cell) (s : Side) : List Cell :=
  let ns := m.leaves.filter (adjacent m c s)
  match s with
  | .bottom => sortBy (fun a b => decide (a.x0 > b.x0)) ns   -- own edge runs x0 → x1: right one first
  | .right => sortBy (fun a b => decide (a.t0 > b.t0)) ns    -- own edge runs t0 → t1: upper one first
  | .top => sortBy (fun a b => decide (a.x0 < b.x0)) ns      -- own edge runs x1 → x0: left one first
  | .left => sortBy (fun a b => decide (a.t0 < b.t0)) ns     -- own edge runs t1 → t0: lower one first

def onBoundary (m : Mesh) (c : Cell) (s : Side) : Bool :=
  match s with
  | .bottom => decide (c.t0 = m.tmin)
  | .top => decide (c.t1 = m.tmax)
  | .right => decide (c.x1 = m.xmax)
  | .left => decide (c.x0 = m.xmin)

def findLeaf (m : Mesh) (id : Nat) : Option Cell := m.leaves.find? (·.id == id)

/-! ### initial mesh -/

def pairs {α} : List α → List (α × α)
  | a :: b :: l => (a, b) :: pairs (b :: l)
  | _ => []

/-- `Mesh.__init__`: vertices row by row, roots row by row, index = position -/
def init (glue : Bool) (X T : List Rat) : Mesh :=
  let cells := (pairs T).flatMap fun tp => (pairs X).map fun xp => (tp, xp)
  let rec number (i : Nat) : List ((Rat × Rat) × (Rat × Rat)) → List Cell
    | [] => []
    | (tp, xp) :: l => ⟨tp.1, tp.2, xp.1, xp.2, 0, 0, i, none, 0⟩ :: number (i + 1) l
  { glue := glue, xmin := X.headD 0, xmax := X.getLastD 0, tmin := T.headD 0, tmax := T.getLastD 0,
    leaves := number 0 cells, nElems := cells.length,
    verts := T.flatMap fun t => X.map fun x => (t, x), kids := [] }

/-! ### bisection -/

def addVert (vs : List (Rat × Rat)) (v : Rat × Rat) : List (Rat × Rat) :=
  if vs.contains v then vs else vs ++ [v]

/-- the two children, in the order `(child1, child2)` of `refine_axis` -/
def children (n : Nat) (c : Cell) : Ax → Cell × Cell
  | .time =>
    let tm := (c.t0 + c.t1) / 2
    ({ c with t1 := tm, lt := c.lt + 1, id := n, par := some c.id },
     { c with t0 := tm, lt := c.lt + 1, id := n + 1, par := some c.id })
  | .space =>
    let xm := (c.x0 + c.x1) / 2
    ({ c with x1 := xm, lx := c.lx + 1, id := n, par := some c.id },
     { c with x0 := xm, lx := c.lx + 1, id := n + 1, par := some c.id })

/-- the mid points of the two bisected edges in the order of `edges_axis(ax)` -/
def newVerts (c : Cell) : Ax → (Rat × Rat) × (Rat × Rat)
  | .time => (((c.t0 + c.t1) / 2, c.x1), ((c.t0 + c.t1) / 2, c.x0))
  | .space => ((c.t0, (c.x0 + c.x1) / 2), (c.t1, (c.x0 + c.x1) / 2))

/-- replace leaf `c` by its two children -/
def bisect (m : Mesh) (c : Cell) (ax : Ax) : Mesh :=
  let ch := children m.nElems c ax
  let vs := newVerts c ax
  { m with leaves := m.leaves.filter (fun l => l.id != c.id) ++ [ch.1, ch.2],
           nElems := m.nElems + 2,
           verts := addVert (addVert m.verts vs.1) vs.2,
           kids := m.kids ++ [(c.id, m.nElems, m.nElems + 1)] }

/-! ### `refine_axis` -/

/-- `Mesh.refine_axis(elem, ax)`; `fuel` bounds the recursion depth (the level of the element
in the axis, plus one, suffices: recursive calls go to strictly lower levels). -/
def refineAxis : Nat → Mesh → Nat → Ax → Except String Mesh
  | 0, _, _, _ => .error "fuel"
  | fuel + 1, m, id, ax =>
    match findLeaf m id with
    | none => .error "assert:not-leaf"
    | some c => do
      let m ← Side.all.foldlM (fun (m : Mesh) s =>
        (nbrs m c s).foldlM (fun (m : Mesh) n =>
          if n.level ax < c.level ax then refineAxis fuel m n.id ax else pure m) m) m
      match findLeaf m id with
      | none => .error "assert:not-leaf"
      | some c => pure (bisect m c ax)

/-- ids of the two children created by the last bisection -/
def lastChildren (m : Mesh) : Nat × Nat := (m.nElems - 2, m.nElems - 1)

def refineId (m : Mesh) (id : Nat) (ax : Ax) : Except String Mesh :=
  match findLeaf m id with
  | none => .error "assert:not-leaf"
  | some c => refineAxis (c.level ax + 1) m id ax

/-- `Mesh.refine(elem)`: time, then both time-children in space; returns the four grandchildren ids -/
def refineBoth (m : Mesh) (id : Nat) : Except String (Mesh × List Nat) := do
  let m ← refineId m id .time
  let (a, b) := lastChildren m
  let m ← refineId m a .space
  let (a1, a2) := lastChildren m
  let m ← refineId m b .space
  let (b1, b2) := lastChildren m
  pure (m, [a1, a2, b1, b2])

def refineAll (m : Mesh) (ids : List Nat) (ax : Ax) : Except String Mesh :=
  ids.foldlM (fun m id => refineId m id ax) m

/-- `Mesh.uniform_refine` -/
def uniformRefine (m : Mesh) : Except String Mesh := do
  let l1 := sortBy (fun a b : Cell => decide (a.lt < b.lt)) m.leaves
  let m ← refineAll m (l1.map (·.id)) .time
  let l2 := sortBy (fun a b : Cell => decide (a.lx < b.lx)) m.leaves
  refineAll m (l2.map (·.id)) .space

/-- `Mesh.uniform_refine_space` -/
def uniformRefineSpace (m : Mesh) : Except String Mesh :=
  refineAll m (m.leaves.map (·.id)) .space

/-! ### Dörfler marking -/

def sumQ (l : List Rat) : Rat := l.foldl (· + ·) 0

/-- the marking loop: take entries until the running sum reaches `bound`; at least one entry is
taken when the list is non-empty -/
def takeBulk {α} (bound : Rat) : Rat → List (Rat × α) → List (Rat × α)
  | _, [] => []
  | acc, (v, a) :: l => if acc + v ≥ bound then [(v, a)] else (v, a) :: takeBulk bound (acc + v) l

/-- refine in `ax` every listed element, in ascending level order (stable), asserting that each is
still a leaf when its turn comes (`assert not elem.children`); returns the created children in
creation order.  Only `id` and the levels of the listed cells are used. -/
def refinePhase (m : Mesh) (marked : List Cell) (ax : Ax) : Except String (Mesh × List Cell) :=
  (sortBy (fun a b : Cell => decide (a.level ax < b.level ax)) marked).foldlM
    (fun (st : Mesh × List Cell) c => do
      match findLeaf st.1 c.id with
      | none => .error "assert:marked-not-leaf"
      | some c =>
        let m ← refineId st.1 c.id ax
        let ch := children (m.nElems - 2) c ax
        pure (m, st.2 ++ [ch.1, ch.2])) (m, [])

/-- `dorfler_refine_isotropic(eta_sqr, theta)`; `perm` is the index list `s_idx` that NumPy's
`argsort` produced (reversed), an input here; the model checks that it is a descending ordering -/
def dorflerIso (m : Mesh) (eta : List Rat) (perm : List Nat) (theta : Rat) : Except String Mesh := do
  if eta.length ≠ m.leaves.length then .error "assert:len"
  let sorted := perm.filterMap fun i => (eta[i]?).bind fun v => (m.leaves[i]?).map fun c => (v, c)
  if sorted.length ≠ eta.length then .error "bad-perm"
  let marked := (takeBulk (sumQ eta * theta ^ 2) 0 sorted).map (·.2)
  let (m, kids) ← refinePhase m marked .time
  let (m, _) ← refinePhase m kids .space
  pure m

/-- stable descending sort by value, as `list.sort(reverse=True, key=...)` -/
def sortDesc {α} (l : List (Rat × α)) : List (Rat × α) := sortBy (fun a b => decide (a.1 > b.1)) l

/-- `dorfler_refine_anisotropic(eta_sqr, theta)`: `eta` lists the `(time, space)` indicators -/
def dorflerAniso (m : Mesh) (eta : List (Rat × Rat)) (theta : Rat) : Except String Mesh := do
  if eta.length ≠ m.leaves.length then .error "assert:len"
  let errs := ((eta.zip m.leaves).map fun p => (p.1.1, (p.2, Ax.time))) ++
              ((eta.zip m.leaves).map fun p => (p.1.2, (p.2, Ax.space)))
  let tot := sumQ (eta.map fun p => p.1 + p.2)
  let marked := (takeBulk (tot * theta ^ 2) 0 (sortDesc errs)).map (·.2)
  let mt := (marked.filter fun p => p.2 == Ax.time).map (·.1)
  let ms := (marked.filter fun p => p.2 == Ax.space).map (·.1)
  let (m1, _) ← refinePhase m mt .time
  -- replace space-marked elements that were refined by the time phase by their children
  let ms' := ms.flatMap fun c =>
    match m1.kids.find? (fun k => k.1 == c.id) with
    | none => [c]
    | some k => [(children k.2.1 c .time).1, (children k.2.1 c .time).2]
  let (m2, _) ← refinePhase m1 ms' .space
  pure m2

/-! ### grading -/

/-- `h_t / K ≥ h_x^σ` and `h_x^σ ≥ K h_t` for `σ = p/q`, decided without roots:
`a ≥ b^{p/q} ⇔ a^q ≥ b^p` for non-negative numbers -/
def markTime (c : Cell) (p q : Nat) (K : Rat) : Bool :=
  decide (((c.t1 - c.t0) / K) ^ q ≥ (c.x1 - c.x0) ^ p)
def markSpace (c : Cell) (p q : Nat) (K : Rat) : Bool :=
  decide ((c.x1 - c.x0) ^ p ≥ (K * (c.t1 - c.t0)) ^ q)

/-- one sweep of `refine_grading`; `fixed = true` models the repaired code (elements that are no
longer leaves are skipped in the space loop), `false` the code with `assert not elem.children` -/
def gradeSweep (fixed : Bool) (m : Mesh) (p q : Nat) (K : Rat) : Except String (Mesh × Bool) := do
  let mt := m.leaves.filter fun c => markTime c p q K
  let ms := m.leaves.filter fun c => !markTime c p q K && markSpace c p q K
  let m1 ← refineAll m ((sortBy (fun a b : Cell => decide (a.lt < b.lt)) mt).map (·.id)) .time
  let m2 ← (sortBy (fun a b : Cell => decide (a.lx < b.lx)) ms).foldlM (fun (m : Mesh) c =>
    match findLeaf m c.id with
    | none => if fixed then pure m else .error "assert:grading-not-leaf"
    | some _ => refineId m c.id .space) m1
  pure (m2, !mt.isEmpty || !ms.isEmpty)

/-- `refine_grading(sigma = p/q, K)` with an explicit bound on the number of sweeps -/
def grading (fixed : Bool) : Nat → Mesh → Nat → Nat → Rat → Except String Mesh
  | 0, _, _, _, _ => .error "fuel"
  | fuel + 1, m, p, q, K => do
    let (m', again) ← gradeSweep fixed m p q K
    if again then grading fixed fuel m' p q K else pure m'

/-! ### `MeshParametrized`: piece assignment and the three-elements guard -/

/-- index `i` with `pw[i] ≤ x < pw[i+1]` (first match), as in `MeshParametrized.__init__` -/
def pieceOf (pw : List Rat) (x : Rat) : Option Nat :=
  let rec go (i : Nat) : List Rat → Option Nat
    | a :: b :: l => if a ≤ x && x < b then some i else go (i + 1) (b :: l)
    | _ => none
  go 0 pw

/-- `MeshParametrized.__init__`; `perSlab = false` is the pinned code (guard counts all roots),
`true` the repaired guard (counts the elements of one time slab) -/
def initParam (perSlab : Bool) (closed : Bool) (pw X T : List Rat) : Except String Mesh := do
  if X.head? ≠ some 0 then .error "assert:x0"
  if X.getLast? ≠ pw.getLast? then .error "assert:xlast"
  let m := init closed X T
  let leaves ← m.leaves.mapM fun c =>
    match pieceOf pw c.x0 with
    | some i => pure { c with piece := i }
    | none => .error "assert:piece"
  let m := { m with leaves := leaves }
  let count := if perSlab then X.length - 1 else m.leaves.length
  if closed && count < 3 then do
    let m ← refineAll m (m.leaves.map (·.id)) .space
    refineAll m (m.leaves.map (·.id)) .space
  else pure m

/-! ### `Prolongate` -/

def parentOf (m : Mesh) (id : Nat) : Option Nat :=
  (m.kids.find? fun k => k.2.1 == id || k.2.2 == id).map (·.1)

/-- value at the nearest ancestor-or-self that belongs to the coarse list (`fuel` bounds the
length of the parent chain); `none` models the failing `assert elem_coarse.parent` -/
def prolongOne (m : Mesh) (coarse : List Nat) (vec : List Rat) : Nat → Nat → Option Rat
  | 0, _ => none
  | fuel + 1, id =>
    match coarse.idxOf? id with
    | some i => vec[i]?
    | none => match parentOf m id with
      | some p => prolongOne m coarse vec fuel p
      | none => none

/-- `Prolongate(vec_coarse, elems_coarse, elems_fine)` -/
def prolongate (m : Mesh) (coarse : List Nat) (vec : List Rat) (fine : List Nat) : Option (List Rat) :=
  fine.mapM (prolongOne m coarse vec (m.nElems + 1))

end Stbem.Mesh
