import Stbem.Model.Quad
import Stbem.Gen.QuadGen
/-
Bridge between the two representations of a quadrature scheme:

* the hand-written model `Stbem.Quad` keeps a rule as a list of NODES (`Rule1/2/3`),
* the definitions regenerated from `src/quadrature.py` (`Stbem.Gen.QuadGen`) keep what the Python objects keep:
  the `points` array (1-D, or the list of its 2 / 3 rows) and the `weights` array.

`ofRule*` lays a rule out as arrays (row `d` of `points` = coordinate `d` of every node, in node order).  It is
injective, and every scheme whose rows and weights have one common length is of this form (`toRule*`,
`Props/QuadTie.lean`).  The driver feeds the generated functions through `ofRule*`; the theorems of
`Props/QuadTie.lean` are stated through it.

No Mathlib import: this file is linked into the driver executable.
-/
namespace Stbem.QuadConv
open Stbem.Quad Stbem.Gen.QuadGen

def ofRule1 (r : Rule1) : QuadScheme1D := ⟨r.map (·.x), r.map (·.w)⟩
def ofRule2 (r : Rule2) : QuadScheme2D := ⟨[r.map (·.x), r.map (·.y)], r.map (·.w)⟩
def ofRule3 (r : Rule3) : QuadScheme3D := ⟨[r.map (·.x), r.map (·.y), r.map (·.z)], r.map (·.w)⟩

/-- node `i` = (`points[i]`, `weights[i]`) -/
def toRule1 (s : QuadScheme1D) : Rule1 := List.zipWith (fun x w => ⟨x, w⟩) s.points s.weights
/-- node `i` = (`points[0][i]`, `points[1][i]`, `weights[i]`) -/
def toRule2 (s : QuadScheme2D) : Rule2 :=
  List.zipWith (fun x yw => ⟨x, yw.1, yw.2⟩) (npRow s.points 0) (List.zip (npRow s.points 1) s.weights)
def toRule3 (s : QuadScheme3D) : Rule3 :=
  List.zipWith (fun x yzw => ⟨x, yzw.1, yzw.2.1, yzw.2.2⟩) (npRow s.points 0)
    (List.zip (npRow s.points 1) (List.zip (npRow s.points 2) s.weights))

/-- a well-formed 1-D scheme object: as many weights as points -/
def WF1 (s : QuadScheme1D) : Prop := s.points.length = s.weights.length
/-- a well-formed 2-D scheme object: `points` has exactly two rows, as long as `weights` -/
def WF2 (s : QuadScheme2D) : Prop :=
  ∃ x y, s.points = [x, y] ∧ x.length = s.weights.length ∧ y.length = s.weights.length
def WF3 (s : QuadScheme3D) : Prop :=
  ∃ x y z, s.points = [x, y, z] ∧ x.length = s.weights.length ∧ y.length = s.weights.length ∧
    z.length = s.weights.length

end Stbem.QuadConv
