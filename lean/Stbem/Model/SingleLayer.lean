/-
Model of the decision logic of `src/single_layer.py` over exact rationals:

* `panels`    — `SingleLayerOperator.__integrate`: the recursive splitting of the space rectangle
                `[a,b]×[c,d]` into identical / touching / seam-touching / disjoint panels, each with the
                rule the code uses for it, in evaluation order;
* `bilform`   — causality guard, closed-form path on one straight piece (`stik`, the case split of
                `spacetime_integrated_kernel`), ordering of the two space intervals and variable swap;
* `evaluate`  — the pointwise evaluation plan (in-element split at the singular point, choice of the
                graded rule by the seam-aware distance), `evaluateExact` — its closed-form variant.

The time kernels are the *generated* terms of `Stbem.Gen.FormulasQ` (translated from the Python
source on every run); special functions are parameters (`Fns`).  No Mathlib import.
-/
import Stbem.Model.Quad
import Stbem.Gen.FormulasQ

namespace Stbem.SL
open Stbem.Quad Stbem.Formulas.Q

inductive PKind | duffyId | duffyMx | duffyMy | logMx | logMy
deriving DecidableEq, Repr

structure Panel where
  kind : PKind
  a : Rat
  b : Rat
  c : Rat
  d : Rat
deriving DecidableEq, Repr

/-- constants of the operator: closed curve?, its length, and the float thresholds of the code as
exact rationals (`1e-10`, `1e-8`, `1e-9` are the doubles written in the source) -/
structure Cfg where
  glue : Bool
  len : Rat
  eps10 : Rat
  minSize : Rat
  relTol : Rat

def absR (x : Rat) : Rat := if x < 0 then -x else x
def maxR (a b : Rat) : Rat := if a ≤ b then b else a
def minR (a b : Rat) : Rat := if a ≤ b then a else b

/-- `math.isclose(x, y)` with the default tolerances -/
def isclose (cfg : Cfg) (x y : Rat) : Bool := decide (absR (x - y) ≤ cfg.relTol * maxR (absR x) (absR y))

/-- lexicographic `(a,b) ≤ (c,d)` on pairs, as Python compares tuples -/
def lexLe (a b c d : Rat) : Bool := decide (a < c) || (decide (a = c) && decide (b ≤ d))
def lexLt (a b c d : Rat) : Bool := decide (a < c) || (decide (a = c) && decide (b < d))

/-- `SingleLayerOperator.__integrate`: the list of panels in evaluation order -/
def panels (cfg : Cfg) : Nat → Rat → Rat → Rat → Rat → Except String (List Panel)
  | 0, _, _, _, _ => .error "fuel"
  | fuel + 1, a, b, c, d =>
    let hx := b - a
    let hy := d - c
    if !(decide (hx > cfg.minSize) && decide (hy > cfg.minSize)) then .error "assert:size"
    else if !(decide (a < b) && decide (c < d)) then .error "assert:order"
    else if !lexLe a b c d then .error "assert:lex"
    else if a = c ∧ b = d then pure [⟨.duffyId, a, b, c, d⟩]
    else if b = c then
      if absR (hx - hy) < cfg.eps10 then pure [⟨.duffyMx, a, b, c, d⟩]
      else if hx > hy then do
        let r ← panels cfg fuel a (b - hy) c d
        pure (⟨.duffyMx, b - hy, b, c, d⟩ :: r)
      else do
        let r ← panels cfg fuel a b (c + hx) d
        pure (⟨.duffyMx, a, b, c, c + hx⟩ :: r)
    else if isclose cfg b c then .error "assert:isclose"
    else if a = 0 ∧ d = cfg.len ∧ cfg.glue = true then
      if !decide (b < c) then .error "assert:seam"
      else if absR (hx - hy) < cfg.eps10 then pure [⟨.duffyMy, a, b, c, d⟩]
      else if hx > hy then do
        let r ← panels cfg fuel (a + hy) b c d
        pure (⟨.duffyMy, a, a + hy, c, d⟩ :: r)
      else do
        let r ← panels cfg fuel a b c (d - hx)
        pure (r ++ [⟨.duffyMy, a, b, d - hx, d⟩])
    else if b < c then
      if c - b < cfg.len - d + a ∨ cfg.glue = false then pure [⟨.logMx, a, b, c, d⟩]
      else pure [⟨.logMy, a, b, c, d⟩]
    else if d < b then do
      let r ← panels cfg fuel a d c d
      pure (r ++ [⟨.duffyMy, d, b, c, d⟩])
    else if a = c then
      if !decide (b < d) then .error "assert:contained"
      else do
        let r1 ← panels cfg fuel a b c b
        let r2 ← panels cfg fuel a b b d
        pure (r1 ++ r2)
    else if isclose cfg a c then .error "assert:isclose"
    else if !decide (a < c) then .error "assert:overlap"
    else do
      let r1 ← panels cfg fuel a c c d
      let r2 ← panels cfg fuel c b c d
      pure (r1 ++ r2)

/-- the 2-D rule the code applies on a panel of the given kind (`log` = the 1-D log rule) -/
def ruleOf (log : Rule1) : PKind → Rule2
  | .duffyId => duffy2 (product2 log log) false
  | .duffyMx => mirrorX2 (duffy2 (product2 log log) false)
  | .duffyMy => mirrorY2 (duffy2 (product2 log log) false)
  | .logMx => mirrorX2 (product2 log log)
  | .logMy => mirrorY2 (product2 log log)

def integratePanels (log : Rule1) (f : Rat → Rat → Rat) (ps : List Panel) : Rat :=
  sumR (ps.map fun p => integrate2 (ruleOf log p.kind) f p.a p.b p.c p.d)

/-! ### curve pieces and elements -/

/-- straight piece `γ(x) = (px,py) + (x − start)·(dx,dy)` -/
structure Piece where
  start : Rat
  px : Rat
  py : Rat
  dx : Rat
  dy : Rat
deriving Repr

def Piece.at (g : Piece) (x : Rat) : Rat × Rat := (g.px + (x - g.start) * g.dx, g.py + (x - g.start) * g.dy)

structure Elem where
  t0 : Rat
  t1 : Rat
  x0 : Rat
  x1 : Rat
  piece : Nat
deriving Repr

def distSq (p q : Rat × Rat) : Rat := (p.1 - q.1) ^ 2 + (p.2 - q.2) ^ 2

def pieceOf (gs : List Piece) (i : Nat) : Piece := gs.getD i ⟨0, 0, 0, 0, 0⟩

/-! ### closed-form path: `spacetime_integrated_kernel` -/

def stik (S : Fns) : Nat → Rat → Rat → Rat → Rat → Rat → Rat → Rat → Rat → Except String Rat
  | 0, _, _, _, _, _, _, _, _ => .error "fuel"
  | fuel + 1, ta, tb, sa, sb, xa, xb, ya, yb =>
    if lexLt ya yb xa xb then stik S fuel ta tb sa sb ya yb xa xb
    else if !lexLe xa xb ya yb then .error "assert:lex"
    else if xb < ya then pure (stik_4 S ta tb sa sb (xb - xa) (ya - xa) (yb - xa))
    else if xa = ya ∧ xb = yb then pure (stik_1 S ta tb sa sb (xb - xa))
    else if xb = ya then pure (stik_2 S ta tb sa sb (xb - xa) (yb - ya))
    else if xa < ya then do
      let r1 ← stik S fuel ta tb sa sb xa ya ya yb
      let r2 ← stik S fuel ta tb sa sb ya xb ya yb
      pure (r1 + r2)
    else if !(decide (xa = ya) && decide (xb < yb)) then .error "assert:contained"
    else do
      let r1 ← stik S fuel ta tb sa sb xa xb ya xb
      let r2 ← stik S fuel ta tb sa sb xa xb xb yb
      pure (r1 + r2)

/-! ### `bilform` -/

/-- `SingleLayerOperator.bilform(elem_trial, elem_test)` -/
def bilform (cfg : Cfg) (S : Fns) (log : Rule1) (gs : List Piece) (pwExact : Bool) (trial test : Elem) :
    Except String Rat :=
  if test.t1 ≤ trial.t0 then pure 0
  else if pwExact && test.piece == trial.piece then
    stik S 12 test.t0 test.t1 trial.t0 trial.t1 test.x0 test.x1 trial.x0 trial.x1
  else
    let gt := pieceOf gs test.piece
    let gr := pieceOf gs trial.piece
    let G := fun (u v : Rat) => sl_dtk S test.t0 test.t1 trial.t0 trial.t1 (distSq (gt.at u) (gr.at v))
    if lexLe test.x0 test.x1 trial.x0 trial.x1 then do
      let ps ← panels cfg 12 test.x0 test.x1 trial.x0 trial.x1
      pure (integratePanels log (fun x y => G x y) ps)
    else do
      let ps ← panels cfg 12 trial.x0 trial.x1 test.x0 test.x1
      pure (integratePanels log (fun x y => G y x) ps)

/-- `bilform_matrix` on every path (inline, serial, pool-by-columns with the acausal skip):
`mat[i][j] = bilform(trial_j, test_i)` -/
def bilformMatrix (cfg : Cfg) (S : Fns) (log : Rule1) (gs : List Piece) (pwExact : Bool) (tests trials : List Elem) :
    Except String (List (List Rat)) :=
  tests.mapM fun te => trials.mapM fun tr => bilform cfg S log gs pwExact tr te

/-! ### pointwise evaluation -/

/-- the inline time-integrated kernel of `evaluate` at squared distance `r` -/
def evalKernel (S : Fns) (t ta tb r : Rat) : Rat :=
  if t ≤ tb then -S.fpiInv * S.ei (-r / (4 * (t - ta)))
  else S.fpiInv * (S.ei (-r / (4 * (t - tb))) - S.ei (-r / (4 * (t - ta))))

inductive EvalPlan
  | zero
  | inElem
  | outside (mirrored : Bool)
deriving DecidableEq, Repr

/-- which branch `evaluate` takes; `onePlus`, `oneMinus` are the doubles `1+1e-10`, `1-1e-10` -/
def evalPlan (cfg : Cfg) (onePlus oneMinus : Rat) (e : Elem) (t xhat : Rat) : EvalPlan :=
  if t ≤ e.t0 then .zero
  else if e.x0 * onePlus ≤ xhat ∧ xhat ≤ e.x1 * oneMinus then .inElem
  else
    let da := if cfg.glue then minR (absR (xhat - e.x0)) (absR (cfg.len - xhat + e.x0)) else absR (xhat - e.x0)
    let db := if cfg.glue then minR (absR (xhat - e.x1)) (absR (cfg.len - e.x1 + xhat)) else absR (xhat - e.x1)
    .outside (!decide (da ≤ db))

/-- `SingleLayerOperator.evaluate(elem_trial, t, x_hat, x)`; `x` is the evaluation point `γ(x_hat)` -/
def evaluate (cfg : Cfg) (onePlus oneMinus : Rat) (S : Fns) (log : Rule1) (gs : List Piece) (e : Elem)
    (t xhat : Rat) (x : Rat × Rat) : Rat :=
  let g := pieceOf gs e.piece
  let k := fun (y : Rat) => evalKernel S t e.t0 e.t1 (distSq x (g.at y))
  match evalPlan cfg onePlus oneMinus e t xhat with
  | .zero => 0
  | .inElem => integrate1 (mirror1 log) k e.x0 xhat + integrate1 log k xhat e.x1
  | .outside m =>
    let r := if m then mirror1 log else log
    (e.x1 - e.x0) * sumR ((r.zip log).map fun p => p.2.w * k (e.x0 + (e.x1 - e.x0) * p.1.x))

/-- `SingleLayerOperator.evaluate_exact(elem_trial, t, x)` (same straight piece as `x`); `none` models
the implicit `None` of the Python function when no branch applies -/
def evaluateExact (S : Fns) (e : Elem) (t x : Rat) : Option Rat :=
  if t ≤ e.t0 then some 0
  else if x < e.x0 ∨ x > e.x1 then
    let h := minR (absR (e.x0 - x)) (absR (e.x1 - x))
    let k := maxR (absR (e.x0 - x)) (absR (e.x1 - x))
    let a := e.t0
    let b := e.t1
    if t ≤ b then
      some (-S.fpiInv * (S.piSqrt * (2 * S.sqrt (t - a)) * (S.erf (h / (2 * S.sqrt (t - a))) - S.erf (k / (2 * S.sqrt (t - a)))) -
        h * S.ei (-(h ^ 2 / (4 * (t - a)))) + k * S.ei (-(k ^ 2 / (4 * (t - a))))))
    else
      some (S.fpiInv * (2 * S.piSqrt *
        (S.sqrt (t - a) * (-S.erf (h / (2 * S.sqrt (t - a))) + S.erf (k / (2 * S.sqrt (t - a)))) +
         S.sqrt (t - b) * (S.erf (h / (2 * S.sqrt (t - b))) - S.erf (k / (2 * S.sqrt (t - b))))) +
        h * S.ei (h ^ 2 / (4 * (a - t))) - k * S.ei (k ^ 2 / (4 * (a - t))) -
        h * S.ei (h ^ 2 / (4 * (b - t))) + k * S.ei (k ^ 2 / (4 * (b - t)))))
  else if e.x0 < x ∧ x < e.x1 then
    some (steval_1 S t e.t0 e.t1 (x - e.x0) + steval_1 S t e.t0 e.t1 (e.x1 - x))
  else if x = e.x0 ∨ x = e.x1 then some (steval_1 S t e.t0 e.t1 (e.x1 - e.x0))
  else none

/-- `SingleLayerOperator.potential(elem_trial, t, x)` with the Gauss rule `gauss` -/
def potential (S : Fns) (gauss : Rule1) (gs : List Piece) (e : Elem) (t : Rat) (x : Rat × Rat) : Rat :=
  if t ≤ e.t0 then 0
  else
    let g := pieceOf gs e.piece
    integrate1 gauss (fun y => sl_tik S t e.t0 e.t1 (distSq x (g.at y))) e.x0 e.x1

end Stbem.SL
