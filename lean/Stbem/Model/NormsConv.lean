import Stbem.Model.Slobo
import Stbem.Model.QuadConv
import Stbem.Gen.NormsGen
/-
Bridge between the hand-written Slobodeckij model (`Stbem.Model.Quad`: `semi14`, `semi12`, `semi12pw`;
`Stbem.Model.Slobo`: `semi12g`, `semi12pwVal`), which works on the three base rules as node lists, and the
definitions regenerated from `src/norms.py` (`Stbem.Gen.NormsGen`), which work on what a `Slobodeckij` object
holds: the three base schemes and the derived point / weight arrays its constructor stores.

`sloOf g14 gl gx` is the object the constructor builds from the base rules `g14` (`1/√x`-weighted), `gl` (Legendre),
`gx` (`x`-weighted) — in the array layout of `Stbem.QuadConv.ofRule*`; `Props/NormsTie.lean` proves that the generated
`Slobodeckij.init` returns it and that every generated seminorm routine applied to it is the hand-written routine.

No Mathlib import: this file is linked into the driver executable.
-/
namespace Stbem.NormsConv
open Stbem.Quad Stbem.QuadConv
open Stbem.Gen Stbem.Gen.NormsGen

/-- the fields of the object `Slobodeckij(N_poly_1_4, N_poly_1_2)` when the three rule constructors return the rules
`g14`, `gl`, `gx` (node order of `ProductScheme2D` = `product2`) -/
def sloOf (g14 gl gx : Rule1) : Slobodeckij :=
  { gauss_sqrtinv := ofRule1 g14
    semi_1_4_xy := (product2 g14 g14).map fun n => n.x * (1 - n.y)
    semi_1_4_weights := (product2 g14 g14).map fun n => 2 * n.w / n.y
    gauss_leg := ofRule1 gl
    gauss_x := ofRule1 gx
    semi_1_2_xy := (product2 gx gl).map fun n => n.x * n.y
    semi_1_2_weights := (product2 gx gl).map fun n => n.w
    semi_1_2_pw := ofRule2 (semi12pw gx gl) }

/-- a rule constructor that returns the same rule for every requested order -/
def constCtor (r : Rule1) : Int → Except String QuadGen.QuadScheme1D := fun _ => .ok (ofRule1 r)

/-- a parametrisation `γ` as a Python object with identity `id` -/
def gammaOf (id : Nat) (γ : Rat → Rat × Rat) : Gamma := ⟨id, γ⟩

end Stbem.NormsConv
