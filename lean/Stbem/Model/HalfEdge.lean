import Stbem.Model.Mesh
/-
H-layer model of `src/mesh.py`: an *arena translation* of the half-edge pointer structure.

Python objects become records in growing arrays, references become indices into these arrays:

* `Vertex`   -> `HVertex`  in `HMesh.verts`  (handle = position = `Vertex.idx`, as in `Mesh.vertices`);
* `Edge`     -> `HEdge`    in `HMesh.edges`  (handle = creation number of the `Edge` object);
* `Element`  -> `HElem`    in `HMesh.elems`  (handle = creation number of the `Element` object; the field
  `id` is `glob_idx`);
* `Mesh.leaf_elements` (an `OrderedDict`) -> `HMesh.leaves`, the list of element handles in dictionary
  order (refined element popped, the two children appended).

An object reference can never dangle in Python, so reading a field through a handle is total here
(`HMesh.edge`, `HMesh.elem`, `HMesh.vert` return a default record for an index that is out of range; that
all handles stored in the structure are in range is part of the invariant `HInv` proved in
`Stbem/Lemmas/HalfEdge*.lean`).  Every `assert` of the Python code is an `Except.error "assert:<tag>"`,
the two places where Python would raise another exception (`None.levels`, indexing an empty `children`
list / `roots`) are `Except.error "attr:…"` / `"index:…"`.  Object identity (`==` on `Vertex`, `Edge`,
`Element`, none of which defines `__eq__`) is equality of handles.  Truthiness: an object reference is
truthy iff it is not `None`; `children` is `[]` or a pair.

The functions follow the Python text statement by statement, in the same evaluation order.

No Mathlib import: linked into the driver executable.
-/

namespace Stbem.HalfEdge
open Stbem.Mesh (Ax Side Cell Mesh)

/-! ### records -/

structure HVertex where
  t : Rat := 0
  x : Rat := 0
  idx : Nat := 0
deriving Repr, Inhabited, DecidableEq

/-- `Edge`: `vertices = (v0, v1)`, `parent`, `elem`, `nbr_edge`, `children`, `on_boundary`, `glued` -/
structure HEdge where
  v0 : Nat := 0
  v1 : Nat := 0
  parent : Option Nat := none
  elem : Option Nat := none
  nbr : Option Nat := none
  kids : Option (Nat × Nat) := none
  onBoundary : Bool := false
  glued : Bool := false
deriving Repr, Inhabited, DecidableEq

/-- `Element`: `edges = [e0, e1, e2, e3]`, `levels = (lt, lx)`, `parent`, `children`, `glob_idx`,
`gamma_space` (as the index of the parametrisation piece) -/
structure HElem where
  e0 : Nat := 0
  e1 : Nat := 0
  e2 : Nat := 0
  e3 : Nat := 0
  lt : Nat := 0
  lx : Nat := 0
  parent : Option Nat := none
  kids : Option (Nat × Nat) := none
  id : Nat := 0
  piece : Nat := 0
deriving Repr, Inhabited, DecidableEq

def HElem.level (E : HElem) : Ax → Nat
  | .time => E.lt
  | .space => E.lx

/-- `Element.edges` -/
def HElem.edgeList (E : HElem) : List Nat := [E.e0, E.e1, E.e2, E.e3]

/-- `Element.edges[k]` for the side `k` -/
def HElem.side (E : HElem) : Side → Nat
  | .bottom => E.e0
  | .right => E.e1
  | .top => E.e2
  | .left => E.e3

structure HMesh where
  glue : Bool
  verts : Array HVertex
  edges : Array HEdge
  elems : Array HElem
  /-- `leaf_elements`, in dictionary order -/
  leaves : List Nat
  /-- `N_elements` -/
  nElems : Nat
  /-- the cylinder `[tmin, tmax] × [xmin, xmax]` (first / last entries of the initial grids): not stored by
  the Python class, carried along for the abstraction function only -/
  xmin : Rat
  xmax : Rat
  tmin : Rat
  tmax : Rat
deriving Repr

/-! ### arena access -/

def HMesh.vert (h : HMesh) (i : Nat) : HVertex := h.verts.getD i {}
def HMesh.edge (h : HMesh) (i : Nat) : HEdge := h.edges.getD i {}
def HMesh.elem (h : HMesh) (i : Nat) : HElem := h.elems.getD i {}

/-- field assignment `edge.<field> = …` -/
def HMesh.setEdge (h : HMesh) (i : Nat) (f : HEdge → HEdge) : HMesh :=
  { h with edges := h.edges.modify i f }

/-- field assignment `elem.<field> = …` -/
def HMesh.setElem (h : HMesh) (i : Nat) (f : HElem → HElem) : HMesh :=
  { h with elems := h.elems.modify i f }

/-- `Vertex(t, x, idx=len(self.vertices))` followed by `self.vertices.append` -/
def HMesh.pushVert (h : HMesh) (t x : Rat) : HMesh × Nat :=
  ({ h with verts := h.verts.push { t := t, x := x, idx := h.verts.size } }, h.verts.size)

/-- `Edge.__init__(vertices, parent)`: flags are inherited from the parent edge -/
def HMesh.mkEdge (h : HMesh) (v0 v1 : Nat) (parent : Option Nat) : HEdge :=
  match parent with
  | some p => { v0 := v0, v1 := v1, parent := some p,
                onBoundary := (h.edge p).onBoundary, glued := (h.edge p).glued }
  | none => { v0 := v0, v1 := v1 }

/-- creation of an `Edge` object: returns the new handle -/
def HMesh.newEdge (h : HMesh) (v0 v1 : Nat) (parent : Option Nat) : HMesh × Nat :=
  ({ h with edges := h.edges.push (h.mkEdge v0 v1 parent) }, h.edges.size)

def assert (b : Bool) (tag : String) : Except String Unit :=
  if b then pure () else .error ("assert:" ++ tag)

def qabs (a : Rat) : Rat := if a < 0 then -a else a

/-! ### `Element.__init__` -/

/-- `Element(edges, levels, parent)` followed by the assignment of `glob_idx`; returns the new handle.
Order as in the code: level assertion for roots, registration in the four edges (`assert not edge.elem`
for each edge in turn, so an edge listed twice trips the assertion), sanity checks. -/
def HMesh.newElem (h : HMesh) (e0 e1 e2 e3 : Nat) (lt lx : Nat) (parent : Option Nat) (id : Nat) :
    Except String (HMesh × Nat) := do
  let el := h.elems.size
  -- `if parent: gamma_space = parent.gamma_space  else: assert levels == (0, 0); gamma_space = None`
  assert (parent.isSome || (lt == 0 && lx == 0)) "root-levels"
  let piece := match parent with
    | some p => (h.elem p).piece
    | none => 0
  -- Register ourselves in the edges.
  let h ← [e0, e1, e2, e3].foldlM (fun (h : HMesh) ei => do
    assert (h.edge ei).elem.isNone "edge-has-elem"
    pure (h.setEdge ei fun e => { e with elem := some el })) h
  -- Sanity check.
  let E0 := h.edge e0; let E1 := h.edge e1; let E2 := h.edge e2; let E3 := h.edge e3
  assert (E3.v1 == E0.v0) "edge-chain-0"
  assert (E0.v1 == E1.v0) "edge-chain-1"
  assert (E1.v1 == E2.v0) "edge-chain-2"
  assert (E2.v1 == E3.v0) "edge-chain-3"
  let v0 := h.vert E0.v0; let v1 := h.vert E1.v0; let v2 := h.vert E2.v0; let v3 := h.vert E3.v0
  assert (v0.t == v1.t) "v0t=v1t"
  assert (v1.x == v2.x) "v1x=v2x"
  assert (v2.t == v3.t) "v2t=v3t"
  assert (v3.x == v0.x) "v3x=v0x"
  assert (decide (v0.t < v2.t)) "t-order"
  assert (decide (v0.x < v1.x)) "x-order"
  assert (qabs (v2.x - v0.x) == v2.x - v0.x) "h_x"
  assert (qabs (v2.t - v0.t) == v2.t - v0.t) "h_t"
  let E : HElem := { e0 := e0, e1 := e1, e2 := e2, e3 := e3, lt := lt, lx := lx, parent := parent,
                     id := id, piece := piece }
  pure ({ h with elems := h.elems.push E }, el)

/-! ### `Mesh.__init__` -/

/-- the body of the loop over `i` for the row `j` (`nX = len(initial_space_mesh)`, `N_x = nX - 1`).
During `__init__` the list `roots` is the list of all elements, so `roots[k]` is the handle `k`,
`roots[-1]` the last created element. -/
def initCell (nX nT' : Nat) (j : Nat) (h : HMesh) (i : Nat) : Except String HMesh := do
  let nx' := nX - 1
  let v0 := j * nX + i
  let v1 := j * nX + i + 1
  let v2 := (j + 1) * nX + i + 1
  let v3 := (j + 1) * nX + i
  -- Create four edges and the element.
  let (h, e1) := h.newEdge v0 v1 none
  let (h, e2) := h.newEdge v1 v2 none
  let (h, e3) := h.newEdge v2 v3 none
  let (h, e4) := h.newEdge v3 v0 none
  let (h, r) ← h.newElem e1 e2 e3 e4 0 0 none h.elems.size      -- roots[-1], glob_idx = len(roots) - 1
  -- Set boundary edges correctly.
  let h := if j == 0 then h.setEdge e1 fun e => { e with onBoundary := true } else h
  let h := if i + 1 == nx' then h.setEdge e2 fun e => { e with onBoundary := true } else h
  let h := if i == 0 then h.setEdge e4 fun e => { e with onBoundary := true } else h
  let h := if j + 1 == nT' then h.setEdge e3 fun e => { e with onBoundary := true } else h
  -- Set the space edge nbrs correctly.
  let h := if i > 0 then
      let a := (h.elem (r - 1)).e1      -- roots[-2].edges[1]
      let b := (h.elem r).e3            -- roots[-1].edges[3]
      (h.setEdge a fun e => { e with nbr := some b }).setEdge b fun e => { e with nbr := some a }
    else h
  -- Set time edge nbrs correctly.
  let h := if j > 0 then
      let a := (h.elem ((j - 1) * nx' + i)).e2    -- roots[(j - 1) * N_x + i].edges[2]
      let b := (h.elem r).e0                       -- roots[-1].edges[0]
      (h.setEdge a fun e => { e with nbr := some b }).setEdge b fun e => { e with nbr := some a }
    else h
  pure h

/-- one pass of the loop over `j`: the row of roots, then the glueing of its outer time edges -/
def initRow (glue : Bool) (nX nT' : Nat) (h : HMesh) (j : Nat) : Except String HMesh := do
  let nx' := nX - 1
  let h ← (List.range nx').foldlM (initCell nX nT' j) h
  if glue then
    if h.elems.size = 0 then .error "index:roots" else
    let a := (h.elem (j * nx')).e3               -- roots[j * N_x].edges[3]
    let b := (h.elem (h.elems.size - 1)).e1      -- roots[-1].edges[1]
    let h := h.setEdge a fun e => { e with glued := true }
    let h := h.setEdge b fun e => { e with glued := true }
    let h := h.setEdge a fun e => { e with nbr := some b }
    let h := h.setEdge b fun e => { e with nbr := some a }
    pure h
  else pure h

/-- `Mesh.__init__(glue_space, initial_space_mesh = X, initial_time_mesh = T)` -/
def init (glue : Bool) (X T : List Rat) : Except String HMesh := do
  let h0 : HMesh := { glue := glue, verts := #[], edges := #[], elems := #[], leaves := [], nElems := 0,
                      xmin := X.headD 0, xmax := X.getLastD 0, tmin := T.headD 0, tmax := T.getLastD 0 }
  -- Generate all vertices on both time boundaries.
  let h := T.foldl (fun h t => X.foldl (fun (h : HMesh) x => (h.pushVert t x).1) h) h0
  let h ← (List.range (T.length - 1)).foldlM (initRow glue X.length (T.length - 1)) h
  pure { h with leaves := List.range h.elems.size, nElems := h.elems.size }

/-! ### `Edge.bisect`, `Edge.neighbour_elements` -/

/-- `Edge.bisect(child_vertex)` -/
def HMesh.edgeBisect (h : HMesh) (ei : Nat) (cv : Nat) : Except String HMesh := do
  let e := h.edge ei
  if e.kids.isSome then pure h else
  let (h, k0) := h.newEdge e.v0 cv (some ei)
  let (h, k1) := h.newEdge cv e.v1 (some ei)
  let h := h.setEdge ei fun e => { e with kids := some (k0, k1) }
  -- Update neighbouring relations between edges.
  match e.nbr with
  | none => pure h
  | some f =>
    match (h.edge f).kids with
    | none => pure h
    | some (f0, f1) => do
      if !e.glued then
        assert (e.v0 == (h.edge f).v1) "bisect-v0"
        assert (e.v1 == (h.edge f).v0) "bisect-v1"
      assert (h.edge f0).nbr.isNone "nbr-child0-has-nbr"
      assert (h.edge f1).nbr.isNone "nbr-child1-has-nbr"
      let h := h.setEdge k0 fun e => { e with nbr := some f1 }
      let h := h.setEdge k1 fun e => { e with nbr := some f0 }
      let h := h.setEdge f0 fun e => { e with nbr := some k1 }
      let h := h.setEdge f1 fun e => { e with nbr := some k0 }
      pure h

/-- `Edge.neighbour_elements()`; the entries are the `elem` fields (possibly `None`).  The recursion goes to
the parent edge only when that has a neighbour edge, so it returns after one step: `fuel = 2` always
suffices (`neighbourElementsF_fuel`). -/
def neighbourElementsF : Nat → HMesh → Nat → Except String (List (Option Nat))
  | 0, _, _ => .error "fuel"
  | fuel + 1, h, ei =>
    let e := h.edge ei
    match e.nbr with
    | some f =>
      match (h.edge f).kids with
      -- If we have a neighbour edge that is not refined, return the nbr elem.
      | none => pure [(h.edge f).elem]
      -- If we have a neighbour edge that is refined, return its children.
      | some (f0, f1) => pure [(h.edge f0).elem, (h.edge f1).elem]
    | none =>
      -- If we have have no neighbouring edge, but our parent does, return this.
      match e.parent.filter fun p => (h.edge p).nbr.isSome with
      | some p => neighbourElementsF fuel h p
      | none => do
        -- Else we do not have neighbours, must be on the boundary.
        assert (e.onBoundary && !e.glued) "no-neighbour-not-boundary"
        pure []

def HMesh.neighbourElements (h : HMesh) (ei : Nat) : Except String (List (Option Nat)) :=
  neighbourElementsF 2 h ei

/-! ### `Mesh.__bisect_edge`, `Mesh.__create_edges` -/

/-- `Mesh.__bisect_edge(edge)`: returns the handle of the vertex in the middle -/
def HMesh.bisectEdge (h : HMesh) (ei : Nat) : Except String (HMesh × Nat) := do
  let e := h.edge ei
  assert e.kids.isNone "bisect-edge-has-children"
  -- Check if the vertex in the middle already exists.
  let reuse : Option Nat :=
    if e.glued then none else
    match e.nbr with
    | none => none
    | some f => match (h.edge f).kids with
      | none => none
      | some (f0, _) => some (h.edge f0).v1
  let (h, cv) ← match reuse with
    | some v => pure (h, v)
    | none => do
      let a := h.vert e.v0
      let b := h.vert e.v1
      let (h, cv) := h.pushVert ((a.t + b.t) / 2) ((a.x + b.x) / 2)
      let c := h.vert cv
      assert ((a.t == b.t && b.t == c.t) != (a.x == b.x && b.x == c.x)) "bisect-edge-axis"
      pure (h, cv)
  let h ← h.edgeBisect ei cv
  pure (h, cv)

/-- `Mesh.__create_edges(vertices)` -/
def HMesh.createEdges (h : HMesh) (va vb : Nat) : HMesh × Nat × Nat :=
  let (h, e1) := h.newEdge va vb none
  let (h, e2) := h.newEdge vb va none
  let h := h.setEdge e1 fun e => { e with nbr := some e2 }
  let h := h.setEdge e2 fun e => { e with nbr := some e1 }
  (h, e1, e2)

/-! ### `Mesh.refine_axis` -/

def HVertex.tx (v : HVertex) : Ax → Rat
  | .time => v.t
  | .space => v.x

def Ax.other : Ax → Ax
  | .time => .space
  | .space => .time

/-- `edge.children[k]` (`IndexError` when the edge has no children) -/
def HMesh.kid (h : HMesh) (ei : Nat) (k : Fin 2) : Except String Nat :=
  match (h.edge ei).kids with
  | some (k0, k1) => pure (if k = 0 then k0 else k1)
  | none => .error "index:children"

/-- the part of `refine_axis` after the conformity loop: the bisection of `elem` itself -/
def HMesh.bisectElem (h : HMesh) (el : Nat) (ax : Ax) : Except String HMesh := do
  let E := h.elem el
  -- Remove current elem from the current edges.
  assert E.kids.isNone "elem-has-children"
  let h ← E.edgeList.foldlM (fun (h : HMesh) ei => do
    assert ((h.edge ei).elem == some el) "edge-elem"
    pure (h.setEdge ei fun e => { e with elem := none })) h
  -- Lets bisect the edges in the given axis and store new vertices.
  let (ea, eb) := match ax with        -- elem.edges_axis(ax) = (edges[1 - ax], edges[3 - ax])
    | .time => (E.e1, E.e3)
    | .space => (E.e0, E.e2)
  let (h, va) ← h.bisectEdge ea
  let (h, vb) ← h.bisectEdge eb
  assert ((h.vert va).tx ax == (h.vert vb).tx ax) "new-vertices-aligned"
  assert ((h.vert va).tx (Ax.other ax) != (h.vert vb).tx (Ax.other ax)) "new-vertices-distinct"
  -- Create the edges between new vertices.
  let (h, e1, e2) := h.createEdges va vb
  -- Create the two new elements
  let (h, c1, c2) ← match ax with
    | .time => do
      -- Refining in time
      let (h, c1) ← h.newElem E.e0 (← h.kid E.e1 0) e1 (← h.kid E.e3 1) (E.lt + 1) E.lx (some el) h.nElems
      let (h, c2) ← h.newElem e2 (← h.kid E.e1 1) E.e2 (← h.kid E.e3 0) (E.lt + 1) E.lx (some el) (h.nElems + 1)
      pure (h, c1, c2)
    | .space => do
      -- Refining in space
      let (h, c1) ← h.newElem (← h.kid E.e0 0) e1 (← h.kid E.e2 1) E.e3 E.lt (E.lx + 1) (some el) h.nElems
      let (h, c2) ← h.newElem (← h.kid E.e0 1) E.e1 (← h.kid E.e2 0) e2 E.lt (E.lx + 1) (some el) (h.nElems + 1)
      pure (h, c1, c2)
  let h := { h with nElems := h.nElems + 2 }
  -- Update datastructures with new elements.
  if !h.leaves.contains el then .error "key:leaf_elements.pop" else
  let h := { h with leaves := h.leaves.filter (fun l => l != el) ++ [c1, c2] }
  pure (h.setElem el fun E => { E with kids := some (c1, c2) })

/-- `Mesh.refine_axis(elem, ax)`; `fuel` bounds the recursion depth.  The conformity loop evaluates
`edge.neighbour_elements()` once per edge (on the current state) and then walks the returned list. -/
def refineAxis : Nat → HMesh → Nat → Ax → Except String HMesh
  | 0, _, _, _ => .error "fuel"
  | fuel + 1, h, el, ax => do
    let E := h.elem el
    -- Ensure conformity in the current axis.
    let h ← E.edgeList.foldlM (fun (h : HMesh) ei => do
      let ns ← h.neighbourElements ei
      ns.foldlM (fun (h : HMesh) n =>
        match n with
        | none => .error "attr:None.levels"
        | some n => if (h.elem n).level ax < E.level ax then refineAxis fuel h n ax else pure h) h) h
    h.bisectElem el ax

/-- the handle of the element with the given `glob_idx` -/
def HMesh.findId (h : HMesh) (id : Nat) : Option Nat := h.elems.findIdx? (·.id == id)

/-- `refine_axis` on the element with the given `glob_idx` with the fuel of the A-layer (`level + 1`) -/
def refineId (h : HMesh) (id : Nat) (ax : Ax) : Except String HMesh :=
  match h.findId id with
  | none => .error "no-such-element"
  | some el => refineAxis ((h.elem el).level ax + 1) h el ax

/-- `elem.children` as returned by `refine_axis` -/
def HMesh.kidsOf (h : HMesh) (el : Nat) : Except String (Nat × Nat) :=
  match (h.elem el).kids with
  | some k => pure k
  | none => .error "index:elem-children"

/-- `Mesh.refine(elem)`: time, then both time-children in space; returns `glob_idx` of the four
grandchildren -/
def refineBoth (h : HMesh) (id : Nat) : Except String (HMesh × List Nat) := do
  match h.findId id with
  | none => .error "no-such-element"
  | some el =>
    let h ← refineAxis ((h.elem el).lt + 1) h el .time
    let (a, b) ← h.kidsOf el
    let h ← refineAxis ((h.elem a).lx + 1) h a .space
    let (a1, a2) ← h.kidsOf a
    let h ← refineAxis ((h.elem b).lx + 1) h b .space
    let (b1, b2) ← h.kidsOf b
    pure (h, [a1, a2, b1, b2].map fun k => (h.elem k).id)

/-! ### abstraction to the A-layer -/

/-- the cell of an element: coordinates from `self.vertices = [edge.vertices[0] for edge in edges]`
(`time_interval = (v0.t, v2.t)`, `space_interval = (v0.x, v2.x)`) -/
def HMesh.cellOf (h : HMesh) (el : Nat) : Cell :=
  let E := h.elem el
  let v0 := h.vert (h.edge E.e0).v0
  let v2 := h.vert (h.edge E.e2).v0
  { t0 := v0.t, t1 := v2.t, x0 := v0.x, x1 := v2.x, lt := E.lt, lx := E.lx, id := E.id,
    par := E.parent.map fun p => (h.elem p).id, piece := E.piece }

/-- `(parent, child1, child2)` for every bisection, in creation order: the first children in arena order -/
def HMesh.kidsTable (h : HMesh) : List (Nat × Nat × Nat) :=
  h.elems.toList.filterMap fun E =>
    match E.parent with
    | none => none
    | some p => match (h.elem p).kids with
      | none => none
      | some (c1, c2) => if (h.elem c1).id == E.id then some ((h.elem p).id, (h.elem c1).id, (h.elem c2).id) else none

/-- the abstraction function -/
def HMesh.abs (h : HMesh) : Mesh :=
  { glue := h.glue, xmin := h.xmin, xmax := h.xmax, tmin := h.tmin, tmax := h.tmax,
    leaves := h.leaves.map h.cellOf, nElems := h.nElems,
    verts := h.verts.toList.map fun v => (v.t, v.x), kids := h.kidsTable }

end Stbem.HalfEdge
