/-
Model of the assembly logic of `src/single_layer.py` (`MP_SL_matrix_col`,
`SingleLayerOperator.bilform_matrix`) and `src/initial_potential.py` (`MP_M0_val`,
`InitialOperator.linform_vector`), abstract over the leaves (`bilform`, `linform`):

* arrays        — `np.zeros`, `mat[i, j] = v`, `col[i] = v`, `mat[:, j] = col` on lists, loops written as
                  `for k, e in enumerate(es)` (`enumLoop`, `colLoop`);
* paths         — `inlinePath` (`N*M < 100`), `serialPath`, `poolPath` (columns computed by forked workers
                  with the acausal skip, chunks handed to workers by an arbitrary `Schedule`, results
                  re-assembled in task order as `imap`/`map` do), the threshold (`computeMatrix`);
* cache         — a directory is a map file name ↦ {absent, valid payload, corrupt}; `np.load` succeeds only on
                  a valid file, `np.save` is best effort (may write nothing or leave a partial file); events
                  `call`, `crash`, `truncate`, `remove`, `garble`; `run` executes a history;
* keys          — the text that is hashed: `str(gamma) + str(elems_test) + str(elems_trial) +
                  str((self.quad_order, self.pw_exact))` with Python's list rendering `[r₁, r₂, …]` over an abstract
                  element `repr` and the tuple rendering `(12, False)` (`cfgText`); the text hashed before the repair of
                  finding F7 (no configuration suffix) is kept as `keyTextUnfixed` / `slKeyUnfixed` / `slSpecUnfixed`.

No Mathlib import.
-/
namespace Stbem.Assembly

abbrev Mat (V : Type) := List (List V)

/-! ## arrays and loops -/
section arrays
variable {E V α : Type}

/-- `np.zeros(n)` -/
def zerosVec [Zero V] (n : Nat) : List V := List.replicate n 0

/-- `np.zeros((n, m))` -/
def zerosMat [Zero V] (n m : Nat) : Mat V := List.replicate n (zerosVec m)

/-- `for k, e in enumerate(es, start=k): c[k] = upd e c[k]` -/
def enumLoop (upd : E → α → α) : List E → Nat → List α → List α
  | [], _, c => c
  | e :: es, k, c => enumLoop upd es (k + 1) (c.modify k (upd e))

/-- `mat[:, j] = col` (the shapes agree wherever the code does this: `col = np.zeros(len(tests))`) -/
def setCol (mat : Mat V) (j : Nat) (col : List V) : Mat V :=
  List.zipWith (fun row v => row.set j v) mat col

/-- `for j, col in enumerate(cols, start=j): mat[:, j] = col` -/
def colLoop : List (List V) → Nat → Mat V → Mat V
  | [], _, mat => mat
  | col :: cols, j, mat => colLoop cols (j + 1) (setCol mat j col)

end arrays

/-! ## leaves -/

/-- what the assembly sees of an operator: `bil trial test = self.bilform(elem_trial, elem_test)` and the
guard `acausal trial test = (elem_test.time_interval[1] <= elem_trial.time_interval[0])` -/
structure Leaf (E V : Type) where
  bil : E → E → V
  acausal : E → E → Bool

/-- `bilform` returns 0 on acausal pairs (its first statement; property C04) -/
def Leaf.Causal {E V : Type} [Zero V] (L : Leaf E V) : Prop :=
  ∀ tr te, L.acausal tr te = true → L.bil tr te = 0

/-- the matrix of pair-wise evaluations, rows = test, columns = trial -/
def pureMat {E V : Type} (L : Leaf E V) (tests trials : List E) : Mat V :=
  tests.map fun te => trials.map fun tr => L.bil tr te

/-- a concrete element type for examples: time and space interval -/
structure Elem where
  t0 : Rat
  t1 : Rat
  x0 : Rat
  x1 : Rat
deriving DecidableEq, Repr

/-- `elem_test.time_interval[1] <= elem_trial.time_interval[0]` -/
def Elem.acausal (trial test : Elem) : Bool := decide (test.t1 ≤ trial.t0)

/-! ## the three paths -/
section paths
variable {E V : Type} [Zero V]

/-- `mat = np.zeros((N, M)); for i, te in enumerate(tests): for j, tr in enumerate(trials):
mat[i, j] = self.bilform(tr, te)` -/
def loopFill (L : Leaf E V) (tests trials : List E) : Mat V :=
  enumLoop (fun te row => enumLoop (fun tr _ => L.bil tr te) trials 0 row) tests 0
    (zerosMat tests.length trials.length)

/-- lines 256-261 -/
def inlinePath (L : Leaf E V) (tests trials : List E) : Mat V := loopFill L tests trials

/-- lines 278-282 -/
def serialPath (L : Leaf E V) (tests trials : List E) : Mat V := loopFill L tests trials

/-- module globals handed to the workers (`globals()['__SL']`, `'__elems_test'`, `'__elems_trial'`) -/
structure Globals (E V : Type) where
  sl : Leaf E V
  tests : List E
  trials : List E

/-- `MP_SL_matrix_col(j)` evaluated against a worker's copy of the globals -/
def workerCol (g : Globals E V) (j : Nat) : Except String (List V) :=
  match g.trials[j]? with
  | none => .error "raise:IndexError"
  | some tr =>
    .ok (enumLoop (fun te old => if g.sl.acausal tr te then old else g.sl.bil tr te) g.tests 0
      (zerosVec g.tests.length))

/-- a run of `Pool(workers).imap(f, range(n), chunk)` (or `.map`): which worker executes which chunk and
in which order the chunks complete -/
structure Schedule where
  workers : Nat
  chunk : Nat
  assign : Nat → Nat
  order : List Nat

def chunksAux {α : Type} (n : Nat) : Nat → List α → List (List α)
  | 0, _ => []
  | fuel + 1, l => if l.isEmpty then [] else l.take n :: chunksAux n fuel (l.drop n)

/-- the task list cut into chunks of `n` (the last one may be shorter) -/
def chunksOf {α : Type} (n : Nat) (l : List α) : List (List α) := chunksAux n l.length l

def numChunks (chunk n : Nat) : Nat := (chunksOf chunk (List.range n)).length

/-- every chunk is eventually completed (a permutation of the chunk numbers is the typical case) -/
def Schedule.Complete (s : Schedule) (n : Nat) : Prop :=
  ∀ c, c < numChunks s.chunk n → c ∈ s.order

/-- `Pool(workers).imap(f, range(n), chunk)` collected into a list: chunk `c` is run by worker
`assign c`, one task after the other; finished chunks arrive in the order `order`; the iterator yields
the results in task order (chunk 0, 1, …), blocking on a chunk that never arrives.  `f w j` is task `j`
as evaluated by worker `w` (on its own copy of the globals). -/
def poolMap {β : Type} (f : Nat → Nat → Except String β) (n : Nat) (s : Schedule) :
    Except String (List β) :=
  if s.workers = 0 then .error "raise:ValueError:processes"
  else if s.chunk = 0 then .error "raise:ValueError:chunksize"
  else
    let chunks := chunksOf s.chunk (List.range n)
    let arrived : List (Nat × Except String (List β)) :=
      s.order.map fun c => (c, (chunks.getD c []).mapM (f (s.assign c % s.workers)))
    (List.range chunks.length).mapM (fun c =>
      match arrived.lookup c with
      | some r => r
      | none => .error "hang:chunk-never-completed") |>.map List.flatten

/-- the code's chunk size `M // (16 * cpu) + 1` resp. `N // (cpu * 8) + 1` -/
def codeChunk (factor cpu n : Nat) : Nat := n / (factor * cpu) + 1

/-- lines 284-292: `view w` is worker `w`'s copy of the globals -/
def poolPath (view : Nat → Globals E V) (N M : Nat) (s : Schedule) : Except String (Mat V) :=
  (poolMap (fun w j => workerCol (view w) j) M s).map fun cols => colLoop cols 0 (zerosMat N M)

/-- how a call is executed: `use_mp`, and the schedule the pool happens to follow -/
structure How where
  useMp : Bool
  sched : Schedule

/-- `fork` gives every worker the parent's globals as they are when the pool is created -/
def forkView (g : Globals E V) : Nat → Globals E V := fun _ => g

/-- `bilform_matrix` without the cache lines: threshold, then serial loop or pool -/
def computeMatrix (L : Leaf E V) (tests trials : List E) (h : How) : Except String (Mat V) :=
  if tests.length * trials.length < 100 then .ok (inlinePath L tests trials)
  else if !h.useMp then .ok (serialPath L tests trials)
  else poolPath (forkView ⟨L, tests, trials⟩) tests.length trials.length h.sched

/-! ### the load vector -/

/-- `vec = np.zeros(N); for j, e in enumerate(elems): vec[j], _ = self.linform(e)` -/
def serialVec {V : Type} [Zero V] (lin : E → V) (elems : List E) : List V :=
  enumLoop (fun e _ => lin e) elems 0 (zerosVec elems.length)

/-- `MP_M0_val(j)` on a worker's copy `(lin, elems)` of the globals -/
def workerVal {V : Type} (g : (E → V) × List E) (j : Nat) : Except String V :=
  match g.2[j]? with
  | none => .error "raise:IndexError"
  | some e => .ok (g.1 e)

/-- `np.array(Pool(cpu).map(MP_M0_val, range(N), chunk))` -/
def poolVec {V : Type} (view : Nat → (E → V) × List E) (N : Nat) (s : Schedule) :
    Except String (List V) :=
  poolMap (fun w j => workerVal (view w) j) N s

/-- `linform_vector` without the cache lines (no threshold there) -/
def computeVector {V : Type} [Zero V] (lin : E → V) (elems : List E) (h : How) :
    Except String (List V) :=
  if !h.useMp then .ok (serialVec lin elems)
  else poolVec (fun _ => (lin, elems)) elems.length h.sched

end paths

/-! ## the cache as a state machine -/
section cache

/-- state of one file name in the cache directory; `valid o` = a complete `.npy` file that `np.load`
parses to `o` -/
inductive FileState (O : Type) where
  | absent
  | valid (o : O)
  | corrupt

abbrev Dir (K O : Type) := K → FileState O

def Dir.empty {K O : Type} : Dir K O := fun _ => .absent

def Dir.set {K O : Type} [DecidableEq K] (d : Dir K O) (k : K) (s : FileState O) : Dir K O :=
  fun k' => if k' = k then s else d k'

/-- `np.load(cache_fn)` inside `try`: anything but a complete file raises -/
def load {O : Type} : FileState O → Option O
  | .valid o => some o
  | _ => none

/-- how `np.save` inside `try/except: pass` ended: complete file; exception before anything was written;
exception or kill after the file had been opened for writing (a partial file stays) -/
inductive SaveOutcome where
  | written
  | nothing
  | partialFile
deriving DecidableEq, Repr

def save {K O : Type} [DecidableEq K] (d : Dir K O) (k : K) (o : O) : SaveOutcome → Dir K O
  | .written => d.set k (.valid o)
  | .nothing => d
  | .partialFile => d.set k .corrupt

/-- a cached routine: file name of an input, whether the call consults the cache at all, and the
computation (which may raise) -/
structure Spec (K I H O : Type) where
  key : I → K
  cached : I → Bool
  compute : I → H → Except String O

variable {K I H O : Type} [DecidableEq K]

/-- one call: `try load → return`; else compute; `try save`; return -/
def callStep (S : Spec K I H O) (d : Dir K O) (inp : I) (how : H) (sv : SaveOutcome) :
    Dir K O × Except String O :=
  if S.cached inp then
    match load (d (S.key inp)) with
    | some o => (d, .ok o)
    | none =>
      match S.compute inp how with
      | .ok o => (save d (S.key inp) o sv, .ok o)
      | .error e => (d, .error e)
  else (d, S.compute inp how)

inductive Event (K I H : Type) where
  /-- a call that returns -/
  | call (inp : I) (how : H) (sv : SaveOutcome)
  /-- a call whose process dies at or after the save (`sv` says what is left); nothing is returned -/
  | crash (inp : I) (how : H) (sv : SaveOutcome)
  /-- the stored file loses its tail (any proper prefix: empty, header only, half, one byte short) -/
  | truncate (k : K)
  | remove (k : K)
  /-- bytes that are not an array file appear under the name -/
  | garble (k : K)

def step (S : Spec K I H O) (d : Dir K O) : Event K I H → Dir K O × Option (Except String O)
  | .call inp how sv => let r := callStep S d inp how sv; (r.1, some r.2)
  | .crash inp how sv => ((callStep S d inp how sv).1, none)
  | .truncate k =>
    let d' : Dir K O := match d k with
      | .absent => d
      | _ => d.set k .corrupt
    (d', none)
  | .remove k => (d.set k .absent, none)
  | .garble k => (d.set k .corrupt, none)

/-- executes a history; returns the final directory and the values returned by the `call`s, in order -/
def run (S : Spec K I H O) : Dir K O → List (Event K I H) → Dir K O × List (Except String O)
  | d, [] => (d, [])
  | d, e :: es =>
    let r := step S d e
    let rest := run S r.1 es
    (rest.1, match r.2 with | some o => o :: rest.2 | none => rest.2)

end cache

/-! ## keys -/
section keys
variable {E : Type}

/-- `", " + repr(e₂) + ", " + … + "]"` -/
def listTail (repr : E → List Char) : List E → List Char
  | [] => [']']
  | e :: es => ',' :: ' ' :: (repr e ++ listTail repr es)

/-- Python's `str(list)`: `[r₁, r₂, …, rₙ]` -/
def listStr (repr : E → List Char) : List E → List Char
  | [] => ['[', ']']
  | e :: es => '[' :: (repr e ++ listTail repr es)

/-- Python's `str((quad_order, pw_exact))` for an `int ≥ 0` and a `bool`: `(12, False)` -/
def cfgText (quadOrder : Nat) (pwExact : Bool) : List Char :=
  '(' :: (Nat.toDigits 10 quadOrder ++
    ',' :: ' ' :: ((if pwExact then ['T', 'r', 'u', 'e'] else ['F', 'a', 'l', 's', 'e']) ++ [')']))

/-- `str(self.mesh.gamma_space) + str(elems_test) + str(elems_trial) + str((self.quad_order, self.pw_exact))`;
`cfg` is the text of the last summand -/
def keyText (repr : E → List Char) (curve : List Char) (tests trials : List E) (cfg : List Char) :
    List Char :=
  curve ++ (listStr repr tests ++ (listStr repr trials ++ cfg))

/-- the file name `SL_{curve}_{N}x{M}_{md5}.npy` as the tuple of its variable parts -/
def slKey {Hh : Type} (hash : List Char → Hh) (repr : E → List Char) (curve : List Char)
    (tests trials : List E) (cfg : List Char) : List Char × Nat × Nat × Hh :=
  (curve, tests.length, trials.length, hash (keyText repr curve tests trials cfg))

/-- the hashed text BEFORE the repair of finding F7: `str(gamma) + str(elems_test) + str(elems_trial)` -/
def keyTextUnfixed (repr : E → List Char) (curve : List Char) (tests trials : List E) : List Char :=
  curve ++ (listStr repr tests ++ listStr repr trials)

/-- the file name before the repair of finding F7 -/
def slKeyUnfixed {Hh : Type} (hash : List Char → Hh) (repr : E → List Char) (curve : List Char)
    (tests trials : List E) : List Char × Nat × Nat × Hh :=
  (curve, tests.length, trials.length, hash (keyTextUnfixed repr curve tests trials))

/-- `str(self.bdr_mesh.gamma_space) + str(elems)` -/
def vecKeyText (repr : E → List Char) (curve : List Char) (elems : List E) : List Char :=
  curve ++ listStr repr elems

/-- the file name `M0_{problem}_{N}_{md5}.npy` -/
def vecKey {Hh : Type} (hash : List Char → Hh) (repr : E → List Char) (problem curve : List Char)
    (elems : List E) : List Char × Nat × Hh :=
  (problem, elems.length, hash (vecKeyText repr curve elems))

end keys

/-! ## the two cached routines -/
section routines
variable {E V C Hh : Type} [Zero V]

/-- operators that may share one cache directory: configuration `c : C` (curve, `pw_exact`,
`quad_order`, …) determines the curve name, the configuration text `str((quad_order, pw_exact))` that
enters the hashed text, and the leaf -/
structure Family (C E V : Type) where
  curve : C → List Char
  cfg : C → List Char
  leaf : C → Leaf E V

/-- `SingleLayerOperator.bilform_matrix` with `cache_dir` set; inputs (configuration, tests, trials) -/
def slSpec (F : Family C E V) (hash : List Char → Hh) (repr : E → List Char) :
    Spec (List Char × Nat × Nat × Hh) (C × List E × List E) How (Mat V) where
  key := fun i => slKey hash repr (F.curve i.1) i.2.1 i.2.2 (F.cfg i.1)
  cached := fun i => !(decide (i.2.1.length * i.2.2.length < 100))
  compute := fun i h => computeMatrix (F.leaf i.1) i.2.1 i.2.2 h

/-- `bilform_matrix` BEFORE the repair of finding F7: the file name ignores `F.cfg` -/
def slSpecUnfixed (F : Family C E V) (hash : List Char → Hh) (repr : E → List Char) :
    Spec (List Char × Nat × Nat × Hh) (C × List E × List E) How (Mat V) where
  key := fun i => slKeyUnfixed hash repr (F.curve i.1) i.2.1 i.2.2
  cached := fun i => !(decide (i.2.1.length * i.2.2.length < 100))
  compute := fun i h => computeMatrix (F.leaf i.1) i.2.1 i.2.2 h

/-- load-vector operators sharing a directory: configuration determines `problem`, curve name, `linform` -/
structure VecFamily (C E V : Type) where
  problem : C → List Char
  curve : C → List Char
  lin : C → E → V

/-- `InitialOperator.linform_vector` with `cache_dir` set; inputs (configuration, elems) -/
def vecSpec (F : VecFamily C E V) (hash : List Char → Hh) (repr : E → List Char) :
    Spec (List Char × Nat × Hh) (C × List E) How (List V) where
  key := fun i => vecKey hash repr (F.problem i.1) (F.curve i.1) i.2
  cached := fun _ => true
  compute := fun i h => computeVector (F.lin i.1) i.2 h

end routines

end Stbem.Assembly
