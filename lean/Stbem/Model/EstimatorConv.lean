import Stbem.Model.Estimator
import Stbem.Gen.EstimatorGen
/-
Bridge between the hand-written estimator model (`Stbem.Model.Estimator`) and the definitions regenerated from
`src/error_estimator.py` (`Stbem.Gen.EstimatorGen`): the generated methods read the record `ErrorEstimator` (mesh,
`gamma_len`, the outer Gauss rule as a `QuadScheme1D`, the tensor rule as a `QuadScheme2D`), the hand model takes the same
data as separate arguments (`Mesh`, `L`, `Rule`, a list of points and a list of weights).

No Mathlib import: this file is linked into the driver executable.
-/
namespace Stbem.EstimatorConv
open Stbem.Mesh Stbem.Estimator
open Stbem.Gen Stbem.Gen.EstimatorGen

/-- the estimator object for the mesh `m`, curve length `L`, outer rule `g` and tensor rule `(pts, wts)` -/
def estOf (m : Mesh) (L : Rat) (g : Rule) (pts : List (Rat × Rat)) (wts : List Rat) : ErrorEstimator :=
  { bdr_mesh := m, gamma_len := L, gauss := ⟨g.points, g.weights⟩,
    gauss_2d := ⟨[pts.map (·.1), pts.map (·.2)], wts⟩ }

/-- the outer rule of an estimator object as the hand model's `Rule` -/
def ruleOf (self : ErrorEstimator) : Rule := ⟨self.gauss.points, self.gauss.weights⟩

/-- the value the hand model's `sem` gives to a call of the seminorm routines `s12` (`seminorm_h_1_2`, both for one
element and for two elements on one piece) and `s12pw` (`seminorm_h_1_2_pw`) -/
def semOf (s12 : Rat → Rat → Rat → Nat → Rat) (s12pw : Rat → Rat → Rat → Nat → Rat → Rat → Nat → Rat) (t : Rat) :
    H12Call → Rat
  | .single a b pc => s12 t a b pc
  | .same a b pc => s12 t a b pc
  | .pw a1 b1 p1 a2 b2 p2 => s12pw t a1 b1 p1 a2 b2 p2

end Stbem.EstimatorConv
