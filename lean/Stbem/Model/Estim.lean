import Stbem.Gen.Consts
/-
Model of the two-level error estimators
  `src/hierarchical_error_estimator.py` (`DummyElement.uniform_refinement`, `HierarchicalErrorEstimator.estimate`)
  `src/h_h2_error_estimator.py` (`HH2ErrorEstimator.estimate`)
over exact rationals.

The analytic leaves (`SL.bilform_matrix`, `M0.linform_vector`, `g`) are *inputs* of the model: the matrices and
vectors they return.  What is modelled is everything the estimators do with them: the virtual quartering and the
order of the four children, the flattening, the sign patterns, scalings and the sharing of the checkerboard
contribution, the prolongation by repetition, the fine solve and the energy product.

The structural constants (child boxes in source order, sign patterns, combination, repeat factor) come from
`Stbem.Gen.Consts`, regenerated from the source text on every run.

No Mathlib import: linked into the driver executable.
-/
namespace Stbem.Estim
open Stbem.Gen.Consts

/-- a space-time rectangle `[t0,t1] × [x0,x1]` (what `time_interval`, `space_interval` of an element hold) -/
structure Rect where
  t0 : Rat
  t1 : Rat
  x0 : Rat
  x1 : Rat
deriving DecidableEq, Repr

/-- `a + l (b - a)`; for `l = 1/2` the midpoint `(a + b) / 2` of `uniform_refinement` -/
def lerp (a b l : Rat) : Rat := a + l * (b - a)

def childOf (r : Rect) (b : Rat × Rat × Rat × Rat) : Rect :=
  ⟨lerp r.t0 r.t1 b.1, lerp r.t0 r.t1 b.2.1, lerp r.x0 r.x1 b.2.2.1, lerp r.x0 r.x1 b.2.2.2⟩

/-- the children of one element in the order of `DummyElement.uniform_refinement` -/
def quarters (r : Rect) : List Rect := childBoxes.map (childOf r)

/-- `elems_fine`: the flattened list of all children -/
def fineRects (coarse : List Rect) : List Rect := coarse.flatMap quarters

/-- number of children per element -/
def nKids : Nat := childBoxes.length

/-! ### vectors and matrices as lists -/

def dot (a b : List Rat) : Rat := (List.zipWith (· * ·) a b).sum

def mulVec (A : List (List Rat)) (v : List Rat) : List Rat := A.map (dot · v)

def vsub (a b : List Rat) : List Rat := List.zipWith (· - ·) a b

def vadd (a b : List Rat) : List Rat := List.zipWith (· + ·) a b

/-- `rhs = zeros(n); if g: rhs += g(elems_fine); if M0: rhs -= M0.linform_vector(elems_fine)` -/
def mkRhs (n : Nat) (g m0 : Option (List Rat)) : List Rat :=
  let r0 := List.replicate n (0 : Rat)
  let r1 := match g with
    | some gv => vadd r0 gv
    | none => r0
  match m0 with
  | some mv => vsub r1 mv
  | none => r1

/-! ### hierarchical estimator -/

def absR (q : Rat) : Rat := if q < 0 then -q else q

def patRat (c : List Int) : List Rat := c.map fun (z : Int) => ((z : Int) : Rat)

/-- one pattern: `|Σ c_j rhs_j - Σ c_j VΦ_j|² / (cᵀ S c)`, with the assertion `scaling_estim > 0` -/
def hierOne (rhs4 v4 : List Rat) (S : List (List Rat)) (c : List Int) : Except String Rat :=
  let cr := patRat c
  let rhsE := dot cr rhs4
  let vE := dot cr v4
  let scaling := dot cr (mulVec S cr)
  if scaling > 0 then .ok (absR (rhsE - vE) ^ 2 / scaling) else .error "assert:scaling"

/-- the local estimators `estim_loc` of one element from the four entries of `rhs`, of `VΦ` and the block `S` -/
def hierLocal (rhs4 v4 : List Rat) (S : List (List Rat)) : Except String (List Rat) :=
  hierPatterns.mapM (hierOne rhs4 v4 S)

/-- the tuple appended to `estims` -/
def hierCombineLoc (e : List Rat) : List Rat := hierCombine.map (dot · e)

def slice (l : List Rat) (i : Nat) : List Rat := (l.drop (nKids * i)).take nKids

/-- `HierarchicalErrorEstimator.estimate`: `mat` is `bilform_matrix(elems_fine, elems_coarse)`, `Ss` lists
`bilform_matrix(children_i, children_i)`, `g`, `m0` the optional data vectors on the fine elements.
The children of element `i` sit at the positions `nKids*i … nKids*i + nKids - 1` of the flattened list. -/
def hierEstimate (mat : List (List Rat)) (phi : List Rat) (g m0 : Option (List Rat))
    (Ss : List (List (List Rat))) : Except String (List (List Rat)) :=
  let vphi := mulVec mat phi
  let rhs := mkRhs mat.length g m0
  (List.zip (List.range Ss.length) Ss).mapM fun p => do
    let e ← hierLocal (slice rhs p.1) (slice vphi p.1) p.2
    pure (hierCombineLoc e)

/-! ### exact linear solve (stand-in for `np.linalg.solve`) -/

/-- elimination on augmented rows `coefficients ++ [rhs]`; `n` = number of unknowns still to eliminate -/
def elim : Nat → List (List Rat) → Option (List Rat)
  | 0, _ => some []
  | n + 1, rows =>
    match rows.find? (fun r => r.headD 0 != 0) with
    | none => none
    | some p =>
      let rest := rows.erase p
      let ph := p.headD 1
      let pn := p.map (· / ph)
      let rest' := rest.map fun r => (List.zipWith (fun a b => a - r.headD 0 * b) r pn).tail
      match elim n rest' with
      | none => none
      | some ys =>
        let tl := pn.tail
        let x0 := tl.getLastD 0 - dot tl.dropLast ys
        some (x0 :: ys)

/-- `np.linalg.solve(A, b)` over ℚ: Gaussian elimination, and the result is only returned after it has been
checked (`A y = b`), so that soundness of `solve` does not depend on the elimination code -/
def solve (A : List (List Rat)) (b : List Rat) : Option (List Rat) :=
  match elim b.length (List.zipWith (fun r bi => r ++ [bi]) A b) with
  | none => none
  | some y => if y.length = b.length ∧ A.length = b.length ∧ mulVec A y = b then some y else none

/-! ### h-h/2 estimator -/

/-- `np.repeat(Phi, k)` -/
def repeatEach (k : Nat) (phi : List Rat) : List Rat := phi.flatMap (List.replicate k)

/-- the piecewise-constant extension `Phi_prolong` -/
def prolong4 (phi : List Rat) : List Rat := repeatEach repeatFactor phi

/-- `HH2ErrorEstimator.estimate`, squared (the code returns `np.sqrt` of this number): `A` is
`bilform_matrix(elems_fine, elems_fine)`.  The code forms `(diff.T @ A) @ diff`; over ℚ this is `diffᵀ (A diff)`,
which is what is written here.  `"singular"` stands for the `LinAlgError` of `np.linalg.solve`, `"shape"` for the
broadcasting error of `Phi_fine - Phi_prolong`, `"index"` for the `IndexError` of `Phi_prolong[1]` on an empty
density. -/
def hh2Sq (A : List (List Rat)) (phi : List Rat) (g m0 : Option (List Rat)) : Except String Rat :=
  let rhs := mkRhs A.length g m0
  match solve A rhs with
  | none => .error "singular"
  | some y =>
    let p := prolong4 phi
    match p[0]?, p[1]? with
    | some a, some b =>
      if a ≠ b then .error "assert:prolong"
      else if p.length ≠ y.length then .error "shape"
      else
        let d := vsub y p
        .ok (dot d (mulVec A d))
    | _, _ => .error "index"

end Stbem.Estim
