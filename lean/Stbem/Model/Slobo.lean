import Stbem.Model.Quad
/-
Model of the curve-aware and the two-piece Slobodeckij routines of `src/norms.py`
(`Slobodeckij.seminorm_h_1_2(f, a, b, gamma)` and `Slobodeckij.seminorm_h_1_2_pw`) over exact
rationals.  The flat routines `semi14`, `semi12` and the point set `semi12pw` live in
`Stbem.Model.Quad`.

Conventions
* a parametrisation is a function `γ : Rat → Rat × Rat`; the Python integrand `f(x_hat, gamma)` is
  modelled as `f : Rat → Rat × Rat → Rat` applied to `x̂` and `γ x̂` (the integrand may use `gamma`
  only through point evaluation at its first argument);
* `np.sum((…)**2, axis=0)` over the two coordinate rows is `dist2`;
* the Python code builds `np.repeat(x, len(x_hat))` with `len(x_hat) = len(gauss_x)`, which
  matches the `product2 gx gl` node order only if both base rules have the same length (the
  constructor passes the same order to both; NumPy raises a broadcast error otherwise) — a
  precondition of the model;
* division by zero (`h = 0`, a node `x = 0`, a Legendre node `y = 1`) raises / produces `nan` in
  Python and is `0` in Lean: excluded by precondition (hypotheses `h ≠ 0`, nodes in `(0,1)` in
  the theorems that need them).

No Mathlib import: this file is linked into the driver executable.
-/

namespace Stbem.Quad

/-- Horner evaluation of `Σ cₖ xᵏ` (the `p:` integrand of the driver protocol) -/
def evalPoly (cs : List Rat) (x : Rat) : Rat := cs.foldr (fun c acc => c + x * acc) 0

/-- a straight piece `γ(x) = p + (x - s)·d` -/
structure Seg where
  p1 : Rat
  p2 : Rat
  d1 : Rat
  d2 : Rat
  s : Rat
deriving Repr, DecidableEq

def Seg.at (g : Seg) (x : Rat) : Rat × Rat := (g.p1 + (x - g.s) * g.d1, g.p2 + (x - g.s) * g.d2)

/-- squared Euclidean distance, summed in NumPy order (row 0 + row 1) -/
def dist2 (p q : Rat × Rat) : Rat := (p.1 - q.1) ^ 2 + (p.2 - q.2) ^ 2

/-- `Slobodeckij.seminorm_h_1_2(f, a, a+h, gamma)` (curve-aware variant) -/
def semi12g (gx gl : Rule1) (γ : Rat → Rat × Rat) (f : Rat → Rat × Rat → Rat) (a h : Rat) : Rat :=
  2 * h ^ 2 * sumR ((product2 gx gl).map fun n =>
    ((f (a + h * n.x) (γ (a + h * n.x)) - f (a + h * (n.x * n.y)) (γ (a + h * (n.x * n.y)))) ^ 2 /
      dist2 (γ (a + h * n.x)) (γ (a + h * (n.x * n.y)))) * n.w)

/-- the binary64 number `1e-7` of `assert b - a > 1e-7 and d - c > 1e-7` in
`QuadScheme2D.integrate` (a `Fraction` is compared with a float exactly) -/
def tol7 : Rat := 944473296573929 / 9444732965739290427392

/-- integrand of the cross term of `seminorm_h_1_2_pw` (the local function `slo`) -/
def sloCross (γ1 γ2 : Rat → Rat × Rat) (f : Rat → Rat × Rat → Rat) (x y : Rat) : Rat :=
  (f x (γ1 x) - f y (γ2 y)) ^ 2 / dist2 (γ1 x) (γ2 y)

/-- `Slobodeckij.seminorm_h_1_2_pw(f, a1, b1, gamma_1, a2, b2, gamma_2)`;
`sameObj` = the two parametrisations are the same Python object -/
def semi12pwVal (gx gl : Rule1) (sameObj : Bool) (γ1 γ2 : Rat → Rat × Rat)
    (f : Rat → Rat × Rat → Rat) (a1 b1 a2 b2 : Rat) : Except String Rat :=
  if sameObj then .error "assert:gamma-identity"
  else if γ1 b1 ≠ γ2 a2 then .error "assert:corner"
  else
    let r1 := semi12g gx gl γ1 f a1 (b1 - a1)
    let r2 := semi12g gx gl γ2 f a2 (b2 - a2)
    if b1 - a1 > tol7 ∧ b2 - a2 > tol7 then
      .ok (r1 + r2 + 2 * integrate2 (semi12pw gx gl) (sloCross γ1 γ2 f) a1 b1 a2 b2)
    else .error "assert:size"

end Stbem.Quad
