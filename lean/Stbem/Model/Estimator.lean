import Stbem.Model.Mesh
/-
Model of the patch logic of `src/error_estimator.py` (`ErrorEstimator.sobolev_space`, `sobolev_time`,
`__integrate_h_1_2`, `__integrate_h_1_4`, `weighted_l2`, `estimate_sobolev`).

* elements are the leaf cells of `Stbem.Mesh` (rectangle, `id` = `glob_idx`, `piece` = index of the
  parametrisation piece = identity of `elem.gamma_space`);
* `edges_axis(0) = (edges[1], edges[3])` are the sides `right` (x = x1) and `left` (x = x0):
  `sobolev_space` walks over the neighbours in the SPACE direction; `edges_axis(1) = (edges[0], edges[2])`
  are `bottom`, `top`: `sobolev_time` walks over the neighbours in TIME;
* the seminorm routines of `src/norms.py` are parameters (tokens): the model fixes which routine is called
  with which arguments, how often, and how the values are summed;
* assertion failures are `Except.error "assert:<tag>"`, a failing dictionary lookup is `"KeyError"`.

No Mathlib import: linked into the driver executable.
-/
namespace Stbem.Estimator
open Stbem.Mesh

def lsum (l : List Rat) : Rat := l.foldr (· + ·) 0

/-! ### `sobolev_space`: patch selection -/

/-- the arguments `(t_a, t_b, elem_left, elem_right)` handed to `__integrate_h_1_2` -/
structure SpacePatch where
  ta : Rat
  tb : Rat
  left : Cell
  right : Option Cell
deriving DecidableEq, Repr

/-- the body of the loop of `sobolev_space` for the pair `(elem, time_nbr)`; `L = self.gamma_len`.
`vertices[0].x = x0`, `vertices[2].x = x1`.  `time_nbr is elem` is identity of mesh elements = equality
of `glob_idx`. -/
def spacePatch (L : Rat) (elem nbr : Cell) : Except String SpacePatch :=
  let ta := max nbr.t0 elem.t0
  let tb := min nbr.t1 elem.t1
  if ¬ ta < tb then .error "assert:t_a<t_b"
  else if nbr.x1 = L ∧ elem.x0 = 0 then .ok ⟨ta, tb, nbr, some elem⟩
  else if elem.x1 = L ∧ nbr.x0 = 0 then .ok ⟨ta, tb, elem, some nbr⟩
  else if elem.x0 < nbr.x0 then .ok ⟨ta, tb, elem, some nbr⟩
  else if nbr.x0 < elem.x0 then .ok ⟨ta, tb, nbr, some elem⟩
  else if nbr.id = elem.id then .ok ⟨ta, tb, elem, none⟩
  else .error "assert:time_nbr-is-elem"

/-- which seminorm routine `__integrate_h_1_2` calls at every outer Gauss point, with which
arguments -/
inductive H12Call
  /-- `seminorm_h_1_2(f, a, b, gamma)` on one element -/
  | single (a b : Rat) (piece : Nat)
  /-- `seminorm_h_1_2(f, left.x0, right.x1, gamma)`: both elements on the same piece -/
  | same (a b : Rat) (piece : Nat)
  /-- `seminorm_h_1_2_pw(f, a1, b1, gamma1, a2, b2, gamma2)` -/
  | pw (a1 b1 : Rat) (p1 : Nat) (a2 b2 : Rat) (p2 : Nat)
deriving DecidableEq, Repr

/-- the branch of `__integrate_h_1_2`.  `closes` stands for
`np.allclose(gamma(left.x1), gamma(right.x0))`; the exact-equality assertion of
`seminorm_h_1_2_pw` (`gamma_1(b_1) == gamma_2(a_2)`) is `closes` as well. -/
def h12Call (closes : Rat → Rat → Bool) (p : SpacePatch) : Except String H12Call :=
  match p.right with
  | none => .ok (.single p.left.x0 p.left.x1 p.left.piece)
  | some r =>
    if p.left.piece = r.piece then
      if closes p.left.x1 r.x0 then .ok (.same p.left.x0 r.x1 p.left.piece)
      else .error "assert:allclose"
    else
      if closes p.left.x1 r.x0 then .ok (.pw p.left.x0 p.left.x1 p.left.piece r.x0 r.x1 r.piece)
      else .error "assert:pw-touch"

/-- points of a closed curve of length `L` with the same image: equal parameters or the two ends -/
def closesCurve (L : Rat) (a b : Rat) : Bool :=
  decide (a = b) || (decide (a = L) && decide (b = 0)) || (decide (a = 0) && decide (b = L))

/-- an outer quadrature rule on `[0, 1]` (`self.gauss`): points and weights -/
structure Rule where
  points : List Rat
  weights : List Rat
deriving Repr

def dot (a b : List Rat) : Rat := lsum (List.zipWith (· * ·) a b)

/-- `__integrate_h_1_2`: `sem t call` is the value of the seminorm routine for the function
`x ↦ residual(t, x)`; the result is `h_t · Σ_i w_i · sem(t_a + h_t p_i)` -/
def integrateH12 (g : Rule) (closes : Rat → Rat → Bool) (sem : Rat → H12Call → Rat) (p : SpacePatch) :
    Except String Rat := do
  let ht := p.tb - p.ta
  let call ← h12Call closes p
  pure (ht * dot (g.points.map fun q => sem (p.ta + ht * q) call) g.weights)

/-! ### `sobolev_time`: patch selection -/

/-- the arguments `(t_a, t_b, x_a, x_b, gamma)` handed to `__integrate_h_1_4` -/
structure TimePatch where
  ta : Rat
  tb : Rat
  xa : Rat
  xb : Rat
  piece : Nat
deriving DecidableEq, Repr

def timePatch (elem nbr : Cell) : Except String TimePatch :=
  if elem.piece ≠ nbr.piece then .error "assert:gamma_space"
  else
    let xa := max nbr.x0 elem.x0
    let xb := min nbr.x1 elem.x1
    if ¬ xa < xb then .error "assert:x_a<x_b"
    else .ok ⟨min nbr.t0 elem.t0, max nbr.t1 elem.t1, xa, xb, elem.piece⟩

/-- `__integrate_h_1_4`: `sem x a b piece` is `seminorm_h_1_4` of `t ↦ residual(t, x)` on `[a, b]` -/
def integrateH14 (g : Rule) (sem : Rat → Rat → Rat → Nat → Rat) (p : TimePatch) : Rat :=
  let hx := p.xb - p.xa
  hx * dot (g.points.map fun q => sem (p.xa + hx * q) p.ta p.tb p.piece) g.weights

/-! ### the loops of `sobolev_space` / `sobolev_time` -/

/-- `time_neighbours` of `sobolev_space`: the element, then the neighbours across `edges[1]` (x = x1)
and `edges[3]` (x = x0) -/
def spaceNbrs (m : Mesh) (c : Cell) : List Cell := c :: (nbrs m c .right ++ nbrs m c .left)

/-- `space_neighbours` of `sobolev_time`: the element, then the neighbours across `edges[0]` (t = t0)
and `edges[2]` (t = t1) -/
def timeNbrs (m : Mesh) (c : Cell) : List Cell := c :: (nbrs m c .bottom ++ nbrs m c .top)

/-- the loop over the neighbour list: `ev elem nbr` evaluates one pair; with `sym` the pairs with
`elem.glob_idx > nbr.glob_idx` are skipped.  Returns `(fsum of the values, ips)`. -/
def sobolevLoop (ev : Cell → Cell → Except String Rat) (sym : Bool) (elem : Cell) (ns : List Cell) :
    Except String (Rat × List (Nat × Rat)) := do
  let ips ← (ns.filter fun n => !(sym && decide (elem.id > n.id))).mapM fun n => do
    let v ← ev elem n
    pure (n.id, v)
  if ips.length < 1 then .error "assert:len(ips)"
  pure (lsum (ips.map (·.2)), ips)

def evSpace (L : Rat) (F : SpacePatch → Except String Rat) (elem nbr : Cell) : Except String Rat := do
  let p ← spacePatch L elem nbr
  F p

def evTime (F : TimePatch → Except String Rat) (elem nbr : Cell) : Except String Rat := do
  let p ← timePatch elem nbr
  F p

/-! ### `estimate_sobolev` -/

/-- `glob_2_loc[id]` of the dict comprehension `{elem.glob_idx: i for i, elem in enumerate(elems)}`:
a later element with the same index overwrites an earlier one -/
def glob2loc (elems : List Cell) (id : Nat) : Option Nat :=
  let rec go (i : Nat) (found : Option Nat) : List Cell → Option Nat
    | [] => found
    | e :: l => go (i + 1) (if e.id = id then some i else found) l
  go 0 none elems

def addAt (l : List Rat) (i : Nat) (v : Rat) : List Rat := l.modify i (· + v)

/-- `glob_2_loc[elem_nbr]` -/
def lookup (elems : List Cell) (p : Nat × Rat) : Except String (Nat × Rat) :=
  match glob2loc elems p.1 with
  | some j => .ok (j, p.2)
  | none => .error "KeyError"

/-- the contributions `(position, value)` that element number `i` makes: its own sum, and every
value of a pair with a neighbour of larger index to that neighbour -/
def contribs (elems : List Cell) (i : Nat) (e : Cell) (r : Rat × List (Nat × Rat)) :
    Except String (List (Nat × Rat)) := do
  let extra ← (r.2.filter fun p => decide (e.id < p.1)).mapM (lookup elems)
  pure ((i, r.1) :: extra)

def enumFrom' {α} : Nat → List α → List (Nat × α)
  | _, [] => []
  | i, a :: l => (i, a) :: enumFrom' (i + 1) l

/-- one column of the array `sobolev` after the accumulation loop -/
def accumulate (elems : List Cell) (res : List (Rat × List (Nat × Rat))) : Except String (List Rat) := do
  let cs ← (enumFrom' 0 (elems.zip res)).mapM fun p => contribs elems p.1 p.2.1 p.2.2
  pure (cs.flatten.foldl (fun acc p => addAt acc p.1 p.2) (List.replicate elems.length 0))

/-- `estimate_sobolev(elems, residual)`, serial path: all `sobolev_time` calls, then all
`sobolev_space` calls (both with `nbrs_symmetry=True`), then the accumulation; the result lists
`(sobolev[i, 0], sobolev[i, 1])` = (time, space) -/
def estimateSobolev (m : Mesh) (evT evS : Cell → Cell → Except String Rat) (elems : List Cell) :
    Except String (List (Rat × Rat)) := do
  let st ← elems.mapM fun e => sobolevLoop evT true e (timeNbrs m e)
  let ss ← elems.mapM fun e => sobolevLoop evS true e (spaceNbrs m e)
  let c0 ← accumulate elems st
  let c1 ← accumulate elems ss
  pure (c0.zip c1)

/-- the worker functions `MP_estim_sobolev_*(i)`: look element `i` up in the global list -/
def workerAt {β} (elems : List Cell) (f : Cell → Except String β) (i : Nat) : Except String β :=
  match elems[i]? with
  | some e => f e
  | none => .error "IndexError"

/-- the pool path: `p.map(MP_estim_sobolev_time, range(N), chunk)`; `pmap f N chunk` is the pool's `map` of
`f` over `range(N)` with the given chunk size -/
def estimateSobolevPool (pmap : (Nat → Except String (Rat × List (Nat × Rat))) → Nat → Nat →
      List (Except String (Rat × List (Nat × Rat))))
    (cpu : Nat) (m : Mesh) (evT evS : Cell → Cell → Except String Rat) (elems : List Cell) :
    Except String (List (Rat × Rat)) := do
  let N := elems.length
  let chunk := N / (cpu * 8) + 1
  let st ← (pmap (workerAt elems fun e => sobolevLoop evT true e (timeNbrs m e)) N chunk).mapM id
  let ss ← (pmap (workerAt elems fun e => sobolevLoop evS true e (spaceNbrs m e)) N chunk).mapM id
  let c0 ← accumulate elems st
  let c1 ← accumulate elems ss
  pure (c0.zip c1)

/-- the definition of the indicators: for every element its own term plus one term per neighbour
(`sobolev_time(elem)` / `sobolev_space(elem)` with `nbrs_symmetry=False`) -/
def directSobolev (m : Mesh) (evT evS : Cell → Cell → Except String Rat) (elems : List Cell) :
    Except String (List (Rat × Rat)) :=
  elems.mapM fun e => do
    let t ← sobolevLoop evT false e (timeNbrs m e)
    let s ← sobolevLoop evS false e (spaceNbrs m e)
    pure (t.1, s.1)

/-! ### `weighted_l2` -/

/-- `weighted_l2(elem, residual)`: `pts`, `wts` = the product Gauss rule on the unit square,
`r t x piece` the residual, `sqrtHt` the value of `sqrt(elem.h_t)` -/
def weightedL2 (pts : List (Rat × Rat)) (wts : List Rat) (r : Rat → Rat → Nat → Rat) (sqrtHt : Rat)
    (c : Cell) : Rat × Rat :=
  let ht := c.t1 - c.t0
  let hx := c.x1 - c.x0
  let resL2 := dot (pts.map fun p => (r (c.t0 + ht * p.1) (c.x0 + hx * p.2) c.piece) ^ 2) wts
  (sqrtHt * hx * resL2, ht * resL2)

end Stbem.Estimator
