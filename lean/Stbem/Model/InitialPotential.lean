/-
Model of `src/initial_potential.py`: `InitialOperator.__init__` (which 3-D schemes are built from which
1-D rule) and `InitialOperator.linform(elem_trial)` = `<M₀ u₀, 1_trial>`, over exact rationals.

What is a PARAMETER (never evaluated symbolically, handed in by the caller — the harness passes rational
stand-ins, the theorems quantify over them)
* `Ctx.rule`   the 1-D rule returned by `log_quadrature_scheme(quad_int, quad_int)`,
* `Ctx.fns`    the special functions / constants of the generated formulas (`Stbem.Formulas.Q.Fns`): of
               these `e1` (= `scipy.special.exp1`), `pi` (= `np.pi`, used by the closure
               `time_integrated_kernel`) and `fpiInv` (= the module constant `FPI_INV`, used by the inline
               kernel of the touching / far cells) are read,
* `Ctx.u0`     the initial datum as a function of the two coordinates of a point.

What is modelled, statement by statement
* `__init__`: `duff_3d_id = DuffySchemeIdentical3D(ProductScheme3D(log_scheme), symmetric_xy=False)` and
  `duff_3d_touch = DuffySchemeTouch3D(ProductScheme3D(log_scheme))` (`duffId`, `duffTouch`; the evaluation
  schemes `space_integrator`, `gauss_2d` are not used by `linform`);
* `G_time = time_integrated_kernel(a, b)`: the GENERATED `Stbem.Formulas.Q.ip_tik` (regenerated from the
  source text on every run); it is used by the identical cell only;
* `initial_mesh = self.initial_mesh(γ(c), γ(d))`: `refineMshBdr` on a fresh domain mesh (the three helpers
  `Unit/Pi/LShapeBoundaryRefined` create the mesh and call `refine_msh_bdr`; the element it returns is
  dropped); `vertex_from_coords` twice, `assert v0 is not None and v1 is not None`;
* the loop over `initial_mesh.leaf_elements` with the tests the code performs, in its order:
  1. `v0 in elem.vertices and v1 in elem.vertices` → `id_bdr += 1`, `connected_to_vertex(v0)` with its two
     assertions, `assert len(tmp) == 1`, `γ_Q(x,z) = n₀ + (n₁−n₀)x + (n₂−n₀)z`, integrand
     `u₀(γ_Q(x,z)) · G_time(h²((x−y)²+z²))` on `duff_3d_id`, Jacobian `h³`, `h = d − c`;
  2. `v0 in elem.vertices` → `n₂, n₃ = connected_to_vertex(v0)` (order of `elem.vertices`),
     `γ_K(y) = n₀ + (n₁−n₀)y`, `γ_Q(x,z) = n₀ + (n₂−n₀)x + (n₃−n₀)z`, `assert γ_Q(0,0) == γ_K(0)`;
  3. `v1 in elem.vertices` → the same from `n₁`: `γ_K(y) = n₁ + (n₀−n₁)y`;
  4. else `γ_K(y) = n₀ + (n₁−n₀)y`, `γ_Q = elem.gamma()` (`vertices[0]`, `[1]`, `[3]`);
  cases 2–4 all use `duff_3d_touch` (the code has no separate regular rule) with the INLINE kernel
  `u₀(γ_Q) · (E₁(r²/4b) [− E₁(r²/4a) if a ≠ 0])`, `r² = |γ_Q(x,z) − γ_K(y)|²`, and the factor
  `elem.diam² · (d − c) · FPI_INV`;
* `assert id_bdr == 1`; `math.fsum` of the contributions (exact sum); the returned pair
  `(sum, [(elem, val)])` (elements are identified by their index in `InitialMesh.elements`).

What is abstracted
* vertex identity = vertex coordinates (`v0 in elem.vertices` compares `Vertex` objects; coordinates are
  pairwise different in every reachable mesh: `QInv.verts`, C16); the found vertex has the coordinates that
  were looked up (`isclose` = equality, as in `Stbem.Model.Quadtree`);
* `leaf_elements` is a Python `set`: the loop order carries no meaning for the exact sum and for the final
  `assert id_bdr == 1`; the model runs over `QT.leaves` in list order and the driver prints the contributions
  sorted by element index;
* the two discarded `math.isclose(...)` calls have no effect and are not modelled;
  `assert self.initial_mesh is not None` is a configuration precondition.

No Mathlib import: linked into the driver executable.
-/
import Stbem.Model.Quadtree
import Stbem.Model.Quad
import Stbem.Gen.FormulasQ

namespace Stbem.InitPot
open Stbem.Quadtree Stbem.Quad

abbrev Pt := Rat × Rat

/-- everything numerical that `linform` reads from its environment -/
structure Ctx where
  /-- `log_quadrature_scheme(quad_int, quad_int)` -/
  rule : Rule1
  /-- `exp1`, `np.pi`, `FPI_INV` (fields `e1`, `pi`, `fpiInv`) -/
  fns : Stbem.Formulas.Q.Fns
  /-- the initial datum `u0(xy)` -/
  u0 : Rat → Rat → Rat

/-- the boundary element as `linform` reads it: `time_interval = (a, b)`, `space_interval = (c, d)`,
`p0 = gamma_space(c)`, `p1 = gamma_space(d)` -/
structure Seg where
  a : Rat
  b : Rat
  c : Rat
  d : Rat
  p0 : Pt
  p1 : Pt
deriving Repr

/-! ### `InitialOperator.__init__` -/

/-- `self.duff_3d_id = DuffySchemeIdentical3D(ProductScheme3D(self.log_scheme), symmetric_xy=False)` -/
def duffId (r : Rule1) : Rule3 := duffyId3 (product3 r) false

/-- `self.duff_3d_touch = DuffySchemeTouch3D(ProductScheme3D(self.log_scheme))` -/
def duffTouch (r : Rule1) : Rule3 := duffyTouch3 (product3 r)

/-! ### geometry helpers -/

/-- `elem.vertices` as coordinates, in the order `v0, v1, v2, v3` -/
def corners (e : Elem) : List Pt :=
  [(e.x0, e.y0), (e.x0 + e.size, e.y0), (e.x0 + e.size, e.y0 + e.size), (e.x0, e.y0 + e.size)]

/-- `Element.connected_to_vertex(vertex)`: the vertices that share exactly one coordinate with `vertex`, in
the order of `elem.vertices`; the two assertions of the method -/
def connected (e : Elem) (v : Pt) : Except String (List Pt) :=
  if v ∉ corners e then .error "assert:connected-member"
  else
    let r := (corners e).filter fun w => (w.1 == v.1) != (w.2 == v.2)
    if r.length ≠ 2 then .error "assert:connected-two" else pure r

/-- `n0 + (na - n0) * x + (nb - n0) * z` -/
def aff2 (n0 na nb : Pt) (x z : Rat) : Pt :=
  (n0.1 + (na.1 - n0.1) * x + (nb.1 - n0.1) * z, n0.2 + (na.2 - n0.2) * x + (nb.2 - n0.2) * z)

/-- `n0 + (n1 - n0) * y` -/
def aff1 (n0 n1 : Pt) (y : Rat) : Pt := (n0.1 + (n1.1 - n0.1) * y, n0.2 + (n1.2 - n0.2) * y)

/-- `xz_y = (xz - y)**2; xz_y[0] + xz_y[1]` -/
def dist2 (p q : Pt) : Rat := (p.1 - q.1) ^ 2 + (p.2 - q.2) ^ 2

/-- the inline kernel of the touching / far cells (without the factor `FPI_INV`):
`exp1(r2 / (4 b))` if `a == 0`, else `exp1(r2 / (4 b)) - exp1(r2 / (4 a))` -/
def inlineKernel (e1 : Rat → Rat) (a b r2 : Rat) : Rat :=
  if a = 0 then e1 (r2 / (4 * b)) else e1 (r2 / (4 * b)) - e1 (r2 / (4 * a))

/-! ### the cells -/

/-- the four branches of the loop body -/
inductive CellClass | identical | touch0 | touch1 | far
deriving DecidableEq, Repr

/-- which branch the loop body takes for the leaf `e` (the tests of the code, in its order) -/
def cellClass (s : Seg) (e : Elem) : CellClass :=
  if s.p0 ∈ corners e ∧ s.p1 ∈ corners e then .identical
  else if s.p0 ∈ corners e then .touch0
  else if s.p1 ∈ corners e then .touch1
  else .far

/-- value of the identical cell: `h**3 * np.dot(f(duff_3d_id.points), duff_3d_id.weights)` -/
def identicalVal (C : Ctx) (s : Seg) (n2 : Pt) : Rat :=
  let h := s.d - s.c
  h ^ 3 * apply3 (duffId C.rule) fun x y z =>
    (let p := aff2 s.p0 s.p1 n2 x z; C.u0 p.1 p.2) *
      Stbem.Formulas.Q.ip_tik C.fns s.a s.b (h ^ 2 * ((x - y) ^ 2 + z ^ 2))

/-- value of a touching / far cell with the parametrisations `gQ`, `gK`:
`elem.diam**2 * (d - c) * FPI_INV * np.dot(fx, duff_3d_touch.weights)` -/
def touchVal (C : Ctx) (s : Seg) (e : Elem) (gQ : Rat → Rat → Pt) (gK : Rat → Pt) : Rat :=
  e.size ^ 2 * (s.d - s.c) * C.fns.fpiInv * apply3 (duffTouch C.rule) fun x y z =>
    (let p := gQ x z; C.u0 p.1 p.2) * inlineKernel C.fns.e1 s.a s.b (dist2 (gQ x z) (gK y))

/-- `n2, n3 = [v.xy_np for v in elem.connected_to_vertex(v)]`, the two parametrisations from the vertex `v`
towards `w` (the other end of the segment) and `assert np.all(gamma_Q(0, 0) == gamma_K(0))` -/
def touchParams (e : Elem) (v w : Pt) : Except String ((Rat → Rat → Pt) × (Rat → Pt)) := do
  let conn ← connected e v
  match conn with
  | [n2, n3] =>
    let gQ := aff2 v n2 n3
    let gK := aff1 v w
    if gQ 0 0 ≠ gK 0 then .error "assert:touch-origin" else pure (gQ, gK)
  | _ => .error "unpack"

/-- what the loop body derives from the geometry alone (independent of `u0`, the rule and the kernel): the third
vertex `n2` of the identical cell, or the two parametrisations of a touching / far cell -/
inductive Geom where
  | ident (n2 : Pt)
  | touch (gQ : Rat → Rat → Pt) (gK : Rat → Pt)

/-- the geometric part of the loop body, with its assertions -/
def cellGeom (s : Seg) (e : Elem) : Except String Geom :=
  match cellClass s e with
  | .identical => do
    -- `tmp = [v for v in elem.connected_to_vertex(v0) if v is not v1]; assert len(tmp) == 1`
    let conn ← connected e s.p0
    match conn.filter (fun v => decide (v ≠ s.p1)) with
    | [n2] => pure (.ident n2)
    | _ => .error "assert:tmp"
  | .touch0 => do
    let (gQ, gK) ← touchParams e s.p0 s.p1
    pure (.touch gQ gK)
  | .touch1 => do
    let (gQ, gK) ← touchParams e s.p1 s.p0
    pure (.touch gQ gK)
  | .far =>
    -- `gamma_K = lambda y: n0 + (n1 - n0) * y; gamma_Q = elem.gamma()`
    pure (.touch (aff2 (e.x0, e.y0) (e.x0 + e.size, e.y0) (e.x0, e.y0 + e.size)) (aff1 s.p0 s.p1))

/-- the numerical part of the loop body: `(counts for id_bdr, contribution)` -/
def Geom.val (C : Ctx) (s : Seg) (e : Elem) : Geom → Bool × Rat
  | .ident n2 => (true, identicalVal C s n2)
  | .touch gQ gK => (false, touchVal C s e gQ gK)

/-- the loop body: `(counts for id_bdr, contribution)` -/
def cellVal (C : Ctx) (s : Seg) (e : Elem) : Except String (Bool × Rat) :=
  (cellGeom s e).map (Geom.val C s e)

/-- the loop over the leaves: `(element index, counts for id_bdr, contribution)` in leaf order -/
def cells (C : Ctx) (s : Seg) (leaves : List Elem) : Except String (List (Nat × Bool × Rat)) :=
  leaves.mapM fun e => (cellVal C s e).map fun r => (e.id, r)

/-- the part of `linform` after the domain mesh has been created -/
def linformOn (C : Ctx) (m : QT) (s : Seg) : Except String (Rat × List (Nat × Rat)) := do
  -- `v0 = initial_mesh.vertex_from_coords(γ(c)); v1 = …; assert v0 is not None and v1 is not None`
  let i0 ← vertexFromCoords m s.p0.1 s.p0.2
  let i1 ← vertexFromCoords m s.p1.1 s.p1.2
  if i0.isNone || i1.isNone then .error "assert:vertex-none"
  else do
    let cs ← cells C s m.leaves
    -- `assert id_bdr == 1`
    if (cs.filter fun c => c.2.1).length ≠ 1 then .error "assert:id_bdr"
    else
      let ips := cs.map fun c => (c.1, c.2.2)
      -- `return math.fsum([val for elem, val in ips]), ips`
      pure (sumR (ips.map (·.2)), ips)

/-- `InitialOperator.linform(elem_trial)` with `self.initial_mesh = <domain>BoundaryRefined`:
`dom` is the fresh domain mesh (`UnitSquare()`, `LShape()`, …), `fuel` bounds the rounds of
`refine_msh_bdr` (level of the segment + 1 suffices, `Stbem.Quadtree.bdr_target`) -/
def linform (C : Ctx) (dom : QT) (fuel : Nat) (s : Seg) : Except String (Rat × List (Nat × Rat)) := do
  let (m, _) ← refineMshBdr fuel dom s.p0 s.p1
  linformOn C m s

/-- the serial branch of `linform_vector` (`vec[j], _ = self.linform(elem_trial)`); the cache and the
worker pool are modelled in `Stbem.Model.Assembly` -/
def linformVector (C : Ctx) (dom : QT) (fuel : Nat) (segs : List Seg) : Except String (List Rat) :=
  segs.mapM fun s => (linform C dom fuel s).map (·.1)

end Stbem.InitPot
