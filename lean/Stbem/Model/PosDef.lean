/-
  Positive-definiteness certificate checker (property C13).  Mathlib-free, executable.

  A dense matrix is a list of rows (`List (List α)`).  The functions are written once, over any carrier `α` with the
  core arithmetic classes, so that the SAME definitions run in the driver over `Rat` and are reasoned about over an
  arbitrary ordered field in `Stbem/Lemmas/PosDef*.lean` (the transfer ℚ → ℝ is the theorem that the run over `Rat`
  commutes with the cast).  `Mat`/`certScaledQ`/`checkQ` at the end fix `α := Rat` with the instances of core Lean: these
  are the constants the driver calls.

  * `symPart A        = (A + Aᵀ)/2`
  * `scaledShift A μ  = symPart A − μ·diag(symPart A)`
  * `ldlAux`/`ldlPivots` — symmetric Gaussian elimination without pivoting.  One step on
        M = [ a  rᵀ ]      pivot a (must be > 0),   s = (r + c)/2,    Schur complement  S = B − s sᵀ / a .
            [ c  B  ]
    On a symmetric matrix (`r = c`, the only use in the driver: `scaledShift` is symmetric by construction) this is the
    textbook LDLᵀ recursion; taking the mean of row and column makes the quadratic-form identity
        xᵀ M x = a (x₀ + s·x'/a)² + x'ᵀ S x'
    hold for EVERY square matrix, so the soundness/completeness theorems need no symmetry hypothesis.
  * `certPD M := ldlPivots M ≠ none`.
-/
namespace Stbem.PosDef

section generic
variable {α : Type} [Add α] [Sub α] [Mul α] [Div α] [OfNat α 0] [OfNat α 2] [LT α] [DecidableLT α]

/-- Euclidean pairing (truncating at the shorter list). -/
def dot : List α → List α → α
  | a :: as, b :: bs => a * b + dot as bs
  | _, _ => 0

/-- `M x` -/
def mulVec (M : List (List α)) (x : List α) : List α := M.map (dot · x)

/-- the quadratic form `xᵀ M x` -/
def quad (M : List (List α)) (x : List α) : α := dot x (mulVec M x)

/-- `Σ dᵢ xᵢ²` -/
def sqsum (d x : List α) : α := dot (List.zipWith (· * ·) d x) x

/-- first column -/
def heads (M : List (List α)) : List α := M.map (·.headD 0)

/-- the matrix without its first column -/
def tails (M : List (List α)) : List (List α) := M.map List.tail

/-- transpose of a matrix with `n` columns -/
def transposeN : Nat → List (List α) → List (List α)
  | 0, _ => []
  | n + 1, M => heads M :: transposeN n (tails M)

/-- `(A + Aᵀ)/2` -/
def symPart (A : List (List α)) : List (List α) :=
  List.zipWith (List.zipWith fun a b => (a + b) / 2) A (transposeN A.length A)

/-- the first `n` diagonal entries -/
def diagN : Nat → List (List α) → List α
  | n + 1, (a :: _) :: rest => a :: diagN n (tails rest)
  | _, _ => []

/-- subtract `dᵢ` from the `i`-th diagonal entry -/
def shiftDiag : List (List α) → List α → List (List α)
  | (a :: r) :: rest, d :: ds =>
      ((a - d) :: r) :: List.zipWith (fun c row => c :: row) (heads rest) (shiftDiag (tails rest) ds)
  | M, _ => M

/-- `sym(A) − μ·diag(sym(A))` -/
def scaledShift (A : List (List α)) (μ : α) : List (List α) :=
  let S := symPart A
  shiftDiag S ((diagN S.length S).map (μ * ·))

/-- Schur complement `B − s sᵀ / a`. -/
def schur (a : α) (s : List α) (B : List (List α)) : List (List α) :=
  List.zipWith (fun si row => List.zipWith (fun b sj => b - si * sj / a) row s) s B

/-- the mean of first row (without the pivot) and first column (without the pivot) -/
def rowcol (r : List α) (rest : List (List α)) : List α :=
  List.zipWith (fun x y => (x + y) / 2) r (heads rest)

/-- `k` elimination steps.  `.ok pivots`, or `.error j` where `j` = number of steps that were still to do when a pivot
    was not positive (or the shape was wrong): the failing pivot has index `n - j`. -/
def ldlAux : Nat → List (List α) → Except Nat (List α)
  | 0, _ => .ok []
  | k + 1, (a :: r) :: rest =>
      if 0 < a then
        match ldlAux k (schur a (rowcol r rest) (tails rest)) with
        | .ok ps => .ok (a :: ps)
        | .error j => .error j
      else .error (k + 1)
  | k + 1, _ => .error (k + 1)

/-- pivots of the elimination, `none` when a pivot is ≤ 0 -/
def ldlPivots (M : List (List α)) : Option (List α) :=
  match ldlAux M.length M with
  | .ok ps => some ps
  | .error _ => none

/-- the certificate: all `n` pivots are positive -/
def certPD (M : List (List α)) : Bool := (ldlPivots M).isSome

/-- well-shaped `n × n` -/
def isSquare (n : Nat) (M : List (List α)) : Bool := M.length == n && M.all (·.length == n)

/-! ### hint-based certificate (for matrices too large for the exact elimination)

  `R` is an untrusted hint (the harness takes the transposed inverse of a floating-point Cholesky factor, so that
  `N = Rᵀ M R ≈ I`).  The check: `N` is strictly diagonally dominant, rows and columns together:
  `Σⱼ|nᵢⱼ| + Σⱼ|nⱼᵢ| < 4 nᵢᵢ` for every `i`.  Then the form of `N` is positive definite, `R` is invertible and the form of
  `M` is positive definite (theorem `domCert_sound`); cost `O(n³)` operations on short dyadic numbers instead of the
  `O(n³)` operations on `O(n)`-times longer numbers of the exact elimination. -/

def absv (x : α) : α := if x < 0 then 0 - x else x

def sumAbs : List α → α
  | [] => 0
  | a :: as => absv a + sumAbs as

/-- `A B` for `B` with `n` columns -/
def matMul (n : Nat) (A B : List (List α)) : List (List α) :=
  let Bt := transposeN n B
  A.map fun row => Bt.map (dot row)

/-- `rᵢ + cᵢ < 4 dᵢ` for all `i` -/
def domOK : List α → List α → List α → Bool
  | r :: rs, c :: cs, d :: ds => decide (r + c < (d + d) + (d + d)) && domOK rs cs ds
  | [], [], [] => true
  | _, _, _ => false

/-- `Rᵀ M R` -/
def congr (n : Nat) (M R : List (List α)) : List (List α) := matMul n (transposeN n R) (matMul n M R)

def domCert (n : Nat) (M R : List (List α)) : Bool :=
  let N := congr n M R
  isSquare n M && isSquare n R && domOK (N.map sumAbs) ((transposeN n N).map sumAbs) (diagN n N)

end generic

/-! ### the instances run by the driver -/

abbrev Mat := List (List Rat)

/-- decides `λ_min(D^{-1/2} sym(A) D^{-1/2}) > μ` for a rational matrix (theorem `certScaledQ_iff`) -/
def certScaledQ (A : Mat) (μ : Rat) : Bool := certPD (scaledShift A μ)

/-- result of the driver command: pivots of `scaledShift A μ`, or the index of the first non-positive pivot -/
def checkQ (A : Mat) (μ : Rat) : Except Nat (List Rat) :=
  let M := scaledShift A μ
  match ldlAux M.length M with
  | .ok ps => .ok ps
  | .error j => .error (M.length - j)

/-- hint-based variant of `certScaledQ`: `true` implies `certScaledQ A μ = true` (theorem `domCertScaledQ_sound`) -/
def domCertScaledQ (A : Mat) (μ : Rat) (R : Mat) : Bool := domCert A.length (scaledShift A μ) R

def minOf : List Rat → Rat
  | [] => 0
  | p :: ps => ps.foldl (fun m q => if q < m then q else m) p

end Stbem.PosDef
