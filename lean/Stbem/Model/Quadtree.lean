/-
Model of `src/initial_mesh.py` (`Vertex`, `Element`, `InitialMesh`): the quadtree of the domain Ω.

State
* `elems`  : every element ever created, in creation order (`InitialMesh.elements`; `id` = index),
* `leaves` : the current leaves (`InitialMesh.leaf_elements`, a Python `set`: the order carries no
             meaning; here the refined leaf is removed and its four children are appended),
* `verts`  : the vertex coordinates in creation order (`InitialMesh.vertices`).

An element is the axis-parallel square `[x0, x0+size] × [y0, y0+size]` with exact `Rat` coordinates; its
four vertices are `v0 = (x0,y0)`, `v1 = (x0+size,y0)`, `v2 = (x0+size,y0+size)`, `v3 = (x0,y0+size)` and
its edges, in the order of `Element.edges`, are `bottom = (v0,v1)`, `right = (v1,v2)`, `top = (v2,v3)`,
`left = (v3,v0)`.

What is abstracted (and checked by the correspondence run `harness/checks/C16.py`)
* vertex identity = vertex coordinates.  The three dictionaries keyed by pairs of `Vertex` objects are
  represented by their geometric content:
  - `(b,a) in self.nbrs` for the edge `(a,b)` of `e` on side `s`  ⇔  some element (leaf or not) is the
    square of the same size on the other side of `s` (`findSq` at `nbrOrigin e s`): an element registers
    exactly its own four directed edges, and a directed edge determines the square on its left;
  - `(a,b) in self.parent_edge`  ⇔  `e` is the `pos`-th child of its parent and side `s` of `e` is one
    half of side `s` of the parent (`onParentEdge`); `self.parent_edge[(a,b)]` is then side `s` of the
    parent, and `self.nbrs[(pb,pa)]` is the element that is the square of the parent's size across it;
  - `(b,a) in self.__bisect_edge`  ⇔  the same-size element across the side exists and has been refined.
  This is faithful for initial meshes whose roots are congruent squares of one common grid with pairwise
  different vertex coordinates (`UnitSquare`, `PiSquare` in units of π, `LShape`); `initExplicit` rejects
  everything else as `unsupported`.
* `math.isclose` / the `eps` tolerance of `refine_msh_bdr` are equality / exact comparison (distinct
  dyadic coordinates of depth ≤ 29 differ by more than the relative tolerance 1e-9).
* the first scan of `refine_msh_bdr` runs over the Python `set` of leaves in an arbitrary order; the model
  scans `leaves` in list order.  The result does not depend on the order when at most one leaf has an edge
  containing the segment (always the case for a boundary segment of a tiling).
* `uniform_refine` iterates `list(self.leaf_elements)`: the order is an input of `uniformRefine`.

No Mathlib import: linked into the driver executable.
-/

namespace Stbem.Quadtree

/-- sides of an element in the order of `Element.edges` -/
inductive Side | bottom | right | top | left
deriving DecidableEq, Repr

def Side.all : List Side := [.bottom, .right, .top, .left]

/-- unit vector pointing out of the element across the side -/
def Side.dx : Side → Rat
  | .right => 1
  | .left => -1
  | _ => 0
def Side.dy : Side → Rat
  | .top => 1
  | .bottom => -1
  | _ => 0

structure Elem where
  x0 : Rat
  y0 : Rat
  size : Rat
  level : Nat
  id : Nat
  par : Option Nat
  /-- index among the children of the parent (`0..3`, order of the `children` list of `refine`);
  `4` for a root -/
  pos : Nat
deriving DecidableEq, Repr

structure QT where
  elems : List Elem
  leaves : List Elem
  verts : List (Rat × Rat)
deriving Repr

/-! ### the dictionaries, geometrically -/

/-- the element (leaf or not) that is the square with lower left corner `(x,y)` and side `s` -/
def findSq (m : QT) (x y s : Rat) : Option Elem :=
  m.elems.find? fun f => decide (f.x0 = x ∧ f.y0 = y ∧ f.size = s)

/-- lower left corner of the square of the same size across side `s` -/
def nbrX (e : Elem) (s : Side) : Rat := e.x0 + s.dx * e.size
def nbrY (e : Elem) (s : Side) : Rat := e.y0 + s.dy * e.size

/-- offset of the `pos`-th child inside its parent, in units of the child size -/
def posDx : Nat → Rat
  | 1 => 1
  | 2 => 1
  | _ => 0
def posDy : Nat → Rat
  | 2 => 1
  | 3 => 1
  | _ => 0

/-- `(a,b) in self.parent_edge` for the edge of the `pos`-th child on side `s`:
child 0 = `[v0,v01,vi,v30]` owns halves of `bottom` and `left`, child 1 of `bottom`, `right`,
child 2 of `right`, `top`, child 3 of `top`, `left` -/
def onParentEdge : Nat → Side → Bool
  | 0, .bottom => true
  | 0, .left => true
  | 1, .bottom => true
  | 1, .right => true
  | 2, .right => true
  | 2, .top => true
  | 3, .top => true
  | 3, .left => true
  | _, _ => false

/-- lower left corner of the square of the parent's size across side `s` of the parent -/
def pnbrX (e : Elem) (s : Side) : Rat := e.x0 - posDx e.pos * e.size + s.dx * (2 * e.size)
def pnbrY (e : Elem) (s : Side) : Rat := e.y0 - posDy e.pos * e.size + s.dy * (2 * e.size)

/-- `(b,a) in self.__bisect_edge`: the same-size element across side `s` has been refined -/
def bisected (m : QT) (e : Elem) (s : Side) : Bool :=
  match findSq m (nbrX e s) (nbrY e s) e.size with
  | some n => !decide (n ∈ m.leaves)
  | none => false

/-- mid point of side `s` -/
def mid (e : Elem) : Side → Rat × Rat
  | .bottom => (e.x0 + e.size / 2, e.y0)
  | .right => (e.x0 + e.size, e.y0 + e.size / 2)
  | .top => (e.x0 + e.size / 2, e.y0 + e.size)
  | .left => (e.x0, e.y0 + e.size / 2)

/-- the four children in the order `[v0,v01,vi,v30], [v01,v1,v12,vi], [vi,v12,v2,v23], [v30,vi,v23,v3]` -/
def children (n : Nat) (e : Elem) : List Elem :=
  let h := e.size / 2
  [⟨e.x0, e.y0, h, e.level + 1, n, some e.id, 0⟩,
   ⟨e.x0 + h, e.y0, h, e.level + 1, n + 1, some e.id, 1⟩,
   ⟨e.x0 + h, e.y0 + h, h, e.level + 1, n + 2, some e.id, 2⟩,
   ⟨e.x0, e.y0 + h, h, e.level + 1, n + 3, some e.id, 3⟩]

/-- the part of `refine` after the balance closure: `bisect_edge` on the four edges in order (a vertex is
created unless the reversed edge has been bisected), the centre vertex, the four children -/
def bisect (m : QT) (e : Elem) : QT :=
  let newv := (Side.all.filter fun s => !bisected m e s).map (mid e) ++
    [(e.x0 + e.size / 2, e.y0 + e.size / 2)]
  let ch := children m.elems.length e
  { elems := m.elems ++ ch,
    leaves := (m.leaves.filter fun l => decide (l ≠ e)) ++ ch,
    verts := m.verts ++ newv }

/-! ### `InitialMesh.refine` -/

/-- `InitialMesh.refine(element)`.  `fuel` bounds the recursion depth (`level + 1` suffices: the
recursion goes to an element of the previous level).  An element that is not a leaf trips
`assert not (a, b) in self.__bisect_edge` (after its balance closure has run, as in the code). -/
def refine : Nat → QT → Elem → Except String QT
  | 0, _, _ => .error "fuel"
  | fuel + 1, m, e => do
    let m ← Side.all.foldlM (fun (m : QT) s =>
      -- `if not (b, a) in self.nbrs`
      if (findSq m (nbrX e s) (nbrY e s) e.size).isSome then pure m
      -- `if not (a, b) in self.parent_edge: continue`
      else if !onParentEdge e.pos s then pure m
      -- `if (pb, pa) in self.nbrs`
      else match findSq m (pnbrX e s) (pnbrY e s) (2 * e.size) with
        | none => pure m
        | some n =>
          if n.level + 1 ≠ e.level then .error "assert:level"
          else refine fuel m n) m
    if !decide (e ∈ m.leaves) then .error "assert:bisected"
    else pure (bisect m e)

def findElem (m : QT) (id : Nat) : Option Elem := m.elems.find? (·.id == id)

/-- `refine` of the element with index `id` -/
def refineId (m : QT) (id : Nat) : Except String QT :=
  match findElem m id with
  | none => .error "bad-id"
  | some e => refine (e.level + 1) m e

/-- the list returned by the last `refine` -/
def lastChildren (m : QT) : List Elem := m.elems.drop (m.elems.length - 4)

/-- `uniform_refine`; `order` = element indices in the order of `list(self.leaf_elements)` -/
def uniformRefine (m : QT) (order : List Nat) : Except String QT :=
  order.foldlM refineId m

/-! ### `vertex_from_coords` -/

/-- index of the vertex with the given coordinates; two hits trip `assert result is None` -/
def vertexFromCoords (m : QT) (x y : Rat) : Except String (Option Nat) :=
  let rec go (i : Nat) (res : Option Nat) : List (Rat × Rat) → Except String (Option Nat)
    | [] => pure res
    | v :: l =>
      if v.1 = x ∧ v.2 = y then
        (if res.isSome then .error "assert:vertex-twice" else go (i + 1) (some i) l)
      else go (i + 1) res l
  go 0 none m.verts

/-! ### `refine_msh_bdr` -/

/-- end points `(a, b)` of the edge on side `s` as in `Element.edges` -/
def edgePts (e : Elem) : Side → (Rat × Rat) × (Rat × Rat)
  | .bottom => ((e.x0, e.y0), (e.x0 + e.size, e.y0))
  | .right => ((e.x0 + e.size, e.y0), (e.x0 + e.size, e.y0 + e.size))
  | .top => ((e.x0 + e.size, e.y0 + e.size), (e.x0, e.y0 + e.size))
  | .left => ((e.x0, e.y0 + e.size), (e.x0, e.y0))

/-- lexicographic `≤` of coordinate tuples -/
def lexLe (a b : Rat × Rat) : Bool := decide (a.1 < b.1 ∨ (a.1 = b.1 ∧ a.2 ≤ b.2))

/-- coordinate `i` (`false` = x, `true` = y) -/
def coord (p : Rat × Rat) (i : Bool) : Rat := if i then p.2 else p.1

/-- what the scan of one round of `refine_msh_bdr` knows: the element to return, else the last element
with an edge containing the segment -/
structure Scan where
  ret : Option Elem := none
  parent : Option Elem := none
deriving Repr

/-- one edge of one candidate; `axis` is the constant coordinate of the segment `v0 → v1` -/
def scanEdge (v0 v1 : Rat × Rat) (axis : Bool) (e : Elem) (st : Scan) (s : Side) : Scan :=
  if st.ret.isSome then st
  else
    let ab := edgePts e s
    let va := if lexLe ab.1 ab.2 then ab.1 else ab.2
    let vb := if lexLe ab.1 ab.2 then ab.2 else ab.1
    if ¬ (coord v0 axis = coord va axis ∧ coord va axis = coord vb axis) then st
    else if coord va (!axis) ≤ coord v0 (!axis) ∧ coord v0 (!axis) ≤ coord v1 (!axis) ∧
        coord v1 (!axis) ≤ coord vb (!axis) then
      if coord va (!axis) = coord v0 (!axis) ∧ coord v1 (!axis) = coord vb (!axis) then
        { st with ret := some e }
      else { st with parent := some e }
    else st

def scan (v0 v1 : Rat × Rat) (axis : Bool) (cands : List Elem) : Scan :=
  cands.foldl (fun st e => Side.all.foldl (scanEdge v0 v1 axis e) st) {}

/-- the `while True` loop; `fuel` = number of rounds -/
def bdrLoop (v0 v1 : Rat × Rat) (axis : Bool) : Nat → QT → List Elem → Except String (QT × Elem)
  | 0, _, _ => .error "fuel"
  | fuel + 1, m, cands =>
    let st := scan v0 v1 axis cands
    match st.ret with
    | some e => pure (m, e)
    | none =>
      match st.parent with
      | none => .error "assert:parent"
      | some p => do
        let m' ← refine (p.level + 1) m p
        bdrLoop v0 v1 axis fuel m' (lastChildren m')

/-- `refine_msh_bdr(v0, v1)`: returns the mesh and the element found -/
def refineMshBdr (fuel : Nat) (m : QT) (a b : Rat × Rat) : Except String (QT × Elem) :=
  -- `if tuple(v0) > tuple(v1): swap`
  let v0 := if lexLe a b then a else b
  let v1 := if lexLe a b then b else a
  -- `for i in range(2): if v0[i] == v1[i]: axis = i`
  if v0.2 = v1.2 then bdrLoop v0 v1 true fuel m m.leaves
  else if v0.1 = v1.1 then bdrLoop v0 v1 false fuel m m.leaves
  else .error "assert:axis"

/-! ### initial meshes -/

def mkRoot (id : Nat) (x y s : Rat) : Elem := ⟨x, y, s, 0, id, none, 4⟩

/-- `UnitSquare()` (and `PiSquare()` in units of π) -/
def unitSquare : QT :=
  { elems := [mkRoot 0 0 0 1], leaves := [mkRoot 0 0 0 1], verts := [(0, 0), (1, 0), (1, 1), (0, 1)] }

/-- `LShape()` -/
def lShape : QT :=
  let r := [mkRoot 0 0 (-1) 1, mkRoot 1 0 0 1, mkRoot 2 (-1) 0 1]
  { elems := r, leaves := r,
    verts := [(0, 0), (0, -1), (1, -1), (1, 0), (1, 1), (0, 1), (-1, 1), (-1, 0)] }

def isIntegral (r : Rat) : Bool := r.den == 1

/-- `InitialMesh(vertices, elements)`; the `Element` assertions are checked, and meshes for which the
geometric representation of the dictionaries would not be faithful are rejected -/
def initExplicit (vs : List (Rat × Rat)) (els : List (Nat × Nat × Nat × Nat)) : Except String QT := do
  let rec mk (i : Nat) : List (Nat × Nat × Nat × Nat) → Except String (List Elem)
    | [] => pure []
    | (a, b, c, d) :: l =>
      match vs[a]?, vs[b]?, vs[c]?, vs[d]? with
      | some v0, some v1, some v2, some v3 =>
        if v0.2 = v1.2 ∧ v1.1 = v2.1 ∧ v2.2 = v3.2 ∧ v3.1 = v0.1 ∧ v0.1 < v2.1 ∧ v0.2 < v2.2 ∧
            v1.1 - v0.1 = v3.2 - v0.2 then do
          let rest ← mk (i + 1) l
          pure (mkRoot i v0.1 v0.2 (v1.1 - v0.1) :: rest)
        else .error "assert:element"
      | _, _, _, _ => .error "bad-index"
  let r ← mk 0 els
  match r with
  | [] => pure { elems := [], leaves := [], verts := vs }
  | r0 :: _ =>
    if !(vs.eraseDups.length == vs.length) then .error "unsupported:vertex-twice"
    else if !(r.all fun e => e.size == r0.size && isIntegral ((e.x0 - r0.x0) / r0.size) &&
        isIntegral ((e.y0 - r0.y0) / r0.size)) then .error "unsupported:grid"
    else if !((r.map fun e => (e.x0, e.y0)).eraseDups.length == r.length) then .error "unsupported:overlap"
    else pure { elems := r, leaves := r, verts := vs }

end Stbem.Quadtree
