/-
Model of `src/quadrature.py` (and the Slobodeckij rules of `src/norms.py`) over exact rationals.

A rule is a list of nodes in *NumPy order*; a node carries its point and its weight.  Every
constructor reproduces the element order of the `repeat / tile / kron / hstack` calls of the
Python code so that the driver output can be compared element-wise with the real arrays (which
are run on `fractions.Fraction` objects, i.e. in exact arithmetic too).

No Mathlib import: this file is linked into the driver executable.
-/

namespace Stbem.Quad

/-- one node of a 1-D rule: point, weight -/
structure N1 where
  x : Rat
  w : Rat
deriving Repr, DecidableEq

structure N2 where
  x : Rat
  y : Rat
  w : Rat
deriving Repr, DecidableEq

structure N3 where
  x : Rat
  y : Rat
  z : Rat
  w : Rat
deriving Repr, DecidableEq

abbrev Rule1 := List N1
abbrev Rule2 := List N2
abbrev Rule3 := List N3

def sumR (l : List Rat) : Rat := l.foldr (· + ·) 0

/-- value of the rule on the reference interval: `Σ f(xᵢ) wᵢ` -/
def apply1 (r : Rule1) (f : Rat → Rat) : Rat := sumR (r.map fun n => f n.x * n.w)
def apply2 (r : Rule2) (f : Rat → Rat → Rat) : Rat := sumR (r.map fun n => f n.x n.y * n.w)
def apply3 (r : Rule3) (f : Rat → Rat → Rat → Rat) : Rat :=
  sumR (r.map fun n => f n.x n.y n.z * n.w)

/-! ### 1-D: `QuadScheme1D` -/

/-- `QuadScheme1D.mirror` -/
def mirror1 (r : Rule1) : Rule1 := r.map fun n => ⟨1 - n.x, n.w⟩

/-- `QuadScheme1D.integrate` (the `a == b` shortcut included; the size assertion is a
precondition of the caller and is not modelled) -/
def integrate1 (r : Rule1) (f : Rat → Rat) (a b : Rat) : Rat :=
  if a = b then 0 else sumR (r.map fun n => ((b - a) * f (a + (b - a) * n.x)) * n.w)

/-! ### 2-D: `QuadScheme2D`, `ProductScheme2D`, `DuffyScheme2D` -/

def mirrorX2 (r : Rule2) : Rule2 := r.map fun n => ⟨1 - n.x, n.y, n.w⟩
def mirrorY2 (r : Rule2) : Rule2 := r.map fun n => ⟨n.x, 1 - n.y, n.w⟩

/-- `QuadScheme2D.integrate` -/
def integrate2 (r : Rule2) (f : Rat → Rat → Rat) (a b c d : Rat) : Rat :=
  (d - c) * (b - a) * sumR (r.map fun n => f (a + (b - a) * n.x) (c + (d - c) * n.y) * n.w)

/-- `ProductScheme2D`: `repeat(x, ny)`, `tile(y, nx)`, `kron(wx, wy)` -/
def product2 (rx ry : Rule1) : Rule2 :=
  rx.flatMap fun nx => ry.map fun ny => ⟨nx.x, ny.x, nx.w * ny.w⟩

/-- the first half of the Duffy point set: `(x, x(1-y))`, weight `w·x` -/
def duffyHalfA (r : Rule2) : Rule2 := r.map fun n => ⟨n.x, n.x * (1 - n.y), n.w * n.x⟩
/-- the second half: `(x(1-y), x)`, weight `w·x` -/
def duffyHalfB (r : Rule2) : Rule2 := r.map fun n => ⟨n.x * (1 - n.y), n.x, n.w * n.x⟩

/-- `DuffyScheme2D(scheme2d, symmetric)` -/
def duffy2 (r : Rule2) (symmetric : Bool) : Rule2 :=
  if symmetric then r.map fun n => ⟨n.x, n.x * (1 - n.y), n.w * n.x * 2⟩
  else duffyHalfA r ++ duffyHalfB r

/-! ### 3-D: `QuadScheme3D`, `ProductScheme3D`, the two 3-D Duffy schemes -/

def mirrorX3 (r : Rule3) : Rule3 := r.map fun n => ⟨1 - n.x, n.y, n.z, n.w⟩
def mirrorY3 (r : Rule3) : Rule3 := r.map fun n => ⟨n.x, 1 - n.y, n.z, n.w⟩
def mirrorZ3 (r : Rule3) : Rule3 := r.map fun n => ⟨n.x, n.y, 1 - n.z, n.w⟩

def integrate3 (r : Rule3) (f : Rat → Rat → Rat → Rat) (a b c d k l : Rat) : Rat :=
  (d - c) * (b - a) * (l - k) *
    sumR (r.map fun n => f (a + (b - a) * n.x) (c + (d - c) * n.y) (k + (l - k) * n.z) * n.w)

/-- `ProductScheme3D(scheme_x)` -/
def product3 (r : Rule1) : Rule3 :=
  r.flatMap fun nx => r.flatMap fun ny => r.map fun nz => ⟨nx.x, ny.x, nz.x, nx.w * ny.w * nz.w⟩

def idT1 (r : Rule3) : Rule3 := r.map fun n => ⟨n.x, n.x * (1 - n.y), n.x * n.y * n.z, n.w * n.x ^ 2 * n.y⟩
def idT2 (r : Rule3) : Rule3 := r.map fun n => ⟨n.x * (1 - n.y + n.y * n.z), n.x * n.y * n.z, n.x, n.w * n.x ^ 2 * n.y⟩
def idT3 (r : Rule3) : Rule3 := r.map fun n => ⟨n.x, n.x * (1 - n.y * n.z), n.x * n.y, n.w * n.x ^ 2 * n.y⟩
def idT4 (r : Rule3) : Rule3 := r.map fun n => ⟨n.x * (1 - n.y), n.x, n.x * n.y * n.z, n.w * n.x ^ 2 * n.y⟩
def idT5 (r : Rule3) : Rule3 := r.map fun n => ⟨n.x * n.y * n.z, n.x * (1 - n.y + n.y * n.z), n.x, n.w * n.x ^ 2 * n.y⟩
def idT6 (r : Rule3) : Rule3 := r.map fun n => ⟨n.x * (1 - n.y * n.z), n.x, n.x * n.y, n.w * n.x ^ 2 * n.y⟩

def scaleW3 (c : Rat) (r : Rule3) : Rule3 := r.map fun n => ⟨n.x, n.y, n.z, c * n.w⟩

/-- `DuffySchemeIdentical3D(scheme3d, symmetric_xy)` -/
def duffyId3 (r : Rule3) (symmetricXY : Bool) : Rule3 :=
  if symmetricXY then scaleW3 2 (idT1 r ++ idT2 r ++ idT3 r)
  else idT1 r ++ idT2 r ++ idT3 r ++ idT4 r ++ idT5 r ++ idT6 r

def touchP1 (r : Rule3) : Rule3 := r.map fun n => ⟨n.x * n.y, n.y, n.z * n.y, n.w * n.y ^ 2⟩
def touchP2 (r : Rule3) : Rule3 := r.map fun n => ⟨n.y, n.x * n.y, n.z * n.y, n.w * n.y ^ 2⟩
def touchP3 (r : Rule3) : Rule3 := r.map fun n => ⟨n.x * n.y, n.z * n.y, n.y, n.w * n.y ^ 2⟩

/-- `DuffySchemeTouch3D(scheme3d)` -/
def duffyTouch3 (r : Rule3) : Rule3 := touchP1 r ++ touchP2 r ++ touchP3 r

/-! ### Slobodeckij rules (`src/norms.py`) with the irrational factor `h^{1/2}` split off -/

/-- `Slobodeckij.seminorm_h_1_4(f, a, a+h) / h^{1/2}` for a `1/√x`-weighted base rule `g`:
`Σ_{i,j} (f(a+h xᵢ) - f(a+h xᵢ(1-xⱼ)))² · 2 wᵢ wⱼ / xⱼ` -/
def semi14 (g : Rule1) (f : Rat → Rat) (a h : Rat) : Rat :=
  sumR ((product2 g g).map fun n =>
    (f (a + h * n.x) - f (a + h * (n.x * (1 - n.y)))) ^ 2 * (2 * n.w / n.y))

/-- `Slobodeckij.seminorm_h_1_2(f, a, a+h)` (flat variant, `gamma=None`) for an `x`-weighted
base rule `gx` and a Legendre rule `gl` -/
def semi12 (gx gl : Rule1) (f : Rat → Rat) (a h : Rat) : Rat :=
  2 * h ^ 2 * sumR ((product2 gx gl).map fun n =>
    ((f (a + h * n.x) - f (a + h * (n.x * n.y))) ^ 2 / ((a + h * n.x) - (a + h * (n.x * n.y))) ^ 2) * n.w)

/-- the two-piece point set `semi_1_2_pw` -/
def semi12pw (gx gl : Rule1) : Rule2 :=
  ((product2 gx gl).map fun n => ⟨1 - n.x, n.x * n.y, n.w⟩) ++
  ((product2 gx gl).map fun n => ⟨1 - n.x * n.y, n.x, n.w⟩)

end Stbem.Quad
