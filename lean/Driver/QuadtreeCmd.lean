import Stbem.Model.Quadtree
import Stbem.Model.Mesh
import Driver.Util
/- Line protocol for the domain-quadtree model (`qt …`). -/
namespace Driver
open Stbem.Quadtree

/-- driver state of the `qt` commands: current mesh, ids returned by the last operation, saved states -/
structure QtSt where
  cur : Option QT := none
  ret : List Nat := []
  stack : List (QT × List Nat) := []

def showOptNat' : Option Nat → String
  | none => "-"
  | some n => toString n

def showElem (e : Elem) : String :=
  ":".intercalate [toString e.id, showRat e.x0, showRat e.y0, showRat e.size, toString e.level,
    showOptNat' e.par]

def dumpQt (m : QT) (ret : List Nat) : String :=
  let ls := Stbem.Mesh.sortBy (fun a b : Elem => decide (a.id < b.id)) m.leaves
  let l := " ".intercalate (ls.map showElem)
  let v := " ".intercalate (m.verts.map fun v => showRat v.1 ++ ":" ++ showRat v.2)
  s!"L {l}|V {v}|E {m.elems.length}|R {showNatList ret}"

def pairUp : List Rat → Option (List (Rat × Rat))
  | [] => some []
  | a :: b :: l => (pairUp l).map ((a, b) :: ·)
  | _ => none

def quadUp : List Nat → Option (List (Nat × Nat × Nat × Nat))
  | [] => some []
  | a :: b :: c :: d :: l => (quadUp l).map ((a, b, c, d) :: ·)
  | _ => none

def qtCmd (st : QtSt) (args : List String) : QtSt × String :=
  let bad := (st, "bad-op")
  match args, st.cur with
  | ["qt", "init", "unit"], _ => ({ st with cur := some unitSquare, ret := [] }, "ok 1")
  | ["qt", "init", "lshape"], _ => ({ st with cur := some lShape, ret := [] }, "ok 3")
  | ["qt", "init", "explicit", vs, es], _ =>
    match (parseRatList? vs).bind pairUp, (parseNatList? es).bind quadUp with
    | some vs, some es =>
      match initExplicit vs es with
      | .ok m => ({ st with cur := some m, ret := [] }, s!"ok {m.leaves.length}")
      | .error e => ({ st with cur := none }, "err " ++ e)
    | _, _ => bad
  | ["qt", "refine", id], some m =>
    match id.toNat? with
    | some id =>
      match refineId m id with
      | .ok m' =>
        let r := (lastChildren m').map (·.id)
        ({ st with cur := some m', ret := r }, s!"ok {showNatList r}")
      | .error e => (st, "err " ++ e)
    | none => bad
  | ["qt", "unif", ids], some m =>
    match parseNatList? ids with
    | some ids =>
      match uniformRefine m ids with
      | .ok m' => ({ st with cur := some m', ret := [] }, s!"ok {m'.leaves.length}")
      | .error e => (st, "err " ++ e)
    | none => bad
  | ["qt", "unif"], some m =>
    let ids := (Stbem.Mesh.sortBy (fun a b : Elem => decide (a.id < b.id)) m.leaves).map (·.id)
    match uniformRefine m ids with
    | .ok m' => ({ st with cur := some m', ret := [] }, s!"ok {m'.leaves.length}")
    | .error e => (st, "err " ++ e)
  | ["qt", "bdr", fuel, x0, y0, x1, y1], some m =>
    match fuel.toNat?, parseRat? x0, parseRat? y0, parseRat? x1, parseRat? y1 with
    | some fuel, some x0, some y0, some x1, some y1 =>
      match refineMshBdr fuel m (x0, y0) (x1, y1) with
      | .ok (m', e) => ({ st with cur := some m', ret := [e.id] }, s!"ok {e.id}")
      | .error e => (st, "err " ++ e)
    | _, _, _, _, _ => bad
  | ["qt", "vertex", x, y], some m =>
    match parseRat? x, parseRat? y with
    | some x, some y =>
      match vertexFromCoords m x y with
      | .ok (some i) => (st, s!"ok {i}")
      | .ok none => (st, "none")
      | .error e => (st, "err " ++ e)
    | _, _ => bad
  | ["qt", "dump"], some m => (st, dumpQt m st.ret)
  | ["qt", "push"], some m => ({ st with stack := (m, st.ret) :: st.stack }, "ok")
  | ["qt", "pop"], _ =>
    match st.stack with
    | (m, r) :: rest => ({ st with cur := some m, ret := r, stack := rest }, "ok")
    | [] => bad
  | _, _ => bad

end Driver
