import Stbem.Model.PosDef
import Driver.Util
/- Line protocol of the positive-definiteness certificate checker (property C13).

   pd check <mu> <n> <n*n rationals, row by row>   ->  ok <min pivot, 6 digits> | notpd <k> | bad-op
       decides by `Stbem.PosDef.checkQ` whether sym(A) − mu·diag(sym(A)) is positive definite; `k` = index (from 0) of
       the first non-positive pivot.
   pd pivots <mu> <n> <entries>                    ->  ok <p/q,...> (exact pivots)  | notpd <k>
   pd shift <mu> <n> <entries>                     ->  rows of scaledShift A mu (`;` between rows)
   pd quad <n> <entries> <x_1,...,x_n>             ->  xᵀ A x  (exact)
   pd dom <mu> <n> <n*n entries of A> <n*n entries of the hint R>   ->  ok | undecided | bad-op
       hint-based certificate `Stbem.PosDef.domCertScaledQ`: Rᵀ (sym(A) − mu·diag) R strictly diagonally dominant;
       `ok` implies what `pd check` answers with `ok` (theorem `domCertScaledQ_sound`); `undecided` says nothing.
-/
namespace Driver
open Stbem.PosDef

def chunkRows (n : Nat) : Nat → List Rat → List (List Rat)
  | 0, _ => []
  | k + 1, l => l.take n :: chunkRows n k (l.drop n)

/-- a positive rational in scientific notation with 6 significant digits (truncated) -/
def showApprox (q : Rat) : String :=
  if q ≤ 0 then showRat q else
  let rec down (fuel : Nat) (q : Rat) (e : Int) : Rat × Int :=
    match fuel with
    | 0 => (q, e)
    | f + 1 => if q ≥ 10 then down f (q / 10) (e + 1) else (q, e)
  let rec up (fuel : Nat) (q : Rat) (e : Int) : Rat × Int :=
    match fuel with
    | 0 => (q, e)
    | f + 1 => if q < 1 then up f (q * 10) (e - 1) else (q, e)
  let (q1, e1) := down 5000 q 0
  let (q2, e2) := up 5000 q1 e1
  let m := (q2 * 100000).floor.toNat
  let s := toString m
  s!"{s.take 1}.{s.drop 1}e{e2}"

def parseMatrix? (n : String) (es : List String) : Option (Nat × Mat) := do
  let n ← n.toNat?
  let l ← es.mapM parseRat?
  if l.length = n * n then some (n, chunkRows n n l) else none

def pdCmd (args : List String) : String :=
  match args with
  | "pd" :: "check" :: mu :: n :: es =>
    match parseRat? mu, parseMatrix? n es with
    | some mu, some (_, A) =>
      match checkQ A mu with
      | .ok ps => "ok " ++ showApprox (minOf ps)
      | .error k => s!"notpd {k}"
    | _, _ => "bad-op"
  | "pd" :: "pivots" :: mu :: n :: es =>
    match parseRat? mu, parseMatrix? n es with
    | some mu, some (_, A) =>
      match checkQ A mu with
      | .ok ps => "ok " ++ showRatList ps
      | .error k => s!"notpd {k}"
    | _, _ => "bad-op"
  | "pd" :: "shift" :: mu :: n :: es =>
    match parseRat? mu, parseMatrix? n es with
    | some mu, some (_, A) => ";".intercalate ((scaledShift A mu).map showRatList)
    | _, _ => "bad-op"
  | "pd" :: "dom" :: mu :: n :: es =>
    match parseRat? mu, n.toNat? with
    | some mu, some k =>
      if es.length = 2 * (k * k) then
        match parseMatrix? n (es.take (k * k)), parseMatrix? n (es.drop (k * k)) with
        | some (_, A), some (_, R) => if domCertScaledQ A mu R then "ok" else "undecided"
        | _, _ => "bad-op"
      else "bad-op"
    | _, _ => "bad-op"
  | "pd" :: "quad" :: n :: rest =>
    match rest.reverse with
    | xs :: esr =>
      match parseMatrix? n esr.reverse, parseRatList? xs with
      | some (n, A), some x => if x.length = n then showRat (quad A x) else "bad-op"
      | _, _ => "bad-op"
    | [] => "bad-op"
  | _ => "bad-op"

end Driver
