import Stbem.Gen.FormulasQ
import Driver.Util
/- Line protocol for the generated closed-form formulas:
   `fm <name> <standins> <args>`; standins = seven `p0,p1,p2,q0` groups (exp sqrt erf erfc ei e1 pow32)
   and the four constants (pi fpiInv piSqrt hpiInv), separated by `;`. -/
namespace Driver
open Stbem.Formulas.Q

/-- rational stand-in without real poles: `(p0 + p1 u + p2 u²)/(q0 + u²)` -/
def standIn (c : List Rat) : Rat → Rat :=
  match c with
  | [p0, p1, p2, q0] => fun u => (p0 + p1 * u + p2 * u ^ 2) / (q0 + u ^ 2)
  | _ => fun _ => 0

def parseFns? (s : String) : Option Fns :=
  match (s.splitOn ";").mapM parseRatList? with
  | some [e, sq, er, erc, ei, e1, p32, [pi], [fpi], [pis], [hpi]] =>
    some { exp := standIn e, sqrt := standIn sq, erf := standIn er, erfc := standIn erc, ei := standIn ei,
           e1 := standIn e1, pow32 := standIn p32, pi := pi, fpiInv := fpi, piSqrt := pis, hpiInv := hpi }
  | _ => none

def formulaCmd (args : List String) : String :=
  match args with
  | ["fm", name, fns, xs] =>
    match parseFns? fns, parseRatList? xs with
    | some S, some xs => match evalByName S name xs with
      | some v => showRat v
      | none => "bad-op"
    | _, _ => "bad-op"
  | _ => "bad-op"

end Driver
