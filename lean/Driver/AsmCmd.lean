import Stbem.Model.Assembly
import Stbem.Gen.SLRest
import Driver.Util
/- Line protocol for the assembly / cache model (`asm …`), token leaves.

  asm mat  <c|n><k> <mp:0|1> <workers> <chunk> <order> <tests> <trials>
  asm vec  <k> <mp:0|1> <workers> <chunk> <order> <elems>
  asm hist  <event> <event> …       (single-layer matrix cache)
  asm vhist <event> <event> …       (load-vector cache)
  asm cfg <quad_order> <pw_exact:0|1>   the configuration text `str((quad_order, pw_exact))` of the file name

  element      id:t0:t1            lists: comma separated, `-` = empty
  order        f | r | x<n>        completion order of the chunks: forward, reversed, rotated by n
  event        call@<curve>@<var>@<mp>@<workers>@<chunk>@<order>@<w|n|p>@<tests>@<trials>
               crash@… (same fields) | trunc@<curve>[@<var>]@<tests>@<trials> | rm@… | garble@…
  var          <k> | <k>/<quad_order>/<pw_exact:0|1>    token variant and operator configuration (default 12, 0)
  token leaf   bil trial test = (k+1)·2²² + 2048·id(trial) + id(test) + 1, and 0 on acausal pairs for kind `c`
               lin elem       = (k+1)·2²² + id(elem) + 1
-/
namespace Driver
open Stbem.Assembly

structure TE where
  id : Nat
  t0 : Rat
  t1 : Rat

def TE.acausal (tr te : TE) : Bool := decide (te.t1 ≤ tr.t0)

def tok (k : Nat) (tr te : TE) : Nat := (k + 1) * 4194304 + tr.id * 2048 + te.id + 1

def tokenLeaf (causal : Bool) (k : Nat) : Leaf TE Nat :=
  ⟨fun tr te => if causal && TE.acausal tr te then 0 else tok k tr te, TE.acausal⟩

def tokenLin (k : Nat) (e : TE) : Nat := (k + 1) * 4194304 + e.id + 1

def parseTE? (s : String) : Option TE :=
  match s.splitOn ":" with
  | [i, a, b] => do
    let i ← i.toNat?; let a ← parseRat? a; let b ← parseRat? b
    some ⟨i, a, b⟩
  | _ => none

def parseTEs? (s : String) : Option (List TE) :=
  if s = "" || s = "-" then some [] else (s.splitOn ",").mapM parseTE?

def parseOrder? (s : String) (n : Nat) : Option (List Nat) :=
  if s = "f" then some (List.range n)
  else if s = "r" then some (List.range n).reverse
  else if s.startsWith "x" then do
    let k ← (s.drop 1).toString.toNat?
    some ((List.range n).map fun c => (c + k) % n)
  else none

def parseHow? (mp w ch ord : String) (n : Nat) : Option How := do
  let w ← w.toNat?; let ch ← ch.toNat?
  let order ← parseOrder? ord (numChunks ch n)
  some ⟨mp = "1", ⟨w, ch, fun c => c * 7 + 3, order⟩⟩

def showMat (N M : Nat) (m : Mat Nat) : String :=
  s!"{N}x{M} " ++ ";".intercalate (m.map showNatList)

def showMatRes (N M : Nat) : Except String (Mat Nat) → String
  | .ok m => "ok " ++ showMat N M m
  | .error e => "err " ++ e

def showVecRes : Except String (List Nat) → String
  | .ok v => s!"ok {v.length} " ++ showNatList v
  | .error e => "err " ++ e

def showState {O : Type} : FileState O → String
  | .absent => "A"
  | .valid _ => "V"
  | .corrupt => "C"

def parseSave? : String → Option SaveOutcome
  | "w" => some .written
  | "n" => some .nothing
  | "p" => some .partialFile
  | _ => none

def curveName (c : Nat) : List Char := 'c' :: (toString c).toList

def reprTE (e : TE) : List Char := (toString e.id).toList ++ [')']

/-- token variant `k`, `quad_order`, `pw_exact` -/
abbrev Var := Nat × Nat × Bool

def parseVar? (s : String) : Option Var :=
  match s.splitOn "/" with
  | [k] => do let k ← k.toNat?; some (k, 12, false)
  | [k, q, p] => do
    let k ← k.toNat?; let q ← q.toNat?
    if p = "1" then some (k, q, true) else if p = "0" then some (k, q, false) else none
  | _ => none

/-- configurations (curve number, token variant `k`, `quad_order`, `pw_exact`): the file name sees the curve
and `str((quad_order, pw_exact))`, not the token variant -/
def slFamily : Family (Nat × Var) TE Nat :=
  ⟨fun c => curveName c.1, fun c => cfgText c.2.2.1 c.2.2.2, fun c => tokenLeaf true c.2.1⟩

/-- the `problem` string handed to `InitialOperator` names the data `u0` (variant `k`), as in example.py -/
def problemName (c : Nat × Nat) : List Char := curveName c.1 ++ 'p' :: (toString c.2).toList

def vecFamily : VecFamily (Nat × Nat) TE Nat :=
  ⟨problemName, fun c => curveName c.1, fun c => tokenLin c.2⟩

abbrev SLKey := List Char × Nat × Nat × List Char
abbrev VKey := List Char × Nat × List Char

def slS : Spec SLKey ((Nat × Var) × List TE × List TE) How (Mat Nat) := slSpec slFamily id reprTE
def vecS : Spec VKey ((Nat × Nat) × List TE) How (List Nat) := vecSpec vecFamily id reprTE

/-- one event of a history, generic in the routine: returns the event and the file name it concerns -/
def parseEvent? {K I : Type} (mkInp : Nat → Var → List TE → List TE → I) (key : I → K)
    (size : I → Nat) (s : String) : Option (Event K I How × K) :=
  match s.splitOn "@" with
  | [kind, c, k, mp, w, ch, ord, sv, ts, tr] => do
    let c ← c.toNat?; let k ← parseVar? k
    let ts ← parseTEs? ts; let tr ← parseTEs? tr
    let inp := mkInp c k ts tr
    let how ← parseHow? mp w ch ord (size inp)
    let sv ← parseSave? sv
    if kind = "call" then some (.call inp how sv, key inp)
    else if kind = "crash" then some (.crash inp how sv, key inp)
    else none
  | [kind, c, k, ts, tr] => do
    let c ← c.toNat?; let k ← parseVar? k
    let ts ← parseTEs? ts; let tr ← parseTEs? tr
    let k := key (mkInp c k ts tr)
    if kind = "trunc" then some (.truncate k, k)
    else if kind = "rm" then some (.remove k, k)
    else if kind = "garble" then some (.garble k, k)
    else none
  | [kind, c, ts, tr] => do
    let c ← c.toNat?
    let ts ← parseTEs? ts; let tr ← parseTEs? tr
    let k := key (mkInp c (0, 12, false) ts tr)
    if kind = "trunc" then some (.truncate k, k)
    else if kind = "rm" then some (.remove k, k)
    else if kind = "garble" then some (.garble k, k)
    else none
  | _ => none

def runHistWith {K I O : Type} [DecidableEq K] (stepF : Dir K O → Event K I How → Dir K O × Option (Except String O))
    (showRes : I → Except String O → String)
    (inpOf : Event K I How → Option I) (evs : List (Event K I How × K)) : String :=
  let rec go (d : Dir K O) (evs : List (Event K I How × K)) (acc : List String) : List String :=
    match evs with
    | [] => acc.reverse
    | (e, k) :: rest =>
      let r := stepF d e
      let st := showState (r.1 k)
      let out := match r.2, inpOf e with
        | some o, some i => "ret:" ++ showRes i o ++ ":" ++ st
        | _, _ => st
      go r.1 rest (out :: acc)
  " | ".intercalate (go Dir.empty evs [])

def runHist {K I O : Type} [DecidableEq K] (S : Spec K I How O) (showRes : I → Except String O → String)
    (inpOf : Event K I How → Option I) (evs : List (Event K I How × K)) : String :=
  runHistWith (step S) showRes inpOf evs

/-- `bilform_matrix` REGENERATED from src/single_layer.py (Stbem.Gen.SLRest) on token leaves: `cpu_count` = the number of
workers of the request, the chunk size is the one the generated code computes -/
def genMat (L : Leaf TE Nat) (c : Nat × Var) (cacheSet : Bool) (d : Dir SLKey (Mat Nat)) (ts tr : List TE) (how : How)
    (sv : SaveOutcome) : Dir SLKey (Mat Nat) × Except String (Mat Nat) :=
  Stbem.Gen.SLRest.bilform_matrix L.bil (fun e => (e.t0, e.t1)) [] cacheSet (curveName c.1) reprTE c.2.2.1 c.2.2.2 id
    how.sched.workers how.sched.assign how.sched.order sv d (some ts) (some tr) how.useMp

/-- a history executed by the generated method (calls, crashes); the file-system events are the model's -/
def gstep (d : Dir SLKey (Mat Nat)) :
    Event SLKey ((Nat × Var) × List TE × List TE) How → Dir SLKey (Mat Nat) × Option (Except String (Mat Nat))
  | .call inp how sv => let r := genMat (slFamily.leaf inp.1) inp.1 true d inp.2.1 inp.2.2 how sv; (r.1, some r.2)
  | .crash inp how sv => ((genMat (slFamily.leaf inp.1) inp.1 true d inp.2.1 inp.2.2 how sv).1, none)
  | e => step slS d e

def inpOfEvent {K I : Type} : Event K I How → Option I
  | .call i _ _ => some i
  | .crash i _ _ => some i
  | _ => none

def asmCmd (args : List String) : String :=
  match args with
  | ["asm", "mat", leaf, mp, w, ch, ord, ts, tr] =>
    match parseTEs? ts, parseTEs? tr, (leaf.drop 1).toString.toNat? with
    | some ts, some tr, some k =>
      match parseHow? mp w ch ord tr.length with
      | some how =>
        showMatRes ts.length tr.length (computeMatrix (tokenLeaf (leaf.startsWith "c") k) ts tr how)
      | none => "bad-how"
    | _, _, _ => "bad-args"
  | ["asm", "gmat", leaf, mp, w, ch, ord, ts, tr] =>
    match parseTEs? ts, parseTEs? tr, (leaf.drop 1).toString.toNat? with
    | some ts, some tr, some k =>
      match parseHow? mp w ch ord tr.length with
      | some how =>
        showMatRes ts.length tr.length
          (genMat (tokenLeaf (leaf.startsWith "c") k) (0, (k, 12, false)) false Dir.empty ts tr how .written).2
      | none => "bad-how"
    | _, _, _ => "bad-args"
  | "asm" :: "ghist" :: evs =>
    match evs.mapM (parseEvent? (fun c k ts tr => ((c, k), ts, tr)) slS.key (fun i => i.2.2.length)) with
    | some evs => runHistWith gstep (fun i r => showMatRes i.2.1.length i.2.2.length r) inpOfEvent evs
    | none => "bad-event"
  | ["asm", "vec", k, mp, w, ch, ord, es] =>
    match parseTEs? es, k.toNat? with
    | some es, some k =>
      match parseHow? mp w ch ord es.length with
      | some how => showVecRes (computeVector (tokenLin k) es how)
      | none => "bad-how"
    | _, _ => "bad-args"
  | "asm" :: "hist" :: evs =>
    match evs.mapM (parseEvent? (fun c k ts tr => ((c, k), ts, tr)) slS.key (fun i => i.2.2.length)) with
    | some evs => runHist slS (fun i r => showMatRes i.2.1.length i.2.2.length r) inpOfEvent evs
    | none => "bad-event"
  | "asm" :: "vhist" :: evs =>
    match evs.mapM (parseEvent? (fun c k ts _ => ((c, k.1), ts)) vecS.key (fun i => i.2.length)) with
    | some evs => runHist vecS (fun _ r => showVecRes r) inpOfEvent evs
    | none => "bad-event"
  | ["asm", "cfg", q, p] =>
    match q.toNat? with
    | some q => if p = "1" || p = "0" then String.ofList (cfgText q (p = "1")) else "bad-args"
    | none => "bad-args"
  | _ => "bad-op"

end Driver
