import Driver.QuadCmd
import Driver.QuadGenCmd
import Driver.NormsGenCmd
import Driver.MeshCmd
import Driver.GMeshCmd
import Driver.FormulaCmd
import Driver.SLCmd
import Driver.QuadtreeCmd
import Driver.GQuadtreeCmd
import Driver.EstimatorCmd
import Driver.EstimatorGenCmd
import Driver.ParamCmd
import Driver.ParamGenCmd
import Driver.EstimCmd
import Driver.EstimGenCmd
import Driver.AsmCmd
import Driver.HMeshCmd
import Driver.InitPotCmd
import Driver.PosDefCmd
import Driver.ProblemsCmd
/- stbem-driver: one protocol line in, one canonical line out. -/
open Driver

structure St where
  mesh : Option Stbem.Mesh.Mesh := none
  gmesh : Option Stbem.Mesh.Mesh := none
  sl : SLState := {}
  qt : QtSt := {}
  gqt : GQtSt := {}
  hmesh : Option Stbem.HalfEdge.HMesh := none
  ip : IpSt := {}

def dispatch (st : St) (line : String) : St × String :=
  let args := (line.trimAscii.toString.splitOn " ").filter (· ≠ "")
  match args with
  | [] => (st, "")
  | "q1" :: _ | "q2" :: _ | "q3" :: _ | "slo" :: _ => (st, quadCmd args)
  | "g1" :: _ | "g2" :: _ | "g3" :: _ | "gc" :: _ | "gnp" :: _ => (st, quadGenCmd args)
  | "gslo" :: _ => (st, normsGenCmd args)
  | "fm" :: _ => (st, formulaCmd args)
  | "pb" :: _ => (st, problemsCmd args)
  | "sl" :: _ => let r := slCmd st.sl args; ({ st with sl := r.1 }, r.2)
  | "qt" :: _ => let r := qtCmd st.qt args; ({ st with qt := r.1 }, r.2)
  | "gqt" :: _ => let r := gqtCmd st.gqt args; ({ st with gqt := r.1 }, r.2)
  | "ee" :: _ => let r := eeCmd st.mesh args; ({ st with mesh := r.1 }, r.2)
  | "gee" :: _ => (st, geeCmd st.mesh args)
  | "param" :: _ => (st, paramCmd args)
  | "gparam" :: _ => (st, paramGenCmd args)
  | "est" :: _ => (st, estimCmd args)
  | "gest" :: _ => (st, estimGenCmd args)
  | "asm" :: _ => (st, asmCmd args)
  | "mesh" :: _ => let r := meshCmd st.mesh args; ({ st with mesh := r.1 }, r.2)
  | "gmesh" :: _ => let r := gmeshCmd st.gmesh args; ({ st with gmesh := r.1 }, r.2)
  | "hm" :: _ => let r := hmCmd st.hmesh args; ({ st with hmesh := r.1 }, r.2)
  | "ip" :: _ => let r := ipCmd st.ip args; ({ st with ip := r.1 }, r.2)
  | "pd" :: _ => (st, pdCmd args)
  | _ => (st, "bad-op")

partial def loop (h : IO.FS.Stream) (out : IO.FS.Stream) (st : St) : IO Unit := do
  let line ← h.getLine
  if line.isEmpty then return ()
  let (st', o) := dispatch st line
  out.putStrLn o
  loop h out st'

def main : IO Unit := do
  let out ← IO.getStdout
  loop (← IO.getStdin) out {}
  out.flush
