import Driver.QuadCmd
/- stbem-driver: one protocol line in, one canonical line out. -/
open Driver

def dispatch (line : String) : String :=
  let args := (line.trimAscii.toString.splitOn " ").filter (· ≠ "")
  match args with
  | [] => ""
  | "q1" :: _ | "q2" :: _ | "q3" :: _ | "slo" :: _ => quadCmd args
  | _ => "bad-op"

partial def loop (h : IO.FS.Stream) (out : IO.FS.Stream) : IO Unit := do
  let line ← h.getLine
  if line.isEmpty then return ()
  out.putStrLn (dispatch line)
  loop h out

def main : IO Unit := do
  let out ← IO.getStdout
  loop (← IO.getStdin) out
  out.flush
