import Stbem.Model.Quad
import Stbem.Model.Slobo
import Driver.Util
/- Line protocol for the quadrature model. -/
namespace Driver
open Stbem.Quad

def parseRule1? (s : String) : Option Rule1 :=
  match s.splitOn ";" with
  | [xs, ws] => do
      let x ← parseRatList? xs
      let w ← parseRatList? ws
      if x.length ≠ w.length then none else some ((x.zip w).map fun p => ⟨p.1, p.2⟩)
  | _ => none

def parseRule2? (s : String) : Option Rule2 :=
  match s.splitOn ";" with
  | [xs, ys, ws] => do
      let x ← parseRatList? xs
      let y ← parseRatList? ys
      let w ← parseRatList? ws
      if x.length ≠ w.length || y.length ≠ w.length then none
      else some ((x.zip (y.zip w)).map fun p => ⟨p.1, p.2.1, p.2.2⟩)
  | _ => none

def parseRule3? (s : String) : Option Rule3 :=
  match s.splitOn ";" with
  | [xs, ys, zs, ws] => do
      let x ← parseRatList? xs
      let y ← parseRatList? ys
      let z ← parseRatList? zs
      let w ← parseRatList? ws
      if x.length ≠ w.length || y.length ≠ w.length || z.length ≠ w.length then none
      else some ((x.zip (y.zip (z.zip w))).map fun p => ⟨p.1, p.2.1, p.2.2.1, p.2.2.2⟩)
  | _ => none

def showRule1 (r : Rule1) : String := showRatList (r.map (·.x)) ++ ";" ++ showRatList (r.map (·.w))
def showRule2 (r : Rule2) : String :=
  showRatList (r.map (·.x)) ++ ";" ++ showRatList (r.map (·.y)) ++ ";" ++ showRatList (r.map (·.w))
def showRule3 (r : Rule3) : String :=
  showRatList (r.map (·.x)) ++ ";" ++ showRatList (r.map (·.y)) ++ ";" ++ showRatList (r.map (·.z)) ++ ";" ++
    showRatList (r.map (·.w))

/-- one term `c,i,j,k` of the `s:` integrand -/
def parseTerm? (s : String) : Option (Rat × Nat × Nat × Nat) :=
  match s.splitOn "," with
  | [c, i, j, k] => do
      let c ← parseRat? c; let i ← i.toNat?; let j ← j.toNat?; let k ← k.toNat?
      some (c, i, j, k)
  | _ => none

/-- integrand mini-language: `m:i:j:k` monomial, `r:c0:c1:c2:c3` = 1/(c0+c1 x+c2 y+c3 z),
`p:c0:c1:…` polynomial in x (Horner, `evalPoly`), `s:c,i,j,k:c,i,j,k:…` = Σ c xⁱ yʲ zᵏ -/
def parseFun? (s : String) : Option (Rat → Rat → Rat → Rat) :=
  match s.splitOn ":" with
  | ["m", i, j, k] => do
      let i ← i.toNat?; let j ← j.toNat?; let k ← k.toNat?
      some fun x y z => x ^ i * y ^ j * z ^ k
  | ["r", c0, c1, c2, c3] => do
      let c0 ← parseRat? c0; let c1 ← parseRat? c1; let c2 ← parseRat? c2; let c3 ← parseRat? c3
      some fun x y z => 1 / (c0 + c1 * x + c2 * y + c3 * z)
  | "p" :: cs => do
      let cs ← cs.mapM parseRat?
      some fun x _ _ => evalPoly cs x
  | "s" :: ts => do
      let ts ← ts.mapM parseTerm?
      some fun x y z => sumR (ts.map fun t => t.1 * x ^ t.2.1 * y ^ t.2.2.1 * z ^ t.2.2.2)
  | _ => none

def parseSeg? (s : String) : Option Seg :=
  match parseRatList? s with
  | some [p1, p2, d1, d2, s0] => some ⟨p1, p2, d1, d2, s0⟩
  | _ => none

def quadCmd (args : List String) : String :=
  let bad := "bad-op"
  match args with
  | ["q1", "mirror", r] => match parseRule1? r with
      | some r => showRule1 (mirror1 r) | none => bad
  | ["q1", "int", r, f, a, b] => match parseRule1? r, parseFun? f, parseRat? a, parseRat? b with
      | some r, some f, some a, some b => showRat (integrate1 r (fun x => f x 0 0) a b) | _, _, _, _ => bad
  | ["q2", "product", rx, ry] => match parseRule1? rx, parseRule1? ry with
      | some rx, some ry => showRule2 (product2 rx ry) | _, _ => bad
  | ["q2", "mirx", r] => match parseRule2? r with | some r => showRule2 (mirrorX2 r) | none => bad
  | ["q2", "miry", r] => match parseRule2? r with | some r => showRule2 (mirrorY2 r) | none => bad
  | ["q2", "duffy", r, s] => match parseRule2? r with
      | some r => showRule2 (duffy2 r (s == "1")) | none => bad
  | ["q2", "int", r, f, a, b, c, d] =>
      match parseRule2? r, parseFun? f, [a, b, c, d].mapM parseRat? with
      | some r, some f, some [a, b, c, d] => showRat (integrate2 r (fun x y => f x y 0) a b c d)
      | _, _, _ => bad
  | ["q3", "product", r] => match parseRule1? r with | some r => showRule3 (product3 r) | none => bad
  | ["q3", "mirx", r] => match parseRule3? r with | some r => showRule3 (mirrorX3 r) | none => bad
  | ["q3", "miry", r] => match parseRule3? r with | some r => showRule3 (mirrorY3 r) | none => bad
  | ["q3", "mirz", r] => match parseRule3? r with | some r => showRule3 (mirrorZ3 r) | none => bad
  | ["q3", "duffyid", r, s] => match parseRule3? r with
      | some r => showRule3 (duffyId3 r (s == "1")) | none => bad
  | ["q3", "touch", r] => match parseRule3? r with | some r => showRule3 (duffyTouch3 r) | none => bad
  | ["q3", "int", r, f, a, b, c, d, k, l] =>
      match parseRule3? r, parseFun? f, [a, b, c, d, k, l].mapM parseRat? with
      | some r, some f, some [a, b, c, d, k, l] => showRat (integrate3 r f a b c d k l)
      | _, _, _ => bad
  | ["slo", "h14", g, f, a, h] => match parseRule1? g, parseFun? f, parseRat? a, parseRat? h with
      | some g, some f, some a, some h => showRat (semi14 g (fun x => f x 0 0) a h) | _, _, _, _ => bad
  | ["slo", "h12", gx, gl, f, a, h] =>
      match parseRule1? gx, parseRule1? gl, parseFun? f, parseRat? a, parseRat? h with
      | some gx, some gl, some f, some a, some h => showRat (semi12 gx gl (fun x => f x 0 0) a h)
      | _, _, _, _, _ => bad
  | ["slo", "h12g", gx, gl, f, a, h, g] =>
      match parseRule1? gx, parseRule1? gl, parseFun? f, parseRat? a, parseRat? h, parseSeg? g with
      | some gx, some gl, some f, some a, some h, some g =>
          showRat (semi12g gx gl g.at (fun x p => f x p.1 p.2) a h)
      | _, _, _, _, _, _ => bad
  | ["slo", "pwval", gx, gl, f, a1, b1, g1, a2, b2, g2, same] =>
      match parseRule1? gx, parseRule1? gl, parseFun? f, [a1, b1, a2, b2].mapM parseRat?, parseSeg? g1,
        parseSeg? g2 with
      | some gx, some gl, some f, some [a1, b1, a2, b2], some g1, some g2 =>
          match semi12pwVal gx gl (same == "1") g1.at g2.at (fun x p => f x p.1 p.2) a1 b1 a2 b2 with
          | .ok v => showRat v
          | .error e => "error:" ++ e
      | _, _, _, _, _, _ => bad
  | ["slo", "pw", gx, gl] => match parseRule1? gx, parseRule1? gl with
      | some gx, some gl => showRule2 (semi12pw gx gl) | _, _ => bad
  | _ => bad

end Driver
