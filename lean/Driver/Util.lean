/- Parsing / printing helpers of the line protocol (no Mathlib). -/
namespace Driver

def parseInt? (s : String) : Option Int := s.toInt?

def parseRat? (s : String) : Option Rat :=
  match s.splitOn "/" with
  | [p] => (parseInt? p).map fun n => (n : Rat)
  | [p, q] => do
      let n ← parseInt? p
      let d ← q.toNat?
      if d = 0 then none else some (mkRat n d)
  | _ => none

def showRat (r : Rat) : String :=
  if r.den = 1 then toString r.num else s!"{r.num}/{r.den}"

def parseRatList? (s : String) : Option (List Rat) :=
  if s = "" || s = "-" then some [] else (s.splitOn ",").mapM parseRat?

def parseNatList? (s : String) : Option (List Nat) :=
  if s = "" || s = "-" then some [] else (s.splitOn ",").mapM String.toNat?

def showRatList (l : List Rat) : String := ",".intercalate (l.map showRat)

def showNatList (l : List Nat) : String := ",".intercalate (l.map toString)

end Driver
