import Stbem.Model.EstimatorConv
import Driver.EstimatorCmd
/- Line protocol for the definitions REGENERATED from src/error_estimator.py (`Stbem.Gen.EstimatorGen`,
translate/estimatorgen.py): `gee …` are the twins of `ee space / time / est / pool / direct / wl2` (same request syntax, same
mesh state, same token seminorms; answered by the generated functions). -/
namespace Driver
open Stbem.Mesh Stbem.Estimator Stbem.EstimatorConv
open Stbem.Gen Stbem.Gen.EstimatorGen

abbrev Resid := Rat → Rat → Nat → Rat

/-- the parameters standing for `self.__integrate_h_1_2`, `self.__integrate_h_1_4` at the two token levels -/
structure GenLevel where
  self : ErrorEstimator
  f12 : Resid → Rat → Rat → Cell → Option Cell → Except String Rat
  f14 : Resid → Rat → Rat → Rat → Rat → Nat → Except String Rat

def parseGenLevel? (m : Mesh) (L : Rat) (s : String) : Option GenLevel :=
  match s.splitOn ";" with
  | ["A"] =>
    some ⟨⟨m, L, ⟨[], []⟩, ⟨[], []⟩⟩, fun _ ta tb l r => tokSpaceA ⟨ta, tb, l, r⟩,
      fun _ ta tb xa xb pc => tokTimeA ⟨ta, tb, xa, xb, pc⟩⟩
  | ["B", ps, ws] =>
    match parseRatList? ps, parseRatList? ws with
    | some ps, some ws =>
      let self : ErrorEstimator := ⟨m, L, ⟨ps, ws⟩, ⟨[], []⟩⟩
      some ⟨self,
        integrate_h_1_2 self (fun _ t a b pc => .ok (semH12 t (.single a b pc)))
          (fun _ t a1 b1 p1 a2 b2 p2 =>
            if closesCurve L b1 a2 then .ok (semH12 t (.pw a1 b1 p1 a2 b2 p2)) else .error "assert:pw-touch")
          (fun _ a b => closesCurve L a b),
        integrate_h_1_4 self (fun _ x g a b => .ok (semH14 x a b g))⟩
    | _, _ => none
  | _ => none

def noResidual : Resid := fun _ _ _ => 0

def rangeMap {β : Type} (f : Nat → Except String β) (n _chunk : Nat) : List (Except String β) := (List.range n).map f

def geeCmd (st : Option Mesh) (args : List String) : String :=
  let bad := "bad-op"
  match args, st with
  | ["gee", "space", L, lv, sym, id], some m =>
    match (parseRat? L).bind (fun L => parseGenLevel? m L lv), id.toNat? with
    | some lv, some id =>
      match findLeaf m id with
      | some c => exceptStr showIps (sobolev_space lv.self lv.f12 c noResidual (sym == "1"))
      | none => bad
    | _, _ => bad
  | ["gee", "time", lv, sym, id], some m =>
    match parseGenLevel? m 0 lv, id.toNat? with
    | some lv, some id =>
      match findLeaf m id with
      | some c => exceptStr showIps (sobolev_time lv.self lv.f14 c noResidual (sym == "1"))
      | none => bad
    | _, _ => bad
  | ["gee", "est", L, lv, ids], some m =>
    match (parseRat? L).bind (fun L => parseGenLevel? m L lv), (parseNatList? ids).bind (cellsOf m) with
    | some lv, some es => exceptStr showPairs (estimate_sobolev lv.self lv.f12 lv.f14 1 rangeMap es noResidual false)
    | _, _ => bad
  | ["gee", "pool", L, lv, cpu, ids], some m =>
    match (parseRat? L).bind (fun L => parseGenLevel? m L lv), cpu.toNat?, (parseNatList? ids).bind (cellsOf m) with
    | some lv, some cpu, some es =>
      exceptStr showPairs (estimate_sobolev lv.self lv.f12 lv.f14 cpu rangeMap es noResidual true)
    | _, _, _ => bad
  | ["gee", "direct", L, lv, ids], some m =>
    match (parseRat? L).bind (fun L => parseGenLevel? m L lv), (parseNatList? ids).bind (cellsOf m) with
    | some lv, some es =>
      exceptStr showPairs (es.mapM fun e => do
        let t ← sobolev_time lv.self lv.f14 e noResidual false
        let s ← sobolev_space lv.self lv.f12 e noResidual false
        pure (t.1, s.1))
    | _, _ => bad
  | ["gee", "wl2", id, pt, px, ws, poly], some m =>
    match id.toNat?, parseRatList? pt, parseRatList? px, parseRatList? ws, parsePoly? poly with
    | some id, some pt, some px, some ws, some poly =>
      match findLeaf m id with
      | some c =>
        let self : ErrorEstimator := ⟨m, 0, ⟨[], []⟩, ⟨[pt, px], ws⟩⟩
        exceptStr (fun r => showRat r.1 ++ ":" ++ showRat r.2)
          (weighted_l2 self sqrtStandIn c (fun t x pc => evalPoly poly t x + pc))
      | none => bad
    | _, _, _, _, _ => bad
  | ["gee", "wl2s", ids, pt, px, ws, poly, mp], some m =>
    match (parseNatList? ids).bind (cellsOf m), parseRatList? pt, parseRatList? px, parseRatList? ws, parsePoly? poly with
    | some es, some pt, some px, some ws, some poly =>
      let self : ErrorEstimator := ⟨m, 0, ⟨[], []⟩, ⟨[pt, px], ws⟩⟩
      exceptStr showPairs
        (estimate_weighted_l2 self sqrtStandIn 3 rangeMap es (fun t x pc => evalPoly poly t x + pc) (mp == "1"))
    | _, _, _, _, _ => bad
  | _, _ => bad

end Driver
