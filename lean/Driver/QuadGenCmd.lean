import Stbem.Model.QuadConv
import Driver.QuadCmd
/- Line protocol for the definitions REGENERATED from src/quadrature.py (`Stbem.Gen.QuadGen`, translate/quadgen.py):
`g1 / g2 / g3 …` are the twins of `q1 / q2 / q3 …` (same request syntax, answered by the generated functions),
`gc …` runs the generated `*_quadrature_scheme` constructors on a stand-in rule table that encodes the requested key,
`gnp …` evaluates the NumPy prelude of the generated file (compared with NumPy itself by harness/checks/C15.py). -/
namespace Driver
open Stbem.Quad Stbem.QuadConv
open Stbem.Gen

def showScheme1 (s : QuadGen.QuadScheme1D) : String := showRatList s.points ++ ";" ++ showRatList s.weights
def showRows (m : List (List Rat)) : String := ";".intercalate (m.map showRatList)
def showScheme2 (s : QuadGen.QuadScheme2D) : String := showRows s.points ++ ";" ++ showRatList s.weights
def showScheme3 (s : QuadGen.QuadScheme3D) : String := showRows s.points ++ ";" ++ showRatList s.weights

/-- results of the generated functions: a number / a scheme, or `Except String` of one when the source function has
assertions (which functions have is decided by the source text, so the driver does not fix it) -/
class ShowRes (α : Type) where
  render : α → String
instance : ShowRes Rat := ⟨showRat⟩
instance : ShowRes QuadGen.QuadScheme1D := ⟨showScheme1⟩
instance : ShowRes QuadGen.QuadScheme2D := ⟨showScheme2⟩
instance : ShowRes QuadGen.QuadScheme3D := ⟨showScheme3⟩
instance {α} [ShowRes α] : ShowRes (Except String α) :=
  ⟨fun | .ok v => ShowRes.render v | .error e => "error:" ++ e⟩

/-- stand-in rule tables that encode the key they are asked for (the harness installs the same in Python) -/
def standIn1 (n : Int) : List Rat × List Rat := ([(n : Rat), 1 / 7], [(n : Rat) / 3, 2])
def standIn2 (n m : Int) : List Rat × List Rat := ([(n : Rat), (m : Rat) + 1 / 7], [(n : Rat) / 3 - (m : Rat), 2])

def parseRows? (s : String) : Option (List (List Rat)) := (s.splitOn ";").mapM parseRatList?

def parseArith? : String → Option (Rat → Rat → Rat)
  | "add" => some (· + ·) | "sub" => some (· - ·) | "mul" => some (· * ·) | "div" => some (· / ·) | _ => none

def quadGenCmd (args : List String) : String :=
  let bad := "bad-op"
  match args with
  | ["g1", "mirror", r] => match parseRule1? r with
      | some r => ShowRes.render (ofRule1 r).mirror | none => bad
  | ["g1", "int", r, f, a, b] => match parseRule1? r, parseFun? f, parseRat? a, parseRat? b with
      | some r, some f, some a, some b => ShowRes.render ((ofRule1 r).integrate (fun x => f x 0 0) a b)
      | _, _, _, _ => bad
  | ["g2", "product", rx, ry] => match parseRule1? rx, parseRule1? ry with
      | some rx, some ry => ShowRes.render (QuadGen.ProductScheme2D.init (ofRule1 rx) (some (ofRule1 ry))) | _, _ => bad
  | ["g2", "product1", rx] => match parseRule1? rx with
      | some rx => ShowRes.render (QuadGen.ProductScheme2D.init (ofRule1 rx) none) | _ => bad
  | ["g2", "mirx", r] => match parseRule2? r with | some r => ShowRes.render (ofRule2 r).mirror_x | none => bad
  | ["g2", "miry", r] => match parseRule2? r with | some r => ShowRes.render (ofRule2 r).mirror_y | none => bad
  | ["g2", "duffy", r, s] => match parseRule2? r with
      | some r => ShowRes.render (QuadGen.DuffyScheme2D.init (ofRule2 r) (s == "1")) | none => bad
  | ["g2", "int", r, f, a, b, c, d] =>
      match parseRule2? r, parseFun? f, [a, b, c, d].mapM parseRat? with
      | some r, some f, some [a, b, c, d] => ShowRes.render ((ofRule2 r).integrate (fun x y => f x y 0) a b c d)
      | _, _, _ => bad
  | ["g3", "product", r] => match parseRule1? r with
      | some r => ShowRes.render (QuadGen.ProductScheme3D.init (ofRule1 r)) | none => bad
  | ["g3", "mirx", r] => match parseRule3? r with | some r => ShowRes.render (ofRule3 r).mirror_x | none => bad
  | ["g3", "miry", r] => match parseRule3? r with | some r => ShowRes.render (ofRule3 r).mirror_y | none => bad
  | ["g3", "mirz", r] => match parseRule3? r with | some r => ShowRes.render (ofRule3 r).mirror_z | none => bad
  | ["g3", "duffyid", r, s] => match parseRule3? r with
      | some r => ShowRes.render (QuadGen.DuffySchemeIdentical3D.init (ofRule3 r) (s == "1")) | none => bad
  | ["g3", "touch", r] => match parseRule3? r with
      | some r => ShowRes.render (QuadGen.DuffySchemeTouch3D.init (ofRule3 r)) | none => bad
  | ["g3", "int", r, f, a, b, c, d, k, l] =>
      match parseRule3? r, parseFun? f, [a, b, c, d, k, l].mapM parseRat? with
      | some r, some f, some [a, b, c, d, k, l] => ShowRes.render ((ofRule3 r).integrate f a b c d k l)
      | _, _, _ => bad
  -- the scheme constructors on the key-encoding stand-in tables
  | ["gc", "gauss", n] => match n.toInt? with
      | some n => ShowRes.render (QuadGen.gauss_quadrature_scheme standIn1 n) | none => bad
  | ["gc", "gauss_sqrtinv", n] => match n.toInt? with
      | some n => ShowRes.render (QuadGen.gauss_sqrtinv_quadrature_scheme standIn1 n) | none => bad
  | ["gc", "gauss_x", n] => match n.toInt? with
      | some n => ShowRes.render (QuadGen.gauss_x_quadrature_scheme standIn1 n) | none => bad
  | ["gc", "gauss_log", n] => match n.toInt? with
      | some n => ShowRes.render (QuadGen.gauss_log_quadrature_scheme standIn1 n) | none => bad
  | ["gc", "log", n, m] => match n.toInt?, m.toInt? with
      | some n, some m => ShowRes.render (QuadGen.log_quadrature_scheme standIn2 n m) | _, _ => bad
  | ["gc", "log_log", n, m] => match n.toInt?, m.toInt? with
      | some n, some m => ShowRes.render (QuadGen.log_log_quadrature_scheme standIn2 n m) | _, _ => bad
  | ["gc", "sqrt", n, m] => match n.toInt?, m.toInt? with
      | some n, some m => ShowRes.render (QuadGen.sqrt_quadrature_scheme standIn2 n m) | _, _ => bad
  | ["gc", "sqrtinv", n, m] => match n.toInt?, m.toInt? with
      | some n, some m => ShowRes.render (QuadGen.sqrtinv_quadrature_scheme standIn2 n m) | _, _ => bad
  -- the NumPy prelude, function by function
  | ["gnp", "repeat", a, k] => match parseRatList? a, k.toNat? with
      | some a, some k => showRatList (QuadGen.npRepeat a k) | _, _ => bad
  | ["gnp", "tile", a, k] => match parseRatList? a, k.toNat? with
      | some a, some k => showRatList (QuadGen.npTile a k) | _, _ => bad
  | ["gnp", "kron", a, b] => match parseRatList? a, parseRatList? b with
      | some a, some b => showRatList (QuadGen.npKron a b) | _, _ => bad
  | ["gnp", "dot", a, b] => match parseRatList? a, parseRatList? b with
      | some a, some b => showRat (QuadGen.npDot a b) | _, _ => bad
  | ["gnp", "sum", a] => match parseRatList? a with
      | some a => showRat (QuadGen.npSum a) | _ => bad
  | ["gnp", "array", a] => match parseRatList? a with
      | some a => showRatList (QuadGen.npArray a) | _ => bad
  | ["gnp", "arraym", m] => match parseRows? m with
      | some m => showRows (QuadGen.npArrayM m) | _ => bad
  | ["gnp", "len", a] => match parseRatList? a with
      | some a => toString (QuadGen.npLen a) | _ => bad
  | ["gnp", "shape1", m] => match parseRows? m with
      | some m => toString (QuadGen.npShape1 m) | _ => bad
  | ["gnp", "row", m, i] => match parseRows? m, i.toNat? with
      | some m, some i => showRatList (QuadGen.npRow m i) | _, _ => bad
  | ["gnp", "repeat1", m, k] => match parseRows? m, k.toNat? with
      | some m, some k => showRows (QuadGen.npRepeatAxis1 m k) | _, _ => bad
  | "gnp" :: "hstack" :: as => match as.mapM parseRatList? with
      | some as => showRatList (QuadGen.npHstack as) | _ => bad
  | "gnp" :: "hstackm" :: ms => match ms.mapM parseRows? with
      | some ms => showRows (QuadGen.npHstackM ms) | _ => bad
  | ["gnp", "vstack", m, a] => match parseRows? m, parseRatList? a with
      | some m, some a => showRows (QuadGen.npVstack [m, QuadGen.npRow2d a]) | _, _ => bad
  | ["gnp", "sa", op, c, a] => match parseArith? op, parseRat? c, parseRatList? a with
      | some op, some c, some a => showRatList (QuadGen.npSA op c a) | _, _, _ => bad
  | ["gnp", "as", op, a, c] => match parseArith? op, parseRatList? a, parseRat? c with
      | some op, some a, some c => showRatList (QuadGen.npAS op a c) | _, _, _ => bad
  | ["gnp", "aa", op, a, b] => match parseArith? op, parseRatList? a, parseRatList? b with
      | some op, some a, some b => showRatList (QuadGen.npAA op a b) | _, _, _ => bad
  | ["gnp", "pow", a, k] => match parseRatList? a, k.toNat? with
      | some a, some k => showRatList (QuadGen.npPow a k) | _, _ => bad
  | ["gnp", "neg", a] => match parseRatList? a with
      | some a => showRatList (QuadGen.npNeg a) | _ => bad
  | ["gnp", "map1", f, a] => match parseFun? f, parseRatList? a with
      | some f, some a => showRatList (QuadGen.npMap1 (fun x => f x 0 0) a) | _, _ => bad
  | ["gnp", "map2", f, m] => match parseFun? f, parseRows? m with
      | some f, some m => showRatList (QuadGen.npMap2 (fun x y => f x y 0) m) | _, _ => bad
  | ["gnp", "map3", f, m] => match parseFun? f, parseRows? m with
      | some f, some m => showRatList (QuadGen.npMap3 f m) | _, _ => bad
  | _ => bad

end Driver
