import Stbem.Model.Estimator
import Driver.MeshCmd
/- Line protocol for the error-estimator model (prefix `ee`).  The commands work on the mesh state of
the driver (`ee load` installs a dumped leaf list; `mesh init…` + refinements work as well).

Token seminorms: every routine that the real code would call is replaced by an injective integer code
of its arguments (`hashL`, the same arithmetic is done by `harness/checks/C09.py`).
  level `A`            : `__integrate_h_1_2` / `__integrate_h_1_4` are tokens of their arguments;
  level `B;pts;wts`    : the real `__integrate_*` bodies with the outer rule `pts, wts`; the routines of
                         `Slobodeckij` are tokens of (Gauss point, arguments, branch). -/
namespace Driver
open Stbem.Mesh Stbem.Estimator

def hashP : Nat := 68719476731

def mixN (h v : Nat) : Nat := (h * 1000003 + v % hashP + 1) % hashP

def ratCode (q : Rat) : List Nat := [if q.num < 0 then 1 else 0, q.num.natAbs, q.den]

def hashL (l : List Nat) : Nat := l.foldl mixN 17

def tokQ (l : List Nat) : Rat := ((hashL l : Nat) : Int)

def tokSpaceA (p : SpacePatch) : Except String Rat :=
  .ok (tokQ ([1] ++ ratCode p.ta ++ ratCode p.tb ++ [p.left.id] ++
    (match p.right with | none => [0] | some r => [r.id + 1])))

def tokTimeA (p : TimePatch) : Except String Rat :=
  .ok (tokQ ([2] ++ ratCode p.ta ++ ratCode p.tb ++ ratCode p.xa ++ ratCode p.xb ++ [p.piece]))

def semH12 (t : Rat) : H12Call → Rat
  | .single a b pc => tokQ ([3] ++ ratCode t ++ ratCode a ++ ratCode b ++ [pc])
  | .same a b pc => tokQ ([3] ++ ratCode t ++ ratCode a ++ ratCode b ++ [pc])
  | .pw a1 b1 p1 a2 b2 p2 =>
    tokQ ([4] ++ ratCode t ++ ratCode a1 ++ ratCode b1 ++ [p1] ++ ratCode a2 ++ ratCode b2 ++ [p2])

def semH14 (x a b : Rat) (pc : Nat) : Rat := tokQ ([5] ++ ratCode x ++ ratCode a ++ ratCode b ++ [pc])

structure Level where
  evS : Rat → Cell → Cell → Except String Rat
  evT : Cell → Cell → Except String Rat

def parseLevel? (s : String) : Option Level :=
  match s.splitOn ";" with
  | ["A"] => some ⟨fun L => evSpace L tokSpaceA, evTime tokTimeA⟩
  | ["B", ps, ws] =>
    match parseRatList? ps, parseRatList? ws with
    | some ps, some ws =>
      let g : Rule := ⟨ps, ws⟩
      some ⟨fun L => evSpace L (integrateH12 g (closesCurve L) semH12),
            evTime (fun p => .ok (integrateH14 g semH14 p))⟩
    | _, _ => none
  | _ => none

def parseCell? (s : String) : Option Cell :=
  match s.splitOn ":" with
  | [id, t0, t1, x0, x1, lt, lx, par, piece] => do
    let id ← id.toNat?
    let t0 ← parseRat? t0
    let t1 ← parseRat? t1
    let x0 ← parseRat? x0
    let x1 ← parseRat? x1
    let lt ← lt.toNat?
    let lx ← lx.toNat?
    let piece ← piece.toNat?
    let par := if par == "-" then none else par.toNat?
    some ⟨t0, t1, x0, x1, lt, lx, id, par, piece⟩
  | _ => none

def showIps (r : Rat × List (Nat × Rat)) : String :=
  showRat r.1 ++ "|" ++ ",".intercalate (r.2.map fun p => toString p.1 ++ ":" ++ showRat p.2)

def showPairs (l : List (Rat × Rat)) : String :=
  " ".intercalate (l.map fun p => showRat p.1 ++ ":" ++ showRat p.2)

def exceptStr {α} (f : α → String) : Except String α → String
  | .ok a => f a
  | .error e => "err " ++ e

def cellsOf (m : Mesh) (ids : List Nat) : Option (List Cell) := ids.mapM (findLeaf m)

/-- polynomial `Σ c t^i x^j` given as `i:j:c,i:j:c,…` -/
def parsePoly? (s : String) : Option (List (Nat × Nat × Rat)) :=
  (s.splitOn ",").mapM fun term =>
    match term.splitOn ":" with
    | [i, j, c] => do
      let i ← i.toNat?
      let j ← j.toNat?
      let c ← parseRat? c
      some (i, j, c)
    | _ => none

def evalPoly (p : List (Nat × Nat × Rat)) (t x : Rat) : Rat :=
  lsum (p.map fun m => m.2.2 * t ^ m.1 * x ^ m.2.1)

/-- the stand-in for `sqrt` used by the weighted-L2 correspondence -/
def sqrtStandIn (h : Rat) : Rat := (3 * h + 1) / (h + 2)

def eeCmd (st : Option Mesh) (args : List String) : Option Mesh × String :=
  let bad := (st, "bad-op")
  match args, st with
  | "ee" :: "load" :: g :: x0 :: x1 :: t0 :: t1 :: n :: cells, _ =>
    match parseRat? x0, parseRat? x1, parseRat? t0, parseRat? t1, n.toNat?, cells.mapM parseCell? with
    | some x0, some x1, some t0, some t1, some n, some cs =>
      (some { glue := g == "1", xmin := x0, xmax := x1, tmin := t0, tmax := t1, leaves := cs, nElems := n,
              verts := [], kids := [] }, s!"ok {cs.length}")
    | _, _, _, _, _, _ => bad
  | ["ee", "nbrs"], some m =>
    (st, " ".intercalate (m.leaves.map fun c =>
      toString c.id ++ ":" ++ showNatList ((spaceNbrs m c).map (·.id)) ++ "/" ++
        showNatList ((timeNbrs m c).map (·.id))))
  | ["ee", "space", L, lv, sym, id], some m =>
    match parseRat? L, parseLevel? lv, id.toNat? with
    | some L, some lv, some id =>
      match findLeaf m id with
      | some c => (st, exceptStr showIps (sobolevLoop (lv.evS L) (sym == "1") c (spaceNbrs m c)))
      | none => bad
    | _, _, _ => bad
  | ["ee", "time", lv, sym, id], some m =>
    match parseLevel? lv, id.toNat? with
    | some lv, some id =>
      match findLeaf m id with
      | some c => (st, exceptStr showIps (sobolevLoop lv.evT (sym == "1") c (timeNbrs m c)))
      | none => bad
    | _, _ => bad
  | ["ee", "est", L, lv, ids], some m =>
    match parseRat? L, parseLevel? lv, (parseNatList? ids).bind (cellsOf m) with
    | some L, some lv, some es => (st, exceptStr showPairs (estimateSobolev m lv.evT (lv.evS L) es))
    | _, _, _ => bad
  | ["ee", "pool", L, lv, cpu, ids], some m =>
    match parseRat? L, parseLevel? lv, cpu.toNat?, (parseNatList? ids).bind (cellsOf m) with
    | some L, some lv, some cpu, some es =>
      (st, exceptStr showPairs
        (estimateSobolevPool (fun f n _ => (List.range n).map f) cpu m lv.evT (lv.evS L) es))
    | _, _, _, _ => bad
  | ["ee", "direct", L, lv, ids], some m =>
    match parseRat? L, parseLevel? lv, (parseNatList? ids).bind (cellsOf m) with
    | some L, some lv, some es => (st, exceptStr showPairs (directSobolev m lv.evT (lv.evS L) es))
    | _, _, _ => bad
  | ["ee", "wl2", id, pt, px, ws, poly], some m =>
    match id.toNat?, parseRatList? pt, parseRatList? px, parseRatList? ws, parsePoly? poly with
    | some id, some pt, some px, some ws, some poly =>
      match findLeaf m id with
      | some c =>
        let r := weightedL2 (pt.zip px) ws (fun t x pc => evalPoly poly t x + pc) (sqrtStandIn (c.t1 - c.t0)) c
        (st, showRat r.1 ++ ":" ++ showRat r.2)
      | none => bad
    | _, _, _, _, _ => bad
  | _, _ => bad

end Driver
