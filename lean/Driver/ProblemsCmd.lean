import Stbem.Gen.ProblemsQ
import Driver.Util
import Driver.FormulaCmd
/- Line protocol for the generated functions of problems.py:
   `pb ev <name> <standins> <args>`   value of the generated function `<name>` (a rational)
   `pb helper <problem> <domain>`     the dispatch table of `problem_helper`: `ok key=name,...` | `err <assertion>`
   `pb table`                         the list of translated functions `name:key:arity:complex`
   standins = eight groups `p0,p1,p2,q0` (exp sqrt sin erf erfc | cexp cerf cerfc) with the constant `pi` after the fifth,
   separated by `;`; the complex stand-ins are the same rational functions evaluated in the Gaussian rationals. -/
namespace Driver
open Stbem.Problems.Q

/-- `(p0 + p1 u + p2 u²)/(q0 + u²)` at a Gaussian rational -/
def cstandIn (c : List Rat) : CQ → CQ :=
  match c with
  | [p0, p1, p2, q0] => fun u =>
      (CQ.ofRat p0 + CQ.ofRat p1 * u + CQ.ofRat p2 * (u * u)) / (CQ.ofRat q0 + u * u)
  | _ => fun _ => ⟨0, 0⟩

def parsePFns? (s : String) : Option Fns :=
  match (s.splitOn ";").mapM parseRatList? with
  | some [e, sq, si, er, erc, [pi], ce, cer, cerc] =>
    some { exp := standIn e, sqrt := standIn sq, sin := standIn si, erf := standIn er, erfc := standIn erc,
           pi := pi, cexp := cstandIn ce, cerf := cstandIn cer, cerfc := cstandIn cerc }
  | _ => none

def problemsCmd (args : List String) : String :=
  match args with
  | ["pb", "ev", name, fns, xs] =>
    match parsePFns? fns, parseRatList? xs with
    | some S, some xs => match evalByName S name xs with
      | some v => showRat v
      | none => "bad-op"
    | _, _ => "bad-op"
  | ["pb", "helper", p, d] =>
    match helper p d with
    | .ok l => "ok " ++ ",".intercalate (l.map fun kn => kn.1 ++ "=" ++ kn.2)
    | .error e => "err " ++ e
  | ["pb", "table"] =>
    ",".intercalate (table.map fun e => s!"{e.1}:{e.2.1}:{e.2.2.1}:{e.2.2.2}")
  | _ => "bad-op"

end Driver
