import Stbem.Gen.QuadtreeGen
import Driver.QuadtreeCmd
/- Line protocol `gqt …`: the requests of `qt …` answered by the definitions REGENERATED from src/initial_mesh.py
(`Stbem.Gen.QuadtreeGen`, translate/quadtreegen.py) on a state of their own (dictionaries keyed by vertex pairs, vertex
objects with their `idx`); the answers and the canonical dump have the format of `qt …`. -/
namespace Driver
open Stbem.Gen.QuadtreeGen

structure GQtSt where
  cur : Option InitialMesh := none
  ret : List Nat := []
  stack : List (InitialMesh × List Nat) := []

def showGElem (e : Element) : String :=
  ":".intercalate [toString e.id, showRat e.v0.x, showRat e.v0.y, showRat (e.v1.x - e.v0.x), toString e.level,
    showOptNat' e.parent]

def dumpGQt (m : InitialMesh) (ret : List Nat) : String :=
  let ls := Stbem.Mesh.sortBy (fun a b : Element => decide (a.id < b.id)) m.leaf_elements
  let l := " ".intercalate (ls.map showGElem)
  let v := " ".intercalate (m.vertices.map fun v => showRat v.x ++ ":" ++ showRat v.y)
  s!"L {l}|V {v}|E {m.elements.length}|R {showNatList ret}"

/-- the element object with the given identity -/
def gElemRef (m : InitialMesh) (id : Nat) : Option Element := m.elements.find? (·.id == id)

/-- the hand model rejects initial meshes for which its geometric reading of the dictionaries is not faithful; the twin
answers such requests like the hand model (`unsupported:*`), everything else with the generated constructor -/
def gqtCmd (st : GQtSt) (args : List String) : GQtSt × String :=
  let bad := (st, "bad-op")
  match args, st.cur with
  | ["gqt", "init", "unit"], _ =>
    match UnitSquare with
    | .ok m => ({ st with cur := some m, ret := [] }, s!"ok {m.leaf_elements.length}")
    | .error e => ({ st with cur := none }, "err " ++ e)
  | ["gqt", "init", "lshape"], _ =>
    match LShape with
    | .ok m => ({ st with cur := some m, ret := [] }, s!"ok {m.leaf_elements.length}")
    | .error e => ({ st with cur := none }, "err " ++ e)
  | ["gqt", "init", "explicit", vs, es], _ =>
    match (parseRatList? vs).bind pairUp, (parseNatList? es).bind quadUp with
    | some vs, some es =>
      match InitialMesh_init vs es with
      | .ok m => ({ st with cur := some m, ret := [] }, s!"ok {m.leaf_elements.length}")
      | .error e => ({ st with cur := none }, "err " ++ e)
    | _, _ => bad
  | ["gqt", "refine", id], some m =>
    match id.toNat?.bind (gElemRef m) with
    | some e =>
      match refineCall m e with
      | .ok (m', ch) =>
        let r := ch.map (·.id)
        ({ st with cur := some m', ret := r }, s!"ok {showNatList r}")
      | .error e => (st, "err " ++ e)
    | none => bad
  | ["gqt", "unif", ids], some m =>
    match (parseNatList? ids).bind fun ids => ids.mapM (gElemRef m) with
    | some es =>
      match InitialMesh_uniform_refine m es with
      | .ok m' => ({ st with cur := some m', ret := [] }, s!"ok {m'.leaf_elements.length}")
      | .error e => (st, "err " ++ e)
    | none => bad
  | ["gqt", "bdr", fuel, x0, y0, x1, y1], some m =>
    match fuel.toNat?, parseRat? x0, parseRat? y0, parseRat? x1, parseRat? y1 with
    | some fuel, some x0, some y0, some x1, some y1 =>
      -- `eps = 0`: the tolerance of the containment test is read as exact comparison (as `isclose` is equality)
      match InitialMesh_refine_msh_bdr fuel m (x0, y0) (x1, y1) 0 with
      | .ok (m', e) => ({ st with cur := some m', ret := [e.id] }, s!"ok {e.id}")
      | .error e => (st, "err " ++ e)
    | _, _, _, _, _ => bad
  | ["gqt", "vertex", x, y], some m =>
    match parseRat? x, parseRat? y with
    | some x, some y =>
      match InitialMesh_vertex_from_coords m (x, y) with
      | .ok (some v) => (st, s!"ok {v.idx}")
      | .ok none => (st, "none")
      | .error e => (st, "err " ++ e)
    | _, _ => bad
  | ["gqt", "dump"], some m => (st, dumpGQt m st.ret)
  | ["gqt", "push"], some m => ({ st with stack := (m, st.ret) :: st.stack }, "ok")
  | ["gqt", "pop"], _ =>
    match st.stack with
    | (m, r) :: rest => ({ st with cur := some m, ret := r, stack := rest }, "ok")
    | [] => bad
  | _, _ => bad

end Driver
