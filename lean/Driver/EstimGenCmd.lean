import Stbem.Model.EstimConv
import Driver.EstimCmd
/- Line protocol `gest …`: the requests of `est …` answered by the definitions REGENERATED from
src/hierarchical_error_estimator.py / src/h_h2_error_estimator.py (`Stbem.Gen.EstimGen`, translate/estimgen.py).
The elements are built from the transmitted rectangles by the vertex convention of `Element.__init__`; the leaves are
stubs that hand out the transmitted matrices / vectors (which call is which is decided as the recording stub of the
harness does: by `use_mp` and by the identity of the first test element). -/
namespace Driver
open Stbem.Estim Stbem.Gen.EstimGen Stbem.EstimConv

def showExc {α : Type} (f : α → String) (r : Except String α) : String :=
  match r with
  | .ok a => f a
  | .error e => "err " ++ e

def showMatG (m : List (List Rat)) : String := if m.isEmpty then "-" else ";".intercalate (m.map showRatList)

def parseRects? (s : String) : Option (List Rect) :=
  if s = "-" || s = "" then some [] else (s.splitOn ";").mapM parseRect?

def estimGenCmd (args : List String) : String :=
  match args with
  | ["gest", "quarters", rs] =>
    match parseRects? rs with
    | some l =>
      showExc (fun r => ";".intercalate (r.1.flatten.map fun e => showRect (rectOf e)))
        (DummyElement.uniform_refinement l.length (elemsOf 0 () l))
    | none => "bad-op"
  | ["gest", "kids", rs] =>
    -- identities, vertex coordinates and vertex indices of the children
    match parseRects? rs with
    | some l =>
      showExc (fun r => ";".intercalate (r.1.flatten.map fun e =>
          s!"{e.oid}:" ++ "|".intercalate (e.vertices.map fun v => s!"{showRat v.t},{showRat v.x},{v.idx}")) ++ s!" {r.2}")
        (DummyElement.uniform_refinement l.length (elemsOf 0 () l))
    | none => "bad-op"
  | ["gest", "consts"] =>
    let ps := ";".intercalate (HierarchicalErrorEstimator.estimate_table1.map fun p => ",".intercalate (p.map toString))
    s!"{ps}|{showRat c_0p5}"
  | ["gest", "hier", rs, mat, phi, g, m0, ss] =>
    match parseRects? rs, parseMat? mat, parseRatList? phi, parseOptVec? g, parseOptVec? m0, (ss.splitOn "|").mapM parseMat? with
    | some rs, some mat, some phi, some g, some m0, some ss =>
      let n := rs.length
      let SL : SingleLayerOperator Unit :=
        { bilform_matrix := fun test _ mp => match mp with
            | some _ => mat
            | none => ss.getD (((test.headD (elemOf 0 () 0 ⟨0, 0, 0, 0⟩)).oid - n) / 4) [] }
      let est := HierarchicalErrorEstimator.init SL (m0.map fun v => { linform_vector := fun _ _ => v }) (g.map fun v => fun _ => v)
      showExc showMatG (est.estimate n (elemsOf 0 () rs) phi)
    | _, _, _, _, _, _ => "bad-op"
  | ["gest", "hh2", rs, mat, phi, g, m0] =>
    match parseRects? rs, parseMat? mat, parseRatList? phi, parseOptVec? g, parseOptVec? m0 with
    | some rs, some mat, some phi, some g, some m0 =>
      let SL : SingleLayerOperator Unit := { bilform_matrix := fun _ _ _ => mat }
      let est := HH2ErrorEstimator.init SL (m0.map fun v => { linform_vector := fun _ _ => v }) (g.map fun v => fun _ => v) true
      showExc showRat (est.estimate (npExt id) rs.length (elemsOf 0 () rs) phi)
    | _, _, _, _, _ => "bad-op"
  -- the NumPy / Python prelude, executed against NumPy itself by the harness
  | ["gest", "np", "repeat", v, k] =>
    match parseRatList? v, k.toNat? with
    | some v, some k => showRatList (npRepeat v k)
    | _, _ => "bad-op"
  | ["gest", "np", "matvec", a, v] =>
    match parseMat? a, parseRatList? v with
    | some a, some v => showExc showRatList (npMatVec a v)
    | _, _ => "bad-op"
  | ["gest", "np", "vecmat", v, a] =>
    match parseRatList? v, parseMat? a with
    | some v, some a => showExc showRatList (npVecMat v a)
    | _, _ => "bad-op"
  | ["gest", "np", "vecvec", a, b] =>
    match parseRatList? a, parseRatList? b with
    | some a, some b => showExc showRat (npVecVec a b)
    | _, _ => "bad-op"
  | ["gest", "np", "pairs", a, b] =>
    match parseRatList? a, parseRatList? b with
    | some a, some b => showMatG (npArrayPairs (List.zip a b))
    | _, _ => "bad-op"
  | ["gest", "np", "dict", keys, k] =>
    match parseNatList? keys, k.toNat? with
    | some keys, some k => showExc toString (dictGet (dictOfEnumerate keys) k)
    | _, _ => "bad-op"
  | ["gest", "np", op, a, b] =>
    match parseRatList? a, parseRatList? b with
    | some a, some b =>
      match op with
      | "sub" => showExc showRatList (npSub a b)
      | "add" => showExc showRatList (npAdd a b)
      | "iadd" => showExc showRatList (npIAdd a b)
      | "isub" => showExc showRatList (npISub a b)
      | "max" => showRatList (List.zipWith pyMax a b)
      | "min" => showRatList (List.zipWith pyMin a b)
      | _ => "bad-op"
    | _, _ => "bad-op"
  | ["gest", "np", "abs", a] =>
    match parseRatList? a with
    | some a => showRatList (a.map pyAbs)
    | none => "bad-op"
  | _ => "bad-op"

end Driver
