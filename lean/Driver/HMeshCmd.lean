import Stbem.Model.HalfEdge
import Driver.MeshCmd
/- Line protocol for the H-layer (pointer-level) mesh model: prefix `hm`. -/
namespace Driver
open Stbem.Mesh (Ax Side)
open Stbem.HalfEdge

def showOptId (h : HMesh) : Option Nat → String
  | none => "N"
  | some el => toString (h.elem el).id

/-- the canonical dump of `mesh dump`, computed from the pointer structure only: cells from the element
vertices, neighbour lists from `Edge.neighbour_elements()`, flags from the edge fields -/
def hDumpMesh (h : HMesh) : String :=
  let ls := " ".intercalate (h.leaves.map fun el => showCell (h.cellOf el))
  let vs := " ".intercalate (h.verts.toList.map fun v => showRat v.t ++ ":" ++ showRat v.x)
  let ns := " ".intercalate (h.leaves.map fun el =>
    toString (h.elem el).id ++ ":" ++ "/".intercalate ((h.elem el).edgeList.map fun ei =>
      match h.neighbourElements ei with
      | .ok l => ",".intercalate (l.map (showOptId h))
      | .error e => "!" ++ e))
  let bs := " ".intercalate (h.leaves.map fun el =>
    toString (h.elem el).id ++ ":" ++ String.join ((h.elem el).edgeList.map fun ei =>
      let e := h.edge ei
      flag (e.onBoundary && !e.glued) ++ flag e.glued))
  s!"L {ls}|V {vs}|N {ns}|B {bs}|E {h.nElems}"

/-- `v0,v1,haschildren,on_boundary,glued` -/
def edgeFacts (h : HMesh) (e : HEdge) : String :=
  s!"{(h.vert e.v0).idx},{(h.vert e.v1).idx},{flag e.kids.isSome},{flag e.onBoundary},{flag e.glued}"

def posIn (l : List Nat) (a : Nat) : String :=
  match l.idxOf? a with
  | some i => toString i
  | none => "-"

/-- pointer-level facts of one leaf edge: own facts | parent facts | neighbour-edge facts -/
def hEdgeLine (h : HMesh) (ei : Nat) : String :=
  let e := h.edge ei
  let par := match e.parent with
    | none => "-"
    | some p =>
      let P := h.edge p
      let pi := match P.kids with
        | some (k0, k1) => posIn [k0, k1] ei
        | none => "-"
      let pn := match P.nbr with
        | none => "-"
        | some f => showOptId h (h.edge f).elem ++ ";" ++ flag (h.edge f).kids.isSome
      s!"{pi};{edgeFacts h P};{pn}"
  let nb := match e.nbr with
    | none => "-"
    | some f =>
      let F := h.edge f
      let side := match F.elem with
        | none => "-"
        | some o => posIn (h.elem o).edgeList f
      let ko := match F.kids with
        | none => "-"
        | some (f0, f1) => showOptId h (h.edge f0).elem ++ "," ++ showOptId h (h.edge f1).elem
      let back := flag (F.nbr == some ei)
      s!"{showOptId h F.elem};{side};{edgeFacts h F};{ko};{back}"
  s!"{edgeFacts h e}|{par}|{nb}"

def hDumpEdges (h : HMesh) : String :=
  " ".intercalate (h.leaves.map fun el =>
    let E := h.elem el
    toString E.id ++ "=" ++ "/".intercalate (E.edgeList.map fun ei =>
      flag ((h.edge ei).elem == some el) ++ "|" ++ hEdgeLine h ei))

def hOkOrErr (r : Except String HMesh) (old : HMesh) : HMesh × String :=
  match r with
  | .ok h => (h, s!"ok {h.leaves.length}")
  | .error e => (old, "err " ++ e)

/-- returns the new state and the output line -/
def hmCmd (st : Option HMesh) (args : List String) : Option HMesh × String :=
  let bad := (st, "bad-op")
  match args, st with
  | ["hm", "init", g, xs, ts], _ =>
    match parseRatList? xs, parseRatList? ts with
    | some X, some T =>
      match init (g == "1") X T with
      | .ok h => (some h, s!"ok {h.leaves.length}")
      | .error e => (none, "err " ++ e)
    | _, _ => bad
  | ["hm", "rt", id], some h => match id.toNat? with
    | some id => let r := hOkOrErr (refineId h id .time) h; (some r.1, r.2) | none => bad
  | ["hm", "rs", id], some h => match id.toNat? with
    | some id => let r := hOkOrErr (refineId h id .space) h; (some r.1, r.2) | none => bad
  | ["hm", "rb", id], some h => match id.toNat? with
    | some id => match refineBoth h id with
      | .ok (h', ids) => (some h', s!"ok {h'.leaves.length} {showNatList ids}")
      | .error e => (some h, "err " ++ e)
    | none => bad
  | ["hm", "dump"], some h => (st, hDumpMesh h)
  -- the dump of the A-layer mesh obtained by the abstraction function
  | ["hm", "absdump"], some h => (st, dumpMesh h.abs)
  | ["hm", "edges"], some h => (st, hDumpEdges h)
  | _, _ => bad

end Driver
