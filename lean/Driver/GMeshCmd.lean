import Stbem.Gen.MeshOps
import Driver.MeshCmd
/- Line protocol `gmesh …`: the requests of `mesh …` answered by the definitions REGENERATED from src/mesh.py
(`Stbem.Gen.MeshOps`, translate/meshops.py) on a state of their own.  `init`, `dump`, `leaves` are the hand model's
(they are not part of the translated fragment). -/
namespace Driver
open Stbem.Mesh Stbem.Gen

/-- the element reference for an index: the leaf with that index; for an index that is no leaf a cell that carries the
index only (every generated function looks the element up by its index) -/
def elemRef (m : Mesh) (id : Nat) : Cell :=
  match findLeaf m id with
  | some c => c
  | none => ⟨0, 0, 0, 0, 0, 0, id, none, 0⟩

def gmeshCmd (st : Option Mesh) (args : List String) : Option Mesh × String :=
  let bad := (st, "bad-op")
  match args, st with
  | ["gmesh", "init", g, xs, ts], _ => meshCmd st ["mesh", "init", g, xs, ts]
  | ["gmesh", "initp", fx, cl, pw, xs, ts], _ =>
    -- the generated constructor is the CURRENT source (guard counted per time slab): no `perSlab` switch
    match parseRatList? pw, parseRatList? xs, parseRatList? ts with
    | some pw, some X, some T =>
      if fx != "1" then (st, "unsupported")
      else match MeshOps.MeshParametrized_init (cl == "1") pw (pw.getLastD 0) (some X) T with
        | .ok m => (some m, s!"ok {m.leaves.length}")
        | .error e => (none, "err " ++ e)
    | _, _, _ => bad
  | ["gmesh", "rt", id], some m => match id.toNat? with
    | some id => let r := okOrErr ((·.1) <$> MeshOps.refine_time m (elemRef m id)) m; (some r.1, r.2) | none => bad
  | ["gmesh", "rs", id], some m => match id.toNat? with
    | some id => let r := okOrErr ((·.1) <$> MeshOps.refine_space m (elemRef m id)) m; (some r.1, r.2) | none => bad
  | ["gmesh", "rb", id], some m => match id.toNat? with
    | some id => match MeshOps.refine m (elemRef m id) with
      | .ok (m', kids) => (some m', s!"ok {m'.leaves.length} {showNatList (kids.map (·.id))}")
      | .error e => (some m, "err " ++ e)
    | none => bad
  | ["gmesh", "unif"], some m => let r := okOrErr (MeshOps.uniform_refine m) m; (some r.1, r.2)
  | ["gmesh", "unifs"], some m => let r := okOrErr (MeshOps.uniform_refine_space m) m; (some r.1, r.2)
  | ["gmesh", "diso", th, perm, eta], some m =>
    match parseRat? th, parseNatList? perm, parseRatList? eta with
    | some th, some perm, some eta =>
      let r := okOrErr (MeshOps.dorfler_refine_isotropic m eta perm th) m; (some r.1, r.2)
    | _, _, _ => bad
  | ["gmesh", "daniso", th, et, es], some m =>
    match parseRat? th, parseRatList? et, parseRatList? es with
    | some th, some et, some es =>
      if et.length ≠ es.length then bad
      else let r := okOrErr (MeshOps.dorfler_refine_anisotropic m (et.zip es) th) m; (some r.1, r.2)
    | _, _, _ => bad
  | ["gmesh", "grade", fx, p, q, k, fuel], some m =>
    -- the generated function is the CURRENT source: there is no `fixed` switch; a request for the unrepaired loop
    -- cannot be answered
    match p.toNat?, q.toNat?, parseRat? k, fuel.toNat? with
    | some p, some q, some k, some fuel =>
      if fx != "1" then (st, "unsupported")
      else let r := okOrErr (MeshOps.refine_grading fuel m p q k) m; (some r.1, r.2)
    | _, _, _, _ => bad
  | ["gmesh", "prolong", coarse, vec, fine], some m =>
    match parseNatList? coarse, parseRatList? vec, parseNatList? fine with
    | some c, some v, some f => match MeshOps.Prolongate m v c f with
      | .ok r => (st, showRatList r)
      | .error e => (st, "err " ++ e)
    | _, _, _ => bad
  | ["gmesh", "dump"], some _ => meshCmd st ["mesh", "dump"]
  | ["gmesh", "leaves"], some _ => meshCmd st ["mesh", "leaves"]
  | _, _ => bad

end Driver
