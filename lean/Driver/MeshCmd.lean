import Stbem.Model.Mesh
import Driver.Util
/- Line protocol for the boundary-mesh model. -/
namespace Driver
open Stbem.Mesh

def showOptNat : Option Nat → String
  | none => "-"
  | some n => toString n

def showCell (c : Cell) : String :=
  ":".intercalate [toString c.id, showRat c.t0, showRat c.t1, showRat c.x0, showRat c.x1, toString c.lt,
    toString c.lx, showOptNat c.par, toString c.piece]

def flag (b : Bool) : String := if b then "1" else "0"

def dumpMesh (m : Mesh) : String :=
  let ls := " ".intercalate (m.leaves.map showCell)
  let vs := " ".intercalate (m.verts.map fun v => showRat v.1 ++ ":" ++ showRat v.2)
  let ns := " ".intercalate (m.leaves.map fun c =>
    toString c.id ++ ":" ++ "/".intercalate (Side.all.map fun s => showNatList ((nbrs m c s).map (·.id))))
  let bs := " ".intercalate (m.leaves.map fun c =>
    toString c.id ++ ":" ++ String.join (Side.all.map fun s =>
      let isSeam := m.glue && (s == Side.left || s == Side.right) && onBoundary m c s
      flag (onBoundary m c s && !isSeam) ++ flag isSeam))
  s!"L {ls}|V {vs}|N {ns}|B {bs}|E {m.nElems}"

def dumpLeaves (m : Mesh) : String := "L " ++ " ".intercalate (m.leaves.map showCell) ++ s!"|E {m.nElems}"

def parseAx? : String → Option Ax
  | "t" => some .time
  | "s" => some .space
  | _ => none

def okOrErr (r : Except String Mesh) (old : Mesh) : Mesh × String :=
  match r with
  | .ok m => (m, s!"ok {m.leaves.length}")
  | .error e => (old, "err " ++ e)

/-- returns the new state and the output line -/
def meshCmd (st : Option Mesh) (args : List String) : Option Mesh × String :=
  let bad := (st, "bad-op")
  match args, st with
  | ["mesh", "init", g, xs, ts], _ =>
    match parseRatList? xs, parseRatList? ts with
    | some X, some T => let m := init (g == "1") X T; (some m, s!"ok {m.leaves.length}")
    | _, _ => bad
  | ["mesh", "initp", fx, cl, pw, xs, ts], _ =>
    match parseRatList? pw, parseRatList? xs, parseRatList? ts with
    | some pw, some X, some T =>
      match initParam (fx == "1") (cl == "1") pw X T with
      | .ok m => (some m, s!"ok {m.leaves.length}")
      | .error e => (none, "err " ++ e)
    | _, _, _ => bad
  | ["mesh", "rt", id], some m => match id.toNat? with
    | some id => let r := okOrErr (refineId m id .time) m; (some r.1, r.2) | none => bad
  | ["mesh", "rs", id], some m => match id.toNat? with
    | some id => let r := okOrErr (refineId m id .space) m; (some r.1, r.2) | none => bad
  | ["mesh", "rb", id], some m => match id.toNat? with
    | some id => match refineBoth m id with
      | .ok (m', ids) => (some m', s!"ok {m'.leaves.length} {showNatList ids}")
      | .error e => (some m, "err " ++ e)
    | none => bad
  | ["mesh", "unif"], some m => let r := okOrErr (uniformRefine m) m; (some r.1, r.2)
  | ["mesh", "unifs"], some m => let r := okOrErr (uniformRefineSpace m) m; (some r.1, r.2)
  | ["mesh", "diso", th, perm, eta], some m =>
    match parseRat? th, parseNatList? perm, parseRatList? eta with
    | some th, some perm, some eta => let r := okOrErr (dorflerIso m eta perm th) m; (some r.1, r.2)
    | _, _, _ => bad
  | ["mesh", "daniso", th, et, es], some m =>
    match parseRat? th, parseRatList? et, parseRatList? es with
    | some th, some et, some es =>
      if et.length ≠ es.length then bad
      else let r := okOrErr (dorflerAniso m (et.zip es) th) m; (some r.1, r.2)
    | _, _, _ => bad
  | ["mesh", "grade", fx, p, q, k, fuel], some m =>
    match p.toNat?, q.toNat?, parseRat? k, fuel.toNat? with
    | some p, some q, some k, some fuel =>
      let r := okOrErr (grading (fx == "1") fuel m p q k) m; (some r.1, r.2)
    | _, _, _, _ => bad
  | ["mesh", "dump"], some m => (st, dumpMesh m)
  | ["mesh", "leaves"], some m => (st, dumpLeaves m)
  | ["mesh", "prolong", coarse, vec, fine], some m =>
    match parseNatList? coarse, parseRatList? vec, parseNatList? fine with
    | some c, some v, some f => match prolongate m c v f with
      | some r => (st, showRatList r)
      | none => (st, "err assert:parent")
    | _, _, _ => bad
  | _, _ => bad

end Driver
