import Stbem.Model.InitialPotential
import Stbem.Gen.InitPotGen
import Stbem.Model.Mesh
import Driver.QuadCmd
import Driver.FormulaCmd
/- Line protocol for the initial-potential model (`ip …`).

   context line   `ip ctx <rule1> <e1> <pi> <fpiInv> <u0>`
       rule1   = `x1,x2,…;w1,w2,…`                       (the stand-in for `log_quadrature_scheme(quad_int, quad_int)`)
       e1      = `q:p0,p1,p2,q0`  (u ↦ (p0+p1 u+p2 u²)/(q0+u²))   or   `p:c0,c1,…`  (polynomial Σ c_k u^k)
       u0      = `c,i,j:c,i,j:…`  (Σ c x^i y^j)   optionally  `num|den`  (quotient of two such polynomials)
   request        `ip lin <dom> <fuel> <a> <b> <c> <d> <x0> <y0> <x1> <y1>`
       dom     = `unit` | `lshape` | `sq:<P>`  (the square [0,P]²: `PiSquare` with a rational stand-in for π)
       answer  = `ok <load>|<id>:<class>:<val> …` (contributions sorted by element index;
                 class I = identical, A = touching at γ(c), B = touching at γ(d), F = far)  or  `err <tag>`
   request        `ip vec <dom> <fuel> <a,b,c,d,x0,y0,x1,y1> …`   →   `ok v1,v2,…`
   twins          `ip genlin …`, `ip genvec …`, `ip genpool …`: the same requests answered by the functions REGENERATED from
                  src/initial_potential.py (`Stbem.Gen.InitPotGen`, translate/initpotgen.py): `linform`,
                  `linformVectorSerial`, `linformVectorPool` with `self.initial_mesh` = the regenerated factory
                  `UnitSquareBoundaryRefined` / `LShapeBoundaryRefined` / `PiSquareBoundaryRefined P` (of src/initial_mesh.py)
   request        `ip geneval <gauss rule1> <exp> <t> <x> <y> <a> <b> <c> <d>`  →  `ok <value>`: generated `evaluate` with
                  `space_integrator = f ↦ ProductScheme2D(gauss).integrate(f, a, b, c, d)`; exp = stand-in as e1
   request        `ip genevalmesh <gauss rule1> <exp> <dom> <t> <x> <y> <id,id,…>`  →  `ok <value>` | `err <tag>`: generated
                  `evaluate_mesh` on the mesh obtained from `dom` by refining the listed elements in order  -/
namespace Driver
open Stbem.InitPot Stbem.Quad Stbem.Quadtree

structure IpSt where
  ctx : Option Ctx := none

def zeroFns : Stbem.Formulas.Q.Fns :=
  { exp := fun _ => 0, sqrt := fun _ => 0, erf := fun _ => 0, erfc := fun _ => 0, ei := fun _ => 0,
    e1 := fun _ => 0, pow32 := fun _ => 0, pi := 0, fpiInv := 0, piSqrt := 0, hpiInv := 0 }

/-- `Σ c_k u^k` -/
def polyEval (cs : List Rat) (u : Rat) : Rat := cs.foldr (fun c acc => c + u * acc) 0

def parseE1? (s : String) : Option (Rat → Rat) :=
  match s.splitOn ":" with
  | ["q", cs] => match parseRatList? cs with
    | some [p0, p1, p2, q0] => some (standIn [p0, p1, p2, q0])
    | _ => none
  | ["p", cs] => (parseRatList? cs).map polyEval
  | _ => none

def parseTerm2? (s : String) : Option (Rat × Nat × Nat) :=
  match s.splitOn "," with
  | [c, i, j] => do
      let c ← parseRat? c; let i ← i.toNat?; let j ← j.toNat?
      some (c, i, j)
  | _ => none

def poly2Eval (ts : List (Rat × Nat × Nat)) (x y : Rat) : Rat :=
  sumR (ts.map fun t => t.1 * x ^ t.2.1 * y ^ t.2.2)

def parsePoly2? (s : String) : Option (List (Rat × Nat × Nat)) := (s.splitOn ":").mapM parseTerm2?

def parseU0? (s : String) : Option (Rat → Rat → Rat) :=
  match s.splitOn "|" with
  | [n] => (parsePoly2? n).map poly2Eval
  | [n, d] => do
      let n ← parsePoly2? n; let d ← parsePoly2? d
      some fun x y => poly2Eval n x y / poly2Eval d x y
  | _ => none

def parseDom? (s : String) : Option QT :=
  match s.splitOn ":" with
  | ["unit"] => some unitSquare
  | ["lshape"] => some lShape
  | ["sq", p] => do
      let p ← parseRat? p
      match initExplicit [(0, 0), (p, 0), (p, p), (0, p)] [(0, 1, 2, 3)] with
      | .ok m => some m
      | .error _ => none
  | _ => none

def parseSeg8? (l : List Rat) : Option Stbem.InitPot.Seg :=
  match l with
  | [a, b, c, d, x0, y0, x1, y1] => some ⟨a, b, c, d, (x0, y0), (x1, y1)⟩
  | _ => none

def className : CellClass → String
  | .identical => "I" | .touch0 => "A" | .touch1 => "B" | .far => "F"

/-- the answer of `ip lin`: the contributions sorted by element index, each with the branch taken -/
def showLinform (s : Stbem.InitPot.Seg) (m : QT) (r : Rat × List (Nat × Rat)) : String :=
  let ips := Stbem.Mesh.sortBy (fun a b : Nat × Rat => decide (a.1 < b.1)) r.2
  let cls := fun (id : Nat) => match m.elems.find? (·.id == id) with
    | some e => className (cellClass s e)
    | none => "?"
  "ok " ++ showRat r.1 ++ "|" ++
    " ".intercalate (ips.map fun p => toString p.1 ++ ":" ++ cls p.1 ++ ":" ++ showRat p.2)

/-- `self.initial_mesh` of the generated twins: the factory REGENERATED from src/initial_mesh.py for the domain -/
def genFactory? (s : String) (fuel : Nat) : Option (Stbem.InitPot.Pt → Stbem.InitPot.Pt → Except String QT) :=
  match s.splitOn ":" with
  | ["unit"] => some (Stbem.Gen.InitPotGen.UnitSquareBoundaryRefined fuel)
  | ["lshape"] => some (Stbem.Gen.InitPotGen.LShapeBoundaryRefined fuel)
  | ["sq", p] => (parseRat? p).map fun p => Stbem.Gen.InitPotGen.PiSquareBoundaryRefined p fuel
  | _ => none

/-- the answer of `ip genlin`: the generated `linform` returns the elements themselves -/
def showGenLinform (s : Stbem.InitPot.Seg) (r : Rat × List (Elem × Rat)) : String :=
  let ips := Stbem.Mesh.sortBy (fun a b : Elem × Rat => decide (a.1.id < b.1.id)) r.2
  "ok " ++ showRat r.1 ++ "|" ++
    " ".intercalate (ips.map fun p => toString p.1.id ++ ":" ++ className (cellClass s p.1) ++ ":" ++ showRat p.2)

def ipCmd (st : IpSt) (args : List String) : IpSt × String :=
  let bad := (st, "bad-op")
  match args with
  | ["ip", "ctx", rule, e1, pi, fpi, u0] =>
    match parseRule1? rule, parseE1? e1, parseRat? pi, parseRat? fpi, parseU0? u0 with
    | some rule, some e1, some pi, some fpi, some u0 =>
      ({ st with ctx := some ⟨rule, { zeroFns with e1 := e1, pi := pi, fpiInv := fpi }, u0⟩ }, "ok")
    | _, _, _, _, _ => bad
  | "ip" :: "lin" :: dom :: fuel :: rest =>
    match st.ctx, parseDom? dom, fuel.toNat?, (rest.mapM parseRat?).bind parseSeg8? with
    | some C, some dom, some fuel, some s =>
      -- the mesh is recomputed for the class labels only (the model's `linform` does not return it)
      match refineMshBdr fuel dom s.p0 s.p1 with
      | .error e => (st, "err " ++ e)
      | .ok (m, _) =>
        match linform C dom fuel s with
        | .ok r => (st, showLinform s m r)
        | .error e => (st, "err " ++ e)
    | _, _, _, _ => bad
  | "ip" :: "vec" :: dom :: fuel :: segs =>
    match st.ctx, parseDom? dom, fuel.toNat?, segs.mapM (fun s => (parseRatList? s).bind parseSeg8?) with
    | some C, some dom, some fuel, some segs =>
      match linformVector C dom fuel segs with
      | .ok v => (st, "ok " ++ showRatList v)
      | .error e => (st, "err " ++ e)
    | _, _, _, _ => bad
  | ["ip", "geneval", gauss, ex, t, x, y, a, b, c, d] =>
    match st.ctx, parseRule1? gauss, parseE1? ex, [t, x, y, a, b, c, d].mapM parseRat? with
    | some C, some gauss, some ex, some [t, x, y, a, b, c, d] =>
      let S := { C.fns with exp := ex }
      (st, "ok " ++ showRat (Stbem.Gen.InitPotGen.evaluate S C.u0
        (fun f => integrate2 (product2 gauss gauss) (fun p q => f (p, q)) a b c d) t (x, y)))
    | _, _, _, _ => bad
  | ["ip", "genevalmesh", gauss, ex, dom, t, x, y, ids] =>
    match st.ctx, parseRule1? gauss, parseE1? ex, parseDom? dom, [t, x, y].mapM parseRat?,
        (if ids == "-" then some [] else (ids.splitOn ",").mapM String.toNat?) with
    | some C, some gauss, some ex, some dom, some [t, x, y], some ids =>
      let S := { C.fns with exp := ex }
      match ids.foldlM refineId dom with
      | .error e => (st, "err mesh:" ++ e)
      | .ok m =>
        match Stbem.Gen.InitPotGen.evaluate_mesh S gauss C.u0 t (x, y) m with
        | .ok v => (st, "ok " ++ showRat v)
        | .error e => (st, "err " ++ e)
    | _, _, _, _, _, _ => bad
  | "ip" :: "genlin" :: dom :: fuel :: rest =>
    match st.ctx, fuel.toNat?.bind (genFactory? dom), (rest.mapM parseRat?).bind parseSeg8? with
    | some C, some F, some s =>
      match Stbem.Gen.InitPotGen.linform C.fns C.rule C.u0 (some F) s with
      | .ok r => (st, showGenLinform s r)
      | .error e => (st, "err " ++ e)
    | _, _, _ => bad
  | "ip" :: which :: dom :: fuel :: segs =>
    match st.ctx, fuel.toNat?.bind (genFactory? dom), segs.mapM (fun s => (parseRatList? s).bind parseSeg8?) with
    | some C, some F, some segs =>
      let F := some F
      let r := if which == "genvec" then some (Stbem.Gen.InitPotGen.linformVectorSerial C.fns C.rule C.u0 F segs)
        else if which == "genpool" then some (Stbem.Gen.InitPotGen.linformVectorPool C.fns C.rule C.u0 F segs)
        else none
      match r with
      | some (.ok v) => (st, "ok " ++ showRatList v)
      | some (.error e) => (st, "err " ++ e)
      | none => bad
    | _, _, _ => bad
  | _ => bad

end Driver
