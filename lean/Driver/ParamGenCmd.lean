import Stbem.Gen.ParamGen
import Driver.ParamCmd
/- Line protocol for the definitions REGENERATED from src/parametrization.py (`Stbem.Gen.ParamGen`, translate/paramgen.py):
`gparam poly / eval / piece …` are the twins of `param poly / eval / piece …` (same request syntax, answered by the generated
functions; `eval` and `piece` evaluate the WHOLE parameter array in one call, as the Python code does),

  gparam shipped <Class> <pi>                      -> the generated constructor of a shipped curve class, `np.pi` := <pi>
  gparam shippedeval <Class> <pi> <x1,x2,...>      -> its `eval` on the array
  gparam circle <p0,p1,p2,q0> <p0,p1,p2,q0> <xs>   -> `circle(xs)` with rational stand-ins u ↦ (p0+p1u+p2u²)/(q0+u²) for cos, sin
  gparam repr <Class>                              -> `__repr__`
  gparam np <function> <args…>                     -> the NumPy prelude (compared with NumPy itself by harness/param_tie.py) -/
namespace Driver
open Stbem.Gen.ParamGen

/-- results of generated functions with or without `Except` (which functions can fail is decided by the source text) -/
class GpAsExc (α : Type) (β : outParam Type) where
  run : α → Except String β
instance {β : Type} : GpAsExc (Except String β) β := ⟨id⟩
instance (priority := low) {β : Type} : GpAsExc β β := ⟨pure⟩

def gpS0 (pi : Rat) : Fns := { cos := fun _ => 0, sin := fun _ => 0, atan := fun _ => 0, pi := pi }

def gpStandIn (c : List Rat) (u : Rat) : Rat :=
  match c with
  | [p0, p1, p2, q0] => (p0 + p1 * u + p2 * u * u) / (q0 + u * u)
  | _ => 0

def gpShowRows (m : List (List Rat)) : String := ";".intercalate (m.map showRatList)

/-- a `(2, n)` array as `x:y x:y …` -/
def gpShowCols (m : List (List Rat)) : String :=
  match m with
  | [r0, r1] => " ".intercalate (List.zipWith (fun x y => showRat x ++ ":" ++ showRat y) r0 r1)
  | _ => "shape:" ++ gpShowRows m

def gpShowGamma : Gamma → String
  | .of_line_fun xs [[dx], [dy]] [[px], [py]] => ":".intercalate [showRat xs, showRat px, showRat py, showRat dx, showRat dy]
  | .of_line_fun _ _ _ => "shape"
  | .of_circle => "circle"

def gpShowCurve (c : PiecewiseParametrization) : String :=
  s!"ok {showRatList c.pw_start} {";".intercalate (c.pw_gamma.map gpShowGamma)}"

def gpArrOf (p : Stbem.Param.Pt) : List Rat := [p.1, p.2]

def shippedInit (name : String) (S : Fns) : Option (Except String PiecewiseParametrization) :=
  match name with
  | "UnitSquare" => some (GpAsExc.run (UnitSquare.init S))
  | "PiSquare" => some (GpAsExc.run (PiSquare.init S))
  | "LShape" => some (GpAsExc.run (LShape.init S))
  | "UnitInterval" => some (GpAsExc.run (UnitInterval.init S))
  | "Circle" => some (GpAsExc.run (Circle.init S))
  | _ => none

def gpParseBools? (s : String) : Option (List Bool) :=
  if s = "-" then some [] else s.toList.mapM fun ch => if ch = '1' then some true else if ch = '0' then some false else none

def gpShowBool (b : Bool) : String := if b then "1" else "0"

def gpParseMats? (s : String) : Option (List (List (List Rat))) :=
  (s.splitOn "|").mapM fun m => (m.splitOn ";").mapM parseRatList?

def paramNpCmd (args : List String) : String :=
  let bad := "bad-op"
  match args with
  | ["select", cs, ms] => match (cs.splitOn ";").mapM gpParseBools?, gpParseMats? ms with
    | some cs, some ms => (match npSelect cs ms with | .ok m => gpShowRows m | .error e => "err:" ++ e)
    | _, _ => bad
  | ["where", c, m, d] => match gpParseBools? c, gpParseMats? m, gpParseMats? d with
    | some c, some [m], some [d] => gpShowRows (npWhere c m d) | _, _, _ => bad
  | ["bcac", op, x, c] => match parseRatList? x, gpParseMats? c with
    | some x, some [c] => (match op with
      | "mul" => gpShowRows (npBcAC (· * ·) x c) | "add" => gpShowRows (npBcAC (· + ·) x c) | "sub" => gpShowRows (npBcAC (· - ·) x c) | _ => bad)
    | _, _ => bad
  | ["bcmc", op, m, c] => match gpParseMats? m, gpParseMats? c with
    | some [m], some [c] => (match op with
      | "mul" => gpShowRows (npBcMC (· * ·) m c) | "add" => gpShowRows (npBcMC (· + ·) m c) | "sub" => gpShowRows (npBcMC (· - ·) m c) | _ => bad)
    | _, _ => bad
  | ["mm", m, k] => match gpParseMats? m, gpParseMats? k with
    | some [m], some [k] => gpShowRows (npMM (· - ·) m k) | _, _ => bad
  | ["linspace", a, b] => match parseRat? a, parseRat? b with
    | some a, some b => showRatList (npLinspace a b) | _, _ => bad
  | ["allclose", m, k] => match gpParseMats? m, gpParseMats? k with
    | some [m], some [k] => gpShowBool (npAllcloseMM m k) | _, _ => bad
  | ["allclosenorm", m, c] => match gpParseMats? m, parseRat? c with
    | some [m], some c => gpShowBool (npAllcloseNormAxis0 m c) | _, _ => bad
  | ["norm", v] => match parseRatList? v with
    | some v => (match npLinalgNorm v with | .ok r => showRat r | .error e => "err:" ++ e) | none => bad
  | ["reshape21", v] => match parseRatList? v with
    | some v => (match npReshape21 v with | .ok m => gpShowRows m | .error e => "err:" ++ e) | none => bad
  | ["flatten", m] => match gpParseMats? m with
    | some [m] => showRatList (npFlatten m) | _ => bad
  | ["vstack", a, b] => match parseRatList? a, parseRatList? b with
    | some a, some b => gpShowRows (npVstack [npRow2d a, npRow2d b]) | _, _ => bad
  | ["dot", a, b] => match parseRatList? a, parseRatList? b with
    | some a, some b => showRat (npDot a b) | _, _ => bad
  | ["divms", m, c] => match gpParseMats? m, parseRat? c with
    | some [m], some c => (match npDivMS m c with | .ok m => gpShowRows m | .error e => "err:" ++ e) | _, _ => bad
  | ["range", cs, xs] => match parseRatList? cs, parseRatList? xs with
    | some [lo, hi], some xs => String.join ((npAndB (npLeSA lo xs) (npLeAS xs hi)).map gpShowBool) ++ ":" ++
        gpShowBool (npAll (npAndB (npLeSA lo xs) (npLeAS xs hi)))
    | _, _ => bad
  | ["eq", a, b] => match parseRatList? a, parseRatList? b with
    | some a, some b => gpShowBool (npAll (npEqAA a b)) | _, _ => bad
  | _ => bad

def paramGenCmd (args : List String) : String :=
  let bad := "bad-op"
  let S := gpS0 1
  match args with
  | ["gparam", "poly", cl, vs] =>
    match parsePts? vs with
    | some vs => (match GpAsExc.run (PiecewisePolygon.init S (vs.map gpArrOf) (cl == "1")) with
      | .ok c => gpShowCurve c
      | .error e => "err " ++ e)
    | none => bad
  | ["gparam", "eval", cl, vs, xs] =>
    match parsePts? vs, parseRatList? xs with
    | some vs, some xs => (match GpAsExc.run (PiecewisePolygon.init S (vs.map gpArrOf) (cl == "1")) with
      | .ok c => (match GpAsExc.run (c.eval S xs) with
        | .ok m => gpShowCols m
        | .error e => "err:" ++ e)
      | .error e => "err " ++ e)
    | _, _ => bad
  | ["gparam", "piece", cl, vs, i, xs] =>
    match parsePts? vs, i.toNat?, parseRatList? xs with
    | some vs, some i, some xs => (match GpAsExc.run (PiecewisePolygon.init S (vs.map gpArrOf) (cl == "1")) with
      | .ok c => (match c.pw_gamma[i]? with
        | some g => (match GpAsExc.run (g.call S xs) with
          | .ok m => gpShowCols m
          | .error e => "err:" ++ e)
        | none => "err:index")
      | .error e => "err " ++ e)
    | _, _, _ => bad
  | ["gparam", "line", a, b, xs] =>
    match parsePt? a, parsePt? b, parseRat? xs with
    | some a, some b, some xs => (match GpAsExc.run (line (gpArrOf a) (gpArrOf b) xs) with
      | .ok r => gpShowGamma r.1 ++ " " ++ showRat r.2
      | .error e => "err " ++ e)
    | _, _, _ => bad
  | ["gparam", "shipped", name, pi] =>
    match parseRat? pi with
    | some pi => (match shippedInit name (gpS0 pi) with
      | some (.ok c) => gpShowCurve c ++ " " ++ gpShowBool c.closed ++ " " ++ showRat c.gamma_length
      | some (.error e) => "err " ++ e
      | none => bad)
    | none => bad
  | ["gparam", "shippedeval", name, pi, xs] =>
    match parseRat? pi, parseRatList? xs with
    | some pi, some xs => (match shippedInit name (gpS0 pi) with
      | some (.ok c) => (match GpAsExc.run (c.eval (gpS0 pi) xs) with
        | .ok m => gpShowCols m
        | .error e => "err:" ++ e)
      | some (.error e) => "err " ++ e
      | none => bad)
    | _, _ => bad
  | ["gparam", "circle", cs, sn, xs] =>
    match parseRatList? cs, parseRatList? sn, parseRatList? xs with
    | some cs, some sn, some xs =>
      (match GpAsExc.run (circle { cos := gpStandIn cs, sin := gpStandIn sn, atan := fun _ => 0, pi := 0 } xs) with
        | .ok m => gpShowCols m
        | .error e => "err:" ++ e)
    | _, _, _ => bad
  | ["gparam", "repr", name] =>
    match name with
    | "Circle" => Circle.repr | "UnitSquare" => UnitSquare.repr | "PiSquare" => PiSquare.repr | "LShape" => LShape.repr
    | _ => bad
  | "gparam" :: "np" :: rest => paramNpCmd rest
  | _ => bad

end Driver
