import Stbem.Model.Param
import Driver.Util
/- Line protocol for the polygon-parametrisation model (C18).

  param poly  <closed 0/1> <x,y;x,y;...>            -> ok <pw_start> <start:px:py:dx:dy;...>   | err <tag>
  param eval  <closed 0/1> <x,y;...> <x1,x2,...>    -> <px:py px:py ...> (err:<tag> per failing parameter)
  param piece <closed 0/1> <x,y;...> <i> <x1,...>   -> <px:py ...> of piece i alone
-/
namespace Driver
open Stbem.Param

def parsePt? (s : String) : Option Pt :=
  match s.splitOn "," with
  | [a, b] => do let x ← parseRat? a; let y ← parseRat? b; pure (x, y)
  | _ => none

def parsePts? (s : String) : Option (List Pt) :=
  if s = "" || s = "-" then some [] else (s.splitOn ";").mapM parsePt?

def showPt (p : Pt) : String := showRat p.1 ++ ":" ++ showRat p.2

def showPiece (g : Stbem.SL.Piece) : String :=
  ":".intercalate [showRat g.start, showRat g.px, showRat g.py, showRat g.dx, showRat g.dy]

def paramCmd (args : List String) : String :=
  match args with
  | ["param", "poly", cl, vs] =>
    match parsePts? vs with
    | some vs => match polygon vs (cl == "1") with
      | .ok c => s!"ok {showRatList c.pw} {";".intercalate (c.pieces.map showPiece)}"
      | .error e => "err " ++ e
    | none => "bad-op"
  | ["param", "eval", cl, vs, xs] =>
    match parsePts? vs, parseRatList? xs with
    | some vs, some xs => match polygon vs (cl == "1") with
      | .ok c => " ".intercalate (xs.map fun x => match evalCurve c x with
          | .ok p => showPt p
          | .error e => "err:" ++ e)
      | .error e => "err " ++ e
    | _, _ => "bad-op"
  | ["param", "piece", cl, vs, i, xs] =>
    match parsePts? vs, i.toNat?, parseRatList? xs with
    | some vs, some i, some xs => match polygon vs (cl == "1") with
      | .ok c => " ".intercalate (xs.map fun x => match evalPiece c i x with
          | some p => showPt p
          | none => "err:index")
      | .error e => "err " ++ e
    | _, _, _ => "bad-op"
  | _ => "bad-op"

end Driver
