import Stbem.Model.Estim
import Driver.Util
/- Line protocol for the estimator model (property C20). -/
namespace Driver
open Stbem.Estim

def parseMat? (s : String) : Option (List (List Rat)) :=
  if s = "-" || s = "" then some [] else (s.splitOn ";").mapM parseRatList?

def parseOptVec? (s : String) : Option (Option (List Rat)) :=
  if s = "none" then some none else (parseRatList? s).map some

def parseRect? (s : String) : Option Rect :=
  match parseRatList? s with
  | some [a, b, c, d] => some ⟨a, b, c, d⟩
  | _ => none

def showRect (r : Rect) : String := showRatList [r.t0, r.t1, r.x0, r.x1]

def estimCmd (args : List String) : String :=
  match args with
  | ["est", "quarters", rs] =>
    match (rs.splitOn ";").mapM parseRect? with
    | some l => ";".intercalate ((fineRects l).map showRect)
    | none => "bad-op"
  | ["est", "consts"] =>
    let bs := ";".intercalate (Stbem.Gen.Consts.childBoxes.map fun b => showRatList [b.1, b.2.1, b.2.2.1, b.2.2.2])
    let ps := ";".intercalate (Stbem.Gen.Consts.hierPatterns.map fun p => ",".intercalate (p.map toString))
    let cs := ";".intercalate (Stbem.Gen.Consts.hierCombine.map showRatList)
    s!"{bs}|{ps}|{cs}|{Stbem.Gen.Consts.repeatFactor}"
  | ["est", "hier", mat, phi, g, m0, ss] =>
    match parseMat? mat, parseRatList? phi, parseOptVec? g, parseOptVec? m0, (ss.splitOn "|").mapM parseMat? with
    | some mat, some phi, some g, some m0, some ss =>
      match hierEstimate mat phi g m0 (if ss = [[]] then [] else ss) with
      | .ok r => if r.isEmpty then "-" else ";".intercalate (r.map showRatList)
      | .error e => "err " ++ e
    | _, _, _, _, _ => "bad-op"
  | ["est", "hh2", mat, phi, g, m0] =>
    match parseMat? mat, parseRatList? phi, parseOptVec? g, parseOptVec? m0 with
    | some mat, some phi, some g, some m0 =>
      match hh2Sq mat phi g m0 with
      | .ok r => showRat r
      | .error e => "err " ++ e
    | _, _, _, _ => "bad-op"
  | ["est", "solve", mat, b] =>
    match parseMat? mat, parseRatList? b with
    | some mat, some b =>
      match solve mat b with
      | some y => showRatList y
      | none => "err singular"
    | _, _ => "bad-op"
  | ["est", "repeat", phi] =>
    match parseRatList? phi with
    | some phi => showRatList (prolong4 phi)
    | none => "bad-op"
  | _ => "bad-op"

end Driver
