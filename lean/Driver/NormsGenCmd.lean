import Stbem.Model.NormsConv
import Driver.QuadGenCmd
/- Line protocol for the definitions REGENERATED from src/norms.py (`Stbem.Gen.NormsGen`, translate/normsgen.py):
`gslo …` are the twins of `slo …` (answered by the generated functions on the object the generated constructor builds),
`gslo init …` runs the generated constructor on rule tables keyed by the requested order (the harness installs the same
tables in Python) and prints every field of the object. -/
namespace Driver
open Stbem.Quad Stbem.QuadConv Stbem.NormsConv
open Stbem.Gen Stbem.Gen.NormsGen

/-- `N=rule|N=rule|…`: the rule a stand-in constructor returns for the order `N` (`KeyError` otherwise) -/
def parseTable? (s : String) : Option (List (Int × Rule1)) :=
  (s.splitOn "|").mapM fun e =>
    match e.splitOn "=" with
    | [n, r] => do
        let n ← n.toInt?
        let r ← parseRule1? r
        some (n, r)
    | _ => none

def tableCtor (t : List (Int × Rule1)) (n : Int) : Except String QuadGen.QuadScheme1D :=
  match t.find? (fun e => e.1 == n) with
  | some e => .ok (ofRule1 e.2)
  | none => .error "KeyError"

def showSlo (s : Slobodeckij) : String :=
  "|".intercalate [showScheme1 s.gauss_sqrtinv, showRatList s.semi_1_4_xy, showRatList s.semi_1_4_weights,
    showScheme1 s.gauss_leg, showScheme1 s.gauss_x, showRatList s.semi_1_2_xy, showRatList s.semi_1_2_weights,
    showScheme2 s.semi_1_2_pw]

instance : ShowRes Slobodeckij := ⟨showSlo⟩

/-- the object the generated constructor builds when the three rule constructors return `g14`, `gl`, `gx` -/
def genSlo (g14 gx gl : Rule1) : Except String Slobodeckij :=
  Slobodeckij.init (constCtor g14) (constCtor gl) (constCtor gx) 1 none

/-- run `k` on the constructed object; `k` may itself return a plain value or an `Except` (decided by the source text) -/
def withSlo {α} [ShowRes α] (g14 gx gl : Rule1) (k : Slobodeckij → α) : String :=
  match genSlo g14 gx gl with
  | .ok s => ShowRes.render (k s)
  | .error e => "error:" ++ e

def normsGenCmd (args : List String) : String :=
  let bad := "bad-op"
  match args with
  | ["gslo", "init", n14, n12, tS, tL, tX] =>
      match n14.toInt?, (if n12 == "-" then some none else n12.toInt?.map some), parseTable? tS, parseTable? tL,
        parseTable? tX with
      | some n14, some n12, some tS, some tL, some tX =>
          ShowRes.render (Slobodeckij.init (tableCtor tS) (tableCtor tL) (tableCtor tX) n14 n12)
      | _, _, _, _, _ => bad
  | ["gslo", "h14", g14, gx, gl, f, a, h, root] =>
      match parseRule1? g14, parseRule1? gx, parseRule1? gl, parseFun? f, [a, h, root].mapM parseRat? with
      | some g14, some gx, some gl, some f, some [a, h, root] =>
          withSlo g14 gx gl fun s => s.seminorm_h_1_4 (fun _ => root) (fun x => f x 0 0) a (a + h)
      | _, _, _, _, _ => bad
  | ["gslo", "h12", g14, gx, gl, f, a, h] =>
      match parseRule1? g14, parseRule1? gx, parseRule1? gl, parseFun? f, [a, h].mapM parseRat? with
      | some g14, some gx, some gl, some f, some [a, h] =>
          withSlo g14 gx gl fun s => s.seminorm_h_1_2_flat (fun x => f x 0 0) a (a + h)
      | _, _, _, _, _ => bad
  | ["gslo", "h12g", g14, gx, gl, f, a, h, g] =>
      match parseRule1? g14, parseRule1? gx, parseRule1? gl, parseFun? f, [a, h].mapM parseRat?, parseSeg? g with
      | some g14, some gx, some gl, some f, some [a, h], some g =>
          withSlo g14 gx gl fun s => s.seminorm_h_1_2_curve (fun x p => f x p.1 p.2) a (a + h) (gammaOf 0 g.at)
      | _, _, _, _, _, _ => bad
  | ["gslo", "pwval", g14, gx, gl, f, a1, b1, g1, a2, b2, g2, same] =>
      match parseRule1? g14, parseRule1? gx, parseRule1? gl, parseFun? f, [a1, b1, a2, b2].mapM parseRat?, parseSeg? g1,
        parseSeg? g2 with
      | some g14, some gx, some gl, some f, some [a1, b1, a2, b2], some g1, some g2 =>
          withSlo g14 gx gl fun s => s.seminorm_h_1_2_pw (fun x p => f x p.1 p.2) a1 b1 (gammaOf 0 g1.at) a2 b2
            (gammaOf (if same == "1" then 0 else 1) g2.at)
      | _, _, _, _, _, _, _ => bad
  | ["gslo", "pw", g14, gx, gl] =>
      match parseRule1? g14, parseRule1? gx, parseRule1? gl with
      | some g14, some gx, some gl => withSlo g14 gx gl fun s => s.semi_1_2_pw
      | _, _, _ => bad
  | _ => bad

end Driver
