import Stbem.Model.SingleLayer
import Stbem.Gen.Panels
import Stbem.Gen.SLRest
import Driver.QuadCmd
import Driver.FormulaCmd
/- Line protocol for the single-layer model (`sl …`); context lines set the configuration. -/
namespace Driver
open Stbem.SL Stbem.Quad

structure SLState where
  cfg : Cfg := ⟨false, 0, 0, 0, 0⟩
  onePlus : Rat := 1
  oneMinus : Rat := 1
  fns : Option Stbem.Formulas.Q.Fns := none
  log : Rule1 := []
  gauss : Rule1 := []
  pieces : List Piece := []

def parseElem? (s : String) : Option Elem :=
  match s.splitOn ":" with
  | [t0, t1, x0, x1, p] => do
    let t0 ← parseRat? t0; let t1 ← parseRat? t1; let x0 ← parseRat? x0; let x1 ← parseRat? x1
    let p ← p.toNat?
    some ⟨t0, t1, x0, x1, p⟩
  | _ => none

def parsePiece? (s : String) : Option Piece :=
  match (s.splitOn ":").mapM parseRat? with
  | some [a, b, c, d, e] => some ⟨a, b, c, d, e⟩
  | _ => none

def kindName : PKind → String
  | .duffyId => "id" | .duffyMx => "dmx" | .duffyMy => "dmy" | .logMx => "lmx" | .logMy => "lmy"

def showPanel (p : Panel) : String :=
  ":".intercalate [kindName p.kind, showRat p.a, showRat p.b, showRat p.c, showRat p.d]

def showExcept (r : Except String Rat) : String :=
  match r with
  | .ok v => showRat v
  | .error e => "err " ++ e

/-- `c0,c1,c2,c3` ↦ the function `(t, x) ↦ c0 + c1·t + c2·x₀ + c3·x₀·x₁`; `none` ↦ `None` -/
def parseDataFn? (s : String) : Option (Option (Rat → Rat × Rat → Rat)) :=
  if s = "none" then some none
  else match parseRatList? s with
    | some [c0, c1, c2, c3] => some (some fun t x => c0 + c1 * t + c2 * x.1 + c3 * x.1 * x.2)
    | _ => none

def parseOptRatVec? (s : String) : Option (Option (List Rat)) :=
  if s = "none" then some none else (parseRatList? s).map some

def showExceptList (r : Except String (List Rat)) : String :=
  match r with
  | .ok v => showRatList v
  | .error e => "err " ++ e

def slCmd (st : SLState) (args : List String) : SLState × String :=
  let bad := (st, "bad-op")
  match args with
  | ["sl", "cfg", g, len, e10, ms, rt, op, om] =>
    match [len, e10, ms, rt, op, om].mapM parseRat? with
    | some [len, e10, ms, rt, op, om] =>
      ({ st with cfg := ⟨g == "1", len, e10, ms, rt⟩, onePlus := op, oneMinus := om }, "ok")
    | _ => bad
  | ["sl", "fns", f] => match parseFns? f with
    | some f => ({ st with fns := some f }, "ok") | none => bad
  | ["sl", "log", r] => match parseRule1? r with
    | some r => ({ st with log := r }, "ok") | none => bad
  | ["sl", "gauss", r] => match parseRule1? r with
    | some r => ({ st with gauss := r }, "ok") | none => bad
  | "sl" :: "pieces" :: ps => match ps.mapM parsePiece? with
    | some ps => ({ st with pieces := ps }, "ok") | none => bad
  | ["sl", "panels", a, b, c, d] => match [a, b, c, d].mapM parseRat? with
    | some [a, b, c, d] => match panels st.cfg 12 a b c d with
      | .ok ps => (st, " ".intercalate (ps.map showPanel))
      | .error e => (st, "err " ++ e)
    | _ => bad
  | ["sl", "bil", pw, tr, te] => match st.fns, parseElem? tr, parseElem? te with
    | some S, some tr, some te => (st, showExcept (bilform st.cfg S st.log st.pieces (pw == "1") tr te))
    | _, _, _ => bad
  | ["sl", "plan", e, t, xh] => match parseElem? e, parseRat? t, parseRat? xh with
    | some e, some t, some xh => (st, match evalPlan st.cfg st.onePlus st.oneMinus e t xh with
        | .zero => "zero" | .inElem => "in" | .outside m => if m then "out-m" else "out")
    | _, _, _ => bad
  | ["sl", "eval", e, t, xh, x, y] => match st.fns, parseElem? e, [t, xh, x, y].mapM parseRat? with
    | some S, some e, some [t, xh, x, y] =>
      (st, showRat (evaluate st.cfg st.onePlus st.oneMinus S st.log st.pieces e t xh (x, y)))
    | _, _, _ => bad
  | ["sl", "evalx", e, t, x] => match st.fns, parseElem? e, parseRat? t, parseRat? x with
    | some S, some e, some t, some x => (st, match evaluateExact S e t x with
        | some v => showRat v | none => "none")
    | _, _, _, _ => bad
  | ["sl", "pot", e, t, x, y] => match st.fns, parseElem? e, [t, x, y].mapM parseRat? with
    | some S, some e, some [t, x, y] => (st, showRat (potential S st.gauss st.pieces e t (x, y)))
    | _, _, _ => bad
  -- the definitions REGENERATED from src/single_layer.py (Stbem.Gen.Panels); the thresholds are the literals of the source,
  -- only `len` and `glue` are taken from the `sl cfg` line
  | ["sl", "genpanels", a, b, c, d] => match [a, b, c, d].mapM parseRat? with
    | some [a, b, c, d] => match Stbem.Gen.Panels.integrate st.cfg.len st.cfg.glue 12 a b c d with
      | .ok ps => (st, " ".intercalate (ps.map showPanel))
      | .error e => (st, "err " ++ e)
    | _ => bad
  | ["sl", "genbil", pw, tr, te] => match st.fns, parseElem? tr, parseElem? te with
    | some S, some tr, some te =>
      (st, showExcept (Stbem.Gen.Panels.bilform st.cfg.len st.cfg.glue S st.log st.pieces (pw == "1") tr te))
    | _, _, _ => bad
  | ["sl", "geneval", e, t, xh, x, y] => match st.fns, parseElem? e, [t, xh, x, y].mapM parseRat? with
    | some S, some e, some [t, xh, x, y] =>
      (st, showRat (Stbem.Gen.Panels.evaluate st.cfg.len st.cfg.glue S st.log st.pieces e t xh (x, y)))
    | _, _, _ => bad
  -- the rest of src/single_layer.py, ErrorEstimator.residual and the assembly slice of example.py (Stbem.Gen.SLRest)
  | ["sl", "genevalx", e, t, x] => match st.fns, parseElem? e, parseRat? t, parseRat? x with
    | some S, some e, some t, some x => (st, match Stbem.Gen.SLRest.evaluate_exact S e t x with
        | some v => showRat v | none => "none")
    | _, _, _, _ => bad
  | ["sl", "genpot", e, t, x, y] => match st.fns, parseElem? e, [t, x, y].mapM parseRat? with
    | some S, some e, some [t, x, y] => (st, showRat (Stbem.Gen.SLRest.potential S st.gauss st.pieces e t (x, y)))
    | _, _, _ => bad
  | "sl" :: "genevalvec" :: t :: xh :: x :: y :: es => match st.fns, [t, xh, x, y].mapM parseRat?, es.mapM parseElem? with
    | some S, some [t, xh, x, y], some es =>
      (st, showRatList (Stbem.Gen.SLRest.evaluate_vector st.cfg.len st.cfg.glue S st.log st.pieces es (fun _ => (x, y)) t xh))
    | _, _, _ => bad
  | "sl" :: "genpotvec" :: t :: x :: y :: es => match st.fns, [t, x, y].mapM parseRat?, es.mapM parseElem? with
    | some S, some [t, x, y], some es =>
      (st, showRatList (Stbem.Gen.SLRest.potential_vector S st.gauss st.pieces es t (x, y)))
    | _, _, _ => bad
  | "sl" :: "genrhsvec" :: f :: es => match parseDataFn? f, es.mapM parseElem? with
    | some (some f), some es =>
      (st, showRatList (Stbem.Gen.SLRest.rhs_vector (fun _ => st.gauss) st.pieces es f))
    | _, _ => bad
  | "sl" :: "genres" :: ex :: m0 :: g :: gamma :: phi :: ts :: xs :: es =>
    match st.fns, parseDataFn? m0, parseDataFn? g, gamma.toNat?, [phi, ts, xs].mapM parseRatList?, es.mapM parseElem? with
    | some S, some m0, some g, some gamma, some [phi, ts, xs], some es =>
      (st, showExceptList (Stbem.Gen.SLRest.residual st.cfg.len st.cfg.glue S st.log st.pieces es phi m0 g (ex == "1")
        ts xs gamma))
    | _, _, _, _, _, _ => bad
  | ["sl", "genslice", n, m0, g] => match n.toNat?, parseOptRatVec? m0, parseOptRatVec? g with
    | some n, some m0, some g =>
      -- `mat` and `solve` are tokens here: the request is about `rhs`
      (st, match Stbem.Gen.SLRest.assembly_slice (E := Nat) (fun _ _ _ => .ok []) (m0.map fun v => fun _ _ => .ok v)
          (g.map fun v => fun _ => .ok v) (fun _ b => .ok b) (List.range n) with
        | .ok r => showRatList r.2.1
        | .error e => "err " ++ e)
    | _, _, _ => bad
  | "sl" :: "genmpcol" :: pw :: tr :: tes => match st.fns, parseElem? tr, tes.mapM parseElem? with
    | some S, some tr, some tes =>
      (st, match Stbem.Gen.Panels.mpCol st.cfg.len st.cfg.glue S st.log st.pieces (pw == "1") tes tr with
        | .ok col => showRatList col
        | .error e => "err " ++ e)
    | _, _, _ => bad
  | _ => bad

end Driver
