import Stbem.Model.SingleLayer
import Stbem.Gen.Panels
import Driver.QuadCmd
import Driver.FormulaCmd
/- Line protocol for the single-layer model (`sl …`); context lines set the configuration. -/
namespace Driver
open Stbem.SL Stbem.Quad

structure SLState where
  cfg : Cfg := ⟨false, 0, 0, 0, 0⟩
  onePlus : Rat := 1
  oneMinus : Rat := 1
  fns : Option Stbem.Formulas.Q.Fns := none
  log : Rule1 := []
  gauss : Rule1 := []
  pieces : List Piece := []

def parseElem? (s : String) : Option Elem :=
  match s.splitOn ":" with
  | [t0, t1, x0, x1, p] => do
    let t0 ← parseRat? t0; let t1 ← parseRat? t1; let x0 ← parseRat? x0; let x1 ← parseRat? x1
    let p ← p.toNat?
    some ⟨t0, t1, x0, x1, p⟩
  | _ => none

def parsePiece? (s : String) : Option Piece :=
  match (s.splitOn ":").mapM parseRat? with
  | some [a, b, c, d, e] => some ⟨a, b, c, d, e⟩
  | _ => none

def kindName : PKind → String
  | .duffyId => "id" | .duffyMx => "dmx" | .duffyMy => "dmy" | .logMx => "lmx" | .logMy => "lmy"

def showPanel (p : Panel) : String :=
  ":".intercalate [kindName p.kind, showRat p.a, showRat p.b, showRat p.c, showRat p.d]

def showExcept (r : Except String Rat) : String :=
  match r with
  | .ok v => showRat v
  | .error e => "err " ++ e

def slCmd (st : SLState) (args : List String) : SLState × String :=
  let bad := (st, "bad-op")
  match args with
  | ["sl", "cfg", g, len, e10, ms, rt, op, om] =>
    match [len, e10, ms, rt, op, om].mapM parseRat? with
    | some [len, e10, ms, rt, op, om] =>
      ({ st with cfg := ⟨g == "1", len, e10, ms, rt⟩, onePlus := op, oneMinus := om }, "ok")
    | _ => bad
  | ["sl", "fns", f] => match parseFns? f with
    | some f => ({ st with fns := some f }, "ok") | none => bad
  | ["sl", "log", r] => match parseRule1? r with
    | some r => ({ st with log := r }, "ok") | none => bad
  | ["sl", "gauss", r] => match parseRule1? r with
    | some r => ({ st with gauss := r }, "ok") | none => bad
  | "sl" :: "pieces" :: ps => match ps.mapM parsePiece? with
    | some ps => ({ st with pieces := ps }, "ok") | none => bad
  | ["sl", "panels", a, b, c, d] => match [a, b, c, d].mapM parseRat? with
    | some [a, b, c, d] => match panels st.cfg 12 a b c d with
      | .ok ps => (st, " ".intercalate (ps.map showPanel))
      | .error e => (st, "err " ++ e)
    | _ => bad
  | ["sl", "bil", pw, tr, te] => match st.fns, parseElem? tr, parseElem? te with
    | some S, some tr, some te => (st, showExcept (bilform st.cfg S st.log st.pieces (pw == "1") tr te))
    | _, _, _ => bad
  | ["sl", "plan", e, t, xh] => match parseElem? e, parseRat? t, parseRat? xh with
    | some e, some t, some xh => (st, match evalPlan st.cfg st.onePlus st.oneMinus e t xh with
        | .zero => "zero" | .inElem => "in" | .outside m => if m then "out-m" else "out")
    | _, _, _ => bad
  | ["sl", "eval", e, t, xh, x, y] => match st.fns, parseElem? e, [t, xh, x, y].mapM parseRat? with
    | some S, some e, some [t, xh, x, y] =>
      (st, showRat (evaluate st.cfg st.onePlus st.oneMinus S st.log st.pieces e t xh (x, y)))
    | _, _, _ => bad
  | ["sl", "evalx", e, t, x] => match st.fns, parseElem? e, parseRat? t, parseRat? x with
    | some S, some e, some t, some x => (st, match evaluateExact S e t x with
        | some v => showRat v | none => "none")
    | _, _, _, _ => bad
  | ["sl", "pot", e, t, x, y] => match st.fns, parseElem? e, [t, x, y].mapM parseRat? with
    | some S, some e, some [t, x, y] => (st, showRat (potential S st.gauss st.pieces e t (x, y)))
    | _, _, _ => bad
  -- the definitions REGENERATED from src/single_layer.py (Stbem.Gen.Panels); the thresholds are the literals of the source,
  -- only `len` and `glue` are taken from the `sl cfg` line
  | ["sl", "genpanels", a, b, c, d] => match [a, b, c, d].mapM parseRat? with
    | some [a, b, c, d] => match Stbem.Gen.Panels.integrate st.cfg.len st.cfg.glue 12 a b c d with
      | .ok ps => (st, " ".intercalate (ps.map showPanel))
      | .error e => (st, "err " ++ e)
    | _ => bad
  | ["sl", "genbil", pw, tr, te] => match st.fns, parseElem? tr, parseElem? te with
    | some S, some tr, some te =>
      (st, showExcept (Stbem.Gen.Panels.bilform st.cfg.len st.cfg.glue S st.log st.pieces (pw == "1") tr te))
    | _, _, _ => bad
  | ["sl", "geneval", e, t, xh, x, y] => match st.fns, parseElem? e, [t, xh, x, y].mapM parseRat? with
    | some S, some e, some [t, xh, x, y] =>
      (st, showRat (Stbem.Gen.Panels.evaluate st.cfg.len st.cfg.glue S st.log st.pieces e t xh (x, y)))
    | _, _, _ => bad
  | "sl" :: "genmpcol" :: pw :: tr :: tes => match st.fns, parseElem? tr, tes.mapM parseElem? with
    | some S, some tr, some tes =>
      (st, match Stbem.Gen.Panels.mpCol st.cfg.len st.cfg.glue S st.log st.pieces (pw == "1") tes tr with
        | .ok col => showRatList col
        | .error e => "err " ++ e)
    | _, _, _ => bad
  | _ => bad

end Driver
