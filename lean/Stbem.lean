import Stbem.Props.C15
