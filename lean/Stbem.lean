/- Root of the `Stbem` library: every module under `Stbem/` is built through the `globs` entry of the lakefile. -/
