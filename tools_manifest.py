#!/usr/bin/env python3
"""Regenerates MANIFEST.json from harness/manifest_entries.py (single source of truth)."""
import json, os, sys
sys.path.insert(0, os.path.dirname(os.path.abspath(__file__)))
from harness.manifest_entries import CHECKS, NOT_APPLICABLE, NOTES, SOURCE_COMMITS

checks = []
for c in CHECKS:
    pid = c['id']
    checks.append(dict(
        property_id=pid,
        quick_cmd='./check %s --tier quick' % pid,
        thorough_cmd='./check %s --tier thorough' % pid,
        evidence_file='evidence/%s.json' % pid,
        replay_cmd_template='./check %s --replay {path}' % pid,
        engine='lean4-proof+correspondence',
        level_claimed=dict(category=c.get('category', 'proof'), text=c['text'], design_ref=c['design_ref']),
        level_note=c['note'],
        technique=c['technique']))
man = dict(
    version=1,
    setup_cmd='cd lean && lake build',
    hooks=dict(guard='STBEM_VERIF', enable='no hooks are needed: all observation is through public attributes, '
               'name-mangled privates and harness-side monkey-patching',
               baseline_off_cmd='cd /repo && /venv/bin/python -m pytest -ra -q -p no:cacheprovider --timeout=900 '
               '--continue-on-collection-errors',
               source_commits=SOURCE_COMMITS, add_only=True),
    engines=[dict(name='lean4-proof+correspondence', path='check',
                  serves_properties=[c['id'] for c in CHECKS],
                  kind_free_text='Lean 4 theorems about executable models (lean/Stbem), models tied to /repo by '
                  'translators (source -> Lean) and by exact-arithmetic correspondence runs of the real Python code '
                  'against the compiled model driver; failing-input search on the real code')],
    checks=checks,
    notes=NOTES,
    not_applicable=NOT_APPLICABLE)
json.dump(man, open(os.path.join(os.path.dirname(os.path.abspath(__file__)), 'MANIFEST.json'), 'w'), indent=1)
print('wrote MANIFEST.json with %d checks' % len(checks))
