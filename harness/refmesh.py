"""Independent declarative reference for the boundary mesh: sets of exact rectangles with levels, the geometric
neighbour rule and the least 1-irregular closure.  Shares no code with the Lean model or with src/mesh.py."""
from fractions import Fraction as F


class R:
    __slots__ = ('t0', 't1', 'x0', 'x1', 'lt', 'lx')

    def __init__(self, t0, t1, x0, x1, lt, lx):
        self.t0, self.t1, self.x0, self.x1, self.lt, self.lx = t0, t1, x0, x1, lt, lx

    def key(self):
        return (self.t0, self.t1, self.x0, self.x1, self.lt, self.lx)

    def lvl(self, ax):
        return self.lx if ax else self.lt

    def halves(self, ax):
        if ax == 0:
            tm = (self.t0 + self.t1) / 2
            return [R(self.t0, tm, self.x0, self.x1, self.lt + 1, self.lx), R(tm, self.t1, self.x0, self.x1, self.lt + 1, self.lx)]
        xm = (self.x0 + self.x1) / 2
        return [R(self.t0, self.t1, self.x0, xm, self.lt, self.lx + 1), R(self.t0, self.t1, xm, self.x1, self.lt, self.lx + 1)]


def of_elem(e):
    return R(e.time_interval[0], e.time_interval[1], e.space_interval[0], e.space_interval[1], e.levels[0], e.levels[1])


def leafset(mesh):
    return {of_elem(e).key() for e in mesh.leaf_elements}


def neighbours(a, b, glue, xmin, xmax):
    """True iff a and b share a piece of positive length of an edge (seam identified when glued)."""
    if (a.t1 == b.t0 or b.t1 == a.t0) and max(a.x0, b.x0) < min(a.x1, b.x1):
        return True
    if max(a.t0, b.t0) < min(a.t1, b.t1):
        if a.x1 == b.x0 or b.x1 == a.x0:
            return True
        if glue and ((a.x1 == xmax and b.x0 == xmin) or (b.x1 == xmax and a.x0 == xmin)):
            return True
    return False


def closure_set(leaves, seeds, ax, glue, xmin, xmax):
    """Least set S containing the seeds and closed under: n is a neighbour (in `leaves`) of some e in S with
    lvl(n, ax) < lvl(e, ax)."""
    S = set(seeds)
    work = list(seeds)
    while work:
        i = work.pop()
        for j, n in enumerate(leaves):
            if j not in S and n.lvl(ax) < leaves[i].lvl(ax) and neighbours(leaves[i], n, glue, xmin, xmax):
                S.add(j)
                work.append(j)
    return S


def refine_closure(leaves, seeds, ax, glue, xmin, xmax):
    """Bisect every member of the closure once; returns the new leaf list and the map old index -> new rects."""
    S = closure_set(leaves, seeds, ax, glue, xmin, xmax)
    out, kids = [], {}
    for i, r in enumerate(leaves):
        if i in S:
            h = r.halves(ax)
            kids[i] = h
            out.extend(h)
        else:
            out.append(r)
    return out, kids


def index_of(leaves, key):
    for i, r in enumerate(leaves):
        if r.key() == key:
            return i
    return None


def dorfler_reference(leaves, marked_time, marked_space, glue, xmin, xmax):
    """Expected leaf set after a Doerfler step: least 1-irregular refinement containing the marked time
    bisections, then least 1-irregular refinement containing the marked space bisections, where an element that
    was bisected in time is replaced by its time halves.  marked_* are index lists into `leaves`."""
    l1, kids = refine_closure(leaves, marked_time, 0, glue, xmin, xmax)
    seeds = []
    for i in marked_space:
        if i in kids:
            seeds += [index_of(l1, k.key()) for k in kids[i]]
        else:
            seeds.append(index_of(l1, leaves[i].key()))
    l2, _ = refine_closure(l1, seeds, 1, glue, xmin, xmax)
    return {r.key() for r in l2}
