"""Tie between src/hierarchical_error_estimator.py / src/h_h2_error_estimator.py and the definitions regenerated from them
(translate/estimgen.py -> lean/Stbem/Gen/EstimGen.lean), used by harness/checks/C20.py.

* `translate_estimgen(res)`: regenerates Gen/EstimGen.lean from the working tree of the repository under test (a construct
  outside the supported fragment raises `TranslationError` = broken obligation `translator`; a changed file is compiled on
  its own before it replaces the old one, because the shared driver links it).  The equality theorems of
  `Props/EstimTie.lean` are then re-checked by the build against the regenerated text.
* `prelude_requests(rng, n)`: requests `gest np …` with the answers of Python / NumPy itself (the prelude of the generated
  file is trusted; this executes every definition of it against the real thing on exact numbers).
"""
import os
import subprocess
import sys
from fractions import Fraction as F

import numpy as np

PROP_MOD = 'Stbem.Props.EstimTie'
TRUSTED = ('estimators regenerated from source: translate/estimgen.py -> lean/Stbem/Gen/EstimGen.lean (Vertex / DummyElement / '
           'HierarchicalErrorEstimator / HH2ErrorEstimator: constructors, uniform_refinement, both estimate methods as do-blocks, '
           'statement by statement) and proved equal to the hand-written model (Props/EstimTie.lean); trusted: the translator, '
           'its object model (record classes, identity of DummyElement objects = allocation counter, leaves and '
           'np.linalg.solve / np.sqrt as parameters, float(x) = x) and its Python / NumPy prelude, documented in the header of the '
           'generated file; validated on every run: every estimator request of the correspondence is answered by the generated '
           'functions as well (`gest …`, Driver/EstimGenCmd.lean), the prelude is executed against NumPy itself (`gest np …`)')

STAT_KEYS = ('classes', 'functions', 'assignments', 'for_loops', 'branches', 'asserts', 'returns', 'comprehensions', 'position_maps',
             'constructor_calls', 'translated_calls', 'leaf_calls', 'external_calls', 'numpy_calls', 'matmul', 'array_ops',
             'index_reads', 'dict_lookups', 'item_assignments', 'appends', 'literal_tables', 'float_constants', 'prints_dropped',
             'time_stamps_dropped')


def translate_estimgen(res):
    from .common import LEAN, REPO, VERIF, write_if_changed
    tdir = os.path.join(VERIF, 'translate')
    if tdir not in sys.path:
        sys.path.insert(0, tdir)
    import estimgen

    def compiles(text):
        tmp = os.path.join(LEAN, '.lake', 'estimgen_check_%d.lean' % os.getpid())
        with open(tmp, 'w') as fh:
            fh.write(text)
        try:
            p = subprocess.run(['lake', 'env', 'lean', tmp], cwd=LEAN, stdout=subprocess.PIPE, stderr=subprocess.STDOUT, text=True,
                               timeout=600)
        finally:
            os.unlink(tmp)
        return None if p.returncode == 0 else p.stdout[-2000:]
    stats = estimgen.generate(REPO, os.path.join(LEAN, 'Stbem', 'Gen'), write_if_changed, compiles)
    res.bump('estimgen_file_changed', stats.get('changed', 0))
    for k in STAT_KEYS:
        res.bump('estimgen_translated_' + k, stats.get(k, 0))
    res.count(('translated', 'estimators'), True, n=stats.get('assignments', 0) + stats.get('for_loops', 0) + stats.get('asserts', 0)
              + stats.get('returns', 0))
    return stats


def _q(x):
    x = F(x)
    return str(x.numerator) if x.denominator == 1 else '%d/%d' % (x.numerator, x.denominator)


def _enc(xs):
    xs = list(xs)
    return ','.join(_q(x) for x in xs) if xs else '-'


def _encv(xs):
    return ','.join(_q(x) for x in xs)


def _enc_mat(m):
    rows = [_enc(r) for r in m]
    return ';'.join(rows) if rows else '-'


def _arr(xs):
    a = np.empty(len(xs), dtype=object)
    for i, x in enumerate(xs):
        a[i] = F(x)
    return a


def _mat(rows, ncols):
    a = np.empty((len(rows), ncols), dtype=object)
    for i, r in enumerate(rows):
        for j, x in enumerate(r):
            a[i, j] = F(x)
    return a


def _try(f):
    try:
        return f()
    except (ValueError, IndexError, KeyError, TypeError):
        return None


def prelude_requests(rng, n):
    """-> list of (request line, expected answer, description); the expected answers come from Python / NumPy"""
    def rq():
        return F(rng.randint(-12, 12), rng.choice([1, 2, 3, 4]))

    def vec(k):
        return [rq() for _ in range(k)]
    out = []
    for case in range(n):
        k = rng.choice([0, 1, 2, 3, 4, 5])
        m = rng.choice([k, k, k, 1, rng.randint(0, 5)])
        a, b = vec(k), vec(m)
        for op, f in (('sub', lambda x, y: x - y), ('add', lambda x, y: x + y)):
            r = _try(lambda: f(_arr(a), _arr(b)))
            out.append(('gest np %s %s %s' % (op, _enc(a), _enc(b)), 'err' if r is None else _encv(r), 'a %s b' % op))

        def inplace(sign):
            x = _arr(a)
            if sign > 0:
                x += _arr(b)
            else:
                x -= _arr(b)
            return x
        for op, sg in (('iadd', 1), ('isub', -1)):
            r = _try(lambda: inplace(sg))
            out.append(('gest np %s %s %s' % (op, _enc(a), _enc(b)), 'err' if r is None else _encv(r), 'a %s= b' % op))
        r = _try(lambda: _arr(a) @ _arr(b))
        out.append(('gest np vecvec %s %s' % (_enc(a), _enc(b)), 'err' if r is None else _q(r), '1-D @ 1-D'))
        rows, cols = rng.choice([1, 2, 3, 4]), rng.choice([1, 2, 3, 4])
        A = [vec(cols) for _ in range(rows)]
        v = vec(rng.choice([cols, cols, cols, rows, rng.randint(0, 4)]))
        r = _try(lambda: _mat(A, cols) @ _arr(v))
        out.append(('gest np matvec %s %s' % (_enc_mat(A), _enc(v)), 'err' if r is None else _encv(r), '2-D @ 1-D'))
        w = vec(rng.choice([rows, rows, rows, cols, rng.randint(0, 4)]))
        r = _try(lambda: _arr(w) @ _mat(A, cols))
        out.append(('gest np vecmat %s %s' % (_enc(w), _enc_mat(A)), 'err' if r is None else _encv(r), '1-D @ 2-D'))
        rep = rng.randint(0, 5)
        out.append(('gest np repeat %s %d' % (_enc(a), rep), _encv(np.repeat(_arr(a), rep)), 'np.repeat'))
        if a and len(a) == len(b):
            out.append(('gest np max %s %s' % (_enc(a), _enc(b)), _enc([max(x, y) for x, y in zip(a, b)]), 'max(a, b)'))
            out.append(('gest np min %s %s' % (_enc(a), _enc(b)), _enc([min(x, y) for x, y in zip(a, b)]), 'min(a, b)'))
            out.append(('gest np abs %s' % _enc(a), _enc([abs(x) for x in a]), 'abs'))
            arr = np.array([(x, y) for x, y in zip(a, b)])
            out.append(('gest np pairs %s %s' % (_enc(a), _enc(b)), _enc_mat(arr.tolist()), 'np.array of a list of 2-tuples'))
        keys = [rng.randint(0, 6) for _ in range(rng.randint(0, 7))]
        d = {kk: vv for vv, kk in enumerate(keys)}
        probe = rng.randint(0, 7)
        out.append(('gest np dict %s %d' % (','.join(map(str, keys)) if keys else '-', probe),
                    str(d[probe]) if probe in d else 'err', 'position map, last insertion wins'))
    return out
