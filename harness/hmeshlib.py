"""Pointer-level dump of the real `src.mesh.Mesh` (the half-edge objects themselves: `edge.nbr_edge`,
`edge.children`, `edge.parent`, `edge.elem.glob_idx`, `vertex.idx`, flags), in the format of the Lean driver
command `hm edges` (lean/Driver/HMeshCmd.lean), and the lock-step batch for the H-layer model."""
from .common import q2s, run_driver
from .meshlib import PyMesh, canon, dump_mesh, enc


def _flag(b):
    return '1' if b else '0'


def _owner(elem):
    return 'N' if elem is None else str(elem.glob_idx)


def _pos(seq, obj):
    """Index of the object `obj` (identity) in `seq`, '-' if absent."""
    for i, o in enumerate(seq):
        if o is obj:
            return str(i)
    return '-'


def edge_facts(e):
    """`v0,v1,haschildren,on_boundary,glued`"""
    return '%d,%d,%s,%s,%s' % (e.vertices[0].idx, e.vertices[1].idx, _flag(bool(e.children)), _flag(e.on_boundary),
                               _flag(e.glued))


def edge_line(e):
    """own facts | parent facts | neighbour-edge facts of one edge object."""
    if e.parent is None:
        par = '-'
    else:
        P = e.parent
        pi = _pos(P.children, e) if P.children else '-'
        if P.nbr_edge is None:
            pn = '-'
        else:
            pn = '%s;%s' % (_owner(P.nbr_edge.elem), _flag(bool(P.nbr_edge.children)))
        par = '%s;%s;%s' % (pi, edge_facts(P), pn)
    if e.nbr_edge is None:
        nb = '-'
    else:
        Fe = e.nbr_edge
        side = '-' if Fe.elem is None else _pos(Fe.elem.edges, Fe)
        ko = '-' if not Fe.children else '%s,%s' % (_owner(Fe.children[0].elem), _owner(Fe.children[1].elem))
        back = _flag(Fe.nbr_edge is e)
        nb = '%s;%s;%s;%s;%s' % (_owner(Fe.elem), side, edge_facts(Fe), ko, back)
    return '%s|%s|%s' % (edge_facts(e), par, nb)


def dump_edges(mesh):
    out = []
    for el in mesh.leaf_elements:
        out.append('%d=%s' % (el.glob_idx, '/'.join(_flag(e.elem is el) + '|' + edge_line(e) for e in el.edges)))
    return ' '.join(out)


def _safe(fn, mesh):
    """A dump of a corrupted structure may trip the code's own assertions: report that as the dump."""
    try:
        return fn(mesh)
    except (AssertionError, AttributeError, IndexError, TypeError) as exc:
        return '!dump raised %s' % type(exc).__name__


class HBatch:
    """Histories of `rt/rs/rb` executed on the real mesh; for every state the driver is asked for
    `mesh dump` (A-layer), `hm dump` (H-layer, from the pointers), `hm absdump` (A-layer dump of `abs h`) and
    `hm edges`; all of them are compared with the dumps of the real objects."""
    def __init__(self):
        self.lines, self.expect, self.where, self.histories = [], [], [], []

    def _state(self, pm, h, k):
        d = _safe(dump_mesh, pm.mesh)
        for cmd in ('mesh dump', 'hm dump', 'hm absdump'):
            self.lines.append(cmd)
            self.expect.append(d)
            self.where.append((h, k))
        self.lines.append('hm edges')
        self.expect.append(_safe(dump_edges, pm.mesh))
        self.where.append((h, k))

    def add_history(self, glue, X, T, ops_fn, last_only=False):
        """ops_fn(pm, k) -> ('rt'|'rs'|'rb', glob_idx) or None.  `last_only`: the state is dumped only after the last
        operation (the states after the earlier ones are the final states of other histories)."""
        pm = PyMesh.create(glue, X, T)
        h = len(self.histories)
        ops = []
        for pre in ('mesh', 'hm'):
            self.lines.append('%s init %d %s %s' % (pre, glue, enc(X), enc(T)))
            self.expect.append('ok %d' % len(pm.mesh.leaf_elements))
            self.where.append((h, -1))
        if not last_only:
            self._state(pm, h, -1)
        status = 'ok'
        k = 0
        while True:
            op = ops_fn(pm, k)
            if op is None:
                break
            ops.append(op)
            out = pm.apply(op)
            for pre in ('mesh', 'hm'):
                self.lines.append('%s %s %d' % (pre, op[0], op[1]))
                self.expect.append(canon(out))
                self.where.append((h, k))
            if out.startswith('err'):
                status = 'err'
                break
            if not last_only:
                self._state(pm, h, k)
            k += 1
        if last_only and status == 'ok':
            self._state(pm, h, k - 1)
        self.histories.append(dict(glue=glue, X=[q2s(x) for x in X], T=[q2s(t) for t in T],
                                   ops=[list(o) for o in ops], status=status))
        return pm, ops, status

    def run(self):
        if not self.lines:
            return None
        out = run_driver(self.lines)
        if len(out) != len(self.lines):
            return dict(kind='driver-output-length', got=len(out), want=len(self.lines))
        for i, (line, want, got) in enumerate(zip(self.lines, self.expect, out)):
            if canon(got) != want:
                h, k = self.where[i]
                return dict(kind='disagreement', history=self.histories[h], op_index=k, line=line[:300],
                            python=want[:3000], model=got[:3000])
        return None
