"""Exact-arithmetic helpers: Fraction arrays, random rationals, exact base rules."""
from fractions import Fraction as F

import numpy as np

from .common import q2s


def farr(xs):
    a = np.empty(len(xs), dtype=object)
    for i, x in enumerate(xs):
        a[i] = F(x)
    return a


def rand_frac(rng, lo=0, hi=1, den=None):
    """Random rational strictly inside (lo, hi)."""
    den = den or rng.choice([2, 3, 4, 5, 7, 8, 9, 16, 30])
    num = rng.randint(1, den - 1) if den > 1 else 1
    return F(lo) + (F(hi) - F(lo)) * F(num, den)


def rand_rule(rng, n=None, den=None):
    """Random rational 1-D rule: distinct points in (0,1), positive weights."""
    n = n or rng.randint(1, 4)
    pts = set()
    while len(pts) < n:
        pts.add(rand_frac(rng, den=den or rng.choice([5, 7, 9, 11, 16])))
    pts = sorted(pts)
    wts = [F(rng.randint(1, 9), rng.choice([3, 4, 5, 7, 10])) for _ in pts]
    return list(pts), wts


# exact closed Newton-Cotes rules on [0,1] (rational nodes); degree of exactness given
NEWTON_COTES = {
    1: ([F(0), F(1)], [F(1, 2), F(1, 2)]),
    3: ([F(0), F(1, 2), F(1)], [F(1, 6), F(2, 3), F(1, 6)]),
    5: ([F(k, 4) for k in range(5)], [F(7, 90), F(32, 90), F(12, 90), F(32, 90), F(7, 90)]),
    7: ([F(k, 6) for k in range(7)], [F(41, 840), F(216, 840), F(27, 840), F(272, 840), F(27, 840), F(216, 840),
                                      F(41, 840)]),
}


# interpolatory rules with NEGATIVE weights (every identity of the derived schemes is linear in the weights)
SIGNED_RULES = [
    (3, ([F(1, 4), F(1, 2), F(3, 4)], [F(2, 3), F(-1, 3), F(2, 3)])),                       # Milne (open Newton-Cotes)
    (5, ([F(k, 6) for k in range(1, 6)], [F(11, 20), F(-14, 20), F(26, 20), F(-14, 20), F(11, 20)])),   # open NC, 5 points
    (9, ([F(k, 8) for k in range(9)], [F(v, 28350) for v in (989, 5888, -928, 10496, -4540, 10496, -928, 5888, 989)])),
]


def enc_list(xs):
    xs = list(xs)
    return ','.join(q2s(x) for x in xs) if xs else '-'


def enc_rule1(pts, wts):
    return enc_list(pts) + ';' + enc_list(wts)


def enc_scheme(s):
    """Encodes a real QuadScheme1D/2D/3D (object arrays of Fractions) in driver syntax."""
    pts = np.asarray(s.points, dtype=object)
    if pts.ndim == 1:
        return enc_list(pts) + ';' + enc_list(s.weights)
    return ';'.join(enc_list(row) for row in pts) + ';' + enc_list(s.weights)
