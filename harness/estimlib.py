"""Exact execution of the real estimators of /repo (property C20).

* `NpShim`: stand-in for the module-level name `np` of src/hierarchical_error_estimator.py and
  src/h_h2_error_estimator.py.  Everything is delegated to the real NumPy except
    - `zeros(n)`       -> object array of Q(0)   (so that `rhs += g(...)` and `estim_loc[k] = ...` stay exact),
    - `linalg.solve`   -> exact Gaussian elimination over Fraction (object array of Q),
    - `sqrt(x)`        -> `Sqrt(x)` token carrying the exact radicand.
  `repeat`, `tile`, `array`, `@` ... are NumPy's own (they work on object arrays).
* `SynthOps`: exact synthetic leaves `bilform_matrix`, `linform_vector`, `g` computed from the element rectangles,
  recording every call (arguments as rectangles, returned matrix).

All numbers handed to the code under test are `Q` (harness/qnum.py): a Fraction that absorbs Python floats exactly, so
that the float literal `0.5` of the source does not leave exact arithmetic.
"""
import contextlib
from fractions import Fraction as F

import numpy as np

from .qnum import Q, _frac


def qarr(a):
    """object array of Fractions -> object array of Q (same shape)"""
    a = np.asarray(a, dtype=object)
    out = np.empty(a.shape, dtype=object)
    for idx in np.ndindex(a.shape):
        out[idx] = Q(a[idx])
    return out


def unq(x):
    return x.v if isinstance(x, Q) else x


class Sqrt:
    """token for np.sqrt(radicand)"""
    def __init__(self, radicand):
        self.radicand = radicand

    def __repr__(self):
        return 'Sqrt(%s)' % (self.radicand, )


class SingularMatrix(Exception):
    pass


def exact_solve(A, b):
    """Gauss-Jordan over Fraction; raises SingularMatrix."""
    A = np.asarray(A, dtype=object)
    n = A.shape[0]
    if A.shape != (n, n) or len(b) != n:
        raise ValueError('shape')
    M = [[_frac(A[i, j]) for j in range(n)] + [_frac(b[i])] for i in range(n)]
    for col in range(n):
        piv = next((r for r in range(col, n) if M[r][col] != 0), None)
        if piv is None:
            raise SingularMatrix()
        M[col], M[piv] = M[piv], M[col]
        pv = M[col][col]
        M[col] = [v / pv for v in M[col]]
        for r in range(n):
            if r != col and M[r][col] != 0:
                f = M[r][col]
                M[r] = [a - f * c for a, c in zip(M[r], M[col])]
    out = np.empty(n, dtype=object)
    for i in range(n):
        out[i] = M[i][n]
    return out


class _Linalg:
    def __init__(self, real):
        self._real = real

    def solve(self, A, b):
        return qarr(exact_solve(A, b))

    def __getattr__(self, name):
        return getattr(self._real, name)


class NpShim:
    def __init__(self):
        self.linalg = _Linalg(np.linalg)

    def zeros(self, shape, *a, **k):
        out = np.empty(shape, dtype=object)
        out.fill(Q(0))
        return out

    def sqrt(self, x):
        return Sqrt(x)

    def __getattr__(self, name):
        return getattr(np, name)


@contextlib.contextmanager
def patched_np(*modules):
    shim = NpShim()
    saved = [(m, m.np) for m in modules]
    try:
        for m in modules:
            m.np = shim
        yield shim
    finally:
        for m, old in saved:
            m.np = old


# ------------------------------------------------------------------------------------------------
def rect_of(e):
    return (e.time_interval[0], e.time_interval[1], e.space_interval[0], e.space_interval[1])


def overlap(a, b):
    dt = min(a[1], b[1]) - max(a[0], b[0])
    dx = min(a[3], b[3]) - max(a[2], b[2])
    return dt * dx if dt > 0 and dx > 0 else F(0)


def area(a):
    return (a[1] - a[0]) * (a[3] - a[2])


class SynthOps:
    """Synthetic exact operators.  `par` = dict of rational parameters.

    kernel(test, trial) = w * |test ∩ trial| + f(test) f(trial) + d * p(test) q(trial)
      (weighted Gram matrix of indicator functions + rank one + a non-symmetric rank-one perturbation)."""
    def __init__(self, par):
        self.par = par
        self.calls = []  # (kind, test_rects, trial_rects, use_mp, returned)

    def kernel(self, a, b):
        p = self.par
        fa = area(a) * (1 + p['ft'] * a[0] + p['fx'] * a[2])
        fb = area(b) * (1 + p['ft'] * b[0] + p['fx'] * b[2])
        return p['w'] * overlap(a, b) + p['r'] * fa * fb + p['d'] * (a[1] + a[3]) * area(a) * (b[2] + F(1, 3)) * area(b)

    def matrix(self, rt, rb):
        out = np.empty((len(rt), len(rb)), dtype=object)
        for i, a in enumerate(rt):
            for j, b in enumerate(rb):
                out[i, j] = self.kernel(a, b)
        return out

    # --- the interface the estimators use
    def bilform_matrix(self, elems_test=None, elems_trial=None, use_mp=False):
        rt = [rect_of(e) for e in elems_test]
        rb = [rect_of(e) for e in elems_trial]
        m = self.matrix(rt, rb)
        self.calls.append(('bilform_matrix', rt, rb, use_mp, m, list(elems_test), list(elems_trial)))
        return qarr(m)

    def g_vec(self, rects):
        p = self.par
        out = np.empty(len(rects), dtype=object)
        for i, a in enumerate(rects):
            out[i] = area(a) * (p['g0'] + p['g1'] * (a[0] + a[1]) + p['g2'] * (a[2] + a[3]) * (a[0] + 1))
        return out

    def m0_vec(self, rects):
        p = self.par
        out = np.empty(len(rects), dtype=object)
        for i, a in enumerate(rects):
            out[i] = area(a) * (p['m0'] + p['m1'] * a[2] * a[3] + p['m2'] * a[1])
        return out

    def g(self, elems):
        rects = [rect_of(e) for e in elems]
        v = self.g_vec(rects)
        self.calls.append(('g', rects, None, None, v, list(elems), None))
        return qarr(v)

    def linform_vector(self, elems=None, use_mp=False):
        rects = [rect_of(e) for e in elems]
        v = self.m0_vec(rects)
        self.calls.append(('linform_vector', rects, None, use_mp, v, list(elems), None))
        return qarr(v)


def quadrants(r):
    """[LL, LR, UL, UR] of a rectangle, computed geometrically (independent of the code under test)."""
    t0, t1, x0, x1 = r
    tm, xm = (t0 + t1) / 2, (x0 + x1) / 2
    return [(t0, tm, x0, xm), (t0, tm, xm, x1), (tm, t1, x0, xm), (tm, t1, xm, x1)]
