"""Tie between src/parametrization.py and the definitions regenerated from it (translate/paramgen.py ->
lean/Stbem/Gen/ParamGen.lean over Rat, lean/Stbem/Gen/ParamGenR.lean over the reals).

* `translate_paramgen(res)`: the `translate` hook: regenerates both files from the working tree of the repository under test; a
  construct outside the supported fragment raises `TranslationError` (= broken obligation `translator`).  The changed Rat file is
  compiled on its own before it replaces the previous one (it is linked into the shared driver).  The equality theorems of
  Props/ParamTie.lean / Props/ParamTieCircle.lean are then re-checked by the build against the regenerated text.
* `generated_twin(line)`: for a request `param …` of the correspondence run the request `gparam …`, answered by the generated
  functions (Driver/ParamGenCmd.lean).
* `correspond_generated(res, rng, tier)`: what has no hand-model twin — the shipped classes through their generated
  constructors (literal vertices, `np.pi` as a parameter), `circle` with rational stand-ins for cos / sin on the real function,
  `__repr__`, `line` on Pythagorean sides, and the NumPy prelude of the generated file against NumPy itself.
"""
import math
import os
import sys
from fractions import Fraction as F

import numpy as np

from .common import q2s, run_driver

PROP_MOD = 'Stbem.Props.ParamTie'
PROP_MOD_CIRCLE = 'Stbem.Props.ParamTieCircle'

TRUSTED = ('src/parametrization.py (functions circle, circle_project, line, line_project, central_derivative; classes '
           'PiecewiseParametrization with __init__ / eval, PiecewisePolygon, Circle, UnitSquare, PiSquare, LShape, UnitInterval): '
           'regenerated from the current source text by translate/paramgen.py -> lean/Stbem/Gen/ParamGen.lean (over Rat, in the '
           'driver) and Gen/ParamGenR.lean (over the reals) and proved equal to the hand-written polygon model / the circle of '
           'Lemmas/ParamCircle.lean (Props/ParamTie.lean, Props/ParamTieCircle.lean); trusted: the translator, its NumPy prelude '
           '(documented in the generated file, executed against NumPy on every run: `gparam np`) and its conventions (scalar '
           'argument = 1-element array, exact rational np.linalg.norm or "outside", float division by zero = "nan" error, '
           'np.cos / np.sin / np.atan / np.pi as parameters); not translated (named): plot, integrator, project, the __main__ block')

STAT_KEYS = ('module_functions', 'classes', 'constructors', 'methods', 'closures', 'callable_types', 'for_loops', 'branches',
             'asserts', 'asserts_without_known_label', 'assignments', 'appends', 'returns', 'numpy_calls', 'special_functions',
             'float_constants', 'index_reads', 'external_methods_not_translated', 'repr_methods', 'default_arguments')


def translate_paramgen(res):
    import subprocess
    from .common import LEAN, REPO, VERIF, write_if_changed
    tdir = os.path.join(VERIF, 'translate')
    if tdir not in sys.path:
        sys.path.insert(0, tdir)
    import paramgen

    def compiles(text):
        tmp = os.path.join(LEAN, '.lake', 'paramgen_check_%d.lean' % os.getpid())
        with open(tmp, 'w') as fh:
            fh.write(text)
        try:
            p = subprocess.run(['lake', 'env', 'lean', tmp], cwd=LEAN, stdout=subprocess.PIPE, stderr=subprocess.STDOUT, text=True,
                               timeout=600)
        finally:
            os.unlink(tmp)
        return None if p.returncode == 0 else p.stdout[-2000:]
    stats = paramgen.generate(REPO, os.path.join(LEAN, 'Stbem', 'Gen'), write_if_changed, compiles)
    res.bump('paramgen_generated_files_changed', stats.get('changed', 0))
    for k in STAT_KEYS:
        res.bump('paramgen_translated_' + k, stats.get(k, 0))
    res.count(('translated', 'parametrization.py'), True,
              n=stats.get('assignments', 0) + stats.get('returns', 0) + stats.get('asserts', 0) + stats.get('for_loops', 0))
    return stats


def generated_twin(line):
    return 'g' + line if line.startswith('param ') else None


# ------------------------------------------------------------------------------------------------
def _rows(m):
    return ';'.join(','.join(q2s(v) for v in r) for r in m)


def _frac_rows(a):
    a = np.asarray(a)
    return [[F(float(v)) for v in r] for r in a]


def _dy(rng, lo=-8, hi=8, den=8):
    return F(rng.randint(lo * den, hi * den), den)


def np_prelude_cases(rng, n):
    """(request, expected answer computed by NumPy itself) for the prelude functions of the generated file; all numbers are
    dyadic, so binary64 arithmetic is exact wherever the comparison is textual"""
    out = []
    for k in range(n):
        ncol = rng.randint(1, 5)
        npiece = rng.randint(1, 4)
        # np.select with (n,) conditions and (2, n) choices
        conds = [[rng.random() < 0.4 for _ in range(ncol)] for _ in range(npiece)]
        mats = [[[_dy(rng) for _ in range(ncol)] for _ in range(2)] for _ in range(npiece)]
        got = np.select([np.array(c) for c in conds], [np.array([[float(v) for v in r] for r in m]) for m in mats])
        out.append(('gparam np select %s %s' % (';'.join(''.join('1' if b else '0' for b in c) for c in conds),
                                                '|'.join(_rows(m) for m in mats)), _rows(_frac_rows(got))))
        # broadcasting (n,) * (2, 1) and (2, n) + (2, 1)
        x = [_dy(rng) for _ in range(ncol)]
        c = [[_dy(rng)], [_dy(rng)]]
        m = mats[0]
        fx, fc, fm = np.array([float(v) for v in x]), np.array([[float(v) for v in r] for r in c]), \
            np.array([[float(v) for v in r] for r in m])
        for op, f in (('mul', lambda a, b: a * b), ('add', lambda a, b: a + b), ('sub', lambda a, b: a - b)):
            out.append(('gparam np bcac %s %s %s' % (op, ','.join(q2s(v) for v in x), _rows(c)), _rows(_frac_rows(f(fx, fc)))))
            out.append(('gparam np bcmc %s %s %s' % (op, _rows(m), _rows(c)), _rows(_frac_rows(f(fm, fc)))))
        out.append(('gparam np mm %s %s' % (_rows(m), _rows(mats[-1])),
                    _rows(_frac_rows(fm - np.array([[float(v) for v in r] for r in mats[-1]])))))
        out.append(('gparam np where %s %s %s' % (''.join('1' if b else '0' for b in conds[0]), _rows(m), _rows(mats[-1])),
                    _rows(_frac_rows(np.where(np.array(conds[0]), fm, np.array([[float(v) for v in r] for r in mats[-1]]))))))
        out.append(('gparam np flatten %s' % _rows(m), ','.join(q2s(F(float(v))) for v in fm.flatten())))
        out.append(('gparam np vstack %s %s' % (','.join(q2s(v) for v in m[0]), ','.join(q2s(v) for v in m[1])),
                    _rows(_frac_rows(np.vstack([fm[0], fm[1]])))))
        out.append(('gparam np dot %s %s' % (','.join(q2s(v) for v in m[0]), ','.join(q2s(v) for v in m[1])),
                    q2s(F(float(np.dot(fm[0], fm[1]))))))
        d = F(rng.choice([1, 2, 4, -2, 8]), rng.choice([1, 2, 4]))
        out.append(('gparam np divms %s %s' % (_rows(m), q2s(d)), _rows(_frac_rows(fm / float(d)))))
        v2 = [_dy(rng), _dy(rng)]
        out.append(('gparam np reshape21 %s' % ','.join(q2s(v) for v in v2),
                    _rows(_frac_rows(np.array([float(v) for v in v2]).reshape(2, 1)))))
        lo, hi = sorted([_dy(rng), _dy(rng)])
        cond = (float(lo) <= fx) & (fx <= float(hi))
        out.append(('gparam np range %s,%s %s' % (q2s(lo), q2s(hi), ','.join(q2s(v) for v in x)),
                    ''.join('1' if b else '0' for b in cond) + ':' + ('1' if np.all(cond) else '0')))
        y = list(x) if rng.random() < 0.4 else [_dy(rng) for _ in range(ncol)]
        out.append(('gparam np eq %s %s' % (','.join(q2s(v) for v in x), ','.join(q2s(v) for v in y)),
                    '1' if np.all(fx == np.array([float(v) for v in y])) else '0'))
        # np.linalg.norm on Pythagorean and on axis-parallel vectors (exact in binary64)
        a, b, h = rng.choice([(3, 4, 5), (5, 12, 13), (8, 15, 17), (0, 7, 7), (6, 0, 6), (-3, 4, 5), (0, 0, 0), (-9, 0, 9)])
        sc = F(rng.choice([1, 2, 1, 4]), rng.choice([1, 2, 8]))
        out.append(('gparam np norm %s,%s' % (q2s(a * sc), q2s(b * sc)),
                    q2s(F(float(np.linalg.norm(np.array([float(a * sc), float(b * sc)])))))))
        # np.allclose(m, k): perturbations far from / at the tolerance (decided in exact arithmetic on exact binary64 inputs)
        pert = rng.choice([0.0, 1e-9, 3e-9, 1e-7, 1e-5, 1e-4, 0.5])
        km = fm + pert * rng.choice([1, -1])
        out.append(('gparam np allclose %s %s' % (_rows(_frac_rows(fm)), _rows(_frac_rows(km))), '1' if np.allclose(fm, km) else '0'))
        # np.allclose(np.linalg.norm(m, axis=0), 1) on columns of norm 1 +- something well away from the tolerance boundary
        cols = []
        for _ in range(ncol):
            a, b, h = rng.choice([(3, 4, 5), (5, 12, 13), (0, 1, 1), (1, 0, 1), (-1, 0, 1)])
            s = 1.0 + rng.choice([0.0, 0.0, 1e-7, -1e-7, 1e-3, -1e-3, 2e-5, -3e-5])
            cols.append((a / h * s, b / h * s))
        nm = np.array([[c[0] for c in cols], [c[1] for c in cols]])
        out.append(('gparam np allclosenorm %s 1' % _rows(_frac_rows(nm)), '1' if np.allclose(np.linalg.norm(nm, axis=0), 1) else '0'))
    return out


def correspond_generated(res, rng, tier):
    """Requests without a hand-model twin; a disagreement is a broken obligation of the generated model."""
    from src import parametrization as P
    lines, expect, what = [], [], []

    def add(line, want, w):
        lines.append(line)
        expect.append(want)
        what.append(w)

    # NumPy prelude against NumPy
    for line, want in np_prelude_cases(rng, 25 if tier == 'quick' else 300):
        add(line, want, 'NumPy prelude')
    # np.linspace: 50 points, end points exact, inner points within 2 ulp of the exact rationals (float evaluation order of NumPy)
    lin_cases = [(F(1, 8), F(7, 2)), (F(float(1e-4)), F(float(4 - 1e-4))), (F(0), F(49))]
    # shipped classes through their generated constructors: literal vertices / break points of the source
    shipped = {}
    for name in ('UnitSquare', 'LShape', 'UnitInterval', 'PiSquare', 'Circle'):
        try:
            with np.errstate(all='ignore'):
                shipped[name] = getattr(P, name)()
        except AssertionError as exc:
            res.broken_obligation('correspondence C18 (generated): shipped curve %s cannot be constructed' % name, repr(exc))
    from .checks.C18 import lattice, real_eval_lines, show_real_curve
    for name in ('UnitSquare', 'LShape', 'UnitInterval'):
        if name not in shipped:
            continue
        c = shipped[name]
        add('gparam shipped %s 1' % name, '%s %d %s' % (show_real_curve(c), int(bool(c.closed)), q2s(c.gamma_length)),
            'shipped class %s (generated constructor)' % name)
        xs = lattice(F(c.gamma_length), 8)
        vec, _ = real_eval_lines(c, xs)
        add('gparam shippedeval %s 1 %s' % (name, ','.join(q2s(x) for x in xs)), vec, 'shipped class %s: eval' % name)
        res.count(('generated-shipped', name), True, n=len(xs))
    for name in ('Circle', 'UnitSquare', 'PiSquare', 'LShape'):
        if name in shipped:
            add('gparam repr %s' % name, repr(shipped[name]), '__repr__ of %s' % name)
    # the exact curve fixtures of the single-layer checks (harness/sllib.py: C01, C04, C07, C11, C12) use the same vertex lists:
    # their pieces / break points must be what the generated constructors of the shipped classes return
    from .sllib import CURVES, polygon_pieces
    for key, name in (('unitsquare', 'UnitSquare'), ('lshape', 'LShape'), ('interval', 'UnitInterval')):
        verts, closed = CURVES[key]
        pieces, starts = polygon_pieces(verts)
        add('gparam shipped %s 1' % name, 'ok %s %s %d %s' % (','.join(q2s(v) for v in starts), ';'.join(p.encode() for p in pieces),
                                                             int(closed), q2s(starts[-1])),
            'curve fixture %r of harness/sllib.py = generated %s()' % (key, name))
    # circle with rational stand-ins for cos / sin on the REAL function (module-level np replaced in the harness process)
    from .qnum import Q

    class _Shim:
        def __init__(self, cs, sn):
            self._cs, self._sn = cs, sn

        def _si(self, c, x):
            def one(u):
                u = Q(u).v
                return Q((c[0] + c[1] * u + c[2] * u * u) / (c[3] + u * u))
            a = np.asarray(x, dtype=object)
            o = np.empty(a.shape, dtype=object)
            for i in np.ndindex(a.shape):
                o[i] = one(a[i])
            return o

        def cos(self, x):
            return self._si(self._cs, x)

        def sin(self, x):
            return self._si(self._sn, x)

        def __getattr__(self, k):
            return getattr(np, k)

    saved = P.np
    try:
        for k in range(6 if tier == 'quick' else 60):
            cs = [F(rng.randint(-5, 5), rng.randint(1, 4)) for _ in range(3)] + [F(rng.randint(1, 9), rng.randint(1, 3))]
            sn = [F(rng.randint(-5, 5), rng.randint(1, 4)) for _ in range(3)] + [F(rng.randint(1, 9), rng.randint(1, 3))]
            xs = [F(rng.randint(-40, 40), 8) for _ in range(rng.randint(1, 6))]
            P.np = _Shim(cs, sn)
            arr = P.circle(np.array([Q(x) for x in xs], dtype=object))
            want = ' '.join('%s:%s' % (q2s(arr[0, j]), q2s(arr[1, j])) for j in range(len(xs)))
            add('gparam circle %s %s %s' % (','.join(q2s(v) for v in cs), ','.join(q2s(v) for v in sn), ','.join(q2s(x) for x in xs)),
                want, 'circle with stand-ins for cos / sin')
            res.count(('generated-circle', k, res.seed), True)
    finally:
        P.np = saved
    # PiSquare and Circle structurally (np.pi as a parameter: the rational stand-in 355/113 on both sides)
    PI = F(355, 113)

    class _PiShim:
        pi = float(PI)

        def __getattr__(self, k):
            return getattr(np, k)
    try:
        P.np = _PiShim()
        with np.errstate(all='ignore'):
            c = P.PiSquare()
        got = 'ok %s %s %d %s' % (','.join(q2s(F(float(v)).limit_denominator(10**6)) for v in c.pw_start),
                                  ';'.join(':'.join(q2s(F(float(v)).limit_denominator(10**6)) for v in
                                                    (lambda t: (t[0], t[1][0], t[1][1], t[2][0], t[2][1]))(_piece(g)))
                                           for g in c.pw_gamma), int(bool(c.closed)), q2s(F(float(c.gamma_length)).limit_denominator(10**6)))
        add('gparam shipped PiSquare %s' % q2s(PI), got, 'PiSquare with np.pi := 355/113 (values rounded to denominators <= 10^6)')
        res.count(('generated-shipped', 'PiSquare'), True)
    except AssertionError:
        # binary64 rounding in the bit-exact end-point tests (outside the exact model): nothing to compare
        res.notes['pisquare_with_rational_pi'] = 'rejected by the bit-exact end-point test in binary64 (not compared)'
    finally:
        P.np = saved
    # line on Pythagorean sides (outside the hand model, inside the generated one)
    for a, b in (((0, 0), (3, 4)), ((1, -2), (6, 10)), ((2, 2), (-6, 17)), ((0, 0), (0, 5)), ((1, 1), (1, 1))):
        xs0 = F(rng.randint(0, 16), 4)
        with np.errstate(all='ignore'):
            fun, norm = P.line(np.array([float(a[0]), float(a[1])]), np.array([float(b[0]), float(b[1])]), x_start=float(xs0))
        x_s, aa, dd = _piece(fun)
        if math.isnan(dd[0]):
            want = 'err'
        else:
            want = '%s %s' % (':'.join(q2s(F(float(v)).limit_denominator(10**6)) for v in (x_s, aa[0], aa[1], dd[0], dd[1])), q2s(F(float(norm))))
        add('gparam line %d,%d %d,%d %s' % (a[0], a[1], b[0], b[1], q2s(xs0)), want, 'line on a Pythagorean side')
    out = run_driver(lines)
    n_ok = 0
    for line, want, got, w in zip(lines, expect, out, what):
        g = 'err' if got.startswith('err ') and want == 'err' else got
        if g != want:
            res.broken_obligation('correspondence C18: definitions REGENERATED from src/parametrization.py and the real code differ (%s)' % w,
                                  'line: %s\npython: %s\nmodel:  %s' % (line[:600], want[:1500], got[:1500]))
            break
        n_ok += 1
    # linspace
    lin_out = run_driver(['gparam np linspace %s %s' % (q2s(a), q2s(b)) for a, b in lin_cases])
    for (a, b), o in zip(lin_cases, lin_out):
        ref = np.linspace(float(a), float(b))
        mod = [F(v) for v in o.split(',')]
        ok = len(mod) == len(ref) == 50 and F(float(ref[0])) == mod[0] and F(float(ref[-1])) == mod[-1] and \
            all(abs(float(m) - r) <= 4 * np.spacing(abs(r)) for m, r in zip(mod, ref))
        if not ok:
            res.broken_obligation('correspondence C18: prelude npLinspace and np.linspace differ', 'a=%s b=%s\nmodel: %s\nnumpy: %r' % (a, b, o[:400], ref[:8]))
        n_ok += 1
    res.notes['generated_only_lines'] = len(lines) + len(lin_cases)
    res.count(('generated-only', res.seed), True, n=n_ok)


def _piece(fun):
    import inspect
    nl = inspect.getclosurevars(fun).nonlocals
    return nl['x_start'], np.asarray(nl['a']).flatten(), np.asarray(nl['direct']).flatten()
