"""Validation of translate/formulas.py: the real Python functions run on `Q` numbers with rational stand-ins must
return exactly the value the generated Lean term (over Rat, same stand-ins) evaluates to."""
from fractions import Fraction as F

import numpy as np

from .common import q2s, run_driver
from .qnum import Q, StandIns, installed


def rq(rng, lo=0, hi=3, den=None):
    den = den or rng.choice([1, 2, 3, 4, 5, 8])
    return F(rng.randint(lo * den, hi * den), den)


def pos(rng):
    return F(rng.randint(1, 12), rng.choice([1, 2, 3, 4, 5, 8]))


def vec(rng):
    x = [F(rng.randint(-8, 8), rng.choice([1, 2, 3])), F(rng.randint(-8, 8), rng.choice([1, 2, 3]))]
    a = np.empty((2, 1), dtype=object)
    a[0, 0], a[1, 0] = Q(x[0]), Q(x[1])
    return a, x[0]**2 + x[1]**2


def times4(rng):
    """a < b, c < d in all relative positions."""
    pts = sorted({rq(rng) for _ in range(6)})
    while len(pts) < 4:
        pts = sorted(set(pts) | {rq(rng)})
    a, b = sorted(rng.sample(pts, 2))
    c, d = sorted(rng.sample(pts, 2))
    return a, b, c, d


def cases(rng, name):
    """Yields (python thunk, driver args) for one random case of the named function."""
    import src.single_layer as SL
    import src.single_layer_exact as SE
    import src.initial_potential as IP
    if name == 'sl_g':
        a, b = rq(rng), rq(rng)
        x, xsq = vec(rng)
        return (lambda: SL.g(Q(a), Q(b))(x)), [a, b, xsq]
    if name == 'sl_f':
        a, b, s = rq(rng), rq(rng), pos(rng)
        return (lambda: SL.f(Q(a), Q(b))(Q(s))), [a, b, s]
    if name == 'sl_tik':
        t, (a, b) = rq(rng), sorted([rq(rng, 0, 2), rq(rng, 2, 4) + F(1, 7)])
        x, xsq = vec(rng)
        return (lambda: SL.time_integrated_kernel(Q(t), Q(a), Q(b))(x)), [t, a, b, xsq]
    if name == 'sl_dtk':
        a, b, c, d = times4(rng)
        x, xsq = vec(rng)
        return (lambda: SL.double_time_integrated_kernel(Q(a), Q(b), Q(c), Q(d))(x)), [a, b, c, d, xsq]
    if name == 'gint_1':
        z, h = pos(rng), pos(rng)
        return (lambda: SE.gint_1(Q(z), Q(h))), [z, h]
    if name == 'gint_2':
        z, h = pos(rng), pos(rng)
        k = h + pos(rng)
        return (lambda: SE.gint_2(Q(z), Q(h), Q(k))), [z, h, k]
    if name in ('fint_1', 'fint_2', 'fint_3', 'fint_4'):
        a, b = rq(rng), rq(rng)
        h = pos(rng)
        if name == 'fint_1':
            return (lambda: SE.fint_1(Q(a), Q(b), Q(h))), [a, b, h]
        k = pos(rng) if rng.random() < 0.8 else h
        if name == 'fint_2':
            return (lambda: SE.fint_2(Q(a), Q(b), Q(h), Q(k))), [a, b, h, k]
        if name == 'fint_3':
            return (lambda: SE.fint_3(Q(a), Q(b), Q(h), Q(k))), [a, b, h, k]
        k = h + pos(rng)
        l = k + pos(rng)
        return (lambda: SE.fint_4(Q(a), Q(b), Q(h), Q(k), Q(l))), [a, b, h, k, l]
    if name in ('stik_1', 'stik_2', 'stik_3', 'stik_4'):
        a, b, c, d = times4(rng)
        h = pos(rng)
        fn = getattr(SE, 'spacetime_integrated_kernel_' + name[-1])
        if name == 'stik_1':
            args = [a, b, c, d, h]
        elif name in ('stik_2', 'stik_3'):
            args = [a, b, c, d, h, pos(rng)]
        else:
            k = h + pos(rng)
            args = [a, b, c, d, h, k, k + pos(rng)]
        return (lambda: fn(*[Q(v) for v in args])), args
    if name == 'steval_1':
        t, a = rq(rng), rq(rng, 0, 2)
        b = a + pos(rng) / 4
        h = pos(rng)
        return (lambda: SE.spacetime_evaluated_1(Q(t), Q(a), Q(b), Q(h))), [t, a, b, h]
    if name == 'steval_2':
        t, a = rq(rng), rq(rng, 0, 2)
        b = a + pos(rng) / 4
        h = pos(rng)
        k = h + pos(rng)
        return (lambda: SE.spacetime_evaluated_2(Q(t), Q(a), Q(b), Q(h), Q(k))), [t, a, b, h, k]
    if name == 'ip_tik':
        a = rng.choice([F(0), pos(rng) / 4])
        b = a + pos(rng) / 4
        s = pos(rng)
        return (lambda: IP.time_integrated_kernel(Q(a) if a != 0 else 0, Q(b))(Q(s))), [a, b, s]
    raise KeyError(name)


def validate(res, rng, names, n_per_fun):
    """Returns a list of disagreement records (empty = translator agrees with the running code)."""
    lines, expect, meta = [], [], []
    for name in names:
        for i in range(n_per_fun):
            S = StandIns(rng)
            thunk, args = cases(rng, name)
            with installed(S):
                try:
                    val = thunk()
                except AssertionError:
                    val = 'assert'
                except ZeroDivisionError:
                    val = 'assert'
            if isinstance(val, np.ndarray):
                val = val.item() if val.size == 1 else val
            lines.append('fm %s %s %s' % (name, S.encode(), ','.join(q2s(a) for a in args)))
            expect.append(val if isinstance(val, str) else q2s(val))
            meta.append((name, args))
    out = run_driver(lines)
    bad = []
    for line, want, got, (name, args) in zip(lines, expect, out, meta):
        res.count(('formula', name, tuple(args)), want != '0')
        res.bump('formula_' + name)
        if want != got and want != 'assert':
            bad.append(dict(function=name, args=[q2s(a) for a in args], python=want[:200], model=got[:200], line=line[:400]))
    return bad
