"""Exact-arithmetic fixture for `src.single_layer.SingleLayerOperator`: the REAL bilform / __integrate /
evaluate / evaluate_exact / potential run on `Q` numbers with rational stand-in special functions, exact affine
curve pieces and a rational stand-in log rule; the same requests are sent to the Lean model."""
from fractions import Fraction as F

import numpy as np

from .common import q2s
from .exact import enc_rule1, farr, rand_rule
from .qnum import Q, StandIns

EPS10 = F(1e-10)
MINSIZE = F(1e-8)
RELTOL = F(1e-9)
ONEPLUS = F(1 + 1e-10)
ONEMINUS = F(1 - 1e-10)


def qarr(xs):
    a = np.empty(len(xs), dtype=object)
    for i, x in enumerate(xs):
        a[i] = Q(x)
    return a


class Piece:
    """gamma(x) = p + (x - start) * d, exactly; same call interface as parametrization.line()."""
    def __init__(self, start, p, d):
        self.start, self.p, self.d = F(start), (F(p[0]), F(p[1])), (F(d[0]), F(d[1]))
        self._p = np.empty((2, 1), dtype=object)
        self._d = np.empty((2, 1), dtype=object)
        self._p[0, 0], self._p[1, 0] = Q(p[0]), Q(p[1])
        self._d[0, 0], self._d[1, 0] = Q(d[0]), Q(d[1])

    def __call__(self, x_hat):
        return (x_hat - Q(self.start)) * self._d + self._p

    def encode(self):
        return ':'.join(q2s(v) for v in (self.start, self.p[0], self.p[1], self.d[0], self.d[1]))


def polygon_pieces(vertices):
    """Axis-parallel closed/open polygon given by integer/rational vertices -> pieces and their starts."""
    pieces, starts, s = [], [F(0)], F(0)
    for a, b in zip(vertices[:-1], vertices[1:]):
        dx, dy = F(b[0]) - F(a[0]), F(b[1]) - F(a[1])
        assert (dx == 0) != (dy == 0), 'axis-parallel pieces only'
        length = abs(dx) + abs(dy)
        pieces.append(Piece(s, a, (dx / length, dy / length)))
        s += length
        starts.append(s)
    return pieces, starts


CURVES = {
    'unitsquare': ([(0, 0), (1, 0), (1, 1), (0, 1), (0, 0)], True),
    'lshape': ([(0, 0), (0, -1), (1, -1), (1, 1), (-1, 1), (-1, 0), (0, 0)], True),
    'interval': ([(0, 0), (1, 0)], False),
    'rect32': ([(0, 0), (3, 0), (3, 2), (0, 2), (0, 0)], True),
}


class Elem:
    """Element stub with exactly the attributes the operator reads."""
    def __init__(self, t0, t1, x0, x1, piece_idx, gamma):
        self.time_interval = (Q(t0), Q(t1))
        self.space_interval = (Q(x0), Q(x1))
        self.gamma_space = gamma
        self.piece_idx = piece_idx
        self.h_t = Q(t1) - Q(t0)
        self.h_x = Q(x1) - Q(x0)

    def encode(self):
        return ':'.join([q2s(self.time_interval[0]), q2s(self.time_interval[1]), q2s(self.space_interval[0]),
                         q2s(self.space_interval[1]), str(self.piece_idx)])

    def __repr__(self):
        return 'Elem(t=%s, x=%s)' % (tuple(str(v.v) for v in self.time_interval), tuple(str(v.v) for v in self.space_interval))


class Fixture:
    def __init__(self, rng, curve='unitsquare', pw_exact=False, log_nodes=None, laws=False):
        from src import quadrature as Qd
        from src.single_layer import SingleLayerOperator
        verts, closed = CURVES[curve]
        self.curve = curve
        self.pieces, self.starts = polygon_pieces(verts)
        self.closed = closed
        self.length = self.starts[-1]
        self.standins = StandIns(rng, laws=laws)
        px, wx = rand_rule(rng, n=log_nodes or rng.randint(1, 3))
        self.log_pts, self.log_wts = px, wx
        gx, gw = rand_rule(rng, n=rng.randint(1, 3))
        self.gauss_pts, self.gauss_wts = gx, gw
        # the operator is built by its REAL constructor (so that refactorings of __init__ are followed); only the rule
        # constructors it calls are replaced by the rational stand-in rules, and the mesh is a stub with the attributes
        # the constructor reads
        import types
        import src.single_layer as SLmod
        log_rule = Qd.QuadScheme1D(farr(px), farr(wx))
        gauss_rule = Qd.QuadScheme1D(farr(gx), farr(gw))
        stub_mesh = types.SimpleNamespace(gamma_space=types.SimpleNamespace(gamma_length=Q(self.length)),
                                          glue_space=closed, leaf_elements=[])
        saved = (SLmod.log_quadrature_scheme, SLmod.gauss_quadrature_scheme)
        SLmod.log_quadrature_scheme = lambda *a, **k: log_rule
        SLmod.gauss_quadrature_scheme = lambda *a, **k: gauss_rule
        try:
            SL = SingleLayerOperator(stub_mesh, pw_exact=pw_exact)
        finally:
            SLmod.log_quadrature_scheme, SLmod.gauss_quadrature_scheme = saved
        self.SL = SL
        self.pw_exact = pw_exact

    def context_lines(self):
        return ['sl cfg %d %s %s %s %s %s %s' % (self.closed, q2s(self.length), q2s(EPS10), q2s(MINSIZE), q2s(RELTOL),
                                                  q2s(ONEPLUS), q2s(ONEMINUS)),
                'sl fns ' + self.standins.encode(),
                'sl log ' + enc_rule1(self.log_pts, self.log_wts),
                'sl gauss ' + enc_rule1(self.gauss_pts, self.gauss_wts),
                'sl pieces ' + ' '.join(p.encode() for p in self.pieces)]

    def piece_index(self, x0):
        for i in range(len(self.pieces)):
            if self.starts[i] <= x0 < self.starts[i + 1]:
                return i
        raise ValueError(x0)

    def elem(self, t0, t1, x0, x1):
        i = self.piece_index(F(x0))
        return Elem(t0, t1, x0, x1, i, self.pieces[i])

    def gamma(self, x_hat):
        """Point on the curve as a (2,1) array of Q (first matching piece, end point -> last piece)."""
        x_hat = F(x_hat)
        for i in range(len(self.pieces)):
            if self.starts[i] <= x_hat <= self.starts[i + 1]:
                return self.pieces[i](Q(x_hat)), i
        raise ValueError(x_hat)


def result_str(v):
    if isinstance(v, np.ndarray):
        v = v.item()
    return q2s(v)


def random_space_intervals(rng, fx, n):
    """Dyadic sub-intervals of the pieces, levels 0..3, from which pairs in all relative positions arise."""
    out = []
    for _ in range(n):
        i = rng.randrange(len(fx.pieces))
        L = fx.starts[i + 1] - fx.starts[i]
        lvl = rng.randint(0, 3)
        k = rng.randrange(2**lvl)
        out.append((fx.starts[i] + L * F(k, 2**lvl), fx.starts[i] + L * F(k + 1, 2**lvl)))
    # always include intervals at the two ends of the parametrisation (seam of a closed curve) and a corner pair
    l0, l1 = rng.randint(0, 2), rng.randint(0, 2)
    L0, L1 = fx.starts[1] - fx.starts[0], fx.starts[-1] - fx.starts[-2]
    out.append((fx.starts[0], fx.starts[0] + L0 / 2**l0))
    out.append((fx.starts[-1] - L1 / 2**l1, fx.starts[-1]))
    if len(fx.starts) > 2:
        out.append((fx.starts[1] - L0 / 2**l1, fx.starts[1]))
        out.append((fx.starts[1], fx.starts[1] + (fx.starts[2] - fx.starts[1]) / 2**l0))
    return out


TIME_LATTICE = [(F(0), F(1)), (F(0), F(1, 2)), (F(1, 2), F(1)), (F(1, 4), F(1, 2)), (F(1, 2), F(3, 4)), (F(0), F(1, 4)),
                (F(1), F(2)), (F(1, 4), F(3, 4)), (F(3, 8), F(1, 2)), (F(3, 2), F(2))]


def classify_space(fx, a, b):
    """Relative position class of two space intervals (for coverage statistics)."""
    (a0, a1), (b0, b1) = a, b
    if (a0, a1) == (b0, b1):
        return 'identical'
    if a0 <= b0 and b1 <= a1 or b0 <= a0 and a1 <= b1:
        return 'nested'
    if a1 == b0 or b1 == a0:
        return 'touching'
    if fx.closed and ((a0 == 0 and b1 == fx.length) or (b0 == 0 and a1 == fx.length)):
        return 'seam-touching'
    if max(a0, b0) < min(a1, b1):
        return 'overlapping'
    lo, hi = (a, b) if a0 < b0 else (b, a)
    direct = hi[0] - lo[1]
    through = fx.length - hi[1] + lo[0]
    if fx.closed and through < direct:
        return 'disjoint-nearer-through-seam'
    return 'disjoint'


def classify_time(test, trial):
    (a, b), (c, d) = test, trial
    if b <= c:
        return 'acausal-touching' if b == c else 'acausal'
    if (a, b) == (c, d):
        return 'equal'
    if a >= d:
        return 'separated-after' if a > d else 'touching-after'
    return 'overlapping'
