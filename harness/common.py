"""Shared infrastructure of the stbem verification checks.

Everything a per-property check needs: paths, the Lean build (under a lock), the axiom audit,
the line-protocol driver, violation/replay/evidence writers and the known-findings file.
"""
import contextlib
import fcntl
import json
import os
import random
import re
import subprocess
import sys
import time
from fractions import Fraction

VERIF = os.path.dirname(os.path.dirname(os.path.abspath(__file__)))
REPO = os.environ.get('STBEM_REPO', '/repo')
LEAN = os.path.join(VERIF, 'lean')
EVID = os.path.join(VERIF, 'evidence')
REPLAYS = os.path.join(VERIF, 'replays')
DRIVER = os.path.join(LEAN, '.lake', 'build', 'bin', 'stbem-driver')
ALLOWED_AXIOMS = {'propext', 'Classical.choice', 'Quot.sound'}
FORBIDDEN = re.compile(r'\b(sorry|admit|native_decide|bv_decide|implemented_by)\b|^\s*axiom\s|\bunsafe\s|maxHeartbeats\s+0\b')

if REPO not in sys.path:
    sys.path.insert(0, REPO)


# ------------------------------------------------------------------------------------------------
# rationals on the wire
def q2s(x):
    """Render an exact number as `p/q` (or `p`)."""
    if hasattr(x, 'item') and not isinstance(x, Fraction):
        x = x.item()
    if hasattr(x, 'v'):  # Q numbers
        x = x.v
    if isinstance(x, bool):
        x = int(x)
    if isinstance(x, int):
        return str(x)
    if isinstance(x, float):
        x = Fraction(x)
    if isinstance(x, Fraction):
        return str(x.numerator) if x.denominator == 1 else '%d/%d' % (x.numerator, x.denominator)
    raise TypeError('not exact: %r' % (x, ))


def s2q(s):
    return Fraction(s)


# ------------------------------------------------------------------------------------------------
@contextlib.contextmanager
def lake_lock():
    os.makedirs(os.path.join(LEAN, '.lake'), exist_ok=True)
    with open(os.path.join(LEAN, '.lake', 'verif.lock'), 'w') as fh:
        fcntl.flock(fh, fcntl.LOCK_EX)
        try:
            yield
        finally:
            fcntl.flock(fh, fcntl.LOCK_UN)


def write_if_changed(path, text):
    try:
        with open(path) as fh:
            if fh.read() == text:
                return False
    except FileNotFoundError:
        pass
    os.makedirs(os.path.dirname(path), exist_ok=True)
    tmp = path + '.tmp%d' % os.getpid()
    with open(tmp, 'w') as fh:
        fh.write(text)
    os.replace(tmp, path)
    return True


def lake_build(targets, timeout=3000):
    """Builds the given lake targets. Returns (ok, output)."""
    with lake_lock():
        p = subprocess.run(['lake', 'build'] + list(targets), cwd=LEAN, stdout=subprocess.PIPE,
                           stderr=subprocess.STDOUT, text=True, timeout=timeout)
    return p.returncode == 0, p.stdout


def strip_comments(src):
    """Removes Lean comments (nested block comments and line comments) and string literals."""
    out = []
    i, n, depth = 0, len(src), 0
    while i < n:
        if src.startswith('/-', i):
            depth += 1
            i += 2
        elif depth and src.startswith('-/', i):
            depth -= 1
            i += 2
        elif depth:
            if src[i] == '\n':
                out.append('\n')
            i += 1
        elif src.startswith('--', i):
            while i < n and src[i] != '\n':
                i += 1
        elif src[i] == '"':
            i += 1
            while i < n and src[i] != '"':
                i += 2 if src[i] == '\\' else 1
            i += 1
            out.append('""')
        else:
            out.append(src[i])
            i += 1
    return ''.join(out)


def module_file(mod):
    return os.path.join(LEAN, *mod.split('.')) + '.lean'


def local_imports(mod, seen=None):
    """Transitive closure of the Stbem.* imports of a module."""
    if seen is None:
        seen = []
    if mod in seen:
        return seen
    seen.append(mod)
    try:
        src = strip_comments(open(module_file(mod)).read())
    except FileNotFoundError:
        return seen
    for m in re.findall(r'^import\s+(Stbem\.[\w.]+)', src, re.M):
        local_imports(m, seen)
    return seen


def theorem_names(mod):
    src = strip_comments(open(module_file(mod)).read())
    names = []
    ns = []
    for line in src.splitlines():
        m = re.match(r'\s*namespace\s+([\w.]+)', line)
        if m:
            ns.append(m.group(1))
            continue
        m = re.match(r'\s*end\s+([\w.]+)\s*$', line)
        if m and ns and ns[-1] == m.group(1):
            ns.pop()
            continue
        m = re.match(r'\s*(?:@\[[^\]]*\]\s*)?(?:protected\s+|private\s+)?theorem\s+([\w.\']+)', line)
        if m:
            names.append('.'.join(ns + [m.group(1)]))
            continue
        m = re.match(r'\s*alias\s+([\w.\']+)\s*:=', line)
        if m:
            names.append('.'.join(ns + [m.group(1)]))
    return names


def audit(prop_mods):
    """Source audit + `#print axioms` for every theorem of the given property modules.

    Returns dict(ok, obligations, discharged, problems, theorems{name: axioms})."""
    problems = []
    mods = []
    for pm in prop_mods:
        local_imports(pm, mods)
    for m in mods:
        try:
            src = strip_comments(open(module_file(m)).read())
        except FileNotFoundError:
            problems.append('missing module %s' % m)
            continue
        for ln, line in enumerate(src.splitlines(), 1):
            if FORBIDDEN.search(line):
                problems.append('%s:%d forbidden construct: %s' % (m, ln, line.strip()[:80]))
    names = []
    for pm in prop_mods:
        names += theorem_names(pm)
    tmp = os.path.join(LEAN, '.lake', 'audit_%d.lean' % os.getpid())
    body = ''.join('import %s\n' % pm for pm in prop_mods)
    body += ''.join('#print axioms %s\n' % n for n in names)
    with open(tmp, 'w') as fh:
        fh.write(body)
    try:
        p = subprocess.run(['lake', 'env', 'lean', tmp], cwd=LEAN, stdout=subprocess.PIPE,
                           stderr=subprocess.STDOUT, text=True, timeout=1800)
    finally:
        os.unlink(tmp)
    out = p.stdout
    thms = {}
    # (names may end in primes: 'Ns.thm'' depends on axioms ...)
    for m in re.finditer(r"'(\S+?)' (does not depend on any axioms|depends on axioms: \[([^\]]*)\])", out):
        ax = [a.strip() for a in (m.group(3) or '').replace('\n', ' ').split(',') if a.strip()]
        thms[m.group(1)] = ax
    discharged = 0
    for n in names:
        if n not in thms:
            problems.append('theorem %s: no axiom report (%s)' % (n, out.strip()[:300].replace('\n', ' | ')))
            continue
        bad = [a for a in thms[n] if a not in ALLOWED_AXIOMS]
        if bad:
            problems.append('theorem %s depends on inadmissible axioms %s' % (n, bad))
        else:
            discharged += 1
    return dict(ok=not problems, obligations=len(names), discharged=discharged, problems=problems,
                theorems=thms, modules=mods)


# ------------------------------------------------------------------------------------------------
def run_driver(lines, timeout=3000):
    """Pipes protocol lines to the Lean driver; returns the list of output lines."""
    if not os.path.exists(DRIVER):
        raise RuntimeError('driver not built')
    inp = '\n'.join(lines) + '\n'
    p = subprocess.run([DRIVER], input=inp, stdout=subprocess.PIPE, stderr=subprocess.PIPE, text=True,
                       timeout=timeout)
    if p.returncode != 0:
        raise RuntimeError('driver failed: ' + p.stderr[:500])
    return p.stdout.splitlines()


# ------------------------------------------------------------------------------------------------
class Result:
    """Collects what one check run did; writes evidence and prints the verdict lines."""
    def __init__(self, pid, tier, seed, level='proof'):
        self.pid, self.tier, self.seed, self.level = pid, tier, seed, level
        self.t0 = time.time()
        self.violations = []  # (replay_path, tail)
        self.known_hits = []
        self.coverage = dict(evaluations=0, distinct_nontrivial=0, rule='', samples=[], obligations=0,
                             discharged=0, checker_cmd='', trusted_base=[])
        self.assumptions = []
        self.broken = []  # descriptions of broken obligations / correspondences
        self.notes = {}
        self._distinct = set()
        known = json.load(open(os.path.join(VERIF, 'known_findings.json')))
        self.known = [k for k in known['findings'] if k['property'] == pid and k['status'] == 'known']

    def count(self, key=None, nontrivial=True, n=1):
        self.coverage['evaluations'] += n
        if nontrivial and key is not None and key not in self._distinct:
            self._distinct.add(key)
            self.coverage['distinct_nontrivial'] = len(self._distinct)

    def sample(self, s, limit=8):
        if len(self.coverage['samples']) < limit:
            self.coverage['samples'].append(s)

    def bump(self, name, n=1):
        self.notes[name] = self.notes.get(name, 0) + n

    def known_match(self, key):
        for k in self.known:
            if k['key'] == key or (k.get('key_prefix') and key.startswith(k['key_prefix'])):
                return k
        return None

    def violation(self, key, data, no_input=False):
        """Reports a violation identified by `key` (checked against the known-findings file)."""
        k = self.known_match(key)
        if k is not None:
            if k['key'] not in [h['key'] for h in self.known_hits]:
                self.known_hits.append(k)
                # sys.__stdout__: verdict lines must not be swallowed by a redirect_stdout that silences the repo's chatter
                print('KNOWN-FINDING: property=%s %s' % (self.pid, k['what']), file=sys.__stdout__, flush=True)
            return
        if len(self.violations) >= 20:
            return
        os.makedirs(REPLAYS, exist_ok=True)
        safe = re.sub(r'[^A-Za-z0-9_.-]+', '_', key)[:80]
        path = os.path.join(REPLAYS, '%s_%s_%d.json' % (self.pid, safe, len(self.violations)))
        rec = dict(property=self.pid, key=key, seed=self.seed, tier=self.tier, data=data,
                   replay_cmd='VERIF_SEED=%d ./check %s --tier %s' % (self.seed, self.pid, self.tier))
        with open(path, 'w') as fh:
            json.dump(rec, fh, indent=1, default=str)
        self.violations.append(path)
        print('VIOLATION property=%s replay=%s%s' % (self.pid, path, ' no-failing-input-found' if no_input else ''),
              file=sys.__stdout__, flush=True)

    def broken_obligation(self, what, detail):
        self.broken.append(dict(what=what, detail=detail[:4000]))

    def finish(self):
        cov = self.coverage
        cov.update(self.notes)
        if self.broken:
            cov['broken'] = self.broken
        cov['known_findings_reproduced'] = [k['key'] for k in self.known_hits]
        if cov['obligations'] == 0:
            cov.pop('obligations'), cov.pop('discharged')
        elif cov['discharged'] == 0:
            # nothing could be discharged (the build broke): the proof keys of the evidence schema do not apply;
            # the exploration counts of the correspondence / search stand instead
            cov['obligations_not_discharged'] = cov.pop('obligations')
            cov.pop('discharged')
        if not cov['samples']:
            cov['samples'] = [dict(note='no sample recorded (the run ended before the correspondence produced one)')]
        cov['evaluations'] = max(cov['evaluations'], 1)
        ev = dict(property_id=self.pid, tier=self.tier, seed=self.seed, level=self.level, coverage=cov,
                  assumptions=self.assumptions, wall_s=round(time.time() - self.t0, 2),
                  violations=len(self.violations))
        os.makedirs(EVID, exist_ok=True)
        with open(os.path.join(EVID, '%s.json' % self.pid), 'w') as fh:
            json.dump(ev, fh, indent=1, default=str)
        return 1 if self.violations else 0


def seed_rng(seed, salt=''):
    return random.Random('%s/%s' % (seed, salt))


def silence_stdout():
    """Context manager silencing the repo's print chatter."""
    return contextlib.redirect_stdout(open(os.devnull, 'w'))
