"""History generators for the boundary mesh and the lock-step comparison with the Lean model."""
from fractions import Fraction as F

import numpy as np

from .common import q2s, run_driver
from .meshlib import PyMesh, canon, dump_leaves, dump_mesh, enc, oracle_mesh

# the repaired refine_grading skips elements that are no longer leaves (fix: commit in /repo); the model is run
# in the same mode
GRADING_FIXED = 1

INITIAL_GRIDS = [
    # (glue, X, T)
    (0, [F(0), F(1)], [F(0), F(1)]),
    (1, [F(0), F(1)], [F(0), F(1)]),
    (0, [F(0), F(1, 3), F(1)], [F(0), F(1)]),
    (1, [F(0), F(1, 3), F(1)], [F(0), F(1), F(3)]),
    (1, [F(0), F(1), F(2), F(3), F(4)], [F(0), F(1)]),
    (0, [F(0), F(1), F(3), F(4)], [F(0), F(1, 2), F(1)]),
    (1, [F(0), F(1), F(2), F(3)], [F(0), F(1, 3), F(2, 3), F(1)]),
    (1, [F(0), F(1), F(2)], [F(0), F(2)]),
    (0, [F(0), F(1), F(2), F(3)], [F(0), F(1), F(2), F(3)]),
    # grids that do not start at 0 / have 0 as an interior grid line (time grids of a restart, shifted open curves)
    (1, [F(0), F(1), F(2)], [F(1), F(2)]),
    (1, [F(0), F(1), F(2), F(3)], [F(-1), F(0), F(1)]),
    (0, [F(1), F(2), F(4)], [F(1), F(3, 2), F(2)]),
    (0, [F(-1), F(0), F(1)], [F(0), F(1)]),
]

THETAS = [F(1, 16), F(1, 4), F(1, 2), F(3, 4), F(7, 8), F(15, 16)]


def op_line(op):
    k = op[0]
    if k in ('rt', 'rs', 'rb'):
        return 'mesh %s %d' % (k, op[1])
    if k in ('unif', 'unifs'):
        return 'mesh ' + k
    if k == 'diso':
        return 'mesh diso %s %s %s' % (q2s(F(op[2])), ','.join(str(i) for i in op[3]), enc(F(v) for v in op[1]))
    if k == 'daniso':
        return 'mesh daniso %s %s %s' % (q2s(F(op[2])), enc(F(v) for v in op[1][:, 0]), enc(F(v) for v in op[1][:, 1]))
    if k == 'grade':
        p, q = {1: (1, 1), 2: (2, 1), 1.5: (3, 2)}[op[1]]
        return 'mesh grade %d %d %d %s %d' % (GRADING_FIXED, p, q, q2s(F(op[2])), 200)
    raise ValueError(op)


def op_json(op):
    out = []
    for v in op:
        if isinstance(v, np.ndarray):
            out.append(v.tolist())
        elif isinstance(v, F):
            out.append(q2s(v))
        else:
            out.append(v)
    return out


def random_indicators(rng, n, aniso=False):
    """Indicator vectors with exactly representable partial sums: integers scaled by a power of two."""
    mode = rng.choice(['rand', 'ties', 'zeros', 'dominant', 'allzero', 'equal'])
    m = 2 * n if aniso else n
    if mode == 'rand':
        v = [rng.randint(0, 1000) for _ in range(m)]
    elif mode == 'ties':
        v = [rng.choice([1, 2, 3]) for _ in range(m)]
    elif mode == 'zeros':
        v = [rng.choice([0, 0, 0, 5, 9]) for _ in range(m)]
    elif mode == 'dominant':
        v = [rng.randint(0, 3) for _ in range(m)]
        v[rng.randrange(m)] = 100000
    elif mode == 'allzero':
        v = [0] * m
    else:
        v = [7] * m
    scale = 2.0**rng.choice([0, -3, -10, -40, -70])   # small magnitudes: absolute tolerances must play no role
    arr = np.array(v, dtype=float) * scale
    return arr.reshape(2, n).T.copy() if aniso else arr


def near_miss_indicators(rng, n, theta, aniso=False):
    """Exactly representable indicators whose largest entry stays just (relative ~1e-6) below theta^2 * total, so
    that the shortest admissible prefix has two entries."""
    from fractions import Fraction
    m = 2 * n if aniso else n
    th2 = Fraction(theta)**2
    if m < 3 or not (0 < th2 < 1):
        return None
    rest = [rng.randint(1000, 3000) * 1000 for _ in range(m - 1)]
    R = sum(rest)
    v = int(th2 * R / (1 - th2))          # v <= th2 (v + R)
    while v >= th2 * (v + R):
        v -= 1
    if v <= max(rest):
        return None
    vals = rest + [v]
    rng.shuffle(vals)
    arr = np.array(vals, dtype=float) * 2.0**rng.choice([0, -20])
    return arr.reshape(2, n).T.copy() if aniso else arr


def random_op(rng, pm, kinds, bias=0.5):
    leaves = list(pm.mesh.leaf_elements)
    kind = rng.choice(kinds)
    if kind in ('unif', 'unifs') and len(leaves) > 60:
        kind = 'rb'
    if kind == 'grade':
        # grading multiplies the number of elements by up to 2^(sigma*lx); keep the result small
        sigma = rng.choice([1, 2, 2, 1.5])
        mlx = max(e.levels[1] for e in leaves)
        mlt = max(e.levels[0] for e in leaves)
        if mlx > {1: 5, 1.5: 3, 2: 2}[sigma] or mlt > 6 or len(leaves) > 150:
            kind = 'rt'
        else:
            return ('grade', sigma, 4)
    if kind in ('rt', 'rs', 'rb'):
        if kind != 'rb':
            kind = 'rt' if rng.random() < bias else 'rs'
        # prefer deep / shallow leaves at random to create closure chains
        e = rng.choice(leaves)
        if rng.random() < 0.5:
            cand = rng.sample(leaves, min(4, len(leaves)))
            e = max(cand, key=lambda c: c.levels[0] + c.levels[1])
        return (kind, e.glob_idx)
    if kind in ('unif', 'unifs'):
        return (kind, )
    if kind == 'diso':
        eta = random_indicators(rng, len(leaves))
        theta = float(rng.choice(THETAS))
        perm = [int(i) for i in reversed(np.argsort(eta))]
        return ('diso', eta, theta, perm)
    if kind == 'daniso':
        eta = random_indicators(rng, len(leaves), aniso=True)
        return ('daniso', eta, float(rng.choice(THETAS)))
    raise ValueError(kind)


class Batch:
    """Collects histories, runs the model once over all of them, reports the first disagreement."""
    def __init__(self, generated=False):
        # generated=True: every `mesh …` request is put to the definitions regenerated from src/mesh.py as well
        # (`gmesh …`, Driver/GMeshCmd.lean, harness/meshops_tie.py) and must get the same answer
        self.generated = generated
        self.n_generated = 0
        self.lines = []
        self.expect = []
        self.where = []  # (history index, op index)
        self.histories = []

    def add_history(self, glue, X, T, ops_fn, full_dump_every=1, final_oracle=True):
        """ops_fn(pm, k) -> op or None; executes the real mesh, records the model lines.

        Returns (pm, ops, status) where status is 'ok' or 'err' (the real code raised)."""
        pm = PyMesh.create(glue, X, T)
        h = len(self.histories)
        ops = []
        self.lines.append('mesh init %d %s %s' % (glue, enc(X), enc(T)))
        self.expect.append('ok %d' % len(pm.mesh.leaf_elements))
        self.where.append((h, -1))
        self.lines.append('mesh dump')
        self.expect.append(dump_mesh(pm.mesh))
        self.where.append((h, -1))
        status = 'ok'
        k = 0
        while True:
            op = ops_fn(pm, k)
            if op is None:
                break
            ops.append(op)
            out = pm.apply(op)
            self.lines.append(op_line(op))
            self.expect.append(canon(out))
            self.where.append((h, k))
            if out.startswith('err'):
                status = 'err'
                break
            if full_dump_every and (k + 1) % full_dump_every == 0:
                self.lines.append('mesh dump')
                self.expect.append(dump_mesh(pm.mesh))
            else:
                self.lines.append('mesh leaves')
                self.expect.append(dump_leaves(pm.mesh))
            self.where.append((h, k))
            k += 1
        if status == 'ok' and not (full_dump_every and k % full_dump_every == 0):
            self.lines.append('mesh dump')
            self.expect.append(dump_mesh(pm.mesh))
            self.where.append((h, k - 1))
        self.histories.append(dict(glue=glue, X=[q2s(x) for x in X], T=[q2s(t) for t in T],
                                   ops=[op_json(o) for o in ops], status=status))
        return pm, ops, status

    def add_interleaved(self, specs, rng, full_dump_every=1):
        """Several meshes alive in ONE process, their operations interleaved at random (state shared between Mesh
        objects - class attributes, module-level memos, counters - would show); every mesh is compared with its own
        run of the (pure) model.  specs: list of (glue, X, T, ops_fn).  Returns [(pm, ops, status)]."""
        runs = []
        for glue, X, T, ops_fn in specs:
            runs.append(dict(pm=None, glue=glue, X=X, T=T, fn=ops_fn, ops=[], buf=None, status='ok', k=0, done=False))

        def create(r):
            # meshes are constructed at different moments: the first one at once, the others when their turn first
            # comes (a constructor that resets state shared with an older, already refined mesh would show)
            r['pm'] = PyMesh.create(r['glue'], r['X'], r['T'])
            r['buf'] = [('mesh init %d %s %s' % (r['glue'], enc(r['X']), enc(r['T'])), 'ok %d' % len(r['pm'].mesh.leaf_elements), -1),
                        ('mesh dump', dump_mesh(r['pm'].mesh), -1)]
        create(runs[0])
        while any(not r['done'] for r in runs):
            started = [r for r in runs if not r['done'] and r['pm'] is not None]
            fresh = [r for r in runs if r['pm'] is None]
            if fresh and (not started or rng.random() < 0.12):
                create(fresh[0])
                continue
            r = rng.choice(started)
            op = r['fn'](r['pm'], r['k'])
            if op is None:
                r['done'] = True
                continue
            r['ops'].append(op)
            out = r['pm'].apply(op)
            r['buf'].append((op_line(op), canon(out), r['k']))
            if out.startswith('err'):
                r['status'] = 'err'
                r['done'] = True
                continue
            if full_dump_every and (r['k'] + 1) % full_dump_every == 0:
                r['buf'].append(('mesh dump', dump_mesh(r['pm'].mesh), r['k']))
            else:
                r['buf'].append(('mesh leaves', dump_leaves(r['pm'].mesh), r['k']))
            r['k'] += 1
        out = []
        for r in runs:
            h = len(self.histories)
            if r['status'] == 'ok':
                r['buf'].append(('mesh dump', dump_mesh(r['pm'].mesh), r['k'] - 1))
            for line, want, k in r['buf']:
                self.lines.append(line)
                self.expect.append(want)
                self.where.append((h, k))
            self.histories.append(dict(glue=r['glue'], X=[q2s(x) for x in r['X']], T=[q2s(t) for t in r['T']],
                                       ops=[op_json(o) for o in r['ops']], status=r['status'],
                                       interleaved_with=len(runs) - 1))
            out.append((r['pm'], r['ops'], r['status']))
        return out

    def run(self):
        """Returns None if model and code agree everywhere, else a dict describing the first disagreement."""
        if not self.lines:
            return None
        twins, origin = [], []
        if self.generated:
            from .meshops_tie import generated_twins
            twins, origin = generated_twins(self.lines)
        out = run_driver(self.lines + twins)
        if len(out) != len(self.lines) + len(twins):
            return dict(kind='driver-output-length', got=len(out), want=len(self.lines) + len(twins))
        for i, (line, want, got) in enumerate(zip(self.lines, self.expect, out)):
            if canon(got) != want:
                h, k = self.where[i]
                return dict(kind='disagreement', history=self.histories[h], op_index=k, line=line[:300],
                            python=want[:3000], model=got[:3000])
        for j, (line, got) in enumerate(zip(twins, out[len(self.lines):])):
            i = origin[j]
            if canon(got) != self.expect[i]:
                h, k = self.where[i]
                return dict(kind='disagreement-generated', history=self.histories[h], op_index=k, line=line[:300],
                            python=self.expect[i][:3000], generated_model=got[:3000])
        self.n_generated = len(twins)
        return None


def enumerate_histories(glue, X, T, depth, kinds=('rt', 'rs')):
    """All maximal sequences of single-axis bisections of length `depth` (every shorter sequence is a prefix of
    one of them and is checked by the per-operation dumps)."""
    def rec(prefix):
        if len(prefix) == depth:
            yield prefix
            return
        pm = PyMesh.create(glue, X, T)
        for op in prefix:
            if pm.apply(op).startswith('err'):
                yield prefix
                return
        ids = [e.glob_idx for e in pm.mesh.leaf_elements]
        for gid in ids:
            for k in kinds:
                yield from rec(prefix + [(k, gid)])
    yield from rec([])


def deep_histories(rng, n, depth):
    """Float-coordinate histories that refine towards one point of the cylinder (corner, seam, final time) to a large
    depth: yields (glue, X, T, ops-callable) where ops-callable(pm) performs the refinements on a PyMesh.  Exercises
    tolerance-based logic that only bites at small element sizes."""
    for i in range(n):
        glue = rng.choice([1, 1, 0])
        X = rng.choice([[0.0, 1.0], [0.0, 0.5, 1.0], [0.0, 1.0, 2.0, 3.0, 4.0]])
        T = rng.choice([[0.0, 1.0], [0.0, 1.0, 2.0]])
        if i % 3 == 1:
            # the same geometry at a small scale (a square of side 2^-6, final time 2^-12 ...): absolute constants hidden
            # in the code (tolerances, rounding of keys) stop being harmless; dyadic factors keep the arithmetic exact
            sx, st = 2.0**-rng.choice([5, 6, 8]), 2.0**-rng.choice([10, 12, 14])
            X, T = [x * sx for x in X], [t * st for t in T]
        tt = rng.choice([T[0], T[-1], T[-1], (T[0] + T[-1]) / 2])
        xx = rng.choice([X[0], X[-1], X[len(X) // 2]])
        mode = rng.choice(['t', 't', 's', 'ts'])

        def run(pm, tt=tt, xx=xx, mode=mode, X=X, glue=glue):
            ops = []
            for d in range(depth):
                # leaves touching the target point (closed rectangles; on a closed curve x=0 and x=L are the same point)
                cand = []
                for e in pm.mesh.leaf_elements:
                    t0, t1 = e.time_interval
                    x0, x1 = e.space_interval
                    hit_x = x0 <= xx <= x1 or (glue and ((xx == X[0] and x1 == X[-1]) or (xx == X[-1] and x0 == X[0])))
                    if t0 <= tt <= t1 and hit_x:
                        cand.append(e)
                if not cand:
                    break
                for e in cand:
                    if e.children:
                        continue
                    kinds = ['rt'] if mode == 't' else ['rs'] if mode == 's' else ['rt', 'rs'][d % 2:d % 2 + 1]
                    for k in kinds:
                        op = (k, e.glob_idx)
                        ops.append(op)
                        if pm.apply(op).startswith('err'):
                            return ops, 'err'
                if len(pm.mesh.leaf_elements) > 400:
                    break
            return ops, 'ok'
        yield glue, X, T, run
