"""Exact numbers for running formula code of /repo in rational arithmetic.

`Q` wraps a Fraction; special functions are rational stand-ins `(p0 + p1 u + p2 u^2)/(q0 + u^2)` (no real
poles), installed by monkey-patching the module-level names of the code under test in the harness process only.
Two programs that agree as rational functions of their inputs *and* of the stand-ins on random points compute
the same expression (black-box polynomial identity testing)."""
import contextlib
from fractions import Fraction as F

import numpy as np

from .common import q2s

FUN_NAMES = ['exp', 'sqrt', 'erf', 'erfc', 'ei', 'e1', 'pow32']
CONST_NAMES = ['pi', 'fpiInv', 'piSqrt', 'hpiInv']


class StandIns:
    """Random rational stand-ins (p0 + p1 u + p2 u^2)/(q0 + u^2), strictly positive (p1^2 < 4 p0 p2) so that the code
    under test never divides by zero.  With laws=True the algebraic laws the closed forms rely on hold exactly:
    erf odd, erfc = 1 - erf, FPI_INV = 1/(4 pi), HPI_INV = 1/(192 pi)."""
    def __init__(self, rng, laws=False):
        self.funs = {}
        for n in FUN_NAMES:
            while True:
                p0 = F(rng.randint(1, 9), rng.randint(1, 5))
                p2 = F(rng.randint(1, 9), rng.randint(1, 5))
                p1 = F(rng.randint(-9, 9), rng.randint(1, 5))
                if p1 * p1 < 4 * p0 * p2:
                    break
            self.funs[n] = (p0, p1, p2, F(rng.randint(1, 9), rng.randint(1, 3)))
        self.consts = {n: F(rng.randint(1, 40), rng.randint(1, 40)) for n in CONST_NAMES}
        if laws:
            q0 = self.funs['erf'][3]
            p1 = F(rng.randint(1, 9), rng.randint(1, 5))
            self.funs['erf'] = (F(0), p1, F(0), q0)
            self.funs['erfc'] = (q0, -p1, F(1), q0)
            self.consts['fpiInv'] = 1 / (4 * self.consts['pi'])
            self.consts['hpiInv'] = 1 / (192 * self.consts['pi'])

    def apply(self, name, u):
        p0, p1, p2, q0 = self.funs[name]
        u = F(u.v if isinstance(u, Q) else u)
        return Q((p0 + p1 * u + p2 * u * u) / (q0 + u * u))

    def encode(self):
        return ';'.join([','.join(q2s(c) for c in self.funs[n]) for n in FUN_NAMES] + [q2s(self.consts[n]) for n in CONST_NAMES])


CURRENT = [None]


def _cur():
    if CURRENT[0] is None:
        raise RuntimeError('no stand-ins installed')
    return CURRENT[0]


def _frac(x):
    if isinstance(x, Q):
        return x.v
    if isinstance(x, (int, F)):
        return F(x)
    if isinstance(x, float):
        return F(x)
    if isinstance(x, np.generic):
        return F(x.item())
    return NotImplemented


class Q:
    __slots__ = ('v', )

    def __init__(self, v):
        self.v = v.v if isinstance(v, Q) else F(v)

    # arithmetic
    def _bin(self, o, f):
        o = _frac(o)
        if o is NotImplemented:
            return NotImplemented
        return Q(f(self.v, o))

    def __add__(self, o): return self._bin(o, lambda a, b: a + b)
    def __radd__(self, o): return self._bin(o, lambda a, b: b + a)
    def __sub__(self, o): return self._bin(o, lambda a, b: a - b)
    def __rsub__(self, o): return self._bin(o, lambda a, b: b - a)
    def __mul__(self, o): return self._bin(o, lambda a, b: a * b)
    def __rmul__(self, o): return self._bin(o, lambda a, b: b * a)
    def __truediv__(self, o): return self._bin(o, lambda a, b: a / b)
    def __rtruediv__(self, o): return self._bin(o, lambda a, b: b / a)
    def __neg__(self): return Q(-self.v)
    def __pos__(self): return self
    def __abs__(self): return Q(abs(self.v))

    def __pow__(self, e):
        if isinstance(e, Q):
            e = e.v
        if isinstance(e, (int, F)) and F(e).denominator == 1:
            return Q(self.v**int(e))
        if F(e) == F(3, 2):
            return _cur().apply('pow32', self)
        raise TypeError('unsupported exponent %r' % (e, ))

    # comparisons
    def _cmp(self, o):
        o = _frac(o)
        return o

    def __eq__(self, o):
        o = _frac(o)
        return False if o is NotImplemented else self.v == o

    def __ne__(self, o): return not self.__eq__(o)
    def __lt__(self, o): return self.v < _frac(o)
    def __le__(self, o): return self.v <= _frac(o)
    def __gt__(self, o): return self.v > _frac(o)
    def __ge__(self, o): return self.v >= _frac(o)
    def __hash__(self): return hash(self.v)
    def __bool__(self): return self.v != 0
    def __float__(self): return float(self.v)
    def __repr__(self): return 'Q(%s)' % self.v

    # methods NumPy ufuncs on object arrays dispatch to
    def exp(self): return _cur().apply('exp', self)
    def sqrt(self): return _cur().apply('sqrt', self)
    def sign(self): return Q(-1 if self.v < 0 else (0 if self.v == 0 else 1))


def lift(name):
    def fn(x):
        if isinstance(x, np.ndarray):
            out = np.empty(x.shape, dtype=object)
            for idx in np.ndindex(x.shape):
                out[idx] = fn(x[idx])
            return out
        return _cur().apply(name, x if isinstance(x, Q) else Q(_frac(x)))
    return fn


def fsum_exact(xs):
    acc = Q(0)
    for x in xs:
        acc = acc + x
    return acc


PATCHES = {
    # module -> {attribute: stand-in}
    'src.single_layer': dict(expi=lift('ei'), erf=lift('erf'), sqrt=lift('sqrt')),
    'src.single_layer_exact': dict(exp=lift('exp'), sqrt=lift('sqrt'), erf=lift('erf'), erfc=lift('erfc'), expi=lift('ei'),
                                   fsum=fsum_exact),
    'src.initial_potential': dict(exp1=lift('e1')),
}
CONST_PATCHES = {
    'src.single_layer': dict(FPI_INV='fpiInv', PI_SQRT='piSqrt', pi='pi'),
    'src.single_layer_exact': dict(FPI_INV='fpiInv', PI_SQRT='piSqrt', HPI_INV='hpiInv', pi='pi'),
    'src.initial_potential': dict(FPI_INV='fpiInv'),
}


@contextlib.contextmanager
def installed(standins):
    """Installs the stand-ins into the modules under test (restored afterwards)."""
    import importlib
    saved = []
    CURRENT[0] = standins
    try:
        for modname, attrs in PATCHES.items():
            mod = importlib.import_module(modname)
            for a, v in attrs.items():
                if hasattr(mod, a):
                    saved.append((mod, a, getattr(mod, a)))
                    setattr(mod, a, v)
        for modname, attrs in CONST_PATCHES.items():
            mod = importlib.import_module(modname)
            for a, cname in attrs.items():
                if hasattr(mod, a):
                    saved.append((mod, a, getattr(mod, a)))
                    setattr(mod, a, Q(standins.consts[cname]))
        # np.pi is used by src.initial_potential.time_integrated_kernel: patch through a proxy module object
        mod = importlib.import_module('src.initial_potential')
        saved.append((mod, 'np', mod.np))
        mod.np = _NumpyProxy(mod.np, Q(standins.consts['pi']))
        yield
    finally:
        for mod, a, v in reversed(saved):
            setattr(mod, a, v)
        CURRENT[0] = None


class _NumpyProxy:
    def __init__(self, real, pi):
        self._real, self.pi = real, pi

    def __getattr__(self, name):
        return getattr(self._real, name)
