"""Tie between src/mesh.py and the definitions regenerated from it (translate/meshops.py -> lean/Stbem/Gen/MeshOps.lean).

* `translate_meshops(res)`: the `translate` hook of the checks that rest on the refinement drivers of the mesh model
  (C02, C06, C19, C20 for Prolongate, C18 for MeshParametrized.__init__): regenerates Gen/MeshOps.lean from the working tree of the repository under test; a construct
  outside the supported fragment raises `TranslationError` (= broken obligation `translator`).  The equality theorems
  `Stbem.MeshOpsTie.gen_*_eq` (Props/MeshOpsTie.lean, one of the PROP_MODS of those checks) are then re-checked by the
  build against the regenerated text.
* `generated_twins(lines)`: for every request `mesh …` of a correspondence run the request `gmesh …`, which the driver
  answers with the regenerated definitions on a state of their own (Driver/GMeshCmd.lean); the expected answer is the
  same (what the real Python code did).
"""
import os
import sys

PROP_MOD = 'Stbem.Props.MeshOpsTie'
PROP_MOD_C06 = 'Stbem.Props.MeshOpsTieC06'   # imports Props.C06 (cannot be loaded together with Props.C02Closure / C18)
PROP_MOD_C19 = 'Stbem.Props.MeshOpsTieC19'   # imports Props.C19
PROP_MOD_C20 = 'Stbem.Props.MeshOpsTieC20'   # Prolongate; imports Props.C20
PROP_MOD_C18 = 'Stbem.Props.MeshOpsTieC18'   # MeshParametrized.__init__; imports Props.C18

TRUSTED = ('refinement drivers of the mesh model (refine_time/space, refine, uniform_refine[_space], dorfler_refine_isotropic/'
           '_anisotropic, refine_grading, Prolongate, MeshParametrized.__init__): regenerated from the current source text by '
           'translate/meshops.py -> lean/Stbem/Gen/MeshOps.lean (do-blocks, statement by statement) and proved equal to the '
           'hand-written model (Props/MeshOpsTie*.lean: gen_*_eq); trusted: the translator and its object model, documented '
           'in the header of translate/meshops.py (element reference = Cell / index, leaf_elements = leaves, elem.children = '
           'leaf test / parent table, refine_axis = refineId, Mesh.__init__ = init, argsort = input, h_x**sigma by powers), '
           'validated on every run by answering every mesh request of the correspondence with the generated functions as '
           'well (`gmesh …`, Driver/GMeshCmd.lean)')

STAT_KEYS = ('functions', 'for_loops', 'while_loops', 'branches', 'asserts', 'refine_calls', 'sorts', 'assignments', 'breaks',
             'continues', 'returns', 'children_tests', 'children_value_reads', 'sigma_comparisons', 'prints_dropped')


def translate_meshops(res):
    from .common import LEAN, REPO, VERIF, write_if_changed
    tdir = os.path.join(VERIF, 'translate')
    if tdir not in sys.path:
        sys.path.insert(0, tdir)
    import meshops
    stats = meshops.generate(REPO, os.path.join(LEAN, 'Stbem', 'Gen'), write_if_changed)
    for k in STAT_KEYS:
        res.bump('meshops_translated_' + k, stats.get(k, 0))
    res.count(('translated', 'mesh.py refinement drivers'), True,
              n=stats.get('for_loops', 0) + stats.get('branches', 0) + stats.get('asserts', 0) + stats.get('refine_calls', 0))
    return stats


def generated_twins(lines):
    """the `gmesh …` twins of the `mesh …` requests, in order; (twin lines, index of the original line for each)"""
    twins, origin = [], []
    for i, l in enumerate(lines):
        if l.startswith('mesh '):
            twins.append('g' + l)
            origin.append(i)
    return twins, origin
