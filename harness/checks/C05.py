"""C05 — every tabulated quadrature rule is exact for its advertised function class."""
import os
import sys

from ..common import LEAN, VERIF, write_if_changed

PROP_MODS = ['Stbem.Props.C05']


def extra_audit_mods():
    """The generated per-entry certificate modules: their theorems are obligations too (kernel evaluations)."""
    d = os.path.join(LEAN, 'Stbem', 'Gen', 'RuleChecks')
    return sorted('Stbem.Gen.RuleChecks.' + f[:-5] for f in os.listdir(d) if f.endswith('.lean'))

RULE = ('complete enumeration: every branch of the seven if/elif tables of src/quadrature_rules.py, every degree '
        'of its advertised range, on the literals as written (1e-30 relative) and on their binary64 roundings '
        '(1e-13 relative; the rounding itself certified). The Lean sources Gen/Rules.lean and Gen/RuleChecks/* are '
        'regenerated from the source text on every run; the kernel evaluates one rational certificate per entry. '
        'search: mpmath at 60 digits on the values the real functions return, naming family/key/degree of any '
        'defect; distinct non-trivial = (family, key, degree, function class) moment evaluations.')
TRUSTED = [
    'Lean 4.33 kernel (decide +kernel evaluation of rational certificates); axioms propext, Classical.choice, '
    'Quot.sound only; no native_decide',
    'translator translate/rules.py (ast of src/quadrature_rules.py -> Gen/Rules.lean); cross-checked on every run: '
    'the floats returned by the real functions equal the certified doubles bit for bit, and the decimal strings '
    're-rendered from the generated integers equal the source segments',
    'Mathlib: Real.log series bound sum_range_sub_log_div_le, Real.sqrt, interval integrals',
    'not modelled: rounding of the dot product when a rule is used',
]
ASSUMPTIONS = ['advertised class of a family = the class named in its docstring / relied on by its scheme constructor; '
               'for the three Gauss families the full Gauss degree 2n-1 of the n-point table is certified',
               'targets for log(1-x) and 1/sqrt(x) classes are the classical closed forms -H_{k+1}/(k+1), 1/(k+1/2) '
               '(the integrals for x^k, x^k sqrt x, x^k log x are proved in Lean)']

sys.path.insert(0, os.path.join(VERIF, 'translate'))


def translate(res):
    import rules as T
    gen = os.path.join(LEAN, 'Stbem', 'Gen')
    fams, lists = T.generate(os.environ.get('STBEM_REPO', '/repo'), gen, write_if_changed)
    res.notes['entries'] = sum(len(v) for v in fams.values())
    res.notes['_fams'] = None
    translate.fams, translate.lists = fams, lists
    # translator self-check 1: re-render the generated integers and compare with the source segments
    for f, entries in fams.items():
        for e in entries:
            for seg, val in e['nodes'] + e['weights']:
                num, exp = T.dec_of_segment(seg)
                from fractions import Fraction
                if Fraction(num, 10**exp) != Fraction(seg.replace(' ', '')):
                    raise T.TranslationError('literal %s of %s%s mistranslated' % (seg, f, e['key']))
                man, ex2 = T.dbl_of_float(val)
                if man * Fraction(2)**(-ex2) != Fraction(val):
                    raise T.TranslationError('double of %s mistranslated' % seg)


def correspond(res, tier):
    """Translator validation against the running code: what the real functions return must be, bit for bit, the
    doubles that were written into Gen/Rules.lean (and nothing is returned for unknown keys)."""
    import importlib
    import src.quadrature_rules as QR
    importlib.reload(QR)
    fams = getattr(translate, 'fams', None)
    if fams is None:
        return
    for f, entries in fams.items():
        fn = getattr(QR, f)
        for e in entries:
            key = e['key']
            args = key if f in ('log_quadrature_rule', 'log_log_quadrature_rule', 'sqrt_quadrature_rule',
                                'sqrtinv_quadrature_rule') else (key[0], )
            try:
                got = fn(*args)
            except Exception as exc:  # noqa: BLE001 - a tabulated rule must be handed out when it is requested
                res.count(('returned', f, key))
                res.violation('C05:request-refused:%s:%s' % (f, '_'.join(str(k) for k in args)),
                              dict(family=f, key=list(key), error=repr(exc)[:200], call='%s%s' % (f, tuple(args)),
                                   note='the table has a branch for this key'))
                continue
            res.count(('returned', f, key))
            if got is None:
                if e['returns']:
                    res.broken_obligation('correspondence C05', '%s%s returns None but the translated branch returns' % (f, key))
                res.violation('C05:returns-nothing:%s:%s' % (f, key[0]),
                              dict(family=f, key=list(key), observed='None', call='%s%s' % (f, tuple(args))))
                continue
            if not e['returns']:
                res.broken_obligation('correspondence C05', '%s%s returns a value but the translated branch does not' % (f, key))
                continue
            nodes, weights = got
            want_n = [v for _, v in e['nodes']]
            want_w = [v for _, v in e['weights']]
            if [float(x) for x in nodes] != want_n or [float(w) for w in weights] != want_w:
                res.broken_obligation('correspondence C05', '%s%s: returned floats differ from the translated table' % (f, key))
    res.sample(dict(family='log_quadrature_rule', key=[12, 12], nodes=13))


def search(res, tier, boost=False):
    """mpmath reference on the values returned by the real functions: shape, signs, moments of the class."""
    from mpmath import mp, mpf, log, sqrt
    import src.quadrature_rules as QR
    import src.quadrature as Q
    mp.dps = 60
    src_path = os.path.join(os.environ.get('STBEM_REPO', '/repo'), 'src', 'quadrature_rules.py')
    try:
        import rules as TR
        fams, lists = TR.parse_rules(src_path)
    except Exception as exc:
        res.broken_obligation('search C05', 'cannot parse tables: %s' % exc)
        try:     # read the tabulated branches anyway (an unknown fall-back branch is then covered by the request sweep)
            fams, lists = TR.parse_rules(src_path, lenient=True)
        except Exception:
            fams, lists = {}, {}

    def harm(n):
        return sum(mpf(1) / j for j in range(1, n + 1))
    tol_lit = mpf(10)**-30
    tol_dbl = mpf(10)**-13
    for f, entries in fams.items():
        fn = getattr(QR, f)
        two = f in ('log_quadrature_rule', 'log_log_quadrature_rule', 'sqrt_quadrature_rule', 'sqrtinv_quadrature_rule')
        for e in entries:
            key = e['key']
            try:
                got = fn(*(key if two else (key[0], )))
            except Exception as exc:  # noqa: BLE001
                res.violation('C05:request-refused:%s:%s' % (f, '_'.join(str(k) for k in (key if two else key[:1]))),
                              dict(family=f, key=list(key), error=repr(exc)[:200], note='the table has a branch for this key'))
                continue
            if got is None:
                res.violation('C05:returns-nothing:%s:%s' % (f, key[0]), dict(family=f, key=list(key), observed='None'))
                continue
            for which in ('literal', 'double'):
                if which == 'literal':
                    xs = [mpf(s.replace(' ', '')) for s, _ in e['nodes']]
                    ws = [mpf(s.replace(' ', '')) for s, _ in e['weights']]
                    tol = tol_lit
                else:
                    xs = [mpf(float(x)) for x in got[0]]
                    ws = [mpf(float(w)) for w in got[1]]
                    tol = tol_dbl
                tag = '%s:%s:%s' % (f, '_'.join(str(k) for k in (key if two else key[:1])), which)
                if len(xs) != len(ws) or not xs:
                    res.violation('C05:shape:' + tag, dict(n_nodes=len(xs), n_weights=len(ws)))
                    continue
                if not all(0 < x < 1 for x in xs):
                    res.violation('C05:nodes-outside:' + tag, dict(nodes=[str(x) for x in xs]))
                if not (all(w > 0 for w in ws) or all(w < 0 for w in ws)):
                    res.violation('C05:weight-signs:' + tag, dict())
                classes = []
                n = len(xs)
                if f == 'log_quadrature_rule':
                    classes = [('poly', key[0], lambda x, k: x**k, lambda k: mpf(1) / (k + 1)),
                               ('log', key[1], lambda x, k: x**k * log(x), lambda k: -mpf(1) / (k + 1)**2)]
                elif f == 'log_log_quadrature_rule':
                    classes = [('poly', key[0], lambda x, k: x**k, lambda k: mpf(1) / (k + 1)),
                               ('log', key[1], lambda x, k: x**k * log(x), lambda k: -mpf(1) / (k + 1)**2),
                               ('log1m', key[1], lambda x, k: x**k * log(1 - x), lambda k: -harm(k + 1) / (k + 1))]
                elif f == 'sqrt_quadrature_rule':
                    classes = [('poly', key[0], lambda x, k: x**k, lambda k: mpf(1) / (k + 1)),
                               ('sqrt', key[1], lambda x, k: x**k * sqrt(x), lambda k: 1 / (k + mpf(3) / 2))]
                elif f == 'sqrtinv_quadrature_rule':
                    classes = [('poly', key[0], lambda x, k: x**k, lambda k: mpf(1) / (k + 1)),
                               ('sqrtinv', key[1], lambda x, k: x**k / sqrt(x), lambda k: 1 / (k + mpf(1) / 2))]
                elif f == 'gauss_sqrtinv_quadrature_rule':
                    classes = [('w=1/sqrt', 2 * n - 1, lambda x, k: x**k, lambda k: mpf(2) / (2 * k + 1))]
                    if 2 * key[0] - 1 > 2 * n - 1:
                        res.violation('C05:key-degree:' + tag, dict(n=n))
                elif f == 'gauss_x_quadrature_rule':
                    classes = [('w=x', 2 * n - 1, lambda x, k: x**k, lambda k: mpf(1) / (k + 2))]
                    if 2 * key[0] - 1 > 2 * n - 1:
                        res.violation('C05:key-degree:' + tag, dict(n=n))
                elif f == 'gauss_log_quadrature_rule':
                    classes = [('w=-log', 2 * n - 1, lambda x, k: x**k, lambda k: -mpf(1) / (k + 1)**2)]
                    if 2 * key[0] > 2 * n - 1:
                        res.violation('C05:key-degree:' + tag, dict(n=n))
                for cname, kmax, fun, exact in classes:
                    worst = (mpf(0), -1)
                    for k in range(0, kmax + 1):
                        v = sum(w * fun(x, k) for x, w in zip(xs, ws))
                        d = abs(v - exact(k)) / abs(exact(k))
                        res.count((tag, cname, k))
                        if d > worst[0]:
                            worst = (d, k)
                    if worst[0] > tol:
                        res.violation('C05:%s-defect:%s:%s' % (which, f, key[0]) if f.startswith('gauss') else
                                      'C05:%s-defect:%s:%s_%s' % (which, f, key[0], key[1]),
                                      dict(family=f, key=list(key), which=which, function_class=cname, degree=worst[1],
                                           relative_defect=str(worst[0]), tolerance=str(tol)))
    # exported lists
    for lname, fname in (('LOG_QUAD_RULES', 'log_quadrature_rule'), ('LOG_LOG_QUAD_RULES', 'log_log_quadrature_rule'),
                         ('SQRT_QUAD_RULES', 'sqrt_quadrature_rule'), ('SQRTINV_QUAD_RULES', 'sqrtinv_quadrature_rule')):
        for k in getattr(QR, lname):
            res.count(('list', lname, tuple(k)))
            try:
                got = getattr(QR, fname)(*k)
            except AssertionError:
                got = None
            if got is None:
                res.violation('C05:list-unavailable:%s:%s' % (lname, k), dict(list=lname, key=list(k)))
    # scheme constructors of src/quadrature.py: requested degree -> rule exact for that degree
    for N_poly in range(1, 24, 2):
        for cname, target in (('gauss_sqrtinv_quadrature_scheme', lambda k: mpf(2) / (2 * k + 1)),
                              ('gauss_x_quadrature_scheme', lambda k: mpf(1) / (k + 2))):
            if cname == 'gauss_x_quadrature_scheme' and N_poly > 21:
                continue
            try:
                s = getattr(Q, cname)(N_poly)
            except Exception as exc:
                res.violation('C05:constructor-fails:%s:%d' % (cname, N_poly), dict(constructor=cname, N_poly=N_poly, error=repr(exc)))
                continue
            xs = [mpf(float(x)) for x in s.points]
            ws = [mpf(float(w)) for w in s.weights]
            for k in range(N_poly + 1):
                res.count(('ctor', cname, N_poly, k))
                v = sum(w * x**k for x, w in zip(xs, ws))
                if abs(v - target(k)) > tol_dbl * abs(target(k)):
                    res.violation('C05:constructor-inexact:%s:%d' % (cname, N_poly), dict(degree=k))
                    break

    # the scheme constructors as a HISTORY of requests in one process (random order, every request repeated, mirrors
    # taken in between): each returned scheme must be exact for the class its constructor advertises, whatever was
    # requested before
    from ..common import seed_rng
    rng = seed_rng(res.seed, 'C05h')
    keys1 = {f: sorted(e['key'][0] for e in fams[f]) for f in fams}
    reqs = []
    for lname, ctor, cls in (('LOG_QUAD_RULES', 'log_quadrature_scheme', 'log'),
                             ('LOG_LOG_QUAD_RULES', 'log_log_quadrature_scheme', 'loglog'),
                             ('SQRT_QUAD_RULES', 'sqrt_quadrature_scheme', 'sqrt'),
                             ('SQRTINV_QUAD_RULES', 'sqrtinv_quadrature_scheme', 'sqrtinv')):
        for k in getattr(QR, lname):
            reqs.append((ctor, tuple(int(v) for v in k), cls))
    for N_poly in range(1, 64, 2):
        N = (N_poly + 1) // 2
        if N in keys1.get('gauss_sqrtinv_quadrature_rule', []):
            reqs.append(('gauss_sqrtinv_quadrature_scheme', (N_poly, ), 'w=1/sqrt'))
        if N in keys1.get('gauss_x_quadrature_rule', []):
            reqs.append(('gauss_x_quadrature_scheme', (N_poly, ), 'w=x'))
        if N in keys1.get('gauss_log_quadrature_rule', []):
            reqs.append(('gauss_log_quadrature_scheme', (N_poly, ), 'w=-log'))
        if N_poly <= 41:
            reqs.append(('gauss_quadrature_scheme', (N_poly, ), 'w=1'))
    reqs = reqs + reqs
    rng.shuffle(reqs)
    targets = {
        'log': lambda key: [(key[0], lambda x, k: x**k, lambda k: mpf(1) / (k + 1)),
                            (key[1], lambda x, k: x**k * log(x), lambda k: -mpf(1) / (k + 1)**2)],
        'loglog': lambda key: [(key[0], lambda x, k: x**k, lambda k: mpf(1) / (k + 1)),
                               (key[1], lambda x, k: x**k * log(x), lambda k: -mpf(1) / (k + 1)**2),
                               (key[1], lambda x, k: x**k * log(1 - x), lambda k: -harm(k + 1) / (k + 1))],
        'sqrt': lambda key: [(key[0], lambda x, k: x**k, lambda k: mpf(1) / (k + 1)),
                             (key[1], lambda x, k: x**k * sqrt(x), lambda k: 1 / (k + mpf(3) / 2))],
        'sqrtinv': lambda key: [(key[0], lambda x, k: x**k, lambda k: mpf(1) / (k + 1)),
                                (key[1], lambda x, k: x**k / sqrt(x), lambda k: 1 / (k + mpf(1) / 2))],
        'w=1/sqrt': lambda key: [(key[0], lambda x, k: x**k, lambda k: mpf(2) / (2 * k + 1))],
        'w=x': lambda key: [(key[0], lambda x, k: x**k, lambda k: mpf(1) / (k + 2))],
        'w=-log': lambda key: [(key[0], lambda x, k: x**k, lambda k: -mpf(1) / (k + 1)**2)],
        'w=1': lambda key: [(key[0], lambda x, k: x**k, lambda k: mpf(1) / (k + 1))],
    }
    seen = []
    for step, (ctor, key, cls) in enumerate(reqs):
        seen.append('%s%s' % (ctor, key))
        try:
            sch = getattr(Q, ctor)(*key)
            if rng.random() < 0.3:
                sch.mirror()          # taking the mirror must not disturb the scheme itself
        except Exception as exc:
            res.violation('C05:constructor-fails:%s:%s' % (ctor, '_'.join(map(str, key))),
                          dict(constructor=ctor, key=list(key), error=repr(exc), requests_before=seen[-6:]))
            continue
        xs = [mpf(float(x)) for x in sch.points]
        ws = [mpf(float(w)) for w in sch.weights]
        bad = None
        for kmax, fun, exact in targets[cls](key):
            for k in range(0, kmax + 1):
                res.count(('ctor-history', ctor, key, k))
                v = sum(w * fun(x, k) for x, w in zip(xs, ws))
                if abs(v - exact(k)) > tol_dbl * abs(exact(k)):
                    bad = (k, str(abs(v - exact(k)) / abs(exact(k))))
                    break
            if bad:
                break
        if bad:
            res.violation('C05:constructor-inexact:%s:%s' % (ctor, '_'.join(map(str, key))),
                          dict(constructor=ctor, key=list(key), degree=bad[0], relative_defect=bad[1], request_number=step,
                               requests_before=seen[-8:], note='requests are made in one process, in this order'))

    # request SWEEP: every degree pair / point count on a grid, tabulated or not.  A request either is refused
    # (raises) or returns a rule; a rule that is returned must be exact for the class that was REQUESTED
    # (binary64 tolerance) and well-formed.  On the shipped tables only tabulated keys return.
    two_fams = (('log_quadrature_rule', 'log'), ('log_log_quadrature_rule', 'loglog'),
                ('sqrt_quadrature_rule', 'sqrt'), ('sqrtinv_quadrature_rule', 'sqrtinv'))
    reqset = set(reqs)
    hi = 45 if (tier == "thorough" or boost) else 33
    returned = refused = 0
    for f, cls in two_fams:
        tab = set(tuple(e['key']) for e in fams.get(f, []))
        for a in range(-1, hi):
            for b in range(-1, hi):
                if (a, b) in tab:
                    continue                      # tabulated keys are checked above at both precisions
                res.count(('sweep', f, a, b), False)
                try:
                    got = getattr(QR, f)(a, b)
                except Exception:
                    refused += 1
                    continue
                returned += 1
                _check_requested(res, 'C05:request-inexact:%s:%d_%d' % (f, a, b), got, targets[cls]((a, b)), tol_dbl, mpf,
                                 dict(function=f, requested=[a, b], note='not a tabulated key'))
    for f, cls, deg in (('gauss_sqrtinv_quadrature_rule', 'w=1/sqrt', lambda N: 2 * N - 1),
                        ('gauss_x_quadrature_rule', 'w=x', lambda N: 2 * N - 1),
                        ('gauss_log_quadrature_rule', 'w=-log', lambda N: 2 * N - 1)):
        tab = set(e['key'][0] for e in fams.get(f, []))
        for N in range(0, 2 * hi):
            if N in tab:
                continue
            res.count(('sweep', f, N), False)
            try:
                got = getattr(QR, f)(N)
            except Exception:
                refused += 1
                continue
            returned += 1
            _check_requested(res, 'C05:request-inexact:%s:%d' % (f, N), got, targets[cls]((max(deg(N), 0), )), tol_dbl, mpf,
                             dict(function=f, requested=[N], note='not a tabulated key'))
    # the scheme constructors on every degree of the grid (they map a degree to a key)
    for ctor, cls in (('log_quadrature_scheme', 'log'), ('log_log_quadrature_scheme', 'loglog'),
                      ('sqrt_quadrature_scheme', 'sqrt'), ('sqrtinv_quadrature_scheme', 'sqrtinv')):
        for a in range(-1, hi, 1):
            for b in range(-1, hi, 1):
                if (ctor, (a, b), cls) in reqset:
                    continue
                try:
                    sch = getattr(Q, ctor)(a, b)
                except Exception:
                    refused += 1
                    continue
                returned += 1
                _check_requested(res, 'C05:constructor-inexact:%s:%d_%d' % (ctor, a, b), (sch.points, sch.weights),
                                 targets[cls]((a, b)), tol_dbl, mpf, dict(constructor=ctor, requested=[a, b]))
    for ctor, cls in (('gauss_sqrtinv_quadrature_scheme', 'w=1/sqrt'), ('gauss_x_quadrature_scheme', 'w=x'),
                      ('gauss_log_quadrature_scheme', 'w=-log'), ('gauss_quadrature_scheme', 'w=1')):
        for N_poly in range(0, 2 * hi):
            if ctor == 'gauss_quadrature_scheme' and N_poly > 41:
                continue      # numpy's leggauss, not a table of the repository; beyond 41 its own accuracy is ~1e-13
            try:
                sch = getattr(Q, ctor)(N_poly)
            except Exception:
                refused += 1
                continue
            returned += 1
            _check_requested(res, 'C05:constructor-inexact:%s:%d' % (ctor, N_poly), (sch.points, sch.weights),
                             targets[cls]((N_poly, )), tol_dbl, mpf, dict(constructor=ctor, requested=[N_poly]))
    res.bump('sweep_requests_refused', refused)
    res.bump('sweep_requests_returned', returned)


def _check_requested(res, key, got, classes, tol, mpf, info):
    """a rule handed out for a request must be well-formed and exact for the requested class"""
    if got is None or len(got) != 2:
        res.violation(key.replace('inexact', 'returns-nothing'), dict(info, observed=repr(got)[:80]))
        return
    xs = [mpf(float(x)) for x in got[0]]
    ws = [mpf(float(w)) for w in got[1]]
    if len(xs) != len(ws) or not xs or not all(0 < x < 1 for x in xs) or not (all(w > 0 for w in ws) or all(w < 0 for w in ws)):
        res.violation(key.replace('inexact', 'malformed'), dict(info, n_nodes=len(xs), n_weights=len(ws)))
        return
    for kmax, fun, exact in classes:
        for k in range(0, kmax + 1):
            v = sum(w * fun(x, k) for x, w in zip(xs, ws))
            if abs(v - exact(k)) > tol * abs(exact(k)):
                res.violation(key, dict(info, degree=k, relative_defect=str(abs(v - exact(k)) / abs(exact(k))), n_nodes=len(xs)))
                return
