"""C04 — causality: the single-layer matrix is Volterra-structured and never negative."""
import contextlib
import io
import math
from fractions import Fraction as F

import numpy as np

from ..common import q2s, run_driver, seed_rng
from ..qnum import Q, installed
from ..sllib import TIME_LATTICE, Fixture, random_space_intervals, result_str
from ..slchecks import RealOps, corr_bilform, corr_mpcol, describe, random_real_mesh, with_generated

PROP_MODS = ['Stbem.Props.C04', 'Stbem.Props.PanelsTie', 'Stbem.Props.SLRestTie']
RULE = ('correspondence (exact, Q numbers with rational stand-in special functions): real bilform on both paths, '
        'evaluate, evaluate_exact and potential against the Lean model for all ordered pairs of time intervals of a '
        'lattice (equal, nested, touching, overlapping, separated, both orders) x space configurations: results must '
        'be the same rationals, in particular literally zero exactly when the model says zero. search (floats, real '
        'meshes on all curves): acausal => == 0 exactly on bilform, bilform_matrix (all paths), evaluate, '
        'evaluate_exact, potential, t equal to the start included; causal => >= -1e-15*sqrt(D_i D_j) and > 0 when the '
        'reference exceeds 1e-250; evaluate, evaluate_exact, potential at times after the start of the trial element (just after the '
        'start / the end, inside, far later) and points on, at the ends of, near and far from the element: >= -1e-15*sqrt(t - t0), '
        'and > 0 when |x-y|^2/(4(t-t0)) < 300 on the element; block lower-triangular matrix with rows = test. non-trivial = acausal-touching or '
        'causal pair; distinct = distinct request.')
TRUSTED = [
    'Lean 4.33 kernel; axioms propext, Classical.choice, Quot.sound only',
    'translate/formulas.py (validated on every run by exact execution of the real functions with stand-ins)',
    'hand-written model lean/Stbem/Model/SingleLayer.lean tied by exact correspondence (harness/sllib.py, qnum.py) and, for its '
    'control flow, by Props/PanelsTie.lean to Gen/Panels.lean which translate/panels.py regenerates from the source on every run',
    'evaluate_exact, potential, the vector methods, MP_SL_matrix_col and ALL of bilform_matrix (defaults, threshold, cache key, '
    'load / save, serial loop / pool) regenerated on every run (translate/slrest.py -> Gen/SLRest.lean) and proved equal to the '
    'hand models for all inputs (Props/SLRestTie.lean); every `sl evalx` / `sl pot` request is answered by the generated twin too',
    'sign (Props/C04Sign.lean): proved in exact arithmetic for the generated time kernels over R and for the quadrature sums '
    'of the model (bilform quadrature path, evaluate, potential); positivity in binary64 (cancellation in the four-term '
    'formula) and the sign of the closed-form path (pw_exact, evaluate_exact: erf) are not modelled: search only',
]
ASSUMPTIONS = ['exact arithmetic; special functions are parameters',
               'sign theorems: Ei\' x = e^x/x (x<0), Ei -> 0 at -oo, exp = Real.exp, FPI_INV > 0 (all true; satisfied by the Lean model '
               'modelT built from the improper integral of e^t/t); rules with weights >= 0 and nodes in (0,1) (checked on the real '
               'rule objects); the parametrisation maps distinct parameters strictly inside the two elements to distinct points '
               '(simple curves); evaluate: the 1e-10-thin strips inside the element next to its end points are excluded']
# the closed-form pointwise evaluation loses its (positive) value to cancellation far from the element at short times; the
# clause 'result > 0 whenever the reference exceeds 1e-250' of the property is checked for it too (known finding)
STRICT_POSITIVE_EVALUATE_EXACT = True


def translate_formulas(res):
    import os, sys
    from ..common import LEAN, VERIF, write_if_changed
    sys.path.insert(0, os.path.join(VERIF, 'translate'))
    import formulas
    formulas.generate(os.environ.get('STBEM_REPO', '/repo'), os.path.join(LEAN, 'Stbem', 'Gen'), write_if_changed)


def translate_panels(res):
    """Regenerates lean/Stbem/Gen/Panels.lean (control flow of __integrate, bilform, evaluate, _init_elems,
    MP_SL_matrix_col, the loop nests of bilform_matrix) from the working tree of the repository under test; a
    construct the translator does not understand raises (= broken obligation)."""
    import os, sys
    from ..common import LEAN, REPO, VERIF, write_if_changed
    sys.path.insert(0, os.path.join(VERIF, 'translate'))
    import panels
    stats = panels.generate(REPO, os.path.join(LEAN, 'Stbem', 'Gen'), write_if_changed)
    for k in ('branches', 'returns', 'asserts', 'panel_leaves', 'recursive_calls', 'assignments', 'closures', 'float_constants'):
        res.bump('translated_' + k, stats.get(k, 0))
    res.count(('translated', 'single_layer.py control flow'), True, n=stats.get('branches', 0) + stats.get('returns', 0))


def translate_slrest(res):
    """Regenerates lean/Stbem/Gen/SLRest.lean (evaluate_exact, potential, evaluate_vector, potential_vector, rhs_vector, the
    worker and ALL of bilform_matrix, ErrorEstimator.residual, the assembly slice of example.py) from the tree under test."""
    import os, sys
    from ..common import LEAN, REPO, VERIF, write_if_changed
    sys.path.insert(0, os.path.join(VERIF, 'translate'))
    import slrest
    stats = slrest.generate(REPO, os.path.join(LEAN, 'Stbem', 'Gen'), write_if_changed)
    res.notes['slrest_assembly_slice'] = stats.pop('slice', None)
    for k in ('branches', 'returns', 'skip_rules', 'cache_blocks', 'pool_paths', 'matrix_loop_nests', 'accumulations', 'rhs_terms',
              'vector_methods', 'falls_off_end'):
        res.bump('slrest_' + k, stats.get(k, 0))
    res.count(('translated', 'rest of single_layer.py / residual / example slice'), True, n=sum(v for v in stats.values() if isinstance(v, int)))


def translate(res):
    translate_formulas(res)
    translate_panels(res)
    translate_slrest(res)


def check_rule_hypotheses(res):
    """The sign theorems (Props/C04Sign.lean: bilform_quad_nonneg, evaluate_nonneg, potential_nonneg and their real
    twins) assume `PosRule1` / `SPosRule1` for the 1-D rules: weights > 0 and nodes strictly inside (0,1). Checked here on
    the rule objects the real operator constructs (default quad_order, and the orders used by example.py)."""
    from src.mesh import MeshParametrized
    from src.parametrization import UnitSquare
    from src.single_layer import SingleLayerOperator
    with contextlib.redirect_stdout(io.StringIO()):
        mesh = MeshParametrized(UnitSquare(), initial_time_mesh=[0, 1])
    for order in (12, 5, 7):
        with contextlib.redirect_stdout(io.StringIO()):
            SL = SingleLayerOperator(mesh, quad_order=order)
        for name in ('log_scheme', 'log_scheme_m', 'gauss_scheme'):
            sch = getattr(SL, name)
            pts, wts = np.asarray(sch.points, dtype=float), np.asarray(sch.weights, dtype=float)
            res.count(('rule-hypothesis', order, name), True, n=len(pts))
            if len(pts) == 0 or not (np.all(pts > 0) and np.all(pts < 1) and np.all(wts > 0)):
                res.broken_obligation('C04 hypothesis PosRule1 fails on the real rule %s (quad_order=%d)' % (name, order),
                                      'points in (0,1): %s, weights > 0: %s, n=%d' % (bool(np.all((pts > 0) & (pts < 1))), bool(np.all(wts > 0)), len(pts)))


def correspond(res, tier):
    check_rule_hypotheses(res)
    corr_bilform(res, tier, 'C04', curves=('unitsquare', 'interval'))
    corr_mpcol(res, tier, 'C04m')
    # zero structure of the pointwise evaluations, exactly
    rng = seed_rng(res.seed, 'C04e')
    for curve in ('unitsquare', 'interval'):
        fx = Fixture(rng, curve, False)
        lines = fx.context_lines()
        expect = ['ok'] * len(lines)
        ivs = random_space_intervals(rng, fx, 6)
        with installed(fx.standins):
            for (t0, t1) in TIME_LATTICE[:6]:
                for xa in ivs[:3]:
                    e = fx.elem(t0, t1, xa[0], xa[1])
                    fx.SL._init_elems([e])
                    for t in (t0 - F(1, 8), t0, t0 + F(1, 16), t1, t1 + F(1, 4)):
                        if t < 0:
                            continue
                        for xh in (xa[0], (xa[0] + xa[1]) / 2, xa[1], fx.length * F(5, 16), F(0), fx.length):
                            x, _ = fx.gamma(xh)
                            v = fx.SL.evaluate(e, Q(t), Q(xh), x)
                            lines.append('sl eval %s %s %s %s %s' % (e.encode(), q2s(t), q2s(xh), q2s(x[0, 0]), q2s(x[1, 0])))
                            expect.append(result_str(v))
                            v = fx.SL.potential(e, Q(t), x + Q(F(1, 3)))
                            lines.append('sl pot %s %s %s %s' % (e.encode(), q2s(t), q2s(x[0, 0] + Q(F(1, 3))), q2s(x[1, 0] + Q(F(1, 3)))))
                            expect.append(result_str(v))
                            if fx.piece_index(min(xh, fx.length - F(1, 1024))) == e.piece_idx or xh in (xa[0], xa[1]):
                                v = fx.SL.evaluate_exact(e, Q(t), Q(xh))
                                lines.append('sl evalx %s %s %s' % (e.encode(), q2s(t), q2s(xh)))
                                expect.append('none' if v is None else result_str(v))
        with_generated(lines, expect)
        out = run_driver(lines)
        for line, want, got in zip(lines, expect, out):
            res.count(('eval', line), want != '0')
            if want != got:
                res.broken_obligation('correspondence C04: pointwise evaluation of model and code differ',
                                      'line: %s\npython: %s\nmodel: %s' % (line, want[:300], got[:300]))
                return


def corpus_evaluate_exact(res):
    """Minimised past failure (kept as a corpus case, replayed first): the closed-form pointwise evaluation is negative
    (-1.9e-19) where the exact value is positive (~5e-21, certainly > 1e-40): UnitSquare, two uniform refinements, trial
    element t in [0, 1/4], x in [0, 1/4], t = 2^-10, point x = 5/8 on the same side."""
    from src.mesh import MeshParametrized
    from src.parametrization import UnitSquare
    from src.single_layer import SingleLayerOperator
    with contextlib.redirect_stdout(io.StringIO()):
        mesh = MeshParametrized(UnitSquare(), initial_time_mesh=[0, 1])
        mesh.uniform_refine()
        mesh.uniform_refine()
        SL = SingleLayerOperator(mesh, pw_exact=True)
    for tr in mesh.leaf_elements:
        if tuple(map(float, tr.time_interval)) == (0.0, 0.25) and tuple(map(float, tr.space_interval)) == (0.0, 0.25):
            t, xs = 2.0**-10, 0.625
            v = float(SL.evaluate_exact(tr, t, xs))
            res.count(('ptsign', 'evaluate_exact', 'corpus', t, xs), True)
            zmax, dmax = t, 0.625
            ref_lb = (zmax / 2) * 0.25 * math.exp(-dmax * dmax / (2 * zmax)) / (4 * math.pi * zmax)
            if v < -1e-15 * math.sqrt(t):
                res.violation('C04:evaluate_exact-negative', dict(curve='UnitSquare', trial=describe(tr), t=t, x=xs, value=v))
            elif STRICT_POSITIVE_EVALUATE_EXACT and ref_lb > 1e-250 and not v > 0:
                res.violation('C04:evaluate_exact-not-positive', dict(curve='UnitSquare', trial=describe(tr), t=t, x=xs, value=v,
                              reference_lower_bound=ref_lb, corpus=True))
            return
    res.broken_obligation('C04 corpus case: element not found', 'UnitSquare after two uniform refinements has no leaf t=[0,1/4] x=[0,1/4]')


def search(res, tier, boost=False):
    corpus_evaluate_exact(res)
    rng = seed_rng(res.seed, 'C04s')

    # cache directory + element orders: the matrix a call gets is the table of ITS pairs in ITS order (rows = test, columns =
    # trial): with the elements sorted by time slab it is block lower triangular whatever an earlier call stored
    from ..slchecks import cache_order_probe
    import src.parametrization as Pm_
    from src.mesh import MeshParametrized
    from src.single_layer import SingleLayerOperator
    with contextlib.redirect_stdout(io.StringIO()):
        mesh_c = MeshParametrized(Pm_.UnitSquare())
        mesh_c.uniform_refine()
        ref_c = SingleLayerOperator(mesh_c)
    els_c = list(mesh_c.leaf_elements)
    for nm, ph, got, lst in cache_order_probe(lambda d: SingleLayerOperator(mesh_c, cache_dir=d), lambda op, l: op.bilform_matrix(l, l), els_c, rng):
        res.count(('cache-order-matrix', nm, ph), True)
        bad = None
        for i_, te in enumerate(lst):
            for j_, tr in enumerate(lst):
                acausal = te.time_interval[1] <= tr.time_interval[0]
                if acausal and got[i_, j_] != 0:
                    bad = ('acausal-entry-nonzero', i_, j_)
                elif not acausal and not got[i_, j_] > 0:
                    bad = ('entry-not-positive', i_, j_)
                elif got[i_, j_] != ref_c.bilform(tr, te):
                    bad = ('matrix-not-rows-test-columns-trial', i_, j_)
                if bad:
                    break
            if bad:
                break
        if bad:
            res.violation('C04:%s:cache-element-order' % bad[0], dict(order=nm, phase=ph, i=bad[1], j=bad[2], test=describe(lst[bad[1]]), trial=describe(lst[bad[2]]),
                          value=float(got[bad[1], bad[2]]), note='one cache directory, the same elements requested in another order'))
            break
    curves = ['UnitSquare', 'Circle', 'LShape', 'UnitInterval', 'PiSquare']
    n_mesh = (2 if tier == 'quick' else 10) * (2 if boost else 1)
    for mi in range(n_mesh):
        cname = curves[mi % len(curves)]
        gamma, mesh = random_real_mesh(rng, cname, rng.randint(4, 14), time_grid=rng.choice([[0, 1], [0, 0.5, 1], [0, 1, 3], [0, 0.25, 1, 1.5]]))   # incl. slabs of different lengths
        ops = RealOps(gamma, mesh)
        elems = list(mesh.leaf_elements)
        # matrix: block lower triangular, rows = test
        for pw in (False, True):
            SL = ops.SL[pw]
            with contextlib.redirect_stdout(io.StringIO()):
                mat = SL.bilform_matrix(elems, elems)
            for i, te in enumerate(elems):
                for j, tr in enumerate(elems):
                    acausal = te.time_interval[1] <= tr.time_interval[0]
                    v = mat[i, j]
                    res.count(('mat', cname, mi, pw, i, j), True)
                    if acausal and not (v == 0):
                        res.violation('C04:acausal-entry-nonzero', dict(curve=cname, pw_exact=pw, test=describe(te), trial=describe(tr), value=float(v)))
                    single = SL.bilform(tr, te)
                    if acausal and not (single == 0):
                        res.violation('C04:acausal-bilform-nonzero', dict(curve=cname, pw_exact=pw, test=describe(te), trial=describe(tr), value=float(single)))
                    if not acausal and (pw is False or te.gamma_space is tr.gamma_space and cname != 'Circle'):
                        if rng.random() < (0.15 if tier == 'quick' else 0.5):
                            sc = ops.scale(te, tr)
                            ref = ops.ref(te, tr)
                            if v < -1e-15 * sc:
                                res.violation('C04:negative-entry', dict(curve=cname, pw_exact=pw, test=describe(te), trial=describe(tr), value=float(v), scale=sc))
                            if ref > 1e-250 and not v > 0:
                                res.violation('C04:entry-not-positive', dict(curve=cname, pw_exact=pw, test=describe(te), trial=describe(tr), value=float(v), reference=ref))
        # the worker-pool path (causality guard of MP_SL_matrix_col), as a history of calls on ONE operator with the SAME
        # list objects reordered in place between the calls (time-slab order gives the block lower-triangular form)
        SL = ops.SL[False]
        reps = -(-10 // len(elems))
        # (square, more test than trial elements - the estimators' fine-test x coarse-trial matrices -, or the reverse)
        shape = ('tall', 'wide', 'square')[(mi + res.seed) % 3]
        lt, lr = list(elems) * (reps + (shape == 'tall')), list(elems) * (reps + (shape == 'wide'))
        if shape == 'tall':
            lt += [rng.choice(elems)]
        rng.shuffle(lt)
        rng.shuffle(lr)
        for step in ('shuffled', 'time-ordered', 'reversed'):
            if step == 'time-ordered':
                lt.sort(key=lambda e: (float(e.time_interval[0]), float(e.time_interval[1])))
                lr.sort(key=lambda e: (float(e.time_interval[0]), float(e.time_interval[1])))
            elif step == 'reversed':
                lt.reverse()
                lr.reverse()
            with contextlib.redirect_stdout(io.StringIO()):
                mp_mat = SL.bilform_matrix(lt, lr, use_mp=True)
            bad = 0
            for i, te in enumerate(lt):
                for j, tr in enumerate(lr):
                    acausal = te.time_interval[1] <= tr.time_interval[0]
                    res.count(('mpmat', cname, mi, step, i, j), True)
                    single = SL.bilform(tr, te)
                    if bad < 3 and acausal and mp_mat[i, j] != 0:
                        bad += 1
                        res.violation('C04:acausal-entry-nonzero:pool-path', dict(curve=cname, call=step, i=i, j=j, test=describe(te),
                                      trial=describe(tr), value=float(mp_mat[i, j]),
                                      history='bilform_matrix(lt, lr, use_mp=True) on one operator; lt, lr shuffled, then '
                                      'sorted by time slab in place, then reversed in place'))
                    elif bad < 3 and not acausal and mp_mat[i, j] != single:
                        bad += 1
                        res.violation('C04:matrix-not-rows-test-columns-trial:pool-path', dict(curve=cname, call=step, i=i, j=j,
                                      test=describe(te), trial=describe(tr), entry=float(mp_mat[i, j]), single=float(single),
                                      history='bilform_matrix(lt, lr, use_mp=True) on one operator; lt, lr shuffled, then '
                                      'sorted by time slab in place, then reversed in place'))
        # small rectangular sub-lists (N*M < 100: the inline path) must be the table of single calls, rows = test
        for _ in range(6 if tier == 'quick' else 30):
            nt, nr = rng.randint(1, 9), rng.randint(1, 9)
            if nt * nr >= 100 or len(elems) < 2:
                continue
            sub_t = [rng.choice(elems) for _ in range(nt)]
            sub_r = [rng.choice(elems) for _ in range(nr)]
            for pw in (False, True):
                SL = ops.SL[pw]
                with contextlib.redirect_stdout(io.StringIO()):
                    m2 = SL.bilform_matrix(sub_t, sub_r)
                for i, te in enumerate(sub_t):
                    for j, tr in enumerate(sub_r):
                        res.count(('submat', cname, mi, pw, nt, nr, i, j), True)
                        acausal = te.time_interval[1] <= tr.time_interval[0]
                        if acausal and m2[i, j] != 0:
                            res.violation('C04:acausal-entry-nonzero:small-matrix', dict(curve=cname, pw_exact=pw, shape=[nt, nr], i=i, j=j,
                                          test=describe(te), trial=describe(tr), value=float(m2[i, j])))
                        elif m2[i, j] != SL.bilform(tr, te):
                            res.violation('C04:matrix-not-rows-test-columns-trial:small-matrix', dict(curve=cname, pw_exact=pw, shape=[nt, nr],
                                          i=i, j=j, test=describe(te), trial=describe(tr), entry=float(m2[i, j]), single=float(SL.bilform(tr, te))))
        # pointwise: zero for t <= start of the trial element (t equal included)
        SL = ops.SL[False]
        for tr in rng.sample(elems, min(6, len(elems))):
            t0 = tr.time_interval[0]
            for t in (t0, t0 - 0.25 * float(tr.h_t)):
                if t < 0:
                    continue
                xh = rng.uniform(0, float(gamma.gamma_length))
                x = gamma.eval(np.array([xh]))
                res.count(('pt', cname, mi, float(t), xh), True)
                if SL.evaluate(tr, t, xh, x.reshape(2, 1)) != 0:
                    res.violation('C04:evaluate-acausal-nonzero', dict(curve=cname, trial=describe(tr), t=float(t), x_hat=xh))
                if SL.potential(tr, t, x.reshape(2, 1) + 0.3) != 0:
                    res.violation('C04:potential-acausal-nonzero', dict(curve=cname, trial=describe(tr), t=float(t)))
                if cname != 'Circle' and SL.evaluate_exact(tr, t, float(tr.space_interval[0])) != 0:
                    res.violation('C04:evaluate_exact-acausal-nonzero', dict(curve=cname, trial=describe(tr), t=float(t)))
        # pointwise sign: for t later than the start of the trial element evaluate, evaluate_exact and potential are
        # never negative beyond rounding (>= -1e-15*sqrt(t - t0), the size of the terms of the closed forms), and strictly
        # positive when the exact value certainly exceeds 1e-250: the exact value is the integral of the heat kernel
        # G(t-s, |x-y|) >= exp(-dmax^2/(2 zmax))/(4 pi zmax) over s in [t0, t0+delta], y in [x0, x1] with zmax = t - t0,
        # delta = min(zmax/2, t1 - t0), dmax >= every distance from x to the element -- a rigorous lower bound
        L = float(gamma.gamma_length)
        seen = res.__dict__.setdefault('_c04_sign_seen', {})

        def flag(key, data):
            # at most three reports per kind and run: the key names the call site, the data the failing input
            seen[key] = seen.get(key, 0) + 1
            if seen[key] <= 3:
                res.violation(key, data)

        def lower_bound(dmax, t, t0, t1, hx):
            zmax = t - t0
            delta = min(zmax / 2, t1 - t0)
            e = dmax * dmax / (2 * zmax)
            return 0.0 if e > 650 else delta * hx * math.exp(-e) / (4 * math.pi * zmax)

        # plus elements very thin in time (time level 10..16) - the value long after such an element has ended is tiny
        # against the terms it is computed from, but far above the underflow range and strictly positive
        from ..slchecks import StubElem, addr_interval
        thin = []
        for _ in range(3 if tier == 'quick' else 8):
            pc = rng.randrange(len(gamma.pw_gamma))
            lt = rng.randint(10, 16)
            plen = float(gamma.pw_start[pc + 1] - gamma.pw_start[pc])
            lx = 0
            while (plen * 2.0**-lx)**2 * 2.0**lt > 16:
                lx += 1
            if len(gamma.pw_gamma) == 1:
                lx = max(lx, 2)
            kt = rng.choice([0, 1, rng.randrange(2**lt)])
            thin.append(StubElem((kt * 2.0**-lt, (kt + 1) * 2.0**-lt), addr_interval(gamma, (pc, lx, rng.randrange(2**lx))), gamma.pw_gamma[pc]))
        try:
            SL._init_elems(thin)
        except Exception:  # noqa: BLE001 - the operator refuses elements that are not mesh elements: they are left out
            res.bump('thin_stub_section_skipped')
            thin = []
        for tr in rng.sample(elems, min(6 if tier == 'quick' else 10, len(elems))) + thin:
            t0, t1 = float(tr.time_interval[0]), float(tr.time_interval[1])
            x0, x1 = float(tr.space_interval[0]), float(tr.space_interval[1])
            ht = t1 - t0
            k_piece = max(k for k in range(len(gamma.pw_start) - 1) if float(gamma.pw_start[k]) <= x0)
            p0, p1 = float(gamma.pw_start[k_piece]), float(gamma.pw_start[k_piece + 1])
            ys = gamma.eval(np.array([x0, x1, 0.5 * (x0 + x1)]))
            for t in (t0 + ht * 2.0**-20, t0 + rng.random() * ht, t1, t1 + ht * 2.0**-20, t1 + rng.random() * ht, t1 + 8 * ht + rng.random()):
                tol = 1e-15 * math.sqrt(t - t0)
                # for t > t1 the values are differences of two Ei terms: ask for positivity only if their arguments differ by 1e-3 relative
                safe_gap = t <= t1 or (t - t0) >= 1.001 * (t - t1)
                for xh in (x0, x1, 0.5 * (x0 + x1), x0 + rng.random() * (x1 - x0), rng.uniform(0, L), rng.uniform(0, L), 0.0, L):
                    x = gamma.eval(np.array([xh])).reshape(2, 1)
                    # upper bound of the distance from x to a point of the element: distance to a sampled point + element length
                    dmax = float(np.max(np.sqrt(np.sum((ys - x)**2, axis=0)))) + (x1 - x0)
                    ref_lb = lower_bound(dmax, t, t0, t1, x1 - x0)
                    try:
                        v = float(SL.evaluate(tr, t, xh, x))
                    except AssertionError:
                        continue      # point closer than 1e-5 to an end point from inside: documented precondition of the rules
                    res.count(('ptsign', 'evaluate', cname, mi, t, xh), True)
                    if v < -tol or math.isnan(v):
                        flag('C04:evaluate-negative', dict(curve=cname, trial=describe(tr), t=float(t), x_hat=float(xh), value=v, tol=tol))
                    elif ref_lb > 1e-250 and safe_gap and not v > 0:
                        flag('C04:evaluate-not-positive', dict(curve=cname, trial=describe(tr), t=float(t), x_hat=float(xh), value=v, reference_lower_bound=ref_lb))
                    xo = x + np.array([[0.3], [0.3]]) * (1 if rng.random() < 0.5 else -0.11)
                    dmo = float(np.max(np.sqrt(np.sum((ys - xo)**2, axis=0)))) + (x1 - x0)
                    ref_lb = lower_bound(dmo, t, t0, t1, x1 - x0)
                    v = float(SL.potential(tr, t, xo))
                    res.count(('ptsign', 'potential', cname, mi, t, xh), True)
                    if v < -tol or math.isnan(v):
                        flag('C04:potential-negative', dict(curve=cname, trial=describe(tr), t=float(t), x=[float(xo[0, 0]), float(xo[1, 0])], value=v, tol=tol))
                    elif ref_lb > 1e-250 and safe_gap and not v > 0:
                        flag('C04:potential-not-positive', dict(curve=cname, trial=describe(tr), t=float(t), x=[float(xo[0, 0]), float(xo[1, 0])], value=v, reference_lower_bound=ref_lb))
                if cname != 'Circle':
                    for xs in (x0, x1, 0.5 * (x0 + x1), x0 + rng.random() * (x1 - x0), p0, p1, rng.uniform(p0, p1), rng.uniform(p0, p1)):
                        v = SL.evaluate_exact(tr, t, float(xs))
                        res.count(('ptsign', 'evaluate_exact', cname, mi, t, xs), True)
                        ref_lb = lower_bound(max(abs(xs - x0), abs(xs - x1)), t, t0, t1, x1 - x0)
                        if v is None or math.isnan(float(v)) or float(v) < -tol:
                            flag('C04:evaluate_exact-negative', dict(curve=cname, trial=describe(tr), t=float(t), x=float(xs), value=None if v is None else float(v), tol=tol))
                        elif STRICT_POSITIVE_EVALUATE_EXACT and ref_lb > 1e-250 and safe_gap and not float(v) > 0:
                            flag('C04:evaluate_exact-not-positive', dict(curve=cname, trial=describe(tr), t=float(t), x=float(xs), value=float(v), reference_lower_bound=ref_lb,
                                          note='closed form: erf(h/2sqrt(z)) - erf(k/2sqrt(z)) is 0 in binary64 once both arguments exceed ~5.9, the remaining -h*Ei(..)+k*Ei(..) has the wrong sign'))
