"""C04 — causality: the single-layer matrix is Volterra-structured and never negative."""
import contextlib
import io
from fractions import Fraction as F

import numpy as np

from ..common import q2s, run_driver, seed_rng
from ..qnum import Q, installed
from ..sllib import TIME_LATTICE, Fixture, random_space_intervals, result_str
from ..slchecks import RealOps, corr_bilform, corr_mpcol, describe, random_real_mesh, with_generated

PROP_MODS = ['Stbem.Props.C04', 'Stbem.Props.PanelsTie']
RULE = ('correspondence (exact, Q numbers with rational stand-in special functions): real bilform on both paths, '
        'evaluate, evaluate_exact and potential against the Lean model for all ordered pairs of time intervals of a '
        'lattice (equal, nested, touching, overlapping, separated, both orders) x space configurations: results must '
        'be the same rationals, in particular literally zero exactly when the model says zero. search (floats, real '
        'meshes on all curves): acausal => == 0 exactly on bilform, bilform_matrix (all paths), evaluate, '
        'evaluate_exact, potential, t equal to the start included; causal => >= -1e-15*sqrt(D_i D_j) and > 0 when the '
        'reference exceeds 1e-250; block lower-triangular matrix with rows = test. non-trivial = acausal-touching or '
        'causal pair; distinct = distinct request.')
TRUSTED = [
    'Lean 4.33 kernel; axioms propext, Classical.choice, Quot.sound only',
    'translate/formulas.py (validated on every run by exact execution of the real functions with stand-ins)',
    'hand-written model lean/Stbem/Model/SingleLayer.lean tied by exact correspondence (harness/sllib.py, qnum.py) and, for its '
    'control flow, by Props/PanelsTie.lean to Gen/Panels.lean which translate/panels.py regenerates from the source on every run',
    'positivity in binary64 (cancellation in the four-term formula) is not modelled: search only',
]
ASSUMPTIONS = ['exact arithmetic; special functions are parameters']


def translate_formulas(res):
    import os, sys
    from ..common import LEAN, VERIF, write_if_changed
    sys.path.insert(0, os.path.join(VERIF, 'translate'))
    import formulas
    formulas.generate(os.environ.get('STBEM_REPO', '/repo'), os.path.join(LEAN, 'Stbem', 'Gen'), write_if_changed)


def translate_panels(res):
    """Regenerates lean/Stbem/Gen/Panels.lean (control flow of __integrate, bilform, evaluate, _init_elems,
    MP_SL_matrix_col, the loop nests of bilform_matrix) from the working tree of the repository under test; a
    construct the translator does not understand raises (= broken obligation)."""
    import os, sys
    from ..common import LEAN, REPO, VERIF, write_if_changed
    sys.path.insert(0, os.path.join(VERIF, 'translate'))
    import panels
    stats = panels.generate(REPO, os.path.join(LEAN, 'Stbem', 'Gen'), write_if_changed)
    for k in ('branches', 'returns', 'asserts', 'panel_leaves', 'recursive_calls', 'assignments', 'closures', 'float_constants'):
        res.bump('translated_' + k, stats.get(k, 0))
    res.count(('translated', 'single_layer.py control flow'), True, n=stats.get('branches', 0) + stats.get('returns', 0))


def translate(res):
    translate_formulas(res)
    translate_panels(res)


def correspond(res, tier):
    corr_bilform(res, tier, 'C04', curves=('unitsquare', 'interval'))
    corr_mpcol(res, tier, 'C04m')
    # zero structure of the pointwise evaluations, exactly
    rng = seed_rng(res.seed, 'C04e')
    for curve in ('unitsquare', 'interval'):
        fx = Fixture(rng, curve, False)
        lines = fx.context_lines()
        expect = ['ok'] * len(lines)
        ivs = random_space_intervals(rng, fx, 6)
        with installed(fx.standins):
            for (t0, t1) in TIME_LATTICE[:6]:
                for xa in ivs[:3]:
                    e = fx.elem(t0, t1, xa[0], xa[1])
                    fx.SL._init_elems([e])
                    for t in (t0 - F(1, 8), t0, t0 + F(1, 16), t1, t1 + F(1, 4)):
                        if t < 0:
                            continue
                        for xh in (xa[0], (xa[0] + xa[1]) / 2, xa[1], fx.length * F(5, 16), F(0), fx.length):
                            x, _ = fx.gamma(xh)
                            v = fx.SL.evaluate(e, Q(t), Q(xh), x)
                            lines.append('sl eval %s %s %s %s %s' % (e.encode(), q2s(t), q2s(xh), q2s(x[0, 0]), q2s(x[1, 0])))
                            expect.append(result_str(v))
                            v = fx.SL.potential(e, Q(t), x + Q(F(1, 3)))
                            lines.append('sl pot %s %s %s %s' % (e.encode(), q2s(t), q2s(x[0, 0] + Q(F(1, 3))), q2s(x[1, 0] + Q(F(1, 3)))))
                            expect.append(result_str(v))
                            if fx.piece_index(min(xh, fx.length - F(1, 1024))) == e.piece_idx or xh in (xa[0], xa[1]):
                                v = fx.SL.evaluate_exact(e, Q(t), Q(xh))
                                lines.append('sl evalx %s %s %s' % (e.encode(), q2s(t), q2s(xh)))
                                expect.append('none' if v is None else result_str(v))
        with_generated(lines, expect)
        out = run_driver(lines)
        for line, want, got in zip(lines, expect, out):
            res.count(('eval', line), want != '0')
            if want != got:
                res.broken_obligation('correspondence C04: pointwise evaluation of model and code differ',
                                      'line: %s\npython: %s\nmodel: %s' % (line, want[:300], got[:300]))
                return


def search(res, tier, boost=False):
    rng = seed_rng(res.seed, 'C04s')
    curves = ['UnitSquare', 'Circle', 'LShape', 'UnitInterval', 'PiSquare']
    n_mesh = (2 if tier == 'quick' else 10) * (2 if boost else 1)
    for mi in range(n_mesh):
        cname = curves[mi % len(curves)]
        gamma, mesh = random_real_mesh(rng, cname, rng.randint(4, 14), time_grid=rng.choice([[0, 1], [0, 0.5, 1]]))
        ops = RealOps(gamma, mesh)
        elems = list(mesh.leaf_elements)
        # matrix: block lower triangular, rows = test
        for pw in (False, True):
            SL = ops.SL[pw]
            with contextlib.redirect_stdout(io.StringIO()):
                mat = SL.bilform_matrix(elems, elems)
            for i, te in enumerate(elems):
                for j, tr in enumerate(elems):
                    acausal = te.time_interval[1] <= tr.time_interval[0]
                    v = mat[i, j]
                    res.count(('mat', cname, mi, pw, i, j), True)
                    if acausal and not (v == 0):
                        res.violation('C04:acausal-entry-nonzero', dict(curve=cname, pw_exact=pw, test=describe(te), trial=describe(tr), value=float(v)))
                    single = SL.bilform(tr, te)
                    if acausal and not (single == 0):
                        res.violation('C04:acausal-bilform-nonzero', dict(curve=cname, pw_exact=pw, test=describe(te), trial=describe(tr), value=float(single)))
                    if not acausal and (pw is False or te.gamma_space is tr.gamma_space and cname != 'Circle'):
                        if rng.random() < (0.15 if tier == 'quick' else 0.5):
                            sc = ops.scale(te, tr)
                            ref = ops.ref(te, tr)
                            if v < -1e-15 * sc:
                                res.violation('C04:negative-entry', dict(curve=cname, pw_exact=pw, test=describe(te), trial=describe(tr), value=float(v), scale=sc))
                            if ref > 1e-250 and not v > 0:
                                res.violation('C04:entry-not-positive', dict(curve=cname, pw_exact=pw, test=describe(te), trial=describe(tr), value=float(v), reference=ref))
        # the worker-pool path (causality guard of MP_SL_matrix_col), as a history of calls on ONE operator with the SAME
        # list objects reordered in place between the calls (time-slab order gives the block lower-triangular form)
        SL = ops.SL[False]
        reps = -(-10 // len(elems))
        lt, lr = list(elems) * reps, list(elems) * reps
        rng.shuffle(lt)
        rng.shuffle(lr)
        for step in ('shuffled', 'time-ordered', 'reversed'):
            if step == 'time-ordered':
                lt.sort(key=lambda e: (float(e.time_interval[0]), float(e.time_interval[1])))
                lr.sort(key=lambda e: (float(e.time_interval[0]), float(e.time_interval[1])))
            elif step == 'reversed':
                lt.reverse()
                lr.reverse()
            with contextlib.redirect_stdout(io.StringIO()):
                mp_mat = SL.bilform_matrix(lt, lr, use_mp=True)
            bad = 0
            for i, te in enumerate(lt):
                for j, tr in enumerate(lr):
                    acausal = te.time_interval[1] <= tr.time_interval[0]
                    res.count(('mpmat', cname, mi, step, i, j), True)
                    single = SL.bilform(tr, te)
                    if bad < 3 and acausal and mp_mat[i, j] != 0:
                        bad += 1
                        res.violation('C04:acausal-entry-nonzero:pool-path', dict(curve=cname, call=step, i=i, j=j, test=describe(te),
                                      trial=describe(tr), value=float(mp_mat[i, j]),
                                      history='bilform_matrix(lt, lr, use_mp=True) on one operator; lt, lr shuffled, then '
                                      'sorted by time slab in place, then reversed in place'))
                    elif bad < 3 and not acausal and mp_mat[i, j] != single:
                        bad += 1
                        res.violation('C04:matrix-not-rows-test-columns-trial:pool-path', dict(curve=cname, call=step, i=i, j=j,
                                      test=describe(te), trial=describe(tr), entry=float(mp_mat[i, j]), single=float(single),
                                      history='bilform_matrix(lt, lr, use_mp=True) on one operator; lt, lr shuffled, then '
                                      'sorted by time slab in place, then reversed in place'))
        # small rectangular sub-lists (N*M < 100: the inline path) must be the table of single calls, rows = test
        for _ in range(6 if tier == 'quick' else 30):
            nt, nr = rng.randint(1, 9), rng.randint(1, 9)
            if nt * nr >= 100 or len(elems) < 2:
                continue
            sub_t = [rng.choice(elems) for _ in range(nt)]
            sub_r = [rng.choice(elems) for _ in range(nr)]
            for pw in (False, True):
                SL = ops.SL[pw]
                with contextlib.redirect_stdout(io.StringIO()):
                    m2 = SL.bilform_matrix(sub_t, sub_r)
                for i, te in enumerate(sub_t):
                    for j, tr in enumerate(sub_r):
                        res.count(('submat', cname, mi, pw, nt, nr, i, j), True)
                        acausal = te.time_interval[1] <= tr.time_interval[0]
                        if acausal and m2[i, j] != 0:
                            res.violation('C04:acausal-entry-nonzero:small-matrix', dict(curve=cname, pw_exact=pw, shape=[nt, nr], i=i, j=j,
                                          test=describe(te), trial=describe(tr), value=float(m2[i, j])))
                        elif m2[i, j] != SL.bilform(tr, te):
                            res.violation('C04:matrix-not-rows-test-columns-trial:small-matrix', dict(curve=cname, pw_exact=pw, shape=[nt, nr],
                                          i=i, j=j, test=describe(te), trial=describe(tr), entry=float(m2[i, j]), single=float(SL.bilform(tr, te))))
        # pointwise: zero for t <= start of the trial element (t equal included)
        SL = ops.SL[False]
        for tr in rng.sample(elems, min(6, len(elems))):
            t0 = tr.time_interval[0]
            for t in (t0, t0 - 0.25 * float(tr.h_t)):
                if t < 0:
                    continue
                xh = rng.uniform(0, float(gamma.gamma_length))
                x = gamma.eval(np.array([xh]))
                res.count(('pt', cname, mi, float(t), xh), True)
                if SL.evaluate(tr, t, xh, x.reshape(2, 1)) != 0:
                    res.violation('C04:evaluate-acausal-nonzero', dict(curve=cname, trial=describe(tr), t=float(t), x_hat=xh))
                if SL.potential(tr, t, x.reshape(2, 1) + 0.3) != 0:
                    res.violation('C04:potential-acausal-nonzero', dict(curve=cname, trial=describe(tr), t=float(t)))
                if cname != 'Circle' and SL.evaluate_exact(tr, t, float(tr.space_interval[0])) != 0:
                    res.violation('C04:evaluate_exact-acausal-nonzero', dict(curve=cname, trial=describe(tr), t=float(t)))
