"""C18 — curves are arc-length, closed, piecewise consistent; mesh elements sit on one piece; at least three
elements around a closed curve in every time slab."""
import inspect
import math
import os
from fractions import Fraction as F

import numpy as np

from ..common import q2s, run_driver, seed_rng, silence_stdout
from ..meshgen import Batch, op_json, op_line, random_op
from ..meshlib import PyMesh, canon, dump_leaves, dump_mesh, enc
from ..param_tie import correspond_generated, generated_twin

# which `MeshParametrized` guard the model is run with: 0 = the pinned code (`len(self.roots) < 3`, counts the roots
# of ALL time slabs), 1 = the repaired code (`len(initial_space_mesh) - 1 < 3`, counts one slab)
GUARD_PER_SLAB = 1
GUARD_PER_SLAB = int(os.environ.get('C18_GUARD_PER_SLAB', GUARD_PER_SLAB))   # override for experiments only

from ..meshops_tie import PROP_MOD_C18 as MESHOPS_PROP_MOD, TRUSTED as MESHOPS_TRUSTED  # noqa: E402
from ..param_tie import PROP_MOD as PARAM_PROP_MOD, PROP_MOD_CIRCLE as PARAM_PROP_MOD_CIRCLE, TRUSTED as PARAM_TRUSTED  # noqa: E402

PROP_MODS = ['Stbem.Props.C18', MESHOPS_PROP_MOD, PARAM_PROP_MOD, PARAM_PROP_MOD_CIRCLE]
RULE = ('(a) curves: the real shipped curve objects (UnitSquare, LShape, UnitInterval: binary64 values are exact on the '
        'dyadic parameter lattice; PiSquare structurally: directions / base points exactly, parameters divided by pi) '
        'and random axis-parallel integer / dyadic polygons built by the real PiecewisePolygon constructor are compared '
        'with the Lean polygon model: acceptance, pw_start, (x_start, a, direct) of every piece, eval() on the lattice '
        'k/4 incl. all break points and out-of-range parameters, every pw_gamma[i] alone; EVERY such request is also put to the '
        'definitions REGENERATED from src/parametrization.py on this run (`gparam`, translate/paramgen.py; they contain the '
        'constructor\'s finite-difference self check, so a polygon the real constructor rejects must be rejected by them), plus '
        'the shipped classes through their generated constructors, `circle` with rational stand-ins for cos / sin on the real '
        'function, `line` on Pythagorean sides, and the NumPy prelude of the generated file against NumPy itself. (b) meshes: the real '
        'MeshParametrized for every curve x time grids with 1..6 slabs x space grids (None, the break points, break '
        'points plus extra points, grids missing break points) against `mesh initp` of the model (leaf dump with piece '
        'index, vertices, neighbours, flags), followed by random refinement histories compared after every operation. '
        'pi-dependent curves additionally with pi replaced by the rational 355/113 in pw_start (exact histories). '
        'search (model-independent): chord <= arc and exact unit speed per piece, finite-difference speed, piece '
        'lengths = side lengths, continuity, closure, eval = piece (scalar and array), piece of every leaf after random '
        'refinements, >= 3 leaves around a closed curve in every slab / cross-section, touching in <= 1 end point. '
        'non-trivial = polygon with >= 2 sides or mesh history with >= 1 operation; distinct = distinct input.')
TRUSTED = [
    'Lean 4.33 kernel; axioms propext, Classical.choice, Quot.sound only',
    'hand-written models lean/Stbem/Model/Param.lean (polygons over Q) and Stbem.Mesh.initParam (Model/Mesh.lean), tied '
    'to src/parametrization.py / src/mesh.py by this correspondence run (Driver/ParamCmd.lean, Driver/MeshCmd.lean)',
    'not modelled: binary64 rounding in line() (np.linalg.norm, division) -- the bit-exact end-point assertions of the '
    'constructor are preconditions; the finite-difference arc-length sampling of PiecewiseParametrization.__init__ '
    '(it can only reject); the circle is treated over the reals with Mathlib cos/sin, not executed',
    MESHOPS_TRUSTED,
    PARAM_TRUSTED,
]
ASSUMPTIONS = ['polygon coordinates and running arc lengths are exactly representable (integers / dyadic numbers); '
               'np.select returns the first matching choice',
               'the initial space grid is strictly increasing, starts at 0, ends at the curve length and (for the '
               'one-piece-per-element statements) contains the break points']

PI_Q = F(355, 113)

SHIPPED = {
    # name: (vertices of the property text / shipped source, closed, scale)
    'UnitSquare': ([(0, 0), (1, 0), (1, 1), (0, 1), (0, 0)], True, 1),
    'PiSquare': ([(0, 0), (1, 0), (1, 1), (0, 1), (0, 0)], True, 'pi'),
    'LShape': ([(0, 0), (0, -1), (1, -1), (1, 1), (-1, 1), (-1, 0), (0, 0)], True, 1),
    'UnitInterval': ([(0, 0), (1, 0)], False, 1),
    'Circle': (None, True, 'pi'),
}


def make_real(name):
    from src import parametrization as P
    with np.errstate(all='ignore'):
        return getattr(P, name)()


def enc_verts(vs):
    return ';'.join('%s,%s' % (q2s(F(x)), q2s(F(y))) for x, y in vs) if vs else '-'


def show_pt(col):
    return '%s:%s' % (q2s(col[0]), q2s(col[1]))


def piece_data(fun):
    """(x_start, a, direct) captured by the closure that `line` returns."""
    nl = inspect.getclosurevars(fun).nonlocals
    return nl['x_start'], np.asarray(nl['a']).flatten(), np.asarray(nl['direct']).flatten()


def show_real_curve(curve):
    pieces = []
    for g in curve.pw_gamma:
        xs, a, d = piece_data(g)
        pieces.append(':'.join(q2s(v) for v in (xs, a[0], a[1], d[0], d[1])))
    return 'ok %s %s' % (','.join(q2s(v) for v in curve.pw_start), ';'.join(pieces))


def lattice(L, den=4):
    """Parameters k/den in [0, L] (all integer break points included)."""
    return [F(k, den) for k in range(0, int(L * den) + 1)]


def real_eval_lines(curve, xs):
    """eval() of the real curve at the exact parameters xs (as floats, exact), once vectorised, once scalar."""
    arr = curve.eval(np.array([float(x) for x in xs]))
    vec = ' '.join(show_pt(arr[:, j]) for j in range(len(xs)))
    sca = ' '.join(show_pt(np.asarray(curve.eval(float(x))).reshape(2)) for x in xs)
    return vec, sca


# ------------------------------------------------------------------------------------------------
# random axis-parallel polygons with exactly representable data
def random_polygon(rng):
    closed = rng.random() < 0.7
    scale = rng.choice([1, 1, 1, 2, F(1, 2), F(1, 4), 3])
    n = rng.randint(1, 7)
    pts = [(rng.randint(-3, 3), rng.randint(-3, 3))]
    zero_side = rng.random() < 0.06
    for k in range(n):
        x, y = pts[-1]
        step = rng.choice([-3, -2, -1, 1, 2, 3])
        if zero_side and k == n // 2:
            step = 0
        if rng.random() < 0.5:
            x += step
        else:
            y += step
        pts.append((x, y))
    if closed and rng.random() < 0.93:
        x, y = pts[-1]
        x0, y0 = pts[0]
        if x != x0:
            pts.append((x0, y))
        if y != y0:
            pts.append((x0, y0))
    return [(F(x) * scale, F(y) * scale) for x, y in pts], closed


# fixed cases: an arc-length polygon of length 49 with its corner at 24 -- one of the constructor's 50 finite-difference
# sample points (1e-4 + 24 * (49 - 2e-4) / 49) falls within 1e-5 of the corner, so the real constructor rejects it
# although every clause of C18 holds for it (model: accepted); the shipped curves; a reversal; a closed "needle"
POLY_CORPUS = [
    ([(F(0), F(0)), (F(24), F(0)), (F(24), F(25))], False),
    ([(F(0), F(0)), (F(1), F(0)), (F(1), F(1)), (F(0), F(1)), (F(0), F(0))], True),
    ([(F(0), F(0)), (F(0), F(-1)), (F(1), F(-1)), (F(1), F(1)), (F(-1), F(1)), (F(-1), F(0)), (F(0), F(0))], True),
    ([(F(0), F(0)), (F(1), F(0))], False),
    ([(F(1), F(2)), (F(4), F(2)), (F(1), F(2))], True),
    ([(F(1), F(2)), (F(4), F(2)), (F(2), F(2))], False),
    ([(F(1), F(2))], False),
    ([(F(0), F(0)), (F(1), F(0)), (F(1), F(1))], True),
]


def build_real_polygon(vs, closed, int_dtype):
    from src.parametrization import PiecewisePolygon
    allint = all(x.denominator == 1 and y.denominator == 1 for x, y in vs)
    if int_dtype and allint:
        arrs = [np.array([int(x), int(y)]) for x, y in vs]
    else:
        arrs = [np.array([float(x), float(y)]) for x, y in vs]
    with np.errstate(all='ignore'):
        return PiecewisePolygon(arrs, closed=closed)


def fd_sampling_may_reject(vs):
    """True if one of the 50 sample points of the constructor's finite-difference test lies within 2.5e-5 of a
    corner (a break point where the direction changes)."""
    L = F(0)
    breaks = []
    for i in range(len(vs) - 1):
        (ax, ay), (bx, by) = vs[i], vs[i + 1]
        n = abs(bx - ax) + abs(by - ay)
        d = ((bx - ax) / n, (by - ay) / n) if n else None
        if i > 0 and d != prev:
            breaks.append(float(L))
        prev = d
        L += n
    pts = np.linspace(1e-4, float(L) - 1e-4)
    return any(abs(p - b) < 2.5e-5 for p in pts for b in breaks)


# ------------------------------------------------------------------------------------------------
def correspond_curves(res, tier, rng):
    lines, expect, what = [], [], []

    def add(line, want, w):
        lines.append(line)
        expect.append(want)
        what.append(w)

    # shipped exact polygons
    for name in ('UnitSquare', 'LShape', 'UnitInterval'):
        vs, closed, _ = SHIPPED[name]
        try:
            curve = make_real(name)
        except AssertionError as exc:
            res.broken_obligation('correspondence C18: shipped curve %s cannot be constructed' % name, repr(exc))
            continue
        ev = enc_verts(vs)
        cl = int(closed)
        if bool(curve.closed) != closed:
            res.violation('C18:closed-flag:%s' % name, dict(curve=name, closed=bool(curve.closed)))
        add('param poly %d %s' % (cl, ev), show_real_curve(curve), (name, 'structure'))
        L = F(curve.gamma_length)
        xs = lattice(L, 8)
        vec, sca = real_eval_lines(curve, xs)
        add('param eval %d %s %s' % (cl, ev, enc(xs)), vec, (name, 'eval vectorised'))
        add('param eval %d %s %s' % (cl, ev, enc(xs)), sca, (name, 'eval scalar'))
        for rep in range(3):
            ys = list(xs)
            rng.shuffle(ys)
            ys = ys[:max(3, len(ys) // (rep + 1))]
            vec2, _ = real_eval_lines(curve, ys)
            add('param eval %d %s %s' % (cl, ev, enc(ys)), vec2, (name, 'eval vectorised, unsorted parameters', rep))
        for bad in (F(-1, 8), L + F(1, 8)):
            try:
                curve.eval(float(bad))
                got = 'no-assert'
            except AssertionError:
                got = 'err:assert:range'
            add('param eval %d %s %s' % (cl, ev, q2s(bad)), got, (name, 'eval out of range'))
        for i, g in enumerate(curve.pw_gamma):
            ps = [x for x in lattice(L + 1, 4) if F(curve.pw_start[i]) - 1 <= x <= F(curve.pw_start[i + 1]) + 1]
            arr = g(np.array([float(x) for x in ps]))
            add('param piece %d %s %d %s' % (cl, ev, i, enc(ps)), ' '.join(show_pt(arr[:, j]) for j in range(len(ps))),
                (name, 'piece %d' % i))
        res.count(('shipped', name), True, n=3 * len(xs))
    # PiSquare: structurally the unit square scaled by pi
    try:
        curve = make_real('PiSquare')
    except AssertionError as exc:
        res.broken_obligation('correspondence C18: shipped curve PiSquare cannot be constructed', repr(exc))
        curve = None
    if curve is not None:
        correspond_pisquare(res, curve)
    correspond_random_polygons(res, tier, rng, lines, expect, what, add)


def correspond_pisquare(res, curve):
    vs, closed, _ = SHIPPED['PiSquare']
    model = run_driver(['param poly 1 ' + enc_verts(vs), 'param eval 1 %s %s' % (enc_verts(vs), enc(lattice(4, 8)))])
    tag, pw_s, pieces_s = model[0].split(' ')
    mpw = [F(v) for v in pw_s.split(',')]
    bad = []
    if len(curve.pw_start) != len(mpw) or any(abs(float(p) / math.pi - float(q)) > 1e-12 for p, q in zip(curve.pw_start, mpw)):
        bad.append('pw_start %r vs pi * %r' % (curve.pw_start, pw_s))
    for i, (g, ms) in enumerate(zip(curve.pw_gamma, pieces_s.split(';'))):
        xs_, a, d = piece_data(g)
        ms_ = [F(v) for v in ms.split(':')]
        if [F(float(v)) for v in d] != ms_[3:5]:
            bad.append('piece %d direction %r vs %r' % (i, d.tolist(), ms))
        if [float(v) for v in a] != [float(ms_[1]) * math.pi, float(ms_[2]) * math.pi]:
            bad.append('piece %d base point %r vs pi * %r' % (i, a.tolist(), ms))
        if xs_ != curve.pw_start[i]:
            bad.append('piece %d x_start %r is not pw_start[%d]' % (i, xs_, i))
    mpts = model[1].split(' ')
    for q, mp in zip(lattice(4, 8), mpts):
        # parameter: the real break point when q is an integer, else q * pi (clipped to the real length)
        x = float(curve.pw_start[int(q)]) if q.denominator == 1 else min(float(q) * math.pi, float(curve.gamma_length))
        p = np.asarray(curve.eval(x)).reshape(2) / math.pi
        mx, my = [float(F(v)) for v in mp.split(':')]
        if abs(p[0] - mx) > 1e-12 or abs(p[1] - my) > 1e-12:
            bad.append('eval(%r)/pi = %r vs model %s' % (x, p.tolist(), mp))
    res.count(('shipped', 'PiSquare'), True, n=len(mpts))
    if bad:
        res.broken_obligation('correspondence C18: PiSquare is not pi * (unit-square model)', '\n'.join(bad[:10]))



def correspond_random_polygons(res, tier, rng, lines, expect, what, add):
    # random polygons through the real constructor
    n = 150 if tier == 'quick' else 2500
    outcomes = {}
    for k in range(n + len(POLY_CORPUS)):
        vs, closed = random_polygon(rng) if k >= len(POLY_CORPUS) else POLY_CORPUS[k]
        int_dtype = rng.random() < 0.5
        ev, cl = enc_verts(vs), int(closed)
        try:
            curve = build_real_polygon(vs, closed, int_dtype)
            got = show_real_curve(curve)
        except AssertionError:
            curve, got = None, 'err'
        res.count(('poly', ev, cl), len(vs) >= 3)
        if k < 3:
            res.sample(dict(vertices=ev, closed=closed, real=got[:200]))
        if curve is None:
            outcomes.setdefault('rejected', []).append((ev, cl, vs))
            add('param poly %d %s' % (cl, ev), 'err', (ev, 'rejected polygon'))
            continue
        res.bump('polygons_accepted')
        add('param poly %d %s' % (cl, ev), got, (ev, 'structure'))
        L = F(curve.gamma_length)
        xs = lattice(L, 4 if L < 40 else 1)
        vec, sca = real_eval_lines(curve, xs)
        add('param eval %d %s %s' % (cl, ev, enc(xs)), vec, (ev, 'eval vectorised'))
        if k % 4 == 0:
            add('param eval %d %s %s' % (cl, ev, enc(xs)), sca, (ev, 'eval scalar'))
        i = rng.randrange(len(curve.pw_gamma))
        arr = curve.pw_gamma[i](np.array([float(x) for x in xs]))
        add('param piece %d %s %d %s' % (cl, ev, i, enc(xs)), ' '.join(show_pt(arr[:, j]) for j in range(len(xs))),
            (ev, 'piece %d' % i))
    out = run_driver(lines)
    # the same requests answered by the definitions regenerated from src/parametrization.py (they model the finite-difference
    # self check of the constructor: no exception for polygons the real constructor rejects)
    twins = [(generated_twin(l), want, w) for l, want, w in zip(lines, expect, what)]
    gout = run_driver([t[0] for t in twins])
    res.notes['generated_model_curve_lines'] = len(twins)
    for (line, want, w), got in zip(twins, gout):
        g = 'err' if got.startswith('err ') else got
        if g != want:
            res.broken_obligation('correspondence C18: definitions REGENERATED from src/parametrization.py (gparam) and the real code '
                                  'differ (%s)' % (w[1], ), 'line: %s\npython: %s\nmodel:  %s' % (line[:400], want[:1500], got[:1500]))
            break
    for line, want, got, w in zip(lines, expect, out, what):
        g = 'err' if got.startswith('err ') else got
        if g == want:
            continue
        if want == 'err' and got.startswith('ok'):
            # the model accepts, the code rejects: only legitimate reason = the unmodelled finite-difference sampling
            vs = [tuple(F(c) for c in p.split(',')) for p in line.split(' ')[3].split(';')]
            if fd_sampling_may_reject(vs):
                res.bump('polygons_rejected_by_fd_sampling_only')
                res.notes.setdefault('fd_sampling_rejections', [])
                if len(res.notes['fd_sampling_rejections']) < 3:
                    res.notes['fd_sampling_rejections'].append(line)
                continue
        res.broken_obligation('correspondence C18: polygon model and src/parametrization.py differ (%s)' % (w[1], ),
                              'line: %s\npython: %s\nmodel:  %s' % (line[:400], want[:1500], got[:1500]))
        break
    res.notes['curve_model_lines'] = len(lines)
    # documented float effect outside the model: the unit square scaled by 0.1 is rejected by the bit-exact tests
    try:
        build_real_polygon([(F(0), F(0)), (F(1, 10), F(0)), (F(1, 10), F(1, 10)), (F(0), F(1, 10)), (F(0), F(0))], True, False)
        res.notes['unit_square_times_0.1'] = 'accepted'
    except AssertionError:
        res.notes['unit_square_times_0.1'] = 'rejected by the bit-exact end-point test (binary64 rounding, outside the model)'


# ------------------------------------------------------------------------------------------------
# meshes on curves
def make_curve(name, standin):
    """The real curve object; with `standin` its break points are replaced by exact rationals (pi -> 355/113 for
    the pi-dependent curves), which is all MeshParametrized looks at."""
    curve = make_real(name)
    if standin:
        if SHIPPED[name][2] == 'pi':
            pw = [F(0), 2 * PI_Q] if name == 'Circle' else [k * PI_Q for k in range(5)]
        else:
            pw = [F(v) for v in curve.pw_start]
        curve.pw_start = pw
        curve.gamma_length = pw[-1]
    return curve


def time_grids(rng, nslabs, exact_floats):
    """Initial time grids with the given number of slabs."""
    out = [[F(k) for k in range(nslabs + 1)], [F(k, nslabs) for k in range(nslabs + 1)]]
    pts = sorted(rng.sample(range(1, 64), nslabs))
    out.append([F(0)] + [F(p, 64) if exact_floats else F(p, 63) for p in pts])
    if exact_floats:
        out = [[float(t) for t in T] for T in out if all(F(float(t)) == t for t in T)]
    return out


def space_grids(rng, curve, float_mode):
    """(X, contains all break points?): None, the break points, break points + extra points, one-piece curves with
    2 and 3 elements around, and grids that miss a break point.  Computed exactly, converted to binary64 (exactly
    representable by construction) in float mode."""
    pw = [F(p) for p in curve.pw_start]
    L = pw[-1]
    conv = (lambda v: float(v)) if float_mode else (lambda v: v)
    grids = [(None, True), (list(pw), True)]
    for _ in range(2):
        extra = set()
        for i in range(len(pw) - 1):
            for _ in range(rng.choice([0, 0, 1, 2])):
                extra.add(pw[i] + F(rng.randint(1, 7), 8) * (pw[i + 1] - pw[i]))
        grids.append((sorted(set(pw) | extra), True))
    if len(pw) == 2:
        grids.append(([F(0), L / 2, L], True))
        grids.append(([F(0), L / 4, L / 2, L], True))
        grids.append(([F(0), L / 8, L / 4, L / 2, L], True))
    if len(pw) > 2:
        # missing break points (outside the property's quantifier; model and code must still agree)
        k = rng.randrange(1, len(pw) - 1)
        grids.append(([p for j, p in enumerate(pw) if j != k], False))
        grids.append(([F(0), L], False))
    return [(X if X is None else [conv(x) for x in X], ok) for X, ok in grids]


def init_line(curve, X, T):
    pw = curve.pw_start
    return 'mesh initp %d %d %s %s %s' % (GUARD_PER_SLAB, int(bool(curve.closed)), enc(pw),
                                          enc(pw if X is None else X), enc(T))


def build_mesh(curve, X, T):
    from src.mesh import MeshParametrized
    with silence_stdout():
        return MeshParametrized(curve, initial_space_mesh=None if X is None else list(X), initial_time_mesh=list(T))


class ParamBatch(Batch):
    """`Batch` whose histories start from a real `MeshParametrized` (model: `mesh initp`)."""
    def add_param_history(self, name, standin, curve, X, T, ops_fn, full_dump_every=1):
        h = len(self.histories)
        hist = dict(curve=name, standin=standin, pw=[q2s(p) for p in curve.pw_start],
                    X=None if X is None else [q2s(x) for x in X], T=[q2s(t) for t in T], ops=[], status='ok')
        self.histories.append(hist)
        self.lines.append(init_line(curve, X, T))
        self.where.append((h, -1))
        try:
            mesh = build_mesh(curve, X, T)
        except (AssertionError, IndexError):
            self.expect.append('err')
            hist['status'] = 'init-err'
            return None, [], 'init-err'
        pm = PyMesh(mesh)
        self.expect.append('ok %d' % len(mesh.leaf_elements))
        self.lines.append('mesh dump')
        self.expect.append(dump_mesh(mesh))
        self.where.append((h, -1))
        ops, k, status = [], 0, 'ok'
        while True:
            op = ops_fn(pm, k)
            if op is None:
                break
            ops.append(op)
            out = pm.apply(op)
            self.lines.append(op_line(op))
            self.expect.append(canon(out))
            self.where.append((h, k))
            if out.startswith('err'):
                status = 'err'
                break
            full = full_dump_every and (k + 1) % full_dump_every == 0
            self.lines.append('mesh dump' if full else 'mesh leaves')
            self.expect.append(dump_mesh(mesh) if full else dump_leaves(mesh))
            self.where.append((h, k))
            k += 1
        if status == 'ok' and ops:
            self.lines.append('mesh dump')
            self.expect.append(dump_mesh(mesh))
            self.where.append((h, k - 1))
        hist['ops'] = [op_json(o) for o in ops]
        hist['status'] = status
        return pm, ops, status


def op_kinds(curve, X, T):
    """Operation kinds of the random histories; grading only where it stays small (C19 covers it in general):
    all initial element sizes in [1/2, 2]."""
    xs = [F(x) for x in (curve.pw_start if X is None else X)]
    ts = [F(t) for t in T]
    kinds = ['rt', 'rs', 'rt', 'rs', 'rb', 'diso', 'daniso']
    sizes = [b - a for a, b in zip(ts, ts[1:])] + [b - a for a, b in zip(xs, xs[1:])]
    if min(sizes) >= F(1, 2) and max(sizes) <= 2:
        kinds.append('grade')
    return kinds


CONFIGS = [  # (curve, stand-in break points?, binary64 coordinates exact under bisection?)
    ('UnitSquare', False, True), ('LShape', False, True), ('UnitInterval', False, True),
    ('UnitSquare', True, False), ('LShape', True, False), ('UnitInterval', True, False),
    ('PiSquare', True, False), ('Circle', True, False),
    ('PiSquare', False, None), ('Circle', False, None),   # real binary64 break points: initial mesh + guard only
]


def correspond_meshes(res, tier, rng):
    batch = ParamBatch(generated=True)   # every request also answered by the constructor REGENERATED from src/mesh.py
    n_hist = 0
    maxops = 6 if tier == 'quick' else 30
    for name, standin, exact_floats in CONFIGS:
        for nslabs in range(1, 7):
            try:
                curve = make_curve(name, standin)
            except AssertionError as exc:
                res.broken_obligation('correspondence C18: shipped curve %s cannot be constructed' % name, repr(exc))
                break
            float_mode = not standin
            for T in time_grids(rng, nslabs, float_mode):
                grids = space_grids(rng, curve, float_mode) if exact_floats is not None else \
                    [(None, True), ([float(p) for p in curve.pw_start], True)]
                for X, has_breaks in grids:
                    if tier == 'quick' and rng.random() < 0.5 and X is not None and nslabs not in (1, 3):
                        continue
                    L = rng.randint(0, maxops) if exact_floats is not None else 0
                    if tier == 'quick' and rng.random() < 0.6:
                        L = 0

                    kinds = op_kinds(curve, X, T)

                    def gen(pm, k, L=L, kinds=kinds):
                        if k >= L or len(pm.mesh.leaf_elements) > 160:
                            return None
                        return random_op(rng, pm, kinds, rng.choice([0.2, 0.5, 0.8]))
                    pm, ops, status = batch.add_param_history(name, standin, curve, X, T, gen,
                                                              full_dump_every=1 if n_hist % 7 == 0 else 5)
                    n_hist += 1
                    res.count(('mesh', name, standin, enc(curve.pw_start if X is None else X), enc(T), res.seed, n_hist),
                              bool(ops))
                    res.bump('mesh_histories')
                    for o in ops:
                        res.bump('op_' + o[0])
                    if status == 'init-err' and has_breaks:
                        res.violation('C18:mesh-constructor-raises:%s' % name, dict(history=batch.histories[-1]))
                    if n_hist in (3, 40):
                        res.sample(dict(history={k: (v if k != 'ops' else v[:6]) for k, v in batch.histories[-1].items()}))
    dis = batch.run()
    res.notes['mesh_model_lines'] = len(batch.lines)
    res.notes['generated_model_lines'] = batch.n_generated
    res.notes['guard_per_slab'] = GUARD_PER_SLAB
    if dis is not None:
        res.broken_obligation('correspondence C18: initParam(perSlab=%d) model%s and MeshParametrized differ' %
                              (GUARD_PER_SLAB, ' REGENERATED from src/mesh.py (gmesh)'
                               if dis.get('kind') == 'disagreement-generated' else ''), repr(dis)[:6000])
        res.notes['disagreement'] = dis


def translate(res):
    """Regenerates lean/Stbem/Gen/MeshOps.lean (MeshParametrized.__init__ and the refinement drivers the histories run
    through) from src/mesh.py and lean/Stbem/Gen/ParamGen.lean / ParamGenR.lean (all of src/parametrization.py); a construct
    outside the translated fragments is a broken obligation."""
    from ..meshops_tie import translate_meshops
    from ..param_tie import translate_paramgen
    errs = []
    for f in (translate_meshops, translate_paramgen):
        try:
            f(res)
        except Exception as exc:   # both translators run; the first failure is reported by ./check, the others here
            errs.append(exc)
    for exc in errs[1:]:
        res.broken_obligation('translator', repr(exc))
    if errs:
        raise errs[0]


def correspond(res, tier):
    correspond_curves(res, tier, seed_rng(res.seed, 'C18a'))
    correspond_generated(res, seed_rng(res.seed, 'C18g'), tier)
    correspond_meshes(res, tier, seed_rng(res.seed, 'C18b'))


# ------------------------------------------------------------------------------------------------
# search: plain Python oracles on the real objects
def ref_point(vs, x):
    """Independent reference: the point at arc length x of the polygon with the given vertices (exact)."""
    s = F(0)
    for i in range(len(vs) - 1):
        (ax, ay), (bx, by) = vs[i], vs[i + 1]
        n = abs(bx - ax) + abs(by - ay)
        if x <= s + n:
            f = (x - s) / n
            return (ax + f * (bx - ax), ay + f * (by - ay))
        s += n
    return None


def as_pt(v):
    v = np.asarray(v).reshape(2)
    return float(v[0]), float(v[1])


def curve_oracle(curve, vs, exact, scale=1.0):
    """Violated clauses of the curve part of C18 for one real curve object.  vs = expected vertices (exact, already
    scaled by 1; `scale` multiplies them) or None (circle).  exact = binary64 arithmetic is exact on the lattice."""
    bad = []
    pw = [float(p) for p in curve.pw_start]
    L = float(curve.gamma_length)
    tol = 0.0 if exact else 1e-12
    npieces = len(curve.pw_gamma)
    if len(pw) != npieces + 1 or pw[0] != 0 or L != pw[-1] or any(a >= b for a, b in zip(pw, pw[1:])):
        return ['structure: pw_start %r for %d pieces' % (pw, npieces)]
    # piece lengths = side lengths
    if vs is not None:
        if len(vs) != npieces + 1:
            bad.append('piece-length: %d pieces for %d sides' % (npieces, len(vs) - 1))
        else:
            for i in range(npieces):
                side = float(abs(vs[i + 1][0] - vs[i][0]) + abs(vs[i + 1][1] - vs[i][1])) * scale
                if abs((pw[i + 1] - pw[i]) - side) > tol * max(1.0, L):
                    bad.append('piece-length: piece %d has parameter length %r, side length %r' % (i, pw[i + 1] - pw[i], side))
    elif abs(L - 2 * math.pi) > 1e-15:
        bad.append('piece-length: circle length %r' % L)
    for i, g in enumerate(curve.pw_gamma):
        lo, hi = pw[i], pw[i + 1]
        xs = [lo + (hi - lo) * k / 8 for k in range(9)]
        pts = [as_pt(g(x)) for x in xs]
        # end points are the vertices
        if vs is not None and len(vs) == npieces + 1:
            for x, p, v in ((lo, pts[0], vs[i]), (hi, pts[-1], vs[i + 1])):
                if abs(p[0] - float(v[0]) * scale) > tol or abs(p[1] - float(v[1]) * scale) > tol:
                    bad.append('piece-length: piece %d at %r is %r, vertex %r' % (i, x, p, (float(v[0]) * scale, float(v[1]) * scale)))
        # unit speed on a straight piece: |g(x) - g(y)| = |x - y| (exactly, as squares of exact binary64 values)
        for a in range(9):
            for b in range(a + 1, 9):
                if vs is not None and exact:
                    d2 = (F(pts[a][0]) - F(pts[b][0]))**2 + (F(pts[a][1]) - F(pts[b][1]))**2
                    if d2 != (F(xs[a]) - F(xs[b]))**2:
                        bad.append('arc-length: piece %d |g(%r)-g(%r)|^2 = %s' % (i, xs[a], xs[b], d2))
                else:
                    d = math.hypot(pts[a][0] - pts[b][0], pts[a][1] - pts[b][1])
                    if vs is not None and abs(d - abs(xs[a] - xs[b])) > 1e-12 * max(1.0, L):
                        bad.append('arc-length: piece %d chord %r for parameter distance %r' % (i, d, abs(xs[a] - xs[b])))
                    if d > abs(xs[a] - xs[b]) * (1 + 1e-12) + 1e-15:
                        bad.append('arc-length: piece %d chord %r longer than arc %r' % (i, d, abs(xs[a] - xs[b])))
        # finite differences inside the piece
        h = 1e-6 * (hi - lo)
        for k in range(1, 8):
            x = lo + (hi - lo) * k / 8
            p, q = as_pt(g(x + h)), as_pt(g(x - h))
            sp = math.hypot(p[0] - q[0], p[1] - q[1]) / (2 * h)
            if abs(sp - 1) > 1e-6:
                bad.append('arc-length: piece %d speed %r at %r' % (i, sp, x))
        # continuity at the break point
        if i + 1 < npieces:
            p, q = as_pt(g(hi)), as_pt(curve.pw_gamma[i + 1](hi))
            if abs(p[0] - q[0]) > tol or abs(p[1] - q[1]) > tol:
                bad.append('continuity: pieces %d and %d at %r: %r vs %r' % (i, i + 1, hi, p, q))
    # closure
    if curve.closed:
        p, q = as_pt(curve.eval(0.0)), as_pt(curve.eval(L))
        if abs(p[0] - q[0]) > max(tol, 1e-15 if exact else 1e-12) or abs(p[1] - q[1]) > max(tol, 1e-15 if exact else 1e-12):
            bad.append('closure: eval(0) = %r, eval(L) = %r' % (p, q))
    # eval = the piece containing the parameter (every matching piece at a break point), scalar and vectorised
    xs = sorted(set(pw + [pw[i] + (pw[i + 1] - pw[i]) * k / 4 for i in range(npieces) for k in range(1, 4)]))
    arr = np.asarray(curve.eval(np.array(xs)))
    for j, x in enumerate(xs):
        ps = as_pt(curve.eval(x))
        pv = (float(arr[0, j]), float(arr[1, j]))
        if ps != pv:
            bad.append('eval: scalar %r and vectorised %r differ at %r' % (ps, pv, x))
        for i in range(npieces):
            if pw[i] <= x <= pw[i + 1]:
                q = as_pt(curve.pw_gamma[i](x))
                if abs(q[0] - ps[0]) > tol or abs(q[1] - ps[1]) > tol:
                    bad.append('eval: eval(%r) = %r but piece %d gives %r' % (x, ps, i, q))
        if vs is not None and exact:
            r = ref_point(vs, F(x))
            if (F(ps[0]), F(ps[1])) != r:
                bad.append('eval: eval(%r) = %r, reference polygon point %r' % (x, ps, (float(r[0]), float(r[1]))))
    # the vectorised evaluation is pointwise: any ORDER of the parameters (unsorted, reversed, with repetitions,
    # confined to one piece or spanning several) gives the same point per parameter
    import random as _random
    prng = _random.Random(7919 * len(xs) + npieces)
    for trial in range(6):
        idx = list(range(len(xs)))
        if trial == 0:
            idx.reverse()
        elif trial == 1:
            idx = idx[1::2] + idx[0::2]
        else:
            prng.shuffle(idx)
            if trial >= 4:
                idx = idx[:max(2, len(idx) // 2)] + [prng.choice(idx) for _ in range(3)]
        sub = np.asarray(curve.eval(np.array([xs[j] for j in idx])))
        for pos, j in enumerate(idx):
            if (float(sub[0, pos]), float(sub[1, pos])) != (float(arr[0, j]), float(arr[1, j])):
                bad.append('eval: parameter vector in order %r: entry %d (parameter %r) evaluates to %r, in ascending order to %r'
                           % ([xs[i_] for i_ in idx][:8], pos, xs[j], (float(sub[0, pos]), float(sub[1, pos])),
                              (float(arr[0, j]), float(arr[1, j]))))
                break
        if bad and bad[-1].startswith('eval: parameter vector'):
            break
    # chord <= arc across pieces (true for every arc-length curve)
    for a in range(len(xs)):
        for b in range(a + 1, len(xs)):
            d = math.hypot(arr[0, a] - arr[0, b], arr[1, a] - arr[1, b])
            if d > (xs[b] - xs[a]) * (1 + 1e-12) + 1e-15:
                bad.append('arc-length: chord %r between %r and %r longer than the arc' % (d, xs[a], xs[b]))
    return bad


def piece_of(curve, elem):
    for i, g in enumerate(curve.pw_gamma):
        if g is elem.gamma_space:
            return i
    return None


def mesh_oracle(mesh, curve, T, has_breaks):
    """Violated clauses of the mesh part of C18: list of (kind, text)."""
    bad = []
    pw = curve.pw_start
    L = pw[-1]
    leaves = list(mesh.leaf_elements)
    for e in leaves:
        i = piece_of(curve, e)
        x0, x1 = e.space_interval
        if i is None:
            bad.append(('piece', 'leaf %r carries no piece of the curve' % e))
        elif not (pw[i] <= x0 < pw[i + 1]) or (has_breaks and not x1 <= pw[i + 1]):
            bad.append(('piece', 'leaf %r carries piece %d with range [%s, %s]' % (e, i, pw[i], pw[i + 1])))
    if curve.closed:
        few = None
        for j in range(len(T) - 1):
            inside = [e for e in leaves if T[j] <= e.time_interval[0] and e.time_interval[1] <= T[j + 1]]
            # cross-sections at the lower time of every leaf of the slab
            for tau in sorted({e.time_interval[0] for e in inside}):
                cs = [e for e in inside if e.time_interval[0] <= tau < e.time_interval[1]]
                if len(cs) < 3 and (few is None or len(cs) < few[0]):
                    few = (len(cs), j, tau)
        if few is not None:
            bad.append(('few', 'time slab %d (t = %s) has %d element(s) around the closed curve' % (few[1], few[2], few[0]), few[0]))
    if not any(b[0] == 'few' for b in bad):
        n = len(leaves)
        if n <= 400:
            for a in range(n):
                c = leaves[a]
                for b in range(a + 1, n):
                    d = leaves[b]
                    if max(c.time_interval[0], d.time_interval[0]) < min(c.time_interval[1], d.time_interval[1]):
                        (c0, c1), (d0, d1) = c.space_interval, d.space_interval
                        seam = bool(curve.closed)
                        t1 = c1 == d0 or (seam and c1 == L and d0 == 0)
                        t2 = d1 == c0 or (seam and d1 == L and c0 == 0)
                        if t1 and t2:
                            bad.append(('touch', 'leaves %r and %r touch in both end points' % (c, d)))
    return bad


def search(res, tier, boost=False):
    rng = seed_rng(res.seed, 'C18s')
    # 1. shipped curves
    for name, (vs, closed, scale) in SHIPPED.items():
        try:
            curve = make_real(name)
        except AssertionError as exc:
            res.violation('C18:curve-constructor-raises:%s' % name, dict(curve=name, error=repr(exc)))
            continue
        res.count(('search-curve', name), True)
        if bool(curve.closed) != closed:
            res.violation('C18:closed-flag:%s' % name, dict(curve=name))
        fv = None if vs is None else [(F(x), F(y)) for x, y in vs]
        bad = curve_oracle(curve, fv, exact=(scale == 1), scale=(math.pi if scale == 'pi' else 1.0))
        for b in bad[:3]:
            res.violation('C18:%s:%s' % (b.split(':')[0], name), dict(curve=name, clause=b))
    # 1b. integer-typed parameters (a Python int, a numpy integer, an integer array - e.g. an index used as arc length): the point
    # is a function of the number, not of its type; the call with integers against the same call with floats
    import numpy as _np
    for name in SHIPPED:
        try:
            curve = make_real(name)
        except AssertionError:
            continue
        L = float(curve.gamma_length)
        ks = [k for k in range(0, int(math.floor(L)) + 1)]
        for k in ks:
            for kind, arg in (('int', int(k)), ('numpy.int64', _np.int64(k)), ('int-array', _np.array([k, max(k - 1, 0)]))):
                try:
                    p_i = _np.asarray(curve.eval(arg), dtype=float)
                    p_f = _np.asarray(curve.eval(_np.asarray(arg, dtype=float) if kind == 'int-array' else float(k)), dtype=float)
                except (AssertionError, TypeError, IndexError, ValueError):
                    continue
                res.count(('int-parameter', name, k, kind), True)
                if p_i.shape != p_f.shape or not _np.allclose(p_i, p_f, rtol=0, atol=1e-12 * max(1.0, L)):
                    res.violation('C18:integer-parameter-changes-point:%s' % name,
                                  dict(curve=name, parameter=int(k), parameter_type=kind, point_integer_argument=p_i.tolist(),
                                       point_float_argument=p_f.tolist()))
                    break
    # 1c. call histories on ONE curve object with ONE parameter array: refilled in place between two calls, and the returned
    # points modified in place by the caller - every call returns the points of the numbers it is given now
    for name in SHIPPED:
        try:
            curve = make_real(name)
        except AssertionError:
            continue
        L = float(curve.gamma_length)
        try:
            xs = _np.array([rng.uniform(0, L) for _ in range(7)])
            first = _np.array(curve.eval(xs), dtype=float)
            xs[:] = [rng.uniform(0, L) for _ in range(7)]              # the same array object, new numbers
            second = _np.array(curve.eval(xs), dtype=float)
            want = _np.array([_np.asarray(curve.eval(float(v)), dtype=float).reshape(-1) for v in xs]).T
            got2 = curve.eval(xs)
            if isinstance(got2, _np.ndarray) and got2.flags.writeable:
                got2 += 10.0                                               # the caller shifts the points it was handed
            third = _np.array(curve.eval(xs), dtype=float)
        except (AssertionError, TypeError, ValueError, IndexError):
            continue
        res.count(('eval-history', name), True)
        for tag, got in (('refilled-in-place', second), ('after-caller-modified-result', third)):
            if got.shape != want.shape or not _np.allclose(got, want, rtol=0, atol=1e-12 * max(1.0, L)):
                res.violation('C18:eval-depends-on-history:%s:%s' % (tag, name),
                              dict(curve=name, parameters=[float(v) for v in xs], got=_np.asarray(got).tolist(), want=want.tolist(),
                                   history='eval(x); x[:] = new numbers; eval(x); result += 10; eval(x)  (one array object x)'))
                break
    # 2. random accepted polygons
    n = (60 if tier == 'quick' else 1500) * (3 if boost else 1)
    for k in range(n):
        vs, closed = random_polygon(rng)
        try:
            curve = build_real_polygon(vs, closed, rng.random() < 0.5)
        except AssertionError:
            res.bump('search_polygons_rejected')
            continue
        res.count(('search-poly', enc_verts(vs), closed), len(vs) >= 3)
        bad = curve_oracle(curve, vs, exact=True)
        for b in bad[:2]:
            res.violation('C18:%s:polygon' % b.split(':')[0], dict(vertices=enc_verts(vs), closed=closed, clause=b))
    # 3. meshes on all curves
    few_seen = {}
    reps = (1 if tier == 'quick' else 6) * (2 if boost else 1)
    for name, standin, exact_floats in CONFIGS:
        for nslabs in range(1, 7):
            for rep in range(reps):
                try:
                    curve = make_curve(name, standin)
                except AssertionError:
                    break
                float_mode = not standin
                for T in time_grids(rng, nslabs, float_mode):
                    grids = space_grids(rng, curve, float_mode) if exact_floats is not None else \
                        [(None, True), ([float(p) for p in curve.pw_start], True)]
                    for X, has_breaks in grids:
                        if not has_breaks:
                            continue   # outside the quantifier of the property
                        cfg = dict(curve=name, standin_break_points=standin, X=None if X is None else [q2s(x) for x in X],
                                   T=[q2s(t) for t in T], ops=[])
                        try:
                            mesh = build_mesh(curve, X, T)
                        except (AssertionError, IndexError) as exc:
                            res.violation('C18:mesh-constructor-raises:%s' % name, dict(cfg, error=repr(exc)))
                            continue
                        pm = PyMesh(mesh)
                        nops = 0 if exact_floats is None else rng.choice([0, 0, 3, 8, 20])
                        for step in range(nops + 1):
                            bad = mesh_oracle(mesh, curve, T, has_breaks)
                            res.count(('search-mesh', name, standin, nslabs, rep, cfg['X'] and len(cfg['X']), step), step > 0)
                            stop = False
                            for b in bad[:2]:
                                if b[0] == 'few':
                                    per = len(curve.pw_start if X is None else X) - 1
                                    key = 'C18:fewer-than-three-per-slab:%s:elements-per-slab=%d' % (name, per)
                                    few_seen.setdefault(key, []).append(dict(cfg, clause=b[1]))
                                else:
                                    res.violation('C18:%s:%s' % ({'piece': 'wrong-piece', 'touch': 'touch-both-ends'}[b[0]], name),
                                                  dict(cfg, clause=b[1]))
                                stop = True
                            if stop or step == nops or len(mesh.leaf_elements) > 150:
                                break
                            op = random_op(rng, pm, op_kinds(curve, X, T), rng.choice([0.2, 0.5, 0.8]))
                            cfg['ops'].append(op_json(op))
                            if pm.apply(op).startswith('err'):
                                res.violation('C18:operation-raises:%s' % op[0], dict(cfg))
                                break
    for key, cases in sorted(few_seen.items()):
        res.notes.setdefault('fewer_than_three_cases', 0)
        res.notes['fewer_than_three_cases'] += len(cases)
        res.violation(key, dict(cases=cases[:5], n_cases=len(cases),
                                smallest=min(cases, key=lambda c: (c['standin_break_points'], c['X'] is not None, len(c['T']), len(c['ops'])))))
