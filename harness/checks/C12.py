"""C12 — Galerkin entries respect the symmetries of the kernel and of the curve."""
import contextlib
import io
import math
from fractions import Fraction as F

import numpy as np

from ..common import run_driver, seed_rng
from ..qnum import installed
from ..sllib import TIME_LATTICE, Fixture, random_space_intervals, result_str
from ..slchecks import RealOps, corr_panels, describe, make_curve, ok_aspect, seam_and_corner_pairs, StubElem, with_generated
from .C04 import translate  # noqa: F401

PROP_MODS = ['Stbem.Props.C12', 'Stbem.Props.PanelsTie']
RULE = ('correspondence (exact): exchange of the space intervals (times fixed), common shift of both time intervals and '
        'reflection x -> L - x of both elements through the real bilform on Q numbers: exchange and shift must give '
        'the identical rational, every value must equal the model. search (floats, symmetric uniformly refined meshes '
        'so that moved elements exist): exchange and dyadic time shift bit for bit; quarter turns of the squares, '
        'dyadic rotations of the circle and reflections within 1e-7*sqrt(D_i D_j), incl. moves across the seam / onto '
        'another side. non-trivial = causal pair actually moved; distinct = (curve, pair, symmetry).')
TRUSTED = [
    'Lean 4.33 kernel; axioms propext, Classical.choice, Quot.sound only',
    'translate/formulas.py + exact correspondence as in C01',
    'control flow of __integrate / bilform / evaluate / MP_SL_matrix_col regenerated from the source on every run '
    '(translate/panels.py -> lean/Stbem/Gen/Panels.lean) and proved equal to the hand-written model for all inputs '
    '(Props/PanelsTie.lean); the translator is validated on every run by exact execution of the real methods',
    'rotation invariance for the true kernel moves a pair across the seam and changes the panel decomposition: it '
    'holds only up to quadrature error (search only, partial)',
]
ASSUMPTIONS = ['exact arithmetic in the theorems']


def correspond(res, tier):
    rng = seed_rng(res.seed, 'C12')
    n = 25 if tier == 'quick' else 150
    for curve in ('unitsquare', 'rect32', 'lshape'):
        for pw in (False, True):
            fx = Fixture(rng, curve, pw, laws=True)
            lines = fx.context_lines()
            expect = ['ok'] * len(lines)
            pairs = []
            ivs = random_space_intervals(rng, fx, 10)
            with installed(fx.standins):
                for _ in range(n):
                    xa, xb = rng.choice(ivs), rng.choice(ivs)
                    ta, tb = rng.choice(TIME_LATTICE), rng.choice(TIME_LATTICE)
                    d = rng.choice([F(1, 4), F(3, 8), F(2)])
                    reqs = [((ta, xa), (tb, xb)), ((ta, xb), (tb, xa)),  # exchange
                            (((ta[0] + d, ta[1] + d), xa), ((tb[0] + d, tb[1] + d), xb))]  # time shift
                    vals = []
                    for (tt, tx), (rt, rx) in reqs:
                        te, tr = fx.elem(tt[0], tt[1], tx[0], tx[1]), fx.elem(rt[0], rt[1], rx[0], rx[1])
                        if pw and te.piece_idx != tr.piece_idx and False:
                            pass
                        try:
                            v = result_str(fx.SL.bilform(tr, te))
                        except AssertionError:
                            v = 'err'
                        vals.append(v)
                        lines.append('sl bil %d %s %s' % (pw, tr.encode(), te.encode()))
                        expect.append(v)
                    pairs.append((vals, curve, pw, xa, xb, ta, tb))
            with_generated(lines, expect)   # `sl genbil`: the bilform regenerated from the source (Gen/Panels.lean)
            out = run_driver(lines)
            for line, want, got in zip(lines, expect, out):
                got = 'err' if got.startswith('err') else got
                if want != got and want != 'ok':
                    res.broken_obligation('correspondence C12: model and code differ', 'line: %s\npython %s\nmodel %s' % (line, want[:200], got[:200]))
                    return
            for vals, curve_, pw_, xa, xb, ta, tb in pairs:
                res.count(('sym', curve_, pw_, xa, xb, ta, tb), vals[0] != '0')
                if vals[1] != vals[0]:
                    res.violation('C12:exchange-changes-entry:exact', dict(curve=curve_, pw_exact=pw_, x_test=[str(v) for v in xa],
                                  x_trial=[str(v) for v in xb], t_test=[str(v) for v in ta], t_trial=[str(v) for v in tb],
                                  original=vals[0][:80], exchanged=vals[1][:80], note='exact rational arithmetic with stand-in special functions'))
                if vals[2] != vals[0]:
                    res.violation('C12:time-shift-changes-entry:exact', dict(curve=curve_, pw_exact=pw_, original=vals[0][:80], shifted=vals[2][:80]))
    res.sample(dict(symmetries=['exchange space intervals', 'shift both time intervals', 'rotate', 'reflect']))
    corr_panels(res, tier, 'C12p', curves=('unitsquare', 'rect32', 'lshape'))


Stub = StubElem     # the repository's own virtual-element class


def uniform_mesh(cname, levels):
    from src.mesh import MeshParametrized
    gamma = make_curve(cname)
    with contextlib.redirect_stdout(io.StringIO()):
        mesh = MeshParametrized(gamma)
        for _ in range(levels):
            mesh.uniform_refine()
    return gamma, mesh


def find(elems, t, x, L, tol=1e-9):
    for e in elems:
        if abs(e.time_interval[0] - t[0]) < tol and abs(e.time_interval[1] - t[1]) < tol and \
                abs(e.space_interval[0] - x[0]) < tol * max(1, L) and abs(e.space_interval[1] - x[1]) < tol * max(1, L):
            return e
    return None


def search(res, tier, boost=False):
    rng = seed_rng(res.seed, 'C12s')
    n_pairs = (12 if tier == 'quick' else 80) * (2 if boost else 1)
    worst = 0.0
    for cname, lv in (('UnitSquare', 2), ('Circle', 2), ('PiSquare', 1), ('LShape', 1)):
        gamma, mesh = uniform_mesh(cname, lv if tier == 'quick' else lv + 0)
        ops = RealOps(gamma, mesh)
        elems = list(mesh.leaf_elements)
        L = float(gamma.gamma_length)
        for _ in range(n_pairs):
            te, tr = rng.choice(elems), rng.choice(elems)
            if te.time_interval[1] <= tr.time_interval[0]:
                te, tr = tr, te
            if te.time_interval[1] <= tr.time_interval[0]:
                continue
            for pw in (False, True):
                if pw and (cname == 'Circle'):
                    continue
                SL = ops.SL[pw]
                base = SL.bilform(tr, te)
                # exchange: bit for bit
                te2 = Stub(te.time_interval, tr.space_interval, tr.gamma_space)
                tr2 = Stub(tr.time_interval, te.space_interval, te.gamma_space)
                if not pw or te.gamma_space is tr.gamma_space:
                    ex = SL.bilform(tr2, te2)
                    res.count(('exchange', cname, pw, repr(te), repr(tr)), True)
                    if ex != base:
                        res.violation('C12:exchange-not-bitwise', dict(curve=cname, pw_exact=pw, test=describe(te), trial=describe(tr), base=float(base), exchanged=float(ex)))
                # dyadic time shift: bit for bit
                for d in (0.25, 1.0, 3.0, 128.0, 131072.0):     # (late times: slabs that are short against their position on the axis)
                    if any((t + d) - d != t for t in tuple(te.time_interval) + tuple(tr.time_interval)):
                        continue          # the shifted end points are not representable: no bit-for-bit claim
                    te3 = Stub((te.time_interval[0] + d, te.time_interval[1] + d), te.space_interval, te.gamma_space)
                    tr3 = Stub((tr.time_interval[0] + d, tr.time_interval[1] + d), tr.space_interval, tr.gamma_space)
                    sh = SL.bilform(tr3, te3)
                    res.count(('shift', cname, pw, repr(te), repr(tr), d), True)
                    if sh != base:
                        res.violation('C12:time-shift-not-bitwise', dict(curve=cname, pw_exact=pw, shift=d, test=describe(te), trial=describe(tr), base=float(base), shifted=float(sh)))
                if cname == 'LShape':
                    continue
                sc = ops.scale(te, tr)
                # rotations (parameter shift by a quarter / dyadic fraction of the length) and reflection
                moves = []
                steps = [L / 4, L / 2] if cname != 'Circle' else [L / 8, L / 4, L / 2]
                for s in steps:
                    moves.append(('rotate %.4f' % s, lambda x, s=s: ((x[0] + s) % L, ((x[1] + s - 1e-12) % L) + 1e-12)))
                moves.append(('reflect', lambda x: (L - x[1], L - x[0])))
                for name, mv in moves:
                    xt, xr = mv(te.space_interval), mv(tr.space_interval)
                    te4, tr4 = find(elems, te.time_interval, xt, L), find(elems, tr.time_interval, xr, L)
                    if te4 is None or tr4 is None:
                        continue
                    if pw and te4.gamma_space is not tr4.gamma_space or pw and te.gamma_space is not tr.gamma_space:
                        continue
                    moved = SL.bilform(tr4, te4)
                    err = abs(moved - base) / sc
                    worst = max(worst, err)
                    res.count(('move', cname, pw, repr(te), repr(tr), name), True)
                    if err > 1e-7:
                        res.violation('C12:not-invariant:%s' % name.split()[0], dict(curve=cname, pw_exact=pw, move=name, test=describe(te), trial=describe(tr),
                                      base=float(base), moved=float(moved), scaled_error=err))
    # graded configurations: pairs touching through the seam / at a corner / nested with unequal sizes, moved by a
    # quarter turn and by the reflection x -> L - x; elements are dyadic sub-intervals of pieces whose end points are
    # computed by the mesh's own bisection arithmetic (bit-identical shared end points)
    from ..slchecks import addr_interval, move_addr
    for cname in ('UnitSquare', 'PiSquare', 'Circle'):
        gamma, mesh = uniform_mesh(cname, 0)
        ops = RealOps(gamma, mesh)
        for te, tr, kind in seam_and_corner_pairs(rng, gamma, n_pairs * 2):
            if te.time_interval[1] <= tr.time_interval[0] or not (ok_aspect(te) and ok_aspect(tr)):
                continue
            base = ops.SL[False].bilform(tr, te)
            sc = ops.scale(te, tr)
            for name in ('rotate', 'reflect'):
                At, Ar = move_addr(gamma, te.addr, name), move_addr(gamma, tr.addr, name)
                if At is None or Ar is None:
                    continue
                te2 = StubElem(te.time_interval, addr_interval(gamma, At), gamma.pw_gamma[At[0]])
                tr2 = StubElem(tr.time_interval, addr_interval(gamma, Ar), gamma.pw_gamma[Ar[0]])
                moved = ops.SL[False].bilform(tr2, te2)
                err = abs(moved - base) / sc
                worst = max(worst, err)
                res.count(('move-graded', cname, kind, repr(te), repr(tr), name), True)
                if err > 1e-7:
                    res.violation('C12:not-invariant:%s:graded-%s' % (name, kind), dict(curve=cname, move=name, test=describe(te), trial=describe(tr),
                                  moved_test=describe(te2), moved_trial=describe(tr2), base=float(base), moved=float(moved), scaled_error=err))
    # whole-matrix sweep on ONE operator object: a tensor mesh of equal time slabs, refined in space towards the
    # seam / the ends symmetrically under x -> L - x; all causal entries are evaluated once, in index order, by the
    # same operator (so anything the operator remembers between calls is in play), then every entry is compared
    # with its image under exchange (bitwise), shift by one slab (bitwise) and reflection (1e-7 * scale)
    from src.mesh import MeshParametrized
    for cname, rounds in (('UnitSquare', 2), ('Circle', 2)) if tier == 'quick' and not boost else \
            (('UnitSquare', 3), ('Circle', 3), ('PiSquare', 2), ('UnitInterval', 2)):
        gamma = make_curve(cname)
        L = float(gamma.gamma_length)
        with contextlib.redirect_stdout(io.StringIO()):
            mesh = MeshParametrized(gamma, initial_time_mesh=[0., 0.5, 1.0, 1.5])
            for _ in range(rounds):
                for e in [e for e in mesh.leaf_elements if e.space_interval[0] == 0 or abs(e.space_interval[1] - L) < 1e-12 * L]:
                    if not e.children:
                        mesh.refine_space(e)
        ops = RealOps(gamma, mesh)
        elems = list(mesh.leaf_elements)
        for pw in (False, True):
            if pw and cname == 'Circle':
                continue
            SL = ops.SL[pw]
            M = {}
            for i, te in enumerate(elems):
                for j, tr in enumerate(elems):
                    if te.time_interval[1] > tr.time_interval[0]:
                        M[(i, j)] = SL.bilform(tr, te)
            idx = {id(e): i for i, e in enumerate(elems)}

            def at(t, x):
                e = find(elems, t, x, L)
                return None if e is None else idx[id(e)]
            reported = set()
            for (i, j), v in M.items():
                te, tr = elems[i], elems[j]
                res.count(('sweep', cname, pw, i, j), True)
                # exchange of the space intervals
                i2, j2 = at(te.time_interval, tr.space_interval), at(tr.time_interval, te.space_interval)
                if i2 is not None and j2 is not None and (i2, j2) in M and (not pw or te.gamma_space is tr.gamma_space):
                    if M[(i2, j2)] != v and 'ex' not in reported:
                        reported.add('ex')
                        res.violation('C12:exchange-not-bitwise:one-operator-sweep', dict(curve=cname, pw_exact=pw, test=describe(te), trial=describe(tr),
                                      base=float(v), exchanged=float(M[(i2, j2)]), note='all entries evaluated in index order by one operator object'))
                # shift by one slab
                sh = lambda iv: (iv[0] + 0.5, iv[1] + 0.5)
                i3, j3 = at(sh(te.time_interval), te.space_interval), at(sh(tr.time_interval), tr.space_interval)
                if i3 is not None and j3 is not None and (i3, j3) in M:
                    if M[(i3, j3)] != v and 'sh' not in reported:
                        reported.add('sh')
                        res.violation('C12:time-shift-not-bitwise:one-operator-sweep', dict(curve=cname, pw_exact=pw, test=describe(te), trial=describe(tr),
                                      base=float(v), shifted=float(M[(i3, j3)])))
                # reflection x -> L - x
                if cname != 'UnitInterval' or True:
                    rf = lambda iv: (L - iv[1], L - iv[0])
                    i4, j4 = at(te.time_interval, rf(te.space_interval)), at(tr.time_interval, rf(tr.space_interval))
                    if i4 is not None and j4 is not None and (i4, j4) in M:
                        if pw and (elems[i4].gamma_space is not elems[j4].gamma_space or te.gamma_space is not tr.gamma_space):
                            continue
                        sc = ops.scale(te, tr)
                        err = abs(M[(i4, j4)] - v) / sc
                        worst = max(worst, err)
                        if err > 1e-7 and 'rf' not in reported:
                            reported.add('rf')
                            res.violation('C12:not-invariant:reflect:one-operator-sweep', dict(curve=cname, pw_exact=pw, test=describe(te), trial=describe(tr),
                                          base=float(v), moved=float(M[(i4, j4)]), scaled_error=err))
            res.bump('sweep_entries', len(M))
    # closed curve with exactly THREE panels per slab (the minimum MeshParametrized accepts without refining): the first
    # and the last panel together cover more than half of the curve; every ordered pair of panels against its image
    # under the quarter turns (and the third turn for equal thirds) that keep both panels off the seam
    import math as _m
    from src.mesh import MeshParametrized
    gam = make_curve('Circle')
    L = float(gam.gamma_length)
    def pt(k):
        # parameter value k/12 of the way round; one formula for mesh and images, so that shared end points are bit-identical
        return L if k == 12 else (0.0 if k == 0 else L * k / 12)
    for ks in ([0, 6, 9, 12], [0, 4, 8, 12], [0, 3, 6, 12]):
        grid = [pt(k) for k in ks]
        with contextlib.redirect_stdout(io.StringIO()):
            mesh3 = MeshParametrized(gam, initial_space_mesh=list(grid), initial_time_mesh=[0., 0.5, 1.0])
        ops3 = RealOps(gam, mesh3)
        el3 = list(mesh3.leaf_elements)
        if len(el3) != 6:
            res.bump('three_panel_mesh_was_refined_by_the_constructor')
            continue
        kof = {grid[i]: ks[i] for i in range(4)}
        shifts = [3, 6, 9] + ([4, 8] if ks[1] == 4 else [])
        for te in el3:
            for tr in el3:
                if te.time_interval[1] <= tr.time_interval[0]:
                    continue
                base = ops3.SL[False].bilform(tr, te)
                sc = ops3.scale(te, tr)
                for sft in shifts:
                    def mv(iv):
                        a_, b_ = (kof[iv[0]] + sft) % 12, (kof[iv[1]] + sft) % 12
                        if b_ == 0:
                            b_ = 12
                        return (pt(a_), pt(b_)) if a_ < b_ else None      # None: the image would straddle the seam
                    xt, xr = mv(te.space_interval), mv(tr.space_interval)
                    if xt is None or xr is None:
                        continue
                    te2, tr2 = Stub(te.time_interval, xt, gam.pw_gamma[0]), Stub(tr.time_interval, xr, gam.pw_gamma[0])
                    ops3.SL[False]._init_elems([te2, tr2])
                    moved = ops3.SL[False].bilform(tr2, te2)
                    err = abs(moved - base) / sc
                    worst = max(worst, err)
                    res.count(('three-panels', tuple(ks), repr(te), repr(tr), sft), True)
                    if err > 1e-7:
                        res.violation('C12:not-invariant:rotate:three-panels-per-slab', dict(curve='Circle', initial_space_mesh=list(grid), rotation_twelfths=sft,
                                      test=describe(te), trial=describe(tr), moved_test=describe(te2), moved_trial=describe(tr2),
                                      base=float(base), moved=float(moved), scaled_error=err))
                        break
    # nested pairs of one refinement tree that share the LEFT or the RIGHT end point, 1 .. 4 space levels apart (an element with a
    # descendant of a neighbouring time slab, as the estimators and locally refined meshes pair them), either one as test
    # element: exchange of the two space intervals, bit for bit
    from ..slchecks import addr_interval
    from src.mesh import MeshParametrized
    for cname in ('UnitSquare', 'LShape') if tier == 'quick' and not boost else ('UnitSquare', 'LShape', 'PiSquare', 'UnitInterval'):
        gam = make_curve(cname)
        with contextlib.redirect_stdout(io.StringIO()):
            opsn = RealOps(gam, MeshParametrized(gam))
        for it in range(10 if tier == 'quick' else 60):
            pc = rng.randrange(len(gam.pw_gamma))
            base_l = 2 if len(gam.pw_gamma) == 1 else 0
            la, k = base_l + rng.randint(0, 2), 1 + it % 4
            ma = rng.randrange(2**(la - base_l)) if la > base_l else 0
            big = addr_interval(gam, (pc, la, ma))
            small = addr_interval(gam, (pc, la + k, ma * 2**k if (it // 4) % 2 == 0 else (ma + 1) * 2**k - 1))
            t1, t2 = rng.choice([((0.5, 1.0), (0.0, 0.5)), ((0.0, 1.0), (0.0, 0.5)), ((0.5, 1.0), (0.25, 0.75)), ((0.0, 0.5), (0.0, 0.5))])
            for xt, xr in ((big, small), (small, big)):
                te, tr = Stub(t1, xt, gam.pw_gamma[pc]), Stub(t2, xr, gam.pw_gamma[pc])
                te2, tr2 = Stub(t1, xr, gam.pw_gamma[pc]), Stub(t2, xt, gam.pw_gamma[pc])
                if not (ok_aspect(te) and ok_aspect(tr) and ok_aspect(te2) and ok_aspect(tr2)):
                    continue
                try:
                    v1, v2 = opsn.SL[False].bilform(tr, te), opsn.SL[False].bilform(tr2, te2)
                except AssertionError as exc:
                    res.violation('C12:nested-pair-raises', dict(curve=cname, test=describe(te), trial=describe(tr), error=repr(exc)[:200]))
                    break
                res.count(('exchange-nested', cname, pc, la, k, repr(te), repr(tr)), True)
                if v1 != v2:
                    res.violation('C12:exchange-not-bitwise:nested-shared-end',
                                  dict(curve=cname, piece=pc, levels_apart=k, test=describe(te), trial=describe(tr), base=float(v1), exchanged=float(v2),
                                       relative_difference=abs(v1 - v2) / max(abs(v1), 1e-300)))
                    break
    # panels that touch THROUGH THE CLOSING SEAM against their quarter-turn image that touches at an interior corner, at short elapsed
    # times (same slab, h_t = 2^-6 ... 2^-13 with h_x = 1/2, 1/4: the entries are tiny but not zero) - the distance between two
    # panels is the distance on the closed curve, not the difference of the parameters
    try:
        gsq = make_curve('UnitSquare')
        with contextlib.redirect_stdout(io.StringIO()):
            opq = RealOps(gsq, MeshParametrized(gsq))
        for lvl, ht_exp in ((1, 6), (1, 9), (1, 13), (2, 8), (2, 12)):
            n = 2**lvl
            ht = 2.0**-ht_exp
            last, first = addr_interval(gsq, (3, lvl, n - 1)), addr_interval(gsq, (0, lvl, 0))
            img_t, img_r = addr_interval(gsq, (0, lvl, n - 1)), addr_interval(gsq, (1, lvl, 0))
            for tt, tr_t in (((0.0, ht), (0.0, ht)), ((ht, 2 * ht), (0.0, ht))):
                pairs = [((last, 3), (first, 0), (img_t, 0), (img_r, 1)), ((first, 0), (last, 3), (img_r, 1), (img_t, 0))]
                for (x1, p1), (x2, p2), (y1, q1), (y2, q2) in pairs:
                    te, tr = Stub(tt, x1, gsq.pw_gamma[p1]), Stub(tr_t, x2, gsq.pw_gamma[p2])
                    te2, tr2 = Stub(tt, y1, gsq.pw_gamma[q1]), Stub(tr_t, y2, gsq.pw_gamma[q2])
                    v1, v2 = opq.SL[False].bilform(tr, te), opq.SL[False].bilform(tr2, te2)
                    sc = math.sqrt(abs(opq.SL[False].bilform(te, te) * opq.SL[False].bilform(tr, tr)))
                    res.count(('seam-vs-corner', lvl, ht_exp, repr(te), repr(tr)), True)
                    err = abs(v1 - v2) / sc
                    worst = max(worst, err)
                    if err > 1e-7:
                        res.violation('C12:not-invariant:rotate:seam-pair-short-time',
                                      dict(curve='UnitSquare', test=describe(te), trial=describe(tr), moved_test=describe(te2), moved_trial=describe(tr2),
                                           base=float(v1), moved=float(v2), scaled_error=err, aspect=float(x1[1] - x1[0])**2 / ht))
    except AssertionError as exc:
        res.notes['seam_pair_short_time_skipped'] = repr(exc)
    res.notes['worst_scaled_error'] = worst
