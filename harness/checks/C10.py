"""C10 — reported edge neighbours are exactly the geometric neighbours."""
from fractions import Fraction as F

from ..common import seed_rng
from ..meshgen import INITIAL_GRIDS, Batch, enumerate_histories, random_op, op_json, deep_histories
from ..meshlib import oracle_mesh, PyMesh

from . import C10H

PROP_MODS = ['Stbem.Props.C10', 'Stbem.Props.C10H']
RULE = ('the neighbour lists Edge.neighbour_elements() of every side of every leaf (ids in the order returned) and '
        'the boundary / seam flags are part of the state dump that is compared with the Lean model after every '
        'operation (exhaustive bounded bisection sequences + random histories, open and glued); the search evaluates '
        'an independent geometric neighbour computation on the real mesh after every operation. non-trivial = state '
        'with at least one hanging node (a side with two neighbours); distinct = distinct (initial mesh, history). '
        'H-layer: ' + C10H.RULE)
TRUSTED = [
    'Lean 4.33 kernel; axioms propext, Classical.choice, Quot.sound only',
    'in the A-layer model the neighbour list is defined geometrically; that Edge.neighbour_elements() (own / neighbour '
    '/ parent edge lookup through the half-edge pointers) computes this relation is PROVED for the H-layer model '
    '(Stbem.Props.C10H neighbourElements_eq_nbrs + refinement_theorem + history_commutes + init_hall: every state '
    'reached from Mesh.__init__ by refine_axis / refine satisfies the pointer invariant and abstracts to the A-layer '
    'state), and the H-layer model is tied to src/mesh.py by the state + pointer dump correspondence',
    'harness/meshlib.py dump + oracle, Driver/MeshCmd.lean',
] + C10H.TRUSTED[1:]
ASSUMPTIONS = ['exact rational coordinates']


def _hanging(pm):
    for e in pm.mesh.leaf_elements:
        for edge in e.edges:
            try:
                if len(edge.neighbour_elements()) == 2:
                    return True
            except AssertionError:
                return True
    return False


def correspond(res, tier):
    rng = seed_rng(res.seed, 'C10')
    batch = Batch()
    depth = 4 if tier == 'quick' else 6
    exh = [(1, [F(0), F(1)], [F(0), F(1)], depth), (0, [F(0), F(1, 2), F(1)], [F(0), F(1)], depth - 1),
           (1, [F(0), F(1), F(2), F(3)], [F(0), F(1), F(2)], depth - 2)]
    for glue, X, T, d in exh:
        for seq in enumerate_histories(glue, X, T, d):
            it = iter(seq)
            pm, ops, status = batch.add_history(glue, X, T, lambda pm, k, it=it: next(it, None))
            res.count(('exh', glue, tuple(X), tuple(T), tuple(seq)), _hanging(pm))
    n_rand = 8 if tier == 'quick' else 80
    for h in range(n_rand):
        glue, X, T = INITIAL_GRIDS[(h * 5 + 1) % len(INITIAL_GRIDS)]
        L = rng.randint(20, 40 if tier == 'quick' else 150)

        def gen(pm, k, L=L):
            if k >= L or len(pm.mesh.leaf_elements) > 300:
                return None
            return random_op(rng, pm, ['rt', 'rs', 'rb', 'diso', 'daniso'], rng.choice([0.2, 0.5, 0.8]))
        pm, ops, status = batch.add_history(glue, X, T, gen, full_dump_every=1)
        res.count(('rand', h, res.seed), _hanging(pm))
        if h < 2:
            res.sample(dict(glue=glue, X=batch.histories[-1]['X'], T=batch.histories[-1]['T'],
                            ops=batch.histories[-1]['ops'][:10], leaves=len(pm.mesh.leaf_elements)))
    dis = batch.run()
    res.notes['model_lines'] = len(batch.lines)
    if dis is not None:
        res.broken_obligation('correspondence C10: neighbour lists / flags of model and src/mesh.py differ', repr(dis)[:6000])
    # H-layer: the pointer structure itself, in lock-step (state dump, A-layer dump of abs, pointer facts)
    a_lines = res.notes.get('model_lines', 0)
    C10H.correspond(res, tier)
    res.notes['h_layer_model_lines'] = res.notes.get('model_lines', 0)
    res.notes['model_lines'] = a_lines


def search(res, tier, boost=False):
    C10H.search(res, tier, boost)   # pointer invariant (cases a-d) on the real objects against geometry
    rng = seed_rng(res.seed, 'C10s')
    # deep refinement towards a point (binary64 coordinates, depth 22 / 30): tolerance-based pairing would break here
    for glue, X, T, run in deep_histories(rng, 10 if tier == 'quick' else 60, 22 if tier == 'quick' else 30):
        pm = PyMesh.create(glue, X, T)
        ops, status = run(pm)
        hist = dict(glue=glue, X=X, T=T, ops=[list(o) for o in ops], coordinates='binary64')
        res.count(('deep', glue, tuple(X), tuple(T), len(ops)), True)
        if status == 'err':
            res.violation('C10:refinement-raises-deep', dict(history=hist))
            continue
        bad = [b for b in oracle_mesh(pm.mesh, X, T, glue, check_nbrs=True) if b.startswith(('neighbours', 'flags', '1-irregular'))]
        if bad:
            res.violation('C10:' + bad[0].split(':')[0] + ':deep', dict(clause=bad[0], history=hist))
    # the closed/open flag read off data (numpy.bool_, e.g. closed = np.all(v[0] == v[-1])): the same mesh as with a Python bool
    import numpy as _np
    for h in range((4 if tier == 'quick' else 30) * (3 if boost else 1)):
        glue, X, T = INITIAL_GRIDS[rng.randrange(len(INITIAL_GRIDS))]
        pm = PyMesh.create(glue, X, T, flag_type=_np.bool_)
        ops = []
        for k in range(rng.randint(0, 8)):
            op = random_op(rng, pm, ['rt', 'rs', 'rb'], 0.5)
            ops.append(op)
            if pm.apply(op).startswith('err'):
                res.violation('C10:refinement-raises:numpy-bool-flag', dict(history=dict(glue=glue, X=[str(x) for x in X], T=[str(t) for t in T], ops=[list(o) for o in ops])))
                break
        res.count(('numpy-bool-flag', h, glue, len(ops)), bool(glue))
        bad = [b for b in oracle_mesh(pm.mesh, X, T, glue, check_nbrs=True) if b.startswith(('neighbours', 'flags', '1-irregular'))]
        if bad:
            res.violation('C10:' + bad[0].split(':')[0] + ':numpy-bool-flag',
                          dict(clause=bad[0], history=dict(glue_space='numpy.bool_(%s)' % bool(glue), X=[str(x) for x in X], T=[str(t) for t in T],
                                                           ops=[list(o) for o in ops])))
    n = (6 if tier == 'quick' else 60) * (3 if boost else 1)
    for h in range(n):
        glue, X, T = INITIAL_GRIDS[rng.randrange(len(INITIAL_GRIDS))]
        pm = PyMesh.create(glue, X, T)
        ops = []
        for k in range(rng.randint(8, 30)):
            if len(pm.mesh.leaf_elements) > 120:
                break
            op = random_op(rng, pm, ['rt', 'rs', 'rb', 'diso', 'daniso'], rng.choice([0.2, 0.5, 0.8]))
            ops.append(op)
            if pm.apply(op).startswith('err'):
                break
            bad = [b for b in oracle_mesh(pm.mesh, X, T, glue, check_nbrs=True)
                   if b.startswith(('neighbours', 'flags', '1-irregular'))]
            res.count(('search', h, k), True)
            if bad:
                hist = dict(glue=glue, X=[str(x) for x in X], T=[str(t) for t in T], ops=[op_json(o) for o in ops])
                res.violation('C10:' + bad[0].split(':')[0], dict(clause=bad[0], history=hist))
                break
